(** * Generated tie, target [utils]: [src/metador_core/container/utils.py].

    [Gen_utils.v] is written at check time by [tools/py2coq.py] from the current source;
    this committed file is compiled against it (it is NOT part of [_CoqProject]).  It proves
    the translated path functions and constants equal, for all inputs, to the hand model
    ([Toc/Layout.v]) that the string-level C08 theorems are about, and restates those
    theorems for the translated functions.

    Shape of every equivalence proof: inline the generated [let]s, rewrite Python builtins
    into model primitives ([pynorm]), rewrite the hand model into an if-then-else normal form
    (lemmas [*_nf] below, independent of the generated text), then decide the boolean
    structure by case analysis on the atomic tests ([py_atoms]). *)
From Coq Require Import List String Ascii NArith ZArith Bool Lia.
From MV Require Import Toc.Layout Toc.LayoutProofs Properties.C08.
From MV Require Import Gen.PyLib Gen.PyLibProofs.
From Gen Require Import Gen_utils.
Import ListNotations.
Local Open Scope string_scope.

(** ** Normal forms of the hand model (no generated text involved) *)

Lemma meta_base_segs_nf S d :
  meta_base_segs S d =
  if d then (removelast S ++ [(Layout.METADOR_META_PREF ++ last S "")%string])%list
  else if py_list_eqb String.eqb S [""; ""] then (removelast S ++ [Layout.METADOR_META_PREF])%list
  else (S ++ [Layout.METADOR_META_PREF])%list.
Proof.
  unfold meta_base_segs, set_last, last_seg. destruct d; [reflexivity|].
  destruct (str_list_eqb_spec S [""; ""]) as [->|n]; [reflexivity|].
  destruct S as [|[|] [|[|] [|]]]; try reflexivity. congruence.
Qed.

Lemma data_node_segs_nf S :
  data_node_segs S =
  let x := drop_str (String.length Layout.METADOR_META_PREF) (last S "") in
  let S1 := (removelast S ++ [x])%list in
  if String.eqb x "" && (Nat.ltb 2 (List.length S1) || negb (String.eqb (hd "" S1) ""))
  then removelast S1 else S1.
Proof.
  unfold data_node_segs, set_last, last_seg. cbv zeta.
  destruct (drop_str (String.length Layout.METADOR_META_PREF) (last S "")) eqn:E; reflexivity.
Qed.

Lemma existsb_ext' {X} (f g : X -> bool) l : (forall x, f x = g x) -> existsb f l = existsb g l.
Proof. intros H. induction l; simpl; congruence. Qed.

(** Destruct boolean variables left over as [if] conditions. *)
Ltac py_boolvars :=
  repeat match goal with
         | |- context [if ?b then _ else _] => is_var b; destruct b
         end.

Ltac gen_norm := cbv zeta; autorewrite with pynorm; unfold py_len, py_len_str.

(** ** Constants *)

Theorem gen_constants :
  Gen_utils.METADOR_PREF = Layout.METADOR_PREF /\
  Gen_utils.METADOR_META_PREF = Layout.METADOR_META_PREF /\
  Gen_utils.METADOR_TOC_PATH = Layout.METADOR_TOC_PATH /\
  Gen_utils.METADOR_VERSION_PATH = Layout.METADOR_VERSION_PATH /\
  Gen_utils.METADOR_UUID_PATH = Layout.METADOR_UUID_PATH /\
  Gen_utils.METADOR_PACKAGES_PATH = Layout.METADOR_PACKAGES_PATH /\
  Gen_utils.METADOR_SCHEMAS_PATH = Layout.METADOR_SCHEMAS_PATH /\
  Gen_utils.METADOR_LINKS_PATH = Layout.METADOR_LINKS_PATH.
Proof. repeat split; vm_compute; reflexivity. Qed.
Print Assumptions gen_constants.

Lemma gen_pref : Gen_utils.METADOR_PREF = Layout.METADOR_PREF.
Proof. apply gen_constants. Qed.
Lemma gen_meta_pref : Gen_utils.METADOR_META_PREF = Layout.METADOR_META_PREF.
Proof. apply gen_constants. Qed.

(** ** Equivalences *)

Theorem gen_is_internal_path_pref_equiv : forall p pref,
  Gen_utils.is_internal_path p pref = Layout.is_internal_path_pref p pref.
Proof.
  intros p pref. unfold Gen_utils.is_internal_path, Layout.is_internal_path_pref. gen_norm.
  change ("/" ++ pref) with (String slash pref).
  destruct (starts_with pref p), (has_sub (String slash pref) p); reflexivity.
Qed.
Print Assumptions gen_is_internal_path_pref_equiv.

Theorem gen_is_internal_path_equiv : forall p,
  Gen_utils.is_internal_path__dflt p = Layout.is_internal_path p.
Proof.
  intros p. unfold Gen_utils.is_internal_path__dflt, Layout.is_internal_path.
  rewrite gen_is_internal_path_pref_equiv, gen_pref. reflexivity.
Qed.
Print Assumptions gen_is_internal_path_equiv.

Theorem gen_is_meta_base_path_equiv : forall p,
  Gen_utils.is_meta_base_path p = Layout.is_meta_base_path p.
Proof.
  intros p. unfold Gen_utils.is_meta_base_path, Layout.is_meta_base_path, meta_seg, last_seg.
  gen_norm. rewrite ?gen_meta_pref. py_atoms.
Qed.
Print Assumptions gen_is_meta_base_path_equiv.

Theorem gen_to_meta_base_path_equiv : forall p d,
  Gen_utils.to_meta_base_path p d = Layout.to_meta_base_path p d.
Proof.
  intros p d. unfold Gen_utils.to_meta_base_path, Layout.to_meta_base_path.
  gen_norm. rewrite meta_base_segs_nf, ?gen_meta_pref.
  generalize (segs_of p); intros S. py_boolvars; py_atoms.
Qed.
Print Assumptions gen_to_meta_base_path_equiv.

Theorem gen_to_data_node_path_equiv : forall p,
  Gen_utils.to_data_node_path p = Layout.to_data_node_path p.
Proof.
  intros p. unfold Gen_utils.to_data_node_path, Layout.to_data_node_path.
  gen_norm. rewrite data_node_segs_nf, ?gen_meta_pref. cbv zeta.
  generalize (segs_of p); intros S. py_boolvars; py_atoms.
Qed.
Print Assumptions gen_to_data_node_path_equiv.

(** ** The string-level C08 theorems, restated for the translated code *)

Theorem gen_internal_iff_segment : forall p,
  Gen_utils.is_internal_path__dflt p =
  existsb (fun seg => py_startswith seg Gen_utils.METADOR_PREF) (py_split p "/").
Proof.
  intros p. rewrite gen_is_internal_path_equiv, C08_internal_iff_segment, py_split_slash.
  apply existsb_ext'. intros x. rewrite py_startswith_eq, gen_pref. reflexivity.
Qed.
Print Assumptions gen_internal_iff_segment.

Theorem gen_meta_path_roundtrip : forall p is_dataset,
  node_path_ok p is_dataset ->
  Gen_utils.to_data_node_path (Gen_utils.to_meta_base_path p is_dataset) = p.
Proof.
  intros p d H. rewrite gen_to_data_node_path_equiv, gen_to_meta_base_path_equiv.
  apply C08_meta_path_roundtrip, H.
Qed.
Print Assumptions gen_meta_path_roundtrip.

Theorem gen_meta_path_internal : forall p is_dataset,
  Gen_utils.is_internal_path__dflt (Gen_utils.to_meta_base_path p is_dataset) = true.
Proof.
  intros p d. rewrite gen_is_internal_path_equiv, gen_to_meta_base_path_equiv.
  apply C08_meta_path_internal.
Qed.
Print Assumptions gen_meta_path_internal.

Theorem gen_meta_path_is_base : forall p is_dataset,
  Gen_utils.is_meta_base_path (Gen_utils.to_meta_base_path p is_dataset) = true.
Proof.
  intros p d. rewrite gen_is_meta_base_path_equiv, gen_to_meta_base_path_equiv.
  apply C08_meta_path_is_base.
Qed.
Print Assumptions gen_meta_path_is_base.

Theorem gen_meta_path_inj : forall p d q e,
  node_path_ok p d -> node_path_ok q e ->
  Gen_utils.to_meta_base_path p d = Gen_utils.to_meta_base_path q e -> p = q /\ d = e.
Proof. intros p d q e. rewrite !gen_to_meta_base_path_equiv. apply C08_meta_path_inj. Qed.
Print Assumptions gen_meta_path_inj.
