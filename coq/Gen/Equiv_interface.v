(** * Generated tie, target [interface]: [PluginGroup.versions] and [PluginGroup.resolve] of
    [src/metador_core/plugin/interface.py] (with [PluginRef.supports] of schema/plugins.py).

    [Gen_interface.v] is written at check time by [tools/py2coq.py]; this committed file is
    compiled against it (NOT part of [_CoqProject]).  The state the two methods read -- the
    group's name and its version table [_VERSIONS] -- is the first argument [(g, t)].
    Equivalence with [versions] / [resolve] of [Util/PluginRef.v]; C16's [resolve_newest],
    [resolve_latest] and [versions_sorted_complete] restated for the translated functions. *)
From Coq Require Import List String NArith ZArith Bool Lia Sorted Permutation.
From MV Require Import Base.Cmp Util.PluginRef Util.PluginRefProofs Properties.C16.
From MV Require Import Gen.PyLib Gen.PyLibProofs.
From Gen Require Import Gen_interface.
Import ListNotations.
Local Open Scope string_scope.

Lemma gen_supports_equiv' : forall a b, PluginRef_supports a b = supports a b.
Proof.
  intros a b. unfold PluginRef_supports, supports, vmajor, vminor.
  destruct a as [g n v], b as [g' n' v']; cbn [rgroup rname rver]. py_atoms.
Qed.

Lemma filter_ext' {X} (f g : X -> bool) l : (forall x, f x = g x) -> filter f l = filter g l.
Proof. intros H. induction l as [|x l IH]; simpl; [reflexivity|]. rewrite H, IH. reflexivity. Qed.

Lemma filter_all {X} (f : X -> bool) l : (forall x, f x = true) -> filter f l = l.
Proof. intros H. induction l as [|x l IH]; simpl; [reflexivity|]. rewrite H, IH. reflexivity. Qed.

(** The registered list as the code reads it: [list(d.get(name) or [])]. *)
Lemma get_or_nil (t : table) n g :
  match py_pg_get (g, t) n with
  | Some l => if negb (py_is_nil l) then l else []
  | None => []
  end = tget t n.
Proof. unfold py_pg_get. cbn [snd]. destruct (tget t n); reflexivity. Qed.

Lemma last_map_some {X} (l : list X) d :
  last (map Some l) None = if negb (py_is_nil l) then Some (last l d) else None.
Proof.
  induction l as [|x [|y r] IH]; try reflexivity.
  change (last (map Some (y :: r)) None = Some (last (y :: r) d)). rewrite IH. reflexivity.
Qed.

(** Normalise the translated [versions]: whatever shape the source has (comprehension, loop
    with append, filter), it is a [filter] over the registered list. *)
Ltac versions_norm :=
  cbv zeta; rewrite ?get_or_nil; cbn [app]; rewrite ?app_nil_l, ?map_id.

Theorem gen_versions_equiv : forall g t n v, PluginGroup_versions (g, t) n v = versions t g n v.
Proof.
  intros g t n v. unfold PluginGroup_versions, versions, py_pg_ref. versions_norm.
  destruct v as [v|]; [|reflexivity]. cbn [fst].
  apply filter_ext'. intros r. apply gen_supports_equiv'.
Qed.
Print Assumptions gen_versions_equiv.

Theorem gen_resolve_equiv : forall g t n v, PluginGroup_resolve (g, t) n v = resolve t g n v.
Proof.
  intros g t n v. unfold PluginGroup_resolve, resolve. cbv zeta.
  rewrite gen_versions_equiv. symmetry. apply last_map_some.
Qed.
Print Assumptions gen_resolve_equiv.

(** ** C16 restated for the translated functions *)

Theorem gen_resolve_newest : forall rs g n (v : ver),
  match PluginGroup_resolve (g, register_all rs) n (Some v) with
  | Some r => In r rs /\ rname r = n /\ PluginRef_supports r (mkref g n v) = true /\
              forall r', In r' rs -> rname r' = n -> PluginRef_supports r' (mkref g n v) = true -> le_rel r' r
  | None => forall r', In r' rs -> rname r' = n -> PluginRef_supports r' (mkref g n v) = false
  end.
Proof.
  intros rs g n v. rewrite gen_resolve_equiv.
  generalize (C16_resolve_newest rs g n v).
  destruct (resolve (register_all rs) g n (Some v)); intros H.
  - destruct H as (H1 & H2 & H3 & H4). rewrite gen_supports_equiv'. repeat split; auto.
    intros r' I N S. rewrite gen_supports_equiv' in S. auto.
  - intros r' I N. rewrite gen_supports_equiv'. auto.
Qed.
Print Assumptions gen_resolve_newest.

Theorem gen_resolve_latest : forall rs g n,
  match PluginGroup_resolve (g, register_all rs) n None with
  | Some r => In r rs /\ rname r = n /\ forall r', In r' rs -> rname r' = n -> le_rel r' r
  | None => forall r', In r' rs -> rname r' <> n
  end.
Proof. intros rs g n. rewrite gen_resolve_equiv. apply C16_resolve_latest. Qed.
Print Assumptions gen_resolve_latest.

Theorem gen_versions_sorted_complete : forall rs g n,
  StronglySorted le_rel (PluginGroup_versions (g, register_all rs) n None) /\
  Permutation (PluginGroup_versions (g, register_all rs) n None) (filter (named n) rs).
Proof. intros rs g n. rewrite gen_versions_equiv. apply C16_versions_sorted_complete. Qed.
Print Assumptions gen_versions_sorted_complete.
