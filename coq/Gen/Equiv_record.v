(** * Generated tie, target [record]: file-name helpers of [src/metador_core/ih5/record.py].

    [Gen_record.v] is written at check time by [tools/py2coq.py]; this committed file is
    compiled against it (NOT part of [_CoqProject]).  Translated: [IH5Record._base_filename],
    [IH5Record._infer_name] with the class constants [_FILE_EXT], [_PATCH_INFIX];
    [pathlib.Path] values are read as their strings, [.name] as the last ["/"]-segment.
    Equivalence with [Rec/Names.v] ([base_filename], [infer_name]); C03's
    [infer_name_file_of] restated for the translated functions.

    Not translated (outside the subset): [_is_valid_record_name] (regular expression),
    [_next_patch_filepath] (reads the open file list and the user block of [self]). *)
From Coq Require Import List String Ascii NArith ZArith Bool Lia.
From MV Require Import Base.Sx Toc.Layout Toc.LayoutProofs Rec.Names Properties.C03.
From MV Require Import Gen.PyLib Gen.PyLibProofs.
From Gen Require Import Gen_record.
Import ListNotations.
Local Open Scope string_scope.

(** [s.split(sep)[0]] is the part in front of the first occurrence of [sep]. *)
Lemma prefix_strip sep s :
  String.prefix sep s = match strip sep s with Some _ => true | None => false end.
Proof.
  revert s; induction sep as [|a sep IH]; intros [|b s]; simpl; auto.
  destruct (ascii_dec a b) as [->|n].
  - rewrite Ascii.eqb_refl. apply IH.
  - apply Ascii.eqb_neq in n. rewrite n. reflexivity.
Qed.

Lemma hd_split_go sep s : sep <> "" -> forall cur,
  hd "" (py_split_go sep 0 s cur) = cur ++ before sep s.
Proof.
  intros NE. induction s as [|c s IH]; intros cur.
  - simpl. destruct sep; [congruence|]. simpl. symmetry. apply append_nil_r'.
  - cbn [py_split_go before]. rewrite prefix_strip.
    destruct (strip sep (String c s)).
    + simpl. symmetry. apply append_nil_r'.
    + rewrite IH. rewrite append_assoc'. reflexivity.
Qed.

Lemma hd_split sep s : sep <> "" -> hd "" (py_split s sep) = before sep s.
Proof.
  intros NE. unfold py_split. destruct sep as [|a sep]; [congruence|].
  rewrite hd_split_go by congruence. reflexivity.
Qed.

Theorem gen_base_filename_equiv : forall p, IH5Record_u_base_filename p = base_filename p.
Proof. intros p. reflexivity. Qed.
Print Assumptions gen_base_filename_equiv.

Theorem gen_infer_name_equiv : forall p,
  IH5Record_u_infer_name p = infer_name (py_path_name p).
Proof.
  intros p. unfold IH5Record_u_infer_name, infer_name.
  rewrite !hd_split by (vm_compute; discriminate). reflexivity.
Qed.
Print Assumptions gen_infer_name_equiv.

(** C03: the record name is recovered from the name of its base container file -- for the
    translated functions (a valid name has no ["/"], so [.name] is the whole file name). *)
Lemma name_char_not_slash c : name_char c = true -> Ascii.eqb c slash = false.
Proof.
  intros H. destruct (Ascii.eqb_spec c slash) as [->|]; [|reflexivity].
  vm_compute in H. discriminate.
Qed.

Lemma all_name_no_slash m : all_name m = true -> no_char slash m = true.
Proof.
  induction m as [|c m IH]; simpl; auto.
  intros H. apply andb_prop in H as [H1 H2].
  rewrite (name_char_not_slash c H1), IH by assumption. reflexivity.
Qed.

Lemma path_name_base m : valid_name m = true ->
  py_path_name (IH5Record_u_base_filename m) = IH5Record_u_base_filename m.
Proof.
  intros V. unfold py_path_name. rewrite py_split_slash. unfold segs_of.
  rewrite split_one; [reflexivity|].
  rewrite gen_base_filename_equiv. unfold base_filename. rewrite no_char_app.
  rewrite all_name_no_slash; [reflexivity|]. destruct m; [discriminate | exact V].
Qed.

Theorem gen_infer_name_base : forall m,
  valid_name m = true -> IH5Record_u_infer_name (IH5Record_u_base_filename m) = m.
Proof.
  intros m V. rewrite gen_infer_name_equiv, (path_name_base m V), gen_base_filename_equiv.
  exact (C03_infer_name_file_of m None V).
Qed.
Print Assumptions gen_infer_name_base.
