(** * Generated tie, target [types]: [src/metador_core/plugin/types.py].

    [Gen_types.v] is written at check time by [tools/py2coq.py]; this committed file is
    compiled against it (NOT part of [_CoqProject]).  Translated: [to_semver_str],
    [to_ep_name] (the phantom type [EPName(...)] read as the identity on its argument),
    [is_metador_ep_group], [to_ep_group_name], [from_ep_group_name].  Equivalence with the
    codec of [Util/PluginRef.v] for the first two; the group-name functions have no hand
    model and get their round-trip theorem directly on the translated code.

    Not translated (outside the subset, see tools/py2coq.py): [from_semver_str] and
    [from_ep_name] -- [int(...)] of arbitrary strings, [tuple(map(...))] of a list of
    unknown length, unpacking of a [split] result, regex validation by phantom types. *)
From Coq Require Import List String Ascii NArith ZArith Bool Lia.
From MV Require Import Base.Sx Util.PluginRef Toc.Layout Toc.LayoutProofs.
From MV Require Import Gen.PyLib Gen.PyLibProofs.
From Gen Require Import Gen_types.
Import ListNotations.
Local Open Scope string_scope.

Theorem gen_to_semver_str_equiv : forall v, Gen_types.to_semver_str v = semver_str v.
Proof. intros v. unfold Gen_types.to_semver_str, semver_str, py_str_of_N. reflexivity. Qed.
Print Assumptions gen_to_semver_str_equiv.

Theorem gen_to_ep_name_equiv : forall n v, Gen_types.to_ep_name n v = PluginRef.to_ep_name n v.
Proof.
  intros n v. unfold Gen_types.to_ep_name, PluginRef.to_ep_name.
  rewrite gen_to_semver_str_equiv. reflexivity.
Qed.
Print Assumptions gen_to_ep_name_equiv.

(** Directly on the translated code: the group-name codec. *)
Theorem gen_ep_group_roundtrip : forall g,
  Gen_types.from_ep_group_name (Gen_types.to_ep_group_name g) = g.
Proof.
  intros g. unfold Gen_types.from_ep_group_name, Gen_types.to_ep_group_name.
  cbv zeta. autorewrite with pynorm. apply drop_str_app.
Qed.
Print Assumptions gen_ep_group_roundtrip.

Theorem gen_ep_group_recognised : forall g,
  Gen_types.is_metador_ep_group (Gen_types.to_ep_group_name g) = true.
Proof.
  intros g. unfold Gen_types.is_metador_ep_group, Gen_types.to_ep_group_name.
  autorewrite with pynorm. reflexivity.
Qed.
Print Assumptions gen_ep_group_recognised.
