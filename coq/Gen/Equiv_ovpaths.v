(** * Generated tie, target [ovpaths]: path helpers of [IH5Node] in [src/metador_core/ih5/overlay.py].

    [Gen_ovpaths.v] is written at check time by [tools/py2coq.py] from the current source
    ([IH5Node._parent_path], [_rel_path], [_abs_path]; [self] is read as the string [self._gpath],
    the only state they use); this committed file is compiled against it (it is NOT part of
    [_CoqProject]).  There is no hand model of these three functions at string level (the overlay
    model [IH5/Overlay.v] works on segment lists), so the laws the overlay read path relies on are
    stated directly on the translated code, for all strings:

    - [_abs_path] returns absolute paths unchanged and prefixes relative ones with the node path
      (the root contributing the empty prefix), the result being absolute;
    - [_rel_path] undoes [_abs_path] on relative paths (round trip);
    - the root is its own parent, and the parent of the child [n] of [g] is [g];
    - segment-list reading ([segs], the representation of [IH5/Overlay*.v]): on well-formed node
      paths [_abs_path] appends the names of a relative path, [_parent_path] is [removelast],
      [_rel_path] returns the segments below the node ([gen_ov_seg_*]).

    Shape of the proofs: unfold the generated definition, normalise the Python builtins
    ([ovnorm]: [s[0]], [find(..) = 0] tests, [s[n:]], [split]/[join] on "/") and decide the
    remaining tests by case analysis on the strings involved. *)
From Coq Require Import List String Ascii NArith ZArith Bool Lia.
From MV Require Import Toc.Layout Toc.LayoutProofs.
From MV Require Import Gen.PyLib Gen.PyLibProofs.
From Gen Require Import Gen_ovpaths.
Import ListNotations.
Local Open Scope string_scope.

(** ** General string lemmas (no generated text involved) *)

(** First character as a string: the total reading of [s[0]]. *)
Definition first_chr (s : string) : string :=
  match s with EmptyString => EmptyString | String c _ => String c EmptyString end.

Lemma py_slice_first s : py_str_slice s (Some 0%Z) (Some 1%Z) = first_chr s.
Proof.
  destruct s as [|c s]; [reflexivity|].
  unfold py_str_slice, py_clamp. cbn [String.length Z.ltb Z.compare Z.to_nat Pos.to_nat Pos.iter_op Nat.add].
  cbn. destruct (String.length s); reflexivity.
Qed.

Lemma prefix_slash_cons c s :
  String.prefix "/" (String c s) = if ascii_dec "/"%char c then true else false.
Proof. cbn [String.prefix]. destruct (ascii_dec "/"%char c); [destruct s|]; reflexivity. Qed.

Lemma first_chr_slash s : String.eqb (first_chr s) "/" = String.prefix "/" s.
Proof.
  destruct s as [|c s]; [reflexivity|]. rewrite prefix_slash_cons. unfold first_chr.
  destruct (ascii_dec "/"%char c) as [<-|n]; [reflexivity|].
  apply String.eqb_neq. congruence.
Qed.

Lemma prefix_slash_inv s : String.prefix "/" s = true -> exists r, s = String "/"%char r.
Proof.
  destruct s as [|c s]; [discriminate|]. rewrite prefix_slash_cons.
  destruct (ascii_dec "/"%char c) as [<-|]; [eauto|discriminate].
Qed.

Lemma prefix_slash_false s : String.prefix "/" s = false ->
  s = "" \/ exists c r, s = String c r /\ c <> "/"%char.
Proof.
  destruct s as [|c s]; [auto|]. rewrite prefix_slash_cons.
  destruct (ascii_dec "/"%char c) as [<-|n]; [discriminate|].
  intros _. right. exists c, s. split; congruence.
Qed.

Lemma prefix_app a b : String.prefix a (a ++ b) = true.
Proof.
  induction a as [|c a IH]; simpl; [destruct b; reflexivity|].
  destruct (ascii_dec c c); [exact IH|congruence].
Qed.

Lemma index0_prefix g s : String.prefix g s = true -> String.index 0 g s = Some 0.
Proof.
  destruct s as [|c s]; cbn [String.index].
  - destruct g; [reflexivity|discriminate].
  - intros ->. reflexivity.
Qed.

(** [(g ++ r).find(g) = 0]. *)
Lemma py_find_prefix g r : py_find (g ++ r) g = 0%Z.
Proof. unfold py_find. rewrite index0_prefix by apply prefix_app. reflexivity. Qed.

Lemma index0_zero_prefix g s : String.index 0 g s = Some 0 -> String.prefix g s = true.
Proof.
  destruct s as [|c s]; cbn [String.index].
  - destruct g; [reflexivity|discriminate].
  - destruct (String.prefix g (String c s)); [reflexivity|].
    destruct (String.index 0 g s); discriminate.
Qed.

Lemma prefix_split a s : String.prefix a s = true -> exists r, s = a ++ r.
Proof.
  revert s; induction a as [|c a IH]; intros s.
  - simpl. eauto.
  - destruct s as [|d s]; cbn [String.prefix]; [intros; discriminate|].
    destruct (ascii_dec c d) as [<-|]; [|intros; discriminate].
    intros H. destruct (IH _ H) as [r ->]. exists r. reflexivity.
Qed.

(** [s.find(g) = 0] exactly if [s] starts with [g]. *)
Lemma py_find_zero_iff s g : py_find s g = 0%Z <-> exists r, s = g ++ r.
Proof.
  split.
  - unfold py_find. destruct (String.index 0 g s) as [n|] eqn:E; [|discriminate].
    intros H. assert (n = 0) by lia. subst. apply prefix_split, index0_zero_prefix, E.
  - intros [r ->]. apply py_find_prefix.
Qed.

(** The test [s.find(g) == 0] is [s.startswith(g)]; so are the other spellings of it. *)
Lemma py_find_eq0 s g : (py_find s g =? 0)%Z = String.prefix g s.
Proof.
  destruct (String.prefix g s) eqn:E.
  - unfold py_find. rewrite (index0_prefix _ _ E). reflexivity.
  - apply Z.eqb_neq. intros H. apply py_find_zero_iff in H as [r ->].
    rewrite prefix_app in E. discriminate.
Qed.

Lemma py_find_0eq s g : (0 =? py_find s g)%Z = String.prefix g s.
Proof. rewrite Z.eqb_sym. apply py_find_eq0. Qed.

Lemma py_find_le0 s g : (py_find s g <=? 0)%Z && has_sub g s = String.prefix g s.
Proof.
  rewrite <- py_find_eq0, <- py_find_ge0.
  destruct (Z.leb_spec (py_find s g) 0), (Z.leb_spec 0 (py_find s g)), (Z.eqb_spec (py_find s g) 0);
    simpl; try reflexivity; lia.
Qed.

Lemma py_startswith_prefix s p : py_startswith s p = String.prefix p s.
Proof. reflexivity. Qed.

Lemma py_slice_first' s : py_str_slice s None (Some 1%Z) = first_chr s.
Proof. destruct s as [|c s]; [reflexivity|]. unfold py_str_slice, py_clamp. cbn. destruct (String.length s); reflexivity. Qed.

(** [(a ++ b)[len(a) + k:] = b[k:]]. *)
Lemma py_slice_after a b k :
  py_str_slice (a ++ b) (Some (py_len_str a + Z.of_nat k)%Z) None = drop_str k b.
Proof.
  unfold py_len_str. rewrite <- Nat2Z.inj_add, py_slice_from_nat.
  induction a; simpl; auto.
Qed.

Lemma py_slice_after_z a b k z :
  z = Z.of_nat (String.length a + k) -> py_str_slice (a ++ b) (Some z) None = drop_str k b.
Proof.
  intros ->. rewrite Nat2Z.inj_add. apply py_slice_after.
Qed.

Lemma app_nil_r_str s : s ++ "" = s.
Proof. induction s; simpl; congruence. Qed.

Lemma app_assoc_str a b c : (a ++ b) ++ c = a ++ b ++ c.
Proof. induction a; simpl; congruence. Qed.

(** [(a + "/" + n).split("/")] for a name [n] without "/". *)
Lemma split_app_last c a n :
  no_char c n = true -> split c (a ++ String c n) = (split c a ++ [n])%list.
Proof.
  intros H. induction a as [|d a IH]; simpl.
  - rewrite Ascii.eqb_refl, (split_one _ _ H). reflexivity.
  - rewrite IH. destruct (Ascii.eqb d c); [reflexivity|].
    destruct (split c a) as [|h t] eqn:S; [now apply split_nonempty in S|]. reflexivity.
Qed.

Lemma removelast_snoc {X} (l : list X) x : removelast (l ++ [x]) = l.
Proof. apply removelast_last. Qed.

Lemma split_is_empty c s : split c s = [""] -> s = "".
Proof. intros H. rewrite <- (join_split c s), H. reflexivity. Qed.

(** ** Normalisation of the generated text *)

Lemma gpath_id g : py_node_gpath g = g.
Proof. reflexivity. Qed.

#[local] Hint Rewrite gpath_id py_slice_first py_slice_first' first_chr_slash py_split_slash py_join_slash
  py_find_eq0 py_find_0eq py_startswith_prefix negb_involutive : ovnorm.

Ltac ov_norm := cbv zeta; autorewrite with ovnorm.

(** The prefix contributed by the node path: empty for the root. *)
Definition ov_pref (g : string) : string := if String.eqb g "/" then "" else g.

(** ** [_abs_path] *)

Theorem gen_ov_abs_absolute : forall g path,
  String.prefix "/" path = true ->
  Gen_ovpaths.IH5Node_u_abs_path g path = path.
Proof.
  intros g path H. unfold Gen_ovpaths.IH5Node_u_abs_path. ov_norm. rewrite H.
  destruct (prefix_slash_inv _ H) as [r ->]. simpl.
  repeat match goal with |- context [if ?b then _ else _] => destruct b end; reflexivity.
Qed.
Print Assumptions gen_ov_abs_absolute.

(** [path] empty or not starting with "/" is exactly [String.prefix "/" path = false]. *)
Theorem gen_ov_abs_relative : forall g path,
  String.prefix "/" path = false ->
  Gen_ovpaths.IH5Node_u_abs_path g path = ov_pref g ++ "/" ++ path /\
  (String.prefix "/" g = true \/ g = "" ->
   String.prefix "/" (Gen_ovpaths.IH5Node_u_abs_path g path) = true).
Proof.
  intros g path H.
  assert (E : Gen_ovpaths.IH5Node_u_abs_path g path = ov_pref g ++ "/" ++ path).
  { unfold Gen_ovpaths.IH5Node_u_abs_path, ov_pref. ov_norm. rewrite H.
    rewrite ?andb_false_r, ?andb_false_l. destruct (String.eqb g "/"); simpl; rewrite ?app_assoc_str; reflexivity. }
  split; [exact E|]. rewrite E. unfold ov_pref. intros [G| ->].
  - destruct (String.eqb g "/"); [exact (prefix_app "/" path)|].
    destruct (prefix_slash_inv _ G) as [r ->]. exact (prefix_app "/" (r ++ "/" ++ path)).
  - exact (prefix_app "/" path).
Qed.
Print Assumptions gen_ov_abs_relative.

(** Both cases at once, with the two readings of "relative" ([path] empty, or first character
    not "/") spelled out. *)
Theorem gen_ov_abs_cases : forall g path,
  (path = "" \/ (exists c r, path = String c r /\ c <> "/"%char) ->
   Gen_ovpaths.IH5Node_u_abs_path g path = (if String.eqb g "/" then "" else g) ++ "/" ++ path) /\
  (forall r, path = String "/"%char r -> Gen_ovpaths.IH5Node_u_abs_path g path = path).
Proof.
  intros g path. split.
  - intros H. apply gen_ov_abs_relative.
    destruct H as [->|(c & r & -> & n)]; [reflexivity|]. rewrite prefix_slash_cons.
    destruct (ascii_dec "/"%char c); [congruence|reflexivity].
  - intros r ->. apply gen_ov_abs_absolute. exact (prefix_app "/" r).
Qed.
Print Assumptions gen_ov_abs_cases.

(** ** [_rel_path] *)

(** Relative paths are returned unchanged (the empty path raises IndexError in Python; the
    total reading returns it). *)
Theorem gen_ov_rel_relative : forall g path,
  String.prefix "/" path = false ->
  Gen_ovpaths.IH5Node_u_rel_path g path = inr path.
Proof.
  intros g path H. unfold Gen_ovpaths.IH5Node_u_rel_path. ov_norm. rewrite H. reflexivity.
Qed.
Print Assumptions gen_ov_rel_relative.

(** An absolute path not below the node path is refused with RuntimeError. *)
Theorem gen_ov_rel_mismatch : forall g path,
  String.prefix "/" path = true -> (forall r, path <> g ++ r) ->
  exists msg, Gen_ovpaths.IH5Node_u_rel_path g path = inl ("RuntimeError", msg).
Proof.
  intros g path H N. unfold Gen_ovpaths.IH5Node_u_rel_path. ov_norm. rewrite H.
  destruct (String.prefix g path) eqn:E.
  - apply prefix_split in E as [r ->]. now destruct (N r).
  - simpl. eauto.
Qed.
Print Assumptions gen_ov_rel_mismatch.

(** Stripping the node path: for [g <> "/"] the separator after it is dropped as well. *)
Theorem gen_ov_rel_strip : forall g r,
  String.prefix "/" (g ++ r) = true ->
  Gen_ovpaths.IH5Node_u_rel_path g (g ++ r) = inr (if String.eqb g "/" then r else drop_str 1 r).
Proof.
  intros g r H. unfold Gen_ovpaths.IH5Node_u_rel_path. ov_norm. rewrite H, prefix_app.
  destruct (String.eqb g "/") eqn:EG.
  - apply String.eqb_eq in EG. subst g. simpl. f_equal.
    apply (py_slice_after_z "/" r 0). vm_compute. reflexivity.
  - simpl. f_equal. apply (py_slice_after_z g r 1). unfold py_len_str. lia.
Qed.
Print Assumptions gen_ov_rel_strip.

(** Round trip: for a node path that is "/" or starts with "/" (in particular every well-formed
    one: absolute, no trailing "/"), [_rel_path] undoes [_abs_path] on every relative path. *)
Theorem gen_ov_rel_of_abs : forall g p,
  String.prefix "/" g = true ->
  String.prefix "/" p = false ->
  Gen_ovpaths.IH5Node_u_rel_path g (Gen_ovpaths.IH5Node_u_abs_path g p) = inr p.
Proof.
  intros g p G P. destruct (gen_ov_abs_relative g p P) as [E A]. specialize (A (or_introl G)).
  revert A. rewrite E. unfold ov_pref. destruct (String.eqb_spec g "/") as [->|n].
  - intros A. change ("" ++ "/" ++ p) with ("/" ++ p). rewrite (gen_ov_rel_strip "/" p A). reflexivity.
  - intros A. rewrite (gen_ov_rel_strip g ("/" ++ p) A).
    destruct (String.eqb_spec g "/"); [congruence|reflexivity].
Qed.
Print Assumptions gen_ov_rel_of_abs.

(** ** [_parent_path] *)

Theorem gen_ov_parent_root : Gen_ovpaths.IH5Node_u_parent_path "/" = "/".
Proof. vm_compute. reflexivity. Qed.
Print Assumptions gen_ov_parent_root.

(** The parent of the child [n] (a non-empty name without "/") of any node path [g <> ""] is [g]. *)
Theorem gen_ov_parent_of_child : forall g n,
  g <> "" -> n <> "" -> no_char slash n = true ->
  Gen_ovpaths.IH5Node_u_parent_path (Gen_ovpaths.IH5Node_u_abs_path g n) = g.
Proof.
  intros g n G Nn NC.
  assert (P : String.prefix "/" n = false).
  { destruct n as [|c n]; [reflexivity|]. rewrite prefix_slash_cons.
    cbn [no_char] in NC. apply andb_prop in NC as [NC _]. apply negb_true_iff in NC.
    destruct (ascii_dec "/"%char c) as [<-|]; [|reflexivity].
    unfold slash in NC. rewrite Ascii.eqb_refl in NC. discriminate. }
  destruct (gen_ov_abs_relative g n P) as [-> _].
  unfold Gen_ovpaths.IH5Node_u_parent_path. ov_norm.
  change ("/" ++ n) with (String slash n). unfold segs_of, path_of.
  rewrite (split_app_last _ _ _ NC), removelast_snoc.
  assert (NE : String.eqb (ov_pref g ++ String slash n) "/" = false).
  { apply String.eqb_neq. unfold ov_pref. destruct (String.eqb g "/").
    - simpl. destruct n; congruence.
    - destruct g as [|c g]; [congruence|]. simpl. destruct (g ++ String slash n) eqn:E; [|congruence].
      destruct g; discriminate. }
  rewrite NE. unfold ov_pref. destruct (String.eqb_spec g "/") as [->|n0].
  - reflexivity.
  - destruct (str_list_eqb_spec (split slash g) [""]) as [E|E].
    + apply split_is_empty in E. congruence.
    + apply join_split.
Qed.
Print Assumptions gen_ov_parent_of_child.

(** ** Segment-list reading of the three functions

    The overlay model ([IH5/Overlay*.v]) addresses nodes by segment lists.  [segs] reads an
    absolute path string as such a list (the root is [[]]); on well-formed node paths and names
    the translated string functions are exactly "append a segment" and "drop the last segment". *)

Definition segs (p : string) : list string :=
  if String.eqb p "/" then [] else List.tl (segs_of p).

(** Well-formed node path: the root, or absolute without empty segment (hence no trailing "/"). *)
Definition wf_abs (g : string) : Prop :=
  g = "/" \/ (String.prefix "/" g = true /\ ~ In "" (List.tl (segs_of g))).

Definition wf_name (n : string) : Prop := n <> "" /\ no_char slash n = true.

Lemma wf_name_relative n : wf_name n -> String.prefix "/" n = false.
Proof.
  intros [Nn NC]. destruct n as [|c n]; [reflexivity|]. rewrite prefix_slash_cons.
  cbn [no_char] in NC. apply andb_prop in NC as [NC _]. apply negb_true_iff in NC.
  destruct (ascii_dec "/"%char c) as [<-|]; [|reflexivity].
  unfold slash in NC. rewrite Ascii.eqb_refl in NC. discriminate.
Qed.

Lemma split_slash_cons r : split slash (String "/"%char r) = "" :: split slash r.
Proof. cbn [split]. unfold slash at 1. rewrite Ascii.eqb_refl. reflexivity. Qed.

Lemma tl_app_nonempty {X} (l r : list X) : l <> [] -> List.tl (l ++ r) = (List.tl l ++ r)%list.
Proof. destruct l; [congruence|reflexivity]. Qed.

Lemma in_removelast {X} (x : X) l : In x (removelast l) -> In x l.
Proof.
  induction l as [|a l IH]; [auto|]. destruct l as [|b l]; [intros []|].
  change (removelast (a :: b :: l)) with (a :: removelast (b :: l)).
  intros [->|H]; [left; reflexivity|right; apply IH, H].
Qed.

Lemma forall_removelast {X} (P : X -> Prop) l : Forall P l -> Forall P (removelast l).
Proof. intros H. apply Forall_forall. intros x I. eapply Forall_forall; [exact H|apply in_removelast, I]. Qed.

Lemma wf_abs_nonempty g : wf_abs g -> g <> "".
Proof. intros [->|[P _]]; [discriminate|]. destruct g; [discriminate|discriminate]. Qed.

(** [_abs_path] of a name appends one segment. *)
Theorem gen_ov_seg_abs_child : forall g n,
  wf_abs g -> wf_name n ->
  segs (Gen_ovpaths.IH5Node_u_abs_path g n) = (segs g ++ [n])%list.
Proof.
  intros g n G N. pose proof (wf_name_relative n N) as P. destruct N as [Nn NC].
  destruct (gen_ov_abs_relative g n P) as [-> _].
  change ("/" ++ n) with (String slash n). unfold segs, ov_pref.
  destruct (String.eqb_spec g "/") as [->|Ng].
  - cbn [append]. destruct (String.eqb_spec (String slash n) "/") as [E|_].
    + injection E as E. congruence.
    + unfold segs_of. rewrite split_slash_cons, (split_one _ _ NC). reflexivity.
  - destruct (String.eqb_spec (g ++ String slash n) "/") as [E|_].
    + exfalso. destruct g as [|c g]; [now apply wf_abs_nonempty in G|].
      injection E as _ E. destruct g; discriminate.
    + unfold segs_of. rewrite (split_app_last _ _ _ NC). apply tl_app_nonempty, split_nonempty.
Qed.
Print Assumptions gen_ov_seg_abs_child.

(** [_parent_path] drops the last segment (the root is its own parent: [removelast [] = []]). *)
Theorem gen_ov_seg_parent : forall g,
  wf_abs g ->
  segs (Gen_ovpaths.IH5Node_u_parent_path g) = removelast (segs g).
Proof.
  intros g G. unfold Gen_ovpaths.IH5Node_u_parent_path. ov_norm.
  destruct (String.eqb_spec g "/") as [->|Ng]; [reflexivity|].
  destruct G as [->|[P NE]]; [congruence|].
  destruct (prefix_slash_inv _ P) as [r ->].
  unfold segs at 2. destruct (String.eqb_spec (String "/"%char r) "/") as [E|_]; [congruence|].
  unfold segs_of in *. rewrite split_slash_cons in *. cbn [List.tl] in *.
  pose proof (split_no_char slash r) as NC.
  destruct (split slash r) as [|h t] eqn:S; [now apply split_nonempty in S|].
  change (removelast ("" :: h :: t)) with ("" :: removelast (h :: t)).
  destruct (removelast (h :: t)) as [|h' t'] eqn:R.
  - reflexivity.
  - destruct (str_list_eqb_spec ("" :: h' :: t') [""]) as [E|_]; [discriminate|].
    assert (NC' : Forall (fun x => no_char slash x = true) ("" :: h' :: t')).
    { constructor; [reflexivity|]. rewrite <- R. apply forall_removelast, NC. }
    unfold segs, path_of, segs_of.
    destruct (String.eqb_spec (join slash ("" :: h' :: t')) "/") as [E|_].
    + exfalso. apply (f_equal (split slash)) in E. rewrite split_join in E by (auto; discriminate).
      cbv in E. injection E as -> ->. apply NE, in_removelast. rewrite R. left. reflexivity.
    + rewrite split_join by (auto; discriminate). reflexivity.
Qed.
Print Assumptions gen_ov_seg_parent.

(** Relative paths of several names: [n1/../nk] with well-formed names. *)
Lemma split_app_join c a ns :
  ns <> [] -> Forall (fun x => no_char c x = true) ns ->
  split c (a ++ String c (join c ns)) = (split c a ++ ns)%list.
Proof.
  intros NE H. induction a as [|d a IH]; simpl.
  - rewrite Ascii.eqb_refl, split_join by assumption. reflexivity.
  - rewrite IH. destruct (Ascii.eqb d c); [reflexivity|].
    destruct (split c a) as [|h t] eqn:S; [now apply split_nonempty in S|]. reflexivity.
Qed.

Lemma wf_names_no_char ns : Forall wf_name ns -> Forall (fun x => no_char slash x = true) ns.
Proof. intros H. eapply Forall_impl; [|exact H]. intros x [_ N]. exact N. Qed.

Lemma wf_name_app_relative n x : wf_name n -> String.prefix "/" (n ++ x) = false.
Proof.
  intros N. pose proof (wf_name_relative n N) as P. destruct N as [Nn _].
  destruct n as [|c n]; [congruence|]. cbn [append]. rewrite prefix_slash_cons in *. exact P.
Qed.

Lemma join_names_shape ns : ns <> [] -> Forall wf_name ns ->
  exists n x, wf_name n /\ join slash ns = n ++ x.
Proof.
  intros NE H. destruct ns as [|n r]; [congruence|]. inversion H; subst. exists n.
  destruct r as [|m r].
  - exists "". split; [assumption|]. simpl. symmetry. apply app_nil_r_str.
  - exists (String slash (join slash (m :: r))). split; [assumption|]. apply join_cons2.
Qed.

Lemma segs_slash_join ns : ns <> [] -> Forall wf_name ns -> segs ("/" ++ join slash ns) = ns.
Proof.
  intros NE H. destruct (join_names_shape ns NE H) as (n & x & [Nn _] & E).
  change ("/" ++ join slash ns) with (String "/"%char (join slash ns)). unfold segs, segs_of.
  destruct (String.eqb_spec (String "/"%char (join slash ns)) "/") as [E'|_].
  - injection E' as E'. rewrite E in E'. destruct n; [congruence|discriminate].
  - rewrite split_slash_cons, split_join by auto using wf_names_no_char. reflexivity.
Qed.

Theorem gen_ov_seg_abs_rel : forall g ns,
  wf_abs g -> ns <> [] -> Forall wf_name ns ->
  segs (Gen_ovpaths.IH5Node_u_abs_path g (join slash ns)) = (segs g ++ ns)%list.
Proof.
  intros g ns G NE H. destruct (join_names_shape ns NE H) as (n & x & N & E).
  assert (P : String.prefix "/" (join slash ns) = false) by (rewrite E; apply wf_name_app_relative, N).
  destruct (gen_ov_abs_relative g _ P) as [-> _].
  change ("/" ++ join slash ns) with (String slash (join slash ns)). unfold ov_pref.
  destruct (String.eqb_spec g "/") as [->|Ng].
  - exact (segs_slash_join ns NE H).
  - unfold segs. destruct (String.eqb_spec g "/"); [congruence|].
    destruct (String.eqb_spec (g ++ String slash (join slash ns)) "/") as [E'|_].
    + exfalso. destruct g as [|c g]; [now apply wf_abs_nonempty in G|].
      injection E' as _ E'. destruct g; discriminate.
    + unfold segs_of. rewrite split_app_join by auto using wf_names_no_char.
      apply tl_app_nonempty, split_nonempty.
Qed.
Print Assumptions gen_ov_seg_abs_rel.

Lemma wf_abs_absolute g : wf_abs g -> String.prefix "/" g = true.
Proof. intros [->|[P _]]; [reflexivity|exact P]. Qed.

(** [_rel_path] gives back the relative part: the segments below the node. *)
Theorem gen_ov_seg_rel : forall g ns,
  wf_abs g -> ns <> [] -> Forall wf_name ns ->
  exists p, Gen_ovpaths.IH5Node_u_rel_path g (Gen_ovpaths.IH5Node_u_abs_path g (join slash ns)) = inr p /\
            segs ("/" ++ p) = ns /\
            segs (Gen_ovpaths.IH5Node_u_abs_path g (join slash ns)) = (segs g ++ segs ("/" ++ p))%list.
Proof.
  intros g ns G NE H. destruct (join_names_shape ns NE H) as (n & x & N & E).
  assert (P : String.prefix "/" (join slash ns) = false) by (rewrite E; apply wf_name_app_relative, N).
  exists (join slash ns). split; [|split].
  - apply gen_ov_rel_of_abs; [apply wf_abs_absolute, G|exact P].
  - apply segs_slash_join; assumption.
  - rewrite (segs_slash_join ns NE H). apply gen_ov_seg_abs_rel; assumption.
Qed.
Print Assumptions gen_ov_seg_rel.
