(** * Lemmas about [Gen/PyLib.v]: bridges from the translator's Python builtins to the
    primitives of the hand-written models ([Toc/Layout.v], [Base/Cmp.v]), reflection
    lemmas, and the tactic [py_atoms] used by the equivalence proofs [Gen/Equiv_*.v].

    The equivalence proofs are about *generated* terms whose shape follows the Python
    source.  To survive harmless rewrites of the source they first rewrite builtins into
    model primitives ([autorewrite with pynorm]) and then decide the remaining boolean
    structure by case analysis on the atomic tests ([py_atoms]), closing each case by
    computation, [congruence] or [lia]. *)
From Coq Require Import List String Ascii NArith ZArith Bool Lia.
From MV Require Import Base.Sx Base.Cmp Toc.Layout Toc.LayoutProofs Gen.PyLib.
Import ListNotations.
Local Open Scope string_scope.

(** ** str primitives *)

Lemma append_nil_r' s : s ++ "" = s.
Proof. induction s; simpl; congruence. Qed.

Lemma append_assoc' a b c : (a ++ b) ++ c = a ++ b ++ c.
Proof. induction a; simpl; congruence. Qed.

Lemma prefix_starts_with p s : String.prefix p s = starts_with p s.
Proof.
  revert s; induction p as [|a p IH]; intros [|b s]; simpl; auto.
  destruct (ascii_dec a b) as [->|n].
  - rewrite Ascii.eqb_refl. simpl. apply IH.
  - apply Ascii.eqb_neq in n. rewrite n. reflexivity.
Qed.

Lemma py_startswith_eq s p : py_startswith s p = starts_with p s.
Proof. apply prefix_starts_with. Qed.

Lemma index0_has_sub sub s :
  match String.index 0 sub s with Some _ => true | None => false end = has_sub sub s.
Proof.
  induction s as [|c s IH].
  - destruct sub; reflexivity.
  - cbn [String.index has_sub]. rewrite prefix_starts_with.
    destruct (starts_with sub (String c s)); simpl; auto.
    rewrite <- IH. destruct (String.index 0 sub s); reflexivity.
Qed.

Lemma py_contains_eq s sub : py_contains s sub = has_sub sub s.
Proof. apply index0_has_sub. Qed.

(** [s.find(sub)] is [-1] exactly when [sub] does not occur, non-negative otherwise. *)
Lemma py_find_cases s sub :
  (py_find s sub = (-1)%Z /\ has_sub sub s = false) \/
  ((0 <= py_find s sub)%Z /\ has_sub sub s = true).
Proof.
  unfold py_find. rewrite <- index0_has_sub.
  destruct (String.index 0 sub s); [right|left]; split; auto; lia.
Qed.

(** Every spelling of "found" / "not found". *)
Lemma py_find_ge0 s sub : (0 <=? py_find s sub)%Z = has_sub sub s.
Proof. destruct (py_find_cases s sub) as [[E H]|[E H]]; rewrite H; [rewrite E; reflexivity | apply Z.leb_le; exact E]. Qed.
Lemma py_find_gtm1 s sub : ((-1) <? py_find s sub)%Z = has_sub sub s.
Proof. destruct (py_find_cases s sub) as [[E H]|[E H]]; rewrite H; [rewrite E; reflexivity | apply Z.ltb_lt; lia]. Qed.
Lemma py_find_lt0 s sub : (py_find s sub <? 0)%Z = negb (has_sub sub s).
Proof. destruct (py_find_cases s sub) as [[E H]|[E H]]; rewrite H; [rewrite E; reflexivity | apply Z.ltb_ge; exact E]. Qed.
Lemma py_find_lem1 s sub : (py_find s sub <=? (-1))%Z = negb (has_sub sub s).
Proof. destruct (py_find_cases s sub) as [[E H]|[E H]]; rewrite H; [rewrite E; reflexivity | apply Z.leb_gt; lia]. Qed.
Lemma py_find_eqm1 s sub : (py_find s sub =? (-1))%Z = negb (has_sub sub s).
Proof. destruct (py_find_cases s sub) as [[E H]|[E H]]; rewrite H; [rewrite E; reflexivity | apply Z.eqb_neq; lia]. Qed.
Lemma py_find_m1eq s sub : ((-1) =? py_find s sub)%Z = negb (has_sub sub s).
Proof. rewrite Z.eqb_sym. apply py_find_eqm1. Qed.

(** [split] on a one-character separator is the model's [split]. *)
Lemma py_split_go_char c s : forall cur,
  py_split_go (String c EmptyString) 0 s cur =
  match split c s with
  | h :: t => (cur ++ h) :: t
  | [] => [cur]
  end.
Proof.
  induction s as [|a s IH]; intros cur.
  - simpl. rewrite append_nil_r'. reflexivity.
  - cbn [py_split_go split String.prefix String.length Nat.sub].
    pose proof (split_nonempty c s) as NE.
    destruct (ascii_dec c a) as [->|n].
    + rewrite Ascii.eqb_refl.
      assert (E : String.prefix EmptyString s = true) by (destruct s; reflexivity).
      rewrite E. rewrite IH. rewrite append_nil_r'.
      destruct (split a s); [congruence | reflexivity].
    + assert (E : Ascii.eqb a c = false) by (apply Ascii.eqb_neq; congruence).
      rewrite E. rewrite IH.
      destruct (split c s) as [|h t]; [congruence|].
      rewrite append_assoc'. reflexivity.
Qed.

Lemma py_split_char c s : py_split s (String c EmptyString) = split c s.
Proof.
  unfold py_split. rewrite py_split_go_char.
  pose proof (split_nonempty c s) as NE.
  destruct (split c s); [congruence | reflexivity].
Qed.

(** [rsplit(c, 1)] / [rpartition(c)] against the model's [split]: same last segment. *)
Lemma py_rsplit1_go_char c s :
  match py_rsplit1_go (String c EmptyString) s with
  | Some (h, t) => exists l, split c s = (l ++ [t])%list /\ l <> []
  | None => split c s = [s]
  end.
Proof.
  induction s as [|a r IH].
  - reflexivity.
  - cbn [py_rsplit1_go split String.prefix String.length str_drop].
    destruct (py_rsplit1_go (String c EmptyString) r) as [[h t]|].
    + destruct IH as (l & E & NE). rewrite E.
      destruct (Ascii.eqb a c).
      * exists (EmptyString :: l). split; [reflexivity | discriminate].
      * destruct l as [|h' l']; [congruence|]. exists (String a h' :: l'). split; [reflexivity | discriminate].
    + rewrite IH. destruct (ascii_dec c a) as [->|n].
      * rewrite Ascii.eqb_refl. assert (E : String.prefix EmptyString r = true) by (destruct r; reflexivity).
        rewrite E. exists [EmptyString]. split; [reflexivity | discriminate].
      * assert (E : Ascii.eqb a c = false) by (apply Ascii.eqb_neq; congruence). rewrite E. reflexivity.
Qed.

Lemma py_rsplit1_last c s :
  List.last (py_rsplit1 s (String c EmptyString)) EmptyString = List.last (split c s) EmptyString.
Proof.
  unfold py_rsplit1. pose proof (py_rsplit1_go_char c s) as H.
  destruct (py_rsplit1_go (String c EmptyString) s) as [[h t]|].
  - destruct H as (l & E & _). rewrite E, last_last. reflexivity.
  - rewrite H. reflexivity.
Qed.

Lemma py_rsplit1_last_slash s : List.last (py_rsplit1 s "/") "" = List.last (segs_of s) "".
Proof. apply py_rsplit1_last. Qed.

Lemma py_rpartition_last c s :
  snd (snd (py_rpartition s (String c EmptyString))) = List.last (split c s) EmptyString.
Proof.
  unfold py_rpartition. pose proof (py_rsplit1_go_char c s) as H.
  destruct (py_rsplit1_go (String c EmptyString) s) as [[h t]|].
  - destruct H as (l & E & _). rewrite E, last_last. reflexivity.
  - rewrite H. reflexivity.
Qed.

Lemma py_rpartition_last_slash s : snd (snd (py_rpartition s "/")) = List.last (segs_of s) "".
Proof. apply py_rpartition_last. Qed.

Lemma py_split_slash s : py_split s "/" = segs_of s.
Proof. apply py_split_char. Qed.

Lemma py_join_char c l : py_join (String c EmptyString) l = join c l.
Proof.
  induction l as [|x [|y r] IH]; try reflexivity.
  change (x ++ String c EmptyString ++ py_join (String c EmptyString) (y :: r) = x ++ String c (join c (y :: r))).
  rewrite IH. reflexivity.
Qed.

Lemma py_join_slash l : py_join "/" l = path_of l.
Proof. apply py_join_char. Qed.

Lemma str_drop_eq n s : str_drop n s = drop_str n s.
Proof. revert s; induction n; intros [|c s]; simpl; auto. Qed.

Lemma str_take_all n s : String.length s <= n -> str_take n s = s.
Proof.
  revert s; induction n; intros [|c s]; simpl; auto; try lia.
  intros H. rewrite IHn by lia. reflexivity.
Qed.

Lemma str_drop_length n s : String.length (str_drop n s) = String.length s - n.
Proof. revert s; induction n; intros [|c s]; simpl; auto. Qed.

(** [s[n:]] for a non-negative literal / [len(...)] bound. *)
Lemma py_slice_from_nat s n :
  py_str_slice s (Some (Z.of_nat n)) None = drop_str n s.
Proof.
  unfold py_str_slice, py_clamp.
  assert (E : (Z.of_nat n <? 0)%Z = false) by (apply Z.ltb_ge; lia). rewrite E.
  rewrite Nat2Z.id.
  destruct (Nat.le_gt_cases n (String.length s)) as [H|H].
  - rewrite Nat.min_r by lia. rewrite str_take_all by (rewrite str_drop_length; lia).
    apply str_drop_eq.
  - rewrite Nat.min_l by lia. rewrite Nat.sub_diag. simpl.
    symmetry. rewrite <- str_drop_eq.
    assert (L : String.length (str_drop n s) = 0) by (rewrite str_drop_length; lia).
    destruct (str_drop n s); [reflexivity | discriminate].
Qed.

Lemma py_slice_from_len s p :
  py_str_slice s (Some (py_len_str p)) None = drop_str (String.length p) s.
Proof. apply py_slice_from_nat. Qed.

(** ** equality tests *)

Lemma py_list_eqb_spec {X} (eq : X -> X -> bool) :
  (forall x y, reflect (x = y) (eq x y)) -> forall l1 l2, reflect (l1 = l2) (py_list_eqb eq l1 l2).
Proof.
  intros He. induction l1 as [|x l1 IH]; intros [|y l2]; simpl; try (constructor; congruence).
  destruct (He x y) as [->|n]; simpl; [|constructor; congruence].
  destruct (IH l2) as [->|n]; constructor; congruence.
Qed.

Lemma py_pair_eqb_spec {X Y} (ex : X -> X -> bool) (ey : Y -> Y -> bool) :
  (forall x y, reflect (x = y) (ex x y)) -> (forall x y, reflect (x = y) (ey x y)) ->
  forall p q, reflect (p = q) (py_pair_eqb ex ey p q).
Proof.
  intros Hx Hy [a b] [c d]; unfold py_pair_eqb; simpl.
  destruct (Hx a c) as [->|n]; simpl; [|constructor; congruence].
  destruct (Hy b d) as [->|n]; constructor; congruence.
Qed.

Lemma str_list_eqb_spec l1 l2 : reflect (l1 = l2) (py_list_eqb String.eqb l1 l2).
Proof. apply py_list_eqb_spec, String.eqb_spec. Qed.

Lemma ver_eqb_spec (p q : N * (N * N)) :
  reflect (p = q) (py_pair_eqb N.eqb (py_pair_eqb N.eqb N.eqb) p q).
Proof. apply py_pair_eqb_spec; [|apply py_pair_eqb_spec]; apply N.eqb_spec. Qed.

(** ** three-way comparisons as atoms *)

Lemma cmp_leb_geb {X} (c : X -> X -> comparison) : cmp_ok c -> forall x y, Cmp.leb c x y = Cmp.geb c y x.
Proof. intros H x y. symmetry. apply geb_leb; exact H. Qed.

Lemma cmp_eq_refl {X} (c : X -> X -> comparison) : cmp_ok c -> forall x, c x x = Eq.
Proof. intros H x. apply (c_refl H). Qed.

Lemma cmp_eq_inv {X} (c : X -> X -> comparison) : cmp_ok c -> forall x y, c x y = Eq -> x = y.
Proof. intros H x y. apply (c_eq H). Qed.

(** Lexicographic comparison of two literal tuples, one component at a time. *)
Lemma pcmp_pair {X Y} (cx : X -> X -> comparison) (cy : Y -> Y -> comparison) a b a' b' :
  pcmp cx cy (a, b) (a', b') = lex (cx a a') (cy b b').
Proof. reflexivity. Qed.

Lemma N3_cmp_ok : cmp_ok (pcmp N.compare (pcmp N.compare N.compare)).
Proof. apply pcmp_ok; [apply N_cmp_ok | apply pcmp_ok; apply N_cmp_ok]. Qed.

#[export] Hint Rewrite py_startswith_eq py_contains_eq py_find_ge0 py_find_gtm1 py_find_lt0
  py_find_lem1 py_find_eqm1 py_find_m1eq py_split_slash py_join_slash py_slice_from_len
  py_rsplit1_last_slash py_rpartition_last_slash : pynorm.
#[export] Hint Rewrite @last_last : pynorm.

(** ** [py_atoms]: decide an equation between boolean combinations of atomic tests.

    Destructs, one at a time, every atomic test still present in the goal (string, number,
    list and tuple equalities, number orderings, three-way comparisons [scmp]/[pcmp ...] of
    *variables*, boolean variables), keeping the corresponding fact, and tries to close each
    leaf by computation, [congruence] or [lia]. *)
Ltac py_leaf :=
  cbn [andb orb negb CompOpp]; try reflexivity; try congruence; try lia.

Ltac cmp_ok_tac := repeat apply pcmp_ok; auto using scmp_ok, N_cmp_ok.

Ltac py_cmp3 c ok a b :=
  let C := fresh "C" in
  destruct (c a b) eqn:C; [apply (cmp_eq_inv c ok) in C; try subst | | ].

Ltac py_step :=
  match goal with
  | |- context [String.eqb ?a ?b] => destruct (String.eqb_spec a b); try subst
  | |- context [py_list_eqb String.eqb ?a ?b] => destruct (str_list_eqb_spec a b); try subst
  | |- context [py_pair_eqb N.eqb (py_pair_eqb N.eqb N.eqb) ?a ?b] => destruct (ver_eqb_spec a b); try subst
  | |- context [N.eqb ?a ?b] => destruct (N.eqb_spec a b)
  | |- context [N.ltb ?a ?b] => destruct (N.ltb_spec a b)
  | |- context [N.leb ?a ?b] => destruct (N.leb_spec a b)
  | |- context [Z.eqb ?a ?b] => destruct (Z.eqb_spec a b)
  | |- context [Z.ltb ?a ?b] => destruct (Z.ltb_spec a b)
  | |- context [Z.leb ?a ?b] => destruct (Z.leb_spec a b)
  | |- context [Nat.eqb ?a ?b] => destruct (Nat.eqb_spec a b)
  | |- context [Nat.ltb ?a ?b] => destruct (Nat.ltb_spec a b)
  | |- context [Nat.leb ?a ?b] => destruct (Nat.leb_spec a b)
  | |- context [Bool.eqb ?a ?b] => destruct (Bool.eqb_spec a b)
  | |- context [scmp ?a ?a] => rewrite (cmp_eq_refl scmp scmp_ok a)
  | |- context [pcmp N.compare (pcmp N.compare N.compare) ?a ?a] =>
      rewrite (cmp_eq_refl (pcmp N.compare (pcmp N.compare N.compare)) N3_cmp_ok a)
  | |- context [scmp ?a ?b] =>
      match goal with |- context [scmp b a] => rewrite (c_anti scmp_ok b a) end
  | |- context [pcmp N.compare (pcmp N.compare N.compare) ?a ?b] =>
      match goal with |- context [pcmp N.compare (pcmp N.compare N.compare) b a] =>
        rewrite (c_anti N3_cmp_ok b a) end
  | |- context [scmp ?a ?b] => py_cmp3 scmp scmp_ok a b
  | |- context [pcmp N.compare (pcmp N.compare N.compare) ?a ?b] =>
      py_cmp3 (pcmp N.compare (pcmp N.compare N.compare)) N3_cmp_ok a b
  | |- context [if ?b then _ else _] => is_var b; destruct b
  | |- context [andb ?b _] => is_var b; destruct b
  | |- context [andb _ ?b] => is_var b; destruct b
  | |- context [orb ?b _] => is_var b; destruct b
  | |- context [orb _ ?b] => is_var b; destruct b
  | |- context [negb ?b] => is_var b; destruct b
  end.

(** [py_atoms_with tac]: [tac] is an extra leaf closer. *)
Ltac py_atoms_with tac := py_leaf; try tac; repeat (py_step; py_leaf; try tac).
Ltac py_atoms := py_atoms_with fail.

(** [py_atoms_fast]: when the atomic tests occur in the same spelling on both sides, treat them
    as unknown booleans and check the truth table (no arithmetic reasoning; much faster).
    [py_decide] tries that first and falls back to [py_atoms]. *)
Ltac py_abstract :=
  repeat match goal with
         | |- context [String.eqb ?a ?b] => let v := fresh "t" in generalize (String.eqb a b); intro v
         | |- context [N.eqb ?a ?b] => let v := fresh "t" in generalize (N.eqb a b); intro v
         | |- context [N.ltb ?a ?b] => let v := fresh "t" in generalize (N.ltb a b); intro v
         | |- context [N.leb ?a ?b] => let v := fresh "t" in generalize (N.leb a b); intro v
         | |- context [Z.eqb ?a ?b] => let v := fresh "t" in generalize (Z.eqb a b); intro v
         | |- context [Z.ltb ?a ?b] => let v := fresh "t" in generalize (Z.ltb a b); intro v
         | |- context [Z.leb ?a ?b] => let v := fresh "t" in generalize (Z.leb a b); intro v
         end.

Ltac py_truth_table :=
  repeat match goal with
         | |- context [if ?b then _ else _] => is_var b; destruct b
         | |- context [andb ?b _] => is_var b; destruct b
         | |- context [orb ?b _] => is_var b; destruct b
         | |- context [negb ?b] => is_var b; destruct b
         end; cbn [andb orb negb]; reflexivity.

Ltac py_atoms_fast := py_abstract; py_truth_table.
Ltac py_decide := solve [py_atoms_fast] || py_atoms.
