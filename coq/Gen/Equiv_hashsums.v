(** * Generated tie, target [hashsums]: [qualified_hashsum] of [src/metador_core/util/hashsums.py].

    [Gen_hashsums.v] is written at check time by [tools/py2coq.py]; this committed file is
    compiled against it (NOT part of [_CoqProject]).  The digest function [hashsum] (hashlib)
    is an opaque parameter of the translated function.  Equivalence with [qualified] of
    [Util/DirHash.v]; C19's [prefix_distinct] restated for the translated function.

    [hashsum] itself: the table of constructors [_hash_alg], the constructor call and the
    hasher's [block_size] / [update] / [hexdigest] are parameters (an abstract streaming
    hash); the argument is a stream ([PyLib.py_stream]: content + hints that make reads
    short); the read loop is [PyLib.py_read_loop].  [gen_hashsum_equiv]: on full reads it is
    [DirHash.hashsum] (the fold over [chunks n]); [gen_hashsum_eq_oneshot]: for any block
    size and any cutting of the stream by short reads it is the one-shot digest.
    Private helpers the translator extracted on its own (e.g. a [_new_hasher]) are registered
    in the unfold database [pygen] by the generated file and are inlined first. *)
From Coq Require Import List String Ascii NArith ZArith Bool Lia.
From MV Require Import Util.DirHash Properties.C19.
From MV Require Import Gen.PyLib Gen.PyLibProofs.
From Gen Require Import Gen_hashsums.
Import ListNotations.
Local Open Scope string_scope.

Theorem gen_qualified_equiv : forall (Bytes : Type) (hs : Bytes -> string -> string) data a,
  qualified_hashsum Bytes hs data (alg_name a) = qualified a (hs data (alg_name a)).
Proof. intros. unfold qualified_hashsum, qualified. cbv zeta. rewrite ?append_assoc'. reflexivity. Qed.
Print Assumptions gen_qualified_equiv.

Theorem gen_qualified_default : forall (Bytes : Type) (hs : Bytes -> string -> string) data,
  qualified_hashsum Bytes hs data Gen_hashsums.DEF_HASH_ALG = qualified Sha256 (hs data "sha256").
Proof. intros. reflexivity. Qed.
Print Assumptions gen_qualified_default.

Theorem gen_prefix_distinct : forall (Bytes : Type) (hs : Bytes -> string -> string) data a x,
  qualified_hashsum Bytes hs data (alg_name a) <> symlink_prefix ++ x.
Proof. intros. rewrite gen_qualified_equiv. apply C19_prefix_distinct. Qed.
Print Assumptions gen_prefix_distinct.

(** ** The read loop of [hashsum] *)

Section Loop.
  Variables (HS : Type) (bsz : HS -> Z) (upd : HS -> list ascii -> HS).
  Hypothesis bsz_upd : forall s c, bsz (upd s c) = bsz s.

  Lemma firstn_min {X} n (l : list X) : firstn (Nat.min n (List.length l)) l = firstn n l.
  Proof.
    destruct (Nat.le_gt_cases n (List.length l)) as [H|H].
    - rewrite Nat.min_l by exact H. reflexivity.
    - rewrite Nat.min_r by lia. rewrite !firstn_all2 by lia. reflexivity.
  Qed.

  Lemma skipn_min {X} n (l : list X) : skipn (Nat.min n (List.length l)) l = skipn n l.
  Proof.
    destruct (Nat.le_gt_cases n (List.length l)) as [H|H].
    - rewrite Nat.min_l by exact H. reflexivity.
    - rewrite Nat.min_r by lia. rewrite !skipn_all2 by lia. reflexivity.
  Qed.

  Lemma loop_go_S {X} fuel (size : X -> Z) step d s :
    py_read_loop_go (S fuel) size step d s =
    let '(c, d') := py_read d (size s) in
    match c with [] => (s, d') | _ => py_read_loop_go fuel size step d' (step s c) end.
  Proof. reflexivity. Qed.

  (** Full reads (no hints): the blocks are [chunks n]. *)
  Lemma loop_full n : n > 0 -> forall fuel bs s,
    List.length bs <= fuel -> bsz s = Z.of_nat n ->
    fst (py_read_loop_go (S fuel) bsz upd (MkStream bs []) s) = fold_left upd (chunks_fuel fuel n bs) s.
  Proof.
    intros Hn. induction fuel as [|f IH]; intros bs s Hl Hs.
    - destruct bs; [|simpl in Hl; lia].
      rewrite loop_go_S. unfold py_read. cbn [st_rest st_short]. rewrite firstn_nil. reflexivity.
    - rewrite loop_go_S. cbn [chunks_fuel]. unfold py_read. cbn [st_rest st_short tl].
      rewrite Hs. assert (E : (Z.of_nat n <? 0)%Z = false) by (apply Z.ltb_ge; lia). rewrite E.
      rewrite Nat2Z.id, firstn_min, skipn_min.
      destruct (firstn n bs) as [|a c] eqn:F; [reflexivity|].
      cbv beta iota zeta. cbn [fold_left]. rewrite IH.
      + reflexivity.
      + destruct bs as [|b bs]; [destruct n; discriminate F|].
        destruct n as [|n]; [lia|]. cbn [skipn]. rewrite skipn_length. simpl in Hl. lia.
      + rewrite bsz_upd. exact Hs.
  Qed.

  (** Any reads: some cutting of the content. *)
  Lemma loop_any_cut : forall fuel bs hints s,
    List.length bs < fuel -> bsz s <> 0%Z ->
    exists cs, List.concat cs = bs /\
               fst (py_read_loop_go fuel bsz upd (MkStream bs hints) s) = fold_left upd cs s.
  Proof.
    induction fuel as [|f IH]; intros bs hints s Hl Hs; [lia|].
    rewrite loop_go_S. unfold py_read. cbn [st_rest st_short].
    set (len := List.length bs).
    set (full := if (bsz s <? 0)%Z then len else Nat.min (Z.to_nat (bsz s)) len).
    set (k := match hints with [] => full | h :: _ => Nat.max (Nat.min h full) (Nat.min 1 full) end).
    assert (Hfull : bs <> [] -> 1 <= full <= len).
    { intros NE. assert (1 <= len) by (subst len; destruct bs; [congruence | simpl; lia]).
      subst full. destruct (bsz s <? 0)%Z eqn:E; [lia|]. apply Z.ltb_ge in E.
      assert (1 <= Z.to_nat (bsz s)) by lia. lia. }
    assert (Hk : bs <> [] -> 1 <= k <= len).
    { intros NE. specialize (Hfull NE). subst k. destruct hints; lia. }
    destruct (firstn k bs) as [|a c] eqn:F; cbv beta iota zeta.
    - exists []. split; [|reflexivity]. destruct bs as [|b bs]; [reflexivity|].
      assert (NE : b :: bs <> []) by discriminate. specialize (Hk NE).
      destruct k; [lia | discriminate F].
    - assert (NE : bs <> []) by (intros ->; destruct k; discriminate F).
      specialize (Hk NE).
      destruct (IH (skipn k bs) (tl hints) (upd s (a :: c))) as (cs & C1 & C2).
      + rewrite skipn_length. subst len. lia.
      + rewrite bsz_upd. exact Hs.
      + exists ((a :: c) :: cs). split.
        * cbn [List.concat]. rewrite C1, <- F. apply firstn_skipn.
        * exact C2.
  Qed.
End Loop.

Theorem gen_hashsum_equiv :
  forall (HS HC : Type) (bsz : HS -> Z) (upd : HS -> list ascii -> HS) (fin : HS -> string)
         (new : HC -> HS) (tbl : string -> option HC) alg c n bs,
    tbl alg = Some c -> (forall s x, bsz (upd s x) = bsz s) -> bsz (new c) = Z.of_nat n -> n > 0 ->
    Gen_hashsums.hashsum HS HC bsz upd fin new tbl (MkStream bs []) alg
    = inr (DirHash.hashsum HS (new c) upd fin n bs).
Proof.
  intros HS HC bsz upd fin new tbl alg c n bs Ht Hb Hn Hp.
  unfold Gen_hashsums.hashsum. autounfold with pygen. rewrite Ht. cbv beta iota zeta. unfold py_read_loop. cbn [st_rest].
  destruct (py_read_loop_go _ _ _ _ _) as [h d] eqn:E.
  apply (f_equal fst) in E. rewrite (loop_full HS bsz upd Hb n Hp) in E by (auto; lia).
  cbn [fst] in E. subst h. reflexivity.
Qed.
Print Assumptions gen_hashsum_equiv.

Theorem gen_hashsum_eq_oneshot :
  forall (HS HC : Type) (bsz : HS -> Z) (upd : HS -> list ascii -> HS) (fin : HS -> string)
         (new : HC -> HS) (tbl : string -> option HC) alg c bs hints,
    (forall s x y, upd (upd s x) y = upd s (x ++ y)%list) -> (forall s, upd s [] = s) ->
    tbl alg = Some c -> (forall s x, bsz (upd s x) = bsz s) -> bsz (new c) <> 0%Z ->
    Gen_hashsums.hashsum HS HC bsz upd fin new tbl (MkStream bs hints) alg
    = inr (oneshot HS (new c) upd fin bs).
Proof.
  intros HS HC bsz upd fin new tbl alg c bs hints Ha Hnil Ht Hb Hn.
  unfold Gen_hashsums.hashsum. autounfold with pygen. rewrite Ht. cbv beta iota zeta. unfold py_read_loop. cbn [st_rest].
  destruct (py_read_loop_go _ _ _ _ _) as [h d] eqn:E.
  apply (f_equal fst) in E. cbn [fst] in E.
  destruct (loop_any_cut HS bsz upd Hb (S (List.length bs)) bs hints (new c)) as (cs & C1 & C2); [lia | exact Hn |].
  assert (Hh : h = fold_left upd cs (new c)) by (rewrite <- E; exact C2).
  rewrite Hh. apply f_equal.
  exact (C19_any_cut HS (new c) upd fin Ha Hnil cs bs C1).
Qed.
Print Assumptions gen_hashsum_eq_oneshot.

Theorem gen_hashsum_unsupported :
  forall (HS HC : Type) bsz upd fin new (tbl : string -> option HC) d alg,
    tbl alg = None ->
    Gen_hashsums.hashsum HS HC bsz upd fin new tbl d alg = inl ("ValueError", "Unsupported hashsum: " ++ alg).
Proof. intros. unfold Gen_hashsums.hashsum. autounfold with pygen. rewrite H. reflexivity. Qed.
Print Assumptions gen_hashsum_unsupported.
