(** * Generated tie, target [hashsums]: [qualified_hashsum] of [src/metador_core/util/hashsums.py].

    [Gen_hashsums.v] is written at check time by [tools/py2coq.py]; this committed file is
    compiled against it (NOT part of [_CoqProject]).  The digest function [hashsum] (hashlib)
    is an opaque parameter of the translated function.  Equivalence with [qualified] of
    [Util/DirHash.v]; C19's [prefix_distinct] restated for the translated function. *)
From Coq Require Import List String Ascii NArith ZArith Bool.
From MV Require Import Util.DirHash Properties.C19.
From MV Require Import Gen.PyLib Gen.PyLibProofs.
From Gen Require Import Gen_hashsums.
Local Open Scope string_scope.

Theorem gen_qualified_equiv : forall (Bytes : Type) (hs : Bytes -> string -> string) data a,
  qualified_hashsum Bytes hs data (alg_name a) = qualified a (hs data (alg_name a)).
Proof. intros. reflexivity. Qed.
Print Assumptions gen_qualified_equiv.

Theorem gen_qualified_default : forall (Bytes : Type) (hs : Bytes -> string -> string) data,
  qualified_hashsum Bytes hs data Gen_hashsums.DEF_HASH_ALG = qualified Sha256 (hs data "sha256").
Proof. intros. reflexivity. Qed.
Print Assumptions gen_qualified_default.

Theorem gen_prefix_distinct : forall (Bytes : Type) (hs : Bytes -> string -> string) data a x,
  qualified_hashsum Bytes hs data (alg_name a) <> symlink_prefix ++ x.
Proof. intros. rewrite gen_qualified_equiv. apply C19_prefix_distinct. Qed.
Print Assumptions gen_prefix_distinct.
