(** * Generated tie, target [tocschemas]: [TOCSchemas.versions] of
    [src/metador_core/container/interface.py] (with [PluginRef.supports] of schema/plugins.py,
    re-translated over container schema references).

    [Gen_tocschemas.v] is written at check time by [tools/py2coq.py]; this committed file is
    compiled against it (NOT part of [_CoqProject]).  The state read -- the keys of
    [self._children] -- is a projection of the model's [toc].  Equivalence with [tversions]
    of [Toc/Query.v] (the function C07's query theorems use through [compat_set] /
    [via_child]), and its membership specification for the translated function. *)
From Coq Require Import List String NArith ZArith Bool Lia.
From MV Require Import Util.PluginRef Toc.Query.
From MV Require Import Gen.PyLib Gen.PyLibProofs.
From Gen Require Import Gen_tocschemas.
Import ListNotations.
Local Open Scope string_scope.

Lemma gen_supports_sref : forall a b, PluginRef_supports a b = supports (to_ref a) (to_ref b).
Proof.
  intros [n v] [n' v']. unfold PluginRef_supports, supports, to_ref, py_sg, vmajor, vminor.
  cbn [rgroup rname rver fst snd]. py_atoms.
Qed.

Lemma filter_filter {X} (f g : X -> bool) l : filter f (filter g l) = filter (fun x => g x && f x) l.
Proof.
  induction l as [|x l IH]; simpl; [reflexivity|].
  destruct (g x); simpl; [destruct (f x)|]; rewrite IH; reflexivity.
Qed.

Lemma filter_ext' {X} (f g : X -> bool) l : (forall x, f x = g x) -> filter f l = filter g l.
Proof. intros H. induction l as [|x l IH]; simpl; [reflexivity|]. rewrite H, IH. reflexivity. Qed.

Theorem gen_tversions_equiv : forall t s v, TOCSchemas_versions t s v = tversions t s v.
Proof.
  intros t s v. unfold TOCSchemas_versions, tversions, py_toc_children, py_sref. cbv zeta.
  destruct v as [v|].
  - rewrite ?filter_filter. apply filter_ext'. intros a. unfold vcompat.
    rewrite ?gen_supports_sref. py_atoms.
  - apply filter_ext'. intros a. unfold vcompat. py_atoms.
Qed.
Print Assumptions gen_tversions_equiv.

(** What the translated function lists: the container's schema references of that name that
    the requested version supports (instances "below" the requested version). *)
Theorem gen_tversions_spec : forall t s v a,
  In a (TOCSchemas_versions t s v) <->
  In a (akeys (t_chi t)) /\ fst a = s /\
  match v with None => True | Some v' => supports (to_ref (s, v')) (to_ref a) = true end.
Proof.
  intros t s v a. rewrite gen_tversions_equiv. unfold tversions, vcompat.
  rewrite filter_In, andb_true_iff, String.eqb_eq. destruct v; intuition.
Qed.
Print Assumptions gen_tversions_spec.
