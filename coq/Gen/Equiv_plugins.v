(** * Generated tie, target [plugins]: [src/metador_core/schema/plugins.py] [PluginRef].

    [Gen_plugins.v] is written at check time by [tools/py2coq.py] from the current source;
    this committed file is compiled against it (it is NOT part of [_CoqProject]).  It proves
    the translated functions equal, for all inputs, to the hand model's functions
    ([Util/PluginRef.v]) that the C16 theorems are about, and restates those theorems for
    the translated functions.  The proofs do not depend on the shape of the generated terms
    beyond the atomic tests they contain (see [Gen/PyLibProofs.v], [py_atoms]). *)
From Coq Require Import List String NArith ZArith Bool Lia.
From MV Require Import Base.Cmp Util.PluginRef Util.PluginRefProofs Properties.C16.
From MV Require Import Gen.PyLib Gen.PyLibProofs.
From Gen Require Import Gen_plugins.
Local Open Scope string_scope.

Lemma r_eq_false_fields g n v g' n' v' :
  r_eq (mkref g n v) (mkref g' n' v') = false -> g = g' -> n = n' -> v = v' -> False.
Proof.
  intros E -> -> ->. assert (T : r_eq (mkref g' n' v') (mkref g' n' v') = true) by (apply r_eq_iff; reflexivity).
  congruence.
Qed.

Ltac fields a b := destruct a as [?g ?n ?v], b as [?g ?n ?v]; cbn [rgroup rname rver].

(** ** Equivalences *)

Theorem gen_supports_equiv : forall a b, PluginRef_supports a b = supports a b.
Proof.
  intros a b. unfold PluginRef_supports, supports, vmajor, vminor. fields a b. py_atoms.
Qed.
Print Assumptions gen_supports_equiv.

Theorem gen_eq_equiv : forall a b, PluginRef_dunder_eq a b = r_eq a b.
Proof.
  intros a b. fields a b. unfold PluginRef_dunder_eq. cbn [rgroup rname rver].
  match goal with |- _ = r_eq ?x ?y => destruct (r_eq x y) eqn:E end.
  - apply r_eq_iff in E. injection E as -> -> ->. py_atoms.
  - py_atoms_with ltac:(exfalso; eapply r_eq_false_fields; eauto using eq_sym; fail).
Qed.
Print Assumptions gen_eq_equiv.

Theorem gen_ge_equiv : forall a b, PluginRef_dunder_ge a b = r_ge a b.
Proof.
  intros a b. rewrite ge_lex. fields a b. unfold PluginRef_dunder_ge. cbn [rgroup rname rver].
  repeat rewrite cmp_leb_geb by cmp_ok_tac.
  unfold Cmp.geb, Cmp.leb, Cmp.ltb, Cmp.eqb, vcmp. rewrite ?pcmp_pair. unfold lex. py_atoms.
Qed.
Print Assumptions gen_ge_equiv.

Theorem gen_hash_equiv : forall (H : Type) (h : _ -> H) a, PluginRef_dunder_hash H h a = r_hash h a.
Proof. intros H h a. reflexivity. Qed.
Print Assumptions gen_hash_equiv.

(** ** The C16 theorems, restated for the translated code *)

Theorem gen_supports_spec : forall a b,
  PluginRef_supports a b = true <->
  rgroup a = rgroup b /\ rname a = rname b /\
  fst (rver a) = fst (rver b) /\ (fst (snd (rver b)) <= fst (snd (rver a)))%N.
Proof. intros a b. rewrite gen_supports_equiv. apply C16_supports_spec. Qed.
Print Assumptions gen_supports_spec.

Theorem gen_ge_refl : forall a, PluginRef_dunder_ge a a = true.
Proof. intros a. rewrite gen_ge_equiv. apply C16_ge_refl. Qed.
Print Assumptions gen_ge_refl.

Theorem gen_ge_antisym : forall a b,
  PluginRef_dunder_ge a b = true -> PluginRef_dunder_ge b a = true -> PluginRef_dunder_eq a b = true.
Proof. intros a b. rewrite !gen_ge_equiv, gen_eq_equiv. apply C16_ge_antisym. Qed.
Print Assumptions gen_ge_antisym.

Theorem gen_ge_trans : forall a b c,
  PluginRef_dunder_ge a b = true -> PluginRef_dunder_ge b c = true -> PluginRef_dunder_ge a c = true.
Proof. intros a b c. rewrite !gen_ge_equiv. apply C16_ge_trans. Qed.
Print Assumptions gen_ge_trans.

Theorem gen_ge_total : forall a b, PluginRef_dunder_ge a b = true \/ PluginRef_dunder_ge b a = true.
Proof. intros a b. rewrite !gen_ge_equiv. apply C16_ge_total. Qed.
Print Assumptions gen_ge_total.

Theorem gen_eq_iff : forall a b, PluginRef_dunder_eq a b = true <-> a = b.
Proof. intros a b. rewrite gen_eq_equiv. apply C16_eq_iff. Qed.
Print Assumptions gen_eq_iff.

Theorem gen_eq_hash : forall (H : Type) (h : _ -> H) a b,
  PluginRef_dunder_eq a b = true -> PluginRef_dunder_hash H h a = PluginRef_dunder_hash H h b.
Proof. intros H h a b. rewrite gen_eq_equiv, !gen_hash_equiv. apply C16_eq_hash. Qed.
Print Assumptions gen_eq_hash.
