(** * Generated tie, target [chain]: the per-container checks of record opening,
    [IH5Record._check_ublock] ([src/metador_core/ih5/record.py]) and
    [IH5MFRecord._check_ublock] ([src/metador_core/ih5/manifest.py]).

    [Gen_chain.v] is written at check time by [tools/py2coq.py]; this committed file is
    compiled against it (NOT part of [_CoqProject]).  The translated functions return
    [inl (exception class, message)] or [inr tt]; the digest of the payload on disk
    ([hashsum_file(filename, skip_bytes=USER_BLOCK_SIZE)]) is an opaque parameter, the record's
    [ih5_uuid], the user block and the predecessor's user block are arguments, as in the code.

    Equivalence with [check_ub] of [Rec/Chain.v]: same first failing test (the model's [err]
    kind rendered as the exception the code raises, [exc_of]), for both record classes.
    [exc_of] is injective on the kinds [check_ub] can return, so the equivalence fixes the
    kind; C04's [check_ub]-level consequences are restated for the translated functions. *)
From Coq Require Import List String Ascii NArith ZArith Bool Lia.
From MV Require Import Base.Sx Rec.Chain.
From MV Require Import Gen.PyLib Gen.PyLibProofs.
From Gen Require Import Gen_chain.
Import ListNotations.
Local Open Scope string_scope.

(** The exception the code raises for each failing test of [_check_ublock]. *)
Definition exc_of (fname : string) (f : file) (p : option file) (e : err) : string * string :=
  let at_file m := ("ValueError", fname ++ ": " ++ m) in
  match e with
  | ERecord => at_file "'record_uuid' inconsistent! Mixed up records?"
  | EHashMissing => at_file "hdf5_checksum is missing!"
  | EHashMismatch => at_file "file has been modified, stored and computed checksum are different!"
  | EIndex => at_file "patch container must have greater index than predecessor!"
  | ENoPrev => at_file "patch must have an attribute 'prev_patch'!"
  | EPrevMismatch =>
      at_file ("patch for " ++ string_of_N (match fprev f with Some r => r | None => 0%N end)
               ++ ", but predecessor is " ++ string_of_N (match p with Some q => fpid q | None => 0%N end))
  | EStubPatch => ("AssertionError", "")
  | _ => ("", "")
  end.

Definition result_of (fname : string) (f : file) (p : option file) (r : option err)
  : (string * string) + unit :=
  match r with Some e => inl (exc_of fname f p e) | None => inr tt end.

Lemma push_if {X Y} (g : X -> Y) (c : bool) x y : g (if c then x else y) = if c then g x else g y.
Proof. destruct c; reflexivity. Qed.

(** Push [result_of] through the model's if-chain, down to the individual outcomes. *)
Ltac push_result :=
  cbv beta iota zeta;
  repeat match goal with
         | |- context [result_of ?a ?b ?c (if ?x then ?u else ?v)] =>
             rewrite (push_if (result_of a b c) x u v)
         end;
  unfold result_of, exc_of, fprev, fpid; cbn [ub pid prev]; cbv beta iota zeta.

(** The error values are long string terms: replace them by variables before the case
    analysis (they occur in the same spelling on both sides or the proof fails). *)
Ltac name_errors :=
  cbv beta iota zeta;
  repeat match goal with
         | |- context [@inl ?A ?B (?c, ?m)] => generalize (c, m); intro
         end.

Ltac chain_cases f p :=
  destruct f as [[?r ?i ?pd [?pv|] [?h|] ?x] ?d ?m];
  destruct p as [[[?r ?i ?pd ?pv ?h ?x] ?d ?m]|].

Theorem gen_check_ublock_equiv : forall (hf : string -> Z -> N) rid fname f p need,
  hf fname Gen_chain.USER_BLOCK_SIZE = dig f ->
  IH5Record_u_check_ublock hf rid fname (ub f) (option_map ub p) need =
  result_of fname f p (check_ub false rid f p need).
Proof.
  intros hf rid fname f p need Hd.
  unfold IH5Record_u_check_ublock, check_ub, py_self_uuid, py_path_str,
    frec, fidx, fpid, fprev, fhash, is_some, py_str_of_N.
  chain_cases f p; cbn [ub dig rec_id idx pid prev hash ext option_map] in *;
    rewrite ?Hd; push_result; name_errors; py_decide.
Qed.
Print Assumptions gen_check_ublock_equiv.

Theorem gen_check_ublock_mf_equiv : forall (hf : string -> Z -> N) rid fname f p need,
  hf fname Gen_chain.USER_BLOCK_SIZE = dig f ->
  IH5MFRecord_u_check_ublock hf rid fname (ub f) (option_map ub p) need =
  result_of fname f p (check_ub true rid f p need).
Proof.
  intros hf rid fname f p need Hd.
  unfold IH5MFRecord_u_check_ublock. rewrite (gen_check_ublock_equiv hf rid fname f p need Hd).
  unfold check_ub, stub_marked, frec, fidx, fpid, fprev, fhash, fext, is_some.
  chain_cases f p; cbn [ub dig rec_id idx pid prev hash ext option_map] in *;
    push_result; name_errors; try (py_decide; fail);
    repeat match goal with
           | |- context [match ?o with Some _ => _ | None => _ end] => is_var o; destruct o as [[[] ? ?]|]
           end; cbn [is_stub]; py_decide.
Qed.
Print Assumptions gen_check_ublock_mf_equiv.

(** [exc_of] tells the failing tests apart (whatever the file name and the identifiers). *)
Lemma append_cancel a x y : a ++ x = a ++ y -> x = y.
Proof. induction a; simpl; intros H; [exact H | inversion H; auto]. Qed.

Definition ub_kind (e : err) : bool :=
  match e with
  | ERecord | EHashMissing | EHashMismatch | EIndex | ENoPrev | EPrevMismatch | EStubPatch => true
  | _ => false
  end.

Theorem exc_of_inj : forall fname f p e1 e2,
  ub_kind e1 = true -> ub_kind e2 = true -> exc_of fname f p e1 = exc_of fname f p e2 -> e1 = e2.
Proof.
  intros fname f p e1 e2 K1 K2 E.
  destruct e1, e2; try discriminate K1; try discriminate K2; try reflexivity; exfalso;
    unfold exc_of in E; cbv zeta in E;
    try (inversion E; fail);
    injection E as E; apply append_cancel in E; simpl in E; inversion E.
Qed.
Print Assumptions exc_of_inj.

(** Consequences for the translated functions: acceptance means exactly what the model's
    [check_ub] demands (record id, stored digest = digest on disk, strictly larger index,
    predecessor link), and the first patch check refuses a stale link. *)
Theorem gen_check_ublock_accepts : forall hf rid fname f q need,
  hf fname Gen_chain.USER_BLOCK_SIZE = dig f ->
  IH5Record_u_check_ublock hf rid fname (ub f) (Some (ub q)) need = inr tt ->
  frec f = rid /\ (need = true -> fhash f = Some (dig f)) /\
  (forall h, fhash f = Some h -> h = dig f) /\
  (fidx q < fidx f)%N /\ fprev f = Some (fpid q).
Proof.
  intros hf rid fname f q need Hd.
  change (Some (ub q)) with (option_map ub (Some q)).
  rewrite (gen_check_ublock_equiv hf rid fname f (Some q) need Hd).
  unfold result_of, check_ub, frec, fidx, fpid, fprev, fhash, is_some.
  destruct f as [[r i pd [pv|] [h|] x] d m]; destruct q as [[r' i' pd' pv' h' x'] d' m'];
    cbn [ub dig rec_id idx pid prev hash ext]; destruct need;
    repeat match goal with
           | |- context [N.eqb ?a ?b] => destruct (N.eqb_spec a b)
           | |- context [N.leb ?a ?b] => destruct (N.leb_spec a b)
           end; cbn [andb orb negb]; try discriminate; intros _; subst;
    repeat split; try congruence; try lia; intros; congruence.
Qed.
Print Assumptions gen_check_ublock_accepts.
