(** * Lemmas about the container model ([Toc/UserView.v]): the bookkeeping is invisible
    in the user view, operations naming reserved paths are refused without effect. *)
From Coq Require Import List String Ascii Bool Arith NArith Lia.
From MV Require Import Base.Sx Toc.Layout Toc.LayoutProofs Toc.UserView.
Import ListNotations.
Local Open Scope string_scope.
Local Open Scope list_scope.
Local Arguments meta_dir_of : simpl never.

(** ** Paths *)

Lemma path_eqb_eq a b : path_eqb a b = true <-> a = b.
Proof.
  revert b. induction a as [|x a IH]; destruct b as [|y b]; simpl; split; try congruence; auto.
  - intros H. apply andb_prop in H as [H1 H2]. apply String.eqb_eq in H1. apply IH in H2.
    congruence.
  - intros H. inversion H; subst. rewrite String.eqb_refl. simpl. now apply IH.
Qed.

Lemma path_eqb_refl a : path_eqb a a = true.
Proof. now apply path_eqb_eq. Qed.

Lemma is_prefix_split s p : is_prefix s p = true -> p = s ++ skipn (List.length s) p.
Proof.
  revert p. induction s as [|x s IH]; intros p H; simpl in *; auto.
  destruct p as [|y p]; [discriminate|]. apply andb_prop in H as [H1 H2].
  apply String.eqb_eq in H1. subst. simpl. f_equal. now apply IH.
Qed.

Lemma is_prefix_app s r : is_prefix s (s ++ r) = true.
Proof. induction s; simpl; auto. now rewrite String.eqb_refl. Qed.

Lemma has_reserved_skipn n p : has_reserved (skipn n p) = true -> has_reserved p = true.
Proof.
  intros H. rewrite <- (firstn_skipn n p), has_reserved_app, H. apply orb_true_r.
Qed.

Lemma user_path_app a b : user_path (a ++ b) = user_path a && user_path b.
Proof. unfold user_path. rewrite has_reserved_app. apply negb_orb. Qed.

Lemma user_path_prefix s p : is_prefix s p = true -> user_path s = false -> user_path p = false.
Proof.
  intros H U. rewrite (is_prefix_split s p H), user_path_app, U. reflexivity.
Qed.

Lemma user_path_rebase s d p :
  user_path s = true -> user_path d = true -> user_path (rebase s d p) = user_path p.
Proof.
  intros Us Ud. unfold rebase. destruct (is_prefix s p) eqn:E; auto.
  rewrite (is_prefix_split s p E) at 2. now rewrite !user_path_app, Us, Ud.
Qed.

Lemma user_path_rebase_res s d p :
  user_path s = false -> user_path d = false ->
  user_path (rebase s d p) = user_path p /\ (user_path p = true -> rebase s d p = p).
Proof.
  intros Us Ud. unfold rebase. destruct (is_prefix s p) eqn:E; auto.
  rewrite (user_path_prefix s p E Us), user_path_app, Ud. split; [reflexivity|discriminate].
Qed.

(** ** Generic filter/map facts *)

Lemma filter_filter_comm {X} (f g : X -> bool) l :
  filter f (filter g l) = filter g (filter f l).
Proof.
  induction l as [|x l IH]; simpl; auto.
  destruct (g x) eqn:G, (f x) eqn:F; simpl; rewrite ?G, ?F, IH; reflexivity.
Qed.

Lemma filter_absorb {X} (f g : X -> bool) l :
  (forall x, f x = true -> g x = true) -> filter f (filter g l) = filter f l.
Proof.
  intros H. induction l as [|x l IH]; simpl; auto.
  destruct (g x) eqn:G; simpl.
  - destruct (f x); now rewrite IH.
  - destruct (f x) eqn:F; [apply H in F; congruence|apply IH].
Qed.

Lemma filter_map_comm {X} (f : X -> bool) (h : X -> X) l :
  (forall x, f (h x) = f x) -> filter f (map h l) = map h (filter f l).
Proof.
  intros H. induction l as [|x l IH]; simpl; auto.
  rewrite H. destruct (f x); simpl; now rewrite IH.
Qed.

Lemma filter_map_id {X} (f : X -> bool) (h : X -> X) l :
  (forall x, f (h x) = f x) -> (forall x, f x = true -> h x = x) ->
  filter f (map h l) = filter f l.
Proof.
  intros H1 H2. induction l as [|x l IH]; simpl; auto.
  rewrite H1. destruct (f x) eqn:F; simpl; rewrite IH; auto. now rewrite (H2 x F).
Qed.

Lemma map_fst_filter {X Y} (f : X -> bool) (l : list (X * Y)) :
  map fst (filter (fun e => f (fst e)) l) = filter f (map fst l).
Proof.
  induction l as [|x l IH]; simpl; auto. destruct (f (fst x)); simpl; now rewrite IH.
Qed.

(** ** The user view commutes with the tree primitives *)

Notation uv := user_view.

Lemma uv_app A B : uv (A ++ B) = uv A ++ uv B.
Proof. apply filter_app. Qed.

Lemma uv_put_user T p o : user_path p = true -> uv (t_put T p o) = t_put (uv T) p o.
Proof. intros H. unfold t_put. rewrite uv_app. simpl. now rewrite H. Qed.

Lemma uv_put_res T p o : user_path p = false -> uv (t_put T p o) = uv T.
Proof. intros H. unfold t_put. rewrite uv_app. simpl. rewrite H. apply app_nil_r. Qed.

Lemma t_get_uv T p : user_path p = true -> t_get (uv T) p = t_get T p.
Proof.
  intros H. unfold t_get. induction T as [|e T IH]; simpl; auto.
  destruct (user_path (fst e)) eqn:U; simpl.
  - destruct (path_eqb (fst e) p); auto.
  - destruct (path_eqb (fst e) p) eqn:E; auto.
    apply path_eqb_eq in E. congruence.
Qed.

Lemma t_has_uv T p : user_path p = true -> t_has (uv T) p = t_has T p.
Proof. intros H. unfold t_has. now rewrite t_get_uv. Qed.

Lemma uv_cut q T : uv (t_cut q T) = t_cut q (uv T).
Proof. apply filter_filter_comm. Qed.

Lemma uv_cut_res q T : user_path q = false -> uv (t_cut q T) = uv T.
Proof.
  intros H. apply filter_absorb. intros e U.
  destruct (is_prefix q (fst e)) eqn:E; auto.
  rewrite (user_path_prefix q (fst e) E H) in U. discriminate.
Qed.

Lemma uv_sub q T : uv (t_sub q T) = t_sub q (uv T).
Proof. apply filter_filter_comm. Qed.

Lemma uv_rename_user s d T :
  user_path s = true -> user_path d = true -> uv (t_rename s d T) = t_rename s d (uv T).
Proof.
  intros Us Ud. apply (filter_map_comm (fun e : entry => user_path (fst e))).
  intros e. simpl. now apply user_path_rebase.
Qed.

Lemma uv_rename_res s d T :
  user_path s = false -> user_path d = false -> uv (t_rename s d T) = uv T.
Proof.
  intros Us Ud. apply (filter_map_id (fun e : entry => user_path (fst e))).
  - intros e. simpl. now apply user_path_rebase_res.
  - intros [p o] U. simpl in *. f_equal. now apply (user_path_rebase_res s d p Us Ud).
Qed.

Lemma uv_upd T p f : uv (t_upd T p f) = t_upd (uv T) p f.
Proof.
  apply (filter_map_comm (fun e : entry => user_path (fst e))).
  intros e. destruct (path_eqb (fst e) p); reflexivity.
Qed.

Lemma uv_upd_res T p f : user_path p = false -> uv (t_upd T p f) = uv T.
Proof.
  intros H. apply (filter_map_id (fun e : entry => user_path (fst e))).
  - intros e. destruct (path_eqb (fst e) p); reflexivity.
  - intros e U. destruct (path_eqb (fst e) p) eqn:E; auto.
    apply path_eqb_eq in E. congruence.
Qed.

Lemma uv_mkgroups T base rest :
  user_path (base ++ rest) = true ->
  option_map uv (mkgroups_from T base rest) = mkgroups_from (uv T) base rest.
Proof.
  revert T base. induction rest as [|s r IH]; intros T base H; simpl; auto.
  assert (H' : user_path ((base ++ [s]) ++ r) = true) by now rewrite <- app_assoc.
  assert (Hp : user_path (base ++ [s]) = true).
  { rewrite user_path_app in H'. now apply andb_prop in H' as [? _]. }
  rewrite (t_get_uv T _ Hp).
  destruct (t_get T (base ++ [s])) as [[[|v] a]|]; auto.
  rewrite <- (uv_put_user T _ new_group Hp). now apply IH.
Qed.

Lemma user_path_parent q : user_path q = true -> user_path (parent q) = true.
Proof.
  intros H. unfold parent. destruct q as [|a q]; auto.
  rewrite (app_removelast_last "" (l:=a :: q)) in H by discriminate.
  rewrite user_path_app in H. now apply andb_prop in H as [? _].
Qed.

(** ** The user view commutes with every user operation on user paths *)

Definition body_user (b : ubody) : bool :=
  match b with
  | UCreateGroup q | URequireGroup q | UCreateDataset q _ | URequireDataset q _
  | UDelete q | UAttrSet q _ _ | UAttrDel q _ => user_path q
  | UMove s d | UCopy s d => user_path s && user_path d
  end.

Lemma uv_t_mkgroups T q :
  user_path q = true -> option_map uv (t_mkgroups T q) = t_mkgroups (uv T) q.
Proof. intros H. now apply uv_mkgroups. Qed.

Lemma uv_create_group T q :
  user_path q = true -> option_map uv (u_create_group T q) = u_create_group (uv T) q.
Proof.
  intros H. unfold u_create_group. destruct q; auto. rewrite (t_has_uv T _ H).
  destruct (t_has T (s :: q)); auto. now apply uv_t_mkgroups.
Qed.

Lemma uv_require_group T q :
  user_path q = true -> option_map uv (u_require_group T q) = u_require_group (uv T) q.
Proof.
  intros H. unfold u_require_group. rewrite (t_get_uv T _ H).
  destruct (t_get T q) as [[[|v] a]|]; auto. now apply uv_t_mkgroups.
Qed.

Lemma uv_create_dataset T q v :
  user_path q = true -> option_map uv (u_create_dataset T q v) = u_create_dataset (uv T) q v.
Proof.
  intros H. unfold u_create_dataset. destruct q; auto. rewrite (t_has_uv T _ H).
  destruct (t_has T (s :: q)); auto.
  rewrite <- (uv_t_mkgroups T _ (user_path_parent _ H)).
  destruct (t_mkgroups T (parent (s :: q))); simpl; auto. now rewrite uv_put_user.
Qed.

Lemma uv_require_dataset T q v :
  user_path q = true -> option_map uv (u_require_dataset T q v) = u_require_dataset (uv T) q v.
Proof.
  intros H. unfold u_require_dataset. rewrite (t_get_uv T _ H).
  destruct (t_get T q) as [[[|w] a]|]; auto. now apply uv_create_dataset.
Qed.

Lemma uv_delete T q : user_path q = true -> option_map uv (u_delete T q) = u_delete (uv T) q.
Proof.
  intros H. unfold u_delete. destruct q; auto. rewrite (t_has_uv T _ H).
  destruct (t_has T (s :: q)); simpl; auto. now rewrite uv_cut.
Qed.

Lemma uv_move T s d :
  user_path s = true -> user_path d = true -> option_map uv (u_move T s d) = u_move (uv T) s d.
Proof.
  intros Hs Hd. unfold u_move. destruct s as [|a s]; auto. destruct d as [|b d]; auto.
  rewrite (t_has_uv T _ Hs), (t_has_uv T _ Hd).
  destruct (is_prefix (a :: s) (b :: d) || negb (t_has T (a :: s)) || t_has T (b :: d)); auto.
  rewrite <- (uv_t_mkgroups T _ (user_path_parent _ Hd)).
  destruct (t_mkgroups T (parent (b :: d))); simpl; auto. now rewrite uv_rename_user.
Qed.

Lemma uv_copy T s d :
  user_path s = true -> user_path d = true -> option_map uv (u_copy T s d) = u_copy (uv T) s d.
Proof.
  intros Hs Hd. unfold u_copy. destruct s as [|a s]; auto. destruct d as [|b d]; auto.
  rewrite (t_has_uv T _ Hs), (t_has_uv T _ Hd).
  destruct (negb (t_has T (a :: s)) || t_has T (b :: d)); auto.
  rewrite <- (uv_t_mkgroups T _ (user_path_parent _ Hd)).
  destruct (t_mkgroups T (parent (b :: d))); simpl; auto.
  now rewrite uv_app, uv_rename_user, uv_sub.
Qed.

Lemma uv_attr_set T q k v :
  user_path q = true -> option_map uv (u_attr_set T q k v) = u_attr_set (uv T) q k v.
Proof.
  intros H. unfold u_attr_set. rewrite (t_has_uv T _ H).
  destruct (t_has T q); simpl; auto. now rewrite uv_upd.
Qed.

Lemma uv_attr_del T q k :
  user_path q = true -> option_map uv (u_attr_del T q k) = u_attr_del (uv T) q k.
Proof.
  intros H. unfold u_attr_del. rewrite (t_get_uv T _ H).
  destruct (t_get T q) as [o|]; auto. destruct (a_has (oattrs o) k); simpl; auto.
  now rewrite uv_upd.
Qed.

Lemma uv_apply T b :
  body_user b = true -> option_map uv (u_apply T b) = u_apply (uv T) b.
Proof.
  destruct b; simpl; intros H; try apply andb_prop in H as [H1 H2].
  - now apply uv_create_group.
  - now apply uv_require_group.
  - now apply uv_create_dataset.
  - now apply uv_require_dataset.
  - now apply uv_delete.
  - now apply uv_move.
  - now apply uv_copy.
  - now apply uv_attr_set.
  - now apply uv_attr_del.
Qed.

(** ** Operations naming a reserved path are refused and change nothing *)

Ltac done_ref := eexists; split; [reflexivity|discriminate].
Ltac ref_step :=
  match goal with
  | |- exists r, (if guard ?x then _ else _) = _ /\ _ =>
      destruct (guard x) eqn:?; [done_ref|]
  | |- exists r, (if name_guard ?x then _ else _) = _ /\ _ =>
      destruct (name_guard x) eqn:?; [done_ref|]
  | |- exists r, match enter ?T ?c with Some _ => _ | None => _ end = _ /\ _ =>
      destruct (enter T c) eqn:?; [|done_ref]
  | |- exists r, match t_get ?T ?c with Some _ => _ | None => _ end = _ /\ _ =>
      destruct (t_get T c) eqn:?; [|done_ref]
  end.
Ltac ref_contra R :=
  exfalso; unfold name_guard, guard in *; simpl in R;
  repeat match goal with H : is_internal_path _ = false |- _ => rewrite H in R; clear H end;
  simpl in R; discriminate.

Lemma reserved_refused st o :
  op_reserved o = true -> exists r, c_step st o = (st, r) /\ r <> ROk.
Proof.
  intros R. unfold op_reserved in R.
  destruct o; unfold c_step, c_step_gen; simpl in R; repeat ref_step;
    try (ref_contra R).
  (* copy into a group, optional name *)
  destruct name as [n|]; ref_contra R.
Qed.

(** ** Bookkeeping edits leave the user view alone *)

Lemma toc_res l : user_path (toc_seg :: l) = false.
Proof. reflexivity. Qed.

Lemma meta_dir_res p d : user_path (meta_dir_of p d) = false.
Proof. unfold user_path. now rewrite meta_dir_reserved. Qed.

Lemma uv_ensure_res T p : user_path p = false -> uv (ensure_group T p) = uv T.
Proof. intros H. unfold ensure_group. destruct (t_has T p); auto. now apply uv_put_res. Qed.

Lemma uv_sub_res q T : user_path q = false -> uv (t_sub q T) = [].
Proof.
  intros H. induction T as [|e T IH]; simpl; auto.
  destruct (is_prefix q (fst e)) eqn:E; simpl; auto.
  now rewrite (user_path_prefix q (fst e) E H).
Qed.

Lemma uv_reg_schema T s pkg : uv (reg_schema T s pkg) = uv T.
Proof.
  unfold reg_schema. destruct (t_has T (schemas_segs ++ [s])); auto.
  match goal with |- uv (if ?b then _ else _) = _ => destruct b end;
    repeat (rewrite ?uv_put_res, ?uv_ensure_res by reflexivity); reflexivity.
Qed.

Lemma uv_add_link T s u target : uv (add_link T s u target) = uv T.
Proof.
  unfold add_link. repeat (rewrite ?uv_put_res, ?uv_ensure_res by reflexivity). reflexivity.
Qed.

Lemma uv_unreg_schema T pr s : uv (unreg_schema T pr s) = uv T.
Proof.
  unfold unreg_schema.
  repeat match goal with |- context [if ?b then _ else _] => destruct b end;
    repeat (rewrite ?uv_cut_res by reflexivity); reflexivity.
Qed.

Lemma uv_unreg_link T pr s u : uv (unreg_link T pr s u) = uv T.
Proof.
  unfold unreg_link.
  repeat match goal with |- context [if ?b then _ else _] => destruct b end;
    repeat (rewrite ?uv_cut_res, ?uv_unreg_schema by reflexivity); reflexivity.
Qed.

Lemma uv_fold {X} (f : tree -> X -> tree) l :
  (forall T x, In x l -> uv (f T x) = uv T) ->
  forall T, uv (fold_left f l T) = uv T.
Proof.
  induction l as [|x l IH]; intros H T; simpl; auto.
  rewrite IH; [apply H; now left|]. intros T' y Hy. apply H. now right.
Qed.

Lemma uv_unlink_region T pr region : uv (unlink_region T pr region) = uv T.
Proof. unfold unlink_region. apply uv_fold. intros. apply uv_unreg_link. Qed.

Lemma uv_relink_region T region : uv (relink_region T region) = uv T.
Proof. unfold relink_region. apply uv_fold. intros. now apply uv_upd_res. Qed.

Lemma existsb_mono {X} (f g : X -> bool) l :
  (forall x, f x = true -> g x = true) -> existsb f l = true -> existsb g l = true.
Proof.
  intros H. induction l as [|x l IH]; simpl; auto. intros E.
  apply orb_true_iff in E as [E|E]; apply orb_true_iff; [left|right]; auto.
Qed.

Lemma meta_obj_res op :
  is_meta_obj op = true -> user_path op = false /\ user_path (parent op) = false.
Proof.
  unfold is_meta_obj. intros H. apply andb_prop in H as [H1 H2]. apply negb_true_iff in H2.
  destruct op as [|a op]; [discriminate|].
  assert (E := app_removelast_last "" (l:=a :: op)). specialize (E ltac:(discriminate)).
  assert (P : existsb meta_seg (parent (a :: op)) = true).
  { rewrite E in H1. rewrite existsb_app in H1. apply orb_true_iff in H1 as [H1|H1]; auto.
    cbn [existsb] in H1. rewrite orb_false_r in H1. unfold last_seg in H2. congruence. }
  assert (Q : has_reserved (parent (a :: op)) = true)
    by (apply (existsb_mono meta_seg); auto using meta_seg_reserved).
  split; unfold user_path.
  - rewrite E, has_reserved_app. unfold parent in Q. now rewrite Q.
  - now rewrite Q.
Qed.

Lemma uv_reuuid_region T n pr region : uv (fst (reuuid_region T n pr region)) = uv T.
Proof.
  unfold reuuid_region.
  assert (M : forall op, In op (meta_objs T region) -> is_meta_obj op = true).
  { intros op Hop. unfold meta_objs in Hop. apply filter_In in Hop as [_ Hop].
    now apply andb_prop in Hop as [_ ?]. }
  revert M. generalize (meta_objs T region) as l. intros l.
  revert T n. induction l as [|op l IH]; intros T n M; simpl; auto.
  rewrite IH by (intros; apply M; now right).
  destruct (meta_obj_res op (M op (or_introl eq_refl))) as [U1 U2].
  rewrite uv_add_link, uv_reg_schema. apply uv_rename_res; auto.
  now rewrite user_path_app, U2.
Qed.

Lemma uv_strip_meta_below T d : uv (strip_meta_below T d) = uv T.
Proof.
  apply filter_absorb. intros e U.
  destruct (is_prefix d (fst e) && has_reserved (skipn (List.length d) (fst e))) eqn:E; auto.
  apply andb_prop in E as [_ E]. apply has_reserved_skipn in E.
  unfold user_path in U. rewrite E in U. discriminate.
Qed.

(** ** One container step in the user view *)

Definition view_step (V : tree) (o : cop) : tree :=
  match to_uop o with
  | Some u => fst (u_step V u)
  | None => V
  end.

Definition pick (V : tree) (r : option tree) : tree :=
  match r with Some T' => T' | None => V end.

Lemma lift_view st X b :
  uv X = uv (raw st) -> body_user b = true ->
  uv (raw (fst (lift st (u_apply X b)))) = pick (uv (raw st)) (u_apply (uv (raw st)) b).
Proof.
  intros HX Hb. rewrite <- HX, <- (uv_apply X b Hb).
  destruct (u_apply X b); simpl; auto.
Qed.

Lemma u_step_one V c b :
  fst (u_step V ([c], b)) = if is_group (t_get V c) then pick V (u_apply V b) else V.
Proof.
  unfold u_step. simpl. rewrite andb_true_r.
  destruct (is_group (t_get V c)); auto. destruct (u_apply V b); auto.
Qed.

Lemma guard_user c p :
  guard p = false -> user_path c = true -> user_path (resolve c p) = true.
Proof.
  unfold guard, user_path. intros Hp Hc. apply negb_true_iff in Hc.
  now rewrite guard_resolve.
Qed.

Lemma guard_user0 p : guard p = false -> user_path (resolve [] p) = true.
Proof. intros H. now apply guard_user. Qed.

(** Shape shared by all single-path data operations. *)
Lemma simple_view st cwd (X : tree) (b : path -> ubody) :
  guard cwd = false -> uv X = uv (raw st) ->
  (forall c, user_path c = true -> body_user (b c) = true) ->
  uv (raw (fst (match enter (raw st) cwd with
                | None => (st, RFail)
                | Some c => lift st (u_apply X (b c))
                end)))
  = fst (u_step (uv (raw st)) ([resolve [] cwd], b (resolve [] cwd))).
Proof.
  intros Hc HX Hb. rewrite u_step_one. unfold enter.
  rewrite (t_get_uv (raw st) _ (guard_user0 cwd Hc)).
  destruct (is_group (t_get (raw st) (resolve [] cwd))); auto.
  apply lift_view; auto. apply Hb. now apply guard_user0.
Qed.

Lemma enter_view st cwd (F : path -> cstate * res) (b : path -> ubody) :
  guard cwd = false ->
  (forall c, user_path c = true ->
     uv (raw (fst (F c))) = pick (uv (raw st)) (u_apply (uv (raw st)) (b c))) ->
  uv (raw (fst (match enter (raw st) cwd with None => (st, RFail) | Some c => F c end)))
  = fst (u_step (uv (raw st)) ([resolve [] cwd], b (resolve [] cwd))).
Proof.
  intros Hc HF. rewrite u_step_one. unfold enter.
  rewrite (t_get_uv (raw st) _ (guard_user0 cwd Hc)).
  destruct (is_group (t_get (raw st) (resolve [] cwd))); auto.
  apply HF. now apply guard_user0.
Qed.

(** *** delete *)
Definition del_pre (st : cstate) (q : path) : tree :=
  match t_get (raw st) q with
  | Some (mkobj (KData _) _) =>
      t_cut (meta_dir_of q true) (unlink_region (raw st) (prov st) (meta_dir_of q true))
  | _ => unlink_region (raw st) (prov st) q
  end.

Lemma c_delete_eq st q : c_delete st q = lift st (u_delete (del_pre st q) q).
Proof.
  unfold c_delete, del_pre. destruct (t_get (raw st) q) as [[[|v] a]|]; reflexivity.
Qed.

Lemma uv_del_pre st q : uv (del_pre st q) = uv (raw st).
Proof.
  unfold del_pre. destruct (t_get (raw st) q) as [[[|v] a]|];
    rewrite ?uv_cut_res by apply meta_dir_res; apply uv_unlink_region.
Qed.

(** *** move *)
Lemma move_view st s d :
  user_path s = true -> user_path d = true ->
  uv (raw (fst (c_move st s d))) = pick (uv (raw st)) (u_move (uv (raw st)) s d).
Proof.
  intros Hs Hd. rewrite <- (uv_move (raw st) s d Hs Hd). unfold c_move.
  destruct (u_move (raw st) s d) as [T1|]; simpl; auto.
  destruct (t_get (raw st) s) as [[[|v] a]|]; simpl; rewrite uv_relink_region; auto.
  destruct (t_has T1 (meta_dir_of s true)); auto.
  apply uv_rename_res; apply meta_dir_res.
Qed.

(** *** copy *)
Lemma fixups_view st o T1 s d wm : uv (raw (fst (c_copy_fixups st o T1 s d wm))) = uv T1.
Proof.
  unfold c_copy_fixups. destruct (okind o), wm; simpl; auto.
  - apply uv_strip_meta_below.
  - destruct (reuuid_region T1 (next_id st) (prov st) d) as [T3 n] eqn:E. simpl.
    change T3 with (fst (T3, n)). rewrite <- E. apply uv_reuuid_region.
  - destruct (t_has T1 (meta_dir_of s true)); simpl; auto.
    match goal with |- context [reuuid_region ?X ?n ?p ?r] =>
      destruct (reuuid_region X n p r) as [T3 k] eqn:E end.
    simpl. change T3 with (fst (T3, k)). rewrite <- E, uv_reuuid_region.
    rewrite uv_app, uv_rename_res, uv_sub_res by apply meta_dir_res. apply app_nil_r.
Qed.

Lemma u_copy_missing T s d : t_has T s = false -> u_copy T s d = None.
Proof.
  intros H. unfold u_copy. destruct s; auto. destruct d; auto.
  rewrite H. reflexivity.
Qed.

Lemma copy_view st s d wm :
  user_path s = true -> user_path d = true ->
  uv (raw (fst (match t_get (raw st) s with
                | None => (st, RFail)
                | Some o => c_copy st o s d wm
                end)))
  = pick (uv (raw st)) (u_copy (uv (raw st)) s d).
Proof.
  intros Hs Hd. destruct (t_get (raw st) s) as [o|] eqn:G.
  - rewrite <- (uv_copy (raw st) s d Hs Hd). unfold c_copy.
    destruct (u_copy (raw st) s d) as [T1|]; simpl; auto. apply fixups_view.
  - rewrite u_copy_missing; auto. rewrite (t_has_uv _ _ Hs). unfold t_has. now rewrite G.
Qed.

(** *** attach / detach *)
Lemma attach_view st n schema pkg v : uv (raw (fst (c_attach st n schema pkg v))) = uv (raw st).
Proof.
  unfold c_attach. destruct (t_get (raw st) n) as [o|]; auto.
  match goal with |- context [if ?b then _ else _] => destruct b end; auto. simpl.
  rewrite uv_add_link, uv_reg_schema, uv_put_res, uv_ensure_res; auto using meta_dir_res.
  now rewrite user_path_app, meta_dir_res.
Qed.

Lemma detach_view st n schema : uv (raw (fst (c_detach st n schema))) = uv (raw st).
Proof.
  unfold c_detach. destruct (t_get (raw st) n) as [o|]; auto.
  match goal with |- context [find ?f ?l] => destruct (find f l) as [op|] eqn:F end; auto.
  apply find_some in F as [_ F]. apply andb_prop in F as [F _].
  unfold is_child in F. apply andb_prop in F as [_ F].
  assert (U : user_path op = false) by (eapply user_path_prefix; eauto using meta_dir_res).
  simpl. match goal with |- context [if ?b then _ else _] => destruct b end;
    rewrite ?uv_cut_res by auto using meta_dir_res; apply uv_unreg_link.
Qed.

(** *** destination of [copy(src, group, name=...)] *)
Lemma user_path_last p : user_path p = true -> reserved_seg (last_seg p) = false.
Proof.
  intros H. destruct p as [|a p]; [reflexivity|].
  rewrite (app_removelast_last "" (l:=a :: p)) in H by discriminate.
  rewrite user_path_app in H. apply andb_prop in H as [_ H].
  unfold user_path, has_reserved in H. simpl in H. rewrite orb_false_r in H.
  now apply negb_true_iff in H.
Qed.

Lemma into_dest_user dg s name :
  user_path dg = true -> user_path s = true -> name_guard name = false ->
  user_path (into_dest dg s name) = true.
Proof.
  intros Hd Hs Hn. unfold into_dest. destruct name as [n|]; rewrite user_path_app, Hd; simpl.
  - simpl in Hn. apply guard_user0 in Hn. unfold resolve in Hn.
    destruct (is_abs n); auto.
  - unfold user_path, has_reserved. simpl. now rewrite (user_path_last s Hs).
Qed.

(** ** Main step lemma *)

Ltac split_R R :=
  unfold op_reserved in R; simpl in R;
  repeat match type of R with
         | (_ || _) = false => apply orb_false_iff in R as [? R]
         end.

Lemma step_view st o : uv (raw (fst (c_step st o))) = view_step (uv (raw st)) o.
Proof.
  destruct (op_reserved o) eqn:R.
  - destruct (reserved_refused st o R) as (r & E & _). rewrite E. simpl.
    unfold view_step, to_uop. now rewrite R.
  - unfold view_step, to_uop. rewrite R. unfold c_step, c_step_gen. cbv zeta.
    destruct o; split_R R;
      repeat match goal with H : is_internal_path ?x = false |- _ =>
               change (guard x = false) in H; rewrite ?H end.
    + (* create_group *)
      apply (enter_view st cwd (fun c => lift st (u_apply (raw st) (UCreateGroup (resolve c p))))
                        (fun c => UCreateGroup (resolve c p))); auto.
      intros c Hc. apply lift_view; auto. simpl. now apply guard_user.
    + apply (enter_view st cwd (fun c => lift st (u_apply (raw st) (URequireGroup (resolve c p))))
                        (fun c => URequireGroup (resolve c p))); auto.
      intros c Hc. apply lift_view; auto. simpl. now apply guard_user.
    + apply (enter_view st cwd (fun c => lift st (u_apply (raw st) (UCreateDataset (resolve c p) v)))
                        (fun c => UCreateDataset (resolve c p) v)); auto.
      intros c Hc. apply lift_view; auto. simpl. now apply guard_user.
    + apply (enter_view st cwd (fun c => lift st (u_apply (raw st) (URequireDataset (resolve c p) v)))
                        (fun c => URequireDataset (resolve c p) v)); auto.
      intros c Hc. apply lift_view; auto. simpl. now apply guard_user.
    + apply (enter_view st cwd (fun c => lift st (u_apply (raw st) (UCreateDataset (resolve c p) v)))
                        (fun c => UCreateDataset (resolve c p) v)); auto.
      intros c Hc. apply lift_view; auto. simpl. now apply guard_user.
    + (* delete *)
      apply (enter_view st cwd (fun c => c_delete st (resolve c p))
                        (fun c => UDelete (resolve c p))); auto.
      intros c Hc. rewrite c_delete_eq.
      apply (lift_view st (del_pre st (resolve c p)) (UDelete (resolve c p))).
      * apply uv_del_pre.
      * simpl. now apply guard_user.
    + (* move *)
      apply (enter_view st cwd (fun c => c_move st (resolve c s) (resolve c d))
                        (fun c => UMove (resolve c s) (resolve c d))); auto.
      intros c Hc. apply move_view; now apply guard_user.
    + (* copy *)
      apply (enter_view st cwd
               (fun c => match t_get (raw st) (resolve c s) with
                         | None => (st, RFail)
                         | Some o => c_copy st o (resolve c s) (resolve c d) without_meta
                         end)
               (fun c => UCopy (resolve c s) (resolve c d))); auto.
      intros c Hc. apply copy_view; now apply guard_user.
    + (* copy into a group object *)
      assert (Hn : name_guard name = false).
      { destruct name; simpl in *; auto. now apply orb_false_iff in R as [? _]. }
      rewrite Hn. unfold u_step. simpl fst. simpl snd. cbn [forallb]. rewrite andb_true_r.
      unfold enter.
      rewrite !(t_get_uv (raw st)) by now apply guard_user0.
      destruct (is_group (t_get (raw st) (resolve [] cwd))); simpl; auto.
      destruct (is_group (t_get (raw st) (resolve [] dgrp))); simpl; auto.
      rewrite (copy_view st (resolve (resolve [] cwd) s)
                 (into_dest (resolve [] dgrp) (resolve (resolve [] cwd) s) name) without_meta).
      * match goal with |- context [u_copy ?A ?B ?C] => destruct (u_copy A B C) end; auto.
      * apply guard_user; auto. now apply guard_user0.
      * apply into_dest_user; auto; try now apply guard_user0.
        apply guard_user; auto. now apply guard_user0.
    + apply (enter_view st cwd (fun c => lift st (u_apply (raw st) (UAttrSet (resolve c p) k v)))
                        (fun c => UAttrSet (resolve c p) k v)); auto.
      intros c Hc. apply lift_view; auto. simpl. now apply guard_user.
    + apply (enter_view st cwd (fun c => lift st (u_apply (raw st) (UAttrDel (resolve c p) k)))
                        (fun c => UAttrDel (resolve c p) k)); auto.
      intros c Hc. apply lift_view; auto. simpl. now apply guard_user.
    + (* get *)
      destruct (enter (raw st) cwd); auto.
      destruct (t_has (raw st) (resolve p0 p)); auto.
    + apply attach_view.
    + apply detach_view.
Qed.

(** ** The two property lemmas *)

Lemma user_view_run : forall ops st,
  uv (raw (c_run st ops)) = u_run (uv (raw st)) (user_ops ops).
Proof.
  induction ops as [|o r IH]; intros st; simpl; auto.
  unfold c_run in *. simpl. rewrite IH, step_view. unfold view_step.
  destruct (to_uop o); reflexivity.
Qed.

Lemma user_view_run_init ops :
  uv (raw (c_run init_st ops)) = u_run (uv init_raw) (user_ops ops).
Proof. apply user_view_run. Qed.

(** The same with the property's wording: some path argument has a segment that starts
    with [metador_]. *)
Lemma reserved_segment_refused st o :
  (exists p s, In p (c_paths o) /\ In s (segs_of p) /\ starts_with "metador_" s = true) ->
  exists r, c_step st o = (st, r) /\ r <> ROk.
Proof.
  intros (p & s & Hp & Hs & Hr). apply reserved_refused. unfold op_reserved.
  apply existsb_exists. exists p. split; auto.
  apply internal_iff_segment_prop. eauto.
Qed.

(** Metadata operations never change the user view. *)
Lemma metadata_invisible st o :
  (match o with CAttach _ _ _ _ | CDetach _ _ => True | _ => False end) ->
  uv (raw (fst (c_step st o))) = uv (raw st).
Proof.
  intros H. rewrite step_view. unfold view_step, to_uop.
  destruct o; try contradiction; destruct (op_reserved _); reflexivity.
Qed.

(** ** Listings *)

Lemma c_keys_view st c : c_keys st c = t_keys (uv (raw st)) c.
Proof.
  unfold c_keys, t_keys, child_paths, user_view.
  rewrite (map_fst_filter user_path (raw st)). f_equal. apply filter_filter_comm.
Qed.

Lemma c_visit_view st c : c_visit st c = t_visit (uv (raw st)) c.
Proof.
  unfold c_visit, t_visit, below_paths, user_view.
  rewrite (map_fst_filter user_path (raw st)). f_equal. apply filter_filter_comm.
Qed.

Lemma c_len_view st c : c_len st c = List.length (t_keys (uv (raw st)) c).
Proof. unfold c_len. now rewrite c_keys_view. Qed.

Lemma keys_hide st c k : In k (c_keys st c) -> reserved_seg k = false.
Proof.
  unfold c_keys. intros H. apply in_map_iff in H as (p & <- & H).
  apply filter_In in H as [_ H]. now apply user_path_last.
Qed.

Lemma reversed_hide st c k : In k (c_reversed st c) -> reserved_seg k = false.
Proof. unfold c_reversed. intros H. apply in_rev in H. eapply keys_hide; eauto. Qed.

Lemma visit_hide st c r : In r (c_visit st c) -> has_reserved r = false.
Proof.
  unfold c_visit. intros H. apply in_map_iff in H as (p & <- & H).
  apply filter_In in H as [_ H]. unfold user_path in H. apply negb_true_iff in H.
  destruct (has_reserved (skipn (List.length c) p)) eqn:E; auto.
  apply has_reserved_skipn in E. congruence.
Qed.

Lemma contains_reserved st c p : is_internal_path p = true -> c_contains st c p = None.
Proof. intros H. unfold c_contains, guard. now rewrite H. Qed.

Lemma contains_view st c p :
  is_internal_path p = false -> has_reserved c = false ->
  c_contains st c p = Some (t_has (uv (raw st)) (resolve c p)).
Proof.
  intros Hp Hc. unfold c_contains, guard. rewrite Hp. f_equal. symmetry.
  apply t_has_uv. apply guard_user; auto. unfold user_path. now rewrite Hc.
Qed.

(** Nothing the user view contains has a reserved segment. *)
Lemma user_view_no_reserved T p o : In (p, o) (uv T) -> has_reserved p = false.
Proof.
  unfold user_view. intros H. apply filter_In in H as [_ H]. simpl in H.
  now apply negb_true_iff in H.
Qed.

(** ** The pinned rules violate the property *)

Definition demo_ops : list cop := [CCreateGroup "/" "a"; CSetItem "/" "x" "i:1"].

Lemma copy_name_pinned_refuted :
  exists st o, op_reserved o = true /\ fst (c_step_pinned st o) <> st /\
               exists p o', In (p, o') (raw (fst (c_step_pinned st o))) /\
                            t_has (raw st) p = false /\ has_reserved p = true.
Proof.
  exists (c_run init_st demo_ops), (CCopyInto "/" "x" "/a" (Some "metador_evil") false).
  split; [reflexivity|]. split.
  - intros H. apply (f_equal (fun s => List.length (raw s))) in H. vm_compute in H. discriminate.
  - exists ["a"; "metador_evil"], (new_data "i:1"). split; [|split; reflexivity].
    vm_compute. repeat (try (left; reflexivity); right).
Qed.

Lemma reversed_pinned_refuted :
  exists st c k, In k (c_reversed_pinned st c) /\ reserved_seg k = true.
Proof.
  exists init_st, [], toc_seg. split; [|reflexivity]. vm_compute. now left.
Qed.
