(** * Lemmas about [Toc/Sync.v] (property C06). *)
From Coq Require Import List String Ascii Bool Arith NArith Lia DecimalString DecimalN DecimalPos.
From MV Require Import Base.Sx Toc.Layout Toc.LayoutProofs Toc.UserView Toc.UserViewProofs Toc.Sync.
Import ListNotations.
Local Open Scope string_scope.
Local Open Scope list_scope.
Local Arguments meta_dir_of : simpl never.
Local Arguments String.eqb : simpl never.

(** ** Lookups in association-list trees *)

Lemma find_filter {X} (f g : X -> bool) l :
  find f (filter g l) = find (fun x => g x && f x) l.
Proof.
  induction l as [|x l IH]; simpl; auto.
  destruct (g x) eqn:G; simpl; auto. destruct (f x); auto.
Qed.

Lemma find_ext {X} (f g : X -> bool) l : (forall x, f x = g x) -> find f l = find g l.
Proof. intros H. induction l; simpl; auto. now rewrite H, IHl. Qed.

Lemma find_none_all {X} (f : X -> bool) l : (forall x, In x l -> f x = false) -> find f l = None.
Proof.
  induction l; simpl; auto. intros H. rewrite (H a) by auto. apply IHl. auto.
Qed.

Lemma t_get_app A B p :
  t_get (A ++ B) p = match t_get A p with Some o => Some o | None => t_get B p end.
Proof.
  unfold t_get. induction A as [|e A IH]; simpl; auto.
  destruct (path_eqb (fst e) p); auto.
Qed.

Lemma t_get_single q o p : t_get [(q, o)] p = if path_eqb q p then Some o else None.
Proof. unfold t_get. simpl. destruct (path_eqb q p); auto. Qed.

Lemma t_get_put T q o p :
  t_get (t_put T q o) p =
  match t_get T p with Some x => Some x | None => if path_eqb q p then Some o else None end.
Proof. unfold t_put. now rewrite t_get_app, t_get_single. Qed.

Lemma t_get_filter_key (f : path -> bool) T p :
  t_get (filter (fun e => f (fst e)) T) p = if f p then t_get T p else None.
Proof.
  unfold t_get. rewrite find_filter.
  destruct (f p) eqn:F.
  - erewrite find_ext; [reflexivity|]. intros x. simpl.
    destruct (path_eqb (fst x) p) eqn:E; [|now rewrite andb_false_r].
    apply path_eqb_eq in E. now rewrite E, F.
  - rewrite find_none_all; auto. intros x _.
    destruct (path_eqb (fst x) p) eqn:E; [|now rewrite andb_false_r].
    apply path_eqb_eq in E. now rewrite E, F.
Qed.

Lemma t_get_cut q T p : t_get (t_cut q T) p = if is_prefix q p then None else t_get T p.
Proof.
  unfold t_cut. rewrite (t_get_filter_key (fun k => negb (is_prefix q k))).
  now destruct (is_prefix q p).
Qed.

Lemma t_get_sub q T p : t_get (t_sub q T) p = if is_prefix q p then t_get T p else None.
Proof. unfold t_sub. now rewrite (t_get_filter_key (fun k => is_prefix q k)). Qed.

Lemma t_get_upd T q f p :
  t_get (t_upd T q f) p = if path_eqb p q then option_map f (t_get T p) else t_get T p.
Proof.
  unfold t_get, t_upd. induction T as [|e T IH]; simpl.
  - now destruct (path_eqb p q).
  - destruct (path_eqb (fst e) q) eqn:E1; simpl.
    + destruct (path_eqb (fst e) p) eqn:E2.
      * apply path_eqb_eq in E1, E2. subst. now rewrite path_eqb_refl.
      * apply IH.
    + destruct (path_eqb (fst e) p) eqn:E2.
      * apply path_eqb_eq in E2. subst. now rewrite E1.
      * apply IH.
Qed.

Lemma t_get_in T p o : t_get T p = Some o -> In (p, o) T.
Proof.
  unfold t_get. destruct (find (fun e => path_eqb (fst e) p) T) as [e|] eqn:F; [|discriminate].
  intros H. inversion H; subst. apply find_some in F as [F1 F2].
  apply path_eqb_eq in F2. subst. now destruct e.
Qed.

Lemma in_t_has T e : In e T -> t_has T (fst e) = true.
Proof.
  intros H. unfold t_has, t_get.
  destruct (find (fun e0 => path_eqb (fst e0) (fst e)) T) eqn:F; auto.
  eapply find_none in F; eauto. now rewrite path_eqb_refl in F.
Qed.

Lemma t_has_in T p : t_has T p = true -> In p (map fst T).
Proof.
  unfold t_has. destruct (t_get T p) eqn:G; [|discriminate]. intros _.
  apply t_get_in in G. now apply (in_map fst) in G.
Qed.

Lemma in_keys_t_has T p : In p (map fst T) -> t_has T p = true.
Proof. intros H. apply in_map_iff in H as (e & <- & H). now apply in_t_has. Qed.

Lemma t_has_keys T p : t_has T p = true <-> In p (map fst T).
Proof. split; [apply t_has_in|apply in_keys_t_has]. Qed.

Lemma t_get_nodup_in T p o : NoDup (map fst T) -> In (p, o) T -> t_get T p = Some o.
Proof.
  unfold t_get. induction T as [|e T IH]; simpl; [tauto|]. intros ND [H|H].
  - subst. simpl. now rewrite path_eqb_refl.
  - inversion ND; subst. destruct (path_eqb (fst e) p) eqn:E.
    + apply path_eqb_eq in E. subst. exfalso. apply H2. now apply (in_map fst) in H.
    + now apply IH.
Qed.

Lemma t_has_put T q o p : t_has (t_put T q o) p = t_has T p || path_eqb q p.
Proof.
  unfold t_has. rewrite t_get_put. destruct (t_get T p); auto. now destruct (path_eqb q p).
Qed.

Lemma t_has_cut q T p : t_has (t_cut q T) p = negb (is_prefix q p) && t_has T p.
Proof. unfold t_has. rewrite t_get_cut. now destruct (is_prefix q p). Qed.

Lemma t_has_upd T q f p : t_has (t_upd T q f) p = t_has T p.
Proof.
  unfold t_has. rewrite t_get_upd. destruct (path_eqb p q); auto. now destruct (t_get T p).
Qed.

Lemma has_children_iff T c :
  has_children T c = true <-> exists p, is_child c p = true /\ t_has T p = true.
Proof.
  unfold has_children. rewrite existsb_exists. split.
  - intros (e & H1 & H2). exists (fst e). split; auto. now apply in_t_has.
  - intros (p & H1 & H2). apply t_has_in in H2. apply in_map_iff in H2 as (e & <- & H2).
    eauto.
Qed.

Lemma has_children_false T c :
  has_children T c = false <-> forall p, is_child c p = true -> t_has T p = false.
Proof.
  split.
  - intros H p C. destruct (t_has T p) eqn:P; auto.
    assert (has_children T c = true) by (apply has_children_iff; eauto). congruence.
  - intros H. destruct (has_children T c) eqn:C; auto.
    apply has_children_iff in C as (p & C & P). rewrite (H p C) in P. discriminate.
Qed.

(** Keys. *)
Lemma keys_put T q o : map fst (t_put T q o) = map fst T ++ [q].
Proof. unfold t_put. now rewrite map_app. Qed.

Lemma keys_cut q T : map fst (t_cut q T) = filter (fun p => negb (is_prefix q p)) (map fst T).
Proof. unfold t_cut. induction T; simpl; auto. destruct (is_prefix q (fst a)); simpl; now rewrite IHT. Qed.

Lemma keys_upd T q f : map fst (t_upd T q f) = map fst T.
Proof.
  unfold t_upd. induction T; simpl; auto. rewrite IHT. now destruct (path_eqb (fst a) q).
Qed.

Lemma NoDup_snoc {X} (l : list X) x : NoDup l -> ~ In x l -> NoDup (l ++ [x]).
Proof.
  induction l as [|y l IH]; simpl; intros ND H.
  - constructor; auto.
  - inversion ND; subst. constructor.
    + rewrite in_app_iff. simpl. intros [I|[I|[]]]; auto.
    + apply IH; auto.
Qed.

Lemma nodup_put T q o : NoDup (map fst T) -> t_has T q = false -> NoDup (map fst (t_put T q o)).
Proof.
  intros ND H. rewrite keys_put. apply NoDup_snoc; auto.
  intros I. apply in_keys_t_has in I. congruence.
Qed.

Lemma nodup_cut q T : NoDup (map fst T) -> NoDup (map fst (t_cut q T)).
Proof. intros ND. rewrite keys_cut. now apply NoDup_filter. Qed.

Lemma nodup_upd T q f : NoDup (map fst T) -> NoDup (map fst (t_upd T q f)).
Proof. now rewrite keys_upd. Qed.

(** ** Classification of paths *)

Lemma reserved_toc : reserved_seg toc_seg = true.
Proof. reflexivity. Qed.
Lemma meta_toc : meta_seg toc_seg = false.
Proof. reflexivity. Qed.

Lemma classify_toc_eq r : classify (toc_seg :: r) = classify_toc r.
Proof. reflexivity. Qed.

Lemma in_toc_inv p : in_toc p = true -> exists r, p = toc_seg :: r.
Proof.
  destruct p as [|t r]; simpl; [discriminate|]. intros H. apply String.eqb_eq in H. subst. eauto.
Qed.

Lemma in_toc_cons r : in_toc (toc_seg :: r) = true.
Proof. reflexivity. Qed.

Ltac eqb_cases :=
  repeat match goal with
         | |- context [String.eqb ?a ?b] =>
             let E := fresh "E" in destruct (String.eqb a b) eqn:E;
             [apply String.eqb_eq in E; subst|]
         end.

Lemma classify_toc_inv r :
  match classify_toc r with
  | PToc => r = []
  | PVersion => r = ["version"] | PUuid => r = ["uuid"]
  | PLinks => r = ["links"] | PSchemas => r = ["schemas"] | PPackages => r = ["packages"]
  | PLinkGrp s => r = ["links"; s] | PSchema s => r = ["schemas"; s]
  | PPackage s => r = ["packages"; s]
  | PLink s u => r = ["links"; s; u]
  | PSchemaJson s => r = ["schemas"; s; "jsonschema.json"]
  | PSchemaCompat s => r = ["schemas"; s; "compat"]
  | PBad => True
  | _ => False
  end.
Proof.
  destruct r as [|x [|s [|y [|z r]]]]; simpl; auto; eqb_cases; auto.
Qed.

Lemma classify_link s u : classify (link_path s u) = PLink s u.
Proof. reflexivity. Qed.
Lemma classify_linkgrp s : classify (linkgrp_path s) = PLinkGrp s.
Proof. reflexivity. Qed.
Lemma classify_schema s : classify (schema_path s) = PSchema s.
Proof. reflexivity. Qed.
Lemma classify_json s : classify (schema_path s ++ ["jsonschema.json"]) = PSchemaJson s.
Proof. reflexivity. Qed.
Lemma classify_compat s : classify (schema_path s ++ ["compat"]) = PSchemaCompat s.
Proof. reflexivity. Qed.
Lemma classify_package s : classify (package_path s) = PPackage s.
Proof. reflexivity. Qed.

Lemma split_res_app d b :
  has_reserved d = false ->
  split_res (d ++ b) = (d ++ fst (split_res b), snd (split_res b)).
Proof.
  induction d as [|x d IH]; simpl; intros H.
  - now destruct (split_res b).
  - apply orb_false_iff in H as [H1 H2]. rewrite H1, (IH H2). reflexivity.
Qed.

Lemma split_res_spec p :
  p = fst (split_res p) ++ snd (split_res p) /\
  has_reserved (fst (split_res p)) = false /\
  match snd (split_res p) with [] => True | x :: _ => reserved_seg x = true end.
Proof.
  induction p as [|x p IH]; simpl; auto.
  destruct (reserved_seg x) eqn:R; simpl; auto.
  destruct (split_res p) as [a b]. simpl in *. destruct IH as (I1 & I2 & I3).
  rewrite R, I2. repeat split; auto. now f_equal.
Qed.

Lemma split_res_user p : has_reserved p = false -> split_res p = (p, []).
Proof.
  induction p as [|x p IH]; simpl; auto. intros H. apply orb_false_iff in H as [H1 H2].
  now rewrite H1, (IH H2).
Qed.

Lemma classify_user p : has_reserved p = false -> classify p = PUser.
Proof. intros H. unfold classify. rewrite (split_res_user p H). now destruct p. Qed.

Lemma split_res_none p : snd (split_res p) = [] -> has_reserved p = false.
Proof.
  intros H. destruct (split_res_spec p) as (S1 & S2 & _). rewrite H, app_nil_r in S1.
  now rewrite S1 at 1.
Qed.

Lemma classify_user_inv p : classify p = PUser -> has_reserved p = false.
Proof.
  unfold classify. destruct (split_res p) as [a b] eqn:S. intros H.
  apply split_res_none. rewrite S. simpl.
  destruct b as [|t r]; auto. exfalso.
  destruct a as [|x a].
  - destruct (String.eqb t toc_seg) eqn:Et.
    + pose proof (classify_toc_inv r) as C. rewrite H in C. exact C.
    + destruct (meta_seg t); [|discriminate]. destruct r as [|nm [|? ?]]; try discriminate.
      destruct (reserved_seg nm); discriminate.
  - destruct r as [|nm [|? ?]]; try discriminate.
    + destruct (meta_seg t); discriminate.
    + destruct (meta_seg t && negb (reserved_seg nm)); discriminate.
Qed.

Lemma meta_not_toc m : meta_seg m = true -> String.eqb m toc_seg = false.
Proof.
  intros H. destruct (String.eqb m toc_seg) eqn:E; auto. apply String.eqb_eq in E. subst.
  now rewrite meta_toc in H.
Qed.

Lemma classify_dir d m :
  has_reserved d = false -> meta_seg m = true -> classify (d ++ [m]) = PMetaDir d m.
Proof.
  intros Hd Hm. unfold classify. rewrite (split_res_app d [m] Hd). simpl.
  rewrite (meta_seg_reserved m Hm). simpl. rewrite app_nil_r.
  destruct d; simpl; rewrite ?(meta_not_toc m Hm), Hm; reflexivity.
Qed.

Lemma classify_obj d m nm :
  has_reserved d = false -> meta_seg m = true -> reserved_seg nm = false ->
  classify (d ++ [m; nm]) = PMetaObj d m nm.
Proof.
  intros Hd Hm Hn. unfold classify. rewrite (split_res_app d [m; nm] Hd). simpl.
  rewrite (meta_seg_reserved m Hm). simpl. rewrite app_nil_r.
  destruct d; simpl; rewrite ?(meta_not_toc m Hm), Hm, Hn; reflexivity.
Qed.

Lemma classify_obj_inv p d m nm :
  classify p = PMetaObj d m nm ->
  p = d ++ [m; nm] /\ has_reserved d = false /\ meta_seg m = true /\ reserved_seg nm = false.
Proof.
  unfold classify. destruct (split_res_spec p) as (S1 & S2 & S3).
  destruct (split_res p) as [a b]. simpl in *. intros H.
  destruct b as [|t r]; [destruct a; discriminate|].
  destruct a as [|x a].
  - destruct (String.eqb t toc_seg) eqn:Et.
    + pose proof (classify_toc_inv r) as C. rewrite H in C. destruct C.
    + destruct (meta_seg t) eqn:Mt; [|discriminate]. destruct r as [|n0 [|? ?]]; try discriminate.
      destruct (reserved_seg n0) eqn:Rn; [discriminate|]. inversion H; subst. auto.
  - destruct r as [|n0 [|? ?]]; try discriminate.
    + destruct (meta_seg t); discriminate.
    + destruct (meta_seg t) eqn:Mt; [|discriminate].
      destruct (reserved_seg n0) eqn:Rn; [discriminate|]. simpl in H. inversion H; subst. auto.
Qed.

Lemma classify_dir_inv p d m :
  classify p = PMetaDir d m -> p = d ++ [m] /\ has_reserved d = false /\ meta_seg m = true.
Proof.
  unfold classify. destruct (split_res_spec p) as (S1 & S2 & S3).
  destruct (split_res p) as [a b]. simpl in *. intros H.
  destruct b as [|t r]; [destruct a; discriminate|].
  destruct a as [|x a].
  - destruct (String.eqb t toc_seg) eqn:Et.
    + pose proof (classify_toc_inv r) as C. rewrite H in C. destruct C.
    + destruct (meta_seg t) eqn:Mt; [|discriminate]. destruct r as [|n0 [|? ?]]; try discriminate.
      * inversion H; subst. auto.
      * destruct (reserved_seg n0); discriminate.
  - destruct r as [|n0 [|? ?]]; try discriminate.
    + destruct (meta_seg t) eqn:Mt; [|discriminate]. inversion H; subst. auto.
    + destruct (meta_seg t && negb (reserved_seg n0)); discriminate.
Qed.

Lemma in_toc_reserved p : in_toc p = true -> has_reserved p = true.
Proof. intros H. apply in_toc_inv in H as (r & ->). reflexivity. Qed.

Lemma obj_not_toc p : is_obj_path p = true -> in_toc p = false.
Proof.
  unfold is_obj_path. destruct (classify p) eqn:C; try discriminate. intros _.
  destruct (in_toc p) eqn:T; auto. apply in_toc_inv in T as (r & ->).
  rewrite classify_toc_eq in C. pose proof (classify_toc_inv r) as I. rewrite C in I. destruct I.
Qed.

Lemma toc_not_obj r : is_obj_path (toc_seg :: r) = false.
Proof.
  destruct (is_obj_path (toc_seg :: r)) eqn:O; auto. apply obj_not_toc in O.
  now rewrite in_toc_cons in O.
Qed.

(** ** Object sets *)

Lemma in_objs T q : In q (objs T) <-> t_has T q = true /\ is_obj_path q = true.
Proof.
  unfold objs. rewrite filter_In, t_has_keys. tauto.
Qed.

Lemma objs_put T q o :
  objs (t_put T q o) = objs T ++ (if is_obj_path q then [q] else []).
Proof. unfold objs. rewrite keys_put, filter_app. simpl. now destruct (is_obj_path q). Qed.

Lemma objs_upd T q f : objs (t_upd T q f) = objs T.
Proof. unfold objs. now rewrite keys_upd. Qed.

Lemma filter_filter {X} (f g : X -> bool) l :
  filter f (filter g l) = filter (fun x => g x && f x) l.
Proof.
  induction l as [|x l IH]; simpl; auto. destruct (g x) eqn:G; simpl; rewrite IH; auto.
Qed.

Lemma objs_cut q T : objs (t_cut q T) = filter (fun p => negb (is_prefix q p)) (objs T).
Proof.
  unfold objs. rewrite keys_cut, !filter_filter. apply filter_ext. intros a. apply andb_comm.
Qed.

Lemma objs_cut_toc r T : objs (t_cut (toc_seg :: r) T) = objs T.
Proof.
  rewrite objs_cut. unfold objs. rewrite filter_filter.
  apply filter_ext. intros p. destruct (is_obj_path p) eqn:O; auto. simpl.
  destruct p as [|t p']; auto. simpl. destruct (String.eqb toc_seg t) eqn:E; auto.
  apply String.eqb_eq in E. subst. now rewrite toc_not_obj in O.
Qed.

(** ** The checker is sound *)

Lemma nodup_paths_sound l : nodup_paths l = true -> NoDup l.
Proof.
  induction l as [|p l IH]; simpl; intros H; constructor.
  - apply andb_prop in H as [H _]. apply negb_true_iff in H. intros I.
    assert (existsb (path_eqb p) l = true); [|congruence].
    apply existsb_exists. exists p. split; auto. apply path_eqb_refl.
  - apply andb_prop in H as [_ H]. auto.
Qed.

Lemma uses_iff M s : uses M s = true <-> exists q, In q M /\ sch q = s.
Proof.
  unfold uses. rewrite existsb_exists. split; intros (q & H1 & H2); exists q; split; auto.
  - now apply String.eqb_eq.
  - now apply String.eqb_eq.
Qed.

Lemma toc_spec_expected E M p t :
  in_toc p = true -> toc_spec E M p = Some t -> In p (expected E M).
Proof.
  intros I. apply in_toc_inv in I as (r & ->). unfold toc_spec, expected.
  rewrite classify_toc_eq. pose proof (classify_toc_inv r) as C.
  destruct (classify_toc r) eqn:K; try discriminate; subst r; intros H.
  - simpl. auto.
  - simpl. auto.
  - simpl. auto.
  - destruct M; [discriminate|]. apply in_or_app. right. apply in_or_app. left. simpl. auto.
  - destruct (uses M s) eqn:U; [|discriminate]. apply uses_iff in U as (q & Q1 & Q2).
    apply in_or_app. right. apply in_or_app. right. apply in_flat_map. exists q. split; auto.
    subst. simpl. auto.
  - destruct (find _ M) as [q|] eqn:F; [|discriminate]. apply find_some in F as [F1 F2].
    apply andb_prop in F2 as [F2 F3]. apply String.eqb_eq in F2, F3. subst.
    apply in_or_app. right. apply in_or_app. right. apply in_flat_map. exists q. split; auto.
    simpl. auto.
  - destruct M; [discriminate|]. apply in_or_app. right. apply in_or_app. left. simpl. auto.
  - destruct (uses M s) eqn:U; [|discriminate]. apply uses_iff in U as (q & Q1 & Q2).
    apply in_or_app. right. apply in_or_app. right. apply in_flat_map. exists q. split; auto.
    subst. simpl. auto.
  - destruct (uses M s) eqn:U; [|discriminate]. apply uses_iff in U as (q & Q1 & Q2).
    apply in_or_app. right. apply in_or_app. right. apply in_flat_map. exists q. split; auto.
    subst. simpl. auto 6.
  - destruct (uses M s) eqn:U; [|discriminate]. apply uses_iff in U as (q & Q1 & Q2).
    apply in_or_app. right. apply in_or_app. right. apply in_flat_map. exists q. split; auto.
    subst. simpl. auto 6.
  - destruct M; [discriminate|]. apply in_or_app. right. apply in_or_app. left. simpl. auto.
  - destruct (existsb _ M) eqn:X; [|discriminate]. apply existsb_exists in X as (q & Q1 & Q2).
    apply String.eqb_eq in Q2. subst.
    apply in_or_app. right. apply in_or_app. right. apply in_flat_map. exists q. split; auto.
    simpl. auto 8.
Qed.

Record SyncRaw (E : env) (T : tree) (n : N) (pr : list (string * string)) : Prop := mk_sraw {
  sr_nodup : NoDup (map fst T);
  sr_root : is_group (t_get T []) = true;
  sr_entries : forall p o, t_get T p = Some o -> chk_entry E T n p o = true;
  sr_tocok : forall p, in_toc p = true -> sat (t_get T p) (toc_spec E (objs T) p) = true;
  sr_prov : forall q, In q (objs T) -> assoc pr (sch q) = pkg_of E (sch q)
}.

Lemma syncb_raw_sound E T n pr : syncb_raw E T n pr = true -> SyncRaw E T n pr.
Proof.
  unfold syncb_raw. intros H.
  repeat (apply andb_prop in H as [H ?]).
  constructor.
  - now apply nodup_paths_sound.
  - assumption.
  - intros p o G. apply t_get_in in G. rewrite forallb_forall in H3. apply (H3 (p, o) G).
  - intros p I. destruct (t_get T p) as [o|] eqn:G.
    + apply t_get_in in G. rewrite forallb_forall in H2. specialize (H2 (p, o) G). simpl in H2.
      now rewrite I in H2.
    + destruct (toc_spec E (objs T) p) as [t|] eqn:S; auto.
      pose proof (toc_spec_expected E _ p t I S) as X.
      rewrite forallb_forall in H1. specialize (H1 p X). now rewrite G, S in H1.
  - intros q I. rewrite forallb_forall in H0. apply String.eqb_eq. now apply H0.
Qed.

Lemma sync_of_raw E st :
  SyncRaw E (raw (cs st)) (next_id (cs st)) (prov (cs st)) -> IxOk E (raw (cs st)) (mem st) ->
  Sync E st.
Proof. intros [] ?. constructor; auto. Qed.

Lemma raw_of_sync E st : Sync E st -> SyncRaw E (raw (cs st)) (next_id (cs st)) (prov (cs st)).
Proof. intros []. constructor; auto. Qed.

(** ** The fresh container *)

Lemma sync_init E : Sync E init_ss.
Proof.
  apply sync_of_raw.
  - apply syncb_raw_sound. vm_compute. reflexivity.
  - constructor; simpl.
    + intros u s. split; [tauto|]. vm_compute. discriminate.
    + intros s. split; [tauto|]. vm_compute. discriminate.
    + intros p. split; [tauto|]. vm_compute. discriminate.
    + intros p. split; [discriminate|]. intros (s & [] & _).
    + discriminate.
    + tauto.
    + intros p c. split; [tauto|]. intros ([] & _).
    + intros p. split; [discriminate|tauto].
    + intros p s. split; [tauto|]. intros ([] & _).
Qed.

(** ** The TOC as a function of the attachment set *)

Definition TocOk (E : env) (M : list path) (T : tree) : Prop :=
  forall p, in_toc p = true -> sat (t_get T p) (toc_spec E M p) = true.
Definition rm (q : path) (M : list path) : list path :=
  filter (fun x => negb (path_eqb x q)) M.
Definition UidUniq (M : list path) : Prop :=
  forall q1 q2, In q1 M -> In q2 M -> uid q1 = uid q2 -> q1 = q2.
Definition ProvOk (E : env) (pr : list (string * string)) (M : list path) : Prop :=
  forall q, In q M -> assoc pr (sch q) = pkg_of E (sch q).
Definition isSome {X} (o : option X) : bool := match o with Some _ => true | None => false end.

Lemma sat_has o t : sat o t = true -> isSome o = isSome t.
Proof. destruct o as [[[|v] a]|], t as [[| |v']|]; simpl; auto; discriminate. Qed.

Lemma tocok_has E M T p :
  TocOk E M T -> in_toc p = true -> t_has T p = isSome (toc_spec E M p).
Proof. intros H I. unfold t_has. specialize (H p I). now apply sat_has in H. Qed.

Lemma sat_none o : sat o None = true -> o = None.
Proof. destruct o as [[[|v] a]|]; simpl; auto; discriminate. Qed.

Lemma is_child_iff c p : is_child c p = true <-> exists x, p = c ++ [x].
Proof.
  unfold is_child. split.
  - intros H. apply andb_prop in H as [H1 H2]. apply Nat.eqb_eq in H1.
    pose proof (is_prefix_split c p H2) as S.
    destruct (skipn (List.length c) p) as [|x [|y l]] eqn:K.
    + rewrite app_nil_r in S. subst. lia.
    + eauto.
    + rewrite S, app_length in H1. simpl in H1. lia.
  - intros (x & ->). rewrite app_length, is_prefix_app. simpl.
    rewrite Nat.add_1_r, Nat.eqb_refl. reflexivity.
Qed.

Lemma hc_iff T c : has_children T c = true <-> exists x, t_has T (c ++ [x]) = true.
Proof.
  rewrite has_children_iff. split.
  - intros (p & C & H). apply is_child_iff in C as (x & ->). eauto.
  - intros (x & H). exists (c ++ [x]). split; auto. apply is_child_iff. eauto.
Qed.

Lemma is_prefix_cons x q y p : is_prefix (x :: q) (y :: p) = String.eqb x y && is_prefix q p.
Proof. reflexivity. Qed.

Lemma is_prefix_refl p : is_prefix p p = true.
Proof. induction p; simpl; auto. now rewrite String.eqb_refl. Qed.

Lemma is_prefix_length q p : is_prefix q p = true -> List.length q <= List.length p.
Proof. intros H. rewrite (is_prefix_split q p H), app_length. lia. Qed.

Lemma in_rm q M x : In x (rm q M) <-> In x M /\ x <> q.
Proof.
  unfold rm. rewrite filter_In. split; intros [H1 H2]; split; auto.
  - intros ->. now rewrite path_eqb_refl in H2.
  - apply negb_true_iff. destruct (path_eqb x q) eqn:E; auto. apply path_eqb_eq in E. contradiction.
Qed.

Lemma rm_nil_iff q M : rm q M = [] <-> forall x, In x M -> x = q.
Proof.
  split.
  - intros H x I. destruct (list_eq_dec string_dec x q) as [|N]; auto.
    assert (In x (rm q M)) by (apply in_rm; auto). rewrite H in H0. destruct H0.
  - intros H. destruct (rm q M) as [|y l] eqn:R; auto.
    assert (In y (rm q M)) by (rewrite R; simpl; auto). apply in_rm in H0 as [H1 H2].
    now apply H in H1.
Qed.

Lemma uniq_rm q M : UidUniq M -> UidUniq (rm q M).
Proof. intros U a b Ha Hb. apply in_rm in Ha as [Ha _], Hb as [Hb _]. now apply U. Qed.

(** Closed string comparisons are evaluated, open ones left alone. *)
Ltac ceqb :=
  repeat match goal with
         | |- context [String.eqb ?a ?b] =>
             let v := eval vm_compute in (String.eqb a b) in
             match v with
             | true => change (String.eqb a b) with true
             | false => change (String.eqb a b) with false
             end
         end.

Lemma spec_link E M s u :
  toc_spec E M (link_path s u) =
  match find (fun q => String.eqb (sch q) s && String.eqb (uid q) u) M with
  | Some q => Some (TL (name_of q)) | None => None end.
Proof. reflexivity. Qed.
Lemma spec_linkgrp E M s : toc_spec E M (linkgrp_path s) = if uses M s then Some TG else None.
Proof. reflexivity. Qed.
Lemma spec_schema E M s : toc_spec E M (schema_path s) = if uses M s then Some TG else None.
Proof. reflexivity. Qed.
Lemma spec_package E M pk :
  toc_spec E M (package_path pk) =
  if existsb (fun q => String.eqb (pkg_of E (sch q)) pk) M then Some TD else None.
Proof. reflexivity. Qed.
Lemma spec_dirs E M :
  toc_spec E M links_segs = match M with [] => None | _ => Some TG end /\
  toc_spec E M schemas_segs = match M with [] => None | _ => Some TG end /\
  toc_spec E M packages_segs = match M with [] => None | _ => Some TG end.
Proof. repeat split; reflexivity. Qed.

Lemma has_link E M T s u :
  TocOk E M T ->
  t_has T (link_path s u) = true <-> exists q, In q M /\ sch q = s /\ uid q = u.
Proof.
  intros H. rewrite (tocok_has E M T _ H) by reflexivity. rewrite spec_link.
  destruct (find _ M) as [q|] eqn:F; simpl.
  - apply find_some in F as [F1 F2]. apply andb_prop in F2 as [F2 F3].
    apply String.eqb_eq in F2, F3. split; eauto.
  - split; [discriminate|]. intros (q & Q1 & <- & <-).
    apply (find_none _ _ F) in Q1. now rewrite !String.eqb_refl in Q1.
Qed.

Lemma has_linkgrp E M T s : TocOk E M T -> t_has T (linkgrp_path s) = uses M s.
Proof.
  intros H. rewrite (tocok_has E M T _ H) by reflexivity. rewrite spec_linkgrp.
  now destruct (uses M s).
Qed.

Lemma has_schema E M T s : TocOk E M T -> t_has T (schema_path s) = uses M s.
Proof.
  intros H. rewrite (tocok_has E M T _ H) by reflexivity. rewrite spec_schema.
  now destruct (uses M s).
Qed.

Definition needs (E : env) (M : list path) (pk : string) : bool :=
  existsb (fun q => String.eqb (pkg_of E (sch q)) pk) M.

Lemma has_package E M T pk : TocOk E M T -> t_has T (package_path pk) = needs E M pk.
Proof.
  intros H. rewrite (tocok_has E M T _ H) by reflexivity. rewrite spec_package.
  unfold needs. now destruct (existsb _ M).
Qed.

Lemma needs_iff E M pk : needs E M pk = true <-> exists q, In q M /\ pkg_of E (sch q) = pk.
Proof.
  unfold needs. rewrite existsb_exists. split; intros (q & H1 & H2); exists q; split; auto.
  - now apply String.eqb_eq.
  - now apply String.eqb_eq.
Qed.

(** Cuts inside the TOC leave everything else alone. *)
Definition SameOutside (T T' : tree) : Prop :=
  (forall p, in_toc p = false -> t_get T' p = t_get T p) /\
  objs T' = objs T /\
  (NoDup (map fst T) -> NoDup (map fst T')).

Lemma so_refl T : SameOutside T T.
Proof. repeat split; auto. Qed.

Lemma so_trans A B C : SameOutside A B -> SameOutside B C -> SameOutside A C.
Proof.
  intros (H1 & H2 & H3) (G1 & G2 & G3). repeat split.
  - intros p I. now rewrite G1, H1.
  - congruence.
  - auto.
Qed.

Lemma so_cut r T : SameOutside T (t_cut (toc_seg :: r) T).
Proof.
  repeat split.
  - intros p I. rewrite t_get_cut. destruct p as [|t p]; auto.
    rewrite is_prefix_cons. simpl in I. rewrite String.eqb_sym in I. now rewrite I.
  - apply objs_cut_toc.
  - apply nodup_cut.
Qed.

(** ** [unreg_link]: removing one object from the attachment set *)

Ltac pfx :=
  unfold link_path, linkgrp_path, schema_path, package_path, links_segs, schemas_segs,
    packages_segs, version_segs, uuid_segs, toc_segs in *;
  cbn [app is_prefix] in *; ceqb; cbn [andb orb negb] in *;
  rewrite ?andb_true_r, ?andb_false_r, ?orb_false_r; cbn [andb orb negb].

Lemma find_rm_other (f : path -> bool) q M :
  f q = false -> find f (rm q M) = find f M.
Proof.
  intros F. unfold rm. induction M as [|x M IH]; simpl; auto.
  destruct (path_eqb x q) eqn:X; simpl.
  - apply path_eqb_eq in X. subst. now rewrite F.
  - now rewrite IH.
Qed.

Lemma existsb_rm_other (f : path -> bool) q M :
  f q = false -> existsb f (rm q M) = existsb f M.
Proof.
  intros F. unfold rm. induction M as [|x M IH]; simpl; auto.
  destruct (path_eqb x q) eqn:X; simpl.
  - apply path_eqb_eq in X. subst. now rewrite F.
  - now rewrite IH.
Qed.

Section UnregLink.
  Variables (E : env) (M : list path) (T : tree) (pr : list (string * string)) (q : path).
  Hypothesis HT : TocOk E M T.
  Hypothesis UQ : UidUniq M.
  Hypothesis PO : ProvOk E pr M.
  Hypothesis Q : In q M.
  Let s := sch q.
  Let u := uid q.
  Let pk := pkg_of E (sch q).
  Let M' := rm q M.
  Let U := uses M' s.
  Let P := needs E M' pk.
  Let N := match M' with [] => false | _ => true end.

  Lemma ul_pr : assoc pr s = pk.
  Proof. apply PO, Q. Qed.

  Lemma ul_other q' : In q' M -> q' <> q <-> uid q' <> u.
  Proof.
    intros I. split.
    - intros Nq Eu. apply Nq. now apply UQ.
    - intros Nu ->. now apply Nu.
  Qed.

  Lemma ul_UP : U = true -> P = true.
  Proof.
    unfold U, P. intros H. apply uses_iff in H as (q' & I & S). apply needs_iff.
    exists q'. split; auto. unfold pk. now rewrite S.
  Qed.

  Lemma ul_PN : P = true -> N = true.
  Proof.
    unfold P, N. intros H. apply needs_iff in H as (q' & I & _). unfold M' in *.
    destruct (rm q M); auto.
  Qed.

  Lemma ul_N_in : N = true <-> exists q', In q' M'.
  Proof.
    unfold N, M'. destruct (rm q M) as [|x l]; split; try discriminate; auto.
    - intros (q' & []).
    - intros _. exists x. simpl. auto.
  Qed.

  (** Specification for the smaller set. *)
  Lemma ul_uses_other x : x <> s -> uses M' x = uses M x.
  Proof.
    intros Nx. unfold uses, M'. apply existsb_rm_other.
    apply String.eqb_neq. intros Hx. apply Nx. now rewrite <- Hx.
  Qed.

  Lemma ul_needs_other x : x <> pk -> needs E M' x = needs E M x.
  Proof.
    intros Nx. unfold needs, M'. apply existsb_rm_other.
    apply String.eqb_neq. intros Hx. apply Nx. now rewrite <- Hx.
  Qed.

  Lemma ul_find_other x y :
    (x, y) <> (s, u) ->
    find (fun q0 => String.eqb (sch q0) x && String.eqb (uid q0) y) M' =
    find (fun q0 => String.eqb (sch q0) x && String.eqb (uid q0) y) M.
  Proof.
    intros Nx. apply find_rm_other. apply andb_false_iff.
    destruct (String.eqb (sch q) x) eqn:A; auto. right.
    apply String.eqb_neq. intros B. apply String.eqb_eq in A. apply Nx. now rewrite <- A, <- B.
  Qed.

  Lemma ul_find_self :
    find (fun q0 => String.eqb (sch q0) s && String.eqb (uid q0) u) M' = None.
  Proof.
    apply find_none_all. intros x I. apply in_rm in I as [I Nx].
    apply andb_false_iff. right. apply String.eqb_neq. now apply ul_other.
  Qed.

  Lemma ul_uses_M : uses M s = true.
  Proof. apply uses_iff. eauto. Qed.

  Lemma ul_needs_M : needs E M pk = true.
  Proof. apply needs_iff. eauto. Qed.

  (** The branch conditions of [unreg_link] / [unreg_schema]. *)
  Lemma ul_c1 : has_children (t_cut (link_path s u) T) (linkgrp_path s) = U.
  Proof.
    apply Bool.eq_iff_eq_true. rewrite hc_iff. unfold U. rewrite uses_iff. split.
    - intros (x & H). change (linkgrp_path s ++ [x]) with (link_path s x) in H.
      rewrite t_has_cut in H. apply andb_prop in H as [H1 H2].
      apply (has_link E M T s x HT) in H2 as (q' & I & S1 & S2).
      exists q'. split; auto. apply in_rm. split; auto. apply ul_other; auto.
      intros Eu. rewrite S2 in Eu. rewrite Eu in H1. now rewrite is_prefix_refl in H1.
    - intros (q' & I & S1). apply in_rm in I as [I Nq]. exists (uid q').
      change (linkgrp_path s ++ [uid q']) with (link_path s (uid q')).
      rewrite t_has_cut. apply andb_true_intro. split.
      + apply negb_true_iff. pfx. rewrite String.eqb_refl.
        apply String.eqb_neq. intros Eu. apply (ul_other q' I); auto.
      + apply (has_link E M T s (uid q') HT). eauto.
  Qed.

  (** Any tree that agrees with [T] on the schema records other than [s]'s. *)
  Lemma ul_c_schemas X :
    U = false ->
    (forall x, t_has X (schema_path x) = negb (String.eqb s x) && t_has T (schema_path x)) ->
    has_children X schemas_segs = N.
  Proof.
    intros HU HX. apply Bool.eq_iff_eq_true. rewrite hc_iff, ul_N_in. split.
    - intros (x & H). change (schemas_segs ++ [x]) with (schema_path x) in H.
      rewrite HX in H. apply andb_prop in H as [H1 H2]. rewrite (has_schema E M T x HT) in H2.
      apply uses_iff in H2 as (q' & I & S1). exists q'. apply in_rm. split; auto.
      intros ->. fold s in S1. subst x. now rewrite String.eqb_refl in H1.
    - intros (q' & I). exists (sch q'). change (schemas_segs ++ [sch q']) with (schema_path (sch q')).
      rewrite HX. apply andb_true_intro. split.
      + apply negb_true_iff, String.eqb_neq. intros S1.
        assert (uses M' s = true) by (apply uses_iff; eauto). fold U in H. congruence.
      + rewrite (has_schema E M T _ HT). apply uses_iff. apply in_rm in I as [I _]. eauto.
  Qed.

  Lemma ul_c_links X :
    U = false ->
    (forall x, t_has X (linkgrp_path x) = negb (String.eqb s x) && t_has T (linkgrp_path x)) ->
    has_children X links_segs = N.
  Proof.
    intros HU HX. apply Bool.eq_iff_eq_true. rewrite hc_iff, ul_N_in. split.
    - intros (x & H). change (links_segs ++ [x]) with (linkgrp_path x) in H.
      rewrite HX in H. apply andb_prop in H as [H1 H2]. rewrite (has_linkgrp E M T x HT) in H2.
      apply uses_iff in H2 as (q' & I & S1). exists q'. apply in_rm. split; auto.
      intros ->. fold s in S1. subst x. now rewrite String.eqb_refl in H1.
    - intros (q' & I). exists (sch q'). change (links_segs ++ [sch q']) with (linkgrp_path (sch q')).
      rewrite HX. apply andb_true_intro. split.
      + apply negb_true_iff, String.eqb_neq. intros S1.
        assert (uses M' s = true) by (apply uses_iff; eauto). fold U in H. congruence.
      + rewrite (has_linkgrp E M T _ HT). apply uses_iff. apply in_rm in I as [I _]. eauto.
  Qed.

  Lemma ul_c_packages X :
    P = false ->
    (forall x, t_has X (package_path x) = negb (String.eqb pk x) && t_has T (package_path x)) ->
    has_children X packages_segs = N.
  Proof.
    intros HP HX. apply Bool.eq_iff_eq_true. rewrite hc_iff, ul_N_in. split.
    - intros (x & H). change (packages_segs ++ [x]) with (package_path x) in H.
      rewrite HX in H. apply andb_prop in H as [H1 H2]. rewrite (has_package E M T x HT) in H2.
      apply needs_iff in H2 as (q' & I & S1). exists q'. apply in_rm. split; auto.
      intros ->. fold pk in S1. subst x. now rewrite String.eqb_refl in H1.
    - intros (q' & I). exists (pkg_of E (sch q')).
      change (packages_segs ++ [pkg_of E (sch q')]) with (package_path (pkg_of E (sch q'))).
      rewrite HX. apply andb_true_intro. split.
      + apply negb_true_iff, String.eqb_neq. intros S1.
        assert (needs E M' pk = true) by (apply needs_iff; eauto). fold P in H. congruence.
      + rewrite (has_package E M T _ HT). apply needs_iff. apply in_rm in I as [I _]. eauto.
  Qed.

  Lemma ul_c_still X :
    U = false ->
    (forall x, t_has X (schema_path x) = negb (String.eqb s x) && t_has T (schema_path x)) ->
    existsb (fun e => is_child schemas_segs (fst e) &&
                      String.eqb (assoc pr (last_seg (fst e))) (assoc pr s)) X = P.
  Proof.
    intros HU HX. apply Bool.eq_iff_eq_true. rewrite existsb_exists. unfold P.
    rewrite needs_iff, ul_pr. split.
    - intros (e & I & H). apply andb_prop in H as [H1 H2]. apply is_child_iff in H1 as (x & Hx).
      apply in_t_has in I. rewrite Hx in I, H2. change (schemas_segs ++ [x]) with (schema_path x) in I.
      rewrite last_seg_app in H2. apply String.eqb_eq in H2.
      rewrite HX in I. apply andb_prop in I as [I1 I2]. rewrite (has_schema E M T x HT) in I2.
      apply uses_iff in I2 as (q' & I & S1). exists q'. split.
      + apply in_rm. split; auto. intros ->. fold s in S1. subst x.
        now rewrite String.eqb_refl in I1.
      + rewrite <- (PO q' I), S1. exact H2.
    - intros (q' & I & S1).
      assert (Ns : sch q' <> s).
      { intros S2. assert (uses M' s = true) by (apply uses_iff; eauto). fold U in H. congruence. }
      assert (HP : t_has X (schema_path (sch q')) = true).
      { rewrite HX. apply andb_true_intro. split.
        - apply negb_true_iff, String.eqb_neq. auto.
        - rewrite (has_schema E M T _ HT). apply uses_iff. apply in_rm in I as [I _]. eauto. }
      apply t_has_in in HP. apply in_map_iff in HP as (e & He & Ie). exists e. split; auto.
      rewrite He. apply andb_true_intro. split.
      + apply is_child_iff. exists (sch q'). reflexivity.
      + change (schema_path (sch q')) with (schemas_segs ++ [sch q']). rewrite last_seg_app.
        apply String.eqb_eq. apply in_rm in I as [I _]. now rewrite (PO q' I).
  Qed.

  Definition ul_dead (p : path) : bool :=
    is_prefix (link_path s u) p
    || (negb U && (is_prefix (linkgrp_path s) p || is_prefix (schema_path s) p))
    || (negb U && negb P && is_prefix (package_path pk) p)
    || (negb N && (is_prefix packages_segs p || is_prefix schemas_segs p || is_prefix links_segs p)).

  Lemma ul_hx_schema X c :
    (forall x, is_prefix c (schema_path x) = false) ->
    (forall x, t_has X (schema_path x) = negb (String.eqb s x) && t_has T (schema_path x)) ->
    forall x, t_has (t_cut c X) (schema_path x) = negb (String.eqb s x) && t_has T (schema_path x).
  Proof. intros Hc HX x. now rewrite t_has_cut, Hc, HX. Qed.

  Lemma ul_lookup p :
    t_get (unreg_link T pr s u) p = if ul_dead p then None else t_get T p.
  Proof.
    unfold unreg_link, unreg_schema.
    change (links_segs ++ [s; u]) with (link_path s u).
    change (links_segs ++ [s]) with (linkgrp_path s).
    change (schemas_segs ++ [s]) with (schema_path s).
    rewrite ul_c1. unfold ul_dead. destruct U eqn:HU.
    - rewrite ?HU, (ul_PN (ul_UP HU)). cbn [negb andb orb]. rewrite t_get_cut, !orb_false_r. reflexivity.
    - set (X := t_cut (schema_path s) (t_cut (linkgrp_path s) (t_cut (link_path s u) T))).
      assert (HX : forall x, t_has X (schema_path x) =
                             negb (String.eqb s x) && t_has T (schema_path x)).
      { intros x. unfold X. rewrite !t_has_cut. pfx. reflexivity. }
      assert (HL : forall x, t_has X (linkgrp_path x) =
                             negb (String.eqb s x) && t_has T (linkgrp_path x)).
      { intros x. unfold X. rewrite !t_has_cut. pfx. reflexivity. }
      rewrite (ul_c_still X HU HX). rewrite ul_pr. destruct P eqn:HP.
      + rewrite (ul_c_schemas X HU HX), (ul_PN HP).
        rewrite (ul_c_links X HU HL), (ul_PN HP). rewrite ?HU, ?HP.
        unfold X. rewrite !t_get_cut. cbn [negb andb orb].
        destruct (is_prefix (link_path s u) p), (is_prefix (linkgrp_path s) p),
          (is_prefix (schema_path s) p); reflexivity.
      + set (Y := t_cut (packages_segs ++ [pk]) X).
        assert (HY : forall x, t_has Y (package_path x) =
                               negb (String.eqb pk x) && t_has T (package_path x)).
        { intros x. unfold Y, X. rewrite !t_has_cut. pfx. reflexivity. }
        rewrite (ul_c_packages Y HP HY). destruct N eqn:HN.
        * assert (HX2 : forall x, t_has Y (schema_path x) =
                                  negb (String.eqb s x) && t_has T (schema_path x)).
          { intros x. unfold Y. rewrite t_has_cut, HX. pfx. reflexivity. }
          assert (HL2 : forall x, t_has Y (linkgrp_path x) =
                                  negb (String.eqb s x) && t_has T (linkgrp_path x)).
          { intros x. unfold Y. rewrite t_has_cut, HL. pfx. reflexivity. }
          rewrite (ul_c_schemas Y HU HX2), HN. rewrite (ul_c_links Y HU HL2), HN.
          rewrite ?HU, ?HP, ?HN.
          unfold Y, X. rewrite !t_get_cut. cbn [negb andb orb]. change (packages_segs ++ [pk]) with (package_path pk).
          destruct (is_prefix (link_path s u) p), (is_prefix (linkgrp_path s) p),
            (is_prefix (schema_path s) p), (is_prefix (package_path pk) p); reflexivity.
        * set (Z := t_cut packages_segs Y).
          assert (HX2 : forall x, t_has Z (schema_path x) =
                                  negb (String.eqb s x) && t_has T (schema_path x)).
          { intros x. unfold Z, Y. rewrite !t_has_cut, HX. pfx. reflexivity. }
          rewrite (ul_c_schemas Z HU HX2), HN.
          set (W := t_cut schemas_segs Z).
          assert (HL2 : forall x, t_has W (linkgrp_path x) =
                                  negb (String.eqb s x) && t_has T (linkgrp_path x)).
          { intros x. unfold W, Z, Y. rewrite !t_has_cut, HL. pfx. reflexivity. }
          rewrite (ul_c_links W HU HL2), HN.
          rewrite ?HU, ?HP, ?HN.
          unfold W, Z, Y, X. rewrite !t_get_cut. cbn [negb andb orb].
          change (packages_segs ++ [pk]) with (package_path pk).
          destruct (is_prefix (link_path s u) p), (is_prefix (linkgrp_path s) p),
            (is_prefix (schema_path s) p), (is_prefix (package_path pk) p),
            (is_prefix packages_segs p), (is_prefix schemas_segs p), (is_prefix links_segs p);
            reflexivity.
  Qed.

  Lemma ul_N_of q' : In q' M -> q' <> q -> N = true.
  Proof. intros I Nq. apply ul_N_in. exists q'. apply in_rm. auto. Qed.

  Lemma ul_U_of q' : In q' M -> q' <> q -> sch q' = s -> U = true.
  Proof. intros I Nq S. apply uses_iff. exists q'. split; auto. apply in_rm. auto. Qed.

  Lemma sat_dead o t (b : bool) :
    (b = true -> t = None) -> (b = false -> sat o t = true) ->
    sat (if b then None else o) t = true.
  Proof. destruct b; intros H1 H2; auto. now rewrite H1. Qed.

  Lemma ul_dirs_case (o : option obj) :
    sat o (match M with [] => None | _ => Some TG end) = true ->
    sat (if negb N then None else o) (match M' with [] => None | _ => Some TG end) = true.
  Proof.
    intros H. unfold N. destruct M' eqn:R; simpl; auto.
    destruct M; auto.
  Qed.

  Lemma ul_uses_case (o : option obj) x t :
    sat o (if uses M x then Some t else None) = true ->
    sat (if negb U && String.eqb s x || negb N then None else o)
        (if uses M' x then Some t else None) = true.
  Proof.
    intros H. destruct (String.eqb s x) eqn:Sx.
    - apply String.eqb_eq in Sx. subst x. fold U. destruct U eqn:HU.
      + rewrite (ul_PN (ul_UP HU)). simpl. now rewrite ul_uses_M in H.
      + simpl. reflexivity.
    - apply String.eqb_neq in Sx. rewrite (ul_uses_other x) by auto.
      rewrite andb_false_r. simpl. destruct (uses M x) eqn:Ux.
      + apply uses_iff in Ux as (q' & I & S1).
        rewrite (ul_N_of q' I); auto. intros ->. now apply Sx.
      + apply sat_none in H. subst. now destruct (negb N).
  Qed.

  Lemma ul_tocok : TocOk E M' (unreg_link T pr s u).
  Proof.
    intros p I. rewrite ul_lookup. apply in_toc_inv in I as (r & ->).
    pose proof (HT (toc_seg :: r) eq_refl) as Hs. unfold toc_spec in *.
    rewrite classify_toc_eq in *. pose proof (classify_toc_inv r) as C.
    destruct (classify_toc r) eqn:K; try contradiction; try subst r.
    - (* PToc *) unfold ul_dead. pfx. exact Hs.
    - unfold ul_dead. pfx. exact Hs.
    - unfold ul_dead. pfx. exact Hs.
    - (* PLinks *) unfold ul_dead. pfx. now apply ul_dirs_case.
    - (* PLinkGrp *) unfold ul_dead. pfx. now apply ul_uses_case.
    - (* PLink *) unfold ul_dead. pfx.
      destruct (String.eqb s s0 && String.eqb u u0) eqn:SU.
      + apply andb_prop in SU as [S1 S2]. apply String.eqb_eq in S1, S2. subst s0 u0.
        simpl. now rewrite ul_find_self.
      + assert (NE : (s0, u0) <> (s, u)).
        { intros X. inversion X; subst. now rewrite !String.eqb_refl in SU. }
        rewrite (ul_find_other s0 u0 NE). simpl.
        destruct (find _ M) as [q'|] eqn:F.
        * apply find_some in F as [F1 F2]. apply andb_prop in F2 as [F2 F3].
          apply String.eqb_eq in F2, F3.
          assert (Nq : q' <> q) by (intros ->; apply NE; now rewrite <- F2, <- F3).
          rewrite (ul_N_of q' F1 Nq). destruct (String.eqb s s0) eqn:S1.
          -- apply String.eqb_eq in S1. rewrite (ul_U_of q' F1 Nq) by congruence. exact Hs.
          -- rewrite andb_false_r. exact Hs.
        * apply sat_none in Hs. rewrite Hs. now destruct (_ || _).
    - (* PSchemas *) unfold ul_dead. pfx. now apply ul_dirs_case.
    - (* PSchema *) unfold ul_dead. pfx. now apply ul_uses_case.
    - unfold ul_dead. pfx. now apply ul_uses_case.
    - unfold ul_dead. pfx. now apply ul_uses_case.
    - (* PPackages *) unfold ul_dead. pfx. now apply ul_dirs_case.
    - (* PPackage *) unfold ul_dead. pfx. fold (needs E M' p). fold (needs E M p) in Hs.
      destruct (String.eqb pk p) eqn:Px.
      + apply String.eqb_eq in Px. subst p. fold P. destruct P eqn:HP.
        * rewrite (ul_PN HP). rewrite andb_false_r. simpl. now rewrite ul_needs_M in Hs.
        * destruct U eqn:HU; [rewrite (ul_UP HU) in HP; discriminate|]. reflexivity.
      + apply String.eqb_neq in Px. rewrite (ul_needs_other p) by auto.
        rewrite andb_false_r. simpl. destruct (needs E M p) eqn:Np.
        * apply needs_iff in Np as (q' & I & S1).
          rewrite (ul_N_of q' I); auto. intros ->. now apply Px.
        * apply sat_none in Hs. rewrite Hs. now destruct (negb N).
    - (* PBad *) apply sat_none in Hs. rewrite Hs. now destruct (ul_dead _).
  Qed.

  Lemma ul_outside : SameOutside T (unreg_link T pr s u).
  Proof.
    unfold unreg_link, unreg_schema.
    repeat match goal with
           | |- SameOutside _ (if ?c then _ else _) => destruct c
           | |- SameOutside _ (t_cut _ _) => eapply so_trans; [|apply so_cut]
           end; try apply so_refl.
  Qed.

End UnregLink.

(** ** Conditional puts ("create unless present") *)

Definition cput (T : tree) (e : entry) : tree :=
  if t_has T (fst e) then T else t_put T (fst e) (snd e).
Definition puts (l : list entry) (T : tree) : tree := fold_left cput l T.

Definition lookupL (l : list entry) (p : path) : option obj :=
  match find (fun e => path_eqb (fst e) p) l with Some e => Some (snd e) | None => None end.

Lemma t_get_cput T e p :
  t_get (cput T e) p =
  match t_get T p with Some o => Some o | None => if path_eqb (fst e) p then Some (snd e) else None end.
Proof.
  unfold cput. destruct (t_has T (fst e)) eqn:H.
  - destruct (t_get T p) eqn:G; auto. destruct (path_eqb (fst e) p) eqn:X; auto.
    apply path_eqb_eq in X. subst. unfold t_has in H. now rewrite G in H.
  - apply t_get_put.
Qed.

Lemma t_get_puts l T p :
  t_get (puts l T) p = match t_get T p with Some o => Some o | None => lookupL l p end.
Proof.
  unfold puts, lookupL. revert T. induction l as [|e l IH]; intros T; simpl.
  - now destruct (t_get T p).
  - rewrite IH, t_get_cput. destruct (t_get T p); auto.
    destruct (path_eqb (fst e) p); auto.
Qed.

Lemma ensure_group_cput T p : ensure_group T p = cput T (p, new_group).
Proof. reflexivity. Qed.

Lemma t_put_cput T p o : t_has T p = false -> t_put T p o = cput T (p, o).
Proof. intros H. unfold cput. simpl. now rewrite H. Qed.

Lemma puts_app a b T : puts (a ++ b) T = puts b (puts a T).
Proof. unfold puts. apply fold_left_app. Qed.

Lemma nodup_cput T e : NoDup (map fst T) -> NoDup (map fst (cput T e)).
Proof.
  intros H. unfold cput. destruct (t_has T (fst e)) eqn:X; auto. now apply nodup_put.
Qed.

Lemma nodup_puts l T : NoDup (map fst T) -> NoDup (map fst (puts l T)).
Proof.
  unfold puts. revert T. induction l; simpl; auto. intros T H. apply IHl. now apply nodup_cput.
Qed.

Lemma objs_cput T e : is_obj_path (fst e) = false -> objs (cput T e) = objs T.
Proof.
  intros H. unfold cput. destruct (t_has T (fst e)); auto. rewrite objs_put, H. apply app_nil_r.
Qed.

Lemma objs_puts l T :
  (forall e, In e l -> is_obj_path (fst e) = false) -> objs (puts l T) = objs T.
Proof.
  unfold puts. revert T. induction l as [|e l IH]; simpl; auto. intros T H.
  rewrite IH by auto. apply objs_cput. auto.
Qed.

Lemma so_puts l T :
  (forall e, In e l -> in_toc (fst e) = true) -> SameOutside T (puts l T).
Proof.
  intros H. repeat split.
  - intros p I. rewrite t_get_puts. destruct (t_get T p); auto. unfold lookupL.
    destruct (find _ l) as [e|] eqn:F; auto. apply find_some in F as [F1 F2].
    apply path_eqb_eq in F2. subst. rewrite (H e F1) in I. discriminate.
  - apply objs_puts. intros e I. specialize (H e I). destruct (is_obj_path (fst e)) eqn:O; auto.
    apply obj_not_toc in O. congruence.
  - apply nodup_puts.
Qed.

Lemma puts_tocok E M M' l T :
  TocOk E M T ->
  (forall p t, toc_spec E M p = Some t -> toc_spec E M' p = Some t) ->
  (forall p, in_toc p = true -> toc_spec E M p = None -> sat (lookupL l p) (toc_spec E M' p) = true) ->
  TocOk E M' (puts l T).
Proof.
  intros H Mono New p I. rewrite t_get_puts. specialize (H p I).
  destruct (toc_spec E M p) as [t|] eqn:S.
  - rewrite (Mono p t S). destruct (t_get T p); auto. destruct t; discriminate.
  - apply sat_none in H. rewrite H. now apply New.
Qed.

(** ** [reg_schema] and [add_link]: adding one object to the attachment set *)

Definition regL (s pkg : string) : list entry :=
  [(toc_segs, new_group); (schemas_segs, new_group); (schema_path s, new_group);
   (schema_path s ++ ["jsonschema.json"], new_data "jsonschema");
   (schema_path s ++ ["compat"], new_data "compat");
   (packages_segs, new_group); (package_path pkg, new_data "pkginfo")].

Definition linkL (s u : string) (target : path) : list entry :=
  [(toc_segs, new_group); (links_segs, new_group); (linkgrp_path s, new_group);
   (link_path s u, new_data (name_of target))].

Lemma M_nonempty_of_uses M s : uses M s = true -> M <> [].
Proof. intros H. apply uses_iff in H as (q & I & _). intros ->. destruct I. Qed.

Lemma t_has_puts l T p : t_has (puts l T) p = t_has T p || isSome (lookupL l p).
Proof. unfold t_has. rewrite t_get_puts. destruct (t_get T p); auto. Qed.

Lemma tocok_toc E M T : TocOk E M T -> t_has T toc_segs = true.
Proof. intros H. now rewrite (tocok_has E M T _ H). Qed.

Lemma puts_all_present l T : (forall e, In e l -> t_has T (fst e) = true) -> puts l T = T.
Proof.
  unfold puts. induction l as [|e l IH]; simpl; auto. intros H.
  unfold cput at 2. rewrite (H e) by auto. apply IH. auto.
Qed.

Lemma has_json E M T s : TocOk E M T -> t_has T (schema_path s ++ ["jsonschema.json"]) = uses M s.
Proof.
  intros H. rewrite (tocok_has E M T _ H) by reflexivity.
  change (toc_spec E M (schema_path s ++ ["jsonschema.json"]))
    with (if uses M s then Some TD else None). now destruct (uses M s).
Qed.

Lemma has_compat E M T s : TocOk E M T -> t_has T (schema_path s ++ ["compat"]) = uses M s.
Proof.
  intros H. rewrite (tocok_has E M T _ H) by reflexivity.
  change (toc_spec E M (schema_path s ++ ["compat"]))
    with (if uses M s then Some TD else None). now destruct (uses M s).
Qed.

Lemma has_dirs E M T :
  TocOk E M T -> M <> [] ->
  t_has T links_segs = true /\ t_has T schemas_segs = true /\ t_has T packages_segs = true.
Proof.
  intros H NE. rewrite !(tocok_has E M T _ H) by reflexivity.
  destruct (spec_dirs E M) as (-> & -> & ->). destruct M; [contradiction|]. auto.
Qed.

Lemma reg_schema_puts E M T s :
  TocOk E M T -> reg_schema T s (pkg_of E s) = puts (regL s (pkg_of E s)) T.
Proof.
  intros H. unfold reg_schema.
  change (schemas_segs ++ [s]) with (schema_path s).
  change (schemas_segs ++ [s; "jsonschema.json"]) with (schema_path s ++ ["jsonschema.json"]).
  change (schemas_segs ++ [s; "compat"]) with (schema_path s ++ ["compat"]).
  change (packages_segs ++ [pkg_of E s]) with (package_path (pkg_of E s)).
  rewrite (has_schema E M T s H). destruct (uses M s) eqn:U.
  - (* everything is there already *)
    assert (NE : M <> []) by (eapply M_nonempty_of_uses; eauto).
    assert (P : needs E M (pkg_of E s) = true).
    { apply uses_iff in U as (q & I & S). apply needs_iff. exists q. now rewrite S. }
    destruct (has_dirs E M T H NE) as (D1 & D2 & D3).
    symmetry. apply puts_all_present. intros e I. simpl in I.
    destruct I as [<-|[<-|[<-|[<-|[<-|[<-|[<-|[]]]]]]]]; simpl fst; auto.
    + now apply (tocok_toc E M).
    + exact (eq_trans (has_schema E M T s H) U).
    + exact (eq_trans (has_json E M T s H) U).
    + exact (eq_trans (has_compat E M T s H) U).
    + exact (eq_trans (has_package E M T _ H) P).
  - unfold regL, puts. cbn [fold_left]. rewrite !ensure_group_cput.
    set (T1 := cput (cput T (toc_segs, new_group)) (schemas_segs, new_group)).
    assert (A1 : forall p, t_has T1 p = t_has T p || path_eqb toc_segs p || path_eqb schemas_segs p).
    { intros p. unfold T1, t_has. rewrite !t_get_cput. simpl fst.
      destruct (t_get T p); auto. destruct (path_eqb toc_segs p); auto.
      destruct (path_eqb schemas_segs p); auto. }
    rewrite (t_put_cput T1 (schema_path s)).
    2:{ rewrite A1, (has_schema E M T s H), U. reflexivity. }
    set (T2 := cput T1 (schema_path s, new_group)).
    assert (A2 : forall p, t_has T2 p = t_has T1 p || path_eqb (schema_path s) p).
    { intros p. unfold T2, t_has. rewrite t_get_cput. simpl fst. destruct (t_get T1 p); auto.
      destruct (path_eqb (schema_path s) p); auto. }
    rewrite (t_put_cput T2 (schema_path s ++ ["jsonschema.json"])).
    2:{ rewrite A2, A1. rewrite (has_json E M T s H), U.
        unfold schema_path, schemas_segs, toc_segs. cbn [app path_eqb]. ceqb.
        cbn [andb orb isSome]. now rewrite !andb_false_r. }
    set (T3 := cput T2 (schema_path s ++ ["jsonschema.json"], new_data "jsonschema")).
    assert (A3 : forall p, t_has T3 p = t_has T2 p || path_eqb (schema_path s ++ ["jsonschema.json"]) p).
    { intros p. unfold T3, t_has. rewrite t_get_cput. simpl fst. destruct (t_get T2 p); auto.
      destruct (path_eqb _ p); auto. }
    rewrite (t_put_cput T3 (schema_path s ++ ["compat"])).
    2:{ rewrite A3, A2, A1. rewrite (has_compat E M T s H), U.
        unfold schema_path, schemas_segs, toc_segs. cbn [app path_eqb]. ceqb.
        cbn [andb orb isSome]. now rewrite !andb_false_r. }
    set (T4 := cput T3 (schema_path s ++ ["compat"], new_data "compat")).
    assert (A4 : forall p, t_has T4 p = t_has T3 p || path_eqb (schema_path s ++ ["compat"]) p).
    { intros p. unfold T4, t_has. rewrite t_get_cput. simpl fst. destruct (t_get T3 p); auto.
      destruct (path_eqb _ p); auto. }
    assert (A5 : forall p, match p with [_; x] => String.eqb x "packages" | [_; x; _] => String.eqb x "packages" | _ => false end = true ->
                           t_has T4 p = t_has T p).
    { intros p Hp. rewrite A4, A3, A2, A1.
      destruct p as [|a [|x [|y [|z l]]]]; try discriminate.
      - apply String.eqb_eq in Hp. subst.
        unfold schema_path, schemas_segs, toc_segs. cbn [app path_eqb]. ceqb.
        cbn [andb]. now rewrite !andb_false_r, !orb_false_r.
      - apply String.eqb_eq in Hp. subst.
        unfold schema_path, schemas_segs, toc_segs. cbn [app path_eqb]. ceqb.
        cbn [andb]. now rewrite !andb_false_r, !orb_false_r. }
    change (cput T3 (schema_path s ++ ["compat"], new_data "compat")) with T4.
    destruct (t_has T4 (package_path (pkg_of E s))) eqn:HP.
    + (* the package record exists, hence [packages] does *)
      assert (HK : t_has T4 packages_segs = true).
      { rewrite (A5 (package_path (pkg_of E s)) eq_refl) in HP.
        rewrite (has_package E M T _ H) in HP. apply needs_iff in HP as (q & I & _).
        rewrite (A5 packages_segs eq_refl).
        apply (has_dirs E M T H). intros ->. destruct I. }
      unfold cput. simpl fst. rewrite HK, HP. reflexivity.
    + apply t_put_cput.
      unfold t_has. rewrite t_get_cput. simpl fst. fold (t_has T4 (package_path (pkg_of E s))).
      unfold t_has in HP. destruct (t_get T4 (package_path (pkg_of E s))); [discriminate|].
      reflexivity.
Qed.

Lemma add_link_puts T s u tgt :
  t_has T (link_path s u) = false -> add_link T s u tgt = puts (linkL s u tgt) T.
Proof.
  intros H. unfold add_link, linkL, puts. cbn [fold_left]. rewrite !ensure_group_cput.
  change (links_segs ++ [s]) with (linkgrp_path s).
  change (links_segs ++ [s; u]) with (link_path s u).
  apply t_put_cput. unfold t_has. rewrite !t_get_cput. simpl fst.
  unfold t_has in H. destruct (t_get T (link_path s u)); [discriminate|].
  unfold link_path, linkgrp_path, links_segs, toc_segs. cbn [app path_eqb]. ceqb. cbn [andb].
  rewrite ?andb_false_r. reflexivity.
Qed.

Lemma uses_app M q x : uses (M ++ [q]) x = uses M x || String.eqb (sch q) x.
Proof. unfold uses. rewrite existsb_app. simpl. now rewrite orb_false_r. Qed.

Lemma needs_app E M q x : needs E (M ++ [q]) x = needs E M x || String.eqb (pkg_of E (sch q)) x.
Proof. unfold needs. rewrite existsb_app. simpl. now rewrite orb_false_r. Qed.

Lemma find_app {X} (f : X -> bool) a b :
  find f (a ++ b) = match find f a with Some x => Some x | None => find f b end.
Proof. induction a; simpl; auto. destruct (f a); auto. Qed.

Lemma spec_mono_app E M q p t :
  toc_spec E M p = Some t -> toc_spec E (M ++ [q]) p = Some t.
Proof.
  unfold toc_spec. destruct (classify p); auto.
  - destruct M; [discriminate|]. auto.
  - rewrite uses_app. destruct (uses M s); [auto|discriminate].
  - rewrite find_app. destruct (find _ M); [auto|discriminate].
  - destruct M; [discriminate|]. auto.
  - rewrite uses_app. destruct (uses M s); [auto|discriminate].
  - rewrite uses_app. destruct (uses M s); [auto|discriminate].
  - rewrite uses_app. destruct (uses M s); [auto|discriminate].
  - destruct M; [discriminate|]. auto.
  - fold (needs E M p0). fold (needs E (M ++ [q]) p0). rewrite needs_app.
    destruct (needs E M p0); [auto|discriminate].
Qed.

Ltac lkp :=
  unfold lookupL, regL, linkL, link_path, linkgrp_path, schema_path, package_path, links_segs,
    schemas_segs, packages_segs, toc_segs;
  cbn [app find fst snd path_eqb]; ceqb; cbn [andb];
  rewrite ?andb_true_r, ?andb_false_r.

Lemma attach_toc E M T q :
  TocOk E M T -> (forall q', In q' M -> uid q' <> uid q) ->
  add_link (reg_schema T (sch q) (pkg_of E (sch q))) (sch q) (uid q) q =
    puts (regL (sch q) (pkg_of E (sch q)) ++ linkL (sch q) (uid q) q) T /\
  TocOk E (M ++ [q]) (puts (regL (sch q) (pkg_of E (sch q)) ++ linkL (sch q) (uid q) q) T).
Proof.
  intros H Fr.
  assert (NL : t_has T (link_path (sch q) (uid q)) = false).
  { destruct (t_has T (link_path (sch q) (uid q))) eqn:X; auto.
    apply (has_link E M T _ _ H) in X as (q' & I & _ & Eu). now apply Fr in I. }
  split.
  - rewrite (reg_schema_puts E M T _ H), puts_app. apply add_link_puts.
    rewrite t_has_puts, NL. lkp. reflexivity.
  - apply (puts_tocok E M); auto.
    + intros p t. apply spec_mono_app.
    + intros p I. apply in_toc_inv in I as (r & ->). unfold toc_spec.
      rewrite classify_toc_eq. pose proof (classify_toc_inv r) as C.
      destruct (classify_toc r) eqn:K; try contradiction; try subst r; try discriminate.
      * (* PLinks *) intros _. lkp. now destruct M.
      * (* PLinkGrp *) rewrite uses_app. destruct (uses M s); [discriminate|]. intros _. lkp.
        simpl. now destruct (String.eqb (sch q) s).
      * (* PLink *) rewrite find_app. destruct (find _ M); [discriminate|]. intros _. lkp. simpl.
        destruct (String.eqb (sch q) s); simpl; auto.
        destruct (String.eqb (uid q) u); simpl; auto. apply String.eqb_refl.
      * intros _. lkp. now destruct M.
      * rewrite uses_app. destruct (uses M s); [discriminate|]. intros _. lkp.
        simpl. now destruct (String.eqb (sch q) s).
      * rewrite uses_app. destruct (uses M s); [discriminate|]. intros _. lkp.
        simpl. now destruct (String.eqb (sch q) s).
      * rewrite uses_app. destruct (uses M s); [discriminate|]. intros _. lkp.
        simpl. now destruct (String.eqb (sch q) s).
      * intros _. lkp. now destruct M.
      * fold (needs E M p). fold (needs E (M ++ [q]) p). rewrite needs_app.
        destruct (needs E M p); [discriminate|]. intros _. lkp. simpl.
        now destruct (String.eqb (pkg_of E (sch q)) p).
      * (* PBad *) intros _. destruct (lookupL _ (toc_seg :: r)) as [o|] eqn:L; auto. exfalso.
        unfold lookupL in L. destruct (find _ _) as [e|] eqn:F; [|discriminate].
        apply find_some in F as [F1 F2]. apply path_eqb_eq in F2.
        simpl in F1.
        repeat (destruct F1 as [F1|F1]; [subst e; simpl in F2; inversion F2; subst r; discriminate|]).
        destruct F1.
Qed.

(** ** Object names and fresh uuids *)

Lemma lacks_no_char c s : lacks_char c s = no_char c s.
Proof. reflexivity. Qed.

Lemma to_uint_nonnil n : N.to_uint n <> Decimal.Nil.
Proof. destruct n; simpl; [discriminate|apply DecimalPos.Unsigned.to_uint_nonnil]. Qed.

Lemma string_of_N_inj a b : string_of_N a = string_of_N b -> a = b.
Proof.
  unfold string_of_N. intros H. apply DecimalN.Unsigned.to_uint_inj.
  assert (Some (N.to_uint a) = Some (N.to_uint b)); [|congruence].
  rewrite <- (NilZero.usu _ (to_uint_nonnil a)), <- (NilZero.usu _ (to_uint_nonnil b)).
  now rewrite H.
Qed.

Lemma uuid_of_inj a b : uuid_of a = uuid_of b -> a = b.
Proof. unfold uuid_of. intros H. inversion H. now apply string_of_N_inj. Qed.

Lemma digits_no_eq d : no_char eq_char (NilEmpty.string_of_uint d) = true.
Proof. induction d; simpl; auto. Qed.

Lemma uuid_of_no_eq n : no_char eq_char (uuid_of n) = true.
Proof.
  unfold uuid_of, string_of_N, NilZero.string_of_uint. simpl.
  destruct (N.to_uint n); try apply digits_no_eq. reflexivity.
Qed.

Lemma obj_name_parts s u :
  no_char eq_char s = true -> no_char eq_char u = true ->
  obj_schema (obj_name s u) = s /\ obj_uuid (obj_name s u) = u.
Proof.
  intros Hs Hu. unfold obj_schema, obj_uuid, obj_name.
  rewrite (split_app_sep eq_char s u Hs), (split_one eq_char u Hu). auto.
Qed.

Lemma starts_with_app_long p a b :
  String.length p <= String.length a -> starts_with p (a ++ b) = starts_with p a.
Proof.
  revert a. induction p as [|c p IH]; intros a H; simpl; auto.
  destruct a as [|d a]; simpl in *; [lia|]. destruct (Ascii.eqb c d); auto. apply IH. lia.
Qed.

Lemma obj_name_not_reserved s u :
  8 <= String.length s -> reserved_seg s = false -> reserved_seg (obj_name s u) = false.
Proof.
  intros L R. unfold reserved_seg, obj_name in *. rewrite starts_with_app_long; auto.
Qed.

Lemma N_below_in n k : In k (N_below n) <-> (k < n)%N.
Proof.
  unfold N_below. rewrite in_map_iff. split.
  - intros (x & <- & I). apply in_seq in I. lia.
  - intros H. exists (N.to_nat k). split; [apply N2Nat.id|]. apply in_seq. lia.
Qed.

Lemma uuid_lt_iff u n : uuid_lt u n = true <-> exists k, (k < n)%N /\ uuid_of k = u.
Proof.
  unfold uuid_lt. rewrite existsb_exists. split.
  - intros (k & I & H). apply N_below_in in I. apply String.eqb_eq in H. eauto.
  - intros (k & I & H). exists k. split; [now apply N_below_in|]. now apply String.eqb_eq.
Qed.

Lemma uuid_lt_mono u n n' : (n <= n')%N -> uuid_lt u n = true -> uuid_lt u n' = true.
Proof.
  intros L H. apply uuid_lt_iff in H as (k & I & H). apply uuid_lt_iff. exists k. split; auto. lia.
Qed.

Lemma uuid_lt_fresh n : uuid_lt (uuid_of n) n = false.
Proof.
  destruct (uuid_lt (uuid_of n) n) eqn:X; auto. apply uuid_lt_iff in X as (k & I & H).
  apply uuid_of_inj in H. lia.
Qed.

Lemma name_ok_mono E n n' nm : (n <= n')%N -> name_ok E n nm = true -> name_ok E n' nm = true.
Proof.
  unfold name_ok. intros L H. apply andb_prop in H as [H H3]. rewrite H. simpl.
  now apply (uuid_lt_mono _ n n').
Qed.

Lemma known_decl E s : known E s = true -> exists d, lookup_decl E s = Some d /\ In d E /\ d_ep d = s.
Proof.
  unfold known, lookup_decl. destruct (find _ E) as [d|] eqn:F; [|discriminate]. intros _.
  apply find_some in F as [F1 F2]. apply String.eqb_eq in F2. eauto.
Qed.

Lemma env_ok_decl E d : env_ok E = true -> In d E ->
  no_char eq_char (d_ep d) = true /\ 8 <= String.length (d_ep d) /\ reserved_seg (d_ep d) = false.
Proof.
  unfold env_ok. rewrite forallb_forall. intros H I. specialize (H d I). unfold decl_ok in H.
  repeat (apply andb_prop in H as [H ?]). rewrite lacks_no_char in H. repeat split; auto.
  - now apply Nat.leb_le.
  - now apply negb_true_iff.
Qed.

Lemma name_ok_obj E n s k :
  env_ok E = true -> known E s = true -> (k < n)%N -> name_ok E n (obj_name s (uuid_of k)) = true.
Proof.
  intros EO K L. apply known_decl in K as (d & K1 & K2 & K3).
  destruct (env_ok_decl E d EO K2) as (A & _ & _). rewrite K3 in A.
  destruct (obj_name_parts s (uuid_of k) A (uuid_of_no_eq k)) as [P1 P2].
  unfold name_ok. rewrite P1, P2, String.eqb_refl. simpl.
  unfold known. rewrite K1. simpl. apply uuid_lt_iff. eauto.
Qed.

(** ** Entries survive additions *)

Lemma last_seg_app2 d m nm : last_seg (d ++ [m; nm]) = nm.
Proof. change (d ++ [m; nm]) with (d ++ [m] ++ [nm]). rewrite app_assoc. apply last_seg_app. Qed.

Lemma is_group_mono T T' p :
  (forall p' x, t_get T p' = Some x -> t_get T' p' = Some x) ->
  is_group (t_get T p) = true -> is_group (t_get T' p) = true.
Proof. intros H G. destruct (t_get T p) eqn:X; [|discriminate]. now rewrite (H _ _ X). Qed.

Lemma is_data_mono T T' p :
  (forall p' x, t_get T p' = Some x -> t_get T' p' = Some x) ->
  is_data (t_get T p) = true -> is_data (t_get T' p) = true.
Proof. intros H G. destruct (t_get T p) eqn:X; [|discriminate]. now rewrite (H _ _ X). Qed.

Lemma t_has_mono T T' p :
  (forall p' x, t_get T p' = Some x -> t_get T' p' = Some x) ->
  t_has T p = true -> t_has T' p = true.
Proof. unfold t_has. intros H G. destruct (t_get T p) eqn:X; [|discriminate]. now rewrite (H _ _ X). Qed.

Lemma chk_entry_mono E T T' n n' p o :
  (forall p' x, t_get T p' = Some x -> t_get T' p' = Some x) ->
  (n <= n')%N ->
  (forall q, In q (objs T') -> In q (objs T) \/ uuid_lt (uid q) n = false) ->
  chk_entry E T n p o = true -> chk_entry E T' n' p o = true.
Proof.
  intros Hm Ln Ho. unfold chk_entry. intros H. apply andb_prop in H as [H1 H2].
  apply andb_true_intro. split.
  - destruct p; auto. now apply (is_group_mono T T').
  - destruct (classify p) eqn:C; auto.
    + (* dir *) apply andb_prop in H2 as [H2 H4]. apply andb_prop in H2 as [H2 H3].
      rewrite H2. simpl. apply andb_true_intro. split.
      * unfold owner_ok in *. destruct (String.eqb _ ""); [now apply (is_group_mono T T')|
          now apply (is_data_mono T T')].
      * apply has_children_iff in H4 as (c & C1 & C2). apply has_children_iff. exists c.
        split; auto. now apply (t_has_mono T T').
    + (* object *) apply andb_prop in H2 as [H2 H4]. apply andb_prop in H2 as [H2 H3].
      rewrite H2, (name_ok_mono E n n' name Ln H3). simpl.
      rewrite forallb_forall in *. intros q I. destruct (Ho q I) as [I'|Fr]; auto.
      apply orb_true_iff. left. apply negb_true_iff, String.eqb_neq. intros Eu.
      apply classify_obj_inv in C as (-> & _). unfold uid at 2 in Eu. rewrite last_seg_app2 in Eu.
      unfold name_ok in H3. apply andb_prop in H3 as [_ H3]. rewrite <- Eu in H3. congruence.
Qed.

(** ** TOC entries pass the entry check *)

Lemma sat_group o : sat o (Some TG) = true -> is_group o = true.
Proof. destruct o as [[[|v] a]|]; simpl; auto. Qed.

Lemma toc_entries_ok E M T n p o :
  TocOk E M T -> is_group (t_get T []) = true ->
  in_toc p = true -> t_get T p = Some o -> chk_entry E T n p o = true.
Proof.
  intros H R I G. pose proof (H p I) as S. rewrite G in S.
  apply in_toc_inv in I as (r & ->). unfold chk_entry. rewrite classify_toc_eq.
  unfold toc_spec in S. rewrite classify_toc_eq in S.
  assert (HT : is_group (t_get T toc_segs) = true) by (apply sat_group, (H toc_segs eq_refl)).
  assert (HD : forall x, M <> [] -> In x ["links"; "schemas"; "packages"] ->
                         is_group (t_get T [toc_seg; x]) = true).
  { intros x NE Ix. apply sat_group. destruct (spec_dirs E M) as (D1 & D2 & D3).
    destruct M; [contradiction|].
    destruct Ix as [<-|[<-|[<-|[]]]].
    - rewrite <- D1. apply (H links_segs eq_refl).
    - rewrite <- D2. apply (H schemas_segs eq_refl).
    - rewrite <- D3. apply (H packages_segs eq_refl). }
  pose proof (classify_toc_inv r) as C.
  destruct (classify_toc r) eqn:K; try contradiction; try subst r; simpl parent;
    rewrite ?in_toc_cons, ?andb_true_r; auto.
  - (* PLinkGrp *) destruct (uses M s) eqn:U; [|destruct o as [[] ?]; discriminate].
    apply HD; simpl; auto. eapply M_nonempty_of_uses; eauto.
  - (* PLink *) destruct (find _ M) as [q|] eqn:F; [|destruct o as [[] ?]; discriminate].
    apply find_some in F as [F1 F2]. apply andb_prop in F2 as [F2 _]. apply String.eqb_eq in F2.
    assert (U : uses M s = true) by (apply uses_iff; eauto).
    apply sat_group. pose proof (H (linkgrp_path s) eq_refl) as X.
    rewrite spec_linkgrp, U in X. exact X.
  - destruct (uses M s) eqn:U; [|destruct o as [[] ?]; discriminate].
    apply HD; simpl; auto. eapply M_nonempty_of_uses; eauto.
  - destruct (uses M s) eqn:U; [|destruct o as [[] ?]; discriminate].
    apply sat_group. pose proof (H (schema_path s) eq_refl) as X. rewrite spec_schema, U in X. exact X.
  - destruct (uses M s) eqn:U; [|destruct o as [[] ?]; discriminate].
    apply sat_group. pose proof (H (schema_path s) eq_refl) as X. rewrite spec_schema, U in X. exact X.
  - destruct (existsb _ M) eqn:X; [|destruct o as [[] ?]; discriminate].
    apply HD; simpl; auto. apply existsb_exists in X as (q & I & _). intros ->. destruct I.
  - destruct o as [[] ?]; discriminate.
Qed.

(** ** Attach *)

Lemma meta_dir_shape n (isd : bool) :
  has_reserved n = false -> (isd = true -> n <> []) ->
  exists dd mm, meta_dir_of n isd = dd ++ [mm] /\ has_reserved dd = false /\ meta_seg mm = true /\
                (isd = false -> dd = n /\ mm = METADOR_META_PREF) /\
                (isd = true -> n = dd ++ [last_seg n] /\ mm = (METADOR_META_PREF ++ last_seg n)%string).
Proof.
  intros U NE. unfold meta_dir_of. destruct isd.
  - specialize (NE eq_refl). destruct (exists_last NE) as (dd & x & ->).
    exists dd, (METADOR_META_PREF ++ x)%string. rewrite last_seg_app, set_last_app.
    rewrite has_reserved_app in U. apply orb_false_iff in U as [U _].
    repeat split; auto; try discriminate.
  - exists n, METADOR_META_PREF. repeat split; auto; discriminate.
Qed.

Lemma parent_app1 l x : parent (l ++ [x]) = l.
Proof. unfold parent. apply removelast_last. Qed.

Lemma dir_not_toc d m : has_reserved d = false -> meta_seg m = true -> in_toc (d ++ [m]) = false.
Proof.
  intros Hd Hm. destruct (in_toc (d ++ [m])) eqn:I; auto. apply in_toc_inv in I as (r & I).
  pose proof (classify_dir d m Hd Hm) as C. rewrite I, classify_toc_eq in C.
  pose proof (classify_toc_inv r) as X. rewrite C in X. destruct X.
Qed.

Lemma dir_not_obj d m : has_reserved d = false -> meta_seg m = true -> is_obj_path (d ++ [m]) = false.
Proof. intros Hd Hm. unfold is_obj_path. now rewrite (classify_dir d m Hd Hm). Qed.

Lemma app_assoc1 (d : path) m nm : (d ++ [m]) ++ [nm] = d ++ [m; nm].
Proof. now rewrite <- app_assoc. Qed.

Lemma sraw_obj_fresh E T n pr q :
  SyncRaw E T n pr -> In q (objs T) -> uuid_lt (uid q) n = true.
Proof.
  intros S I. apply in_objs in I as [I1 I2]. unfold t_has in I1.
  destruct (t_get T q) as [o|] eqn:G; [|discriminate].
  pose proof (sr_entries _ _ _ _ S q o G) as C. unfold chk_entry in C.
  apply andb_prop in C as [_ C]. unfold is_obj_path in I2.
  destruct (classify q) eqn:K; try discriminate.
  apply andb_prop in C as [C _]. apply andb_prop in C as [_ C].
  apply classify_obj_inv in K as (-> & _). unfold uid. rewrite last_seg_app2.
  unfold name_ok in C. now apply andb_prop in C as [_ C].
Qed.

Lemma sraw_dir_group E T n pr d m x :
  SyncRaw E T n pr -> has_reserved d = false -> meta_seg m = true ->
  t_get T (d ++ [m]) = Some x -> is_group (Some x) = true.
Proof.
  intros S Hd Hm G. pose proof (sr_entries _ _ _ _ S _ _ G) as C. unfold chk_entry in C.
  apply andb_prop in C as [_ C]. rewrite (classify_dir d m Hd Hm) in C.
  apply andb_prop in C as [C _]. now apply andb_prop in C as [C _].
Qed.

Lemma sraw_parent E T n pr p o :
  SyncRaw E T n pr -> t_get T p = Some o -> p <> [] -> is_group (t_get T (parent p)) = true.
Proof.
  intros S G NE. pose proof (sr_entries _ _ _ _ S _ _ G) as C. unfold chk_entry in C.
  apply andb_prop in C as [C _]. destruct p; [contradiction|]. exact C.
Qed.

Lemma match_nonempty {X} (l : list string) (a b : X) :
  l <> [] -> match l with [] => a | _ :: _ => b end = b.
Proof. destruct l; [contradiction|reflexivity]. Qed.

Lemma app1_nonempty (l : path) x : l ++ [x] <> [].
Proof. destruct l; discriminate. Qed.

Lemma attach_raw E st n schema v d o :
  env_ok E = true ->
  SyncRaw E (raw st) (next_id st) (prov st) ->
  has_reserved n = false -> (last_seg n <> "" \/ n = []) ->
  t_get (raw st) n = Some o ->
  lookup_decl E schema = Some d ->
  has_obj_of (raw st) (meta_dir_of n (is_data (Some o))) schema = false ->
  SyncRaw E (raw (fst (c_attach st n schema (d_pkg d) v)))
          (next_id (fst (c_attach st n schema (d_pkg d) v)))
          (prov (fst (c_attach st n schema (d_pkg d) v))).
Proof.
  intros EO S Un Ln G LD HO. unfold c_attach. rewrite G.
  unfold has_obj_of in HO. rewrite HO. simpl fst. cbn [raw next_id prov].
  set (T := raw st) in *. set (nx := next_id st) in *.
  set (isd := is_data (Some o)) in *. set (md := meta_dir_of n isd) in *.
  set (u := uuid_of nx). set (op := md ++ [obj_name schema u]).
  assert (Kn : known E schema = true) by (unfold known; now rewrite LD).
  assert (Pk : pkg_of E schema = d_pkg d) by (unfold pkg_of; now rewrite LD).
  destruct (known_decl E schema Kn) as (d' & LD' & InD & Ep). rewrite LD in LD'. inversion LD'; subst d'.
  destruct (env_ok_decl E d EO InD) as (A1 & A2 & A3). rewrite Ep in A1, A2, A3.
  destruct (obj_name_parts schema u A1 (uuid_of_no_eq nx)) as [P1 P2].
  assert (NEd : isd = true -> n <> []).
  { intros I ->. pose proof (sr_root _ _ _ _ S) as R. fold T in R. rewrite G in R.
    unfold isd in I. destruct o as [[|?] ?]; simpl in *; discriminate. }
  destruct (meta_dir_shape n isd Un NEd) as (dd & mm & Hmd & Udd & Mmm & Sg & Sd).
  fold md in Hmd.
  assert (Rnm : reserved_seg (obj_name schema u) = false) by now apply obj_name_not_reserved.
  assert (Cop : classify op = PMetaObj dd mm (obj_name schema u)).
  { unfold op. rewrite Hmd, app_assoc1. now apply classify_obj. }
  assert (Cmd : classify md = PMetaDir dd mm) by (rewrite Hmd; now apply classify_dir).
  assert (Sop : sch op = schema) by (unfold sch, op; now rewrite last_seg_app).
  assert (Uop : uid op = u) by (unfold uid, op; now rewrite last_seg_app).
  assert (Oop : is_obj_path op = true) by (unfold is_obj_path; now rewrite Cop).
  assert (Omd : is_obj_path md = false) by (unfold is_obj_path; now rewrite Cmd).
  assert (Top : in_toc op = false) by now apply obj_not_toc.
  assert (Tmd : in_toc md = false) by (rewrite Hmd; now apply dir_not_toc).
  assert (Fr : forall q', In q' (objs T) -> uid q' <> u).
  { intros q' I Eu. pose proof (sraw_obj_fresh E T nx _ q' S I) as X. rewrite Eu in X.
    unfold u in X. now rewrite uuid_lt_fresh in X. }
  assert (Nop : t_has T op = false).
  { destruct (t_has T op) eqn:X; auto. exfalso. apply (Fr op); auto. apply in_objs. auto. }
  set (T1 := t_put (ensure_group T md) op (new_data v)).
  assert (L1 : forall p, t_get T1 p =
                         match t_get T p with
                         | Some x => Some x
                         | None => if path_eqb md p then Some new_group
                                   else if path_eqb op p then Some (new_data v) else None
                         end).
  { intros p. unfold T1. rewrite t_get_put, ensure_group_cput, t_get_cput. simpl fst. simpl snd.
    destruct (t_get T p); auto. destruct (path_eqb md p); auto. }
  assert (O1 : objs T1 = objs T ++ [op]).
  { unfold T1. rewrite objs_put, Oop, ensure_group_cput, objs_cput; auto. }
  assert (N1 : NoDup (map fst T1)).
  { unfold T1. apply nodup_put.
    - rewrite ensure_group_cput. apply nodup_cput. apply (sr_nodup _ _ _ _ S).
    - unfold t_has. rewrite ensure_group_cput, t_get_cput. simpl fst.
      unfold t_has in Nop. destruct (t_get T op); [discriminate|].
      destruct (path_eqb md op) eqn:X; auto. apply path_eqb_eq in X.
      rewrite <- X in Oop. congruence. }
  assert (TO1 : TocOk E (objs T) T1).
  { intros p I. rewrite L1. pose proof (sr_tocok _ _ _ _ S p I) as X. fold T in X.
    destruct (t_get T p); auto.
    destruct (path_eqb md p) eqn:X1; [apply path_eqb_eq in X1; subst p; congruence|].
    destruct (path_eqb op p) eqn:X2; [apply path_eqb_eq in X2; subst p; congruence|]. auto. }
  assert (Fr' : forall q', In q' (objs T) -> uid q' <> uid op) by (rewrite Uop; exact Fr).
  destruct (attach_toc E (objs T) T1 op TO1 Fr') as [EQ TO3].
  rewrite Sop, Uop, Pk in EQ.
  change (SyncRaw E (add_link (reg_schema T1 schema (d_pkg d)) schema u op) (N.succ nx)
                  ((schema, d_pkg d) :: prov st)).
  rewrite EQ.
  rewrite Sop, Uop, Pk in TO3.
  set (L := regL schema (d_pkg d) ++ linkL schema u op) in *.
  assert (SO : SameOutside T1 (puts L T1)).
  { apply so_puts. intros e I. unfold L in I. apply in_app_or in I as [I|I]; simpl in I;
      repeat (destruct I as [<-|I]; [reflexivity|]); destruct I. }
  destruct SO as (SO1 & SO2 & SO3).
  assert (Mono : forall p' x, t_get T p' = Some x -> t_get (puts L T1) p' = Some x).
  { intros p' x Gx. rewrite t_get_puts, L1, Gx. reflexivity. }
  assert (HasOp : t_get (puts L T1) op = Some (new_data v)).
  { rewrite SO1, L1 by auto. unfold t_has in Nop. destruct (t_get T op); [discriminate|].
    destruct (path_eqb md op) eqn:X; [apply path_eqb_eq in X; rewrite <- X in Oop; congruence|].
    now rewrite path_eqb_refl. }
  assert (GrpMd : is_group (t_get (puts L T1) md) = true).
  { rewrite SO1, L1 by auto. destruct (t_get T md) eqn:X.
    - rewrite Hmd in X. now apply (sraw_dir_group E T nx _ dd mm o0 S).
    - now rewrite path_eqb_refl. }
  assert (Own : owner_ok (puts L T1) dd mm = true).
  { unfold owner_ok. destruct isd eqn:I.
    - destruct (Sd eq_refl) as [Sn Sm]. rewrite Sm, drop_str_app.
      destruct Ln as [Ln| ->]; [|now destruct NEd].
      apply String.eqb_neq in Ln. rewrite Ln. rewrite <- Sn.
      rewrite (Mono n o G). exact I.
    - destruct (Sg eq_refl) as [Sn Sm]. subst dd mm.
      change (drop_str (String.length METADOR_META_PREF) METADOR_META_PREF) with "".
      rewrite String.eqb_refl, (Mono n o G). unfold isd in I.
      destruct o as [[|?] ?]; simpl in *; auto; discriminate. }
  constructor.
  - now apply SO3.
  - rewrite SO1 by reflexivity. rewrite L1. pose proof (sr_root _ _ _ _ S) as R. fold T in R.
    destruct (t_get T []); [exact R|discriminate].
  - intros p o' Gp. destruct (in_toc p) eqn:Ip.
    + apply (toc_entries_ok E (objs T ++ [op])); auto.
      rewrite SO1 by reflexivity. rewrite L1. pose proof (sr_root _ _ _ _ S) as R. fold T in R.
      destruct (t_get T []); [exact R|discriminate].
    + rewrite SO1, L1 in Gp by auto. destruct (t_get T p) as [x|] eqn:Gx.
      * inversion Gp; subst x.
        apply (chk_entry_mono E T (puts L T1) nx (N.succ nx)); auto; [lia| |].
        -- intros q I. rewrite SO2, O1 in I. apply in_app_or in I as [I|[<-|[]]]; auto.
           right. rewrite Uop. apply uuid_lt_fresh.
        -- apply (sr_entries _ _ _ _ S p o' Gx).
      * destruct (path_eqb md p) eqn:X1.
        -- apply path_eqb_eq in X1. subst p. inversion Gp; subst o'.
           unfold chk_entry. rewrite Cmd.
           rewrite (match_nonempty md) by (rewrite Hmd; apply app1_nonempty).
           replace (parent md) with dd by (rewrite Hmd; symmetry; apply parent_app1).
           apply andb_true_intro. split.
           ++ destruct isd eqn:I.
              ** destruct (Sd eq_refl) as [Sn _].
                 assert (Pn : parent n = dd) by (rewrite Sn; apply parent_app1).
                 rewrite <- Pn. apply (is_group_mono T); auto.
                 apply (sraw_parent E T nx _ n o S G). now apply NEd.
              ** destruct (Sg eq_refl) as [Sn _]. subst dd. rewrite (Mono n o G).
                 unfold isd in I. destruct o as [[|?] ?]; simpl in *; auto; discriminate.
           ++ simpl is_group. rewrite Own. cbn [andb]. apply has_children_iff. exists op. split.
              ** apply is_child_iff. exists (obj_name schema u). reflexivity.
              ** change (t_has (puts L T1) op = true). unfold t_has. now rewrite HasOp.
        -- destruct (path_eqb op p) eqn:X2; [|discriminate].
           apply path_eqb_eq in X2. subst p. inversion Gp; subst o'.
           unfold chk_entry. rewrite Cop.
           rewrite (match_nonempty op) by apply app1_nonempty.
           replace (parent op) with md by (symmetry; apply parent_app1).
           apply andb_true_intro. split.
           ++ exact GrpMd.
           ++ simpl is_data. pose proof (name_ok_obj E (N.succ nx) schema nx EO Kn) as NK.
              fold u in NK. rewrite NK by lia. cbn [andb].
              rewrite forallb_forall. intros q I. rewrite SO2, O1 in I.
              apply in_app_or in I as [I|[<-|[]]].
              ** apply orb_true_iff. left. apply negb_true_iff, String.eqb_neq. now apply Fr'.
              ** apply orb_true_iff. right. apply path_eqb_refl.
  - rewrite SO2, O1. exact TO3.
  - intros q I. rewrite SO2, O1 in I. simpl assoc.
    destruct (String.eqb schema (sch q)) eqn:X.
    + apply String.eqb_eq in X. now rewrite <- X, Pk.
    + apply in_app_or in I as [I|[<-|[]]].
      * apply (sr_prov _ _ _ _ S q I).
      * rewrite Sop, String.eqb_refl in X. discriminate.
Qed.

(** ** Removing paths outside the TOC *)

(** [T'] is [T] minus a set of paths that is closed under extension. *)
Definition Restr (T T' : tree) : Prop :=
  (forall p x, t_get T' p = Some x -> t_get T p = Some x) /\
  (forall p c, t_has T p = true -> t_has T' p = false -> is_prefix p c = true -> t_has T' c = false).

Lemma is_prefix_parent p : p <> [] -> is_prefix (parent p) p = true.
Proof.
  intros NE. destruct (exists_last NE) as (l & x & ->). rewrite parent_app1. apply is_prefix_app.
Qed.

Lemma restr_entries E T T' n pr :
  SyncRaw E T n pr -> Restr T T' ->
  (forall d m x, has_reserved d = false -> meta_seg m = true -> t_get T' (d ++ [m]) = Some x ->
                 owner_ok T' d m = true /\ has_children T' (d ++ [m]) = true) ->
  forall p o, in_toc p = false -> t_get T' p = Some o -> chk_entry E T' n p o = true.
Proof.
  intros S [R1 R2] HD p o Ip G. pose proof (R1 p o G) as G0.
  pose proof (sr_entries _ _ _ _ S p o G0) as C. unfold chk_entry in *.
  apply andb_prop in C as [C1 C2]. apply andb_true_intro. split.
  - destruct p as [|a p]; auto. set (pp := a :: p) in *.
    destruct (t_get T (parent pp)) as [x|] eqn:Gp; [|discriminate].
    destruct (t_get T' (parent pp)) as [y|] eqn:Gp'.
    + now rewrite (R1 _ _ Gp') in Gp; inversion Gp; subst.
    + exfalso. assert (t_has T' pp = false).
      { apply (R2 (parent pp) pp); unfold t_has; try rewrite Gp; try rewrite Gp'; auto.
        apply is_prefix_parent. discriminate. }
      unfold t_has in H. now rewrite G in H.
  - destruct (classify p) eqn:K; auto.
    + apply classify_dir_inv in K as (-> & Hd & Hm).
      destruct (HD d m o Hd Hm G) as [O H]. rewrite O, H.
      apply andb_prop in C2 as [C2 _]. apply andb_prop in C2 as [C2 _]. now rewrite C2.
    + apply andb_prop in C2 as [C2 C3]. rewrite C2. simpl.
      rewrite forallb_forall in *. intros q I. apply C3. apply in_objs in I as [I1 I2].
      apply in_objs. split; auto. unfold t_has in *. destruct (t_get T' q) eqn:X; [|discriminate].
      now rewrite (R1 _ _ X).
Qed.

Lemma restr_refl T : Restr T T.
Proof. split; auto. intros p c H1 H2. congruence. Qed.

Lemma restr_trans A B C : Restr A B -> Restr B C -> Restr A C.
Proof.
  intros [H1 H2] [G1 G2]. split.
  - intros p x X. apply H1, G1, X.
  - intros p c P1 P2 Pc. destruct (t_has B p) eqn:PB.
    + eapply G2; eauto.
    + destruct (t_has C c) eqn:X; auto. unfold t_has in X.
      destruct (t_get C c) eqn:Y; [|discriminate]. apply G1 in Y.
      assert (t_has B c = false) by (eapply H2; eauto). unfold t_has in H. now rewrite Y in H.
Qed.

Lemma is_prefix_trans a b c : is_prefix a b = true -> is_prefix b c = true -> is_prefix a c = true.
Proof.
  intros H1 H2. rewrite (is_prefix_split b c H2), (is_prefix_split a b H1), <- app_assoc.
  apply is_prefix_app.
Qed.

Lemma restr_cut q T : Restr T (t_cut q T).
Proof.
  split.
  - intros p x. rewrite t_get_cut. destruct (is_prefix q p); [discriminate|auto].
  - intros p c P1 P2 Pc. rewrite t_has_cut in *. rewrite P1, andb_true_r in P2.
    apply negb_false_iff in P2. now rewrite (is_prefix_trans q p c P2 Pc).
Qed.

Lemma restr_same_outside T T' :
  SameOutside T T' -> (forall p x, t_get T' p = Some x -> t_get T p = Some x) ->
  (forall p c, t_has T p = true -> t_has T' p = false -> is_prefix p c = true -> t_has T' c = false) ->
  Restr T T'.
Proof. intros _ H1 H2. split; auto. Qed.

(** Objects are leaves, metadata directories hold only objects. *)
Lemma split_res_first p : snd (split_res p) <> [] ->
  exists d x r, p = d ++ x :: r /\ has_reserved d = false /\ reserved_seg x = true /\
                split_res p = (d, x :: r).
Proof.
  intros H. destruct (split_res_spec p) as (S1 & S2 & S3).
  destruct (split_res p) as [a b] eqn:E. simpl in *. destruct b as [|x r]; [contradiction|].
  exists a, x, r. auto.
Qed.

Lemma split_res_at d x r : has_reserved d = false -> reserved_seg x = true ->
  split_res (d ++ x :: r) = (d, x :: r).
Proof.
  intros Hd Hx. rewrite (split_res_app d (x :: r) Hd). simpl. rewrite Hx. simpl.
  now rewrite app_nil_r.
Qed.

Lemma obj_prefix_eq a b :
  is_obj_path a = true -> is_obj_path b = true -> is_prefix a b = true -> a = b.
Proof.
  unfold is_obj_path. destruct (classify a) eqn:Ka; try discriminate.
  destruct (classify b) eqn:Kb; try discriminate. intros _ _ P.
  apply classify_obj_inv in Ka as (-> & Hd & Hm & Hn).
  apply classify_obj_inv in Kb as (-> & Hd0 & Hm0 & Hn0).
  pose proof (is_prefix_split _ _ P) as S.
  assert (X : split_res (d0 ++ [m0; name0]) = (d0, [m0; name0])).
  { apply split_res_at; auto. now apply meta_seg_reserved. }
  rewrite S in X. rewrite <- app_assoc in X. simpl in X.
  rewrite (split_res_at d m) in X; auto; [|now apply meta_seg_reserved].
  inversion X. subst. destruct (skipn _ _); [now rewrite app_nil_r in S|discriminate].
Qed.

Lemma dir_prefix_obj d m b :
  has_reserved d = false -> meta_seg m = true -> is_obj_path b = true ->
  is_prefix (d ++ [m]) b = true -> exists nm, b = d ++ [m; nm].
Proof.
  intros Hd Hm. unfold is_obj_path. destruct (classify b) eqn:Kb; try discriminate. intros _ P.
  apply classify_obj_inv in Kb as (-> & Hd0 & Hm0 & Hn0).
  pose proof (is_prefix_split _ _ P) as S.
  assert (X : split_res (d0 ++ [m0; name]) = (d0, [m0; name])).
  { apply split_res_at; auto. now apply meta_seg_reserved. }
  rewrite S in X. rewrite <- app_assoc in X. simpl in X.
  rewrite (split_res_at d m) in X; auto; [|now apply meta_seg_reserved].
  inversion X as [[H0 H1 H2]]. subst. rewrite H2. eauto.
Qed.

Lemma rm_as_cut q M :
  (forall x, In x M -> is_obj_path x = true) -> is_obj_path q = true ->
  filter (fun p => negb (is_prefix q p)) M = rm q M.
Proof.
  intros HM Hq. unfold rm. apply filter_ext_in. intros x I. f_equal.
  destruct (is_prefix q x) eqn:P.
  - apply obj_prefix_eq in P; auto. subst. symmetry. apply path_eqb_refl.
  - destruct (path_eqb x q) eqn:X; auto. apply path_eqb_eq in X. subst.
    now rewrite is_prefix_refl in P.
Qed.

Lemma objs_all_obj T x : In x (objs T) -> is_obj_path x = true.
Proof. intros I. now apply in_objs in I. Qed.

(** ** Detach *)

Lemma starts_has_eq a c : starts_with (a ++ String eq_char "") c = true -> no_char eq_char c = false.
Proof.
  revert c. induction a as [|x a IH]; intros c; cbn -[Ascii.eqb eq_char].
  - destruct c as [|y c]; [discriminate|]. destruct (Ascii.eqb eq_char y) eqn:E; [|discriminate].
    intros _. cbn -[Ascii.eqb eq_char]. rewrite Ascii.eqb_sym, E. reflexivity.
  - destruct c as [|y c]; [discriminate|]. destruct (Ascii.eqb x y); [|discriminate].
    intros H. cbn -[Ascii.eqb eq_char]. rewrite (IH c H). apply andb_false_r.
Qed.

Lemma starts_schema_eq a b c :
  no_char eq_char b = true -> no_char eq_char c = true ->
  starts_with (obj_name a "") (obj_name b c) = true -> a = b.
Proof.
  unfold obj_name. revert b. induction a as [|x a IH]; intros b Hb Hc; cbn -[Ascii.eqb eq_char].
  - destruct b as [|y b]; auto. cbn -[Ascii.eqb eq_char] in *.
    destruct (Ascii.eqb eq_char y) eqn:E; [|discriminate].
    rewrite Ascii.eqb_sym, E in Hb. discriminate.
  - destruct b as [|y b]; cbn -[Ascii.eqb eq_char].
    + destruct (Ascii.eqb x eq_char) eqn:E; [|discriminate]. intros H.
      apply starts_has_eq in H. congruence.
    + destruct (Ascii.eqb x y) eqn:E; [|discriminate]. apply Ascii.eqb_eq in E. subst y.
      intros H. f_equal. apply IH; auto. cbn -[Ascii.eqb eq_char] in Hb.
      now apply andb_prop in Hb as [_ Hb].
Qed.

Lemma sraw_uniq E T n pr : SyncRaw E T n pr -> UidUniq (objs T).
Proof.
  intros S q1 q2 I1 I2 Eu. pose proof I1 as J1. apply in_objs in J1 as [P1 O1].
  unfold t_has in P1. destruct (t_get T q1) as [o|] eqn:G; [|discriminate].
  pose proof (sr_entries _ _ _ _ S q1 o G) as C. unfold chk_entry in C.
  apply andb_prop in C as [_ C]. unfold is_obj_path in O1.
  destruct (classify q1); try discriminate. apply andb_prop in C as [_ C].
  rewrite forallb_forall in C. specialize (C q2 I2). apply orb_prop in C as [C|C].
  - apply negb_true_iff, String.eqb_neq in C. congruence.
  - apply path_eqb_eq in C. congruence.
Qed.

Lemma sraw_shape E T n pr p o :
  SyncRaw E T n pr -> t_get T p = Some o -> in_toc p = false ->
  match classify p with PUser | PMetaDir _ _ | PMetaObj _ _ _ => True | _ => False end.
Proof.
  intros S G I. pose proof (sr_entries _ _ _ _ S p o G) as C. unfold chk_entry in C.
  apply andb_prop in C as [_ C]. destruct (classify p); auto; congruence.
Qed.

Lemma sraw_obj_name E T n pr d m nm o :
  SyncRaw E T n pr -> has_reserved d = false -> meta_seg m = true ->
  t_get T (d ++ [m; nm]) = Some o ->
  classify (d ++ [m; nm]) = PMetaObj d m nm /\ name_ok E n nm = true.
Proof.
  intros S Hd Hm G.
  assert (I : in_toc (d ++ [m; nm]) = false).
  { destruct (in_toc (d ++ [m; nm])) eqn:X; auto. apply in_toc_inv in X as (r & X).
    destruct d; simpl in X; inversion X; subst.
    - now rewrite meta_toc in Hm.
    - simpl in Hd; discriminate. }
  pose proof (sraw_shape E T n pr _ o S G I) as Sh.
  pose proof (sr_entries _ _ _ _ S _ o G) as C. unfold chk_entry in C.
  apply andb_prop in C as [_ C].
  destruct (reserved_seg nm) eqn:R.
  - exfalso. unfold classify in Sh. rewrite (split_res_at d m [nm]) in Sh; auto;
      [|now apply meta_seg_reserved].
    destruct d; rewrite ?(meta_not_toc m Hm), ?Hm, R in Sh; simpl in Sh; auto.
  - rewrite (classify_obj d m nm Hd Hm R) in *. split; auto.
    apply andb_prop in C as [C _]. now apply andb_prop in C as [_ C].
Qed.

Lemma user_not_under a b : has_reserved a = true -> has_reserved b = false -> is_prefix a b = false.
Proof.
  intros Ha Hb. destruct (is_prefix a b) eqn:P; auto.
  rewrite (is_prefix_split a b P), has_reserved_app, Ha in Hb. discriminate.
Qed.

Lemma restr_unreg T pr s u : Restr T (unreg_link T pr s u).
Proof.
  unfold unreg_link, unreg_schema.
  repeat match goal with
         | |- Restr _ (if ?c then _ else _) => destruct c
         | |- Restr _ (t_cut _ _) => eapply restr_trans; [|apply restr_cut]
         end; try apply restr_refl.
Qed.

Lemma filter_all {X} (f : X -> bool) l : (forall x, In x l -> f x = true) -> filter f l = l.
Proof.
  induction l as [|x l IH]; simpl; auto. intros H. rewrite (H x) by auto. f_equal. apply IH. auto.
Qed.

Lemma in_toc_prefix a b : in_toc a = true -> is_prefix a b = true -> in_toc b = true.
Proof.
  intros Ha P. apply in_toc_inv in Ha as (r & ->). destruct b as [|y b]; [discriminate|].
  rewrite is_prefix_cons in P. apply andb_prop in P as [P _]. simpl. now rewrite String.eqb_sym.
Qed.

Lemma detach_raw E st n schema :
  env_ok E = true ->
  SyncRaw E (raw st) (next_id st) (prov st) ->
  has_reserved n = false ->
  SyncRaw E (raw (fst (c_detach st n schema))) (next_id (fst (c_detach st n schema)))
          (prov (fst (c_detach st n schema))).
Proof.
  intros EO S Un. unfold c_detach. destruct (t_get (raw st) n) as [o|] eqn:G; [|exact S].
  set (T := raw st) in *. set (nx := next_id st) in *. set (pr := prov st) in *.
  set (isd := is_data (Some o)) in *. set (md := meta_dir_of n isd) in *.
  destruct (find _ (map fst T)) as [op|] eqn:F; [|exact S].
  apply find_some in F as [F1 F2]. apply andb_prop in F2 as [F2 F3].
  apply is_child_iff in F2 as (nm & Hop).
  assert (NEd : isd = true -> n <> []).
  { intros I ->. pose proof (sr_root _ _ _ _ S) as R. fold T in R. rewrite G in R.
    unfold isd in I. destruct o as [[|?] ?]; simpl in *; discriminate. }
  destruct (meta_dir_shape n isd Un NEd) as (dd & mm & Hmd & Udd & Mmm & _ & _).
  fold md in Hmd. rewrite Hmd, app_assoc1 in Hop.
  apply in_keys_t_has in F1. unfold t_has in F1.
  destruct (t_get T op) as [x|] eqn:Gop; [|discriminate]. clear F1.
  rewrite Hop in Gop. destruct (sraw_obj_name E T nx pr dd mm nm x S Udd Mmm Gop) as [Cop NK].
  rewrite <- Hop in Gop, Cop.
  assert (Oop : is_obj_path op = true) by (unfold is_obj_path; now rewrite Cop).
  assert (Top : in_toc op = false) by now apply obj_not_toc.
  assert (Tmd : in_toc md = false) by (rewrite Hmd; now apply dir_not_toc).
  assert (Iop : In op (objs T)).
  { apply in_objs. split; auto. unfold t_has. now rewrite Gop. }
  assert (Lop : last_seg op = nm) by (rewrite Hop; apply last_seg_app2).
  rewrite Lop in F3.
  (* the schema named in the call is the schema of the object found *)
  unfold name_ok in NK. apply andb_prop in NK as [NK NK3]. apply andb_prop in NK as [NK1 NK2].
  apply String.eqb_eq in NK1. apply known_decl in NK2 as (dc & _ & InD & Ep).
  destruct (env_ok_decl E dc EO InD) as (A1 & _ & _). rewrite Ep in A1. clear InD Ep dc.
  apply uuid_lt_iff in NK3 as (k & _ & Hk).
  assert (A2 : no_char eq_char (obj_uuid nm) = true) by (rewrite <- Hk; apply uuid_of_no_eq).
  rewrite NK1 in F3. apply (starts_schema_eq schema _ _ A1 A2) in F3.
  assert (Ssch : schema = sch op) by (unfold sch; now rewrite Lop).
  assert (Suid : obj_uuid (last_seg op) = uid op) by reflexivity.
  rewrite Ssch, Suid. cbn [fst raw next_id prov set_raw].
  set (M := objs T).
  assert (TO : TocOk E M T) by (intros p I; apply (sr_tocok _ _ _ _ S p I)).
  pose proof (sraw_uniq E T nx pr S) as UQ. fold M in UQ.
  assert (PO : ProvOk E pr M) by (intros q I; apply (sr_prov _ _ _ _ S q I)).
  set (T1 := unreg_link T pr (sch op) (uid op)).
  pose proof (ul_tocok E M T pr op TO UQ PO Iop) as TO1. fold T1 in TO1.
  destruct (ul_outside T pr op) as (SO1 & SO2 & SO3). fold T1 in SO1, SO2, SO3.
  pose proof (restr_unreg T pr (sch op) (uid op)) as R1. fold T1 in R1.
  set (T2 := t_cut op T1).
  assert (O2 : objs T2 = rm op M).
  { unfold T2. rewrite objs_cut, SO2. apply rm_as_cut; auto. apply objs_all_obj. }
  set (T3 := if has_children T2 md then T2 else t_cut md T2).
  assert (R3 : Restr T T3).
  { apply (restr_trans T T1); auto. apply (restr_trans T1 T2); [apply restr_cut|].
    unfold T3. destruct (has_children T2 md); [apply restr_refl|apply restr_cut]. }
  assert (L3 : forall p, is_prefix md p = false -> t_get T3 p = t_get T1 p).
  { intros p Hp. unfold T3. destruct (has_children T2 md); unfold T2; rewrite ?t_get_cut, ?Hp.
    - destruct (is_prefix op p) eqn:X; auto.
      rewrite (is_prefix_trans md op p) in Hp; [discriminate| |auto].
      rewrite Hop, Hmd. rewrite <- app_assoc1. apply is_prefix_app.
    - destruct (is_prefix op p) eqn:X; auto.
      rewrite (is_prefix_trans md op p) in Hp; [discriminate| |auto].
      rewrite Hop, Hmd. rewrite <- app_assoc1. apply is_prefix_app. }
  assert (L3toc : forall p, in_toc p = true -> t_get T3 p = t_get T1 p).
  { intros p I. apply L3. destruct (is_prefix md p) eqn:X; auto.
    assert (in_toc md = true); [|congruence].
    destruct p as [|t p]; [discriminate|]. rewrite Hmd in *.
    destruct dd as [|a dd']; simpl in X; apply andb_prop in X as [X _];
      apply String.eqb_eq in X; subst; simpl in I; apply String.eqb_eq in I; subst.
    - now rewrite meta_toc in Mmm.
    - simpl in Udd; discriminate. }
  assert (O3 : objs T3 = rm op M).
  { unfold T3. destruct (has_children T2 md) eqn:HC; auto.
    rewrite objs_cut, O2. apply filter_all. intros y Iy. apply negb_true_iff.
    destruct (is_prefix md y) eqn:X; auto. exfalso.
    rewrite <- O2 in Iy. pose proof (objs_all_obj T2 y Iy) as Oy. apply in_objs in Iy as [Py _].
    rewrite Hmd in X. destruct (dir_prefix_obj dd mm y Udd Mmm Oy X) as (ny & ->).
    assert (has_children T2 md = true); [|congruence].
    apply has_children_iff. exists (dd ++ [mm; ny]). split; auto.
    apply is_child_iff. exists ny. now rewrite Hmd, app_assoc1. }
  assert (TO3 : TocOk E (rm op M) T3).
  { intros p I. rewrite (L3toc p I). now apply TO1. }
  assert (Usr : forall p, has_reserved p = false -> t_get T3 p = t_get T p).
  { intros p Hp. rewrite L3.
    - apply SO1. destruct (in_toc p) eqn:X; auto. apply in_toc_reserved in X. congruence.
    - apply user_not_under; auto. rewrite Hmd, has_reserved_app. simpl.
      rewrite (meta_seg_reserved mm Mmm). now rewrite orb_true_r. }
  constructor.
  - unfold T3. destruct (has_children T2 md); unfold T2; repeat apply nodup_cut; apply SO3;
      apply (sr_nodup _ _ _ _ S).
  - rewrite Usr by reflexivity. apply (sr_root _ _ _ _ S).
  - intros p o' Gp. destruct (in_toc p) eqn:Ip.
    + apply (toc_entries_ok E (rm op M)); auto. rewrite Usr by reflexivity.
      apply (sr_root _ _ _ _ S).
    + apply (restr_entries E T T3 nx pr S R3); auto.
      intros d m y Hd Hm Gy. split.
      * (* the owner is a user node or another leaf: untouched *)
        pose proof (proj1 R3 _ _ Gy) as Gy0.
        pose proof (sr_entries _ _ _ _ S _ _ Gy0) as C. unfold chk_entry in C.
        apply andb_prop in C as [_ C]. rewrite (classify_dir d m Hd Hm) in C.
        apply andb_prop in C as [C _]. apply andb_prop in C as [_ C].
        unfold owner_ok in *. cbv zeta in *.
        set (x0 := drop_str (String.length METADOR_META_PREF) m) in *. clearbody x0.
        destruct (String.eqb x0 ""); [now rewrite Usr|].
        set (w := d ++ [x0]) in *.
        destruct (has_reserved w) eqn:Rw; [|now rewrite Usr].
        (* a reserved owner name: it is neither below [md] nor in the TOC *)
        assert (Pw : is_prefix md w = false).
        { destruct (is_prefix md w) eqn:X; auto. exfalso.
          pose proof (is_prefix_split md w X) as Sw. unfold w in Sw. rewrite Hmd in Sw.
          destruct (skipn _ _) as [|z l] eqn:K in Sw.
          - rewrite app_nil_r in Sw. apply app_inj_tail in Sw as [-> Sm].
            assert (Ew : w = md) by (unfold w; now rewrite Sm, Hmd). rewrite Ew in C.
            destruct (t_get T md) as [g|] eqn:Gm; [|discriminate].
            rewrite Hmd in Gm. pose proof (sraw_dir_group E T nx pr dd mm g S Udd Mmm Gm).
            destruct g as [[|?] ?]; simpl in *; discriminate.
          - assert (has_reserved d = true); [|congruence].
            assert (Sw' : d ++ [x0] =
                          (dd ++ [mm] ++ removelast (z :: l)) ++ [last (z :: l) ""]).
            { rewrite Sw. rewrite <- !app_assoc. f_equal. f_equal.
              apply app_removelast_last. discriminate. }
            apply app_inj_tail in Sw' as [-> _]. rewrite !has_reserved_app. simpl.
            rewrite (meta_seg_reserved mm Mmm). now rewrite orb_true_r. }
        rewrite (L3 w Pw). destruct (in_toc w) eqn:Iw.
        -- exfalso. apply in_toc_inv in Iw as (r & Iw).
           destruct d as [|a d'].
           ++ unfold w in Iw. cbn [app] in Iw. inversion Iw as [[Ex Er]].
              assert (Ew : w = toc_segs) by (unfold w; cbn [app]; now rewrite Ex).
              rewrite Ew in C. pose proof (sat_group _ (TO toc_segs eq_refl)) as X.
              destruct (t_get T toc_segs) as [[[|?] ?]|]; simpl in *; discriminate.
           ++ unfold w in Iw. cbn [app] in Iw. inversion Iw; subst. simpl in Hd; discriminate.
        -- now rewrite SO1.
      * destruct (list_eq_dec string_dec (d ++ [m]) md) as [Em|Nm].
        -- rewrite Em in *. unfold T3 in *. destruct (has_children T2 md) eqn:HC; auto.
           rewrite t_get_cut, is_prefix_refl in Gy. discriminate.
        -- pose proof (proj1 R3 _ _ Gy) as Gy0.
           pose proof (sr_entries _ _ _ _ S _ _ Gy0) as C. unfold chk_entry in C.
           apply andb_prop in C as [_ C]. rewrite (classify_dir d m Hd Hm) in C.
           apply andb_prop in C as [_ C]. apply has_children_iff in C as (c & C1 & C2).
           apply is_child_iff in C1 as (y0 & ->). apply has_children_iff.
           exists ((d ++ [m]) ++ [y0]). split; [apply is_child_iff; eauto|].
           rewrite app_assoc1 in *. unfold t_has in C2.
           destruct (t_get T (d ++ [m; y0])) as [g|] eqn:Gc; [|discriminate].
           destruct (sraw_obj_name E T nx pr d m y0 g S Hd Hm Gc) as [Cc _].
           assert (Oc : is_obj_path (d ++ [m; y0]) = true) by (unfold is_obj_path; now rewrite Cc).
           assert (Pc : is_prefix md (d ++ [m; y0]) = false).
           { destruct (is_prefix md (d ++ [m; y0])) eqn:X; auto. exfalso. rewrite Hmd in X.
             destruct (dir_prefix_obj dd mm _ Udd Mmm Oc X) as (ny & Ey).
             rewrite <- !app_assoc1 in Ey. apply app_inj_tail in Ey as [Ey _].
             apply Nm. now rewrite Hmd. }
           unfold t_has. rewrite (L3 _ Pc), SO1, Gc; auto. now apply obj_not_toc.
  - rewrite O3. exact TO3.
  - intros q I. rewrite O3 in I. apply in_rm in I as [I _]. apply (sr_prov _ _ _ _ S q I).
Qed.

(** ** The in-memory index: association maps *)

Lemma sm_get_app m k k' v :
  sm_get (m ++ [(k', v)]) k =
  match sm_get m k with Some x => Some x | None => if String.eqb k' k then Some v else None end.
Proof. induction m as [|[a b] m IH]; simpl; auto. destruct (String.eqb a k); auto. Qed.

Lemma sm_get_map_set m k v k' :
  sm_get (map (fun kv => if String.eqb (fst kv) k then (fst kv, v) else kv) m) k' =
  if String.eqb k k' then (match sm_get m k' with Some _ => Some v | None => None end)
  else sm_get m k'.
Proof.
  induction m as [|[a b] m IH]; simpl.
  - now destruct (String.eqb k k').
  - destruct (String.eqb a k) eqn:E1; simpl.
    + apply String.eqb_eq in E1. subst a. destruct (String.eqb k k') eqn:E2; auto.
    + destruct (String.eqb a k') eqn:E3; auto.
      apply String.eqb_eq in E3. subst a. rewrite String.eqb_sym, E1. reflexivity.
Qed.

Lemma sm_get_set m k v k' :
  sm_get (sm_set m k v) k' = if String.eqb k k' then Some v else sm_get m k'.
Proof.
  unfold sm_set, sm_has. destruct (sm_get m k) eqn:G.
  - rewrite sm_get_map_set. destruct (String.eqb k k') eqn:E; auto.
    apply String.eqb_eq in E. subst. now rewrite G.
  - rewrite sm_get_app. destruct (String.eqb k k') eqn:E.
    + apply String.eqb_eq in E. subst. now rewrite G.
    + now destruct (sm_get m k').
Qed.

Lemma sm_get_del m k k' :
  sm_get (sm_del m k) k' = if String.eqb k k' then None else sm_get m k'.
Proof.
  unfold sm_del. induction m as [|[a b] m IH]; simpl.
  - now destruct (String.eqb k k').
  - destruct (String.eqb a k) eqn:E1; simpl.
    + apply String.eqb_eq in E1. subst a. rewrite IH. now destruct (String.eqb k k').
    + rewrite IH. destruct (String.eqb a k') eqn:E3; auto.
      apply String.eqb_eq in E3. subst a. rewrite String.eqb_sym, E1. reflexivity.
Qed.

Lemma sm_has_set m k v k' : sm_has (sm_set m k v) k' = String.eqb k k' || sm_has m k'.
Proof. unfold sm_has. rewrite sm_get_set. now destruct (String.eqb k k'). Qed.

Lemma sm_val_set m k v k' : sm_val (sm_set m k v) k' = if String.eqb k k' then v else sm_val m k'.
Proof. unfold sm_val. rewrite sm_get_set. now destruct (String.eqb k k'). Qed.

Lemma sm_has_del m k k' : sm_has (sm_del m k) k' = negb (String.eqb k k') && sm_has m k'.
Proof. unfold sm_has. rewrite sm_get_del. now destruct (String.eqb k k'). Qed.

Lemma sm_val_del m k k' : sm_val (sm_del m k) k' = if String.eqb k k' then [] else sm_val m k'.
Proof. unfold sm_val. rewrite sm_get_del. now destruct (String.eqb k k'). Qed.

Lemma mem_str_iff x l : mem_str x l = true <-> In x l.
Proof.
  unfold mem_str. rewrite existsb_exists. split.
  - intros (y & I & H). apply String.eqb_eq in H. now subst.
  - intros I. exists x. split; auto. apply String.eqb_refl.
Qed.

Lemma in_remove_str x l y : In y (remove_str x l) <-> In y l /\ y <> x.
Proof.
  unfold remove_str. rewrite filter_In. split; intros [H1 H2]; split; auto.
  - intros ->. now rewrite String.eqb_refl in H2.
  - apply negb_true_iff, String.eqb_neq. auto.
Qed.

(** ** Parents / children maps *)

Record PCOk (E : env) (S : list string) (P C : smap) : Prop := mk_pcok {
  pc_pk : forall p, sm_has P p = existsb (fun s => in_path E p s) S;
  pc_ck : forall p, sm_has C p = sm_has P p;
  pc_pv : forall p l, sm_get P p = Some l -> l = path_of_schema E p;
  pc_cv : forall p c, In c (sm_val C p) <-> In c S /\ in_path E p c = true /\ c <> p
}.

Lemma upc_add_go_spec s : forall rest pre P C,
  let P' := fst (upc_add_go s pre rest P C) in
  let C' := snd (upc_add_go s pre rest P C) in
  (forall k, sm_get P' k = match sm_get P k with
                           | Some x => Some x
                           | None => if mem_str k rest then Some (pre ++ prefix_upto k rest) else None
                           end) /\
  (forall k, sm_has C' k = sm_has C k || mem_str k rest) /\
  (forall k c, In c (sm_val C' k) <->
               In c (sm_val C k) \/ (mem_str k rest = true /\ k <> s /\ c = s)).
Proof.
  induction rest as [|p r IH]; intros pre P C; simpl.
  - repeat split.
    + intros k. now destruct (sm_get P k).
    + intros k. now rewrite orb_false_r.
    + tauto.
    + intros [H|(H & _)]; auto. discriminate.
  - set (P1 := if sm_has P p then P else P ++ [(p, pre ++ [p])]).
    set (C1 := if sm_has C p then C else C ++ [(p, [])]).
    set (C2 := if String.eqb p s then C1
               else if mem_str s (sm_val C1 p) then C1 else sm_set C1 p (sm_val C1 p ++ [s])).
    destruct (IH (pre ++ [p]) P1 C2) as (I1 & I2 & I3).
    assert (G1 : forall k, sm_get P1 k = match sm_get P k with Some x => Some x
                                         | None => if String.eqb p k then Some (pre ++ [p]) else None end).
    { intros k. unfold P1, sm_has. destruct (sm_get P p) eqn:X.
      - destruct (sm_get P k) eqn:Y; auto. destruct (String.eqb p k) eqn:Z; auto.
        apply String.eqb_eq in Z. subst. congruence.
      - apply sm_get_app. }
    assert (H1 : forall k, sm_has C1 k = sm_has C k || String.eqb p k).
    { intros k. unfold C1, sm_has. destruct (sm_get C p) eqn:X.
      - destruct (sm_get C k) eqn:Y; auto. destruct (String.eqb p k) eqn:Z; auto.
        apply String.eqb_eq in Z. subst. congruence.
      - rewrite sm_get_app. destruct (sm_get C k); auto. now destruct (String.eqb p k). }
    assert (V1 : forall k, sm_val C1 k = sm_val C k).
    { intros k. unfold C1, sm_has, sm_val. destruct (sm_get C p) eqn:X; auto.
      rewrite sm_get_app. destruct (sm_get C k) eqn:Y; auto.
      now destruct (String.eqb p k). }
    assert (H2 : forall k, sm_has C2 k = sm_has C1 k).
    { intros k. unfold C2. destruct (String.eqb p s); auto.
      destruct (mem_str s (sm_val C1 p)); auto. rewrite sm_has_set.
      destruct (String.eqb p k) eqn:Z; auto. apply String.eqb_eq in Z. subst.
      rewrite H1, String.eqb_refl. now rewrite orb_true_r. }
    assert (V2 : forall k c, In c (sm_val C2 k) <->
                             In c (sm_val C1 k) \/ (p = k /\ p <> s /\ c = s)).
    { intros k c. unfold C2. destruct (String.eqb p s) eqn:Z.
      - apply String.eqb_eq in Z. split; auto. intros [H|(_ & H & _)]; auto. contradiction.
      - apply String.eqb_neq in Z. destruct (mem_str s (sm_val C1 p)) eqn:Ms.
        + apply mem_str_iff in Ms. split; auto. intros [H|(-> & _ & ->)]; auto.
        + rewrite sm_val_set. destruct (String.eqb p k) eqn:Y.
          * apply String.eqb_eq in Y. subst k. rewrite in_app_iff. simpl. split.
            -- intros [H|[H|[]]]; auto.
            -- intros [H|(_ & _ & ->)]; auto.
          * apply String.eqb_neq in Y. split; auto. intros [H|(H & _)]; auto. contradiction. }
    repeat split.
    + intros k. rewrite I1, G1. destruct (sm_get P k); auto.
      destruct (String.eqb p k) eqn:Z.
      * apply String.eqb_eq in Z. subst. rewrite String.eqb_refl. reflexivity.
      * rewrite (String.eqb_sym k p), Z. simpl. destruct (mem_str k r); auto.
        now rewrite <- app_assoc.
    + intros k. rewrite I2, H2, H1. rewrite (String.eqb_sym k p).
      now rewrite orb_assoc.
    + rewrite I3, V2, V1. rewrite (String.eqb_sym k p).
      intros [[H|(-> & H1' & H2')]|(H1' & H2' & H3')]; auto.
      * right. rewrite String.eqb_refl. auto.
      * right. rewrite H1', orb_true_r. auto.
    + rewrite I3, V2, V1. rewrite (String.eqb_sym k p).
      intros [H|(H1' & H2' & H3')]; auto.
      destruct (String.eqb p k) eqn:Z.
      * apply String.eqb_eq in Z. subst k. left. right. auto.
      * right. simpl in H1'. auto.
Qed.

Definition self_in (E : env) : Prop := forall s, in_path E s s = true.
Definition path_closed (E : env) : Prop :=
  forall s k, in_path E k s = true -> prefix_upto k (path_of_schema E s) = path_of_schema E k.

Lemma pcok_add E S P C s :
  self_in E -> path_closed E -> PCOk E S P C ->
  PCOk E (S ++ [s]) (fst (upc_add s (path_of_schema E s) (P, C)))
       (snd (upc_add s (path_of_schema E s) (P, C))).
Proof.
  intros SI PCl [K1 K2 K3 K4]. unfold upc_add. simpl fst. simpl snd.
  destruct (upc_add_go_spec s (path_of_schema E s) [] P C) as (I1 & I2 & I3).
  constructor.
  - intros p. unfold sm_has at 1. rewrite I1, existsb_app. simpl. rewrite orb_false_r.
    rewrite <- K1. unfold sm_has, in_path. destruct (sm_get P p); auto.
    now destruct (mem_str p (path_of_schema E s)).
  - intros p. rewrite I2, K2. unfold sm_has at 2. rewrite I1. unfold sm_has.
    destruct (sm_get P p); auto. now destruct (mem_str p (path_of_schema E s)).
  - intros p l. rewrite I1. destruct (sm_get P p) eqn:G.
    + intros H. inversion H; subst. now apply K3.
    + destruct (mem_str p (path_of_schema E s)) eqn:X; [|discriminate].
      intros H. inversion H. simpl. now apply PCl.
  - intros p c. rewrite I3, K4, in_app_iff. simpl. unfold in_path at 2. split.
    + intros [(H1 & H2 & H3)|(H1 & H2 & ->)]; repeat split; auto.
    + intros ([H|[<-|[]]] & H2 & H3); [left|right]; repeat split; auto.
Qed.

(** Removal. *)
Definition rem_step (S' : list string) (s : string) (PC : smap * smap) (p : string) : smap * smap :=
  let '(P, C) := PC in
  let C1 := if sm_has C p then sm_set C p (remove_str s (sm_val C p)) else C in
  if negb (mem_str p S') && match sm_val C1 p with [] => true | _ => false end
  then (sm_del P p, sm_del C1 p) else (P, C1).

Lemma upc_remove_eq S' s PC : upc_remove S' s PC = fold_left (rem_step S' s) (sm_val (fst PC) s) PC.
Proof. reflexivity. Qed.

Definition kept (S' : list string) (s : string) (C : smap) (p : string) : bool :=
  mem_str p S' || match remove_str s (sm_val C p) with [] => false | _ => true end.

Lemma rem_fold_spec S' s : forall l P C,
  NoDup l -> (forall p, In p l -> sm_has C p = true) ->
  let P' := fst (fold_left (rem_step S' s) l (P, C)) in
  let C' := snd (fold_left (rem_step S' s) l (P, C)) in
  (forall k, sm_get P' k = if mem_str k l && negb (kept S' s C k) then None else sm_get P k) /\
  (forall k, sm_has C' k = if mem_str k l && negb (kept S' s C k) then false else sm_has C k) /\
  (forall k, sm_val C' k = if mem_str k l
                           then (if kept S' s C k then remove_str s (sm_val C k) else [])
                           else sm_val C k).
Proof.
  induction l as [|p l IH]; intros P C ND HC; simpl.
  - repeat split; auto.
  - inversion ND as [|? ? Np ND']; subst.
    set (C1 := if sm_has C p then sm_set C p (remove_str s (sm_val C p)) else C).
    assert (V1 : forall k, sm_val C1 k = if String.eqb p k then remove_str s (sm_val C k) else sm_val C k).
    { intros k. unfold C1. rewrite (HC p) by (simpl; auto). rewrite sm_val_set.
      destruct (String.eqb p k) eqn:Z; auto. apply String.eqb_eq in Z. now subst. }
    assert (H1 : forall k, sm_has C1 k = sm_has C k).
    { intros k. unfold C1. rewrite (HC p) by (simpl; auto). rewrite sm_has_set.
      destruct (String.eqb p k) eqn:Z; auto. apply String.eqb_eq in Z. subst.
      now rewrite (HC k) by (simpl; auto). }
    assert (Kp : (negb (mem_str p S') && match sm_val C1 p with [] => true | _ => false end)
                 = negb (kept S' s C p)).
    { unfold kept. rewrite V1, String.eqb_refl. destruct (mem_str p S'); simpl; auto.
      now destruct (remove_str s (sm_val C p)). }
    rewrite Kp. destruct (kept S' s C p) eqn:Kpt; simpl negb; cbv iota.
    + (* key stays *)
      destruct (IH P C1 ND') as (I1 & I2 & I3).
      { intros q I. rewrite H1. apply HC. simpl. auto. }
      assert (Kq : forall k, In k l -> kept S' s C1 k = kept S' s C k).
      { intros k I. unfold kept. rewrite V1. destruct (String.eqb p k) eqn:Z; auto.
        apply String.eqb_eq in Z. subst. contradiction. }
      repeat split.
      * intros k. rewrite I1. destruct (String.eqb k p) eqn:Z; simpl.
        -- apply String.eqb_eq in Z. subst k. rewrite Kpt. simpl.
           destruct (mem_str p l) eqn:X; auto. apply mem_str_iff in X. contradiction.
        -- destruct (mem_str k l) eqn:X; auto. apply mem_str_iff in X. now rewrite Kq.
      * intros k. rewrite I2, H1. destruct (String.eqb k p) eqn:Z; simpl.
        -- apply String.eqb_eq in Z. subst k. rewrite Kpt. simpl.
           destruct (mem_str p l) eqn:X; auto. apply mem_str_iff in X. contradiction.
        -- destruct (mem_str k l) eqn:X; auto. apply mem_str_iff in X. now rewrite Kq.
      * intros k. rewrite I3, V1. rewrite (String.eqb_sym k p).
        destruct (String.eqb p k) eqn:Z; simpl.
        -- apply String.eqb_eq in Z. subst k. rewrite Kpt.
           destruct (mem_str p l) eqn:X; auto. apply mem_str_iff in X. contradiction.
        -- destruct (mem_str k l) eqn:X; auto. apply mem_str_iff in X. now rewrite Kq.
    + (* key goes *)
      destruct (IH (sm_del P p) (sm_del C1 p) ND') as (I1 & I2 & I3).
      { intros q I. rewrite sm_has_del, H1. rewrite (HC q) by (simpl; auto).
        destruct (String.eqb p q) eqn:Z; auto. apply String.eqb_eq in Z. subst. contradiction. }
      assert (Kq : forall k, In k l -> kept S' s (sm_del C1 p) k = kept S' s C k).
      { intros k I. unfold kept. rewrite sm_val_del, V1. destruct (String.eqb p k) eqn:Z; auto.
        apply String.eqb_eq in Z. subst. contradiction. }
      repeat split.
      * intros k. rewrite I1, sm_get_del. rewrite (String.eqb_sym k p).
        destruct (String.eqb p k) eqn:Z; simpl.
        -- apply String.eqb_eq in Z. subst k. rewrite Kpt. simpl.
           now destruct (mem_str p l && _).
        -- destruct (mem_str k l) eqn:X; auto. apply mem_str_iff in X. now rewrite Kq.
      * intros k. rewrite I2, sm_has_del, H1. rewrite (String.eqb_sym k p).
        destruct (String.eqb p k) eqn:Z; simpl.
        -- apply String.eqb_eq in Z. subst k. rewrite Kpt. simpl.
           now destruct (mem_str p l && _).
        -- destruct (mem_str k l) eqn:X; auto. apply mem_str_iff in X. now rewrite Kq.
      * intros k. rewrite I3, sm_val_del, V1. rewrite (String.eqb_sym k p).
        destruct (String.eqb p k) eqn:Z; simpl.
        -- apply String.eqb_eq in Z. subst k. rewrite Kpt.
           destruct (mem_str p l) eqn:X; auto. apply mem_str_iff in X. contradiction.
        -- destruct (mem_str k l) eqn:X; auto. apply mem_str_iff in X. now rewrite Kq.
Qed.

Lemma existsb_remove_str (f : string -> bool) s S :
  f s = false -> existsb f (remove_str s S) = existsb f S.
Proof.
  intros F. unfold remove_str. induction S as [|x S IH]; simpl; auto.
  destruct (String.eqb s x) eqn:Z; simpl.
  - apply String.eqb_eq in Z. subst. now rewrite F.
  - now rewrite IH.
Qed.

Lemma nonempty_in {X} (l : list X) : match l with [] => false | _ => true end = true <-> exists x, In x l.
Proof.
  destruct l; split; try discriminate; auto.
  - intros (x & []).
  - intros _. exists x. simpl. auto.
Qed.

Lemma nodup_strs_sound l : nodup_strs l = true -> NoDup l.
Proof.
  induction l as [|x l IH]; simpl; intros H; constructor.
  - apply andb_prop in H as [H _]. apply negb_true_iff in H. intros I.
    apply mem_str_iff in I. congruence.
  - apply andb_prop in H as [_ H]. auto.
Qed.

Lemma pcok_remove E S P C s :
  self_in E -> NoDup (path_of_schema E s) -> PCOk E S P C -> In s S ->
  PCOk E (remove_str s S) (fst (upc_remove (remove_str s S) s (P, C)))
       (snd (upc_remove (remove_str s S) s (P, C))).
Proof.
  intros SI ND [K1 K2 K3 K4] Is. rewrite upc_remove_eq.
  change (fst (P, C)) with P.
  set (S' := remove_str s S).
  assert (HasP : forall k, in_path E k s = true -> sm_has P k = true).
  { intros k H. rewrite K1. apply existsb_exists. eauto. }
  assert (Lp : sm_val P s = path_of_schema E s).
  { pose proof (HasP s (SI s)) as H. unfold sm_has in H. unfold sm_val.
    destruct (sm_get P s) eqn:G; [|discriminate]. now apply K3. }
  rewrite Lp. set (l := path_of_schema E s) in *.
  destruct (rem_fold_spec S' s l P C ND) as (I1 & I2 & I3).
  { intros p I. rewrite K2. apply HasP. unfold in_path. now apply mem_str_iff. }
  assert (Kin : forall k, mem_str k l = true -> kept S' s C k = existsb (fun c => in_path E k c) S').
  { intros k Hk. apply Bool.eq_iff_eq_true. unfold kept. rewrite orb_true_iff, existsb_exists. split.
    - intros [H|H].
      + apply mem_str_iff in H. exists k. split; auto.
      + apply nonempty_in in H as (c & H). apply in_remove_str in H as [H Ns].
        apply K4 in H as (H1 & H2 & H3). exists c. split; auto. apply in_remove_str. auto.
    - intros (c & H1 & H2). destruct (string_dec c k) as [->|Nk].
      + left. now apply mem_str_iff.
      + right. apply nonempty_in. exists c. apply in_remove_str in H1 as [H1 Ns].
        apply in_remove_str. split; auto. apply K4. auto. }
  assert (Kout : forall k, mem_str k l = false ->
                           existsb (fun c => in_path E k c) S' = existsb (fun c => in_path E k c) S).
  { intros k Hk. apply existsb_remove_str. exact Hk. }
  constructor.
  - intros k. unfold sm_has at 1. rewrite I1. destruct (mem_str k l) eqn:X; simpl.
    + rewrite <- (Kin k X). pose proof (HasP k X) as H. unfold sm_has in H.
      destruct (kept S' s C k); simpl; auto.
    + rewrite (Kout k X), <- K1. reflexivity.
  - intros k. rewrite I2. unfold sm_has at 2. rewrite I1.
    destruct (mem_str k l && negb (kept S' s C k)); auto. apply K2.
  - intros k l0. rewrite I1. destruct (mem_str k l && negb (kept S' s C k)); [discriminate|].
    apply K3.
  - intros k c. rewrite I3. destruct (mem_str k l) eqn:X.
    + destruct (kept S' s C k) eqn:Kp.
      * rewrite in_remove_str, K4. unfold S'. rewrite in_remove_str. tauto.
      * split; [intros []|]. intros (H1 & H2 & H3). exfalso.
        rewrite (Kin k X) in Kp. assert (existsb (fun c0 => in_path E k c0) S' = true); [|congruence].
        apply existsb_exists. eauto.
    + rewrite K4. unfold S'. rewrite in_remove_str. split.
      * intros (H1 & H2 & H3). repeat split; auto. intros ->. unfold in_path in H2. fold l in H2. congruence.
      * tauto.
Qed.

(** ** The index against an abstract set of links *)

Record IxL (E : env) (L : list (string * string)) (ix : index) : Prop := mk_ixl {
  il_links : forall us, In us (ix_links ix) <-> In us L;
  il_schemas : forall s, In s (ix_schemas ix) <-> exists u, In (u, s) L;
  il_pkgs : forall p, In p (ix_pkgs ix) <-> exists s, In s (ix_schemas ix) /\ pkg_of E s = p;
  il_pc : PCOk E (ix_schemas ix) (ix_parents ix) (ix_children ix);
  il_ukeys : forall p, sm_has (ix_used ix) p = true <-> In p (ix_pkgs ix);
  il_uvals : forall p s, In s (sm_val (ix_used ix) p) <-> In s (ix_schemas ix) /\ pkg_of E s = p
}.

Lemma ixl_ext E L L' ix : (forall us, In us L <-> In us L') -> IxL E L ix -> IxL E L' ix.
Proof.
  intros H [A B C D F G]. constructor; auto.
  - intros us. now rewrite A.
  - intros s. rewrite B. split; intros (u & I); exists u; now apply H.
Qed.

Lemma ixl_register E L ix s u :
  self_in E -> path_closed E -> IxL E L ix -> IxL E (L ++ [(u, s)]) (ix_register E ix (s, u)).
Proof.
  intros SI PCl [A B C D F G]. unfold ix_register, ix_reg_schema.
  destruct (mem_str s (ix_schemas ix)) eqn:Ms.
  - apply mem_str_iff in Ms. constructor; simpl; auto.
    + intros us. rewrite !in_app_iff, A. reflexivity.
    + intros s0. rewrite B. split.
      * intros (u0 & I). exists u0. apply in_or_app. auto.
      * intros (u0 & I). apply in_app_or in I as [I|[I|[]]]; eauto.
        inversion I; subst. now apply B.
  - assert (Ns : ~ In s (ix_schemas ix)).
    { intros I. apply mem_str_iff in I. congruence. }
    destruct (upc_add s (path_of_schema E s) (ix_parents ix, ix_children ix)) as [P' C'] eqn:UA.
    pose proof (pcok_add E _ _ _ s SI PCl D) as D'. rewrite UA in D'. simpl in D'.
    set (pk := pkg_of E s).
    set (used0 := if mem_str pk (ix_pkgs ix) then ix_used ix else sm_set (ix_used ix) pk []).
    assert (U0k : forall p, sm_has used0 p = true <-> In p (ix_pkgs ix) \/ p = pk).
    { intros p. unfold used0. destruct (mem_str pk (ix_pkgs ix)) eqn:Mp.
      - apply mem_str_iff in Mp. rewrite F. split; auto. intros [H| ->]; auto.
      - rewrite sm_has_set, orb_true_iff, F. split.
        + intros [H|H]; auto. apply String.eqb_eq in H. auto.
        + intros [H| ->]; auto. left. apply String.eqb_refl. }
    assert (U0v : forall p, sm_val used0 p = sm_val (ix_used ix) p).
    { intros p. unfold used0. destruct (mem_str pk (ix_pkgs ix)) eqn:Mp; auto.
      rewrite sm_val_set. destruct (String.eqb pk p) eqn:Z; auto.
      apply String.eqb_eq in Z. subst p. unfold sm_val.
      destruct (sm_get (ix_used ix) pk) eqn:X; auto.
      assert (sm_has (ix_used ix) pk = true) by (unfold sm_has; now rewrite X).
      apply F, mem_str_iff in H. congruence. }
    constructor; simpl.
    + intros us. rewrite !in_app_iff, A. reflexivity.
    + intros s0. rewrite in_app_iff, B. simpl. split.
      * intros [(u0 & I)|[<-|[]]]; [exists u0|exists u]; apply in_or_app; simpl; auto.
      * intros (u0 & I). apply in_app_or in I as [I|[I|[]]]; eauto.
        inversion I; subst. auto.
    + intros p. fold pk. split.
      * intros I. assert (I' : In p (ix_pkgs ix) \/ p = pk).
        { destruct (mem_str pk (ix_pkgs ix)); auto. apply in_app_or in I as [I|[<-|[]]]; auto. }
        destruct I' as [I'| ->].
        -- apply C in I' as (s0 & I1 & I2). exists s0. split; auto. apply in_or_app. auto.
        -- exists s. split; auto. apply in_or_app. simpl. auto.
      * intros (s0 & I1 & I2). apply in_app_or in I1 as [I1|[<-|[]]].
        -- assert (In p (ix_pkgs ix)) by (apply C; eauto).
           destruct (mem_str pk (ix_pkgs ix)); auto. apply in_or_app. auto.
        -- subst p. fold pk. destruct (mem_str pk (ix_pkgs ix)) eqn:Mp.
           ++ now apply mem_str_iff.
           ++ apply in_or_app. simpl. auto.
    + exact D'.
    + intros p. fold pk. rewrite sm_has_set, orb_true_iff, U0k. split.
      * intros [H|[H| ->]].
        -- apply String.eqb_eq in H. subst p. destruct (mem_str pk (ix_pkgs ix)) eqn:Mp.
           ++ now apply mem_str_iff.
           ++ apply in_or_app. simpl. auto.
        -- destruct (mem_str pk (ix_pkgs ix)); auto. apply in_or_app. auto.
        -- destruct (mem_str pk (ix_pkgs ix)) eqn:Mp.
           ++ now apply mem_str_iff.
           ++ apply in_or_app. simpl. auto.
      * intros I. destruct (mem_str pk (ix_pkgs ix)) eqn:Mp; auto.
        apply in_app_or in I as [I|[<-|[]]]; auto; try (left; apply String.eqb_refl).
    + intros p s0. fold pk. rewrite sm_val_set. destruct (String.eqb pk p) eqn:Z.
      * apply String.eqb_eq in Z. subst p. rewrite !in_app_iff, U0v, G. simpl. split.
        -- intros [(H1 & H2)|[<-|[]]]; auto.
        -- intros ([H1|[<-|[]]] & H2); auto.
      * apply String.eqb_neq in Z. rewrite U0v, G, in_app_iff. simpl. split.
        -- intros (H1 & H2). auto.
        -- intros ([H1|[<-|[]]] & H2); auto. contradiction.
Qed.

Lemma ixl_unregister E L ix s u :
  self_in E -> NoDup (path_of_schema E s) -> IxL E L ix ->
  In (u, s) L -> (forall s', In (u, s') L -> s' = s) ->
  IxL E (filter (fun us => negb (String.eqb (fst us) u)) L) (ix_unregister E ix (s, u)).
Proof.
  intros SI ND [A B C D F G] I UU. unfold ix_unregister, ix_unregister_gen.
  set (links := filter (fun us => negb (String.eqb (fst us) u)) (ix_links ix)).
  set (L' := filter (fun us => negb (String.eqb (fst us) u)) L).
  assert (AL : forall us, In us links <-> In us L').
  { intros us. unfold links, L'. rewrite !filter_In, A. reflexivity. }
  assert (InL' : forall u0 s0, In (u0, s0) L' <-> In (u0, s0) L /\ u0 <> u).
  { intros u0 s0. unfold L'. rewrite filter_In. simpl. rewrite negb_true_iff, String.eqb_neq.
    reflexivity. }
  assert (Is : In s (ix_schemas ix)) by (apply B; eauto).
  destruct (existsb (fun us => String.eqb (snd us) s) links) eqn:X.
  - apply existsb_exists in X as ([u1 s1] & X1 & X2). simpl in X2. apply String.eqb_eq in X2.
    subst s1. apply AL in X1.
    constructor; simpl; auto.
    intros s0. rewrite B. split.
    + intros (u0 & I0). destruct (string_dec u0 u) as [->|Nu].
      * apply UU in I0. subst s0. eauto.
      * exists u0. apply InL'. auto.
    + intros (u0 & I0). apply InL' in I0 as [I0 _]. eauto.
  - assert (NoS : forall u0, ~ In (u0, s) L').
    { intros u0 I0. apply AL in I0.
      assert (existsb (fun us => String.eqb (snd us) s) links = true); [|congruence].
      apply existsb_exists. exists (u0, s). split; auto. apply String.eqb_refl. }
    unfold ix_unreg_schema. cbn [ix_links ix_schemas ix_parents ix_children ix_pkgs ix_used].
    set (S' := remove_str s (ix_schemas ix)).
    assert (BS : forall s0, In s0 S' <-> exists u0, In (u0, s0) L').
    { intros s0. unfold S'. rewrite in_remove_str, B. split.
      - intros ((u0 & I0) & Ns). exists u0. apply InL'. split; auto.
        intros ->. apply UU in I0. contradiction.
      - intros (u0 & I0). split.
        + apply InL' in I0 as [I0 _]. eauto.
        + intros ->. now apply (NoS u0). }
    pose proof (pcok_remove E _ _ _ s SI ND D Is) as D'. fold S' in D'.
    destruct (upc_remove S' s (ix_parents ix, ix_children ix)) as [P' C'] eqn:UR. simpl in D'.
    set (pk := pkg_of E s).
    assert (HasPk : sm_has (ix_used ix) pk = true) by (apply F, C; eauto).
    rewrite HasPk.
    set (used1 := sm_set (ix_used ix) pk (remove_str s (sm_val (ix_used ix) pk))).
    assert (V1 : forall p s0, In s0 (sm_val used1 p) <-> In s0 S' /\ pkg_of E s0 = p).
    { intros p s0. unfold used1. rewrite sm_val_set. destruct (String.eqb pk p) eqn:Z.
      - apply String.eqb_eq in Z. subst p. rewrite in_remove_str, G. unfold S'.
        rewrite in_remove_str. tauto.
      - apply String.eqb_neq in Z. rewrite G. unfold S'. rewrite in_remove_str. split.
        + intros (H1 & H2). repeat split; auto. intros ->. now apply Z.
        + tauto. }
    assert (K1 : forall p, sm_has used1 p = sm_has (ix_used ix) p).
    { intros p. unfold used1. rewrite sm_has_set. destruct (String.eqb pk p) eqn:Z; auto.
      apply String.eqb_eq in Z. now subst. }
    destruct (sm_val used1 pk) as [|z zs] eqn:Vpk.
    + (* the package goes *)
      assert (NoPk : forall s0, In s0 S' -> pkg_of E s0 <> pk).
      { intros s0 I0 Ep. assert (In s0 (sm_val used1 pk)) by (apply V1; auto).
        rewrite Vpk in H. destruct H. }
      constructor; simpl; auto.
      * intros p. rewrite in_remove_str, C. split.
        -- intros ((s0 & I0 & Ep) & Np). exists s0. split; auto. unfold S'.
           apply in_remove_str. split; auto. intros ->. now apply Np.
        -- intros (s0 & I0 & Ep). split.
           ++ exists s0. split; auto. unfold S' in I0. now apply in_remove_str in I0 as [I0 _].
           ++ intros ->. now apply (NoPk s0).
      * intros p. rewrite sm_has_del, K1, in_remove_str, andb_true_iff, negb_true_iff,
          String.eqb_neq, F. split; intros [H1 H2]; split; auto.
      * intros p s0. rewrite sm_val_del. destruct (String.eqb pk p) eqn:Z.
        -- apply String.eqb_eq in Z. subst p. split; [intros []|].
           intros (I0 & Ep). now apply (NoPk s0).
        -- apply V1.
    + constructor; simpl; auto.
      * intros p. rewrite C. split.
        -- intros (s0 & I0 & Ep). destruct (string_dec s0 s) as [->|Ns].
           ++ fold pk in Ep. subst p. assert (In z (sm_val used1 pk)) by (rewrite Vpk; simpl; auto).
              apply V1 in H as (H1 & H2). eauto.
           ++ exists s0. split; auto. unfold S'. apply in_remove_str. auto.
        -- intros (s0 & I0 & Ep). exists s0. split; auto. unfold S' in I0.
           now apply in_remove_str in I0 as [I0 _].
      * intros p. rewrite K1. apply F.
Qed.

Definition UUL (L : list (string * string)) : Prop :=
  forall u s1 s2, In (u, s1) L -> In (u, s2) L -> s1 = s2.

Lemma unreg_fold E : forall gone L ix,
  self_in E -> (forall s, NoDup (path_of_schema E s)) ->
  IxL E L ix -> UUL L -> NoDup (map fst gone) -> incl gone L ->
  IxL E (filter (fun us => negb (mem_str (fst us) (map fst gone))) L)
      (fold_left (fun ix us => ix_unregister E ix (swap us)) gone ix).
Proof.
  intros gone. induction gone as [|[u s] gone IH]; intros L ix SI ND HL UU NDg Inc;
    cbn [fold_left map fst].
  - rewrite filter_all; auto.
  - inversion NDg as [|? ? Nu NDg']; subst.
    assert (I : In (u, s) L) by (apply Inc; simpl; auto).
    pose proof (ixl_unregister E L ix s u SI (ND s) HL I (fun s' H => UU u s' s H I)) as H1.
    set (L1 := filter (fun us => negb (String.eqb (fst us) u)) L) in *.
    assert (UU1 : UUL L1).
    { intros u0 s1 s2 I1 I2. unfold L1 in *. apply filter_In in I1 as [I1 _], I2 as [I2 _].
      eapply UU; eauto. }
    assert (Inc1 : incl gone L1).
    { intros [u0 s0] I0. unfold L1. apply filter_In. split; [apply Inc; simpl; auto|].
      simpl. apply negb_true_iff, String.eqb_neq. intros ->. apply Nu.
      apply in_map_iff. exists (u, s0). auto. }
    pose proof (IH L1 _ SI ND H1 UU1 NDg' Inc1) as H2. change (swap (u, s)) with (s, u).
    eapply ixl_ext; [|exact H2]. intros us. unfold L1. rewrite !filter_In.
    cbn [mem_str existsb]. fold (mem_str (fst us) (map fst gone)).
    rewrite negb_orb. rewrite andb_true_iff. tauto.
Qed.

Lemma reg_fold E : forall come L ix,
  self_in E -> path_closed E -> IxL E L ix ->
  IxL E (L ++ come) (fold_left (fun ix us => ix_register E ix (swap us)) come ix).
Proof.
  intros come. induction come as [|[u s] come IH]; intros L ix SI PCl HL; cbn [fold_left].
  - now rewrite app_nil_r.
  - pose proof (ixl_register E L ix s u SI PCl HL) as H1.
    pose proof (IH _ _ SI PCl H1) as H2. rewrite <- app_assoc in H2. exact H2.

Qed.

Lemma pair_in_iff x l : pair_in x l = true <-> In x l.
Proof.
  unfold pair_in. rewrite existsb_exists. split.
  - intros ([a b] & I & H). apply andb_prop in H as [H1 H2]. simpl in *.
    apply String.eqb_eq in H1, H2. destruct x. simpl in *. now subst.
  - intros I. exists x. split; auto. now rewrite !String.eqb_refl.
Qed.

Lemma NoDup_filter_map {X Y} (f : X -> Y) (g : X -> bool) l :
  NoDup (map f l) -> NoDup (map f (filter g l)).
Proof.
  induction l as [|x l IH]; simpl; auto. intros H. inversion H; subst.
  destruct (g x); simpl; auto. constructor; auto. intros I. apply H2.
  apply in_map_iff in I as (y & E & I). apply filter_In in I as [I _]. rewrite <- E.
  now apply in_map.
Qed.

Lemma track_ixl E old new ix :
  self_in E -> path_closed E -> (forall s, NoDup (path_of_schema E s)) ->
  IxL E old ix -> UUL old -> NoDup (map fst old) ->
  IxL E new
      (fold_left (fun ix us => ix_register E ix (swap us))
                 (filter (fun x => negb (pair_in x old)) new)
                 (fold_left (fun ix us => ix_unregister E ix (swap us))
                            (filter (fun x => negb (pair_in x new)) old) ix)).
Proof.
  intros SI PCl ND HL UU NDo.
  set (gone := filter (fun x => negb (pair_in x new)) old).
  set (come := filter (fun x => negb (pair_in x old)) new).
  assert (H1 := unreg_fold E gone old ix SI ND HL UU).
  assert (NDg : NoDup (map fst gone)) by (apply NoDup_filter_map; auto).
  assert (Inc : incl gone old) by (intros x I; unfold gone in I; now apply filter_In in I as [I _]).
  specialize (H1 NDg Inc).
  pose proof (reg_fold E come _ _ SI PCl H1) as H2.
  eapply ixl_ext; [|exact H2]. intros [u s]. rewrite in_app_iff, filter_In. unfold come.
  rewrite filter_In. simpl. rewrite !negb_true_iff. split.
  - intros [(I & Hm)|(I & Hp)]; auto.
    destruct (pair_in (u, s) new) eqn:X; [now apply pair_in_iff|]. exfalso.
    assert (In (u, s) gone) by (unfold gone; apply filter_In; rewrite X; auto).
    assert (mem_str u (map fst gone) = true); [|congruence].
    apply mem_str_iff. apply in_map_iff. exists (u, s). auto.
  - intros I. destruct (pair_in (u, s) old) eqn:X; auto. left. apply pair_in_iff in X.
    split; auto. destruct (mem_str u (map fst gone)) eqn:Y; auto. exfalso.
    apply mem_str_iff, in_map_iff in Y as ([u0 s0] & Eu & Ig). simpl in Eu. subst u0.
    unfold gone in Ig. apply filter_In in Ig as [Ig Hn].
    assert (s0 = s) by (eapply UU; eauto). subst s0.
    apply negb_true_iff in Hn. assert (pair_in (u, s) new = true) by now apply pair_in_iff.
    congruence.
Qed.

(** ** The index determined by the file *)

Lemma classify_toc_only p :
  match classify p with
  | PUser | PMetaDir _ _ | PMetaObj _ _ _ | PBad => True
  | _ => in_toc p = true
  end.
Proof.
  destruct (in_toc p) eqn:I; [now destruct (classify p)|].
  unfold classify. destruct (split_res_spec p) as (S1 & S2 & S3).
  destruct (split_res p) as [a b]. simpl in *.
  destruct b as [|t r]; [now destruct a|].
  destruct a as [|x a].
  - simpl in S1. subst p. simpl in I. rewrite I.
    destruct (meta_seg t); auto. destruct r as [|nm [|? ?]]; auto. now destruct (reserved_seg nm).
  - destruct r as [|nm [|? ?]]; auto.
    + now destruct (meta_seg t).
    + now destruct (meta_seg t && negb (reserved_seg nm)).
Qed.

Lemma classify_link_inv p s u : classify p = PLink s u -> p = link_path s u.
Proof.
  intros H. pose proof (classify_toc_only p) as I. rewrite H in I.
  apply in_toc_inv in I as (r & ->). rewrite classify_toc_eq in H.
  pose proof (classify_toc_inv r) as C. rewrite H in C. now subst.
Qed.

Lemma classify_schema_inv p s : classify p = PSchema s -> p = schema_path s.
Proof.
  intros H. pose proof (classify_toc_only p) as I. rewrite H in I.
  apply in_toc_inv in I as (r & ->). rewrite classify_toc_eq in H.
  pose proof (classify_toc_inv r) as C. rewrite H in C. now subst.
Qed.

Lemma classify_package_inv p s : classify p = PPackage s -> p = package_path s.
Proof.
  intros H. pose proof (classify_toc_only p) as I. rewrite H in I.
  apply in_toc_inv in I as (r & ->). rewrite classify_toc_eq in H.
  pose proof (classify_toc_inv r) as C. rewrite H in C. now subst.
Qed.

Lemma in_load_links T u s : In (u, s) (load_links T) <-> In (link_path s u) (map fst T).
Proof.
  unfold load_links. rewrite in_flat_map, in_map_iff. split.
  - intros (e & I & H). destruct (classify (fst e)) eqn:K; try (destruct H; fail).
    destruct H as [H|[]]. inversion H; subst. apply classify_link_inv in K. eauto.
  - intros (e & Ee & I). exists e. split; auto. rewrite Ee, classify_link. simpl. auto.
Qed.

Lemma in_load_schemas T s : In s (load_schemas T) <-> In (schema_path s) (map fst T).
Proof.
  unfold load_schemas. rewrite in_flat_map, in_map_iff. split.
  - intros (e & I & H). destruct (classify (fst e)) eqn:K; try (destruct H; fail).
    destruct H as [H|[]]. subst. apply classify_schema_inv in K. eauto.
  - intros (e & Ee & I). exists e. split; auto. rewrite Ee, classify_schema. simpl. auto.
Qed.

Lemma in_load_pkgs T s : In s (load_pkgs T) <-> In (package_path s) (map fst T).
Proof.
  unfold load_pkgs. rewrite in_flat_map, in_map_iff. split.
  - intros (e & I & H). destruct (classify (fst e)) eqn:K; try (destruct H; fail).
    destruct H as [H|[]]. subst. apply classify_package_inv in K. eauto.
  - intros (e & Ee & I). exists e. split; auto. rewrite Ee, classify_package. simpl. auto.
Qed.

Lemma link_path_inj s u s' u' : link_path s u = link_path s' u' -> s = s' /\ u = u'.
Proof. intros H. inversion H. auto. Qed.

Lemma load_links_nodup T :
  NoDup (map fst T) -> UUL (load_links T) -> NoDup (map fst (load_links T)).
Proof.
  induction T as [|e T IH]; simpl; intros ND UU; [constructor|].
  inversion ND as [|? ? Ne ND']; subst.
  assert (UU' : UUL (load_links T)).
  { intros u s1 s2 I1 I2. apply (UU u); unfold load_links; simpl; apply in_or_app; auto. }
  unfold load_links. simpl. fold (load_links T).
  destruct (classify (fst e)) eqn:K; simpl; auto.
  constructor; auto. intros I. apply in_map_iff in I as ([u' s'] & Eu & I). simpl in Eu. subst u'.
  assert (s' = s).
  { apply (UU u); simpl; auto. }
  subst s'. apply in_load_links in I. apply classify_link_inv in K. rewrite <- K in I. contradiction.
Qed.

Section Bridge.
  Variables (E : env) (T : tree) (n : N) (pr : list (string * string)).
  Hypothesis S : SyncRaw E T n pr.
  Let M := objs T.

  Lemma br_toc : TocOk E M T.
  Proof. intros p I. apply (sr_tocok _ _ _ _ S p I). Qed.

  Lemma br_link u s : In (u, s) (load_links T) <-> exists q, In q M /\ sch q = s /\ uid q = u.
  Proof. rewrite in_load_links, <- t_has_keys. apply (has_link E M T s u br_toc). Qed.

  Lemma br_schema s : t_has T (schema_path s) = true <-> exists u, In (u, s) (load_links T).
  Proof.
    rewrite (has_schema E M T s br_toc), uses_iff. split.
    - intros (q & I & H). exists (uid q). apply br_link. eauto.
    - intros (u & I). apply br_link in I as (q & I & H & _). eauto.
  Qed.

  Lemma br_package p :
    t_has T (package_path p) = true <->
    exists s, t_has T (schema_path s) = true /\ pkg_of E s = p.
  Proof.
    rewrite (has_package E M T p br_toc), needs_iff. split.
    - intros (q & I & H). exists (sch q). split; auto.
      rewrite (has_schema E M T _ br_toc). apply uses_iff. eauto.
    - intros (s & Hs & H). rewrite (has_schema E M T _ br_toc) in Hs.
      apply uses_iff in Hs as (q & I & <-). eauto.
  Qed.

  Lemma br_uul : UUL (load_links T).
  Proof.
    intros u s1 s2 I1 I2. apply br_link in I1 as (q1 & J1 & <- & U1).
    apply br_link in I2 as (q2 & J2 & <- & U2).
    assert (q1 = q2) by (apply (sraw_uniq E T n pr S); auto; congruence). now subst.
  Qed.

  Lemma ixl_of_ixok ix : IxOk E T ix -> IxL E (load_links T) ix.
  Proof.
    intros [A B C D1 D2 D3 D4 F G]. constructor.
    - intros [u s]. rewrite A, in_load_links. apply t_has_keys.
    - intros s. rewrite B. apply br_schema.
    - intros p. rewrite C, br_package. split; intros (s & H1 & H2); exists s; split; auto;
        now apply B.
    - constructor; auto.
      + intros p. apply Bool.eq_iff_eq_true. rewrite D1, existsb_exists. reflexivity.
      + intros p. apply Bool.eq_iff_eq_true. apply D3.
    - exact F.
    - exact G.
  Qed.

  Lemma ixok_of_ixl ix : IxL E (load_links T) ix -> IxOk E T ix.
  Proof.
    intros [A B C [D1 D2 D3 D4] F G]. constructor; auto.
    - intros u s. rewrite A, in_load_links. symmetry. apply t_has_keys.
    - intros s. rewrite B. symmetry. apply br_schema.
    - intros p. rewrite C, br_package. split; intros (s & H1 & H2); exists s; split; auto;
        [apply br_schema, B|apply B, br_schema]; auto.
    - intros p. rewrite D1, existsb_exists. reflexivity.
    - intros p. now rewrite D2.
  Qed.
End Bridge.

Lemma self_in_of E : env_ok E = true -> self_in E.
Proof.
  intros EO s. unfold in_path, path_of_schema. destruct (lookup_decl E s) as [d|] eqn:L.
  - unfold lookup_decl in L. apply find_some in L as [L1 L2]. apply String.eqb_eq in L2.
    unfold env_ok in EO. rewrite forallb_forall in EO. specialize (EO d L1). unfold decl_ok in EO.
    repeat (apply andb_prop in EO as [EO ?]). apply String.eqb_eq in H0.
    apply mem_str_iff. rewrite <- L2, <- H0. unfold last_seg.
    destruct (d_path d) as [|x l] eqn:P.
    + simpl in H0. rewrite <- H0 in H3. simpl in H3. discriminate.
    + destruct (exists_last (l:=x :: l)) as (l' & y & ->); [discriminate|].
      rewrite last_last. apply in_or_app. simpl. auto.
  - simpl. now rewrite String.eqb_refl.
Qed.

Lemma path_closed_of E : env_ok E = true -> path_closed E.
Proof.
  intros EO s k H. unfold in_path, path_of_schema in *. destruct (lookup_decl E s) as [d|] eqn:L.
  - unfold lookup_decl in L. apply find_some in L as [L1 L2].
    unfold env_ok in EO. rewrite forallb_forall in EO. specialize (EO d L1). unfold decl_ok in EO.
    apply andb_prop in EO as [_ EO]. rewrite forallb_forall in EO.
    apply mem_str_iff in H. specialize (EO k H).
    destruct (lookup_decl E k) as [dk|]; [|discriminate].
    destruct (list_eq_dec string_dec (d_path dk) (prefix_upto k (d_path d))); [congruence|discriminate].
  - simpl in H. rewrite orb_false_r in H. apply String.eqb_eq in H. subst k.
    rewrite L. simpl. now rewrite String.eqb_refl.
Qed.

Lemma nodup_path_of E : env_ok E = true -> forall s, NoDup (path_of_schema E s).
Proof.
  intros EO s. unfold path_of_schema. destruct (lookup_decl E s) as [d|] eqn:L.
  - unfold lookup_decl in L. apply find_some in L as [L1 _].
    unfold env_ok in EO. rewrite forallb_forall in EO. specialize (EO d L1). unfold decl_ok in EO.
    repeat (apply andb_prop in EO as [EO ?]). now apply nodup_strs_sound.
  - constructor; auto. constructor.
Qed.

Lemma track_ok E T T' n pr n' pr' ix :
  env_ok E = true -> SyncRaw E T n pr -> SyncRaw E T' n' pr' ->
  IxOk E T ix -> IxOk E T' (track_gen true E T T' ix).
Proof.
  intros EO S S' H. apply (ixok_of_ixl E T' n' pr' S'). unfold track_gen.
  apply track_ixl.
  - now apply self_in_of.
  - now apply path_closed_of.
  - now apply nodup_path_of.
  - now apply (ixl_of_ixok E T n pr S).
  - apply (br_uul E T n pr S).
  - apply load_links_nodup; [apply (sr_nodup _ _ _ _ S)|apply (br_uul E T n pr S)].
Qed.

(** ** [load] rebuilds the index the file determines; reopening *)

Lemma pcok_empty E : PCOk E [] [] [].
Proof. constructor; simpl; auto; try discriminate. intros p c. split; [intros []|intros ([] & _)]. Qed.

Lemma pcok_fold E : forall S S0 P C,
  self_in E -> path_closed E -> PCOk E S0 P C ->
  PCOk E (S0 ++ S)
       (fst (fold_left (fun PC s => upc_add s (path_of_schema E s) PC) S (P, C)))
       (snd (fold_left (fun PC s => upc_add s (path_of_schema E s) PC) S (P, C))).
Proof.
  induction S as [|s S IH]; intros S0 P C SI PCl H; cbn [fold_left].
  - now rewrite app_nil_r.
  - pose proof (pcok_add E S0 P C s SI PCl H) as H1.
    destruct (upc_add s (path_of_schema E s) (P, C)) as [P1 C1]. simpl in H1.
    pose proof (IH _ _ _ SI PCl H1) as H2. now rewrite <- app_assoc in H2.
Qed.

Lemma sm_get_map_keys (g : string -> list string) l p :
  sm_get (map (fun pk => (pk, g pk)) l) p = if mem_str p l then Some (g p) else None.
Proof.
  induction l as [|x l IH]; simpl; auto. rewrite (String.eqb_sym p x).
  destruct (String.eqb x p) eqn:Z; simpl; auto. apply String.eqb_eq in Z. now subst.
Qed.

Lemma load_ixl E T n pr :
  env_ok E = true -> SyncRaw E T n pr -> IxL E (load_links T) (load E T).
Proof.
  intros EO S. unfold load.
  assert (HS : forall s, In s (load_schemas T) <-> exists u, In (u, s) (load_links T)).
  { intros s. rewrite in_load_schemas, <- t_has_keys. apply (br_schema E T n pr S). }
  assert (HP : forall p, In p (load_pkgs T) <->
                         exists s, In s (load_schemas T) /\ pkg_of E s = p).
  { intros p. rewrite in_load_pkgs, <- t_has_keys, (br_package E T n pr S). split;
      intros (s & H1 & H2); exists s; split; auto.
    - apply in_load_schemas. now apply t_has_keys.
    - apply t_has_keys. now apply in_load_schemas. }
  constructor; cbn [ix_links ix_schemas ix_parents ix_children ix_pkgs ix_used]; auto.
  - reflexivity.
  - apply (pcok_fold E (load_schemas T) [] [] []); [now apply self_in_of|now apply path_closed_of|].
    apply pcok_empty.
  - intros p. unfold sm_has. rewrite sm_get_map_keys. rewrite <- mem_str_iff.
    destruct (mem_str p (load_pkgs T)); split; auto; discriminate.
  - intros p s. unfold sm_val. rewrite sm_get_map_keys. destruct (mem_str p (load_pkgs T)) eqn:X.
    + rewrite filter_In, String.eqb_eq. reflexivity.
    + split; [intros []|]. intros (H1 & H2). exfalso.
      assert (In p (load_pkgs T)) by (apply HP; eauto). apply mem_str_iff in H. congruence.
Qed.

Lemma existsb_set_eq (f : string -> bool) a b : set_eq a b -> existsb f a = existsb f b.
Proof.
  intros H. apply Bool.eq_iff_eq_true. rewrite !existsb_exists.
  split; intros (x & I & F); exists x; split; auto; now apply H.
Qed.

Lemma ixl_same E L a b : IxL E L a -> IxL E L b -> ix_same a b.
Proof.
  intros [A1 B1 C1 [P1 Q1 R1 S1] F1 G1] [A2 B2 C2 [P2 Q2 R2 S2] F2 G2].
  assert (SE : set_eq (ix_schemas a) (ix_schemas b)) by (intros s; now rewrite B1, B2).
  assert (PE : set_eq (ix_pkgs a) (ix_pkgs b)).
  { intros p. rewrite C1, C2. split; intros (s & H1 & H2); exists s; split; auto; now apply SE. }
  assert (KE : forall p, sm_has (ix_parents a) p = sm_has (ix_parents b) p).
  { intros p. rewrite P1, P2. now apply existsb_set_eq. }
  constructor; auto.
  - intros us. now rewrite A1, A2.
  - intros p. pose proof (KE p) as K. unfold sm_has in K.
    destruct (sm_get (ix_parents a) p) eqn:X, (sm_get (ix_parents b) p) eqn:Y; try discriminate; auto.
    now rewrite (R1 _ _ X), (R2 _ _ Y).
  - intros p. now rewrite Q1, Q2.
  - intros p c. rewrite S1, S2. split; intros (H1 & H2); split; auto; now apply SE.
  - intros p. apply Bool.eq_iff_eq_true. rewrite F1, F2. apply PE.
  - intros p s. rewrite G1, G2. split; intros (H1 & H2); split; auto; now apply SE.
Qed.

Lemma reopen_same E st :
  env_ok E = true -> Sync E st -> ix_same (load E (raw (cs st))) (mem st).
Proof.
  intros EO S. pose proof (raw_of_sync E st S) as R.
  apply (ixl_same E (load_links (raw (cs st)))).
  - now apply (load_ixl E _ _ _ EO R).
  - apply (ixl_of_ixok E _ _ _ R). apply (sy_mem _ _ S).
Qed.

(** ** One step *)


(** ** One step *)

Lemma sync_same_cs E st st' :
  Sync E st -> cs st' = cs st -> mem st' = mem st -> Sync E st'.
Proof. intros [] Hc Hm. constructor; rewrite ?Hc, ?Hm; auto. Qed.

Lemma sync_track E st c' r :
  env_ok E = true -> Sync E st -> SyncRaw E (raw c') (next_id c') (prov c') ->
  Sync E (mkss c' (track_gen true E (raw (cs st)) (raw c') (mem st)) r).
Proof.
  intros EO S R. apply sync_of_raw; simpl; auto.
  eapply track_ok; eauto. apply (raw_of_sync E st S). apply (sy_mem _ _ S).
Qed.

Lemma keep_last_nonempty (l : list string) :
  last_seg (filter keep_seg l) <> "" \/ filter keep_seg l = [].
Proof.
  induction l as [|x l IH]; simpl; auto.
  destruct (keep_seg x) eqn:K; auto. left.
  assert (Nx : x <> "").
  { unfold keep_seg in K. apply andb_prop in K as [K _]. apply negb_true_iff in K.
    now apply String.eqb_neq in K. }
  unfold last_seg in *. destruct (filter keep_seg l) as [|y l'] eqn:F; simpl; auto.
  destruct IH as [IH|IH]; [exact IH|discriminate].
Qed.

Lemma resolve_last node : last_seg (resolve [] node) <> "" \/ resolve [] node = [].
Proof. unfold resolve, norm_segs. destruct (is_abs node); simpl; apply keep_last_nonempty. Qed.

Lemma guard_user_res node : guard node = false -> has_reserved (resolve [] node) = false.
Proof. intros H. apply guard_user0 in H. unfold user_path in H. now apply negb_true_iff in H. Qed.

Lemma sync_attach E st node schema v valid :
  env_ok E = true -> Sync E st -> Sync E (fst (s_attach true E st node schema v valid)).
Proof.
  intros EO S. unfold s_attach.
  destruct (guard node) eqn:Gd; [exact S|]. destruct (ro st); [exact S|].
  destruct (t_get (raw (cs st)) (resolve [] node)) as [o|] eqn:G; [|exact S].
  destruct (has_obj_of _ _ schema) eqn:HO; [exact S|].
  destruct (lookup_decl E schema) as [d|] eqn:LD; [|exact S].
  destruct (d_aux d); [exact S|]. destruct valid; [|exact S]. simpl negb. cbv iota.
  destruct (export_fails _ d); [exact S|].
  pose proof (attach_raw E (cs st) (resolve [] node) schema v d o EO (raw_of_sync E st S)
                         (guard_user_res node Gd) (resolve_last node) G LD HO) as R.
  destruct (c_attach (cs st) (resolve [] node) schema (d_pkg d) v) as [c' r]. simpl in *.
  now apply sync_track.
Qed.

Definition RawStep (E : env) (st : sstate) (co : cop) : Prop :=
  SyncRaw E (raw (fst (c_step (cs st) co))) (next_id (fst (c_step (cs st) co)))
          (prov (fst (c_step (cs st) co))).

Lemma sync_sop E st co :
  env_ok E = true -> Sync E st ->
  (forall node schema pkg v, co <> CAttach node schema pkg v) ->
  RawStep E st co -> Sync E (fst (s_step E st (SOp co))).
Proof.
  intros EO S NA R. unfold s_step, s_step_gen.
  destruct co; try (exfalso; eapply NA; reflexivity);
    (destruct (ro st && mutating _); [exact S|];
     unfold RawStep in R; destruct (c_step (cs st) _) as [c' r]; simpl in *;
     now apply sync_track).
Qed.

Lemma raw_step_same E st co :
  Sync E st -> fst (c_step (cs st) co) = cs st -> RawStep E st co.
Proof. intros S H. unfold RawStep. rewrite H. apply (raw_of_sync E st S). Qed.

Lemma raw_step_detach E st node schema :
  env_ok E = true -> Sync E st -> RawStep E st (CDetach node schema).
Proof.
  intros EO S. unfold RawStep, c_step, c_step_gen.
  destruct (guard node) eqn:Gd; [apply (raw_of_sync E st S)|].
  apply detach_raw; auto. apply (raw_of_sync E st S). now apply guard_user_res.
Qed.

Lemma c_get_same st cwd p : fst (c_step st (CGet cwd p)) = st.
Proof.
  unfold c_step, c_step_gen. destruct (guard cwd); auto. destruct (enter (raw st) cwd); auto.
  destruct (guard p); auto. destruct (t_has (raw st) _); auto.
Qed.

Lemma sync_reopen E st r : env_ok E = true -> Sync E st -> Sync E (fst (s_step E st (SReopen r))).
Proof.
  intros EO S. simpl. apply sync_of_raw; simpl.
  - apply (raw_of_sync E st S).
  - apply (ixok_of_ixl E _ _ _ (raw_of_sync E st S)).
    apply (load_ixl E _ _ _ EO (raw_of_sync E st S)).
Qed.

(** A refused operation ([RGuard], [RFail]) leaves the file as it was. *)
Lemma lift_refused st r : snd (lift st r) <> ROk -> fst (lift st r) = st.
Proof. destruct r; simpl; auto. intros H. now contradiction H. Qed.

(** ** Data operations that only add or relabel user nodes *)

Lemma frame_raw E T T' n pr :
  SyncRaw E T n pr ->
  NoDup (map fst T') ->
  objs T' = objs T ->
  (forall p, has_reserved p = true -> t_get T' p = t_get T p) ->
  (forall p x, t_get T p = Some x ->
               exists x', t_get T' p = Some x' /\ okind x' = okind x \/
                          (exists v v', okind x = KData v /\ okind x' = KData v' /\ t_get T' p = Some x')) ->
  (forall p o, has_reserved p = false -> t_get T' p = Some o ->
               match p with [] => is_group (Some o) | _ => is_group (t_get T' (parent p)) end = true) ->
  SyncRaw E T' n pr.
Proof.
  intros S ND HO HR HK HP.
  assert (KG : forall p, is_group (t_get T p) = true -> is_group (t_get T' p) = true).
  { intros p H. destruct (t_get T p) as [x|] eqn:G; [|discriminate].
    destruct (HK p x G) as (x' & [(G' & K)|(v & v' & K1 & K2 & G')]); rewrite G'.
    - destruct x as [[|?] ?], x' as [[|?] ?]; simpl in *; auto; discriminate.
    - destruct x as [[|?] ?]; simpl in *; discriminate. }
  assert (KD : forall p, is_data (t_get T p) = true -> is_data (t_get T' p) = true).
  { intros p H. destruct (t_get T p) as [x|] eqn:G; [|discriminate].
    destruct (HK p x G) as (x' & [(G' & K)|(v & v' & K1 & K2 & G')]); rewrite G'.
    - destruct x as [[|?] ?], x' as [[|?] ?]; simpl in *; auto; discriminate.
    - destruct x' as [[|?] ?]; simpl in *; auto; discriminate. }
  assert (KH : forall p, t_has T p = true -> t_has T' p = true).
  { intros p H. unfold t_has in *. destruct (t_get T p) as [x|] eqn:G; [|discriminate].
    destruct (HK p x G) as (x' & [(G' & K)|(v & v' & K1 & K2 & G')]); now rewrite G'. }
  constructor; auto.
  - apply KG, (sr_root _ _ _ _ S).
  - intros p o G. destruct (has_reserved p) eqn:R.
    + rewrite (HR p R) in G. pose proof (sr_entries _ _ _ _ S p o G) as C.
      unfold chk_entry in *. apply andb_prop in C as [C1 C2]. apply andb_true_intro. split.
      * destruct p; auto.
      * destruct (classify p) eqn:K; auto.
        -- apply andb_prop in C2 as [C2 C4]. apply andb_prop in C2 as [C2 C3]. rewrite C2. simpl.
           apply andb_true_intro. split.
           ++ unfold owner_ok in *. destruct (String.eqb _ ""); auto.
           ++ apply has_children_iff in C4 as (c & H1 & H2). apply has_children_iff. eauto.
        -- now rewrite HO.
    + unfold chk_entry. rewrite (classify_user p R), andb_true_r. now apply HP.
  - intros p I. rewrite HO, (HR p (in_toc_reserved p I)). apply (sr_tocok _ _ _ _ S p I).
  - intros q I. rewrite HO in I. apply (sr_prov _ _ _ _ S q I).
Qed.

Lemma user_prefix a b : is_prefix a b = true -> has_reserved b = false -> has_reserved a = false.
Proof.
  intros P H. rewrite (is_prefix_split a b P), has_reserved_app in H. now apply orb_false_iff in H as [H _].
Qed.

Record Grow (T T' : tree) : Prop := mk_grow {
  gr_mono : forall p x, t_get T p = Some x -> t_get T' p = Some x;
  gr_new : forall p o, t_get T' p = Some o ->
                       t_get T p = Some o \/
                       (t_get T p = None /\ has_reserved p = false /\ p <> [] /\
                        is_group (t_get T' (parent p)) = true);
  gr_nodup : NoDup (map fst T) -> NoDup (map fst T');
  gr_objs : objs T' = objs T
}.

Lemma grow_refl T : Grow T T.
Proof. constructor; auto. Qed.

Lemma grow_trans A B C : Grow A B -> Grow B C -> Grow A C.
Proof.
  intros [M1 N1 D1 O1] [M2 N2 D2 O2]. constructor; auto.
  - intros p o G. destruct (N2 p o G) as [G1|(G1 & R & NE & PG)].
    + destruct (N1 p o G1) as [G0|(G0 & R & NE & PG)]; auto. right. repeat split; auto.
      destruct (t_get B (parent p)) eqn:X; [|discriminate]. now rewrite (M2 _ _ X).
    + right. repeat split; auto. destruct (t_get A p) eqn:X; auto. apply M1 in X. congruence.
  - congruence.
Qed.

Lemma grow_put T p o :
  t_has T p = false -> has_reserved p = false -> p <> [] -> is_group (t_get T (parent p)) = true ->
  Grow T (t_put T p o).
Proof.
  intros A U NE PG. constructor.
  - intros q x G. now rewrite t_get_put, G.
  - intros q x G. rewrite t_get_put in G. destruct (t_get T q) eqn:X; auto.
    destruct (path_eqb p q) eqn:Z; [|discriminate]. apply path_eqb_eq in Z. subst q.
    right. repeat split; auto. rewrite t_get_put.
    destruct (t_get T (parent p)); [auto|discriminate].
  - intros ND. now apply nodup_put.
  - rewrite objs_put. unfold is_obj_path. rewrite (classify_user p U). apply app_nil_r.
Qed.

Lemma mkgroups_grow : forall rest T base T',
  mkgroups_from T base rest = Some T' -> is_group (t_get T base) = true ->
  has_reserved (base ++ rest) = false ->
  Grow T T' /\ is_group (t_get T' (base ++ rest)) = true.
Proof.
  induction rest as [|s r IH]; intros T base T' H G U; simpl in H.
  - inversion H; subst. rewrite app_nil_r. split; auto. apply grow_refl.
  - assert (E1 : base ++ s :: r = (base ++ [s]) ++ r) by now rewrite <- app_assoc.
    assert (U1 : has_reserved (base ++ [s]) = false).
    { rewrite E1, has_reserved_app in U. now apply orb_false_iff in U as [U _]. }
    destruct (t_get T (base ++ [s])) as [[[|v] a]|] eqn:X; try discriminate.
    + rewrite E1. apply (IH T (base ++ [s]) T' H); [now rewrite X|now rewrite <- E1].
    + assert (GP : Grow T (t_put T (base ++ [s]) new_group)).
      { apply grow_put; auto.
        - unfold t_has. now rewrite X.
        - apply app1_nonempty.
        - now rewrite parent_app1. }
      destruct (IH _ (base ++ [s]) T' H) as [G2 G3].
      * rewrite t_get_put, X, path_eqb_refl. reflexivity.
      * now rewrite <- E1.
      * rewrite E1. split; auto. eapply grow_trans; eauto.
Qed.

Lemma grow_frame E T T' n pr : SyncRaw E T n pr -> Grow T T' -> SyncRaw E T' n pr.
Proof.
  intros S [M N D O]. apply (frame_raw E T T' n pr S); auto.
  - apply D, (sr_nodup _ _ _ _ S).
  - intros p R. destruct (t_get T p) eqn:X; [now apply M|].
    destruct (t_get T' p) eqn:Y; auto. destruct (N p o Y) as [G|(_ & R' & _)]; congruence.
  - intros p x G. exists x. left. auto.
  - intros p o U G. destruct (N p o G) as [G0|(G0 & _ & NE & PG)].
    + pose proof (sr_entries _ _ _ _ S p o G0) as C. unfold chk_entry in C.
      apply andb_prop in C as [C _]. destruct p; auto.
      destruct (t_get T (parent (s :: p))) eqn:X; [|discriminate]. now rewrite (M _ _ X).
    + destruct p; [contradiction|auto].
Qed.

Lemma upd_frame E T q f n pr :
  SyncRaw E T n pr -> has_reserved q = false ->
  (forall o, okind (f o) = okind o) -> SyncRaw E (t_upd T q f) n pr.
Proof.
  intros S U K. apply (frame_raw E T _ n pr S).
  - apply nodup_upd, (sr_nodup _ _ _ _ S).
  - apply objs_upd.
  - intros p R. rewrite t_get_upd. destruct (path_eqb p q) eqn:Z; auto.
    apply path_eqb_eq in Z. congruence.
  - intros p x G. rewrite t_get_upd, G. destruct (path_eqb p q); simpl; eauto.
  - intros p o Up G. rewrite t_get_upd in G.
    assert (G0 : exists o0, t_get T p = Some o0 /\ okind o = okind o0).
    { destruct (path_eqb p q); eauto. destruct (t_get T p) as [o0|]; [|discriminate].
      simpl in G. inversion G. eauto. }
    destruct G0 as (o0 & G0 & Ko). pose proof (sr_entries _ _ _ _ S p o0 G0) as C.
    unfold chk_entry in C. apply andb_prop in C as [C _]. destruct p.
    + destruct o as [[|?] ?], o0 as [[|?] ?]; simpl in *; auto; discriminate.
    + rewrite t_get_upd. destruct (path_eqb (parent (s :: p)) q); auto.
      destruct (t_get T (parent (s :: p))) as [g|]; [|discriminate]. simpl.
      specialize (K g). destruct g as [[|?] ?], (f _) as [[|?] ?]; simpl in *; auto; discriminate.
Qed.

Lemma mkgroups_only_prefixes : forall rest T base T',
  mkgroups_from T base rest = Some T' ->
  forall p, t_get T p = None -> t_has T' p = true -> is_prefix p (base ++ rest) = true.
Proof.
  induction rest as [|s r IH]; intros T base T' H p G0 G1; simpl in H.
  - inversion H; subst. unfold t_has in G1. now rewrite G0 in G1.
  - assert (E1 : base ++ s :: r = (base ++ [s]) ++ r) by now rewrite <- app_assoc.
    destruct (t_get T (base ++ [s])) as [[[|v] a]|] eqn:X; try discriminate.
    + rewrite E1. apply (IH T (base ++ [s]) T' H); auto.
    + destruct (list_eq_dec string_dec p (base ++ [s])) as [->|Np].
      * rewrite E1. apply is_prefix_app.
      * rewrite E1. apply (IH _ (base ++ [s]) T' H); auto.
        rewrite t_get_put, G0. destruct (path_eqb (base ++ [s]) p) eqn:Z; auto.
        apply path_eqb_eq in Z. congruence.
Qed.

Lemma not_prefix_longer (q : path) : q <> [] -> is_prefix q (parent q) = false.
Proof.
  intros NE. destruct (is_prefix q (parent q)) eqn:P; auto.
  apply is_prefix_length in P. destruct (exists_last NE) as (l & x & ->).
  rewrite parent_app1, app_length in P. simpl in P. lia.
Qed.

Lemma create_group_raw E T n pr q T' :
  SyncRaw E T n pr -> has_reserved q = false -> u_create_group T q = Some T' -> SyncRaw E T' n pr.
Proof.
  intros S U H. unfold u_create_group in H. destruct q as [|a q]; [discriminate|].
  destruct (t_has T (a :: q)); [discriminate|]. unfold t_mkgroups in H.
  destruct (mkgroups_grow _ _ _ _ H (sr_root _ _ _ _ S) U) as [G _]. now apply (grow_frame E T).
Qed.

Lemma require_group_raw E T n pr q T' :
  SyncRaw E T n pr -> has_reserved q = false -> u_require_group T q = Some T' -> SyncRaw E T' n pr.
Proof.
  intros S U H. unfold u_require_group in H. destruct (t_get T q) as [[[|v] a]|].
  - inversion H; now subst.
  - discriminate.
  - unfold t_mkgroups in H.
    destruct (mkgroups_grow _ _ _ _ H (sr_root _ _ _ _ S) U) as [G _]. now apply (grow_frame E T).
Qed.

Lemma create_dataset_raw E T n pr q v T' :
  SyncRaw E T n pr -> has_reserved q = false -> u_create_dataset T q v = Some T' ->
  SyncRaw E T' n pr.
Proof.
  intros S U H. unfold u_create_dataset in H. destruct q as [|a q]; [discriminate|].
  set (qq := a :: q) in *. destruct (t_has T qq) eqn:A; [discriminate|].
  destruct (t_mkgroups T (parent qq)) as [T1|] eqn:MK; [|discriminate]. inversion H; subst T'.
  unfold t_mkgroups in MK.
  assert (Up : has_reserved (parent qq) = false).
  { apply (user_prefix (parent qq) qq); auto. apply is_prefix_parent. discriminate. }
  destruct (mkgroups_grow _ _ _ _ MK (sr_root _ _ _ _ S) Up) as [G PG]. simpl in PG.
  apply (grow_frame E T); auto. eapply grow_trans; [exact G|]. apply grow_put; auto.
  - destruct (t_has T1 qq) eqn:X; auto. exfalso.
    pose proof (mkgroups_only_prefixes _ _ _ _ MK qq) as P.
    unfold t_has in A. destruct (t_get T qq); [discriminate|]. specialize (P eq_refl X).
    change ([] ++ parent qq) with (parent qq) in P.
    rewrite (not_prefix_longer qq) in P; discriminate.
  - discriminate.
Qed.

Lemma require_dataset_raw E T n pr q v T' :
  SyncRaw E T n pr -> has_reserved q = false -> u_require_dataset T q v = Some T' ->
  SyncRaw E T' n pr.
Proof.
  intros S U H. unfold u_require_dataset in H. destruct (t_get T q) as [[[|v0] a]|].
  - discriminate.
  - inversion H; now subst.
  - eapply create_dataset_raw; eauto.
Qed.

Lemma attr_set_raw E T n pr q k v T' :
  SyncRaw E T n pr -> has_reserved q = false -> u_attr_set T q k v = Some T' -> SyncRaw E T' n pr.
Proof.
  intros S U H. unfold u_attr_set in H. destruct (t_has T q); [|discriminate].
  inversion H; subst. now apply upd_frame.
Qed.

Lemma attr_del_raw E T n pr q k T' :
  SyncRaw E T n pr -> has_reserved q = false -> u_attr_del T q k = Some T' -> SyncRaw E T' n pr.
Proof.
  intros S U H. unfold u_attr_del in H. destruct (t_get T q); [|discriminate].
  destruct (a_has _ k); [|discriminate]. inversion H; subst. now apply upd_frame.
Qed.

Lemma raw_lift E st X :
  SyncRaw E (raw st) (next_id st) (prov st) ->
  (forall T', X = Some T' -> SyncRaw E T' (next_id st) (prov st)) ->
  SyncRaw E (raw (fst (lift st X))) (next_id (fst (lift st X))) (prov (fst (lift st X))).
Proof. intros S H. destruct X as [T'|]; simpl; auto. Qed.

Lemma enter_user T cwd c :
  guard cwd = false -> enter T cwd = Some c -> has_reserved c = false.
Proof.
  intros G H. unfold enter in H. destruct (is_group _); [|discriminate]. inversion H; subst.
  now apply guard_user_res.
Qed.

Lemma resolve_user c p : has_reserved c = false -> guard p = false -> has_reserved (resolve c p) = false.
Proof. intros Hc Hp. now apply guard_resolve. Qed.

Ltac data_step S lem :=
  unfold RawStep, c_step, c_step_gen;
  match goal with
  | |- context [guard ?cwd] =>
      destruct (guard cwd) eqn:Gc; [apply (raw_of_sync _ _ S)|];
      match goal with
      | |- context [enter ?T cwd] =>
          destruct (enter T cwd) as [c|] eqn:En; [|apply (raw_of_sync _ _ S)];
          match goal with
          | |- context [guard ?p] =>
              destruct (guard p) eqn:Gp; [apply (raw_of_sync _ _ S)|];
              apply raw_lift; [apply (raw_of_sync _ _ S)|];
              intros T' HT'; eapply lem; [apply (raw_of_sync _ _ S)| |exact HT'];
              apply resolve_user; [apply (enter_user _ cwd c Gc En)|exact Gp]
          end
      end
  end.

Lemma raw_step_create_group E st cwd p : Sync E st -> RawStep E st (CCreateGroup cwd p).
Proof. intros S. data_step S create_group_raw. Qed.
Lemma raw_step_require_group E st cwd p : Sync E st -> RawStep E st (CRequireGroup cwd p).
Proof. intros S. data_step S require_group_raw. Qed.
Lemma raw_step_create_dataset E st cwd p v : Sync E st -> RawStep E st (CCreateDataset cwd p v).
Proof. intros S. data_step S create_dataset_raw. Qed.
Lemma raw_step_require_dataset E st cwd p v : Sync E st -> RawStep E st (CRequireDataset cwd p v).
Proof. intros S. data_step S require_dataset_raw. Qed.
Lemma raw_step_setitem E st cwd p v : Sync E st -> RawStep E st (CSetItem cwd p v).
Proof. intros S. data_step S create_dataset_raw. Qed.
Lemma raw_step_attr_set E st cwd p k v : Sync E st -> RawStep E st (CAttrSet cwd p k v).
Proof. intros S. data_step S attr_set_raw. Qed.
Lemma raw_step_attr_del E st cwd p k : Sync E st -> RawStep E st (CAttrDel cwd p k).
Proof. intros S. data_step S attr_del_raw. Qed.

(** ** Refused operations change nothing *)

Definition refused (r : res) : bool := match r with RGuard | RFail => true | _ => false end.

Lemma lift_ref st X : refused (snd (lift st X)) = true -> fst (lift st X) = st.
Proof. destruct X; simpl; auto; discriminate. Qed.

Lemma fixups_not_refused st o T1 s d wm : refused (snd (c_copy_fixups st o T1 s d wm)) = false.
Proof.
  unfold c_copy_fixups. destruct (okind o); destruct wm; simpl; auto.
  - destruct (reuuid_region _ _ _ _). reflexivity.
  - destruct (t_has T1 _); simpl; auto. destruct (reuuid_region _ _ _ _). reflexivity.
Qed.

Lemma c_copy_ref st o s d wm : refused (snd (c_copy st o s d wm)) = true -> fst (c_copy st o s d wm) = st.
Proof.
  unfold c_copy. destruct (u_copy (raw st) s d); simpl; auto.
  now rewrite fixups_not_refused.
Qed.

Lemma c_step_refused st o : refused (snd (c_step st o)) = true -> fst (c_step st o) = st.
Proof.
  destruct o; unfold c_step, c_step_gen;
    repeat match goal with
           | |- context [if guard ?x then _ else _] => destruct (guard x); simpl; auto
           | |- context [match enter ?T ?x with _ => _ end] => destruct (enter T x); simpl; auto
           | |- context [match t_get ?T ?x with _ => _ end] => destruct (t_get T x) eqn:?; simpl; auto
           | |- context [if name_guard ?x then _ else _] => destruct (name_guard x); simpl; auto
           end;
    try apply lift_ref; try apply c_copy_ref.
  - (* delete *) unfold c_delete. destruct (t_get (raw st) _) as [[[|?] ?]|]; apply lift_ref.
  - (* move *) unfold c_move. destruct (u_move _ _ _); simpl; auto.
    destruct (t_get (raw st) _) as [[[|?] ?]|]; simpl; discriminate.
  - (* get *) destruct (t_has _ _); auto.
  - (* attach *) unfold c_attach. destruct (t_get (raw st) _); simpl; auto.
    destruct (existsb _ _); simpl; auto. discriminate.
  - (* detach *) unfold c_detach. destruct (t_get (raw st) _); simpl; auto.
    destruct (find _ _); simpl; auto. discriminate.
Qed.

Lemma raw_step_refused E st co :
  Sync E st -> refused (snd (c_step (cs st) co)) = true -> RawStep E st co.
Proof. intros S H. apply raw_step_same; auto. now apply c_step_refused. Qed.

(** ** Delete: unlink every object of the region, then cut *)

Definition unlink1 (pr : list (string * string)) (T : tree) (op : path) : tree :=
  unreg_link T pr (obj_schema (last_seg op)) (obj_uuid (last_seg op)).

Lemma unlink_region_eq T pr region :
  unlink_region T pr region = fold_left (unlink1 pr) (meta_objs T region) T.
Proof. reflexivity. Qed.

Definition minus (M L : list path) : list path :=
  filter (fun x => negb (existsb (path_eqb x) L)) M.

Lemma minus_cons M q L : minus M (q :: L) = minus (rm q M) L.
Proof.
  unfold minus, rm. rewrite filter_filter. apply filter_ext. intros x. simpl.
  now rewrite negb_orb.
Qed.

Lemma minus_nil M : minus M [] = M.
Proof. unfold minus. apply filter_all. auto. Qed.

Lemma unlink_fold E pr : forall L M T,
  TocOk E M T -> UidUniq M -> ProvOk E pr M -> NoDup L -> incl L M ->
  TocOk E (minus M L) (fold_left (unlink1 pr) L T) /\
  SameOutside T (fold_left (unlink1 pr) L T) /\ Restr T (fold_left (unlink1 pr) L T).
Proof.
  induction L as [|q L IH]; intros M T TO UQ PO ND Inc; cbn [fold_left].
  - rewrite minus_nil. split; auto. split; [apply so_refl|apply restr_refl].
  - inversion ND as [|? ? Nq ND']; subst.
    assert (Iq : In q M) by (apply Inc; simpl; auto).
    pose proof (ul_tocok E M T pr q TO UQ PO Iq) as TO1.
    pose proof (ul_outside T pr q) as SO1.
    pose proof (restr_unreg T pr (sch q) (uid q)) as R1.
    change (unreg_link T pr (sch q) (uid q)) with (unlink1 pr T q) in *.
    assert (Inc' : incl L (rm q M)).
    { intros x I. apply in_rm. split; [apply Inc; simpl; auto|]. intros ->. contradiction. }
    assert (PO' : ProvOk E pr (rm q M)).
    { intros x I. apply in_rm in I as [I _]. now apply PO. }
    destruct (IH (rm q M) (unlink1 pr T q) TO1 (uniq_rm q M UQ) PO' ND' Inc') as (A & B & C).
    rewrite minus_cons. split; auto. split; [eapply so_trans; eauto|eapply restr_trans; eauto].
Qed.

Lemma is_meta_obj_of_obj p : is_obj_path p = true -> is_meta_obj p = true.
Proof.
  unfold is_obj_path. destruct (classify p) eqn:K; try discriminate. intros _.
  apply classify_obj_inv in K as (-> & Hd & Hm & Hn). unfold is_meta_obj.
  rewrite last_seg_app2. apply andb_true_intro. split.
  - rewrite existsb_app. simpl. rewrite Hm. now rewrite orb_true_r.
  - apply negb_true_iff. destruct (meta_seg name) eqn:X; auto.
    apply meta_seg_reserved in X. congruence.
Qed.

Lemma existsb_meta_user p : has_reserved p = false -> existsb meta_seg p = false.
Proof.
  induction p as [|x p IH]; simpl; auto. intros H. apply orb_false_iff in H as [H1 H2].
  rewrite (IH H2), orb_false_r. destruct (meta_seg x) eqn:X; auto.
  apply meta_seg_reserved in X. congruence.
Qed.

Lemma meta_objs_eq E T n pr region :
  SyncRaw E T n pr -> in_toc region = false -> region <> [] ->
  meta_objs T region = filter (fun p => is_prefix region p) (objs T).
Proof.
  intros S Ir NE. unfold meta_objs, objs. rewrite filter_filter. apply filter_ext_in.
  intros p I. rewrite andb_comm. destruct (is_prefix region p) eqn:P; simpl; [|now rewrite !andb_false_r].
  rewrite !andb_true_r. apply in_keys_t_has in I. unfold t_has in I.
  destruct (t_get T p) as [o|] eqn:G; [|discriminate].
  assert (Ip : in_toc p = false).
  { destruct (in_toc p) eqn:X; auto. apply in_toc_inv in X as (r & ->).
    destruct region as [|a region]; [contradiction|]. rewrite is_prefix_cons in P.
    apply andb_prop in P as [P _]. apply String.eqb_eq in P. subst. now rewrite in_toc_cons in Ir. }
  pose proof (sraw_shape E T n pr p o S G Ip) as Sh. unfold is_obj_path.
  destruct (classify p) eqn:K; try contradiction.
  - apply classify_user_inv in K. unfold is_meta_obj. now rewrite (existsb_meta_user p K).
  - apply classify_dir_inv in K as (-> & Hd & Hm). unfold is_meta_obj.
    now rewrite last_seg_app, Hm, andb_false_r.
  - apply is_meta_obj_of_obj. unfold is_obj_path. now rewrite K.
Qed.

Lemma minus_filter_prefix M region :
  minus M (filter (fun p => is_prefix region p) M) = filter (fun p => negb (is_prefix region p)) M.
Proof.
  unfold minus. apply filter_ext_in. intros x I. f_equal.
  apply Bool.eq_iff_eq_true. rewrite existsb_exists. split.
  - intros (y & Iy & E). apply path_eqb_eq in E. subst y. now apply filter_In in Iy as [_ Iy].
  - intros P. exists x. split; [|apply path_eqb_refl]. apply filter_In. auto.
Qed.

Lemma NoDup_objs T : NoDup (map fst T) -> NoDup (objs T).
Proof. intros H. unfold objs. now apply NoDup_filter. Qed.

(** Nothing lies below a dataset. *)
Lemma below_is_group E T n pr q : forall r,
  SyncRaw E T n pr -> r <> [] -> t_has T (q ++ r) = true -> is_group (t_get T q) = true.
Proof.
  induction r as [|x r IH] using rev_ind; intros S NE H; [contradiction|].
  unfold t_has in H. destruct (t_get T (q ++ r ++ [x])) as [o|] eqn:G; [|discriminate].
  assert (NEp : q ++ r ++ [x] <> []) by (rewrite app_assoc; apply app1_nonempty).
  pose proof (sraw_parent E T n pr _ o S G NEp) as PG.
  rewrite app_assoc, parent_app1 in PG.
  destruct r as [|y r'].
  - now rewrite app_nil_r in PG.
  - apply IH; auto; [discriminate|]. unfold t_has.
    destruct (t_get T (q ++ y :: r')); [auto|discriminate].
Qed.

Lemma below_data_absent E T n pr q p :
  SyncRaw E T n pr -> is_data (t_get T q) = true -> is_prefix q p = true -> p <> q ->
  t_has T p = false.
Proof.
  intros S D P NE. destruct (t_has T p) eqn:H; auto. exfalso.
  rewrite (is_prefix_split q p P) in H, NE.
  destruct (skipn (List.length q) p) as [|y l] eqn:K.
  - rewrite app_nil_r in NE. contradiction.
  - assert (G : is_group (t_get T q) = true).
    { apply (below_is_group E T n pr q (y :: l) S); auto. discriminate. }
    destruct (t_get T q) as [[[|?] ?]|]; simpl in *; discriminate.
Qed.

Lemma owner_ok_transfer E T T' n pr d m :
  SyncRaw E T n pr -> has_reserved d = false -> owner_ok T d m = true ->
  (is_group (t_get T d) = true -> t_get T' d = t_get T d) ->
  (let x := drop_str (String.length METADOR_META_PREF) m in
   is_data (t_get T (d ++ [x])) = true -> in_toc (d ++ [x]) = false ->
   t_get T' (d ++ [x]) = t_get T (d ++ [x])) ->
  owner_ok T' d m = true.
Proof.
  intros S Hd O Hg Hx. unfold owner_ok in *. cbv zeta in *.
  set (x0 := drop_str (String.length METADOR_META_PREF) m) in *. clearbody x0.
  destruct (String.eqb x0 "").
  - now rewrite Hg.
  - rewrite Hx; auto.
    destruct (in_toc (d ++ [x0])) eqn:X; auto. exfalso. apply in_toc_inv in X as (r & X).
    destruct d as [|a d']; cbn [app] in X; inversion X; subst.
    + pose proof (sat_group _ (sr_tocok _ _ _ _ S toc_segs eq_refl)) as G.
      cbn [app] in O. unfold toc_segs in G.
      destruct (t_get T [toc_seg]) as [[[|?] ?]|]; simpl in *; discriminate.
    + simpl in Hd. discriminate.
Qed.

Lemma user_prefix_of_meta q : forall d m r,
  has_reserved q = false -> reserved_seg m = true -> is_prefix q (d ++ m :: r) = true ->
  is_prefix q d = true.
Proof.
  induction q as [|x q IH]; intros d m r Hq Hm P; simpl; auto.
  simpl in Hq. apply orb_false_iff in Hq as [Hx Hq].
  destruct d as [|a d]; cbn [app] in P; rewrite is_prefix_cons in P; apply andb_prop in P as [P1 P2].
  - apply String.eqb_eq in P1. subst. congruence.
  - rewrite P1. simpl. eapply IH; eauto.
Qed.

Lemma sraw_entry_dir E T n pr d m x :
  SyncRaw E T n pr -> has_reserved d = false -> meta_seg m = true ->
  t_get T (d ++ [m]) = Some x ->
  owner_ok T d m = true /\ exists y, t_has T (d ++ [m; y]) = true.
Proof.
  intros S Hd Hm G. pose proof (sr_entries _ _ _ _ S _ _ G) as C. unfold chk_entry in C.
  apply andb_prop in C as [_ C]. rewrite (classify_dir d m Hd Hm) in C.
  apply andb_prop in C as [C C3]. apply andb_prop in C as [_ C2]. split; auto.
  apply has_children_iff in C3 as (c & C3 & C4). apply is_child_iff in C3 as (y & ->).
  exists y. now rewrite <- app_assoc1.
Qed.

Lemma delete_group_raw E T n pr q :
  SyncRaw E T n pr -> has_reserved q = false -> q <> [] ->
  is_group (t_get T q) = true ->
  SyncRaw E (t_cut q (unlink_region T pr q)) n pr.
Proof.
  intros S Uq NE Gq. set (M := objs T).
  assert (Iq : in_toc q = false).
  { destruct (in_toc q) eqn:X; auto. apply in_toc_reserved in X. congruence. }
  rewrite unlink_region_eq, (meta_objs_eq E T n pr q S Iq NE). fold M.
  set (L := filter (fun p => is_prefix q p) M).
  assert (TO : TocOk E M T) by (intros p I; apply (sr_tocok _ _ _ _ S p I)).
  pose proof (sraw_uniq E T n pr S) as UQ. fold M in UQ.
  assert (PO : ProvOk E pr M) by (intros x I; apply (sr_prov _ _ _ _ S x I)).
  assert (NDL : NoDup L) by (apply NoDup_filter, NoDup_objs, (sr_nodup _ _ _ _ S)).
  assert (IncL : incl L M) by (intros x I; now apply filter_In in I as [I _]).
  destruct (unlink_fold E pr L M T TO UQ PO NDL IncL) as (TO1 & (SO1 & SO2 & SO3) & R1).
  set (T1 := fold_left (unlink1 pr) L T) in *.
  unfold L in TO1. rewrite minus_filter_prefix in TO1.
  set (T3 := t_cut q T1).
  assert (R3 : Restr T T3) by (eapply restr_trans; [exact R1|apply restr_cut]).
  assert (L3 : forall p, is_prefix q p = false -> in_toc p = false -> t_get T3 p = t_get T p).
  { intros p Hp Ip. unfold T3. rewrite t_get_cut, Hp. now apply SO1. }
  assert (L3toc : forall p, in_toc p = true -> t_get T3 p = t_get T1 p).
  { intros p Ip. unfold T3. rewrite t_get_cut. destruct (is_prefix q p) eqn:X; auto. exfalso.
    destruct q as [|a q']; [contradiction|].
    destruct p as [|b p']; [discriminate|]. rewrite is_prefix_cons in X.
    apply andb_prop in X as [X _]. apply String.eqb_eq in X. subst.
    simpl in Ip, Iq. congruence. }
  assert (O3 : objs T3 = filter (fun p => negb (is_prefix q p)) M).
  { unfold T3. now rewrite objs_cut, SO2. }
  constructor.
  - unfold T3. apply nodup_cut, SO3, (sr_nodup _ _ _ _ S).
  - rewrite L3; auto. + apply (sr_root _ _ _ _ S). + destruct q; [contradiction|reflexivity].
  - intros p o' Gp. destruct (in_toc p) eqn:Ip.
    + apply (toc_entries_ok E (filter (fun p0 => negb (is_prefix q p0)) M)); auto.
      * intros p0 I0. rewrite (L3toc p0 I0). now apply TO1.
      * rewrite L3; auto. apply (sr_root _ _ _ _ S). destruct q; [contradiction|reflexivity].
    + apply (restr_entries E T T3 n pr S R3); auto.
      intros d m y Hd Hm Gy.
      assert (Pd : is_prefix q (d ++ [m]) = false).
      { unfold T3 in Gy. rewrite t_get_cut in Gy. destruct (is_prefix q (d ++ [m])); [discriminate|auto]. }
      assert (Pdd : is_prefix q d = false).
      { destruct (is_prefix q d) eqn:X; auto.
        rewrite (is_prefix_trans q d (d ++ [m])) in Pd; auto. apply is_prefix_app. }
      pose proof (proj1 R3 _ _ Gy) as Gy0.
      destruct (sraw_entry_dir E T n pr d m y S Hd Hm Gy0) as (Ow & c & Hc).
      split.
      * apply (owner_ok_transfer E T T3 n pr d m S Hd Ow).
        -- intros _. apply L3; auto. destruct (in_toc d) eqn:X; auto.
           apply in_toc_reserved in X. congruence.
        -- intros x Dx Ix. clearbody x. apply L3; auto.
           destruct (is_prefix q (d ++ [x])) eqn:X; auto. exfalso.
           pose proof (is_prefix_split q _ X) as Sp.
           destruct (skipn (List.length q) (d ++ [x])) as [|z l] eqn:K.
           ++ rewrite app_nil_r in Sp. rewrite Sp in Dx.
              destruct (t_get T q) as [[[|?] ?]|]; simpl in *; discriminate.
           ++ assert (is_prefix q d = true); [|congruence].
              assert (E1 : d ++ [x] = (q ++ removelast (z :: l)) ++ [last (z :: l) ""]).
              { rewrite Sp at 1. rewrite <- app_assoc. f_equal. apply app_removelast_last. discriminate. }
              apply app_inj_tail in E1 as [-> _]. apply is_prefix_app.
      * apply has_children_iff. exists (d ++ [m; c]). split.
        -- apply is_child_iff. exists c. now rewrite app_assoc1.
        -- unfold t_has in *. destruct (t_get T (d ++ [m; c])) as [g|] eqn:Gc; [|discriminate].
           destruct (sraw_obj_name E T n pr d m c g S Hd Hm Gc) as [Cc _].
           rewrite L3, Gc; auto.
           ++ destruct (is_prefix q (d ++ [m; c])) eqn:X; auto.
              rewrite (user_prefix_of_meta q d m [c] Uq (meta_seg_reserved m Hm) X) in Pdd. discriminate.
           ++ apply obj_not_toc. unfold is_obj_path. now rewrite Cc.
  - rewrite O3. intros p Ip. rewrite (L3toc p Ip). now apply TO1.
  - intros x I. rewrite O3 in I. apply filter_In in I as [I _]. apply (sr_prov _ _ _ _ S x I).
Qed.

Lemma starts_with_split p s : starts_with p s = true -> s = (p ++ drop_str (String.length p) s)%string.
Proof.
  revert s. induction p as [|a p IH]; intros s H; simpl in *; auto.
  destruct s as [|b s]; [discriminate|]. apply andb_prop in H as [H1 H2].
  apply Ascii.eqb_eq in H1. subst. simpl. f_equal. now apply IH.
Qed.

Lemma delete_data_raw E T n pr q :
  SyncRaw E T n pr -> has_reserved q = false -> q <> [] -> last_seg q <> "" ->
  is_data (t_get T q) = true ->
  SyncRaw E (t_cut q (t_cut (meta_dir_of q true) (unlink_region T pr (meta_dir_of q true)))) n pr.
Proof.
  intros S Uq NE Lq Dq. set (M := objs T).
  destruct (meta_dir_shape q true Uq (fun _ => NE)) as (dd & mm & Hmd & Udd & Mmm & _ & Sd).
  destruct (Sd eq_refl) as [Sq Sm]. set (md := meta_dir_of q true) in *.
  assert (Imd : in_toc md = false) by (rewrite Hmd; now apply dir_not_toc).
  assert (NEmd : md <> []) by (rewrite Hmd; apply app1_nonempty).
  assert (Rmd : has_reserved md = true).
  { rewrite Hmd, has_reserved_app. simpl. rewrite (meta_seg_reserved mm Mmm). now rewrite orb_true_r. }
  assert (Iq : in_toc q = false).
  { destruct (in_toc q) eqn:X; auto. apply in_toc_reserved in X. congruence. }
  rewrite unlink_region_eq, (meta_objs_eq E T n pr md S Imd NEmd). fold M.
  set (L := filter (fun p => is_prefix md p) M).
  assert (TO : TocOk E M T) by (intros p I; apply (sr_tocok _ _ _ _ S p I)).
  pose proof (sraw_uniq E T n pr S) as UQ. fold M in UQ.
  assert (PO : ProvOk E pr M) by (intros x I; apply (sr_prov _ _ _ _ S x I)).
  assert (NDL : NoDup L) by (apply NoDup_filter, NoDup_objs, (sr_nodup _ _ _ _ S)).
  assert (IncL : incl L M) by (intros x I; now apply filter_In in I as [I _]).
  destruct (unlink_fold E pr L M T TO UQ PO NDL IncL) as (TO1 & (SO1 & SO2 & SO3) & R1).
  set (T1 := fold_left (unlink1 pr) L T) in *.
  unfold L in TO1. rewrite minus_filter_prefix in TO1.
  set (T3 := t_cut q (t_cut md T1)).
  assert (R3 : Restr T T3).
  { eapply restr_trans; [exact R1|]. eapply restr_trans; apply restr_cut. }
  assert (L3 : forall p, is_prefix md p = false -> is_prefix q p = false -> in_toc p = false ->
                         t_get T3 p = t_get T p).
  { intros p H1 H2 Ip. unfold T3. rewrite !t_get_cut, H1, H2. now apply SO1. }
  assert (NoToc : forall c p, in_toc c = false -> c <> [] -> in_toc p = true -> is_prefix c p = false).
  { intros c p Ic NEc Ip. destruct (is_prefix c p) eqn:X; auto. exfalso.
    destruct c as [|a c']; [contradiction|]. destruct p as [|b p']; [discriminate|].
    rewrite is_prefix_cons in X. apply andb_prop in X as [X _]. apply String.eqb_eq in X. subst.
    simpl in Ip, Ic. congruence. }
  assert (L3toc : forall p, in_toc p = true -> t_get T3 p = t_get T1 p).
  { intros p Ip. unfold T3. rewrite !t_get_cut, (NoToc q p), (NoToc md p); auto. }
  assert (BelowQ : forall p, is_prefix q p = true -> p <> q -> t_has T p = false).
  { intros p P Np. now apply (below_data_absent E T n pr q p S Dq). }
  assert (O3 : objs T3 = filter (fun p => negb (is_prefix md p)) M).
  { unfold T3. rewrite !objs_cut, SO2. fold M. apply filter_all. intros x I.
    apply filter_In in I as [I _]. apply negb_true_iff. destruct (is_prefix q x) eqn:X; auto.
    exfalso. pose proof (objs_all_obj T x I) as Ox. apply in_objs in I as [Px _].
    rewrite BelowQ in Px; auto; [discriminate|]. intros ->.
    unfold is_obj_path in Ox. now rewrite (classify_user q Uq) in Ox. }
  assert (MdGroup : forall g, t_get T md = Some g -> is_group (Some g) = true).
  { intros g G. rewrite Hmd in G. now apply (sraw_dir_group E T n pr dd mm g S). }
  constructor.
  - unfold T3. repeat apply nodup_cut. apply SO3, (sr_nodup _ _ _ _ S).
  - rewrite L3; auto; try (destruct q; [contradiction|reflexivity]).
    + apply (sr_root _ _ _ _ S).
    + rewrite Hmd. destruct dd; reflexivity.
  - intros p o' Gp. destruct (in_toc p) eqn:Ip.
    + apply (toc_entries_ok E (filter (fun p0 => negb (is_prefix md p0)) M)); auto.
      * intros p0 I0. rewrite (L3toc p0 I0). now apply TO1.
      * rewrite L3; auto; try (destruct q; [contradiction|reflexivity]).
        -- apply (sr_root _ _ _ _ S).
        -- rewrite Hmd. destruct dd; reflexivity.
    + apply (restr_entries E T T3 n pr S R3); auto.
      intros d m y Hd Hm Gy.
      assert (Pd : is_prefix md (d ++ [m]) = false /\ is_prefix q (d ++ [m]) = false).
      { unfold T3 in Gy. rewrite !t_get_cut in Gy.
        destruct (is_prefix q (d ++ [m])); [discriminate|].
        destruct (is_prefix md (d ++ [m])); [discriminate|auto]. }
      destruct Pd as [Pd1 Pd2].
      assert (Pdd : is_prefix q d = false).
      { destruct (is_prefix q d) eqn:X; auto.
        rewrite (is_prefix_trans q d (d ++ [m])) in Pd2; auto. apply is_prefix_app. }
      pose proof (proj1 R3 _ _ Gy) as Gy0.
      destruct (sraw_entry_dir E T n pr d m y S Hd Hm Gy0) as (Ow & c & Hc).
      split.
      * apply (owner_ok_transfer E T T3 n pr d m S Hd Ow).
        -- intros _. apply L3; auto.
           ++ now apply user_not_under.
           ++ destruct (in_toc d) eqn:X; auto. apply in_toc_reserved in X. congruence.
        -- intros x Dx Ix. apply L3; auto.
           ++ (* the owner is not below [md] *)
              destruct (is_prefix md (d ++ [x])) eqn:X; auto. exfalso.
              pose proof (is_prefix_split md _ X) as Sp. rewrite Hmd in Sp.
              destruct (skipn _ _) as [|z l] eqn:K in Sp.
              ** rewrite app_nil_r, <- Hmd in Sp. rewrite Sp in Dx.
                 destruct (t_get T md) as [g|] eqn:Gm; [|discriminate].
                 pose proof (MdGroup g eq_refl) as GG.
                 destruct g as [[|?] ?]; simpl in *; discriminate.
              ** assert (has_reserved d = true); [|congruence].
                 assert (E1 : d ++ [x] = (dd ++ [mm] ++ removelast (z :: l)) ++ [last (z :: l) ""]).
                 { rewrite Sp at 1. rewrite <- !app_assoc. f_equal. f_equal.
                   apply app_removelast_last. discriminate. }
                 apply app_inj_tail in E1 as [-> _]. rewrite !has_reserved_app. simpl.
                 rewrite (meta_seg_reserved mm Mmm). now rewrite orb_true_r.
           ++ (* nor is it [q] or below [q] *)
              destruct (is_prefix q (d ++ [x])) eqn:X; auto. exfalso.
              destruct (list_eq_dec string_dec (d ++ [x]) q) as [Eq|Nq].
              ** (* then the directory is the sidecar of [q] *)
                 rewrite Sq in Eq. apply app_inj_tail in Eq as [Ed Ex].
                 assert (m = mm).
                 { rewrite Sm, <- Ex. unfold x. apply starts_with_split. exact Hm. }
                 subst d m. rewrite <- Hmd, is_prefix_refl in Pd1. discriminate.
              ** rewrite (BelowQ _ X Nq) in Dx || (unfold t_has in *; pose proof (BelowQ _ X Nq) as B;
                   unfold t_has in B; destruct (t_get T (d ++ [x])); simpl in *; discriminate).
      * apply has_children_iff. exists (d ++ [m; c]). split.
        -- apply is_child_iff. exists c. now rewrite app_assoc1.
        -- unfold t_has in Hc |- *. destruct (t_get T (d ++ [m; c])) as [g|] eqn:Gc; [|discriminate].
           destruct (sraw_obj_name E T n pr d m c g S Hd Hm Gc) as [Cc _].
           assert (Oc : is_obj_path (d ++ [m; c]) = true) by (unfold is_obj_path; now rewrite Cc).
           rewrite L3, Gc; auto.
           ++ destruct (is_prefix md (d ++ [m; c])) eqn:X; auto. exfalso. rewrite Hmd in X.
              destruct (dir_prefix_obj dd mm _ Udd Mmm Oc X) as (ny & Ey).
              rewrite <- !app_assoc1 in Ey. apply app_inj_tail in Ey as [Ey _].
              rewrite Ey, <- Hmd, is_prefix_refl in Pd1. discriminate.
           ++ destruct (is_prefix q (d ++ [m; c])) eqn:X; auto.
              rewrite (user_prefix_of_meta q d m [c] Uq (meta_seg_reserved m Hm) X) in Pdd. discriminate.
           ++ now apply obj_not_toc.
  - rewrite O3. intros p Ip. rewrite (L3toc p Ip). now apply TO1.
  - intros x I. rewrite O3 in I. apply filter_In in I as [I _]. apply (sr_prov _ _ _ _ S x I).
Qed.

Lemma last_seg_app_ne (a b : path) : b <> [] -> last_seg (a ++ b) = last_seg b.
Proof.
  intros NE. destruct (exists_last NE) as (l & x & ->). rewrite app_assoc.
  now rewrite !last_seg_app.
Qed.

Lemma resolve_last_gen c p :
  (last_seg c <> "" \/ c = []) -> last_seg (resolve c p) <> "" \/ resolve c p = [].
Proof.
  intros Hc. unfold resolve, norm_segs. destruct (is_abs p); [apply keep_last_nonempty|].
  destruct (keep_last_nonempty (segs_of p)) as [H|H].
  - left. rewrite last_seg_app_ne; auto. intros X. rewrite X in H. now apply H.
  - rewrite H, app_nil_r. exact Hc.
Qed.

Lemma enter_last T cwd c : enter T cwd = Some c -> last_seg c <> "" \/ c = [].
Proof.
  unfold enter. destruct (is_group _); [|discriminate]. intros H. inversion H. apply resolve_last.
Qed.

Lemma restr_fold_unlink pr : forall l T, Restr T (fold_left (unlink1 pr) l T).
Proof.
  induction l as [|o l IH]; intros T; cbn [fold_left]; [apply restr_refl|].
  eapply restr_trans; [apply restr_unreg|]. apply IH.
Qed.

Lemma restr_unlink_region T pr region : Restr T (unlink_region T pr region).
Proof. rewrite unlink_region_eq. apply restr_fold_unlink. Qed.

Lemma delete_raw E st q :
  SyncRaw E (raw st) (next_id st) (prov st) -> has_reserved q = false ->
  (last_seg q <> "" \/ q = []) ->
  SyncRaw E (raw (fst (c_delete st q))) (next_id (fst (c_delete st q))) (prov (fst (c_delete st q))).
Proof.
  intros S Uq Lq. unfold c_delete.
  destruct (t_get (raw st) q) as [[[|v] a]|] eqn:G.
  - (* group *)
    apply raw_lift; auto. intros T' H. unfold u_delete in H. destruct q as [|x q']; [discriminate|].
    destruct (t_has _ (x :: q')); [|discriminate]. inversion H; subst.
    apply delete_group_raw; auto; [discriminate|now rewrite G].
  - (* dataset *)
    apply raw_lift; auto. intros T' H. unfold u_delete in H. destruct q as [|x q']; [discriminate|].
    destruct (t_has _ (x :: q')); [|discriminate]. inversion H; subst.
    apply delete_data_raw; auto; [discriminate| |now rewrite G].
    destruct Lq as [Lq|Lq]; [exact Lq|discriminate].
  - (* absent: refused *)
    apply raw_lift; auto. intros T' H. exfalso. unfold u_delete in H.
    destruct q as [|x q']; [discriminate|].
    destruct (t_has (unlink_region (raw st) (prov st) (x :: q')) (x :: q')) eqn:X; [|discriminate].
    pose proof (restr_unlink_region (raw st) (prov st) (x :: q')) as R.
    unfold t_has in X.
    destruct (t_get (unlink_region (raw st) (prov st) (x :: q')) (x :: q')) as [o|] eqn:Y;
      [|discriminate].
    apply (proj1 R) in Y. congruence.
Qed.

Lemma raw_step_delete E st cwd p : Sync E st -> RawStep E st (CDelete cwd p).
Proof.
  intros S. unfold RawStep, c_step, c_step_gen.
  destruct (guard cwd) eqn:Gc; [apply (raw_of_sync _ _ S)|].
  destruct (enter (raw (cs st)) cwd) as [c|] eqn:En; [|apply (raw_of_sync _ _ S)].
  destruct (guard p) eqn:Gp; [apply (raw_of_sync _ _ S)|].
  apply delete_raw.
  - apply (raw_of_sync _ _ S).
  - apply resolve_user; auto. apply (enter_user _ cwd c Gc En).
  - apply resolve_last_gen. apply (enter_last _ cwd c En).
Qed.

(** ** The step theorem, assembled *)

Definition is_heavy (o : sop) : bool :=
  match o with
  | SOp (CMove _ _ _) | SOp (CCopy _ _ _ _) | SOp (CCopyInto _ _ _ _ _) => true
  | _ => false
  end.

Lemma raw_step_light E st co :
  env_ok E = true -> Sync E st -> is_heavy (SOp co) = false ->
  (forall node schema pkg v, co <> CAttach node schema pkg v) -> RawStep E st co.
Proof.
  intros EO S H NA. destruct co; try discriminate.
  - now apply raw_step_create_group.
  - now apply raw_step_require_group.
  - now apply raw_step_create_dataset.
  - now apply raw_step_require_dataset.
  - now apply raw_step_setitem.
  - now apply raw_step_delete.
  - now apply raw_step_attr_set.
  - now apply raw_step_attr_del.
  - apply raw_step_same; auto. apply c_get_same.
  - exfalso. eapply NA. reflexivity.
  - now apply raw_step_detach.
Qed.

Lemma sync_step_light E st o :
  env_ok E = true -> Sync E st -> is_heavy o = false -> Sync E (fst (s_step E st o)).
Proof.
  intros EO S H. destruct o as [co|node schema v valid|r|].
  - destruct co; try (apply sync_sop; auto; try discriminate; apply raw_step_light; auto; discriminate).
    unfold s_step, s_step_gen. now apply sync_attach.
  - unfold s_step, s_step_gen. now apply sync_attach.
  - now apply sync_reopen.
  - exact S.
Qed.

(** Delete, move and copy: the file part is shown separately ([RawStep]); given it, the
    whole state is in sync again.  Refused calls always satisfy it. *)
Lemma sync_step_heavy E st co :
  env_ok E = true -> Sync E st -> is_heavy (SOp co) = true -> RawStep E st co ->
  Sync E (fst (s_step E st (SOp co))).
Proof. intros EO S H R. apply sync_sop; auto. intros ? ? ? ? ->. discriminate. Qed.

Lemma c_attach_refused c n schema pkg v :
  refused (snd (c_attach c n schema pkg v)) = true -> fst (c_attach c n schema pkg v) = c.
Proof.
  unfold c_attach. destruct (t_get (raw c) n); simpl; auto.
  destruct (existsb _ _); simpl; auto. discriminate.
Qed.

Lemma s_attach_refused E st node schema v valid :
  refused (snd (s_attach true E st node schema v valid)) = true ->
  cs (fst (s_attach true E st node schema v valid)) = cs st.
Proof.
  unfold s_attach. destruct (guard node); simpl; auto. destruct (ro st); simpl; auto.
  destruct (t_get _ _); simpl; auto. destruct (has_obj_of _ _ _); simpl; auto.
  destruct (lookup_decl E schema) as [d|]; simpl; auto. destruct (d_aux d); simpl; auto.
  destruct valid; simpl; auto. destruct (export_fails _ d); simpl; auto.
  pose proof (c_attach_refused (cs st) (resolve [] node) schema (d_pkg d) v) as X.
  destruct (c_attach _ _ _ _ _) as [c' r]. simpl in *. auto.
Qed.

Lemma s_step_refused_same E st o :
  refused (snd (s_step E st o)) = true -> cs (fst (s_step E st o)) = cs st.
Proof.
  destruct o as [co|node schema v valid|r|]; try (simpl; discriminate).
  - destruct co; try apply s_attach_refused;
      (unfold s_step, s_step_gen; destruct (ro st && _); [simpl; auto|];
       match goal with |- context [c_step ?c ?o] =>
         pose proof (c_step_refused c o) as X; destruct (c_step c o) as [c' r]; simpl in *; auto end).
  - apply s_attach_refused.
Qed.

(** ** Histories *)

Fixpoint raw_steps_ok (E : env) (st : sstate) (ops : list sop) : Prop :=
  match ops with
  | [] => True
  | o :: r =>
      match o with
      | SOp co => is_heavy o = true -> RawStep E st co
      | _ => True
      end /\ raw_steps_ok E (fst (s_step E st o)) r
  end.

Lemma sync_step_any E st o :
  env_ok E = true -> Sync E st ->
  match o with SOp co => is_heavy o = true -> RawStep E st co | _ => True end ->
  Sync E (fst (s_step E st o)).
Proof.
  intros EO S H. destruct (is_heavy o) eqn:Hv.
  - destruct o as [co| | |]; try discriminate. apply sync_step_heavy; auto.
  - now apply sync_step_light.
Qed.

Lemma sync_run E : forall ops st,
  env_ok E = true -> Sync E st -> raw_steps_ok E st ops -> Sync E (s_run E st ops).
Proof.
  induction ops as [|o ops IH]; intros st EO S H; simpl; auto.
  destruct H as [H1 H2]. apply IH; auto. now apply sync_step_any.
Qed.

Lemma light_steps_ok E : forall ops st,
  forallb (fun o => negb (is_heavy o)) ops = true -> raw_steps_ok E st ops.
Proof.
  induction ops as [|o ops IH]; intros st H; simpl; auto. simpl in H.
  apply andb_prop in H as [H1 H2]. apply negb_true_iff in H1. split; auto.
  destruct o; auto. intros X. congruence.
Qed.

Lemma sync_run_light E ops :
  env_ok E = true -> forallb (fun o => negb (is_heavy o)) ops = true ->
  Sync E (s_run E init_ss ops).
Proof. intros EO H. apply sync_run; auto. apply sync_init. now apply light_steps_ok. Qed.

(** The file part can be discharged by running the checker. *)
Lemma raw_step_checked E st co :
  (let c' := fst (c_step (cs st) co) in syncb_raw E (raw c') (next_id c') (prov c') = true) ->
  RawStep E st co.
Proof. intros H. apply syncb_raw_sound. exact H. Qed.

(** ** Witnesses *)

Definition E0 : env :=
  [mkdecl "c06.aa__0.1.0" "c06-pkg__0.1.0" ["c06.aa__0.1.0"] false 0;
   mkdecl "c06.bb__0.1.0" "c06-pkg__0.1.0" ["c06.aa__0.1.0"; "c06.bb__0.1.0"] false 0;
   mkdecl "c06.cc__0.1.0" "c06-pkg__0.1.0"
          ["c06.aa__0.1.0"; "c06.bb__0.1.0"; "c06.cc__0.1.0"] false 0;
   mkdecl "c06.ff__0.1.0" "c06-pkg__0.1.0" ["c06.ff__0.1.0"] false 1;
   mkdecl "c06.pp__0.1.0" "c06-pkg__0.1.0" ["c06.pp__0.1.0"] false 2].

Lemma E0_ok : env_ok E0 = true.
Proof. vm_compute. reflexivity. Qed.

Definition ops_chain : list sop :=
  [SOp (CSetItem "/" "x" "1"); SOp (CSetItem "/" "y" "2");
   SAttach "/x" "c06.bb__0.1.0" "0" true; SAttach "/y" "c06.cc__0.1.0" "0" true;
   SOp (CDetach "/x" "c06.bb__0.1.0")].

(** Non-vacuity: a reachable state that is in sync and does carry metadata. *)
Lemma example_in_sync :
  Sync E0 (s_run E0 init_ss ops_chain) /\
  t_has (raw (cs (s_run E0 init_ss ops_chain))) (link_path "c06.cc__0.1.0" "u1") = true.
Proof. split; [apply sync_run_light; reflexivity|vm_compute; reflexivity]. Qed.

(** A history with delete, move and copy, the file part discharged by the checker. *)
Definition ops_heavy : list sop :=
  [SOp (CCreateGroup "/" "g"); SOp (CSetItem "/" "g/x" "1");
   SAttach "/g/x" "c06.bb__0.1.0" "0" true; SAttach "/g" "c06.aa__0.1.0" "1" true;
   SOp (CCopy "/" "g" "h" false); SOp (CMove "/" "g/x" "z"); SOp (CCopy "/" "h" "k" true);
   SOp (CCopy "/" "z" "z2" false); SOp (CDelete "/" "g"); SOp (CDelete "/" "z"); SReopen false].

Lemma example_heavy_in_sync : Sync E0 (s_run E0 init_ss ops_heavy).
Proof.
  apply sync_run; [reflexivity|apply sync_init|].
  repeat (split; [try exact I; try (intros _; apply raw_step_checked; vm_compute; reflexivity);
                  try discriminate|]).
  exact I.
Qed.

(** Pinned [_set_raw]: the object is stored before [register]; a failing export leaves an
    object no link points at. *)
Lemma attach_pinned_refuted :
  exists E st o, env_ok E = true /\ Sync E st /\ ~ Sync E (fst (s_step_pinned E st o)).
Proof.
  exists E0, init_ss, (SAttach "/" "c06.ff__0.1.0" "0" true). split; [reflexivity|].
  split; [apply sync_init|]. intros H.
  pose proof (sy_tocok _ _ H (link_path "c06.ff__0.1.0" "u0") eq_refl) as X.
  vm_compute in X. discriminate.
Qed.

Definition s_run_pinned (E : env) (st : sstate) (ops : list sop) : sstate :=
  fold_left (fun st o => fst (s_step_pinned E st o)) ops st.

(** Pinned [_update_parents_children(ref, None)]: the children set of a parent that is not
    itself in use keeps the removed schema; the rebuilt index does not have it. *)
Lemma children_pinned_refuted :
  exists E ops, env_ok E = true /\
    ~ ix_same (load E (raw (cs (s_run_pinned E init_ss ops)))) (mem (s_run_pinned E init_ss ops)).
Proof.
  exists E0, ops_chain. split; [reflexivity|]. intros H.
  pose proof (ixs_cvals _ _ H "c06.aa__0.1.0" "c06.bb__0.1.0") as X.
  vm_compute in X. destruct X as [_ X].
  destruct X as [X|[]]; [left; reflexivity|discriminate].
Qed.

(** Pinned [_unregister]: the [_used] entry of a removed package stays. *)
Lemma used_pinned_refuted :
  exists E ops, env_ok E = true /\
    ~ ix_same (load E (raw (cs (s_run_pinned E init_ss ops)))) (mem (s_run_pinned E init_ss ops)).
Proof.
  exists E0, [SOp (CSetItem "/" "x" "1"); SAttach "/x" "c06.cc__0.1.0" "0" true;
              SOp (CDetach "/x" "c06.cc__0.1.0")].
  split; [reflexivity|]. intros H.
  pose proof (ixs_ukeys _ _ H "c06-pkg__0.1.0") as X. vm_compute in X. discriminate.
Qed.

(** The repaired rules pass on the same histories. *)
Lemma chain_fixed_same :
  ix_same (load E0 (raw (cs (s_run E0 init_ss ops_chain)))) (mem (s_run E0 init_ss ops_chain)).
Proof. apply reopen_same; [reflexivity|]. apply sync_run_light; reflexivity. Qed.

Lemma sync_step_refused E st o :
  env_ok E = true -> Sync E st -> refused (snd (s_step E st o)) = true ->
  Sync E (fst (s_step E st o)) /\ raw (cs (fst (s_step E st o))) = raw (cs st).
Proof.
  intros EO S H. split; [|now rewrite (s_step_refused_same E st o H)].
  destruct (is_heavy o) eqn:Hv; [|now apply sync_step_light].
  destruct o as [co| | |]; try discriminate.
  destruct co; try discriminate; unfold s_step, s_step_gen in *;
    (destruct (ro st && _); [exact S|];
     match goal with
     | |- context [c_step ?c ?o] =>
         pose proof (raw_step_refused E st o S) as R; unfold RawStep in R;
         destruct (c_step c o) as [c' r]; simpl in *; apply sync_track; auto
     end).
Qed.

(** ** What [Sync] says, clause by clause *)

Section Characterisation.
  Variables (E : env) (st : sstate).
  Hypothesis S : Sync E st.
  Let T := raw (cs st).

  Lemma ch_raw : SyncRaw E T (next_id (cs st)) (prov (cs st)).
  Proof. apply (raw_of_sync E st S). Qed.

  (** every attached object has its link, holding the object's path *)
  Lemma ch_obj_link q :
    In q (objs T) ->
    exists a, t_get T (link_path (sch q) (uid q)) = Some (mkobj (KData (name_of q)) a).
  Proof.
    intros I. pose proof (sr_tocok _ _ _ _ ch_raw (link_path (sch q) (uid q)) eq_refl) as X.
    fold T in X. rewrite spec_link in X.
    destruct (find _ (objs T)) as [q'|] eqn:F.
    - apply find_some in F as [F1 F2]. apply andb_prop in F2 as [_ F2]. apply String.eqb_eq in F2.
      assert (q' = q) by (apply (sraw_uniq _ _ _ _ ch_raw); auto). subst q'.
      destruct (t_get T _) as [[[|v] a]|]; simpl in X; try discriminate.
      apply String.eqb_eq in X. subst. eauto.
    - apply (find_none _ _ F) in I. now rewrite !String.eqb_refl in I.
  Qed.

  (** every link points at an existing object of that schema and uuid *)
  Lemma ch_link_obj s u :
    t_has T (link_path s u) = true ->
    exists q a, In q (objs T) /\ sch q = s /\ uid q = u /\
                t_get T (link_path s u) = Some (mkobj (KData (name_of q)) a).
  Proof.
    intros H. apply (has_link E (objs T) T s u (br_toc _ _ _ _ ch_raw)) in H as (q & I & <- & <-).
    destruct (ch_obj_link q I) as (a & G). exists q, a. auto.
  Qed.

  (** no two objects share a uuid *)
  Lemma ch_uuid_unique q1 q2 : In q1 (objs T) -> In q2 (objs T) -> uid q1 = uid q2 -> q1 = q2.
  Proof. apply (sraw_uniq _ _ _ _ ch_raw). Qed.

  (** schema and package records exist exactly for the schemas in use *)
  Lemma ch_schema s :
    t_has T (schema_path s) = true <-> exists q, In q (objs T) /\ sch q = s.
  Proof. rewrite (has_schema E (objs T) T s (br_toc _ _ _ _ ch_raw)). apply uses_iff. Qed.

  Lemma ch_schema_complete s :
    t_has T (schema_path s) = true ->
    t_has T (schema_path s ++ ["jsonschema.json"]) = true /\
    t_has T (schema_path s ++ ["compat"]) = true /\
    t_has T (linkgrp_path s) = true /\ t_has T (package_path (pkg_of E s)) = true.
  Proof.
    pose proof (br_toc _ _ _ _ ch_raw) as TO. fold T in TO.
    rewrite (has_schema E _ T s TO), (has_json E _ T s TO), (has_compat E _ T s TO),
      (has_linkgrp E _ T s TO), (has_package E _ T _ TO).
    intros U. repeat split; auto. apply uses_iff in U as (q & I & <-). apply needs_iff. eauto.
  Qed.

  Lemma ch_package p :
    t_has T (package_path p) = true <-> exists q, In q (objs T) /\ pkg_of E (sch q) = p.
  Proof. rewrite (has_package E (objs T) T p (br_toc _ _ _ _ ch_raw)). apply needs_iff. Qed.

  (** no empty bookkeeping groups *)
  Lemma ch_dirs_nonempty :
    (t_has T links_segs = true -> objs T <> []) /\
    (t_has T schemas_segs = true -> objs T <> []) /\
    (t_has T packages_segs = true -> objs T <> []) /\
    (forall s, t_has T (linkgrp_path s) = true -> exists u, t_has T (link_path s u) = true).
  Proof.
    pose proof (br_toc _ _ _ _ ch_raw) as TO. fold T in TO.
    destruct (spec_dirs E (objs T)) as (D1 & D2 & D3).
    repeat split.
    - rewrite (tocok_has E _ T links_segs TO eq_refl), D1. destruct (objs T); discriminate.
    - rewrite (tocok_has E _ T schemas_segs TO eq_refl), D2. destruct (objs T); discriminate.
    - rewrite (tocok_has E _ T packages_segs TO eq_refl), D3. destruct (objs T); discriminate.
    - intros s. rewrite (has_linkgrp E _ T s TO). intros U. apply uses_iff in U as (q & I & <-).
      exists (uid q). apply (has_link E _ T _ _ TO). eauto.
  Qed.

  Lemma ch_meta_dir d m x :
    has_reserved d = false -> meta_seg m = true -> t_get T (d ++ [m]) = Some x ->
    owner_ok T d m = true /\ has_children T (d ++ [m]) = true.
  Proof.
    intros Hd Hm G. pose proof (sr_entries _ _ _ _ ch_raw _ _ G) as C. unfold chk_entry in C.
    apply andb_prop in C as [_ C]. rewrite (classify_dir d m Hd Hm) in C.
    apply andb_prop in C as [C C3]. apply andb_prop in C as [_ C2]. auto.
  Qed.
End Characterisation.

