(** * Lemmas about [Toc/Sync.v] (property C06). *)
From Coq Require Import List String Ascii Bool Arith NArith Lia DecimalString DecimalN DecimalPos.
From MV Require Import Base.Sx Toc.Layout Toc.LayoutProofs Toc.UserView Toc.UserViewProofs Toc.Sync.
Import ListNotations.
Local Open Scope string_scope.
Local Open Scope list_scope.
Local Arguments meta_dir_of : simpl never.
Local Arguments String.eqb : simpl never.

(** ** Lookups in association-list trees *)

Lemma find_filter {X} (f g : X -> bool) l :
  find f (filter g l) = find (fun x => g x && f x) l.
Proof.
  induction l as [|x l IH]; simpl; auto.
  destruct (g x) eqn:G; simpl; auto. destruct (f x); auto.
Qed.

Lemma find_ext {X} (f g : X -> bool) l : (forall x, f x = g x) -> find f l = find g l.
Proof. intros H. induction l; simpl; auto. now rewrite H, IHl. Qed.

Lemma find_none_all {X} (f : X -> bool) l : (forall x, In x l -> f x = false) -> find f l = None.
Proof.
  induction l; simpl; auto. intros H. rewrite (H a) by auto. apply IHl. auto.
Qed.

Lemma t_get_app A B p :
  t_get (A ++ B) p = match t_get A p with Some o => Some o | None => t_get B p end.
Proof.
  unfold t_get. induction A as [|e A IH]; simpl; auto.
  destruct (path_eqb (fst e) p); auto.
Qed.

Lemma t_get_single q o p : t_get [(q, o)] p = if path_eqb q p then Some o else None.
Proof. unfold t_get. simpl. destruct (path_eqb q p); auto. Qed.

Lemma t_get_put T q o p :
  t_get (t_put T q o) p =
  match t_get T p with Some x => Some x | None => if path_eqb q p then Some o else None end.
Proof. unfold t_put. now rewrite t_get_app, t_get_single. Qed.

Lemma t_get_filter_key (f : path -> bool) T p :
  t_get (filter (fun e => f (fst e)) T) p = if f p then t_get T p else None.
Proof.
  unfold t_get. rewrite find_filter.
  destruct (f p) eqn:F.
  - erewrite find_ext; [reflexivity|]. intros x. simpl.
    destruct (path_eqb (fst x) p) eqn:E; [|now rewrite andb_false_r].
    apply path_eqb_eq in E. now rewrite E, F.
  - rewrite find_none_all; auto. intros x _.
    destruct (path_eqb (fst x) p) eqn:E; [|now rewrite andb_false_r].
    apply path_eqb_eq in E. now rewrite E, F.
Qed.

Lemma t_get_cut q T p : t_get (t_cut q T) p = if is_prefix q p then None else t_get T p.
Proof.
  unfold t_cut. rewrite (t_get_filter_key (fun k => negb (is_prefix q k))).
  now destruct (is_prefix q p).
Qed.

Lemma t_get_sub q T p : t_get (t_sub q T) p = if is_prefix q p then t_get T p else None.
Proof. unfold t_sub. now rewrite (t_get_filter_key (fun k => is_prefix q k)). Qed.

Lemma t_get_upd T q f p :
  t_get (t_upd T q f) p = if path_eqb p q then option_map f (t_get T p) else t_get T p.
Proof.
  unfold t_get, t_upd. induction T as [|e T IH]; simpl.
  - now destruct (path_eqb p q).
  - destruct (path_eqb (fst e) q) eqn:E1; simpl.
    + destruct (path_eqb (fst e) p) eqn:E2.
      * apply path_eqb_eq in E1, E2. subst. now rewrite path_eqb_refl.
      * apply IH.
    + destruct (path_eqb (fst e) p) eqn:E2.
      * apply path_eqb_eq in E2. subst. now rewrite E1.
      * apply IH.
Qed.

Lemma t_get_in T p o : t_get T p = Some o -> In (p, o) T.
Proof.
  unfold t_get. destruct (find (fun e => path_eqb (fst e) p) T) as [e|] eqn:F; [|discriminate].
  intros H. inversion H; subst. apply find_some in F as [F1 F2].
  apply path_eqb_eq in F2. subst. now destruct e.
Qed.

Lemma in_t_has T e : In e T -> t_has T (fst e) = true.
Proof.
  intros H. unfold t_has, t_get.
  destruct (find (fun e0 => path_eqb (fst e0) (fst e)) T) eqn:F; auto.
  eapply find_none in F; eauto. now rewrite path_eqb_refl in F.
Qed.

Lemma t_has_in T p : t_has T p = true -> In p (map fst T).
Proof.
  unfold t_has. destruct (t_get T p) eqn:G; [|discriminate]. intros _.
  apply t_get_in in G. now apply (in_map fst) in G.
Qed.

Lemma in_keys_t_has T p : In p (map fst T) -> t_has T p = true.
Proof. intros H. apply in_map_iff in H as (e & <- & H). now apply in_t_has. Qed.

Lemma t_has_keys T p : t_has T p = true <-> In p (map fst T).
Proof. split; [apply t_has_in|apply in_keys_t_has]. Qed.

Lemma t_get_nodup_in T p o : NoDup (map fst T) -> In (p, o) T -> t_get T p = Some o.
Proof.
  unfold t_get. induction T as [|e T IH]; simpl; [tauto|]. intros ND [H|H].
  - subst. simpl. now rewrite path_eqb_refl.
  - inversion ND; subst. destruct (path_eqb (fst e) p) eqn:E.
    + apply path_eqb_eq in E. subst. exfalso. apply H2. now apply (in_map fst) in H.
    + now apply IH.
Qed.

Lemma t_has_put T q o p : t_has (t_put T q o) p = t_has T p || path_eqb q p.
Proof.
  unfold t_has. rewrite t_get_put. destruct (t_get T p); auto. now destruct (path_eqb q p).
Qed.

Lemma t_has_cut q T p : t_has (t_cut q T) p = negb (is_prefix q p) && t_has T p.
Proof. unfold t_has. rewrite t_get_cut. now destruct (is_prefix q p). Qed.

Lemma t_has_upd T q f p : t_has (t_upd T q f) p = t_has T p.
Proof.
  unfold t_has. rewrite t_get_upd. destruct (path_eqb p q); auto. now destruct (t_get T p).
Qed.

Lemma has_children_iff T c :
  has_children T c = true <-> exists p, is_child c p = true /\ t_has T p = true.
Proof.
  unfold has_children. rewrite existsb_exists. split.
  - intros (e & H1 & H2). exists (fst e). split; auto. now apply in_t_has.
  - intros (p & H1 & H2). apply t_has_in in H2. apply in_map_iff in H2 as (e & <- & H2).
    eauto.
Qed.

Lemma has_children_false T c :
  has_children T c = false <-> forall p, is_child c p = true -> t_has T p = false.
Proof.
  split.
  - intros H p C. destruct (t_has T p) eqn:P; auto.
    assert (has_children T c = true) by (apply has_children_iff; eauto). congruence.
  - intros H. destruct (has_children T c) eqn:C; auto.
    apply has_children_iff in C as (p & C & P). rewrite (H p C) in P. discriminate.
Qed.

(** Keys. *)
Lemma keys_put T q o : map fst (t_put T q o) = map fst T ++ [q].
Proof. unfold t_put. now rewrite map_app. Qed.

Lemma keys_cut q T : map fst (t_cut q T) = filter (fun p => negb (is_prefix q p)) (map fst T).
Proof. unfold t_cut. induction T; simpl; auto. destruct (is_prefix q (fst a)); simpl; now rewrite IHT. Qed.

Lemma keys_upd T q f : map fst (t_upd T q f) = map fst T.
Proof.
  unfold t_upd. induction T; simpl; auto. rewrite IHT. now destruct (path_eqb (fst a) q).
Qed.

Lemma NoDup_snoc {X} (l : list X) x : NoDup l -> ~ In x l -> NoDup (l ++ [x]).
Proof.
  induction l as [|y l IH]; simpl; intros ND H.
  - constructor; auto.
  - inversion ND; subst. constructor.
    + rewrite in_app_iff. simpl. intros [I|[I|[]]]; auto.
    + apply IH; auto.
Qed.

Lemma nodup_put T q o : NoDup (map fst T) -> t_has T q = false -> NoDup (map fst (t_put T q o)).
Proof.
  intros ND H. rewrite keys_put. apply NoDup_snoc; auto.
  intros I. apply in_keys_t_has in I. congruence.
Qed.

Lemma nodup_cut q T : NoDup (map fst T) -> NoDup (map fst (t_cut q T)).
Proof. intros ND. rewrite keys_cut. now apply NoDup_filter. Qed.

Lemma nodup_upd T q f : NoDup (map fst T) -> NoDup (map fst (t_upd T q f)).
Proof. now rewrite keys_upd. Qed.

(** ** Classification of paths *)

Lemma reserved_toc : reserved_seg toc_seg = true.
Proof. reflexivity. Qed.
Lemma meta_toc : meta_seg toc_seg = false.
Proof. reflexivity. Qed.

Lemma classify_toc_eq r : classify (toc_seg :: r) = classify_toc r.
Proof. reflexivity. Qed.

Lemma in_toc_inv p : in_toc p = true -> exists r, p = toc_seg :: r.
Proof.
  destruct p as [|t r]; simpl; [discriminate|]. intros H. apply String.eqb_eq in H. subst. eauto.
Qed.

Lemma in_toc_cons r : in_toc (toc_seg :: r) = true.
Proof. reflexivity. Qed.

Ltac eqb_cases :=
  repeat match goal with
         | |- context [String.eqb ?a ?b] =>
             let E := fresh "E" in destruct (String.eqb a b) eqn:E;
             [apply String.eqb_eq in E; subst|]
         end.

Lemma classify_toc_inv r :
  match classify_toc r with
  | PToc => r = []
  | PVersion => r = ["version"] | PUuid => r = ["uuid"]
  | PLinks => r = ["links"] | PSchemas => r = ["schemas"] | PPackages => r = ["packages"]
  | PLinkGrp s => r = ["links"; s] | PSchema s => r = ["schemas"; s]
  | PPackage s => r = ["packages"; s]
  | PLink s u => r = ["links"; s; u]
  | PSchemaJson s => r = ["schemas"; s; "jsonschema.json"]
  | PSchemaCompat s => r = ["schemas"; s; "compat"]
  | PBad => True
  | _ => False
  end.
Proof.
  destruct r as [|x [|s [|y [|z r]]]]; simpl; auto; eqb_cases; auto.
Qed.

Lemma classify_link s u : classify (link_path s u) = PLink s u.
Proof. reflexivity. Qed.
Lemma classify_linkgrp s : classify (linkgrp_path s) = PLinkGrp s.
Proof. reflexivity. Qed.
Lemma classify_schema s : classify (schema_path s) = PSchema s.
Proof. reflexivity. Qed.
Lemma classify_json s : classify (schema_path s ++ ["jsonschema.json"]) = PSchemaJson s.
Proof. reflexivity. Qed.
Lemma classify_compat s : classify (schema_path s ++ ["compat"]) = PSchemaCompat s.
Proof. reflexivity. Qed.
Lemma classify_package s : classify (package_path s) = PPackage s.
Proof. reflexivity. Qed.

Lemma split_res_app d b :
  has_reserved d = false ->
  split_res (d ++ b) = (d ++ fst (split_res b), snd (split_res b)).
Proof.
  induction d as [|x d IH]; simpl; intros H.
  - now destruct (split_res b).
  - apply orb_false_iff in H as [H1 H2]. rewrite H1, (IH H2). reflexivity.
Qed.

Lemma split_res_spec p :
  p = fst (split_res p) ++ snd (split_res p) /\
  has_reserved (fst (split_res p)) = false /\
  match snd (split_res p) with [] => True | x :: _ => reserved_seg x = true end.
Proof.
  induction p as [|x p IH]; simpl; auto.
  destruct (reserved_seg x) eqn:R; simpl; auto.
  destruct (split_res p) as [a b]. simpl in *. destruct IH as (I1 & I2 & I3).
  rewrite R, I2. repeat split; auto. now f_equal.
Qed.

Lemma split_res_user p : has_reserved p = false -> split_res p = (p, []).
Proof.
  induction p as [|x p IH]; simpl; auto. intros H. apply orb_false_iff in H as [H1 H2].
  now rewrite H1, (IH H2).
Qed.

Lemma classify_user p : has_reserved p = false -> classify p = PUser.
Proof. intros H. unfold classify. rewrite (split_res_user p H). now destruct p. Qed.

Lemma split_res_none p : snd (split_res p) = [] -> has_reserved p = false.
Proof.
  intros H. destruct (split_res_spec p) as (S1 & S2 & _). rewrite H, app_nil_r in S1.
  now rewrite S1 at 1.
Qed.

Lemma classify_user_inv p : classify p = PUser -> has_reserved p = false.
Proof.
  unfold classify. destruct (split_res p) as [a b] eqn:S. intros H.
  apply split_res_none. rewrite S. simpl.
  destruct b as [|t r]; auto. exfalso.
  destruct a as [|x a].
  - destruct (String.eqb t toc_seg) eqn:Et.
    + pose proof (classify_toc_inv r) as C. rewrite H in C. exact C.
    + destruct (meta_seg t); [|discriminate]. destruct r as [|nm [|? ?]]; try discriminate.
      destruct (reserved_seg nm); discriminate.
  - destruct r as [|nm [|? ?]]; try discriminate.
    + destruct (meta_seg t); discriminate.
    + destruct (meta_seg t && negb (reserved_seg nm)); discriminate.
Qed.

Lemma meta_not_toc m : meta_seg m = true -> String.eqb m toc_seg = false.
Proof.
  intros H. destruct (String.eqb m toc_seg) eqn:E; auto. apply String.eqb_eq in E. subst.
  now rewrite meta_toc in H.
Qed.

Lemma classify_dir d m :
  has_reserved d = false -> meta_seg m = true -> classify (d ++ [m]) = PMetaDir d m.
Proof.
  intros Hd Hm. unfold classify. rewrite (split_res_app d [m] Hd). simpl.
  rewrite (meta_seg_reserved m Hm). simpl. rewrite app_nil_r.
  destruct d; simpl; rewrite ?(meta_not_toc m Hm), Hm; reflexivity.
Qed.

Lemma classify_obj d m nm :
  has_reserved d = false -> meta_seg m = true -> reserved_seg nm = false ->
  classify (d ++ [m; nm]) = PMetaObj d m nm.
Proof.
  intros Hd Hm Hn. unfold classify. rewrite (split_res_app d [m; nm] Hd). simpl.
  rewrite (meta_seg_reserved m Hm). simpl. rewrite app_nil_r.
  destruct d; simpl; rewrite ?(meta_not_toc m Hm), Hm, Hn; reflexivity.
Qed.

Lemma classify_obj_inv p d m nm :
  classify p = PMetaObj d m nm ->
  p = d ++ [m; nm] /\ has_reserved d = false /\ meta_seg m = true /\ reserved_seg nm = false.
Proof.
  unfold classify. destruct (split_res_spec p) as (S1 & S2 & S3).
  destruct (split_res p) as [a b]. simpl in *. intros H.
  destruct b as [|t r]; [destruct a; discriminate|].
  destruct a as [|x a].
  - destruct (String.eqb t toc_seg) eqn:Et.
    + pose proof (classify_toc_inv r) as C. rewrite H in C. destruct C.
    + destruct (meta_seg t) eqn:Mt; [|discriminate]. destruct r as [|n0 [|? ?]]; try discriminate.
      destruct (reserved_seg n0) eqn:Rn; [discriminate|]. inversion H; subst. auto.
  - destruct r as [|n0 [|? ?]]; try discriminate.
    + destruct (meta_seg t); discriminate.
    + destruct (meta_seg t) eqn:Mt; [|discriminate].
      destruct (reserved_seg n0) eqn:Rn; [discriminate|]. simpl in H. inversion H; subst. auto.
Qed.

Lemma classify_dir_inv p d m :
  classify p = PMetaDir d m -> p = d ++ [m] /\ has_reserved d = false /\ meta_seg m = true.
Proof.
  unfold classify. destruct (split_res_spec p) as (S1 & S2 & S3).
  destruct (split_res p) as [a b]. simpl in *. intros H.
  destruct b as [|t r]; [destruct a; discriminate|].
  destruct a as [|x a].
  - destruct (String.eqb t toc_seg) eqn:Et.
    + pose proof (classify_toc_inv r) as C. rewrite H in C. destruct C.
    + destruct (meta_seg t) eqn:Mt; [|discriminate]. destruct r as [|n0 [|? ?]]; try discriminate.
      * inversion H; subst. auto.
      * destruct (reserved_seg n0); discriminate.
  - destruct r as [|n0 [|? ?]]; try discriminate.
    + destruct (meta_seg t) eqn:Mt; [|discriminate]. inversion H; subst. auto.
    + destruct (meta_seg t && negb (reserved_seg n0)); discriminate.
Qed.

Lemma in_toc_reserved p : in_toc p = true -> has_reserved p = true.
Proof. intros H. apply in_toc_inv in H as (r & ->). reflexivity. Qed.

Lemma obj_not_toc p : is_obj_path p = true -> in_toc p = false.
Proof.
  unfold is_obj_path. destruct (classify p) eqn:C; try discriminate. intros _.
  destruct (in_toc p) eqn:T; auto. apply in_toc_inv in T as (r & ->).
  rewrite classify_toc_eq in C. pose proof (classify_toc_inv r) as I. rewrite C in I. destruct I.
Qed.

Lemma toc_not_obj r : is_obj_path (toc_seg :: r) = false.
Proof.
  destruct (is_obj_path (toc_seg :: r)) eqn:O; auto. apply obj_not_toc in O.
  now rewrite in_toc_cons in O.
Qed.

(** ** Object sets *)

Lemma in_objs T q : In q (objs T) <-> t_has T q = true /\ is_obj_path q = true.
Proof.
  unfold objs. rewrite filter_In, t_has_keys. tauto.
Qed.

Lemma objs_put T q o :
  objs (t_put T q o) = objs T ++ (if is_obj_path q then [q] else []).
Proof. unfold objs. rewrite keys_put, filter_app. simpl. now destruct (is_obj_path q). Qed.

Lemma objs_upd T q f : objs (t_upd T q f) = objs T.
Proof. unfold objs. now rewrite keys_upd. Qed.

Lemma filter_filter {X} (f g : X -> bool) l :
  filter f (filter g l) = filter (fun x => g x && f x) l.
Proof.
  induction l as [|x l IH]; simpl; auto. destruct (g x) eqn:G; simpl; rewrite IH; auto.
Qed.

Lemma objs_cut q T : objs (t_cut q T) = filter (fun p => negb (is_prefix q p)) (objs T).
Proof.
  unfold objs. rewrite keys_cut, !filter_filter. apply filter_ext. intros a. apply andb_comm.
Qed.

Lemma objs_cut_toc r T : objs (t_cut (toc_seg :: r) T) = objs T.
Proof.
  rewrite objs_cut. unfold objs. rewrite filter_filter.
  apply filter_ext. intros p. destruct (is_obj_path p) eqn:O; auto. simpl.
  destruct p as [|t p']; auto. simpl. destruct (String.eqb toc_seg t) eqn:E; auto.
  apply String.eqb_eq in E. subst. now rewrite toc_not_obj in O.
Qed.

(** ** The checker is sound *)

Lemma nodup_paths_sound l : nodup_paths l = true -> NoDup l.
Proof.
  induction l as [|p l IH]; simpl; intros H; constructor.
  - apply andb_prop in H as [H _]. apply negb_true_iff in H. intros I.
    assert (existsb (path_eqb p) l = true); [|congruence].
    apply existsb_exists. exists p. split; auto. apply path_eqb_refl.
  - apply andb_prop in H as [_ H]. auto.
Qed.

Lemma uses_iff M s : uses M s = true <-> exists q, In q M /\ sch q = s.
Proof.
  unfold uses. rewrite existsb_exists. split; intros (q & H1 & H2); exists q; split; auto.
  - now apply String.eqb_eq.
  - now apply String.eqb_eq.
Qed.

Lemma toc_spec_expected E M p t :
  in_toc p = true -> toc_spec E M p = Some t -> In p (expected E M).
Proof.
  intros I. apply in_toc_inv in I as (r & ->). unfold toc_spec, expected.
  rewrite classify_toc_eq. pose proof (classify_toc_inv r) as C.
  destruct (classify_toc r) eqn:K; try discriminate; subst r; intros H.
  - simpl. auto.
  - simpl. auto.
  - simpl. auto.
  - destruct M; [discriminate|]. apply in_or_app. right. apply in_or_app. left. simpl. auto.
  - destruct (uses M s) eqn:U; [|discriminate]. apply uses_iff in U as (q & Q1 & Q2).
    apply in_or_app. right. apply in_or_app. right. apply in_flat_map. exists q. split; auto.
    subst. simpl. auto.
  - destruct (find _ M) as [q|] eqn:F; [|discriminate]. apply find_some in F as [F1 F2].
    apply andb_prop in F2 as [F2 F3]. apply String.eqb_eq in F2, F3. subst.
    apply in_or_app. right. apply in_or_app. right. apply in_flat_map. exists q. split; auto.
    simpl. auto.
  - destruct M; [discriminate|]. apply in_or_app. right. apply in_or_app. left. simpl. auto.
  - destruct (uses M s) eqn:U; [|discriminate]. apply uses_iff in U as (q & Q1 & Q2).
    apply in_or_app. right. apply in_or_app. right. apply in_flat_map. exists q. split; auto.
    subst. simpl. auto.
  - destruct (uses M s) eqn:U; [|discriminate]. apply uses_iff in U as (q & Q1 & Q2).
    apply in_or_app. right. apply in_or_app. right. apply in_flat_map. exists q. split; auto.
    subst. simpl. auto 6.
  - destruct (uses M s) eqn:U; [|discriminate]. apply uses_iff in U as (q & Q1 & Q2).
    apply in_or_app. right. apply in_or_app. right. apply in_flat_map. exists q. split; auto.
    subst. simpl. auto 6.
  - destruct M; [discriminate|]. apply in_or_app. right. apply in_or_app. left. simpl. auto.
  - destruct (existsb _ M) eqn:X; [|discriminate]. apply existsb_exists in X as (q & Q1 & Q2).
    apply String.eqb_eq in Q2. subst.
    apply in_or_app. right. apply in_or_app. right. apply in_flat_map. exists q. split; auto.
    simpl. auto 8.
Qed.

Record SyncRaw (E : env) (T : tree) (n : N) (pr : list (string * string)) : Prop := mk_sraw {
  sr_nodup : NoDup (map fst T);
  sr_root : is_group (t_get T []) = true;
  sr_entries : forall p o, t_get T p = Some o -> chk_entry E T n p o = true;
  sr_tocok : forall p, in_toc p = true -> sat (t_get T p) (toc_spec E (objs T) p) = true;
  sr_prov : forall q, In q (objs T) -> assoc pr (sch q) = pkg_of E (sch q)
}.

Lemma syncb_raw_sound E T n pr : syncb_raw E T n pr = true -> SyncRaw E T n pr.
Proof.
  unfold syncb_raw. intros H.
  repeat (apply andb_prop in H as [H ?]).
  constructor.
  - now apply nodup_paths_sound.
  - assumption.
  - intros p o G. apply t_get_in in G. rewrite forallb_forall in H3. apply (H3 (p, o) G).
  - intros p I. destruct (t_get T p) as [o|] eqn:G.
    + apply t_get_in in G. rewrite forallb_forall in H2. specialize (H2 (p, o) G). simpl in H2.
      now rewrite I in H2.
    + destruct (toc_spec E (objs T) p) as [t|] eqn:S; auto.
      pose proof (toc_spec_expected E _ p t I S) as X.
      rewrite forallb_forall in H1. specialize (H1 p X). now rewrite G, S in H1.
  - intros q I. rewrite forallb_forall in H0. apply String.eqb_eq. now apply H0.
Qed.

Lemma sync_of_raw E st :
  SyncRaw E (raw (cs st)) (next_id (cs st)) (prov (cs st)) -> IxOk E (raw (cs st)) (mem st) ->
  Sync E st.
Proof. intros [] ?. constructor; auto. Qed.

Lemma raw_of_sync E st : Sync E st -> SyncRaw E (raw (cs st)) (next_id (cs st)) (prov (cs st)).
Proof. intros []. constructor; auto. Qed.

(** ** The fresh container *)

Lemma sync_init E : Sync E init_ss.
Proof.
  apply sync_of_raw.
  - apply syncb_raw_sound. vm_compute. reflexivity.
  - constructor; simpl.
    + intros u s. split; [tauto|]. vm_compute. discriminate.
    + intros s. split; [tauto|]. vm_compute. discriminate.
    + intros p. split; [tauto|]. vm_compute. discriminate.
    + intros p. split; [discriminate|]. intros (s & [] & _).
    + discriminate.
    + tauto.
    + intros p c. split; [tauto|]. intros ([] & _).
    + intros p. split; [discriminate|tauto].
    + intros p s. split; [tauto|]. intros ([] & _).
Qed.

(** ** The TOC as a function of the attachment set *)

Definition TocOk (E : env) (M : list path) (T : tree) : Prop :=
  forall p, in_toc p = true -> sat (t_get T p) (toc_spec E M p) = true.
Definition rm (q : path) (M : list path) : list path :=
  filter (fun x => negb (path_eqb x q)) M.
Definition UidUniq (M : list path) : Prop :=
  forall q1 q2, In q1 M -> In q2 M -> uid q1 = uid q2 -> q1 = q2.
Definition ProvOk (E : env) (pr : list (string * string)) (M : list path) : Prop :=
  forall q, In q M -> assoc pr (sch q) = pkg_of E (sch q).
Definition isSome {X} (o : option X) : bool := match o with Some _ => true | None => false end.

Lemma sat_has o t : sat o t = true -> isSome o = isSome t.
Proof. destruct o as [[[|v] a]|], t as [[| |v']|]; simpl; auto; discriminate. Qed.

Lemma tocok_has E M T p :
  TocOk E M T -> in_toc p = true -> t_has T p = isSome (toc_spec E M p).
Proof. intros H I. unfold t_has. specialize (H p I). now apply sat_has in H. Qed.

Lemma sat_none o : sat o None = true -> o = None.
Proof. destruct o as [[[|v] a]|]; simpl; auto; discriminate. Qed.

Lemma is_child_iff c p : is_child c p = true <-> exists x, p = c ++ [x].
Proof.
  unfold is_child. split.
  - intros H. apply andb_prop in H as [H1 H2]. apply Nat.eqb_eq in H1.
    pose proof (is_prefix_split c p H2) as S.
    destruct (skipn (List.length c) p) as [|x [|y l]] eqn:K.
    + rewrite app_nil_r in S. subst. lia.
    + eauto.
    + rewrite S, app_length in H1. simpl in H1. lia.
  - intros (x & ->). rewrite app_length, is_prefix_app. simpl.
    rewrite Nat.add_1_r, Nat.eqb_refl. reflexivity.
Qed.

Lemma hc_iff T c : has_children T c = true <-> exists x, t_has T (c ++ [x]) = true.
Proof.
  rewrite has_children_iff. split.
  - intros (p & C & H). apply is_child_iff in C as (x & ->). eauto.
  - intros (x & H). exists (c ++ [x]). split; auto. apply is_child_iff. eauto.
Qed.

Lemma is_prefix_cons x q y p : is_prefix (x :: q) (y :: p) = String.eqb x y && is_prefix q p.
Proof. reflexivity. Qed.

Lemma is_prefix_refl p : is_prefix p p = true.
Proof. induction p; simpl; auto. now rewrite String.eqb_refl. Qed.

Lemma is_prefix_length q p : is_prefix q p = true -> List.length q <= List.length p.
Proof. intros H. rewrite (is_prefix_split q p H), app_length. lia. Qed.

Lemma in_rm q M x : In x (rm q M) <-> In x M /\ x <> q.
Proof.
  unfold rm. rewrite filter_In. split; intros [H1 H2]; split; auto.
  - intros ->. now rewrite path_eqb_refl in H2.
  - apply negb_true_iff. destruct (path_eqb x q) eqn:E; auto. apply path_eqb_eq in E. contradiction.
Qed.

Lemma rm_nil_iff q M : rm q M = [] <-> forall x, In x M -> x = q.
Proof.
  split.
  - intros H x I. destruct (list_eq_dec string_dec x q) as [|N]; auto.
    assert (In x (rm q M)) by (apply in_rm; auto). rewrite H in H0. destruct H0.
  - intros H. destruct (rm q M) as [|y l] eqn:R; auto.
    assert (In y (rm q M)) by (rewrite R; simpl; auto). apply in_rm in H0 as [H1 H2].
    now apply H in H1.
Qed.

Lemma uniq_rm q M : UidUniq M -> UidUniq (rm q M).
Proof. intros U a b Ha Hb. apply in_rm in Ha as [Ha _], Hb as [Hb _]. now apply U. Qed.

(** Closed string comparisons are evaluated, open ones left alone. *)
Ltac ceqb :=
  repeat match goal with
         | |- context [String.eqb ?a ?b] =>
             let v := eval vm_compute in (String.eqb a b) in
             match v with
             | true => change (String.eqb a b) with true
             | false => change (String.eqb a b) with false
             end
         end.

Lemma spec_link E M s u :
  toc_spec E M (link_path s u) =
  match find (fun q => String.eqb (sch q) s && String.eqb (uid q) u) M with
  | Some q => Some (TL (name_of q)) | None => None end.
Proof. reflexivity. Qed.
Lemma spec_linkgrp E M s : toc_spec E M (linkgrp_path s) = if uses M s then Some TG else None.
Proof. reflexivity. Qed.
Lemma spec_schema E M s : toc_spec E M (schema_path s) = if uses M s then Some TG else None.
Proof. reflexivity. Qed.
Lemma spec_package E M pk :
  toc_spec E M (package_path pk) =
  if existsb (fun q => String.eqb (pkg_of E (sch q)) pk) M then Some TD else None.
Proof. reflexivity. Qed.
Lemma spec_dirs E M :
  toc_spec E M links_segs = match M with [] => None | _ => Some TG end /\
  toc_spec E M schemas_segs = match M with [] => None | _ => Some TG end /\
  toc_spec E M packages_segs = match M with [] => None | _ => Some TG end.
Proof. repeat split; reflexivity. Qed.

Lemma has_link E M T s u :
  TocOk E M T ->
  t_has T (link_path s u) = true <-> exists q, In q M /\ sch q = s /\ uid q = u.
Proof.
  intros H. rewrite (tocok_has E M T _ H) by reflexivity. rewrite spec_link.
  destruct (find _ M) as [q|] eqn:F; simpl.
  - apply find_some in F as [F1 F2]. apply andb_prop in F2 as [F2 F3].
    apply String.eqb_eq in F2, F3. split; eauto.
  - split; [discriminate|]. intros (q & Q1 & <- & <-).
    apply (find_none _ _ F) in Q1. now rewrite !String.eqb_refl in Q1.
Qed.

Lemma has_linkgrp E M T s : TocOk E M T -> t_has T (linkgrp_path s) = uses M s.
Proof.
  intros H. rewrite (tocok_has E M T _ H) by reflexivity. rewrite spec_linkgrp.
  now destruct (uses M s).
Qed.

Lemma has_schema E M T s : TocOk E M T -> t_has T (schema_path s) = uses M s.
Proof.
  intros H. rewrite (tocok_has E M T _ H) by reflexivity. rewrite spec_schema.
  now destruct (uses M s).
Qed.

Definition needs (E : env) (M : list path) (pk : string) : bool :=
  existsb (fun q => String.eqb (pkg_of E (sch q)) pk) M.

Lemma has_package E M T pk : TocOk E M T -> t_has T (package_path pk) = needs E M pk.
Proof.
  intros H. rewrite (tocok_has E M T _ H) by reflexivity. rewrite spec_package.
  unfold needs. now destruct (existsb _ M).
Qed.

Lemma needs_iff E M pk : needs E M pk = true <-> exists q, In q M /\ pkg_of E (sch q) = pk.
Proof.
  unfold needs. rewrite existsb_exists. split; intros (q & H1 & H2); exists q; split; auto.
  - now apply String.eqb_eq.
  - now apply String.eqb_eq.
Qed.

(** Cuts inside the TOC leave everything else alone. *)
Definition SameOutside (T T' : tree) : Prop :=
  (forall p, in_toc p = false -> t_get T' p = t_get T p) /\
  objs T' = objs T /\
  (NoDup (map fst T) -> NoDup (map fst T')).

Lemma so_refl T : SameOutside T T.
Proof. repeat split; auto. Qed.

Lemma so_trans A B C : SameOutside A B -> SameOutside B C -> SameOutside A C.
Proof.
  intros (H1 & H2 & H3) (G1 & G2 & G3). repeat split.
  - intros p I. now rewrite G1, H1.
  - congruence.
  - auto.
Qed.

Lemma so_cut r T : SameOutside T (t_cut (toc_seg :: r) T).
Proof.
  repeat split.
  - intros p I. rewrite t_get_cut. destruct p as [|t p]; auto.
    rewrite is_prefix_cons. simpl in I. rewrite String.eqb_sym in I. now rewrite I.
  - apply objs_cut_toc.
  - apply nodup_cut.
Qed.

(** ** [unreg_link]: removing one object from the attachment set *)

Ltac pfx :=
  unfold link_path, linkgrp_path, schema_path, package_path, links_segs, schemas_segs,
    packages_segs, version_segs, uuid_segs, toc_segs in *;
  cbn [app is_prefix] in *; ceqb; cbn [andb orb negb] in *;
  rewrite ?andb_true_r, ?andb_false_r, ?orb_false_r; cbn [andb orb negb].

Lemma find_rm_other (f : path -> bool) q M :
  f q = false -> find f (rm q M) = find f M.
Proof.
  intros F. unfold rm. induction M as [|x M IH]; simpl; auto.
  destruct (path_eqb x q) eqn:X; simpl.
  - apply path_eqb_eq in X. subst. now rewrite F.
  - now rewrite IH.
Qed.

Lemma existsb_rm_other (f : path -> bool) q M :
  f q = false -> existsb f (rm q M) = existsb f M.
Proof.
  intros F. unfold rm. induction M as [|x M IH]; simpl; auto.
  destruct (path_eqb x q) eqn:X; simpl.
  - apply path_eqb_eq in X. subst. now rewrite F.
  - now rewrite IH.
Qed.

Section UnregLink.
  Variables (E : env) (M : list path) (T : tree) (pr : list (string * string)) (q : path).
  Hypothesis HT : TocOk E M T.
  Hypothesis UQ : UidUniq M.
  Hypothesis PO : ProvOk E pr M.
  Hypothesis Q : In q M.
  Let s := sch q.
  Let u := uid q.
  Let pk := pkg_of E (sch q).
  Let M' := rm q M.
  Let U := uses M' s.
  Let P := needs E M' pk.
  Let N := match M' with [] => false | _ => true end.

  Lemma ul_pr : assoc pr s = pk.
  Proof. apply PO, Q. Qed.

  Lemma ul_other q' : In q' M -> q' <> q <-> uid q' <> u.
  Proof.
    intros I. split.
    - intros Nq Eu. apply Nq. now apply UQ.
    - intros Nu ->. now apply Nu.
  Qed.

  Lemma ul_UP : U = true -> P = true.
  Proof.
    unfold U, P. intros H. apply uses_iff in H as (q' & I & S). apply needs_iff.
    exists q'. split; auto. unfold pk. now rewrite S.
  Qed.

  Lemma ul_PN : P = true -> N = true.
  Proof.
    unfold P, N. intros H. apply needs_iff in H as (q' & I & _). unfold M' in *.
    destruct (rm q M); auto.
  Qed.

  Lemma ul_N_in : N = true <-> exists q', In q' M'.
  Proof.
    unfold N, M'. destruct (rm q M) as [|x l]; split; try discriminate; auto.
    - intros (q' & []).
    - intros _. exists x. simpl. auto.
  Qed.

  (** Specification for the smaller set. *)
  Lemma ul_uses_other x : x <> s -> uses M' x = uses M x.
  Proof.
    intros Nx. unfold uses, M'. apply existsb_rm_other.
    apply String.eqb_neq. intros Hx. apply Nx. now rewrite <- Hx.
  Qed.

  Lemma ul_needs_other x : x <> pk -> needs E M' x = needs E M x.
  Proof.
    intros Nx. unfold needs, M'. apply existsb_rm_other.
    apply String.eqb_neq. intros Hx. apply Nx. now rewrite <- Hx.
  Qed.

  Lemma ul_find_other x y :
    (x, y) <> (s, u) ->
    find (fun q0 => String.eqb (sch q0) x && String.eqb (uid q0) y) M' =
    find (fun q0 => String.eqb (sch q0) x && String.eqb (uid q0) y) M.
  Proof.
    intros Nx. apply find_rm_other. apply andb_false_iff.
    destruct (String.eqb (sch q) x) eqn:A; auto. right.
    apply String.eqb_neq. intros B. apply String.eqb_eq in A. apply Nx. now rewrite <- A, <- B.
  Qed.

  Lemma ul_find_self :
    find (fun q0 => String.eqb (sch q0) s && String.eqb (uid q0) u) M' = None.
  Proof.
    apply find_none_all. intros x I. apply in_rm in I as [I Nx].
    apply andb_false_iff. right. apply String.eqb_neq. now apply ul_other.
  Qed.

  Lemma ul_uses_M : uses M s = true.
  Proof. apply uses_iff. eauto. Qed.

  Lemma ul_needs_M : needs E M pk = true.
  Proof. apply needs_iff. eauto. Qed.

  (** The branch conditions of [unreg_link] / [unreg_schema]. *)
  Lemma ul_c1 : has_children (t_cut (link_path s u) T) (linkgrp_path s) = U.
  Proof.
    apply Bool.eq_iff_eq_true. rewrite hc_iff. unfold U. rewrite uses_iff. split.
    - intros (x & H). change (linkgrp_path s ++ [x]) with (link_path s x) in H.
      rewrite t_has_cut in H. apply andb_prop in H as [H1 H2].
      apply (has_link E M T s x HT) in H2 as (q' & I & S1 & S2).
      exists q'. split; auto. apply in_rm. split; auto. apply ul_other; auto.
      intros Eu. rewrite S2 in Eu. rewrite Eu in H1. now rewrite is_prefix_refl in H1.
    - intros (q' & I & S1). apply in_rm in I as [I Nq]. exists (uid q').
      change (linkgrp_path s ++ [uid q']) with (link_path s (uid q')).
      rewrite t_has_cut. apply andb_true_intro. split.
      + apply negb_true_iff. pfx. rewrite String.eqb_refl.
        apply String.eqb_neq. intros Eu. apply (ul_other q' I); auto.
      + apply (has_link E M T s (uid q') HT). eauto.
  Qed.

  (** Any tree that agrees with [T] on the schema records other than [s]'s. *)
  Lemma ul_c_schemas X :
    U = false ->
    (forall x, t_has X (schema_path x) = negb (String.eqb s x) && t_has T (schema_path x)) ->
    has_children X schemas_segs = N.
  Proof.
    intros HU HX. apply Bool.eq_iff_eq_true. rewrite hc_iff, ul_N_in. split.
    - intros (x & H). change (schemas_segs ++ [x]) with (schema_path x) in H.
      rewrite HX in H. apply andb_prop in H as [H1 H2]. rewrite (has_schema E M T x HT) in H2.
      apply uses_iff in H2 as (q' & I & S1). exists q'. apply in_rm. split; auto.
      intros ->. fold s in S1. subst x. now rewrite String.eqb_refl in H1.
    - intros (q' & I). exists (sch q'). change (schemas_segs ++ [sch q']) with (schema_path (sch q')).
      rewrite HX. apply andb_true_intro. split.
      + apply negb_true_iff, String.eqb_neq. intros S1.
        assert (uses M' s = true) by (apply uses_iff; eauto). fold U in H. congruence.
      + rewrite (has_schema E M T _ HT). apply uses_iff. apply in_rm in I as [I _]. eauto.
  Qed.

  Lemma ul_c_links X :
    U = false ->
    (forall x, t_has X (linkgrp_path x) = negb (String.eqb s x) && t_has T (linkgrp_path x)) ->
    has_children X links_segs = N.
  Proof.
    intros HU HX. apply Bool.eq_iff_eq_true. rewrite hc_iff, ul_N_in. split.
    - intros (x & H). change (links_segs ++ [x]) with (linkgrp_path x) in H.
      rewrite HX in H. apply andb_prop in H as [H1 H2]. rewrite (has_linkgrp E M T x HT) in H2.
      apply uses_iff in H2 as (q' & I & S1). exists q'. apply in_rm. split; auto.
      intros ->. fold s in S1. subst x. now rewrite String.eqb_refl in H1.
    - intros (q' & I). exists (sch q'). change (links_segs ++ [sch q']) with (linkgrp_path (sch q')).
      rewrite HX. apply andb_true_intro. split.
      + apply negb_true_iff, String.eqb_neq. intros S1.
        assert (uses M' s = true) by (apply uses_iff; eauto). fold U in H. congruence.
      + rewrite (has_linkgrp E M T _ HT). apply uses_iff. apply in_rm in I as [I _]. eauto.
  Qed.

  Lemma ul_c_packages X :
    P = false ->
    (forall x, t_has X (package_path x) = negb (String.eqb pk x) && t_has T (package_path x)) ->
    has_children X packages_segs = N.
  Proof.
    intros HP HX. apply Bool.eq_iff_eq_true. rewrite hc_iff, ul_N_in. split.
    - intros (x & H). change (packages_segs ++ [x]) with (package_path x) in H.
      rewrite HX in H. apply andb_prop in H as [H1 H2]. rewrite (has_package E M T x HT) in H2.
      apply needs_iff in H2 as (q' & I & S1). exists q'. apply in_rm. split; auto.
      intros ->. fold pk in S1. subst x. now rewrite String.eqb_refl in H1.
    - intros (q' & I). exists (pkg_of E (sch q')).
      change (packages_segs ++ [pkg_of E (sch q')]) with (package_path (pkg_of E (sch q'))).
      rewrite HX. apply andb_true_intro. split.
      + apply negb_true_iff, String.eqb_neq. intros S1.
        assert (needs E M' pk = true) by (apply needs_iff; eauto). fold P in H. congruence.
      + rewrite (has_package E M T _ HT). apply needs_iff. apply in_rm in I as [I _]. eauto.
  Qed.

  Lemma ul_c_still X :
    U = false ->
    (forall x, t_has X (schema_path x) = negb (String.eqb s x) && t_has T (schema_path x)) ->
    existsb (fun e => is_child schemas_segs (fst e) &&
                      String.eqb (assoc pr (last_seg (fst e))) (assoc pr s)) X = P.
  Proof.
    intros HU HX. apply Bool.eq_iff_eq_true. rewrite existsb_exists. unfold P.
    rewrite needs_iff, ul_pr. split.
    - intros (e & I & H). apply andb_prop in H as [H1 H2]. apply is_child_iff in H1 as (x & Hx).
      apply in_t_has in I. rewrite Hx in I, H2. change (schemas_segs ++ [x]) with (schema_path x) in I.
      rewrite last_seg_app in H2. apply String.eqb_eq in H2.
      rewrite HX in I. apply andb_prop in I as [I1 I2]. rewrite (has_schema E M T x HT) in I2.
      apply uses_iff in I2 as (q' & I & S1). exists q'. split.
      + apply in_rm. split; auto. intros ->. fold s in S1. subst x.
        now rewrite String.eqb_refl in I1.
      + rewrite <- (PO q' I), S1. exact H2.
    - intros (q' & I & S1).
      assert (Ns : sch q' <> s).
      { intros S2. assert (uses M' s = true) by (apply uses_iff; eauto). fold U in H. congruence. }
      assert (HP : t_has X (schema_path (sch q')) = true).
      { rewrite HX. apply andb_true_intro. split.
        - apply negb_true_iff, String.eqb_neq. auto.
        - rewrite (has_schema E M T _ HT). apply uses_iff. apply in_rm in I as [I _]. eauto. }
      apply t_has_in in HP. apply in_map_iff in HP as (e & He & Ie). exists e. split; auto.
      rewrite He. apply andb_true_intro. split.
      + apply is_child_iff. exists (sch q'). reflexivity.
      + change (schema_path (sch q')) with (schemas_segs ++ [sch q']). rewrite last_seg_app.
        apply String.eqb_eq. apply in_rm in I as [I _]. now rewrite (PO q' I).
  Qed.

  Definition ul_dead (p : path) : bool :=
    is_prefix (link_path s u) p
    || (negb U && (is_prefix (linkgrp_path s) p || is_prefix (schema_path s) p))
    || (negb U && negb P && is_prefix (package_path pk) p)
    || (negb N && (is_prefix packages_segs p || is_prefix schemas_segs p || is_prefix links_segs p)).

  Lemma ul_hx_schema X c :
    (forall x, is_prefix c (schema_path x) = false) ->
    (forall x, t_has X (schema_path x) = negb (String.eqb s x) && t_has T (schema_path x)) ->
    forall x, t_has (t_cut c X) (schema_path x) = negb (String.eqb s x) && t_has T (schema_path x).
  Proof. intros Hc HX x. now rewrite t_has_cut, Hc, HX. Qed.

  Lemma ul_lookup p :
    t_get (unreg_link T pr s u) p = if ul_dead p then None else t_get T p.
  Proof.
    unfold unreg_link, unreg_schema.
    change (links_segs ++ [s; u]) with (link_path s u).
    change (links_segs ++ [s]) with (linkgrp_path s).
    change (schemas_segs ++ [s]) with (schema_path s).
    rewrite ul_c1. unfold ul_dead. destruct U eqn:HU.
    - rewrite ?HU, (ul_PN (ul_UP HU)). cbn [negb andb orb]. rewrite t_get_cut, !orb_false_r. reflexivity.
    - set (X := t_cut (schema_path s) (t_cut (linkgrp_path s) (t_cut (link_path s u) T))).
      assert (HX : forall x, t_has X (schema_path x) =
                             negb (String.eqb s x) && t_has T (schema_path x)).
      { intros x. unfold X. rewrite !t_has_cut. pfx. reflexivity. }
      assert (HL : forall x, t_has X (linkgrp_path x) =
                             negb (String.eqb s x) && t_has T (linkgrp_path x)).
      { intros x. unfold X. rewrite !t_has_cut. pfx. reflexivity. }
      rewrite (ul_c_still X HU HX). rewrite ul_pr. destruct P eqn:HP.
      + rewrite (ul_c_schemas X HU HX), (ul_PN HP).
        rewrite (ul_c_links X HU HL), (ul_PN HP). rewrite ?HU, ?HP.
        unfold X. rewrite !t_get_cut. cbn [negb andb orb].
        destruct (is_prefix (link_path s u) p), (is_prefix (linkgrp_path s) p),
          (is_prefix (schema_path s) p); reflexivity.
      + set (Y := t_cut (packages_segs ++ [pk]) X).
        assert (HY : forall x, t_has Y (package_path x) =
                               negb (String.eqb pk x) && t_has T (package_path x)).
        { intros x. unfold Y, X. rewrite !t_has_cut. pfx. reflexivity. }
        rewrite (ul_c_packages Y HP HY). destruct N eqn:HN.
        * assert (HX2 : forall x, t_has Y (schema_path x) =
                                  negb (String.eqb s x) && t_has T (schema_path x)).
          { intros x. unfold Y. rewrite t_has_cut, HX. pfx. reflexivity. }
          assert (HL2 : forall x, t_has Y (linkgrp_path x) =
                                  negb (String.eqb s x) && t_has T (linkgrp_path x)).
          { intros x. unfold Y. rewrite t_has_cut, HL. pfx. reflexivity. }
          rewrite (ul_c_schemas Y HU HX2), HN. rewrite (ul_c_links Y HU HL2), HN.
          rewrite ?HU, ?HP, ?HN.
          unfold Y, X. rewrite !t_get_cut. cbn [negb andb orb]. change (packages_segs ++ [pk]) with (package_path pk).
          destruct (is_prefix (link_path s u) p), (is_prefix (linkgrp_path s) p),
            (is_prefix (schema_path s) p), (is_prefix (package_path pk) p); reflexivity.
        * set (Z := t_cut packages_segs Y).
          assert (HX2 : forall x, t_has Z (schema_path x) =
                                  negb (String.eqb s x) && t_has T (schema_path x)).
          { intros x. unfold Z, Y. rewrite !t_has_cut, HX. pfx. reflexivity. }
          rewrite (ul_c_schemas Z HU HX2), HN.
          set (W := t_cut schemas_segs Z).
          assert (HL2 : forall x, t_has W (linkgrp_path x) =
                                  negb (String.eqb s x) && t_has T (linkgrp_path x)).
          { intros x. unfold W, Z, Y. rewrite !t_has_cut, HL. pfx. reflexivity. }
          rewrite (ul_c_links W HU HL2), HN.
          rewrite ?HU, ?HP, ?HN.
          unfold W, Z, Y, X. rewrite !t_get_cut. cbn [negb andb orb].
          change (packages_segs ++ [pk]) with (package_path pk).
          destruct (is_prefix (link_path s u) p), (is_prefix (linkgrp_path s) p),
            (is_prefix (schema_path s) p), (is_prefix (package_path pk) p),
            (is_prefix packages_segs p), (is_prefix schemas_segs p), (is_prefix links_segs p);
            reflexivity.
  Qed.

  Lemma ul_N_of q' : In q' M -> q' <> q -> N = true.
  Proof. intros I Nq. apply ul_N_in. exists q'. apply in_rm. auto. Qed.

  Lemma ul_U_of q' : In q' M -> q' <> q -> sch q' = s -> U = true.
  Proof. intros I Nq S. apply uses_iff. exists q'. split; auto. apply in_rm. auto. Qed.

  Lemma sat_dead o t (b : bool) :
    (b = true -> t = None) -> (b = false -> sat o t = true) ->
    sat (if b then None else o) t = true.
  Proof. destruct b; intros H1 H2; auto. now rewrite H1. Qed.

  Lemma ul_dirs_case (o : option obj) :
    sat o (match M with [] => None | _ => Some TG end) = true ->
    sat (if negb N then None else o) (match M' with [] => None | _ => Some TG end) = true.
  Proof.
    intros H. unfold N. destruct M' eqn:R; simpl; auto.
    destruct M; auto.
  Qed.

  Lemma ul_uses_case (o : option obj) x t :
    sat o (if uses M x then Some t else None) = true ->
    sat (if negb U && String.eqb s x || negb N then None else o)
        (if uses M' x then Some t else None) = true.
  Proof.
    intros H. destruct (String.eqb s x) eqn:Sx.
    - apply String.eqb_eq in Sx. subst x. fold U. destruct U eqn:HU.
      + rewrite (ul_PN (ul_UP HU)). simpl. now rewrite ul_uses_M in H.
      + simpl. reflexivity.
    - apply String.eqb_neq in Sx. rewrite (ul_uses_other x) by auto.
      rewrite andb_false_r. simpl. destruct (uses M x) eqn:Ux.
      + apply uses_iff in Ux as (q' & I & S1).
        rewrite (ul_N_of q' I); auto. intros ->. now apply Sx.
      + apply sat_none in H. subst. now destruct (negb N).
  Qed.

  Lemma ul_tocok : TocOk E M' (unreg_link T pr s u).
  Proof.
    intros p I. rewrite ul_lookup. apply in_toc_inv in I as (r & ->).
    pose proof (HT (toc_seg :: r) eq_refl) as Hs. unfold toc_spec in *.
    rewrite classify_toc_eq in *. pose proof (classify_toc_inv r) as C.
    destruct (classify_toc r) eqn:K; try contradiction; try subst r.
    - (* PToc *) unfold ul_dead. pfx. exact Hs.
    - unfold ul_dead. pfx. exact Hs.
    - unfold ul_dead. pfx. exact Hs.
    - (* PLinks *) unfold ul_dead. pfx. now apply ul_dirs_case.
    - (* PLinkGrp *) unfold ul_dead. pfx. now apply ul_uses_case.
    - (* PLink *) unfold ul_dead. pfx.
      destruct (String.eqb s s0 && String.eqb u u0) eqn:SU.
      + apply andb_prop in SU as [S1 S2]. apply String.eqb_eq in S1, S2. subst s0 u0.
        simpl. now rewrite ul_find_self.
      + assert (NE : (s0, u0) <> (s, u)).
        { intros X. inversion X; subst. now rewrite !String.eqb_refl in SU. }
        rewrite (ul_find_other s0 u0 NE). simpl.
        destruct (find _ M) as [q'|] eqn:F.
        * apply find_some in F as [F1 F2]. apply andb_prop in F2 as [F2 F3].
          apply String.eqb_eq in F2, F3.
          assert (Nq : q' <> q) by (intros ->; apply NE; now rewrite <- F2, <- F3).
          rewrite (ul_N_of q' F1 Nq). destruct (String.eqb s s0) eqn:S1.
          -- apply String.eqb_eq in S1. rewrite (ul_U_of q' F1 Nq) by congruence. exact Hs.
          -- rewrite andb_false_r. exact Hs.
        * apply sat_none in Hs. rewrite Hs. now destruct (_ || _).
    - (* PSchemas *) unfold ul_dead. pfx. now apply ul_dirs_case.
    - (* PSchema *) unfold ul_dead. pfx. now apply ul_uses_case.
    - unfold ul_dead. pfx. now apply ul_uses_case.
    - unfold ul_dead. pfx. now apply ul_uses_case.
    - (* PPackages *) unfold ul_dead. pfx. now apply ul_dirs_case.
    - (* PPackage *) unfold ul_dead. pfx. fold (needs E M' p). fold (needs E M p) in Hs.
      destruct (String.eqb pk p) eqn:Px.
      + apply String.eqb_eq in Px. subst p. fold P. destruct P eqn:HP.
        * rewrite (ul_PN HP). rewrite andb_false_r. simpl. now rewrite ul_needs_M in Hs.
        * destruct U eqn:HU; [rewrite (ul_UP HU) in HP; discriminate|]. reflexivity.
      + apply String.eqb_neq in Px. rewrite (ul_needs_other p) by auto.
        rewrite andb_false_r. simpl. destruct (needs E M p) eqn:Np.
        * apply needs_iff in Np as (q' & I & S1).
          rewrite (ul_N_of q' I); auto. intros ->. now apply Px.
        * apply sat_none in Hs. rewrite Hs. now destruct (negb N).
    - (* PBad *) apply sat_none in Hs. rewrite Hs. now destruct (ul_dead _).
  Qed.

  Lemma ul_outside : SameOutside T (unreg_link T pr s u).
  Proof.
    unfold unreg_link, unreg_schema.
    repeat match goal with
           | |- SameOutside _ (if ?c then _ else _) => destruct c
           | |- SameOutside _ (t_cut _ _) => eapply so_trans; [|apply so_cut]
           end; try apply so_refl.
  Qed.

End UnregLink.

(** ** Conditional puts ("create unless present") *)

Definition cput (T : tree) (e : entry) : tree :=
  if t_has T (fst e) then T else t_put T (fst e) (snd e).
Definition puts (l : list entry) (T : tree) : tree := fold_left cput l T.

Definition lookupL (l : list entry) (p : path) : option obj :=
  match find (fun e => path_eqb (fst e) p) l with Some e => Some (snd e) | None => None end.

Lemma t_get_cput T e p :
  t_get (cput T e) p =
  match t_get T p with Some o => Some o | None => if path_eqb (fst e) p then Some (snd e) else None end.
Proof.
  unfold cput. destruct (t_has T (fst e)) eqn:H.
  - destruct (t_get T p) eqn:G; auto. destruct (path_eqb (fst e) p) eqn:X; auto.
    apply path_eqb_eq in X. subst. unfold t_has in H. now rewrite G in H.
  - apply t_get_put.
Qed.

Lemma t_get_puts l T p :
  t_get (puts l T) p = match t_get T p with Some o => Some o | None => lookupL l p end.
Proof.
  unfold puts, lookupL. revert T. induction l as [|e l IH]; intros T; simpl.
  - now destruct (t_get T p).
  - rewrite IH, t_get_cput. destruct (t_get T p); auto.
    destruct (path_eqb (fst e) p); auto.
Qed.

Lemma ensure_group_cput T p : ensure_group T p = cput T (p, new_group).
Proof. reflexivity. Qed.

Lemma t_put_cput T p o : t_has T p = false -> t_put T p o = cput T (p, o).
Proof. intros H. unfold cput. simpl. now rewrite H. Qed.

Lemma puts_app a b T : puts (a ++ b) T = puts b (puts a T).
Proof. unfold puts. apply fold_left_app. Qed.

Lemma nodup_cput T e : NoDup (map fst T) -> NoDup (map fst (cput T e)).
Proof.
  intros H. unfold cput. destruct (t_has T (fst e)) eqn:X; auto. now apply nodup_put.
Qed.

Lemma nodup_puts l T : NoDup (map fst T) -> NoDup (map fst (puts l T)).
Proof.
  unfold puts. revert T. induction l; simpl; auto. intros T H. apply IHl. now apply nodup_cput.
Qed.

Lemma objs_cput T e : is_obj_path (fst e) = false -> objs (cput T e) = objs T.
Proof.
  intros H. unfold cput. destruct (t_has T (fst e)); auto. rewrite objs_put, H. apply app_nil_r.
Qed.

Lemma objs_puts l T :
  (forall e, In e l -> is_obj_path (fst e) = false) -> objs (puts l T) = objs T.
Proof.
  unfold puts. revert T. induction l as [|e l IH]; simpl; auto. intros T H.
  rewrite IH by auto. apply objs_cput. auto.
Qed.

Lemma so_puts l T :
  (forall e, In e l -> in_toc (fst e) = true) -> SameOutside T (puts l T).
Proof.
  intros H. repeat split.
  - intros p I. rewrite t_get_puts. destruct (t_get T p); auto. unfold lookupL.
    destruct (find _ l) as [e|] eqn:F; auto. apply find_some in F as [F1 F2].
    apply path_eqb_eq in F2. subst. rewrite (H e F1) in I. discriminate.
  - apply objs_puts. intros e I. specialize (H e I). destruct (is_obj_path (fst e)) eqn:O; auto.
    apply obj_not_toc in O. congruence.
  - apply nodup_puts.
Qed.

Lemma puts_tocok E M M' l T :
  TocOk E M T ->
  (forall p t, toc_spec E M p = Some t -> toc_spec E M' p = Some t) ->
  (forall p, in_toc p = true -> toc_spec E M p = None -> sat (lookupL l p) (toc_spec E M' p) = true) ->
  TocOk E M' (puts l T).
Proof.
  intros H Mono New p I. rewrite t_get_puts. specialize (H p I).
  destruct (toc_spec E M p) as [t|] eqn:S.
  - rewrite (Mono p t S). destruct (t_get T p); auto. destruct t; discriminate.
  - apply sat_none in H. rewrite H. now apply New.
Qed.

(** ** [reg_schema] and [add_link]: adding one object to the attachment set *)

Definition regL (s pkg : string) : list entry :=
  [(toc_segs, new_group); (schemas_segs, new_group); (schema_path s, new_group);
   (schema_path s ++ ["jsonschema.json"], new_data "jsonschema");
   (schema_path s ++ ["compat"], new_data "compat");
   (packages_segs, new_group); (package_path pkg, new_data "pkginfo")].

Definition linkL (s u : string) (target : path) : list entry :=
  [(toc_segs, new_group); (links_segs, new_group); (linkgrp_path s, new_group);
   (link_path s u, new_data (name_of target))].

Lemma M_nonempty_of_uses M s : uses M s = true -> M <> [].
Proof. intros H. apply uses_iff in H as (q & I & _). intros ->. destruct I. Qed.

Lemma t_has_puts l T p : t_has (puts l T) p = t_has T p || isSome (lookupL l p).
Proof. unfold t_has. rewrite t_get_puts. destruct (t_get T p); auto. Qed.

Lemma tocok_toc E M T : TocOk E M T -> t_has T toc_segs = true.
Proof. intros H. now rewrite (tocok_has E M T _ H). Qed.

Lemma puts_all_present l T : (forall e, In e l -> t_has T (fst e) = true) -> puts l T = T.
Proof.
  unfold puts. induction l as [|e l IH]; simpl; auto. intros H.
  unfold cput at 2. rewrite (H e) by auto. apply IH. auto.
Qed.

Lemma has_json E M T s : TocOk E M T -> t_has T (schema_path s ++ ["jsonschema.json"]) = uses M s.
Proof.
  intros H. rewrite (tocok_has E M T _ H) by reflexivity.
  change (toc_spec E M (schema_path s ++ ["jsonschema.json"]))
    with (if uses M s then Some TD else None). now destruct (uses M s).
Qed.

Lemma has_compat E M T s : TocOk E M T -> t_has T (schema_path s ++ ["compat"]) = uses M s.
Proof.
  intros H. rewrite (tocok_has E M T _ H) by reflexivity.
  change (toc_spec E M (schema_path s ++ ["compat"]))
    with (if uses M s then Some TD else None). now destruct (uses M s).
Qed.

Lemma has_dirs E M T :
  TocOk E M T -> M <> [] ->
  t_has T links_segs = true /\ t_has T schemas_segs = true /\ t_has T packages_segs = true.
Proof.
  intros H NE. rewrite !(tocok_has E M T _ H) by reflexivity.
  destruct (spec_dirs E M) as (-> & -> & ->). destruct M; [contradiction|]. auto.
Qed.

Lemma reg_schema_puts E M T s :
  TocOk E M T -> reg_schema T s (pkg_of E s) = puts (regL s (pkg_of E s)) T.
Proof.
  intros H. unfold reg_schema.
  change (schemas_segs ++ [s]) with (schema_path s).
  change (schemas_segs ++ [s; "jsonschema.json"]) with (schema_path s ++ ["jsonschema.json"]).
  change (schemas_segs ++ [s; "compat"]) with (schema_path s ++ ["compat"]).
  change (packages_segs ++ [pkg_of E s]) with (package_path (pkg_of E s)).
  rewrite (has_schema E M T s H). destruct (uses M s) eqn:U.
  - (* everything is there already *)
    assert (NE : M <> []) by (eapply M_nonempty_of_uses; eauto).
    assert (P : needs E M (pkg_of E s) = true).
    { apply uses_iff in U as (q & I & S). apply needs_iff. exists q. now rewrite S. }
    destruct (has_dirs E M T H NE) as (D1 & D2 & D3).
    symmetry. apply puts_all_present. intros e I. simpl in I.
    destruct I as [<-|[<-|[<-|[<-|[<-|[<-|[<-|[]]]]]]]]; simpl fst; auto.
    + now apply (tocok_toc E M).
    + exact (eq_trans (has_schema E M T s H) U).
    + exact (eq_trans (has_json E M T s H) U).
    + exact (eq_trans (has_compat E M T s H) U).
    + exact (eq_trans (has_package E M T _ H) P).
  - unfold regL, puts. cbn [fold_left]. rewrite !ensure_group_cput.
    set (T1 := cput (cput T (toc_segs, new_group)) (schemas_segs, new_group)).
    assert (A1 : forall p, t_has T1 p = t_has T p || path_eqb toc_segs p || path_eqb schemas_segs p).
    { intros p. unfold T1, t_has. rewrite !t_get_cput. simpl fst.
      destruct (t_get T p); auto. destruct (path_eqb toc_segs p); auto.
      destruct (path_eqb schemas_segs p); auto. }
    rewrite (t_put_cput T1 (schema_path s)).
    2:{ rewrite A1, (has_schema E M T s H), U. reflexivity. }
    set (T2 := cput T1 (schema_path s, new_group)).
    assert (A2 : forall p, t_has T2 p = t_has T1 p || path_eqb (schema_path s) p).
    { intros p. unfold T2, t_has. rewrite t_get_cput. simpl fst. destruct (t_get T1 p); auto.
      destruct (path_eqb (schema_path s) p); auto. }
    rewrite (t_put_cput T2 (schema_path s ++ ["jsonschema.json"])).
    2:{ rewrite A2, A1. rewrite (has_json E M T s H), U.
        unfold schema_path, schemas_segs, toc_segs. cbn [app path_eqb]. ceqb.
        cbn [andb orb isSome]. now rewrite !andb_false_r. }
    set (T3 := cput T2 (schema_path s ++ ["jsonschema.json"], new_data "jsonschema")).
    assert (A3 : forall p, t_has T3 p = t_has T2 p || path_eqb (schema_path s ++ ["jsonschema.json"]) p).
    { intros p. unfold T3, t_has. rewrite t_get_cput. simpl fst. destruct (t_get T2 p); auto.
      destruct (path_eqb _ p); auto. }
    rewrite (t_put_cput T3 (schema_path s ++ ["compat"])).
    2:{ rewrite A3, A2, A1. rewrite (has_compat E M T s H), U.
        unfold schema_path, schemas_segs, toc_segs. cbn [app path_eqb]. ceqb.
        cbn [andb orb isSome]. now rewrite !andb_false_r. }
    set (T4 := cput T3 (schema_path s ++ ["compat"], new_data "compat")).
    assert (A4 : forall p, t_has T4 p = t_has T3 p || path_eqb (schema_path s ++ ["compat"]) p).
    { intros p. unfold T4, t_has. rewrite t_get_cput. simpl fst. destruct (t_get T3 p); auto.
      destruct (path_eqb _ p); auto. }
    assert (A5 : forall p, match p with [_; x] => String.eqb x "packages" | [_; x; _] => String.eqb x "packages" | _ => false end = true ->
                           t_has T4 p = t_has T p).
    { intros p Hp. rewrite A4, A3, A2, A1.
      destruct p as [|a [|x [|y [|z l]]]]; try discriminate.
      - apply String.eqb_eq in Hp. subst.
        unfold schema_path, schemas_segs, toc_segs. cbn [app path_eqb]. ceqb.
        cbn [andb]. now rewrite !andb_false_r, !orb_false_r.
      - apply String.eqb_eq in Hp. subst.
        unfold schema_path, schemas_segs, toc_segs. cbn [app path_eqb]. ceqb.
        cbn [andb]. now rewrite !andb_false_r, !orb_false_r. }
    change (cput T3 (schema_path s ++ ["compat"], new_data "compat")) with T4.
    destruct (t_has T4 (package_path (pkg_of E s))) eqn:HP.
    + (* the package record exists, hence [packages] does *)
      assert (HK : t_has T4 packages_segs = true).
      { rewrite (A5 (package_path (pkg_of E s)) eq_refl) in HP.
        rewrite (has_package E M T _ H) in HP. apply needs_iff in HP as (q & I & _).
        rewrite (A5 packages_segs eq_refl).
        apply (has_dirs E M T H). intros ->. destruct I. }
      unfold cput. simpl fst. rewrite HK, HP. reflexivity.
    + apply t_put_cput.
      unfold t_has. rewrite t_get_cput. simpl fst. fold (t_has T4 (package_path (pkg_of E s))).
      unfold t_has in HP. destruct (t_get T4 (package_path (pkg_of E s))); [discriminate|].
      reflexivity.
Qed.

Lemma add_link_puts T s u tgt :
  t_has T (link_path s u) = false -> add_link T s u tgt = puts (linkL s u tgt) T.
Proof.
  intros H. unfold add_link, linkL, puts. cbn [fold_left]. rewrite !ensure_group_cput.
  change (links_segs ++ [s]) with (linkgrp_path s).
  change (links_segs ++ [s; u]) with (link_path s u).
  apply t_put_cput. unfold t_has. rewrite !t_get_cput. simpl fst.
  unfold t_has in H. destruct (t_get T (link_path s u)); [discriminate|].
  unfold link_path, linkgrp_path, links_segs, toc_segs. cbn [app path_eqb]. ceqb. cbn [andb].
  rewrite ?andb_false_r. reflexivity.
Qed.

Lemma uses_app M q x : uses (M ++ [q]) x = uses M x || String.eqb (sch q) x.
Proof. unfold uses. rewrite existsb_app. simpl. now rewrite orb_false_r. Qed.

Lemma needs_app E M q x : needs E (M ++ [q]) x = needs E M x || String.eqb (pkg_of E (sch q)) x.
Proof. unfold needs. rewrite existsb_app. simpl. now rewrite orb_false_r. Qed.

Lemma find_app {X} (f : X -> bool) a b :
  find f (a ++ b) = match find f a with Some x => Some x | None => find f b end.
Proof. induction a; simpl; auto. destruct (f a); auto. Qed.

Lemma spec_mono_app E M q p t :
  toc_spec E M p = Some t -> toc_spec E (M ++ [q]) p = Some t.
Proof.
  unfold toc_spec. destruct (classify p); auto.
  - destruct M; [discriminate|]. auto.
  - rewrite uses_app. destruct (uses M s); [auto|discriminate].
  - rewrite find_app. destruct (find _ M); [auto|discriminate].
  - destruct M; [discriminate|]. auto.
  - rewrite uses_app. destruct (uses M s); [auto|discriminate].
  - rewrite uses_app. destruct (uses M s); [auto|discriminate].
  - rewrite uses_app. destruct (uses M s); [auto|discriminate].
  - destruct M; [discriminate|]. auto.
  - fold (needs E M p0). fold (needs E (M ++ [q]) p0). rewrite needs_app.
    destruct (needs E M p0); [auto|discriminate].
Qed.

Ltac lkp :=
  unfold lookupL, regL, linkL, link_path, linkgrp_path, schema_path, package_path, links_segs,
    schemas_segs, packages_segs, toc_segs;
  cbn [app find fst snd path_eqb]; ceqb; cbn [andb];
  rewrite ?andb_true_r, ?andb_false_r.

Lemma attach_toc E M T q :
  TocOk E M T -> (forall q', In q' M -> uid q' <> uid q) ->
  add_link (reg_schema T (sch q) (pkg_of E (sch q))) (sch q) (uid q) q =
    puts (regL (sch q) (pkg_of E (sch q)) ++ linkL (sch q) (uid q) q) T /\
  TocOk E (M ++ [q]) (puts (regL (sch q) (pkg_of E (sch q)) ++ linkL (sch q) (uid q) q) T).
Proof.
  intros H Fr.
  assert (NL : t_has T (link_path (sch q) (uid q)) = false).
  { destruct (t_has T (link_path (sch q) (uid q))) eqn:X; auto.
    apply (has_link E M T _ _ H) in X as (q' & I & _ & Eu). now apply Fr in I. }
  split.
  - rewrite (reg_schema_puts E M T _ H), puts_app. apply add_link_puts.
    rewrite t_has_puts, NL. lkp. reflexivity.
  - apply (puts_tocok E M); auto.
    + intros p t. apply spec_mono_app.
    + intros p I. apply in_toc_inv in I as (r & ->). unfold toc_spec.
      rewrite classify_toc_eq. pose proof (classify_toc_inv r) as C.
      destruct (classify_toc r) eqn:K; try contradiction; try subst r; try discriminate.
      * (* PLinks *) intros _. lkp. now destruct M.
      * (* PLinkGrp *) rewrite uses_app. destruct (uses M s); [discriminate|]. intros _. lkp.
        simpl. now destruct (String.eqb (sch q) s).
      * (* PLink *) rewrite find_app. destruct (find _ M); [discriminate|]. intros _. lkp. simpl.
        destruct (String.eqb (sch q) s); simpl; auto.
        destruct (String.eqb (uid q) u); simpl; auto. apply String.eqb_refl.
      * intros _. lkp. now destruct M.
      * rewrite uses_app. destruct (uses M s); [discriminate|]. intros _. lkp.
        simpl. now destruct (String.eqb (sch q) s).
      * rewrite uses_app. destruct (uses M s); [discriminate|]. intros _. lkp.
        simpl. now destruct (String.eqb (sch q) s).
      * rewrite uses_app. destruct (uses M s); [discriminate|]. intros _. lkp.
        simpl. now destruct (String.eqb (sch q) s).
      * intros _. lkp. now destruct M.
      * fold (needs E M p). fold (needs E (M ++ [q]) p). rewrite needs_app.
        destruct (needs E M p); [discriminate|]. intros _. lkp. simpl.
        now destruct (String.eqb (pkg_of E (sch q)) p).
      * (* PBad *) intros _. destruct (lookupL _ (toc_seg :: r)) as [o|] eqn:L; auto. exfalso.
        unfold lookupL in L. destruct (find _ _) as [e|] eqn:F; [|discriminate].
        apply find_some in F as [F1 F2]. apply path_eqb_eq in F2.
        simpl in F1.
        repeat (destruct F1 as [F1|F1]; [subst e; simpl in F2; inversion F2; subst r; discriminate|]).
        destruct F1.
Qed.

(** ** Object names and fresh uuids *)

Lemma lacks_no_char c s : lacks_char c s = no_char c s.
Proof. reflexivity. Qed.

Lemma to_uint_nonnil n : N.to_uint n <> Decimal.Nil.
Proof. destruct n; simpl; [discriminate|apply DecimalPos.Unsigned.to_uint_nonnil]. Qed.

Lemma string_of_N_inj a b : string_of_N a = string_of_N b -> a = b.
Proof.
  unfold string_of_N. intros H. apply DecimalN.Unsigned.to_uint_inj.
  assert (Some (N.to_uint a) = Some (N.to_uint b)); [|congruence].
  rewrite <- (NilZero.usu _ (to_uint_nonnil a)), <- (NilZero.usu _ (to_uint_nonnil b)).
  now rewrite H.
Qed.

Lemma uuid_of_inj a b : uuid_of a = uuid_of b -> a = b.
Proof. unfold uuid_of. intros H. inversion H. now apply string_of_N_inj. Qed.

Lemma digits_no_eq d : no_char eq_char (NilEmpty.string_of_uint d) = true.
Proof. induction d; simpl; auto. Qed.

Lemma uuid_of_no_eq n : no_char eq_char (uuid_of n) = true.
Proof.
  unfold uuid_of, string_of_N, NilZero.string_of_uint. simpl.
  destruct (N.to_uint n); try apply digits_no_eq. reflexivity.
Qed.

Lemma obj_name_parts s u :
  no_char eq_char s = true -> no_char eq_char u = true ->
  obj_schema (obj_name s u) = s /\ obj_uuid (obj_name s u) = u.
Proof.
  intros Hs Hu. unfold obj_schema, obj_uuid, obj_name.
  rewrite (split_app_sep eq_char s u Hs), (split_one eq_char u Hu). auto.
Qed.

Lemma starts_with_app_long p a b :
  String.length p <= String.length a -> starts_with p (a ++ b) = starts_with p a.
Proof.
  revert a. induction p as [|c p IH]; intros a H; simpl; auto.
  destruct a as [|d a]; simpl in *; [lia|]. destruct (Ascii.eqb c d); auto. apply IH. lia.
Qed.

Lemma obj_name_not_reserved s u :
  8 <= String.length s -> reserved_seg s = false -> reserved_seg (obj_name s u) = false.
Proof.
  intros L R. unfold reserved_seg, obj_name in *. rewrite starts_with_app_long; auto.
Qed.

Lemma N_below_in n k : In k (N_below n) <-> (k < n)%N.
Proof.
  unfold N_below. rewrite in_map_iff. split.
  - intros (x & <- & I). apply in_seq in I. lia.
  - intros H. exists (N.to_nat k). split; [apply N2Nat.id|]. apply in_seq. lia.
Qed.

Lemma uuid_lt_iff u n : uuid_lt u n = true <-> exists k, (k < n)%N /\ uuid_of k = u.
Proof.
  unfold uuid_lt. rewrite existsb_exists. split.
  - intros (k & I & H). apply N_below_in in I. apply String.eqb_eq in H. eauto.
  - intros (k & I & H). exists k. split; [now apply N_below_in|]. now apply String.eqb_eq.
Qed.

Lemma uuid_lt_mono u n n' : (n <= n')%N -> uuid_lt u n = true -> uuid_lt u n' = true.
Proof.
  intros L H. apply uuid_lt_iff in H as (k & I & H). apply uuid_lt_iff. exists k. split; auto. lia.
Qed.

Lemma uuid_lt_fresh n : uuid_lt (uuid_of n) n = false.
Proof.
  destruct (uuid_lt (uuid_of n) n) eqn:X; auto. apply uuid_lt_iff in X as (k & I & H).
  apply uuid_of_inj in H. lia.
Qed.

Lemma name_ok_mono E n n' nm : (n <= n')%N -> name_ok E n nm = true -> name_ok E n' nm = true.
Proof.
  unfold name_ok. intros L H. apply andb_prop in H as [H H3]. rewrite H. simpl.
  now apply (uuid_lt_mono _ n n').
Qed.

Lemma known_decl E s : known E s = true -> exists d, lookup_decl E s = Some d /\ In d E /\ d_ep d = s.
Proof.
  unfold known, lookup_decl. destruct (find _ E) as [d|] eqn:F; [|discriminate]. intros _.
  apply find_some in F as [F1 F2]. apply String.eqb_eq in F2. eauto.
Qed.

Lemma env_ok_decl E d : env_ok E = true -> In d E ->
  no_char eq_char (d_ep d) = true /\ 8 <= String.length (d_ep d) /\ reserved_seg (d_ep d) = false.
Proof.
  unfold env_ok. rewrite forallb_forall. intros H I. specialize (H d I). unfold decl_ok in H.
  repeat (apply andb_prop in H as [H ?]). rewrite lacks_no_char in H. repeat split; auto.
  - now apply Nat.leb_le.
  - now apply negb_true_iff.
Qed.

Lemma name_ok_obj E n s k :
  env_ok E = true -> known E s = true -> (k < n)%N -> name_ok E n (obj_name s (uuid_of k)) = true.
Proof.
  intros EO K L. apply known_decl in K as (d & K1 & K2 & K3).
  destruct (env_ok_decl E d EO K2) as (A & _ & _). rewrite K3 in A.
  destruct (obj_name_parts s (uuid_of k) A (uuid_of_no_eq k)) as [P1 P2].
  unfold name_ok. rewrite P1, P2, String.eqb_refl. simpl.
  unfold known. rewrite K1. simpl. apply uuid_lt_iff. eauto.
Qed.

(** ** Entries survive additions *)

Lemma last_seg_app2 d m nm : last_seg (d ++ [m; nm]) = nm.
Proof. change (d ++ [m; nm]) with (d ++ [m] ++ [nm]). rewrite app_assoc. apply last_seg_app. Qed.

Lemma is_group_mono T T' p :
  (forall p' x, t_get T p' = Some x -> t_get T' p' = Some x) ->
  is_group (t_get T p) = true -> is_group (t_get T' p) = true.
Proof. intros H G. destruct (t_get T p) eqn:X; [|discriminate]. now rewrite (H _ _ X). Qed.

Lemma is_data_mono T T' p :
  (forall p' x, t_get T p' = Some x -> t_get T' p' = Some x) ->
  is_data (t_get T p) = true -> is_data (t_get T' p) = true.
Proof. intros H G. destruct (t_get T p) eqn:X; [|discriminate]. now rewrite (H _ _ X). Qed.

Lemma t_has_mono T T' p :
  (forall p' x, t_get T p' = Some x -> t_get T' p' = Some x) ->
  t_has T p = true -> t_has T' p = true.
Proof. unfold t_has. intros H G. destruct (t_get T p) eqn:X; [|discriminate]. now rewrite (H _ _ X). Qed.

Lemma chk_entry_mono E T T' n n' p o :
  (forall p' x, t_get T p' = Some x -> t_get T' p' = Some x) ->
  (n <= n')%N ->
  (forall q, In q (objs T') -> In q (objs T) \/ uuid_lt (uid q) n = false) ->
  chk_entry E T n p o = true -> chk_entry E T' n' p o = true.
Proof.
  intros Hm Ln Ho. unfold chk_entry. intros H. apply andb_prop in H as [H1 H2].
  apply andb_true_intro. split.
  - destruct p; auto. now apply (is_group_mono T T').
  - destruct (classify p) eqn:C; auto.
    + (* dir *) apply andb_prop in H2 as [H2 H4]. apply andb_prop in H2 as [H2 H3].
      rewrite H2. simpl. apply andb_true_intro. split.
      * unfold owner_ok in *. destruct (String.eqb _ ""); [now apply (is_group_mono T T')|
          now apply (is_data_mono T T')].
      * apply has_children_iff in H4 as (c & C1 & C2). apply has_children_iff. exists c.
        split; auto. now apply (t_has_mono T T').
    + (* object *) apply andb_prop in H2 as [H2 H4]. apply andb_prop in H2 as [H2 H3].
      rewrite H2, (name_ok_mono E n n' name Ln H3). simpl.
      rewrite forallb_forall in *. intros q I. destruct (Ho q I) as [I'|Fr]; auto.
      apply orb_true_iff. left. apply negb_true_iff, String.eqb_neq. intros Eu.
      apply classify_obj_inv in C as (-> & _). unfold uid at 2 in Eu. rewrite last_seg_app2 in Eu.
      unfold name_ok in H3. apply andb_prop in H3 as [_ H3]. rewrite <- Eu in H3. congruence.
Qed.

(** ** TOC entries pass the entry check *)

Lemma sat_group o : sat o (Some TG) = true -> is_group o = true.
Proof. destruct o as [[[|v] a]|]; simpl; auto. Qed.

Lemma toc_entries_ok E M T n p o :
  TocOk E M T -> is_group (t_get T []) = true ->
  in_toc p = true -> t_get T p = Some o -> chk_entry E T n p o = true.
Proof.
  intros H R I G. pose proof (H p I) as S. rewrite G in S.
  apply in_toc_inv in I as (r & ->). unfold chk_entry. rewrite classify_toc_eq.
  unfold toc_spec in S. rewrite classify_toc_eq in S.
  assert (HT : is_group (t_get T toc_segs) = true) by (apply sat_group, (H toc_segs eq_refl)).
  assert (HD : forall x, M <> [] -> In x ["links"; "schemas"; "packages"] ->
                         is_group (t_get T [toc_seg; x]) = true).
  { intros x NE Ix. apply sat_group. destruct (spec_dirs E M) as (D1 & D2 & D3).
    destruct M; [contradiction|].
    destruct Ix as [<-|[<-|[<-|[]]]].
    - rewrite <- D1. apply (H links_segs eq_refl).
    - rewrite <- D2. apply (H schemas_segs eq_refl).
    - rewrite <- D3. apply (H packages_segs eq_refl). }
  pose proof (classify_toc_inv r) as C.
  destruct (classify_toc r) eqn:K; try contradiction; try subst r; simpl parent;
    rewrite ?in_toc_cons, ?andb_true_r; auto.
  - (* PLinkGrp *) destruct (uses M s) eqn:U; [|destruct o as [[] ?]; discriminate].
    apply HD; simpl; auto. eapply M_nonempty_of_uses; eauto.
  - (* PLink *) destruct (find _ M) as [q|] eqn:F; [|destruct o as [[] ?]; discriminate].
    apply find_some in F as [F1 F2]. apply andb_prop in F2 as [F2 _]. apply String.eqb_eq in F2.
    assert (U : uses M s = true) by (apply uses_iff; eauto).
    apply sat_group. pose proof (H (linkgrp_path s) eq_refl) as X.
    rewrite spec_linkgrp, U in X. exact X.
  - destruct (uses M s) eqn:U; [|destruct o as [[] ?]; discriminate].
    apply HD; simpl; auto. eapply M_nonempty_of_uses; eauto.
  - destruct (uses M s) eqn:U; [|destruct o as [[] ?]; discriminate].
    apply sat_group. pose proof (H (schema_path s) eq_refl) as X. rewrite spec_schema, U in X. exact X.
  - destruct (uses M s) eqn:U; [|destruct o as [[] ?]; discriminate].
    apply sat_group. pose proof (H (schema_path s) eq_refl) as X. rewrite spec_schema, U in X. exact X.
  - destruct (existsb _ M) eqn:X; [|destruct o as [[] ?]; discriminate].
    apply HD; simpl; auto. apply existsb_exists in X as (q & I & _). intros ->. destruct I.
  - destruct o as [[] ?]; discriminate.
Qed.

(** ** Attach *)

Lemma meta_dir_shape n (isd : bool) :
  has_reserved n = false -> (isd = true -> n <> []) ->
  exists dd mm, meta_dir_of n isd = dd ++ [mm] /\ has_reserved dd = false /\ meta_seg mm = true /\
                (isd = false -> dd = n /\ mm = METADOR_META_PREF) /\
                (isd = true -> n = dd ++ [last_seg n] /\ mm = (METADOR_META_PREF ++ last_seg n)%string).
Proof.
  intros U NE. unfold meta_dir_of. destruct isd.
  - specialize (NE eq_refl). destruct (exists_last NE) as (dd & x & ->).
    exists dd, (METADOR_META_PREF ++ x)%string. rewrite last_seg_app, set_last_app.
    rewrite has_reserved_app in U. apply orb_false_iff in U as [U _].
    repeat split; auto; try discriminate.
  - exists n, METADOR_META_PREF. repeat split; auto; discriminate.
Qed.

Lemma parent_app1 l x : parent (l ++ [x]) = l.
Proof. unfold parent. apply removelast_last. Qed.

Lemma dir_not_toc d m : has_reserved d = false -> meta_seg m = true -> in_toc (d ++ [m]) = false.
Proof.
  intros Hd Hm. destruct (in_toc (d ++ [m])) eqn:I; auto. apply in_toc_inv in I as (r & I).
  pose proof (classify_dir d m Hd Hm) as C. rewrite I, classify_toc_eq in C.
  pose proof (classify_toc_inv r) as X. rewrite C in X. destruct X.
Qed.

Lemma dir_not_obj d m : has_reserved d = false -> meta_seg m = true -> is_obj_path (d ++ [m]) = false.
Proof. intros Hd Hm. unfold is_obj_path. now rewrite (classify_dir d m Hd Hm). Qed.

Lemma app_assoc1 (d : path) m nm : (d ++ [m]) ++ [nm] = d ++ [m; nm].
Proof. now rewrite <- app_assoc. Qed.

Lemma sraw_obj_fresh E T n pr q :
  SyncRaw E T n pr -> In q (objs T) -> uuid_lt (uid q) n = true.
Proof.
  intros S I. apply in_objs in I as [I1 I2]. unfold t_has in I1.
  destruct (t_get T q) as [o|] eqn:G; [|discriminate].
  pose proof (sr_entries _ _ _ _ S q o G) as C. unfold chk_entry in C.
  apply andb_prop in C as [_ C]. unfold is_obj_path in I2.
  destruct (classify q) eqn:K; try discriminate.
  apply andb_prop in C as [C _]. apply andb_prop in C as [_ C].
  apply classify_obj_inv in K as (-> & _). unfold uid. rewrite last_seg_app2.
  unfold name_ok in C. now apply andb_prop in C as [_ C].
Qed.

Lemma sraw_dir_group E T n pr d m x :
  SyncRaw E T n pr -> has_reserved d = false -> meta_seg m = true ->
  t_get T (d ++ [m]) = Some x -> is_group (Some x) = true.
Proof.
  intros S Hd Hm G. pose proof (sr_entries _ _ _ _ S _ _ G) as C. unfold chk_entry in C.
  apply andb_prop in C as [_ C]. rewrite (classify_dir d m Hd Hm) in C.
  apply andb_prop in C as [C _]. now apply andb_prop in C as [C _].
Qed.

Lemma sraw_parent E T n pr p o :
  SyncRaw E T n pr -> t_get T p = Some o -> p <> [] -> is_group (t_get T (parent p)) = true.
Proof.
  intros S G NE. pose proof (sr_entries _ _ _ _ S _ _ G) as C. unfold chk_entry in C.
  apply andb_prop in C as [C _]. destruct p; [contradiction|]. exact C.
Qed.

Lemma match_nonempty {X} (l : list string) (a b : X) :
  l <> [] -> match l with [] => a | _ :: _ => b end = b.
Proof. destruct l; [contradiction|reflexivity]. Qed.

Lemma app1_nonempty (l : path) x : l ++ [x] <> [].
Proof. destruct l; discriminate. Qed.

Lemma attach_raw E st n schema v d o :
  env_ok E = true ->
  SyncRaw E (raw st) (next_id st) (prov st) ->
  has_reserved n = false -> (last_seg n <> "" \/ n = []) ->
  t_get (raw st) n = Some o ->
  lookup_decl E schema = Some d ->
  has_obj_of (raw st) (meta_dir_of n (is_data (Some o))) schema = false ->
  SyncRaw E (raw (fst (c_attach st n schema (d_pkg d) v)))
          (next_id (fst (c_attach st n schema (d_pkg d) v)))
          (prov (fst (c_attach st n schema (d_pkg d) v))).
Proof.
  intros EO S Un Ln G LD HO. unfold c_attach. rewrite G.
  unfold has_obj_of in HO. rewrite HO. simpl fst. cbn [raw next_id prov].
  set (T := raw st) in *. set (nx := next_id st) in *.
  set (isd := is_data (Some o)) in *. set (md := meta_dir_of n isd) in *.
  set (u := uuid_of nx). set (op := md ++ [obj_name schema u]).
  assert (Kn : known E schema = true) by (unfold known; now rewrite LD).
  assert (Pk : pkg_of E schema = d_pkg d) by (unfold pkg_of; now rewrite LD).
  destruct (known_decl E schema Kn) as (d' & LD' & InD & Ep). rewrite LD in LD'. inversion LD'; subst d'.
  destruct (env_ok_decl E d EO InD) as (A1 & A2 & A3). rewrite Ep in A1, A2, A3.
  destruct (obj_name_parts schema u A1 (uuid_of_no_eq nx)) as [P1 P2].
  assert (NEd : isd = true -> n <> []).
  { intros I ->. pose proof (sr_root _ _ _ _ S) as R. fold T in R. rewrite G in R.
    unfold isd in I. destruct o as [[|?] ?]; simpl in *; discriminate. }
  destruct (meta_dir_shape n isd Un NEd) as (dd & mm & Hmd & Udd & Mmm & Sg & Sd).
  fold md in Hmd.
  assert (Rnm : reserved_seg (obj_name schema u) = false) by now apply obj_name_not_reserved.
  assert (Cop : classify op = PMetaObj dd mm (obj_name schema u)).
  { unfold op. rewrite Hmd, app_assoc1. now apply classify_obj. }
  assert (Cmd : classify md = PMetaDir dd mm) by (rewrite Hmd; now apply classify_dir).
  assert (Sop : sch op = schema) by (unfold sch, op; now rewrite last_seg_app).
  assert (Uop : uid op = u) by (unfold uid, op; now rewrite last_seg_app).
  assert (Oop : is_obj_path op = true) by (unfold is_obj_path; now rewrite Cop).
  assert (Omd : is_obj_path md = false) by (unfold is_obj_path; now rewrite Cmd).
  assert (Top : in_toc op = false) by now apply obj_not_toc.
  assert (Tmd : in_toc md = false) by (rewrite Hmd; now apply dir_not_toc).
  assert (Fr : forall q', In q' (objs T) -> uid q' <> u).
  { intros q' I Eu. pose proof (sraw_obj_fresh E T nx _ q' S I) as X. rewrite Eu in X.
    unfold u in X. now rewrite uuid_lt_fresh in X. }
  assert (Nop : t_has T op = false).
  { destruct (t_has T op) eqn:X; auto. exfalso. apply (Fr op); auto. apply in_objs. auto. }
  set (T1 := t_put (ensure_group T md) op (new_data v)).
  assert (L1 : forall p, t_get T1 p =
                         match t_get T p with
                         | Some x => Some x
                         | None => if path_eqb md p then Some new_group
                                   else if path_eqb op p then Some (new_data v) else None
                         end).
  { intros p. unfold T1. rewrite t_get_put, ensure_group_cput, t_get_cput. simpl fst. simpl snd.
    destruct (t_get T p); auto. destruct (path_eqb md p); auto. }
  assert (O1 : objs T1 = objs T ++ [op]).
  { unfold T1. rewrite objs_put, Oop, ensure_group_cput, objs_cput; auto. }
  assert (N1 : NoDup (map fst T1)).
  { unfold T1. apply nodup_put.
    - rewrite ensure_group_cput. apply nodup_cput. apply (sr_nodup _ _ _ _ S).
    - unfold t_has. rewrite ensure_group_cput, t_get_cput. simpl fst.
      unfold t_has in Nop. destruct (t_get T op); [discriminate|].
      destruct (path_eqb md op) eqn:X; auto. apply path_eqb_eq in X.
      rewrite <- X in Oop. congruence. }
  assert (TO1 : TocOk E (objs T) T1).
  { intros p I. rewrite L1. pose proof (sr_tocok _ _ _ _ S p I) as X. fold T in X.
    destruct (t_get T p); auto.
    destruct (path_eqb md p) eqn:X1; [apply path_eqb_eq in X1; subst p; congruence|].
    destruct (path_eqb op p) eqn:X2; [apply path_eqb_eq in X2; subst p; congruence|]. auto. }
  assert (Fr' : forall q', In q' (objs T) -> uid q' <> uid op) by (rewrite Uop; exact Fr).
  destruct (attach_toc E (objs T) T1 op TO1 Fr') as [EQ TO3].
  rewrite Sop, Uop, Pk in EQ.
  change (SyncRaw E (add_link (reg_schema T1 schema (d_pkg d)) schema u op) (N.succ nx)
                  ((schema, d_pkg d) :: prov st)).
  rewrite EQ.
  rewrite Sop, Uop, Pk in TO3.
  set (L := regL schema (d_pkg d) ++ linkL schema u op) in *.
  assert (SO : SameOutside T1 (puts L T1)).
  { apply so_puts. intros e I. unfold L in I. apply in_app_or in I as [I|I]; simpl in I;
      repeat (destruct I as [<-|I]; [reflexivity|]); destruct I. }
  destruct SO as (SO1 & SO2 & SO3).
  assert (Mono : forall p' x, t_get T p' = Some x -> t_get (puts L T1) p' = Some x).
  { intros p' x Gx. rewrite t_get_puts, L1, Gx. reflexivity. }
  assert (HasOp : t_get (puts L T1) op = Some (new_data v)).
  { rewrite SO1, L1 by auto. unfold t_has in Nop. destruct (t_get T op); [discriminate|].
    destruct (path_eqb md op) eqn:X; [apply path_eqb_eq in X; rewrite <- X in Oop; congruence|].
    now rewrite path_eqb_refl. }
  assert (GrpMd : is_group (t_get (puts L T1) md) = true).
  { rewrite SO1, L1 by auto. destruct (t_get T md) eqn:X.
    - rewrite Hmd in X. now apply (sraw_dir_group E T nx _ dd mm o0 S).
    - now rewrite path_eqb_refl. }
  assert (Own : owner_ok (puts L T1) dd mm = true).
  { unfold owner_ok. destruct isd eqn:I.
    - destruct (Sd eq_refl) as [Sn Sm]. rewrite Sm, drop_str_app.
      destruct Ln as [Ln| ->]; [|now destruct NEd].
      apply String.eqb_neq in Ln. rewrite Ln. rewrite <- Sn.
      rewrite (Mono n o G). exact I.
    - destruct (Sg eq_refl) as [Sn Sm]. subst dd mm.
      change (drop_str (String.length METADOR_META_PREF) METADOR_META_PREF) with "".
      rewrite String.eqb_refl, (Mono n o G). unfold isd in I.
      destruct o as [[|?] ?]; simpl in *; auto; discriminate. }
  constructor.
  - now apply SO3.
  - rewrite SO1 by reflexivity. rewrite L1. pose proof (sr_root _ _ _ _ S) as R. fold T in R.
    destruct (t_get T []); [exact R|discriminate].
  - intros p o' Gp. destruct (in_toc p) eqn:Ip.
    + apply (toc_entries_ok E (objs T ++ [op])); auto.
      rewrite SO1 by reflexivity. rewrite L1. pose proof (sr_root _ _ _ _ S) as R. fold T in R.
      destruct (t_get T []); [exact R|discriminate].
    + rewrite SO1, L1 in Gp by auto. destruct (t_get T p) as [x|] eqn:Gx.
      * inversion Gp; subst x.
        apply (chk_entry_mono E T (puts L T1) nx (N.succ nx)); auto; [lia| |].
        -- intros q I. rewrite SO2, O1 in I. apply in_app_or in I as [I|[<-|[]]]; auto.
           right. rewrite Uop. apply uuid_lt_fresh.
        -- apply (sr_entries _ _ _ _ S p o' Gx).
      * destruct (path_eqb md p) eqn:X1.
        -- apply path_eqb_eq in X1. subst p. inversion Gp; subst o'.
           unfold chk_entry. rewrite Cmd.
           rewrite (match_nonempty md) by (rewrite Hmd; apply app1_nonempty).
           replace (parent md) with dd by (rewrite Hmd; symmetry; apply parent_app1).
           apply andb_true_intro. split.
           ++ destruct isd eqn:I.
              ** destruct (Sd eq_refl) as [Sn _].
                 assert (Pn : parent n = dd) by (rewrite Sn; apply parent_app1).
                 rewrite <- Pn. apply (is_group_mono T); auto.
                 apply (sraw_parent E T nx _ n o S G). now apply NEd.
              ** destruct (Sg eq_refl) as [Sn _]. subst dd. rewrite (Mono n o G).
                 unfold isd in I. destruct o as [[|?] ?]; simpl in *; auto; discriminate.
           ++ simpl is_group. rewrite Own. simpl. apply has_children_iff. exists op. split.
              ** apply is_child_iff. exists (obj_name schema u). reflexivity.
              ** change (t_has (puts L T1) op = true). unfold t_has. now rewrite HasOp.
        -- destruct (path_eqb op p) eqn:X2; [|discriminate].
           apply path_eqb_eq in X2. subst p. inversion Gp; subst o'.
           unfold chk_entry. rewrite Cop.
           rewrite (match_nonempty op) by apply app1_nonempty.
           replace (parent op) with md by (symmetry; apply parent_app1).
           apply andb_true_intro. split.
           ++ exact GrpMd.
           ++ simpl is_data. pose proof (name_ok_obj E (N.succ nx) schema nx EO Kn) as NK.
              fold u in NK. rewrite NK by lia. simpl.
              rewrite forallb_forall. intros q I. rewrite SO2, O1 in I.
              apply in_app_or in I as [I|[<-|[]]].
              ** apply orb_true_iff. left. apply negb_true_iff, String.eqb_neq. now apply Fr'.
              ** apply orb_true_iff. right. apply path_eqb_refl.
  - rewrite SO2, O1. exact TO3.
  - intros q I. rewrite SO2, O1 in I. simpl assoc.
    destruct (String.eqb schema (sch q)) eqn:X.
    + apply String.eqb_eq in X. now rewrite <- X, Pk.
    + apply in_app_or in I as [I|[<-|[]]].
      * apply (sr_prov _ _ _ _ S q I).
      * rewrite Sop, String.eqb_refl in X. discriminate.
Qed.
