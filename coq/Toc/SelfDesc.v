(** * SelfDesc: the schema / package bookkeeping of a Metador container (property C20).

    Transcribes from [container/interface.py], as total Gallina functions over an
    environment [env] (the plugin system: [schemas.get(..).schema_json()],
    [schemas.parent_path], [schemas.provider]):
    - [TOCSchemas._register] / [_unregister] with [_update_parents_children] and the
      [_used] tracker, [TOCPackages._register] / [_unregister] with the [_providers] table
      (a function of the stored package infos: [providers_of]);
    - [TOCLinks.register] / [unregister] (the schema is registered on every new link and
      unregistered when its last link goes);
    - the container operations as far as they touch this bookkeeping: attach
      ([MetadorMeta.__setitem__]), detach ([__delitem__]), delete of a subtree
      ([_destroy_meta] at and below the node), copy with metadata ([repair_missing]:
      every copied object gets a fresh UUID and is registered), move (links re-targeted),
      and opening the container again ([load]: [TOCPackages.__init__], [TOCSchemas.__init__]
      rebuild the in-memory tables from what is stored).

    State: what is stored under [/metador_container/{links,schemas,packages}] plus the
    in-memory tables [_parents], [_children], [_used].  An attached metadata object is
    identified with its TOC link (their one-to-one correspondence is property C06); the
    user tree itself (property C08) is not part of this model, node paths only locate
    objects.  The stored JSON Schema is an opaque string here; its relation to stored
    objects is [Schema/JsonSchema.v].

    Model file: definitions only; lemmas are in [Toc/SelfDescProofs.v]. *)
From Coq Require Import List String Ascii Bool NArith.
From MV Require Import Base.Sx Toc.Layout Toc.UserView.
From MV Require Schema.JsonSchema.
Import ListNotations.
Local Open Scope string_scope.
Local Open Scope list_scope.

(** ** Keys: plugin references (name, version) and packages (name, version) *)
Definition key : Type := (string * string)%type.
Definition sref : Type := key.
Definition pkgid : Type := key.

Definition key_eqb (a b : key) : bool :=
  String.eqb (fst a) (fst b) && String.eqb (snd a) (snd b).

Definition kmem (k : key) (l : list key) : bool := existsb (key_eqb k) l.
Definition set_add (k : key) (l : list key) : list key := if kmem k l then l else l ++ [k].
Definition set_remove (k : key) (l : list key) : list key :=
  filter (fun x => negb (key_eqb x k)) l.

Fixpoint kget {X : Type} (k : key) (m : list (key * X)) : option X :=
  match m with
  | [] => None
  | (k', x) :: r => if key_eqb k k' then Some x else kget k r
  end.
Definition khas {X : Type} (k : key) (m : list (key * X)) : bool :=
  match kget k m with Some _ => true | None => false end.
Definition kdel {X : Type} (k : key) (m : list (key * X)) : list (key * X) :=
  filter (fun e => negb (key_eqb (fst e) k)) m.
Definition kset {X : Type} (k : key) (x : X) (m : list (key * X)) : list (key * X) :=
  kdel k m ++ [(k, x)].
Definition kgetl (k : key) (m : list (key * list key)) : list key :=
  match kget k m with Some l => l | None => [] end.

(** ** Environment and state *)
Record pkgmeta : Type := mkpkg {
  pk_id : pkgid;                   (* [name], [version] *)
  pk_url : string;                 (* [repository_url] *)
  pk_plugins : list sref }.        (* [plugins["schema"]] *)

Record env : Type := mkenv {
  e_json : sref -> string;         (* [schemas.get(name, version).schema_json()] *)
  e_parents : sref -> list sref;   (* [schemas.parent_path(name, version)] *)
  e_provider : sref -> pkgmeta;    (* [schemas.provider(ref)] *)
  e_ok : sref -> bool }.           (* installed, not auxiliary, and the version the plugin system
                                      resolves a request for it to (its own latest compatible
                                      version): objects are stored under such references only *)

Record lnk : Type := mklnk { l_uuid : N; l_schema : sref; l_node : path }.
Record srec : Type := mksrec { s_json : string; s_compat : list sref }.

Record toc : Type := mktoc {
  links : list lnk;                            (* stored: [links/<schema>/<uuid>] = object *)
  schemas : list (sref * srec);                (* stored: [schemas/<schema>/{jsonschema.json,compat}] *)
  pkgs : list (pkgid * pkgmeta);               (* stored: [packages/<pkg>] *)
  parents : list (sref * list sref);           (* memory: [_parents] *)
  children : list (sref * list sref);          (* memory: [_children] *)
  used : list (pkgid * list sref);             (* memory: [_used] *)
  next : N }.                                  (* fresh UUID supply *)

Definition init : toc := mktoc [] [] [] [] [] [] 0%N.

(** [TOCPackages._providers]: the stored packages that list the schema. *)
Definition provides (r : sref) (e : pkgid * pkgmeta) : bool := kmem r (pk_plugins (snd e)).
Definition providers_of (K : list (pkgid * pkgmeta)) (r : sref) : list (pkgid * pkgmeta) :=
  filter (provides r) K.

(** ** [_update_parents_children] *)
Definition pcmap : Type := (list (sref * list sref) * list (sref * list sref))%type.

Fixpoint upc_add (r : sref) (pre rest : list sref) (pc : pcmap) : pcmap :=
  match rest with
  | [] => pc
  | p :: rest' =>
      let pre' := pre ++ [p] in
      let P := if khas p (fst pc) then fst pc else kset p pre' (fst pc) in
      let C0 := if khas p (snd pc) then snd pc else kset p [] (snd pc) in
      let C := if key_eqb p r then C0 else kset p (set_add r (kgetl p C0)) C0 in
      upc_add r pre' rest' (P, C)
  end.

(** [S]: the schemas in use after the removal. *)
Fixpoint upc_del (r : sref) (S : list sref) (ps : list sref) (pc : pcmap) : pcmap :=
  match ps with
  | [] => pc
  | p :: rest =>
      let pc' :=
        if kmem p S then (fst pc, kset p (set_remove r (kgetl p (snd pc))) (snd pc))
        else if forallb (fun c => negb (kmem c S)) (kgetl p (snd pc))
             then (kdel p (fst pc), kdel p (snd pc))
             else pc in
      upc_del r S rest pc'
  end.

Definition use_add (r : sref) (ps : list (pkgid * pkgmeta)) (U : list (pkgid * list sref))
  : list (pkgid * list sref) :=
  fold_left (fun U e => kset (fst e) (set_add r (kgetl (fst e) U)) U) ps U.

(** ** [TOCSchemas._register].  [None]: an exception part-way ([h5py] refuses to overwrite
    the package dataset; [KeyError] when the environment's package does not list the
    schema) - excluded for well-formed environments by [SelfDescProofs.reg_total]. *)
Definition reg_schema (E : env) (st : toc) (r : sref) : option toc :=
  if khas r (schemas st) then Some st else
  let pp := e_parents E r in
  let S1 := kset r (mksrec (e_json E r) pp) (schemas st) in
  let pc := upc_add r [] pp (parents st, children st) in
  let o :=
    match providers_of (pkgs st) r with
    | [] =>
        let info := e_provider E r in
        if khas (pk_id info) (pkgs st) then None
        else Some (kset (pk_id info) info (pkgs st), kset (pk_id info) [] (used st))
    | _ => Some (pkgs st, used st)
    end in
  match o with
  | None => None
  | Some (K1, U1) =>
      match providers_of K1 r with
      | [] => None
      | ps => Some (mktoc (links st) S1 K1 (fst pc) (snd pc) (use_add r ps U1) (next st))
      end
  end.

(** ** [TOCSchemas._unregister] *)
Definition drop_use (r : sref) (KU : list (pkgid * pkgmeta) * list (pkgid * list sref))
                    (e : pkgid * pkgmeta) :=
  let u := set_remove r (kgetl (fst e) (snd KU)) in
  let U' := kset (fst e) u (snd KU) in
  match u with
  | [] => (kdel (fst e) (fst KU), U')          (* [TOCPackages._unregister] *)
  | _ => (fst KU, U')
  end.

Definition unreg_schema (st : toc) (r : sref) : toc :=
  let S1 := kdel r (schemas st) in
  let pc := upc_del r (map fst S1) (kgetl r (parents st)) (parents st, children st) in
  let KU := fold_left (drop_use r) (providers_of (pkgs st) r) (pkgs st, used st) in
  mktoc (links st) S1 (fst KU) (fst pc) (snd pc) (snd KU) (next st).

(** ** [TOCLinks.register] / [unregister] *)
Definition set_links (st : toc) (ls : list lnk) : toc :=
  mktoc ls (schemas st) (pkgs st) (parents st) (children st) (used st) (next st).
Definition set_next (st : toc) (n : N) : toc :=
  mktoc (links st) (schemas st) (pkgs st) (parents st) (children st) (used st) n.

(** [_set_raw] / [repair_missing]: reserve a fresh UUID, register schema and link. *)
Definition register (E : env) (st : toc) (r : sref) (node : path) : option toc :=
  match reg_schema E st r with
  | None => None
  | Some st1 =>
      Some (set_next (set_links st1 (links st1 ++ [mklnk (next st1) r node])) (N.succ (next st1)))
  end.

Definition unregister (st : toc) (u : N) : toc :=
  match find (fun l => N.eqb (l_uuid l) u) (links st) with
  | None => st
  | Some l =>
      let ls := filter (fun l' => negb (N.eqb (l_uuid l') u)) (links st) in
      let st1 := set_links st ls in
      if existsb (fun l' => key_eqb (l_schema l') (l_schema l)) ls then st1
      else unreg_schema st1 (l_schema l)
  end.

(** ** Opening the container: rebuild the in-memory tables from what is stored. *)
Definition load_step (K : list (pkgid * pkgmeta))
                     (acc : pcmap * list (pkgid * list sref)) (e : sref * srec) :=
  (upc_add (fst e) [] (s_compat (snd e)) (fst acc),
   use_add (fst e) (providers_of K (fst e)) (snd acc)).

Definition load (st : toc) : toc :=
  let U0 := map (fun e => (fst e, @nil sref)) (pkgs st) in
  let acc := fold_left (load_step (pkgs st)) (schemas st) (([], []), U0) in
  mktoc (links st) (schemas st) (pkgs st) (fst (fst acc)) (snd (fst acc)) (snd acc) (next st).

(** ** Container operations *)
Inductive op : Type :=
| OAttach (node : path) (r : sref)
| ODetach (node : path) (name : string)
| ODelete (node : path)
| OCopy (src dst : path)
| OMove (src dst : path)
| OReopen.

Inductive sres : Type := SOk | SRefused | SBroken.

Definition at_node (node : path) (name : string) (l : lnk) : bool :=
  path_eqb (l_node l) node && String.eqb (fst (l_schema l)) name.

Definition register_all (E : env) (st : toc) (todo : list (sref * path)) : option toc :=
  fold_left (fun o rn => match o with
                         | None => None
                         | Some st => register E st (fst rn) (snd rn)
                         end) todo (Some st).

Definition step (E : env) (st : toc) (o : op) : toc * sres :=
  match o with
  | OAttach node r =>
      if negb (e_ok E r) || existsb (at_node node (fst r)) (links st) then (st, SRefused)
      else match register E st r node with
           | Some st' => (st', SOk)
           | None => (st, SBroken)
           end
  | ODetach node name =>
      match find (at_node node name) (links st) with
      | None => (st, SRefused)
      | Some l => (unregister st (l_uuid l), SOk)
      end
  | ODelete node =>
      (fold_left unregister
                 (map l_uuid (filter (fun l => is_prefix node (l_node l)) (links st))) st, SOk)
  | OCopy src dst =>
      let todo := map (fun l => (l_schema l, rebase src dst (l_node l)))
                      (filter (fun l => is_prefix src (l_node l)) (links st)) in
      match register_all E st todo with
      | Some st' => (st', SOk)
      | None => (st, SBroken)
      end
  | OMove src dst =>
      (set_links st (map (fun l => mklnk (l_uuid l) (l_schema l) (rebase src dst (l_node l)))
                         (links st)), SOk)
  | OReopen => (load st, SOk)
  end.

Definition run (E : env) (st : toc) (ops : list op) : toc :=
  fold_left (fun st o => fst (step E st o)) ops st.

(** ** What the container reports *)
(** [mc.metador.schemas[ref]] (the stored JSON Schema, as text). *)
Definition rep_json (st : toc) (r : sref) : option string :=
  option_map s_json (kget r (schemas st)).
(** [mc.metador.schemas.parent_path(ref)]. *)
Definition rep_parents (st : toc) (r : sref) : option (list sref) := kget r (parents st).
(** [mc.metador.schemas.provider(ref)]: the info of a stored package listing [ref]. *)
Definition rep_provider (st : toc) (r : sref) : option pkgmeta :=
  match providers_of (pkgs st) r with
  | e :: _ => Some (snd e)
  | [] => None
  end.
(** [mc.metador.schemas.get(ref)]: like [schemas[ref]], [None] for a schema not in use.
    The pinned tree evaluates [self[ref]] and drops the result: always [None]. *)
Definition rep_get (st : toc) (r : sref) : option string := rep_json st r.
Definition rep_get_pinned (st : toc) (r : sref) : option string := None.
(** What is stored for a schema: [jsonschema.json] and [compat]. *)
Definition rep_stored (st : toc) (r : sref) : option srec := kget r (schemas st).

(** ** Wire format.  Environment: a finite table [(NAME VER JSON (PARENT...) PKG OK)] with
    [PKG = (NAME VER URL (PLUGIN...))], [PARENT]/[PLUGIN] = [(NAME VER)]. *)
Definition sx_key (x : sx) : option key :=
  match x with L [A n; A v] => Some (n, v) | _ => None end.
Definition of_key (k : key) : sx := L [A (fst k); A (snd k)].

Definition sx_pkg (x : sx) : option pkgmeta :=
  match x with
  | L [A n; A v; A url; pl] =>
      match sx_map sx_key pl with Some pl => Some (mkpkg (n, v) url pl) | None => None end
  | _ => None
  end.
Definition of_pkg (m : pkgmeta) : sx :=
  L [A (fst (pk_id m)); A (snd (pk_id m)); A (pk_url m); of_list of_key (pk_plugins m)].

Definition env_entry : Type := (sref * (string * list sref * pkgmeta * bool))%type.

Definition sx_entry (x : sx) : option env_entry :=
  match x with
  | L [A n; A v; A js; ps; pk; ok] =>
      match sx_map sx_key ps, sx_pkg pk, sx_bool ok with
      | Some ps, Some pk, Some ok => Some ((n, v), (js, ps, pk, ok))
      | _, _, _ => None
      end
  | _ => None
  end.

Definition env_of (tab : list env_entry) : env :=
  mkenv (fun r => match kget r tab with Some e => fst (fst (fst e)) | None => "" end)
        (fun r => match kget r tab with Some e => snd (fst (fst e)) | None => [r] end)
        (fun r => match kget r tab with Some e => snd (fst e) | None => mkpkg ("", "") "" [r] end)
        (fun r => match kget r tab with Some e => snd e | None => false end).

Definition sx_path (x : sx) : option path :=
  match x with A p => Some (norm_segs p) | _ => None end.

Definition sx_op (x : sx) : option op :=
  match x with
  | L [A "attach"; p; r] =>
      match sx_path p, sx_key r with Some p, Some r => Some (OAttach p r) | _, _ => None end
  | L [A "detach"; p; A n] => option_map (fun p => ODetach p n) (sx_path p)
  | L [A "delete"; p] => option_map ODelete (sx_path p)
  | L [A "copy"; s; d] =>
      match sx_path s, sx_path d with Some s, Some d => Some (OCopy s d) | _, _ => None end
  | L [A "move"; s; d] =>
      match sx_path s, sx_path d with Some s, Some d => Some (OMove s d) | _, _ => None end
  | L [A "reopen"] => Some OReopen
  | _ => None
  end.

Definition of_sres (r : sres) : sx :=
  A (match r with SOk => "ok" | SRefused => "refused" | SBroken => "broken" end).

(** Observation after a step: per attached object [(node schema)], per stored schema
    [(ref json compat reported-parents reported-provider)], the stored packages. *)
Definition of_state (st : toc) : sx :=
  L [of_list (fun l => L [A (name_of (l_node l)); of_key (l_schema l)]) (links st);
     of_list (fun e => L [of_key (fst e); A (s_json (snd e)); of_list of_key (s_compat (snd e));
                          of_opt (of_list of_key) (rep_parents st (fst e));
                          of_opt of_pkg (rep_provider st (fst e))]) (schemas st);
     of_list (fun e => of_pkg (snd e)) (pkgs st)].

(** Case: [(ENV (OP...))]; result: per operation [(res state)]. *)
Definition run_c20_toc (x : sx) : sx :=
  match x with
  | L [envx; opsx] =>
      match sx_map sx_entry envx, sx_map sx_op opsx with
      | Some tab, Some ops =>
          let E := env_of tab in
          let fix go (st : toc) (l : list op) : list sx :=
            match l with
            | [] => []
            | o :: r => let '(st1, rs) := step E st o in L [of_sres rs; of_state st1] :: go st1 r
            end in
          L (go init ops)
      | _, _ => sx_bad "c20 toc"
      end
  | _ => sx_bad "c20 toc"
  end.

(** The entry of the extracted runner for property C20: the schema half
    ([Schema/JsonSchema.v]) and the bookkeeping half (this file). *)
Definition run_c20 (x : sx) : sx :=
  match x with
  | L [A "schema"; c] => Schema.JsonSchema.run_c20_schema c
  | L [A "toc"; c] => run_c20_toc c
  | _ => sx_bad "c20"
  end.
