(** * UserView: a Metador container as a plain tree plus bookkeeping (property C08;
    base of the container model family C06, C07, C15, C20).

    - [tree]: a plain HDF5-like tree as an association list from absolute segment paths to
      objects (group / dataset value, attributes); the root is the entry with path [[]].
      [u_apply]/[u_step]: the h5py semantics of the group protocol on such a tree
      ([create_group], [require_group], [create_dataset], [require_dataset], [__setitem__],
      [__delitem__], [move], [copy], attribute set/delete), cf. [util/types.py]
      [H5GroupLike].  The list order carries no meaning (lookups are by key).
    - [cstate]: the raw tree of a container *including* the bookkeeping entries
      ([metador_meta_*] directories beside/below nodes, the TOC under
      [/metador_container]) plus the fresh-id counter and the schema -> package map of the
      environment.  [c_step] transcribes [container/wrappers.py] [MetadorGroup]
      (the path guard [_guard_path] on every path argument, then the raw operation, then
      the metadata fix-ups of [__delitem__]/[move]/[copy]) and
      [container/interface.py] [MetadorMeta.__setitem__/__delitem__] with the TOC updates
      of [TOCLinks]/[TOCSchemas]/[TOCPackages].
    - [user_view]: the raw tree with every path containing a reserved segment dropped;
      listings ([c_keys], [c_len], [c_visit], [c_contains]) as the wrappers compute them.
    - [run_c08 : sx -> sx] for the extracted runner.

    Two rules of the pinned tree are kept beside the demanded ones: [c_step_pinned]
    ([copy(src, group, name=...)] does not guard [name]) and [c_reversed_pinned]
    ([reversed(group)] is forwarded unfiltered to the wrapped h5py group).

    Model file: definitions only; lemmas are in [Toc/UserViewProofs.v]. *)
From Coq Require Import List String Ascii Bool NArith.
From MV Require Import Base.Sx Toc.Layout.
Import ListNotations.
Local Open Scope string_scope.
Local Open Scope list_scope.

(** ** Paths and trees *)

Definition path : Type := list string.

Fixpoint path_eqb (a b : path) : bool :=
  match a, b with
  | [], [] => true
  | x :: a', y :: b' => String.eqb x y && path_eqb a' b'
  | _, _ => false
  end.

(** [is_prefix q p]: [p] is [q] or lies below it. *)
Fixpoint is_prefix (q p : path) : bool :=
  match q with
  | [] => true
  | x :: q' => match p with
               | [] => false
               | y :: p' => String.eqb x y && is_prefix q' p'
               end
  end.

Definition is_child (c p : path) : bool :=
  Nat.eqb (List.length p) (S (List.length c)) && is_prefix c p.

Definition is_below (c p : path) : bool :=
  Nat.ltb (List.length c) (List.length p) && is_prefix c p.

Definition parent (p : path) : path := removelast p.

Inductive kind : Type := KGroup | KData (v : string).
Record obj : Type := mkobj { okind : kind; oattrs : list (string * string) }.
Definition entry : Type := (path * obj)%type.
Definition tree : Type := list entry.

Definition new_group : obj := mkobj KGroup [].
Definition new_data (v : string) : obj := mkobj (KData v) [].

Definition t_get (T : tree) (p : path) : option obj :=
  match find (fun e => path_eqb (fst e) p) T with
  | Some e => Some (snd e)
  | None => None
  end.

Definition t_has (T : tree) (p : path) : bool :=
  match t_get T p with Some _ => true | None => false end.

Definition is_group (o : option obj) : bool :=
  match o with Some (mkobj KGroup _) => true | _ => false end.
Definition is_data (o : option obj) : bool :=
  match o with Some (mkobj (KData _) _) => true | _ => false end.

Definition t_put (T : tree) (p : path) (o : obj) : tree := T ++ [(p, o)].
Definition t_cut (q : path) (T : tree) : tree :=
  filter (fun e => negb (is_prefix q (fst e))) T.
Definition t_sub (q : path) (T : tree) : tree :=
  filter (fun e => is_prefix q (fst e)) T.
Definition rebase (s d p : path) : path :=
  if is_prefix s p then d ++ skipn (List.length s) p else p.
Definition t_rename (s d : path) (T : tree) : tree :=
  map (fun e => (rebase s d (fst e), snd e)) T.
Definition t_upd (T : tree) (p : path) (f : obj -> obj) : tree :=
  map (fun e => if path_eqb (fst e) p then (fst e, f (snd e)) else e) T.

(** Create the missing groups [base ++ [s1]], [base ++ [s1; s2]], ... (h5py creates
    intermediate groups); [None] when a dataset is in the way. *)
Fixpoint mkgroups_from (T : tree) (base rest : path) : option tree :=
  match rest with
  | [] => Some T
  | s :: r =>
      let p := base ++ [s] in
      match t_get T p with
      | Some (mkobj KGroup _) => mkgroups_from T p r
      | Some _ => None
      | None => mkgroups_from (t_put T p new_group) p r
      end
  end.
Definition t_mkgroups (T : tree) (q : path) : option tree := mkgroups_from T [] q.

(** Attribute lists. *)
Definition a_has (l : list (string * string)) (k : string) : bool :=
  existsb (fun kv => String.eqb (fst kv) k) l.
Definition a_del (l : list (string * string)) (k : string) : list (string * string) :=
  filter (fun kv => negb (String.eqb (fst kv) k)) l.
Definition a_set (l : list (string * string)) (k v : string) : list (string * string) :=
  a_del l k ++ [(k, v)].

(** ** The plain tree under the group protocol *)

Inductive ubody : Type :=
| UCreateGroup (q : path)
| URequireGroup (q : path)
| UCreateDataset (q : path) (v : string)      (* also [g[q] = v] *)
| URequireDataset (q : path) (v : string)
| UDelete (q : path)
| UMove (s d : path)
| UCopy (s d : path)
| UAttrSet (q : path) (k v : string)
| UAttrDel (q : path) (k : string).

Definition u_create_group (T : tree) (q : path) : option tree :=
  match q with
  | [] => None
  | _ => if t_has T q then None else t_mkgroups T q
  end.

Definition u_require_group (T : tree) (q : path) : option tree :=
  match t_get T q with
  | Some (mkobj KGroup _) => Some T
  | Some _ => None
  | None => t_mkgroups T q
  end.

Definition u_create_dataset (T : tree) (q : path) (v : string) : option tree :=
  match q with
  | [] => None
  | _ => if t_has T q then None
         else match t_mkgroups T (parent q) with
              | None => None
              | Some T1 => Some (t_put T1 q (new_data v))
              end
  end.

Definition u_require_dataset (T : tree) (q : path) (v : string) : option tree :=
  match t_get T q with
  | Some (mkobj (KData _) _) => Some T
  | Some _ => None
  | None => u_create_dataset T q v
  end.

Definition u_delete (T : tree) (q : path) : option tree :=
  match q with
  | [] => None
  | _ => if t_has T q then Some (t_cut q T) else None
  end.

(** Source must exist, destination must not.  What is copied is a SNAPSHOT of the source
    taken before the missing intermediate groups of the destination are created, so a copy
    to a place strictly below the source itself ([copy a a/b/c]) is well defined (as in
    HDF5 and in [IH5/Overlay.v] [t_copy]). *)
Definition u_copy (T : tree) (s d : path) : option tree :=
  match s, d with
  | [], _ | _, [] => None
  | _, _ =>
      if negb (t_has T s) || t_has T d then None
      else match t_mkgroups T (parent d) with
           | None => None
           | Some T1 => Some (T1 ++ t_rename s d (t_sub s T))
           end
  end.

Definition u_move (T : tree) (s d : path) : option tree :=
  match s, d with
  | [], _ | _, [] => None
  | _, _ =>
      if is_prefix s d || negb (t_has T s) || t_has T d then None
      else match t_mkgroups T (parent d) with
           | None => None
           | Some T1 => Some (t_rename s d T1)
           end
  end.

Definition u_attr_set (T : tree) (q : path) (k v : string) : option tree :=
  if t_has T q
  then Some (t_upd T q (fun o => mkobj (okind o) (a_set (oattrs o) k v)))
  else None.

Definition u_attr_del (T : tree) (q : path) (k : string) : option tree :=
  match t_get T q with
  | Some o => if a_has (oattrs o) k
              then Some (t_upd T q (fun o => mkobj (okind o) (a_del (oattrs o) k)))
              else None
  | None => None
  end.

Definition u_apply (T : tree) (b : ubody) : option tree :=
  match b with
  | UCreateGroup q => u_create_group T q
  | URequireGroup q => u_require_group T q
  | UCreateDataset q v => u_create_dataset T q v
  | URequireDataset q v => u_require_dataset T q v
  | UDelete q => u_delete T q
  | UMove s d => u_move T s d
  | UCopy s d => u_copy T s d
  | UAttrSet q k v => u_attr_set T q k v
  | UAttrDel q k => u_attr_del T q k
  end.

(** A user operation: the group objects involved in the call (the group the method is
    called on, a destination group object), and the call. *)
Definition uop : Type := (list path * ubody)%type.

Definition u_step (T : tree) (o : uop) : tree * bool :=
  if forallb (fun c => is_group (t_get T c)) (fst o)
  then match u_apply T (snd o) with
       | Some T' => (T', true)
       | None => (T, false)
       end
  else (T, false).

Definition u_run (T : tree) (ops : list uop) : tree :=
  fold_left (fun T o => fst (u_step T o)) ops T.

(** Listings on a plain tree. *)
Definition child_paths (T : tree) (c : path) : list path :=
  filter (is_child c) (map fst T).
Definition below_paths (T : tree) (c : path) : list path :=
  filter (is_below c) (map fst T).
Definition t_keys (T : tree) (c : path) : list string := map last_seg (child_paths T c).
Definition t_visit (T : tree) (c : path) : list path :=
  map (skipn (List.length c)) (below_paths T c).

(** ** Container state *)

Record cstate : Type := mkst {
  raw : tree;                         (* everything in the file *)
  next_id : N;                        (* fresh UUID supply *)
  prov : list (string * string)       (* environment: schema -> providing package *)
}.

Definition set_raw (st : cstate) (T : tree) : cstate := mkst T (next_id st) (prov st).

Inductive res : Type :=
| ROk
| RGuard       (* ValueError of [_guard_path] *)
| RFail        (* any other exception, no effect *)
| RFailLate.   (* exception after the data effect took place (see [c_copy_fixups]) *)

(** A node path is user-visible iff no segment is reserved. *)
Definition user_path (p : path) : bool := negb (has_reserved p).
Definition user_view (T : tree) : tree := filter (fun e => user_path (fst e)) T.

(** *** Bookkeeping primitives (all paths they touch are internal) *)

Definition ensure_group (T : tree) (p : path) : tree :=
  if t_has T p then T else t_put T p new_group.

Definition has_children (T : tree) (c : path) : bool :=
  existsb (fun e => is_child c (fst e)) T.

Definition uuid_of (n : N) : string := ("u" ++ string_of_N n)%string.

Definition eq_char : ascii := "="%char.
(** Metadata object node name [<schema ep-name>=<uuid>], [StoredMetadata.from_node]. *)
Definition obj_name (schema u : string) : string := (schema ++ String eq_char u)%string.
Definition obj_schema (x : string) : string := hd "" (split eq_char x).
Definition obj_uuid (x : string) : string := last_seg (split eq_char x).

(** [find_missing.collect_missing]: below some [metador_meta_*] directory and not itself
    a meta base directory. *)
Definition is_meta_obj (p : path) : bool :=
  existsb meta_seg p && negb (meta_seg (last_seg p)).

Definition meta_objs (T : tree) (region : path) : list path :=
  filter (fun p => is_prefix region p && is_meta_obj p) (map fst T).

Fixpoint assoc (l : list (string * string)) (k : string) : string :=
  match l with
  | [] => ""
  | (k', v) :: r => if String.eqb k' k then v else assoc r k
  end.

(** [TOCSchemas._register] (+ [TOCPackages._register]). *)
Definition reg_schema (T : tree) (s pkg : string) : tree :=
  if t_has T (schemas_segs ++ [s]) then T else
  let T1 := ensure_group (ensure_group T toc_segs) schemas_segs in
  let T2 := t_put T1 (schemas_segs ++ [s]) new_group in
  let T3 := t_put T2 (schemas_segs ++ [s; "jsonschema.json"]) (new_data "jsonschema") in
  let T4 := t_put T3 (schemas_segs ++ [s; "compat"]) (new_data "compat") in
  if t_has T4 (packages_segs ++ [pkg]) then T4
  else t_put (ensure_group T4 packages_segs) (packages_segs ++ [pkg]) (new_data "pkginfo").

(** [TOCLinks.register]: the link dataset holds the path of the metadata object. *)
Definition add_link (T : tree) (s u : string) (target : path) : tree :=
  let T1 := ensure_group (ensure_group (ensure_group T toc_segs) links_segs) (links_segs ++ [s]) in
  t_put T1 (links_segs ++ [s; u]) (new_data (name_of target)).

(** [TOCSchemas._unregister] (+ [TOCPackages._unregister]) with their clean-up. *)
Definition unreg_schema (T : tree) (pr : list (string * string)) (s : string) : tree :=
  let T1 := t_cut (schemas_segs ++ [s]) T in
  let pkg := assoc pr s in
  let still_used :=
    existsb (fun e => is_child schemas_segs (fst e) &&
                      String.eqb (assoc pr (last_seg (fst e))) pkg) T1 in
  let T2 := if still_used then T1 else
              let T2a := t_cut (packages_segs ++ [pkg]) T1 in
              if has_children T2a packages_segs then T2a else t_cut packages_segs T2a in
  if has_children T2 schemas_segs then T2 else t_cut schemas_segs T2.

(** [TOCLinks.unregister]. *)
Definition unreg_link (T : tree) (pr : list (string * string)) (s u : string) : tree :=
  let T1 := t_cut (links_segs ++ [s; u]) T in
  if has_children T1 (links_segs ++ [s]) then T1 else
  let T2 := t_cut (links_segs ++ [s]) T1 in
  let T3 := unreg_schema T2 pr s in
  if has_children T3 links_segs then T3 else t_cut links_segs T3.

(** Unlink every metadata object found in the region ([_destroy_meta] with [_unlink]). *)
Definition unlink_region (T : tree) (pr : list (string * string)) (region : path) : tree :=
  fold_left (fun T op => unreg_link T pr (obj_schema (last_seg op)) (obj_uuid (last_seg op)))
            (meta_objs T region) T.

(** [repair_missing(update=True)]: point the TOC links at the moved objects. *)
Definition relink_region (T : tree) (region : path) : tree :=
  fold_left (fun T op =>
               t_upd T (links_segs ++ [obj_schema (last_seg op); obj_uuid (last_seg op)])
                     (fun o => mkobj (KData (name_of op)) (oattrs o)))
            (meta_objs T region) T.

(** [repair_missing(update=False)]: copied objects get fresh UUIDs, are renamed accordingly
    and registered. *)
Definition reuuid_region (T : tree) (n : N) (pr : list (string * string)) (region : path)
  : tree * N :=
  fold_left (fun Tn op =>
               let '(T, n) := Tn in
               let s := obj_schema (last_seg op) in
               let u := uuid_of n in
               let newp := parent op ++ [obj_name s u] in
               let T1 := t_rename op newp T in
               let T2 := reg_schema T1 s (assoc pr s) in
               (add_link T2 s u newp, N.succ n))
            (meta_objs T region) (T, n).

(** Drop the bookkeeping entries inside a copied group ([_destroy_meta(_unlink=False)]). *)
Definition strip_meta_below (T : tree) (d : path) : tree :=
  filter (fun e => negb (is_prefix d (fst e) &&
                         has_reserved (skipn (List.length d) (fst e)))) T.

(** *** Container operations *)

Inductive cop : Type :=
| CCreateGroup (cwd p : string)
| CRequireGroup (cwd p : string)
| CCreateDataset (cwd p v : string)
| CRequireDataset (cwd p v : string)
| CSetItem (cwd p v : string)
| CDelete (cwd p : string)
| CMove (cwd s d : string)
| CCopy (cwd s d : string) (without_meta : bool)
| CCopyInto (cwd s dgrp : string) (name : option string) (without_meta : bool)
| CAttrSet (cwd p k v : string)
| CAttrDel (cwd p k : string)
| CGet (cwd p : string)                          (* [g[p]], [g.get(p)], [p in g] *)
| CAttach (node schema pkg v : string)           (* [m[node].meta[schema] = v] *)
| CDetach (node schema : string).                (* [del m[node].meta[schema]] *)

(** [_guard_path]: [true] = refuse. *)
Definition guard (p : string) : bool := is_internal_path p.

(** The group object a method is called on is obtained by [m[cwd]]. *)
Definition enter (T : tree) (cwd : string) : option path :=
  let c := resolve [] cwd in
  if is_group (t_get T c) then Some c else None.

Definition lift (st : cstate) (r : option tree) : cstate * res :=
  match r with
  | Some T => (set_raw st T, ROk)
  | None => (st, RFail)
  end.

(** [__delitem__]: destroy metadata at and below the node, then delete the node. *)
Definition c_delete (st : cstate) (q : path) : cstate * res :=
  let T := raw st in
  match t_get T q with
  | Some (mkobj (KData _) _) =>
      let md := meta_dir_of q true in
      lift st (u_delete (t_cut md (unlink_region T (prov st) md)) q)
  | _ => lift st (u_delete (unlink_region T (prov st) q) q)
  end.

(** [move]: raw move, the sidecar of a dataset follows, TOC links are re-targeted. *)
Definition c_move (st : cstate) (s d : path) : cstate * res :=
  match u_move (raw st) s d with
  | None => (st, RFail)
  | Some T1 =>
      match t_get (raw st) s with
      | Some (mkobj (KData _) _) =>
          let ms := meta_dir_of s true in
          let md := meta_dir_of d true in
          let T2 := if t_has T1 ms then t_rename ms md T1 else T1 in
          (set_raw st (relink_region T2 md), ROk)
      | _ => (set_raw st (relink_region T1 d), ROk)
      end
  end.

(** The part of [copy] after the raw copy [T1] of the source object [o]. *)
Definition c_copy_fixups (st : cstate) (o : obj) (T1 : tree) (s d : path) (without_meta : bool)
  : cstate * res :=
  match okind o with
  | KData _ =>
      if without_meta then (set_raw st T1, ROk)
      else
        let ms := meta_dir_of s true in
        let md := meta_dir_of d true in
        if t_has T1 ms then
          let T2 := T1 ++ t_rename ms md (t_sub ms T1) in
          let '(T3, n) := reuuid_region T2 (next_id st) (prov st) md in
          (mkst T3 n (prov st), ROk)
        else
          (* pinned behaviour, outside C08: the sidecar copy of a dataset without metadata
             raises after the data was copied *)
          (set_raw st T1, RFailLate)
  | KGroup =>
      if without_meta then (set_raw st (strip_meta_below T1 d), ROk)
      else
        let '(T3, n) := reuuid_region T1 (next_id st) (prov st) d in
        (mkst T3 n (prov st), ROk)
  end.

Definition c_copy (st : cstate) (o : obj) (s d : path) (without_meta : bool) : cstate * res :=
  match u_copy (raw st) s d with
  | None => (st, RFail)
  | Some T1 => c_copy_fixups st o T1 s d without_meta
  end.

(** [MetadorMeta.__setitem__]. *)
Definition c_attach (st : cstate) (n : path) (schema pkg v : string) : cstate * res :=
  match t_get (raw st) n with
  | None => (st, RFail)
  | Some o =>
      let md := meta_dir_of n (is_data (Some o)) in
      let T := raw st in
      if existsb (fun e => is_child md (fst e) &&
                           starts_with (obj_name schema "") (last_seg (fst e))) T
      then (st, RFail)
      else
        let u := uuid_of (next_id st) in
        let op := md ++ [obj_name schema u] in
        let T1 := t_put (ensure_group T md) op (new_data v) in
        let T2 := reg_schema T1 schema pkg in
        let T3 := add_link T2 schema u op in
        (mkst T3 (N.succ (next_id st)) ((schema, pkg) :: prov st), ROk)
  end.

(** [MetadorMeta.__delitem__]. *)
Definition c_detach (st : cstate) (n : path) (schema : string) : cstate * res :=
  match t_get (raw st) n with
  | None => (st, RFail)
  | Some o =>
      let md := meta_dir_of n (is_data (Some o)) in
      let T := raw st in
      match find (fun p => is_child md p && starts_with (obj_name schema "") (last_seg p))
                 (map fst T) with
      | None => (st, RFail)
      | Some op =>
          let T1 := unreg_link T (prov st) schema (obj_uuid (last_seg op)) in
          let T2 := t_cut op T1 in
          let T3 := if has_children T2 md then T2 else t_cut md T2 in
          (set_raw st T3, ROk)
      end
  end.

(** Destination of [copy(src, group, name=...)]: [dest.name + "/" + name]. *)
Definition into_dest (dg : path) (s : path) (name : option string) : path :=
  match name with
  | Some n => dg ++ norm_segs n
  | None => dg ++ [last_seg s]
  end.

Definition name_guard (name : option string) : bool :=
  match name with Some n => guard n | None => false end.

(** One operation through the container interface.  [fix_name]: whether
    [copy(src, group, name=n)] guards [n] (demanded) or not (pinned). *)
Definition c_step_gen (fix_name : bool) (st : cstate) (o : cop) : cstate * res :=
  let T := raw st in
  match o with
  | CCreateGroup cwd p =>
      if guard cwd then (st, RGuard) else
      match enter T cwd with None => (st, RFail) | Some c =>
      if guard p then (st, RGuard) else
      lift st (u_create_group T (resolve c p)) end
  | CRequireGroup cwd p =>
      if guard cwd then (st, RGuard) else
      match enter T cwd with None => (st, RFail) | Some c =>
      if guard p then (st, RGuard) else
      lift st (u_require_group T (resolve c p)) end
  | CCreateDataset cwd p v =>
      if guard cwd then (st, RGuard) else
      match enter T cwd with None => (st, RFail) | Some c =>
      if guard p then (st, RGuard) else
      lift st (u_create_dataset T (resolve c p) v) end
  | CRequireDataset cwd p v =>
      if guard cwd then (st, RGuard) else
      match enter T cwd with None => (st, RFail) | Some c =>
      if guard p then (st, RGuard) else
      lift st (u_require_dataset T (resolve c p) v) end
  | CSetItem cwd p v =>
      if guard cwd then (st, RGuard) else
      match enter T cwd with None => (st, RFail) | Some c =>
      if guard p then (st, RGuard) else
      lift st (u_create_dataset T (resolve c p) v) end
  | CDelete cwd p =>
      if guard cwd then (st, RGuard) else
      match enter T cwd with None => (st, RFail) | Some c =>
      if guard p then (st, RGuard) else
      c_delete st (resolve c p) end
  | CMove cwd s d =>
      if guard cwd then (st, RGuard) else
      match enter T cwd with None => (st, RFail) | Some c =>
      if guard s then (st, RGuard) else
      if guard d then (st, RGuard) else
      c_move st (resolve c s) (resolve c d) end
  | CCopy cwd s d wm =>
      if guard cwd then (st, RGuard) else
      match enter T cwd with None => (st, RFail) | Some c =>
      if guard s then (st, RGuard) else
      match t_get T (resolve c s) with None => (st, RFail) | Some o =>
      if guard d then (st, RGuard) else
      c_copy st o (resolve c s) (resolve c d) wm end end
  | CCopyInto cwd s dgrp name wm =>
      if guard cwd then (st, RGuard) else
      match enter T cwd with None => (st, RFail) | Some c =>
      if guard dgrp then (st, RGuard) else
      match enter T dgrp with None => (st, RFail) | Some dg =>
      if guard s then (st, RGuard) else
      match t_get T (resolve c s) with None => (st, RFail) | Some o =>
      let d := into_dest dg (resolve c s) name in
      if fix_name then
        if name_guard name then (st, RGuard) else c_copy st o (resolve c s) d wm
      else
        (* pinned: raw copy first, then [self[dst_path]] trips over the guard *)
        if name_guard name then
          match u_copy T (resolve c s) d with
          | None => (st, RFail)
          | Some T1 => (set_raw st T1, RGuard)
          end
        else c_copy st o (resolve c s) d wm
      end end end
  | CAttrSet cwd p k v =>
      if guard cwd then (st, RGuard) else
      match enter T cwd with None => (st, RFail) | Some c =>
      if guard p then (st, RGuard) else
      lift st (u_attr_set T (resolve c p) k v) end
  | CAttrDel cwd p k =>
      if guard cwd then (st, RGuard) else
      match enter T cwd with None => (st, RFail) | Some c =>
      if guard p then (st, RGuard) else
      lift st (u_attr_del T (resolve c p) k) end
  | CGet cwd p =>
      if guard cwd then (st, RGuard) else
      match enter T cwd with None => (st, RFail) | Some c =>
      if guard p then (st, RGuard) else
      if t_has T (resolve c p) then (st, ROk) else (st, RFail) end
  | CAttach node schema pkg v =>
      if guard node then (st, RGuard) else c_attach st (resolve [] node) schema pkg v
  | CDetach node schema =>
      if guard node then (st, RGuard) else c_detach st (resolve [] node) schema
  end.

Definition c_step : cstate -> cop -> cstate * res := c_step_gen true.
Definition c_step_pinned : cstate -> cop -> cstate * res := c_step_gen false.

Definition c_run (st : cstate) (ops : list cop) : cstate :=
  fold_left (fun st o => fst (c_step st o)) ops st.

(** The path-string arguments of an operation (everything [_guard_path] must see). *)
Definition c_paths (o : cop) : list string :=
  match o with
  | CCreateGroup cwd p | CRequireGroup cwd p | CDelete cwd p | CGet cwd p => [cwd; p]
  | CCreateDataset cwd p _ | CRequireDataset cwd p _ | CSetItem cwd p _ => [cwd; p]
  | CAttrSet cwd p _ _ | CAttrDel cwd p _ => [cwd; p]
  | CMove cwd s d | CCopy cwd s d _ => [cwd; s; d]
  | CCopyInto cwd s dgrp name _ =>
      [cwd; s; dgrp] ++ match name with Some n => [n] | None => [] end
  | CAttach node _ _ _ | CDetach node _ => [node]
  end.

Definition op_reserved (o : cop) : bool := existsb is_internal_path (c_paths o).

(** The user operation a container operation stands for: none for metadata operations,
    read accesses and for operations naming a reserved path (those have no effect at all,
    see [C08_reserved_refused]). *)
Definition to_uop (o : cop) : option uop :=
  if op_reserved o then None else
  match o with
  | CCreateGroup cwd p => let c := resolve [] cwd in Some ([c], UCreateGroup (resolve c p))
  | CRequireGroup cwd p => let c := resolve [] cwd in Some ([c], URequireGroup (resolve c p))
  | CCreateDataset cwd p v | CSetItem cwd p v =>
      let c := resolve [] cwd in Some ([c], UCreateDataset (resolve c p) v)
  | CRequireDataset cwd p v =>
      let c := resolve [] cwd in Some ([c], URequireDataset (resolve c p) v)
  | CDelete cwd p => let c := resolve [] cwd in Some ([c], UDelete (resolve c p))
  | CMove cwd s d => let c := resolve [] cwd in Some ([c], UMove (resolve c s) (resolve c d))
  | CCopy cwd s d _ => let c := resolve [] cwd in Some ([c], UCopy (resolve c s) (resolve c d))
  | CCopyInto cwd s dgrp name _ =>
      let c := resolve [] cwd in
      Some ([c; resolve [] dgrp],
            UCopy (resolve c s) (into_dest (resolve [] dgrp) (resolve c s) name))
  | CAttrSet cwd p k v => let c := resolve [] cwd in Some ([c], UAttrSet (resolve c p) k v)
  | CAttrDel cwd p k => let c := resolve [] cwd in Some ([c], UAttrDel (resolve c p) k)
  | CGet _ _ | CAttach _ _ _ _ | CDetach _ _ => None
  end.

Fixpoint user_ops (ops : list cop) : list uop :=
  match ops with
  | [] => []
  | o :: r => match to_uop o with Some u => u :: user_ops r | None => user_ops r end
  end.

(** *** Listings as the wrappers compute them: raw listing, internal names filtered out
    ([items]/[keys]/[__len__]/[__iter__]/[values], [visititems]/[visit], [__contains__]). *)

Definition c_keys (st : cstate) (c : path) : list string :=
  map last_seg (filter user_path (child_paths (raw st) c)).
Definition c_len (st : cstate) (c : path) : nat := List.length (c_keys st c).
Definition c_visit (st : cstate) (c : path) : list path :=
  map (skipn (List.length c)) (filter user_path (below_paths (raw st) c)).
(** [None] = refused by the guard. *)
Definition c_contains (st : cstate) (c : path) (p : string) : option bool :=
  if guard p then None else Some (t_has (raw st) (resolve c p)).

(** [reversed(g)]: demanded = the filtered keys backwards; pinned = wrapt forwards
    [__reversed__] to the wrapped h5py group, nothing is filtered. *)
Definition c_reversed (st : cstate) (c : path) : list string := rev (c_keys st c).
Definition c_reversed_pinned (st : cstate) (c : path) : list string :=
  rev (t_keys (raw st) c).

(** A fresh container: [MetadorContainerTOC.__init__] writes version and uuid. *)
Definition init_raw : tree :=
  [([], new_group); (toc_segs, new_group);
   (version_segs, new_data "1.0"); (uuid_segs, new_data "container-uuid")].
Definition init_st : cstate := mkst init_raw 0%N [].

(** ** Wire format *)

Definition sx_cop (x : sx) : option cop :=
  match x with
  | L [A "mkgrp"; A cwd; A p] => Some (CCreateGroup cwd p)
  | L [A "reqgrp"; A cwd; A p] => Some (CRequireGroup cwd p)
  | L [A "mkds"; A cwd; A p; A v] => Some (CCreateDataset cwd p v)
  | L [A "reqds"; A cwd; A p; A v] => Some (CRequireDataset cwd p v)
  | L [A "set"; A cwd; A p; A v] => Some (CSetItem cwd p v)
  | L [A "del"; A cwd; A p] => Some (CDelete cwd p)
  | L [A "move"; A cwd; A s; A d] => Some (CMove cwd s d)
  | L [A "copy"; A cwd; A s; A d; wm] =>
      match sx_bool wm with Some b => Some (CCopy cwd s d b) | None => None end
  | L [A "copyinto"; A cwd; A s; A dg; nm; wm] =>
      match sx_opt sx_atom nm, sx_bool wm with
      | Some n, Some b => Some (CCopyInto cwd s dg n b)
      | _, _ => None
      end
  | L [A "aset"; A cwd; A p; A k; A v] => Some (CAttrSet cwd p k v)
  | L [A "adel"; A cwd; A p; A k] => Some (CAttrDel cwd p k)
  | L [A "get"; A cwd; A p] => Some (CGet cwd p)
  | L [A "attach"; A n; A s; A pkg; A v] => Some (CAttach n s pkg v)
  | L [A "detach"; A n; A s] => Some (CDetach n s)
  | _ => None
  end.

Definition of_res (r : res) : sx :=
  A (match r with ROk => "ok" | RGuard => "guard" | RFail => "fail" | RFailLate => "late" end).

Definition of_obj (o : obj) : list sx :=
  match okind o with
  | KGroup => [A "G"]
  | KData v => [A "D"; A v]
  end ++ [of_list (of_pair A A) (oattrs o)].

Definition of_tree (T : tree) : sx :=
  of_list (fun e => L (A (name_of (fst e)) :: of_obj (snd e))) T.

(** Per user group: name, keys, visited relative paths. *)
Definition of_listings (st : cstate) : sx :=
  of_list (fun e => let c := fst e in
                    L [A (name_of c); of_strings (c_keys st c);
                       of_strings (map path_of (c_visit st c));
                       of_strings (c_reversed st c)])
          (filter (fun e => is_group (Some (snd e))) (user_view (raw st))).

(** Case: [(ops...)].  Result: per operation [(res user-view listings)], then the final raw
    tree and the run of the plain tree over [user_ops]. *)
Definition run_c08 (x : sx) : sx :=
  match sx_map sx_cop x with
  | None => sx_bad "c08"
  | Some ops =>
      let fix go (st : cstate) (l : list cop) : list sx * cstate :=
        match l with
        | [] => ([], st)
        | o :: r =>
            let '(st1, rs) := c_step st o in
            let '(out, stn) := go st1 r in
            (L [of_res rs; of_tree (user_view (raw st1)); of_listings st1] :: out, stn)
        end in
      let '(out, stn) := go init_st ops in
      L [L out; of_tree (raw stn); of_tree (u_run (user_view init_raw) (user_ops ops))]
  end.
