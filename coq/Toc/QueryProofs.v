(** * Lemmas about the C07 model [Toc/Query.v]: the container-local schema index agrees
    with the environment on everything a query can observe, queries are exact, attached
    objects come back. *)
From Coq Require Import List String Ascii Bool NArith Lia Permutation Sorted.
From MV Require Import Base.Sx Base.Cmp Util.PluginRef Util.PluginRefProofs Toc.Query.
Import ListNotations.
Local Open Scope string_scope.
Local Open Scope list_scope.

(** ** References, sets *)

Lemma ver_eqb_eq a b : ver_eqb a b = true <-> a = b.
Proof.
  destruct a as [a1 [a2 a3]], b as [b1 [b2 b3]]. unfold ver_eqb; simpl.
  rewrite !andb_true_iff, !N.eqb_eq. split.
  - intros (-> & -> & ->). reflexivity.
  - intros H; inversion H; auto.
Qed.

Lemma sref_eqb_eq a b : sref_eqb a b = true <-> a = b.
Proof.
  destruct a as [n v], b as [n' v']. unfold sref_eqb; simpl.
  rewrite andb_true_iff, String.eqb_eq, ver_eqb_eq. split.
  - intros [-> ->]; reflexivity.
  - intros H; inversion H; auto.
Qed.

Lemma sref_eqb_refl a : sref_eqb a a = true.
Proof. apply sref_eqb_eq; reflexivity. Qed.

Lemma sref_eqb_neq a b : sref_eqb a b = false <-> a <> b.
Proof.
  destruct (sref_eqb a b) eqn:E.
  - apply sref_eqb_eq in E. split; [discriminate | congruence].
  - split; auto. intros _ H. apply sref_eqb_eq in H. congruence.
Qed.

Lemma sref_eqb_sym a b : sref_eqb a b = sref_eqb b a.
Proof.
  destruct (sref_eqb a b) eqn:E.
  - apply sref_eqb_eq in E; subst. symmetry; apply sref_eqb_refl.
  - apply sref_eqb_neq in E. symmetry. apply sref_eqb_neq. congruence.
Qed.

Lemma sref_dec (a b : sref) : a = b \/ a <> b.
Proof. destruct (sref_eqb a b) eqn:E; [left; apply sref_eqb_eq | right; apply sref_eqb_neq]; auto. Qed.

Lemma smem_In r l : smem r l = true <-> In r l.
Proof.
  unfold smem. rewrite existsb_exists. split.
  - intros (x & Hx & E). apply sref_eqb_eq in E; subst; auto.
  - intros H. exists r. split; auto. apply sref_eqb_refl.
Qed.

Lemma smem_false r l : smem r l = false <-> ~ In r l.
Proof. rewrite <- smem_In. destruct (smem r l); split; congruence. Qed.

Lemma ladd_In r l x : In x (ladd r l) <-> x = r \/ In x l.
Proof.
  unfold ladd. destruct (smem r l) eqn:E.
  - apply smem_In in E. split; auto. intros [->|H]; auto.
  - rewrite in_app_iff; simpl. split; intros [H|H]; auto.
    destruct H as [H|[]]; auto.
Qed.

Lemma lrem_In r l x : In x (lrem r l) <-> In x l /\ x <> r.
Proof.
  unfold lrem. rewrite filter_In, negb_true_iff, sref_eqb_neq. split; intros [H1 H2]; split; auto.
Qed.

(** ** Maps *)

Lemma afind_adel m k k' : afind (adel m k) k' = if sref_eqb k k' then None else afind m k'.
Proof.
  induction m as [|[k0 v0] m IH]; simpl.
  - destruct (sref_eqb k k'); reflexivity.
  - destruct (sref_eqb k0 k) eqn:E0; simpl.
    + apply sref_eqb_eq in E0; subst k0. rewrite IH.
      destruct (sref_eqb k k'); reflexivity.
    + rewrite IH. destruct (sref_eqb k0 k') eqn:E1; auto.
      apply sref_eqb_eq in E1; subst k0. rewrite sref_eqb_sym, E0. reflexivity.
Qed.

Lemma afind_aset m k v k' : afind (aset m k v) k' = if sref_eqb k k' then Some v else afind m k'.
Proof. unfold aset; simpl. rewrite afind_adel. destruct (sref_eqb k k'); reflexivity. Qed.

Lemma aget_aset m k v k' : aget (aset m k v) k' = if sref_eqb k k' then v else aget m k'.
Proof. unfold aget. rewrite afind_aset. destruct (sref_eqb k k'); reflexivity. Qed.

Lemma aget_adel m k k' : aget (adel m k) k' = if sref_eqb k k' then [] else aget m k'.
Proof. unfold aget. rewrite afind_adel. destruct (sref_eqb k k'); reflexivity. Qed.

Lemma ahas_aset m k v k' : ahas (aset m k v) k' = sref_eqb k k' || ahas m k'.
Proof. unfold ahas. rewrite afind_aset. destruct (sref_eqb k k'); reflexivity. Qed.

Lemma akeys_afind m k : In k (akeys m) <-> afind m k <> None.
Proof.
  unfold akeys. induction m as [|[k0 v0] m IH]; simpl.
  - split; [tauto | congruence].
  - destruct (sref_eqb k0 k) eqn:E.
    + apply sref_eqb_eq in E; subst. split; [discriminate | auto].
    + apply sref_eqb_neq in E. rewrite <- IH. split; [intros [H|H]; [congruence|auto] | auto].
Qed.

Lemma aget_nonempty_key m k y : In y (aget m k) -> In k (akeys m).
Proof. unfold aget. intros H. apply akeys_afind. destruct (afind m k); [discriminate | destruct H]. Qed.

(** ** The environment *)

Lemma env_get_has e r : env_has e r = true <-> env_get e r <> None.
Proof. unfold env_has. destruct (env_get e r); split; congruence. Qed.

Lemma env_wfb_wf e : env_wfb e = true -> env_wf e.
Proof.
  induction e as [|[k i] e IH]; simpl; auto.
  rewrite !andb_true_iff, negb_true_iff. intros [[H1 H2] H3]. split; [auto|]. split.
  - unfold env_has in H2. destruct (env_get e k); [discriminate | reflexivity].
  - destruct (s_parent i); auto. apply env_get_has; exact H3.
Qed.

Lemma sanc_reg e : env_wf e -> forall r a, In a (sanc e r) -> env_get e a <> None.
Proof.
  induction e as [|[k i] e IH]; simpl; [tauto|].
  intros (Hwf & Hk & Hp) r a.
  assert (Hrest : forall x, env_get e x <> None ->
            (if sref_eqb k x then Some i else env_get e x) <> None).
  { intros x Hx. destruct (sref_eqb k x); [discriminate | exact Hx]. }
  destruct (sref_eqb k r).
  - destruct (s_parent i) as [p|]; [|tauto]. rewrite in_app_iff; simpl.
    intros [H|[<-|[]]]; apply Hrest; eauto.
  - intros H. apply Hrest; eauto.
Qed.

Lemma env_get_tail k (e : env) x : env_get e k = None -> env_get e x <> None ->
  sref_eqb k x = false.
Proof.
  intros Hk Hx. apply sref_eqb_neq. intros ->. contradiction.
Qed.

Lemma sanc_tail k i e x : env_get e k = None -> env_get e x <> None ->
  sanc ((k, i) :: e) x = sanc e x.
Proof. intros Hk Hx. simpl. rewrite (env_get_tail k e x Hk Hx). reflexivity. Qed.

Lemma sanc_not_self e : env_wf e -> forall r, ~ In r (sanc e r).
Proof.
  induction e as [|[k i] e IH]; simpl; [tauto|].
  intros (Hwf & Hk & Hp) r. destruct (sref_eqb k r) eqn:E.
  - apply sref_eqb_eq in E; subst k. destruct (s_parent i) as [p|]; [|tauto].
    rewrite in_app_iff; simpl. intros [H|[<-|[]]].
    + apply (sanc_reg e Hwf) in H. contradiction.
    + contradiction.
  - apply IH; exact Hwf.
Qed.

Lemma sanc_NoDup e : env_wf e -> forall r, NoDup (sanc e r).
Proof.
  induction e as [|[k i] e IH]; simpl; [constructor|].
  intros (Hwf & Hk & Hp) r. destruct (sref_eqb k r).
  - destruct (s_parent i) as [p|]; [|constructor].
    apply NoDup_rev in IH || idtac.
    assert (H : NoDup (p :: rev (sanc e p))).
    { constructor; [rewrite <- in_rev; apply sanc_not_self; exact Hwf | apply NoDup_rev; apply IH; exact Hwf]. }
    apply NoDup_rev in H. simpl in H. rewrite rev_involutive in H. exact H.
  - apply IH; exact Hwf.
Qed.

Lemma ppath_NoDup e r : env_wf e -> NoDup (ppath e r).
Proof.
  intros Hwf. unfold ppath.
  assert (H : NoDup (r :: rev (sanc e r))).
  { constructor; [rewrite <- in_rev; apply sanc_not_self; exact Hwf | apply NoDup_rev, sanc_NoDup; exact Hwf]. }
  apply NoDup_rev in H. simpl in H. rewrite rev_involutive in H. exact H.
Qed.

(** The parent path of an ancestor is the corresponding prefix ([parents[:i+1]]). *)
Lemma sanc_prefix e : env_wf e -> forall r l1 a l2, sanc e r = l1 ++ a :: l2 -> sanc e a = l1.
Proof.
  induction e as [|[k i] e IH]; intros Hwf r l1 a l2 H.
  - destruct l1; discriminate.
  - destruct Hwf as (Hwf & Hk & Hp).
    assert (Ha : In a (sanc ((k, i) :: e) r)) by (rewrite H; apply in_elt).
    simpl in H, Ha. destruct (sref_eqb k r) eqn:E.
    + destruct (s_parent i) as [p|]; [|destruct l1; discriminate].
      destruct (exists_last (l := a :: l2)) as (l2' & z & Hz); [discriminate|].
      rewrite Hz, app_assoc in H. apply app_inj_tail in H as [H1 H2]. subst z.
      assert (Hreg : env_get e a <> None).
      { apply in_app_iff in Ha as [Ha|[<-|[]]]; [apply (sanc_reg e Hwf) in Ha|]; auto. }
      rewrite (sanc_tail k i e a Hk Hreg).
      destruct l2' as [|b l2'].
      * simpl in Hz. injection Hz as Hb _. subst a. rewrite app_nil_r in H1. auto.
      * simpl in Hz. injection Hz as Hb _. subst b. eapply IH; eauto.
    + assert (Hreg : env_get e a <> None) by (apply (sanc_reg e Hwf) in Ha; auto).
      rewrite (sanc_tail k i e a Hk Hreg). eapply IH; eauto.
Qed.

Lemma ppath_prefix e r l1 a l2 : env_wf e -> ppath e r = l1 ++ a :: l2 -> ppath e a = l1 ++ [a].
Proof.
  intros Hwf H. unfold ppath in *.
  destruct (exists_last (l := a :: l2)) as (l2' & z & Hz); [discriminate|].
  rewrite Hz, app_assoc in H. apply app_inj_tail in H as [H1 H2]. subst z.
  destruct l2' as [|b l2'].
  - simpl in Hz. injection Hz as Hb _. subst a. rewrite app_nil_r in H1. subst. reflexivity.
  - simpl in Hz. injection Hz as Hb _. subst b.
    rewrite (sanc_prefix e Hwf r l1 a l2' H1). reflexivity.
Qed.

(** [ppath] lists exactly the ancestors-or-self along the parent pointers. *)
Lemma wf_parent_reg e : env_wf e -> forall r i p,
  env_get e r = Some i -> s_parent i = Some p -> env_get e p <> None.
Proof.
  induction e as [|[k i0] e IH]; simpl; [discriminate|].
  intros (Hwf & Hk & Hp) r i p Hr Hpar.
  assert (Hrest : env_get e p <> None -> (if sref_eqb k p then Some i0 else env_get e p) <> None).
  { intros Hx. destruct (sref_eqb k p); [discriminate | exact Hx]. }
  destruct (sref_eqb k r).
  - inversion Hr; subst i0. rewrite Hpar in Hp. auto.
  - eauto.
Qed.

Lemma sanc_step e : env_wf e -> forall r i p,
  env_get e r = Some i -> s_parent i = Some p -> sanc e r = sanc e p ++ [p].
Proof.
  induction e as [|[k i0] e IH]; [discriminate|].
  intros Hwf r i p Hr Hpar. pose proof Hwf as (Hwf' & Hk & Hp).
  pose proof (wf_parent_reg _ Hwf _ _ _ Hr Hpar) as Hpreg.
  simpl in Hr. simpl sanc at 1. destruct (sref_eqb k r) eqn:E.
  - inversion Hr; subst i0. rewrite Hpar in *.
    rewrite (sanc_tail k i e p Hk Hp). reflexivity.
  - assert (Hp' : env_get e p <> None) by (eapply wf_parent_reg; eauto).
    rewrite (sanc_tail k i0 e p Hk Hp'). eapply IH; eauto.
Qed.

Lemma sanc_root e r : (forall i, env_get e r = Some i -> s_parent i = None) -> sanc e r = [].
Proof.
  induction e as [|[k i0] e IH]; simpl; auto. intros H.
  destruct (sref_eqb k r) eqn:E.
  - rewrite (H i0 eq_refl). reflexivity.
  - apply IH. exact H.
Qed.

Lemma ppath_Anc e : env_wf e -> forall r a, In a (ppath e r) <-> Anc e r a.
Proof.
  intros Hwf r a. split.
  - unfold ppath. rewrite in_app_iff; simpl. intros [H|[<-|[]]]; [|constructor].
    revert r a H. induction e as [|[k i] e IH]; simpl; [tauto|].
    destruct Hwf as (Hwf & Hk & Hp). intros r a.
    assert (Hweak : forall x y, Anc e x y -> Anc ((k, i) :: e) x y).
    { induction 1 as [|x ix px y Hx Hpx _ IHa]; [constructor|].
      eapply anc_step; eauto. simpl.
      assert (Hx' : env_get e x <> None) by congruence.
      rewrite (env_get_tail k e x Hk Hx'). exact Hx. }
    destruct (sref_eqb k r) eqn:E.
    + apply sref_eqb_eq in E; subst k. destruct (s_parent i) as [p|] eqn:Ep; [|intros []].
      rewrite in_app_iff; simpl. intros H.
      eapply anc_step with (i := i) (p := p); auto.
      * simpl. rewrite sref_eqb_refl. reflexivity.
      * apply Hweak. destruct H as [H|[<-|[]]]; [apply IH; auto | constructor].
    + intros H. apply Hweak. apply IH; auto.
  - induction 1 as [r|r i p a Hr Hp _ IH].
    + unfold ppath. apply in_app_iff; right; left; reflexivity.
    + unfold ppath in *. rewrite (sanc_step e Hwf r i p Hr Hp).
      apply in_app_iff. left. exact IH.
Qed.

Lemma Anc_acyclic e : env_wf e -> forall r a, Anc e r a -> Anc e a r -> a = r.
Proof.
  intros Hwf r a H1 H2. apply ppath_Anc in H1, H2; auto.
  unfold ppath in *. apply in_app_iff in H1, H2. simpl in *.
  destruct H1 as [H1|[H1|[]]]; auto. destruct H2 as [H2|[H2|[]]]; auto.
  apply in_split in H1 as (l1 & l2 & E1).
  pose proof (sanc_prefix e Hwf r l1 a l2 E1) as Ea. rewrite Ea in H2.
  exfalso. apply (sanc_not_self e Hwf r). rewrite E1. apply in_app_iff; auto.
Qed.

(** ** [supports] on schema references *)

Lemma vcompat_name s v a : vcompat s v a = true -> fst a = s.
Proof. unfold vcompat. rewrite andb_true_iff, String.eqb_eq. tauto. Qed.

Lemma vcompat_spec s v a :
  vcompat s v a = true <->
  fst a = s /\ match v with
               | None => True
               | Some v => vmajor v = vmajor (snd a) /\ (vminor (snd a) <= vminor v)%N
               end.
Proof.
  unfold vcompat. rewrite andb_true_iff, String.eqb_eq. destruct v as [v|]; [|tauto].
  rewrite supports_spec. unfold to_ref; simpl. split.
  - intros (H1 & _ & H2 & H3 & H4). auto.
  - intros (H1 & H3 & H4). auto.
Qed.

(** ** [_update_parents_children], add branch *)

Lemma upd_add_chi r : forall todo pre par chi x y,
  In y (aget (snd (upd_add r pre todo par chi)) x) <->
  In y (aget chi x) \/ (y = r /\ In x todo /\ x <> r).
Proof.
  induction todo as [|a rest IH]; intros pre par chi x y; simpl.
  - split; auto. intros [H|(_ & [] & _)]; auto.
  - rewrite IH. clear IH.
    set (chi1 := if ahas chi a then chi else aset chi a []).
    assert (H1 : forall z, In z (aget chi1 x) <-> In z (aget chi x)).
    { intros z. unfold chi1. destruct (ahas chi a) eqn:Eh; [tauto|].
      rewrite aget_aset. destruct (sref_eqb a x) eqn:E; [|tauto].
      apply sref_eqb_eq in E; subst x. unfold ahas in Eh. unfold aget.
      destruct (afind chi a); [discriminate | tauto]. }
    destruct (sref_eqb a r) eqn:Ear.
    + apply sref_eqb_eq in Ear; subst a. rewrite H1. split.
      * intros [H|(Hy & Hx & Hn)]; auto.
      * intros [H|(Hy & [Hx|Hx] & Hn)]; auto. congruence.
    + apply sref_eqb_neq in Ear. rewrite aget_aset.
      destruct (sref_eqb a x) eqn:Eax.
      * apply sref_eqb_eq in Eax; subst x. rewrite ladd_In, H1. split.
        -- intros [[H|H]|(Hy & Hx & Hn)]; auto.
        -- intros [H|(Hy & _ & Hn)]; auto.
      * apply sref_eqb_neq in Eax. rewrite H1. split.
        -- intros [H|(Hy & Hx & Hn)]; auto.
        -- intros [H|(Hy & [Hx|Hx] & Hn)]; auto. congruence.
Qed.

Lemma upd_add_par r : forall todo pre par chi x l,
  afind (fst (upd_add r pre todo par chi)) x = Some l ->
  afind par x = Some l \/ exists l1 l2, todo = l1 ++ x :: l2 /\ l = pre ++ l1 ++ [x].
Proof.
  induction todo as [|a rest IH]; intros pre par chi x l; simpl; auto.
  intros H. apply IH in H. destruct H as [H|(l1 & l2 & -> & ->)].
  - destruct (ahas par a) eqn:Eh; auto. rewrite afind_aset in H.
    destruct (sref_eqb a x) eqn:E; auto. apply sref_eqb_eq in E; subst a.
    inversion H; subst l. right. exists [], rest. split; auto.
  - right. exists (a :: l1), l2. split; auto. rewrite <- app_assoc. reflexivity.
Qed.

Lemma upd_add_par_keep r : forall todo pre par chi x l,
  afind par x = Some l -> afind (fst (upd_add r pre todo par chi)) x = Some l.
Proof.
  induction todo as [|a rest IH]; intros pre par chi x l H; simpl; auto.
  apply IH. destruct (ahas par a) eqn:Eh; auto. rewrite afind_aset.
  destruct (sref_eqb a x) eqn:E; auto. apply sref_eqb_eq in E; subst a.
  unfold ahas in Eh. rewrite H in Eh. discriminate.
Qed.

Lemma upd_add_par_has r : forall todo pre par chi x,
  In x todo -> afind (fst (upd_add r pre todo par chi)) x <> None.
Proof.
  induction todo as [|a rest IH]; intros pre par chi x; simpl; [tauto|].
  intros [->|H]; [|apply IH; exact H].
  destruct (ahas par x) eqn:Eh.
  - unfold ahas in Eh. destruct (afind par x) as [l|] eqn:E; [|discriminate].
    rewrite (upd_add_par_keep r rest _ _ _ x l E). discriminate.
  - rewrite (upd_add_par_keep r rest _ _ _ x (pre ++ [x])); [discriminate|].
    rewrite afind_aset, sref_eqb_refl. reflexivity.
Qed.

(** ** The index invariant: what a query can observe of the two maps agrees with [env] *)

Definition toc_ok (e : env) (t : toc) : Prop :=
  (forall x y, In y (aget (t_chi t) x) -> In x (sanc e y)) /\
  (forall y x, In y (t_used t) -> In x (sanc e y) -> In y (aget (t_chi t) x)) /\
  (forall x l, afind (t_par t) x = Some l -> l = ppath e x) /\
  (forall y, In y (t_used t) -> afind (t_par t) y <> None).

Lemma toc0_ok e : toc_ok e toc0.
Proof. repeat split; simpl; intros; try tauto; discriminate. Qed.

(** One application of the add branch to maps satisfying the map part of the invariant. *)
Lemma upd_add_ok e r par chi :
  env_wf e ->
  (forall x y, In y (aget chi x) -> In x (sanc e y)) ->
  (forall x l, afind par x = Some l -> l = ppath e x) ->
  let pc := upd_add r [] (ppath e r) par chi in
  (forall x y, In y (aget (snd pc) x) -> In x (sanc e y)) /\
  (forall x l, afind (fst pc) x = Some l -> l = ppath e x) /\
  (forall x, In x (sanc e r) -> In r (aget (snd pc) x)) /\
  afind (fst pc) r <> None /\
  (forall x y, In y (aget chi x) -> In y (aget (snd pc) x)) /\
  (forall x l, afind par x = Some l -> afind (fst pc) x = Some l).
Proof.
  intros Hwf Hs Hp pc. unfold pc. repeat split.
  - intros x y H. apply upd_add_chi in H. destruct H as [H|(-> & Hx & Hn)]; auto.
    unfold ppath in Hx. apply in_app_iff in Hx as [Hx|[Hx|[]]]; auto. congruence.
  - intros x l H. apply upd_add_par in H. destruct H as [H|(l1 & l2 & E & ->)]; auto.
    simpl. symmetry. eapply ppath_prefix; eauto.
  - intros x Hx. apply upd_add_chi. right. split; auto. split.
    + unfold ppath. apply in_app_iff; auto.
    + intros ->. apply (sanc_not_self e Hwf r Hx).
  - apply upd_add_par_has. unfold ppath. apply in_app_iff; right; left; reflexivity.
  - intros x y H. apply upd_add_chi. auto.
  - intros x l H. apply upd_add_par_keep. exact H.
Qed.

Lemma toc_register_ok e t r : env_wf e -> toc_ok e t -> toc_ok e (toc_register e t r).
Proof.
  intros Hwf (Hs & Hc & Hp & Hu). unfold toc_register.
  destruct (smem r (t_used t)) eqn:E; [repeat split; auto|].
  destruct (upd_add_ok e r (t_par t) (t_chi t) Hwf Hs Hp) as (Hs' & Hp' & Hr & Hrp & Hmono & Hpk).
  repeat split; simpl; auto.
  - intros y x Hy Hx. apply in_app_iff in Hy as [Hy|[<-|[]]]; auto.
  - intros y Hy. apply in_app_iff in Hy as [Hy|[<-|[]]]; auto.
    specialize (Hu y Hy). destruct (afind (t_par t) y) as [l|] eqn:El; [|congruence].
    rewrite (Hpk y l El). discriminate.
Qed.

Lemma toc_register_used e t r x :
  In x (t_used (toc_register e t r)) <-> x = r \/ In x (t_used t).
Proof.
  unfold toc_register. destruct (smem r (t_used t)) eqn:E; simpl.
  - apply smem_In in E. split; auto. intros [->|H]; auto.
  - rewrite in_app_iff; simpl. split; intros [H|H]; auto. destruct H as [H|[]]; auto.
Qed.

(** ** Remove branch (pinned rule) *)

Lemma del_step_props r used pc a :
  ~ In r used ->
  let pc' := del_step r used pc a in
  (forall x y, In y (aget (snd pc') x) -> In y (aget (snd pc) x)) /\
  (forall x y, In y used -> In y (aget (snd pc) x) -> In y (aget (snd pc') x)) /\
  (forall x l, afind (fst pc') x = Some l -> afind (fst pc) x = Some l) /\
  (forall y, In y used -> afind (fst pc') y = afind (fst pc) y).
Proof.
  intros Hr pc'. unfold pc', del_step. destruct (smem a used) eqn:Ea; simpl.
  - repeat split; auto.
    + intros x y. rewrite aget_aset. destruct (sref_eqb a x) eqn:E; auto.
      apply sref_eqb_eq in E; subst. rewrite lrem_In. tauto.
    + intros x y Hy. rewrite aget_aset. destruct (sref_eqb a x) eqn:E; auto.
      apply sref_eqb_eq in E; subst. rewrite lrem_In. intros H. split; auto. congruence.
  - destruct (forallb _ _) eqn:Ef; simpl; [|repeat split; auto].
    apply smem_false in Ea. repeat split.
    + intros x y. rewrite aget_adel. destruct (sref_eqb a x); [intros [] | auto].
    + intros x y Hy. rewrite aget_adel. destruct (sref_eqb a x) eqn:E; auto.
      apply sref_eqb_eq in E; subst. intros H.
      rewrite forallb_forall in Ef. specialize (Ef y H).
      apply negb_true_iff, smem_false in Ef. contradiction.
    + intros x l. rewrite afind_adel. destruct (sref_eqb a x); [discriminate | auto].
    + intros y Hy. rewrite afind_adel. destruct (sref_eqb a y) eqn:E; auto.
      apply sref_eqb_eq in E; subst. contradiction.
Qed.

Lemma fold_del_props r used : ~ In r used -> forall todo pc,
  let pc' := fold_left (del_step r used) todo pc in
  (forall x y, In y (aget (snd pc') x) -> In y (aget (snd pc) x)) /\
  (forall x y, In y used -> In y (aget (snd pc) x) -> In y (aget (snd pc') x)) /\
  (forall x l, afind (fst pc') x = Some l -> afind (fst pc) x = Some l) /\
  (forall y, In y used -> afind (fst pc') y = afind (fst pc) y).
Proof.
  intros Hr. induction todo as [|a todo IH]; intros pc; simpl; [repeat split; auto|].
  destruct (del_step_props r used pc a Hr) as (A1 & A2 & A3 & A4).
  destruct (IH (del_step r used pc a)) as (B1 & B2 & B3 & B4).
  repeat split; intros; eauto. rewrite B4, A4; auto.
Qed.

Lemma upd_del_props r used par chi :
  ~ In r used ->
  let pc' := upd_del r used par chi in
  (forall x y, In y (aget (snd pc') x) -> In y (aget chi x)) /\
  (forall x y, In y used -> In y (aget chi x) -> In y (aget (snd pc') x)) /\
  (forall x l, afind (fst pc') x = Some l -> afind par x = Some l) /\
  (forall y, In y used -> afind (fst pc') y = afind par y).
Proof. intros Hr. exact (fold_del_props r used Hr (aget par r) (par, chi)). Qed.

Lemma toc_unregister_ok e t r : toc_ok e t -> toc_ok e (toc_unregister t r).
Proof.
  intros (Hs & Hc & Hp & Hu). unfold toc_unregister.
  assert (Hr : ~ In r (lrem r (t_used t))) by (rewrite lrem_In; tauto).
  destruct (upd_del_props r (lrem r (t_used t)) (t_par t) (t_chi t) Hr) as (B1 & B2 & B3 & B4).
  repeat split; simpl.
  - intros x y H. auto.
  - intros y x Hy Hx. apply B2; auto. apply Hc; auto. apply lrem_In in Hy; tauto.
  - intros x l H. auto.
  - intros y Hy. rewrite B4; auto. apply Hu. apply lrem_In in Hy; tauto.
Qed.

(** ** Rebuild on open *)

Lemma toc_rebuild_ok e used : env_wf e -> toc_ok e (toc_rebuild e used).
Proof.
  intros Hwf. unfold toc_rebuild.
  set (f := fun (pc : amap * amap) r => upd_add r [] (ppath e r) (fst pc) (snd pc)).
  assert (G : forall l pc,
    (forall x y, In y (aget (snd pc) x) -> In x (sanc e y)) ->
    (forall x l, afind (fst pc) x = Some l -> l = ppath e x) ->
    let pc' := fold_left f l pc in
    (forall x y, In y (aget (snd pc') x) -> In x (sanc e y)) /\
    (forall x l, afind (fst pc') x = Some l -> l = ppath e x) /\
    (forall y x, (In y l \/ (forall x, In x (sanc e y) -> In y (aget (snd pc) x))) ->
                 In x (sanc e y) -> In y (aget (snd pc') x)) /\
    (forall y, (In y l \/ afind (fst pc) y <> None) -> afind (fst pc') y <> None)).
  { induction l as [|r l IH]; intros pc Hs Hp; simpl.
    - repeat split; auto.
      + intros y x [[]|H]; auto.
      + intros y [[]|H]; auto.
    - destruct (upd_add_ok e r (fst pc) (snd pc) Hwf Hs Hp) as (Hs' & Hp' & Hr & Hrp & Hmono & Hpk).
      destruct (IH (f pc r) Hs' Hp') as (C1 & C2 & C3 & C4).
      split; [exact C1|]. split; [exact C2|]. split.
      + intros y x [[<-|Hy]|Hy] Hx; apply C3; auto.
      + intros y [[<-|Hy]|Hy]; apply C4; auto.
        right. unfold f. destruct (afind (fst pc) y) as [l0|] eqn:E; [|congruence].
        rewrite (Hpk y l0 E). discriminate. }
  destruct (G used ([], [])) as (C1 & C2 & C3 & C4); simpl; try (intros; try tauto; discriminate).
  repeat split; simpl; auto.
Qed.

(** ** What a node-level query sees *)

Lemma via_child_spec e t s v o :
  toc_ok e t -> In (m_ref o) (t_used t) ->
  via_child t s v o = existsb (vcompat s v) (sanc e (m_ref o)).
Proof.
  intros (Hs & Hc & _ & _) Hu. apply eq_iff_eq_true.
  unfold via_child, compat_set, tversions.
  rewrite smem_In, in_flat_map, existsb_exists. split.
  - intros (a & Ha & Hin). apply filter_In in Ha as [_ Hv]. exists a. split; auto.
  - intros (a & Ha & Hv). exists a. split; [|auto].
    apply filter_In. split; auto. eapply aget_nonempty_key. apply Hc; eauto.
Qed.

Lemma ofind_In m s o : ofind m s = Some o -> In o m /\ oname o = s.
Proof.
  unfold ofind. intros H. apply find_some in H as [H1 H2]. apply String.eqb_eq in H2. auto.
Qed.

Lemma ofind_unique m s o :
  NoDup (map oname m) -> In o m -> oname o = s -> ofind m s = Some o.
Proof.
  unfold ofind. induction m as [|x m IH]; simpl; [tauto|].
  intros Hnd [->|Hin] Hn.
  - subst s. rewrite String.eqb_refl. reflexivity.
  - inversion Hnd as [|? ? Hnotin Hnd']. destruct (String.eqb (oname x) s) eqn:E; [|auto].
    apply String.eqb_eq in E. exfalso. apply Hnotin. rewrite E, <- Hn. apply in_map. exact Hin.
Qed.

Lemma ofind_None m s : ofind m s = None <-> forall o, In o m -> oname o <> s.
Proof.
  unfold ofind. split.
  - intros H o Ho Hn. apply (find_none _ _ H) in Ho. rewrite Hn, String.eqb_refl in Ho. discriminate.
  - intros H. destruct (find _ m) as [o|] eqn:E; auto.
    apply find_some in E as [E1 E2]. apply String.eqb_eq in E2. exfalso. eapply H; eauto.
Qed.

Lemma carries_split e s v o :
  carries e s v o = existsb (vcompat s v) (sanc e (m_ref o)) || vcompat s v (m_ref o).
Proof. unfold carries, ppath. rewrite existsb_app; simpl. rewrite orb_false_r. reflexivity. Qed.

Lemma get_raw_Some m s v o :
  NoDup (map oname m) ->
  (get_raw m s v = Some o <-> In o m /\ vcompat s v (m_ref o) = true).
Proof.
  intros Hnd. unfold get_raw. split.
  - destruct (ofind m s) as [o'|] eqn:E; [|discriminate].
    destruct (vcompat s v (m_ref o')) eqn:Ev; [|discriminate].
    intros H; inversion H; subst. apply ofind_In in E as [E _]. auto.
  - intros [Hin Hv]. rewrite (ofind_unique m s o Hnd Hin (vcompat_name _ _ _ Hv)), Hv. reflexivity.
Qed.

Lemma get_raw_None m s v :
  NoDup (map oname m) ->
  (get_raw m s v = None <-> forall o, In o m -> vcompat s v (m_ref o) = false).
Proof.
  intros Hnd. split.
  - intros H o Ho. destruct (vcompat s v (m_ref o)) eqn:Ev; auto.
    assert (get_raw m s v = Some o) by (apply get_raw_Some; auto). congruence.
  - intros H. destruct (get_raw m s v) as [o|] eqn:E; auto.
    apply get_raw_Some in E as [E1 E2]; auto. rewrite (H o E1) in E2. discriminate.
Qed.

Lemma mcontains_spec e t m s v :
  toc_ok e t -> (forall o, In o m -> In (m_ref o) (t_used t)) -> NoDup (map oname m) ->
  mcontains t m s v = existsb (carries e s v) m.
Proof.
  intros Ht Hu Hnd. apply eq_iff_eq_true. unfold mcontains, mquery. rewrite existsb_exists. split.
  - destruct (get_raw m s v) as [o|] eqn:E.
    + intros _. apply get_raw_Some in E as [E1 E2]; auto. exists o. split; auto.
      rewrite carries_split, E2. apply orb_true_r.
    + simpl. destruct (filter (via_child t s v) m) as [|o l] eqn:Ef; [discriminate|].
      intros _. assert (Ho : In o (filter (via_child t s v) m)) by (rewrite Ef; left; reflexivity).
      apply filter_In in Ho as [Ho Hv]. exists o. split; auto.
      rewrite carries_split. rewrite (via_child_spec e t s v o Ht (Hu o Ho)) in Hv. rewrite Hv. reflexivity.
  - intros (o & Ho & Hc). rewrite carries_split in Hc. apply orb_true_iff in Hc as [Hc|Hc].
    + assert (Hin : In o (filter (via_child t s v) m)).
      { apply filter_In. split; auto. rewrite (via_child_spec e t s v o Ht (Hu o Ho)). exact Hc. }
      destruct (get_raw m s v); [reflexivity|]. simpl.
      destruct (filter (via_child t s v) m); [destruct Hin | reflexivity].
    + assert (E : get_raw m s v = Some o) by (apply get_raw_Some; auto). rewrite E. reflexivity.
Qed.

(** ** Paths *)

Lemma path_eqb_eq a b : path_eqb a b = true <-> a = b.
Proof.
  revert b. induction a as [|x a IH]; intros [|y b]; simpl; try (split; [discriminate | discriminate]).
  - split; reflexivity.
  - rewrite andb_true_iff, String.eqb_eq, IH. split.
    + intros [-> ->]; reflexivity.
    + intros H; inversion H; auto.
Qed.

Lemma path_eqb_refl a : path_eqb a a = true.
Proof. apply path_eqb_eq; reflexivity. Qed.

Lemma path_eqb_neq a b : path_eqb a b = false <-> a <> b.
Proof.
  destruct (path_eqb a b) eqn:E.
  - apply path_eqb_eq in E. split; [discriminate | congruence].
  - split; auto. intros _ H. apply path_eqb_eq in H. congruence.
Qed.

Lemma is_prefix_spec q p : is_prefix q p = true <-> exists r, p = q ++ r.
Proof.
  revert p. induction q as [|x q IH]; intros p; simpl.
  - split; [intros _; exists p; reflexivity | reflexivity].
  - destruct p as [|y p].
    + split; [discriminate | intros (r & H); discriminate].
    + rewrite andb_true_iff, String.eqb_eq, IH. split.
      * intros (-> & r & ->). exists r. reflexivity.
      * intros (r & H). inversion H; subst. split; auto. exists r; reflexivity.
Qed.

Lemma is_prefix_refl p : is_prefix p p = true.
Proof. apply is_prefix_spec. exists []. rewrite app_nil_r. reflexivity. Qed.

Lemma is_prefix_app q r : is_prefix q (q ++ r) = true.
Proof. apply is_prefix_spec. exists r. reflexivity. Qed.

Lemma is_prefix_trans a b c : is_prefix a b = true -> is_prefix b c = true -> is_prefix a c = true.
Proof.
  rewrite !is_prefix_spec. intros (r1 & ->) (r2 & ->). exists (r1 ++ r2). rewrite app_assoc. reflexivity.
Qed.

Lemma is_below_spec q p : is_below q p = true <-> exists r, p = q ++ r /\ r <> [].
Proof.
  unfold is_below. rewrite andb_true_iff, negb_true_iff, path_eqb_neq, is_prefix_spec. split.
  - intros ((r & ->) & Hn). exists r. split; auto. intros ->. rewrite app_nil_r in Hn. congruence.
  - intros (r & -> & Hn). split; [exists r; reflexivity|].
    intros H. apply Hn. rewrite <- (app_nil_r q) in H at 1. apply app_inv_head in H. auto.
Qed.

Lemma is_below_prefix q p : is_below q p = true -> is_prefix q p = true.
Proof. unfold is_below. rewrite andb_true_iff. tauto. Qed.

Lemma prefix_cases q p : is_prefix q p = true -> q = p \/ is_below q p = true.
Proof.
  intros H. unfold is_below. rewrite H. destruct (path_eqb q p) eqn:E; simpl; auto.
  left. apply path_eqb_eq; exact E.
Qed.

Lemma skipn_app_len {X} (a b : list X) : skipn (List.length a) (a ++ b) = b.
Proof. induction a; simpl; auto. Qed.

Lemma rebase_app s d r : rebase s d (s ++ r) = d ++ r.
Proof. unfold rebase. rewrite skipn_app_len. reflexivity. Qed.

(** Strict prefixes of [par ++ [n]] are the prefixes of [par]. *)
Lemma below_snoc q par n : is_below q (par ++ [n]) = true <-> is_prefix q par = true.
Proof.
  rewrite is_below_spec, is_prefix_spec. split.
  - intros (r & H & Hn). destruct (exists_last Hn) as (r' & z & ->).
    rewrite app_assoc in H. apply app_inj_tail in H as [H _]. exists r'. exact H.
  - intros (r & ->). exists (r ++ [n]). split; [rewrite app_assoc; reflexivity|].
    destruct r; discriminate.
Qed.

(** ** Node tables *)

Lemma nfind_In l p nd : nfind l p = Some nd -> In nd l /\ n_path nd = p.
Proof.
  induction l as [|x l IH]; simpl; [discriminate|].
  destruct (path_eqb (n_path x) p) eqn:E.
  - intros H; inversion H; subst. apply path_eqb_eq in E. auto.
  - intros H. apply IH in H. tauto.
Qed.

Lemma nfind_None l p : nfind l p = None <-> ~ In p (map n_path l).
Proof.
  induction l as [|x l IH]; simpl; [tauto|].
  destruct (path_eqb (n_path x) p) eqn:E.
  - apply path_eqb_eq in E. split; [discriminate | intros H; exfalso; auto].
  - apply path_eqb_neq in E. rewrite IH. tauto.
Qed.

Lemma nfind_NoDup l nd : NoDup (map n_path l) -> In nd l -> nfind l (n_path nd) = Some nd.
Proof.
  induction l as [|x l IH]; simpl; [tauto|].
  intros Hnd [->|Hin].
  - rewrite path_eqb_refl. reflexivity.
  - inversion Hnd as [|? ? Hnotin Hnd']. destruct (path_eqb (n_path x) (n_path nd)) eqn:E; auto.
    apply path_eqb_eq in E. exfalso. apply Hnotin. rewrite E. apply in_map; exact Hin.
Qed.

Lemma nfind_app l l' p :
  nfind (l ++ l') p = match nfind l p with Some x => Some x | None => nfind l' p end.
Proof.
  induction l as [|x l IH]; simpl; auto. destruct (path_eqb (n_path x) p); auto.
Qed.

Lemma nfind_filter f l p :
  (forall nd, n_path nd = p -> f nd = true) -> nfind (filter f l) p = nfind l p.
Proof.
  intros Hf. induction l as [|x l IH]; simpl; auto.
  destruct (path_eqb (n_path x) p) eqn:E.
  - rewrite (Hf x) by (apply path_eqb_eq; exact E). simpl. rewrite E. reflexivity.
  - destruct (f x); simpl; [rewrite E|]; exact IH.
Qed.

Lemma is_grp_at_true l q : is_grp_at l q = true <-> exists nd, nfind l q = Some nd /\ n_grp nd = true.
Proof.
  unfold is_grp_at. destruct (nfind l q) as [nd|].
  - split; [intros H; exists nd; auto | intros (nd' & H & G); inversion H; subst; auto].
  - split; [discriminate | intros (nd' & H & _); discriminate].
Qed.

Lemma has_node_false l q : has_node l q = false <-> nfind l q = None.
Proof. unfold has_node. destruct (nfind l q); split; congruence. Qed.

Lemma has_node_true l q : has_node l q = true <-> nfind l q <> None.
Proof. unfold has_node. destruct (nfind l q); split; congruence. Qed.

(** Tree shape: unique paths, every strict prefix of a node path is a group node. *)
Definition closed (l : list node) : Prop :=
  forall p q, In p (map n_path l) -> is_below q p = true -> is_grp_at l q = true.
Definition tree_ok (l : list node) : Prop := NoDup (map n_path l) /\ closed l.

Lemma tree_ok_skel l1 l2 :
  map n_path l1 = map n_path l2 -> (forall q, is_grp_at l1 q = is_grp_at l2 q) ->
  tree_ok l1 -> tree_ok l2.
Proof.
  intros Hp Hg [Hnd Hc]. split; [rewrite <- Hp; exact Hnd|].
  intros p q Hin Hb. rewrite <- Hg. apply (Hc p q); [rewrite Hp|]; auto.
Qed.

Lemma nupd_paths l p f : map n_path (nupd l p f) = map n_path l.
Proof.
  unfold nupd. rewrite map_map. apply map_ext. intros nd.
  destruct (path_eqb (n_path nd) p); reflexivity.
Qed.

Lemma nfind_nupd l p f q :
  nfind (nupd l p f) q =
  match nfind l q with
  | Some nd => Some (if path_eqb (n_path nd) p then mknode (n_path nd) (n_grp nd) (f (n_meta nd)) else nd)
  | None => None
  end.
Proof.
  induction l as [|x l IH]; simpl; auto.
  assert (E : n_path (if path_eqb (n_path x) p then mknode (n_path x) (n_grp x) (f (n_meta x)) else x) = n_path x)
    by (destruct (path_eqb (n_path x) p); reflexivity).
  rewrite E. destruct (path_eqb (n_path x) q); auto.
Qed.

Lemma is_grp_at_nupd l p f q : is_grp_at (nupd l p f) q = is_grp_at l q.
Proof.
  unfold is_grp_at. rewrite nfind_nupd. destruct (nfind l q) as [nd|]; auto.
  destruct (path_eqb (n_path nd) p); reflexivity.
Qed.

Lemma nupd_tree_ok l p f : tree_ok l -> tree_ok (nupd l p f).
Proof.
  apply tree_ok_skel; [symmetry; apply nupd_paths | intros q; symmetry; apply is_grp_at_nupd].
Qed.

Lemma In_nupd l p f nd' :
  In nd' (nupd l p f) <->
  exists nd, In nd l /\
    nd' = (if path_eqb (n_path nd) p then mknode (n_path nd) (n_grp nd) (f (n_meta nd)) else nd).
Proof.
  unfold nupd. rewrite in_map_iff. split; intros (nd & H1 & H2); exists nd; auto.
Qed.

Lemma closed_prefix_node l p q :
  tree_ok l -> In p (map n_path l) -> is_prefix q p = true -> nfind l q <> None.
Proof.
  intros [Hnd Hc] Hin Hpre. apply prefix_cases in Hpre as [->|Hb].
  - intros H. apply nfind_None in H. contradiction.
  - specialize (Hc p q Hin Hb). apply is_grp_at_true in Hc as (nd & H & _). congruence.
Qed.

(** ** Objects in use *)

Lemma ref_in_use_spec l r :
  ref_in_use l r = true <-> exists nd o, In nd l /\ In o (n_meta nd) /\ m_ref o = r.
Proof.
  unfold ref_in_use. rewrite existsb_exists. split.
  - intros (nd & Hnd & H). apply existsb_exists in H as (o & Ho & E).
    apply sref_eqb_eq in E. eauto.
  - intros (nd & o & Hnd & Ho & E). exists nd. split; auto.
    apply existsb_exists. exists o. split; auto. apply sref_eqb_eq; exact E.
Qed.

Lemma ref_in_use_nupd l p f r :
  ref_in_use (nupd l p f) r = true <->
  exists nd o, In nd l /\ m_ref o = r /\
    In o (if path_eqb (n_path nd) p then f (n_meta nd) else n_meta nd).
Proof.
  rewrite ref_in_use_spec. split.
  - intros (nd' & o & Hnd' & Ho & E). apply In_nupd in Hnd' as (nd & Hnd & ->).
    exists nd, o. split; auto. split; auto.
    destruct (path_eqb (n_path nd) p); exact Ho.
  - intros (nd & o & Hnd & E & Ho).
    exists (if path_eqb (n_path nd) p then mknode (n_path nd) (n_grp nd) (f (n_meta nd)) else nd), o.
    split; [apply In_nupd; exists nd; auto|]. split; auto.
    destruct (path_eqb (n_path nd) p); exact Ho.
Qed.

(** ** The state invariant *)

Definition inv (e : env) (st : state) : Prop :=
  tree_ok (s_nodes st) /\
  (forall nd, In nd (s_nodes st) -> NoDup (map oname (n_meta nd))) /\
  (forall r, In r (t_used (s_toc st)) <-> ref_in_use (s_nodes st) r = true) /\
  (forall nd o, In nd (s_nodes st) -> In o (n_meta nd) -> env_get e (m_ref o) <> None) /\
  toc_ok e (s_toc st).

Lemma init_tree_ok : tree_ok (s_nodes init_state).
Proof.
  split; simpl.
  - constructor; [tauto | constructor].
  - intros p q [<-|[]] H. apply is_below_spec in H as (r & H & Hn).
    destruct q; destruct r; simpl in H; try discriminate. congruence.
Qed.

Lemma inv_init e : inv e init_state.
Proof.
  split; [apply init_tree_ok|]. split; [|split; [|split]].
  - intros nd [<-|[]]. constructor.
  - intros r. simpl. split; [tauto | discriminate].
  - intros nd o [<-|[]] [].
  - apply toc0_ok.
Qed.

(** *** resolve *)

Definition eregs (e : env) : list ref := map (fun kv => to_ref (fst kv)) (rev e).

Lemma eregs_In e r : In r (eregs e) <-> exists x, r = to_ref x /\ env_get e x <> None.
Proof.
  unfold eregs. rewrite in_map_iff. split.
  - intros ([k i] & <- & H). apply in_rev in H. exists k. split; auto. simpl.
    clear -H. induction e as [|[k0 i0] e IH]; [destruct H|]. simpl.
    destruct (sref_eqb k0 k) eqn:E; [discriminate|]. destruct H as [H|H]; auto.
    inversion H; subst. rewrite sref_eqb_refl in E. discriminate.
  - intros (x & -> & H). induction e as [|[k0 i0] e IH]; [simpl in H; congruence|].
    simpl in H. destruct (sref_eqb k0 x) eqn:E.
    + apply sref_eqb_eq in E; subst. exists (x, i0). split; auto. apply in_rev. rewrite rev_involutive. left; reflexivity.
    + destruct (IH H) as (kv & H1 & H2). exists kv. split; auto. simpl. apply in_app_iff. auto.
Qed.

Lemma to_ref_of_pref r : rgroup r = SG -> to_ref (of_pref r) = r.
Proof. destruct r as [g n v]; simpl. intros ->. reflexivity. Qed.

Lemma of_pref_to_ref x : of_pref (to_ref x) = x.
Proof. destruct x; reflexivity. Qed.

Lemma supports_refl r : supports r r = true.
Proof. apply supports_spec. repeat split; auto. apply N.le_refl. Qed.

Lemma eresolve_Some e s v r :
  eresolve e s v = Some r ->
  env_get e r <> None /\ fst r = s /\
  match v with Some v0 => supports (to_ref r) (to_ref (s, v0)) = true | None => True end.
Proof.
  unfold eresolve, etable. fold (eregs e). destruct v as [v0|].
  - pose proof (resolve_newest (eregs e) SG s v0) as H.
    destruct (resolve (register_all (eregs e)) SG s (Some v0)) as [r0|]; [|discriminate].
    simpl. intros E; inversion E; subst r. destruct H as (Hin & Hn & Hs & _).
    apply eregs_In in Hin as (x & -> & Hx). rewrite of_pref_to_ref. repeat split; auto.
  - pose proof (resolve_latest (eregs e) SG s) as H.
    destruct (resolve (register_all (eregs e)) SG s None) as [r0|]; [|discriminate].
    simpl. intros E; inversion E; subst r. destruct H as (Hin & Hn & _).
    apply eregs_In in Hin as (x & -> & Hx). rewrite of_pref_to_ref. repeat split; auto.
Qed.

Lemma eresolve_exists e s v0 a :
  env_get e a <> None -> fst a = s -> supports (to_ref a) (to_ref (s, v0)) = true ->
  exists r, eresolve e s (Some v0) = Some r.
Proof.
  intros Ha Hn Hs. unfold eresolve, etable. fold (eregs e).
  pose proof (resolve_newest (eregs e) SG s v0) as H.
  destruct (resolve (register_all (eregs e)) SG s (Some v0)) as [r0|]; [eexists; reflexivity|].
  exfalso. assert (Hin : In (to_ref a) (eregs e)) by (apply eregs_In; exists a; auto).
  pose proof (H (to_ref a) Hin Hn) as Hf.
  change (mkref SG s v0) with (to_ref (s, v0)) in Hf. congruence.
Qed.

Lemma le_rel_antisym a b : le_rel a b -> le_rel b a -> a = b.
Proof.
  unfold le_rel. rewrite !r_le_leb. intros H1 H2.
  rewrite <- (geb_leb rcmp rcmp_ok) in H1, H2.
  apply (geb_antisym rcmp rcmp_ok); auto.
Qed.

(** Resolving the version of a resolved release gives that release again. *)
Lemma eresolve_fix e s v r : eresolve e s v = Some r -> eresolve e s (Some (snd r)) = Some r.
Proof.
  unfold eresolve, etable. fold (eregs e). intros E.
  pose proof (resolve_newest (eregs e) SG s (snd r)) as H1.
  destruct (resolve (register_all (eregs e)) SG s v) as [r0|] eqn:E0; [|discriminate].
  simpl in E. inversion E; subst r. clear E. simpl in *.
  assert (P0 : In r0 (eregs e) /\ rname r0 = s /\
               forall r', In r' (eregs e) -> rname r' = s -> supports r' (mkref SG s (rver r0)) = true -> le_rel r' r0).
  { destruct v as [v0|].
    - pose proof (resolve_newest (eregs e) SG s v0) as H0. rewrite E0 in H0.
      destruct H0 as (Hin & Hn & Hs & Hmax). repeat split; auto.
      intros r' Hr' Hn' Hs'. apply Hmax; auto.
      apply supports_spec in Hs, Hs'. apply supports_spec. simpl in *.
      destruct Hs as (A1 & A2 & A3 & A4), Hs' as (B1 & B2 & B3 & B4).
      repeat split; auto; try congruence. eapply N.le_trans; eauto.
    - pose proof (resolve_latest (eregs e) SG s) as H0. rewrite E0 in H0.
      destruct H0 as (Hin & Hn & Hmax). repeat split; auto. }
  destruct P0 as (Hin0 & Hn0 & Hmax0).
  assert (Hg : rgroup r0 = SG) by (apply eregs_In in Hin0 as (x & -> & _); reflexivity).
  assert (Hself : supports r0 (mkref SG s (rver r0)) = true).
  { apply supports_spec. simpl. repeat split; auto. apply N.le_refl. }
  destruct (resolve (register_all (eregs e)) SG s (Some (rver r0))) as [r1|].
  - destruct H1 as (Hin1 & Hn1 & Hs1 & Hmax1). simpl. f_equal. f_equal.
    apply le_rel_antisym; auto.
  - rewrite (H1 r0 Hin0 Hn0) in Hself. discriminate.
Qed.

(** ** Small list facts *)

Lemma NoDup_snoc {X} (l : list X) x : NoDup l -> ~ In x l -> NoDup (l ++ [x]).
Proof.
  intros H Hx. assert (G : NoDup (x :: rev l)).
  { constructor; [rewrite <- in_rev; exact Hx | apply NoDup_rev; exact H]. }
  apply NoDup_rev in G. simpl in G. rewrite rev_involutive in G. exact G.
Qed.

Lemma NoDup_map_filter {X Y} (f : X -> Y) (g : X -> bool) l :
  NoDup (map f l) -> NoDup (map f (filter g l)).
Proof.
  induction l as [|x l IH]; simpl; auto. intros H. inversion H as [|? ? Hn Hd]; subst.
  destruct (g x); simpl; auto. constructor; auto.
  intros Hin. apply Hn. apply in_map_iff in Hin as (y & E & Hy). apply filter_In in Hy as [Hy _].
  rewrite <- E. apply in_map; exact Hy.
Qed.

Lemma NoDup_map_inj_on {X Y} (f : X -> Y) l :
  NoDup l -> (forall x y, In x l -> In y l -> f x = f y -> x = y) -> NoDup (map f l).
Proof.
  induction l as [|a l IH]; simpl; [constructor|].
  intros H Hinj. inversion H as [|? ? Hn Hd]; subst. constructor.
  - intros Hin. apply in_map_iff in Hin as (y & E & Hy). apply Hn.
    rewrite (Hinj a y); auto.
  - apply IH; auto.
Qed.

Lemma NoDup_app_intro {X} (l1 l2 : list X) :
  NoDup l1 -> NoDup l2 -> (forall x, In x l1 -> In x l2 -> False) -> NoDup (l1 ++ l2).
Proof.
  induction l1 as [|a l1 IH]; simpl; auto. intros H1 H2 Hd.
  inversion H1 as [|? ? Hn Hd1]; subst. constructor.
  - rewrite in_app_iff. intros [H|H]; [auto | eapply Hd; eauto].
  - apply IH; auto. intros x Hx. apply Hd. auto.
Qed.

(** ** attach, detach *)

Lemma attach_ok_inv e st p s v val vf st' :
  attach e st p s v val vf = (st', ROk) ->
  exists nd r, nfind (s_nodes st) p = Some nd /\ ofind (n_meta nd) s = None /\
    eresolve e s v = Some r /\ (exists i, env_get e r = Some i /\ s_aux i = false) /\
    smem r vf = true /\
    st' = mkstate (nupd (s_nodes st) p (fun m => m ++ [mkmobj r (s_next st) val]))
                  (toc_register e (s_toc st) r) (N.succ (s_next st)).
Proof.
  unfold attach. destruct (nfind (s_nodes st) p) as [nd|]; [|discriminate].
  destruct (ofind (n_meta nd) s) eqn:Eo; [discriminate|].
  unfold require_schema. destruct (eresolve e s v) as [r|] eqn:Er; [|discriminate].
  destruct (env_get e r) as [i|] eqn:Ei; [|discriminate].
  destruct (s_aux i) eqn:Ea; [discriminate|].
  destruct (smem r vf) eqn:Ev; simpl; [|discriminate].
  intros H; inversion H; subst. exists nd, r. repeat split; eauto.
Qed.

Lemma attach_refused_same e st p s v val vf st' w :
  attach e st p s v val vf = (st', RRef w) -> st' = st.
Proof.
  unfold attach. destruct (nfind (s_nodes st) p) as [nd|]; [|intros H; inversion H; auto].
  destruct (ofind (n_meta nd) s); [intros H; inversion H; auto|].
  destruct (require_schema e s v) as [r|w']; [|intros H; inversion H; auto].
  destruct (negb (smem r vf)); intros H; inversion H; auto.
Qed.

Lemma node_at_unique l nd nd0 p :
  NoDup (map n_path l) -> nfind l p = Some nd0 -> In nd l -> n_path nd = p -> nd = nd0.
Proof.
  intros Hnd H0 Hin Hp. pose proof (nfind_NoDup l nd Hnd Hin) as H. rewrite Hp, H0 in H. congruence.
Qed.

Lemma attach_inv e st p s v val vf st' :
  env_wf e -> inv e st -> attach e st p s v val vf = (st', ROk) -> inv e st'.
Proof.
  intros Hwf (Ht & Hn & Hu & Hr & Hc) H.
  apply attach_ok_inv in H as (nd0 & r & Hf & Ho & Er & (i & Ei & _) & _ & ->).
  apply eresolve_Some in Er as (Hreg & Hname & _).
  pose proof (nfind_In _ _ _ Hf) as [Hin0 Hp0]. destruct Ht as [Hnd Hcl].
  split; [apply nupd_tree_ok; split; auto|]. simpl. split; [|split; [|split]].
  - intros nd' H'. apply In_nupd in H' as (nd & Hin & ->).
    destruct (path_eqb (n_path nd) p) eqn:E; [|auto]. simpl.
    apply path_eqb_eq in E. rewrite (node_at_unique _ nd nd0 p Hnd Hf Hin E).
    rewrite map_app. simpl. apply NoDup_snoc; auto. unfold oname at 1; simpl. rewrite Hname.
    intros Hc'. apply in_map_iff in Hc' as (o & Eo & Hino).
    rewrite ofind_None in Ho. apply (Ho o Hino Eo).
  - intros x. rewrite toc_register_used, Hu, ref_in_use_nupd, ref_in_use_spec. split.
    + intros [->|(nd & o & A & B & C)].
      * exists nd0, (mkmobj r (s_next st) val). split; auto. split; auto.
        rewrite Hp0, path_eqb_refl. apply in_app_iff; right; left; reflexivity.
      * exists nd, o. split; auto. split; auto.
        destruct (path_eqb (n_path nd) p); [apply in_app_iff|]; auto.
    + intros (nd & o & A & B & C). destruct (path_eqb (n_path nd) p).
      * apply in_app_iff in C as [C|[<-|[]]]; [right; eauto | left; auto].
      * right; eauto.
  - intros nd' o H' Ho'. apply In_nupd in H' as (nd & Hin & ->).
    destruct (path_eqb (n_path nd) p); simpl in Ho'; [|eauto].
    apply in_app_iff in Ho' as [Ho'|[<-|[]]]; [eauto | simpl; congruence].
  - apply toc_register_ok; auto.
Qed.

Lemma orem_In m s o : In o (orem m s) <-> In o m /\ oname o <> s.
Proof.
  unfold orem. rewrite filter_In, negb_true_iff. split; intros [A B]; split; auto.
  - intros E. rewrite E, String.eqb_refl in B. discriminate.
  - destruct (String.eqb (oname o) s) eqn:E; auto. apply String.eqb_eq in E. contradiction.
Qed.

Lemma detach1_inv e st p s : inv e st -> inv e (detach1 st p s).
Proof.
  intros (Ht & Hn & Hu & Hr & Hc). unfold detach1.
  destruct (nfind (s_nodes st) p) as [nd0|] eqn:Hf;
    [|exact (conj Ht (conj Hn (conj Hu (conj Hr Hc))))].
  destruct (ofind (n_meta nd0) s) as [o0|] eqn:Ho;
    [|exact (conj Ht (conj Hn (conj Hu (conj Hr Hc))))].
  pose proof (nfind_In _ _ _ Hf) as [Hin0 Hp0]. destruct Ht as [Hnd Hcl].
  apply ofind_In in Ho as [Ho0 Hs0].
  set (l' := nupd (s_nodes st) p (fun m => orem m s)).
  assert (Hother : forall x, x <> m_ref o0 -> (ref_in_use l' x = true <-> ref_in_use (s_nodes st) x = true)).
  { intros x Hx. unfold l'. rewrite ref_in_use_nupd, ref_in_use_spec. split.
    - intros (nd & o & A & B & C). exists nd, o. split; auto. split; auto.
      destruct (path_eqb (n_path nd) p); auto. apply orem_In in C; tauto.
    - intros (nd & o & A & B & C). exists nd, o. split; auto. split; auto.
      destruct (path_eqb (n_path nd) p) eqn:E; auto. apply path_eqb_eq in E.
      rewrite (node_at_unique _ nd nd0 p Hnd Hf A E) in *.
      apply orem_In. split; auto. intros En.
      assert (o = o0).
      { pose proof (ofind_unique _ s o (Hn nd0 Hin0) B En) as E1.
        pose proof (ofind_unique _ s o0 (Hn nd0 Hin0) Ho0 Hs0) as E2. congruence. }
      subst o. congruence. }
  split; [apply nupd_tree_ok; split; auto|]. simpl. fold l'. split; [|split; [|split]].
  - intros nd' H'. apply In_nupd in H' as (nd & Hin & ->).
    destruct (path_eqb (n_path nd) p); simpl; auto. apply NoDup_map_filter. auto.
  - intros x. destruct (ref_in_use l' (m_ref o0)) eqn:Euse.
    + destruct (sref_dec x (m_ref o0)) as [->|Hx].
      * rewrite Euse, Hu. split; auto. intros _. apply ref_in_use_spec. eauto.
      * rewrite Hother, Hu; tauto.
    + simpl. rewrite lrem_In. destruct (sref_dec x (m_ref o0)) as [->|Hx].
      * rewrite Euse. split; [tauto | discriminate].
      * rewrite Hother, Hu; tauto.
  - intros nd' o H' Ho'. apply In_nupd in H' as (nd & Hin & ->).
    destruct (path_eqb (n_path nd) p); simpl in Ho'; eauto. apply orem_In in Ho' as [Ho' _]. eauto.
  - destruct (ref_in_use l' (m_ref o0)); auto. apply toc_unregister_ok; auto.
Qed.

(** What one removal does to the node table. *)
Lemma detach1_nodes_sub st p s nd' :
  In nd' (s_nodes (detach1 st p s)) ->
  exists nd, In nd (s_nodes st) /\ n_path nd' = n_path nd /\ n_grp nd' = n_grp nd /\
             incl (n_meta nd') (n_meta nd).
Proof.
  unfold detach1. destruct (nfind (s_nodes st) p) as [nd0|]; [|intros H; exists nd'; repeat split; auto; apply incl_refl].
  destruct (ofind (n_meta nd0) s); [|intros H; exists nd'; repeat split; auto; apply incl_refl].
  simpl. intros H. apply In_nupd in H as (nd & Hin & ->). exists nd. split; auto.
  destruct (path_eqb (n_path nd) p); simpl; repeat split; auto; try apply incl_refl.
  intros o Ho. apply orem_In in Ho; tauto.
Qed.

Lemma detach1_nodes_sup st p s nd :
  In nd (s_nodes st) ->
  exists nd', In nd' (s_nodes (detach1 st p s)) /\ n_path nd' = n_path nd /\ n_grp nd' = n_grp nd.
Proof.
  unfold detach1. destruct (nfind (s_nodes st) p) as [nd0|]; [|intros H; exists nd; auto].
  destruct (ofind (n_meta nd0) s); [|intros H; exists nd; auto].
  simpl. intros H.
  exists (if path_eqb (n_path nd) p then mknode (n_path nd) (n_grp nd) (orem (n_meta nd) s) else nd).
  split; [apply In_nupd; exists nd; auto|]. destruct (path_eqb (n_path nd) p); auto.
Qed.

Lemma detach1_removed st p s nd' o :
  NoDup (map n_path (s_nodes st)) ->
  In nd' (s_nodes (detach1 st p s)) -> n_path nd' = p -> In o (n_meta nd') -> oname o <> s.
Proof.
  intros Hnd. unfold detach1. destruct (nfind (s_nodes st) p) as [nd0|] eqn:Hf.
  - destruct (ofind (n_meta nd0) s) eqn:Ho.
    + simpl. intros H Hp Hin. apply In_nupd in H as (nd & Hnd' & ->).
      destruct (path_eqb (n_path nd) p) eqn:E; simpl in *.
      * apply orem_In in Hin; tauto.
      * apply path_eqb_neq in E. contradiction.
    + intros H Hp Hin. rewrite (node_at_unique _ nd' nd0 p Hnd Hf H Hp) in Hin.
      rewrite ofind_None in Ho. auto.
  - intros H Hp. apply nfind_None in Hf. exfalso. apply Hf. rewrite <- Hp. apply in_map; exact H.
Qed.

Lemma detach1_paths st p s : map n_path (s_nodes (detach1 st p s)) = map n_path (s_nodes st).
Proof.
  unfold detach1. destruct (nfind (s_nodes st) p) as [nd0|]; auto.
  destruct (ofind (n_meta nd0) s); auto. simpl. apply nupd_paths.
Qed.

Lemma detach1_grp st p s q : is_grp_at (s_nodes (detach1 st p s)) q = is_grp_at (s_nodes st) q.
Proof.
  unfold detach1. destruct (nfind (s_nodes st) p) as [nd0|]; auto.
  destruct (ofind (n_meta nd0) s); auto. simpl. apply is_grp_at_nupd.
Qed.

Definition dfold (l : list (path * string)) (st : state) : state :=
  fold_left (fun st ps => detach1 st (fst ps) (snd ps)) l st.

Lemma dfold_props e : forall l st, inv e st ->
  inv e (dfold l st) /\
  map n_path (s_nodes (dfold l st)) = map n_path (s_nodes st) /\
  (forall q, is_grp_at (s_nodes (dfold l st)) q = is_grp_at (s_nodes st) q) /\
  (forall nd', In nd' (s_nodes (dfold l st)) ->
     exists nd, In nd (s_nodes st) /\ n_path nd' = n_path nd /\ incl (n_meta nd') (n_meta nd)) /\
  (forall nd' o, In nd' (s_nodes (dfold l st)) -> In o (n_meta nd') -> ~ In (n_path nd', oname o) l).
Proof.
  induction l as [|[q s] l IH]; intros st Hinv; simpl.
  - split; [exact Hinv|]. split; [reflexivity|]. split; [reflexivity|]. split.
    + intros nd' H. exists nd'. repeat split; auto. apply incl_refl.
    + intros nd' o _ _ [].
  - pose proof (detach1_inv e st q s Hinv) as Hinv1.
    destruct (IH _ Hinv1) as (A & B & C & D & E). fold (dfold l (detach1 st q s)).
    split; auto. split; [rewrite B; apply detach1_paths|]. split; [intros x; rewrite C; apply detach1_grp|]. split.
    + intros nd' H. destruct (D nd' H) as (nd1 & H1 & P1 & I1).
      destruct (detach1_nodes_sub st q s nd1 H1) as (nd & H0 & P0 & _ & I0).
      exists nd. repeat split; auto; try congruence. eapply incl_tran; eauto.
    + intros nd' o H Ho [Heq|Hin]; [|eapply E; eauto].
      inversion Heq; subst. destruct (D nd' H) as (nd1 & H1 & P1 & I1).
      destruct Hinv as ((Hnd & _) & _).
      apply (detach1_removed st (n_path nd') (oname o) nd1 o Hnd H1); auto.
Qed.

Lemma meta_pairs_In l p q s :
  In (q, s) (meta_pairs l p) <->
  exists nd o, In nd l /\ is_prefix p (n_path nd) = true /\ In o (n_meta nd) /\ q = n_path nd /\ s = oname o.
Proof.
  unfold meta_pairs. rewrite in_flat_map. split.
  - intros (nd & Hnd & H). destruct (is_prefix p (n_path nd)) eqn:E; [|destruct H].
    apply in_map_iff in H as (o & Eo & Ho). inversion Eo; subst. exists nd, o. auto.
  - intros (nd & o & Hnd & E & Ho & -> & ->). exists nd. split; auto. rewrite E.
    apply in_map_iff. exists o. auto.
Qed.

Lemma destroy_meta_props e st p : inv e st ->
  inv e (destroy_meta st p) /\
  map n_path (s_nodes (destroy_meta st p)) = map n_path (s_nodes st) /\
  (forall q, is_grp_at (s_nodes (destroy_meta st p)) q = is_grp_at (s_nodes st) q) /\
  (forall nd, In nd (s_nodes (destroy_meta st p)) -> is_prefix p (n_path nd) = true -> n_meta nd = []).
Proof.
  intros Hinv. unfold destroy_meta. fold (dfold (meta_pairs (s_nodes st) p) st).
  destruct (dfold_props e (meta_pairs (s_nodes st) p) st Hinv) as (A & B & C & D & E).
  split; [exact A|]. split; [exact B|]. split; [exact C|].
  intros nd' H Hpre. destruct (n_meta nd') as [|o m] eqn:Em; auto. exfalso.
  assert (Ho : In o (n_meta nd')) by (rewrite Em; left; reflexivity).
  apply (E nd' o H Ho). destruct (D nd' H) as (nd & H0 & P0 & I0).
  apply meta_pairs_In. exists nd, o. rewrite <- P0. repeat split; auto.
Qed.

(** ** Node creation, deletion, move, copy keep the tree shape *)

Lemma is_grp_at_In l nd :
  NoDup (map n_path l) -> In nd l -> n_grp nd = true -> is_grp_at l (n_path nd) = true.
Proof. intros Hnd Hin Hg. unfold is_grp_at. rewrite (nfind_NoDup l nd Hnd Hin). exact Hg. Qed.

Lemma is_grp_at_node l q : is_grp_at l q = true -> exists nd, In nd l /\ n_path nd = q /\ n_grp nd = true.
Proof.
  intros H. apply is_grp_at_true in H as (nd & H & G). apply nfind_In in H as [H1 H2]. eauto.
Qed.

Lemma is_grp_at_app l l' q : is_grp_at l q = true -> is_grp_at (l ++ l') q = true.
Proof.
  unfold is_grp_at. rewrite nfind_app. destruct (nfind l q); [auto | discriminate].
Qed.

(** Every prefix of a group's path that is not the path itself is a group; so is the path. *)
Lemma prefix_of_group l par q :
  tree_ok l -> is_grp_at l par = true -> is_prefix q par = true -> is_grp_at l q = true.
Proof.
  intros [Hnd Hc] Hg Hpre. apply prefix_cases in Hpre as [->|Hb]; auto.
  apply is_grp_at_node in Hg as (nd & Hin & Hp & _).
  apply (Hc par q); auto. rewrite <- Hp. apply in_map; exact Hin.
Qed.

Lemma mk_tree_ok l par name grp :
  tree_ok l -> is_grp_at l par = true -> nfind l (par ++ [name]) = None ->
  tree_ok (l ++ [mknode (par ++ [name]) grp []]).
Proof.
  intros Ht Hg Hn. pose proof Ht as [Hnd Hc]. split.
  - rewrite map_app. simpl. apply NoDup_snoc; auto. apply nfind_None; exact Hn.
  - intros p q Hin Hb. rewrite map_app in Hin. apply in_app_iff in Hin as [Hin|[<-|[]]].
    + apply is_grp_at_app. eapply Hc; eauto.
    + apply is_grp_at_app. apply below_snoc in Hb. eapply prefix_of_group; eauto.
Qed.

Lemma filter_tree_ok l p :
  tree_ok l -> tree_ok (filter (fun nd => negb (is_prefix p (n_path nd))) l).
Proof.
  intros [Hnd Hc]. split.
  - apply NoDup_map_filter; exact Hnd.
  - intros x q Hin Hb. apply in_map_iff in Hin as (nd & <- & Hin). apply filter_In in Hin as [Hin Hf].
    apply negb_true_iff in Hf.
    assert (Hg : is_grp_at l q = true) by (apply (Hc (n_path nd) q); auto; apply in_map; exact Hin).
    unfold is_grp_at in *. rewrite nfind_filter; auto.
    intros nd' Hp. rewrite Hp. apply negb_true_iff.
    destruct (is_prefix p q) eqn:E; auto.
    rewrite (is_prefix_trans p q (n_path nd) E (is_below_prefix _ _ Hb)) in Hf. discriminate.
Qed.

(** Preconditions of move / copy, unfolded. *)
Lemma dest_ok_spec l s dpar dname :
  dest_ok l s dpar dname = true ->
  s <> [] /\ nfind l s <> None /\ is_grp_at l dpar = true /\ nfind l (dpar ++ [dname]) = None /\
  is_prefix s (dpar ++ [dname]) = false.
Proof.
  unfold dest_ok. rewrite !andb_true_iff, !negb_true_iff.
  intros ((((H1 & H2) & H3) & H4) & H5). repeat split; auto.
  - destruct s; [discriminate | discriminate].
  - apply has_node_true; exact H2.
  - apply has_node_false; exact H4.
Qed.

Section MoveCopy.
  Variables (l : list node) (s dpar : path) (dname : string).
  Let d := dpar ++ [dname].
  Hypothesis Ht : tree_ok l.
  Hypothesis Hdg : is_grp_at l dpar = true.
  Hypothesis Hdn : nfind l d = None.
  Hypothesis Hsd : is_prefix s d = false.

  Lemma no_node_under_d x : In x (map n_path l) -> is_prefix d x = true -> False.
  Proof. intros Hin Hpre. exact (closed_prefix_node l x d Ht Hin Hpre Hdn). Qed.

  Lemma s_not_above_dpar q : is_prefix q dpar = true -> is_prefix s q = false.
  Proof.
    intros Hq. destruct (is_prefix s q) eqn:E; auto.
    assert (H : is_prefix s d = true).
    { eapply is_prefix_trans; [exact E|]. eapply is_prefix_trans; [exact Hq|]. apply is_prefix_app. }
    unfold d in *. congruence.
  Qed.

  Definition mvp (x : path) : path := if is_prefix s x then rebase s d x else x.
  Definition mvn (nd : node) : node :=
    if is_prefix s (n_path nd) then mknode (rebase s d (n_path nd)) (n_grp nd) (n_meta nd) else nd.

  Lemma mvn_path nd : n_path (mvn nd) = mvp (n_path nd).
  Proof. unfold mvn, mvp. destruct (is_prefix s (n_path nd)); reflexivity. Qed.
  Lemma mvn_grp nd : n_grp (mvn nd) = n_grp nd.
  Proof. unfold mvn. destruct (is_prefix s (n_path nd)); reflexivity. Qed.
  Lemma mvn_meta nd : n_meta (mvn nd) = n_meta nd.
  Proof. unfold mvn. destruct (is_prefix s (n_path nd)); reflexivity. Qed.

  Lemma rebase_inj x y :
    is_prefix s x = true -> is_prefix s y = true -> rebase s d x = rebase s d y -> x = y.
  Proof.
    intros Hx Hy. apply is_prefix_spec in Hx as (r1 & ->). apply is_prefix_spec in Hy as (r2 & ->).
    rewrite !rebase_app. intros H. apply app_inv_head in H. congruence.
  Qed.

  Lemma rebase_under_d x : is_prefix s x = true -> is_prefix d (rebase s d x) = true.
  Proof. intros Hx. apply is_prefix_spec in Hx as (r & ->). rewrite rebase_app. apply is_prefix_app. Qed.

  Lemma mvp_inj x y :
    In x (map n_path l) -> In y (map n_path l) -> mvp x = mvp y -> x = y.
  Proof.
    intros Hx Hy. unfold mvp. destruct (is_prefix s x) eqn:Ex, (is_prefix s y) eqn:Ey; auto.
    - apply rebase_inj; auto.
    - intros H. exfalso. apply (no_node_under_d y Hy). rewrite <- H. apply rebase_under_d; auto.
    - intros H. exfalso. apply (no_node_under_d x Hx). rewrite H. apply rebase_under_d; auto.
  Qed.

  (** The group found at a strict prefix [q] of a rebased path. *)
  Lemma below_rebased r q :
    In (s ++ r) (map n_path l) -> is_below q (d ++ r) = true ->
    (exists u, q = d ++ u /\ is_grp_at l (s ++ u) = true) \/
    (is_grp_at l q = true /\ is_prefix s q = false).
  Proof.
    intros Hin Hb. destruct Ht as [Hnd Hc].
    apply is_below_spec in Hb as (t & E & Hn). symmetry in E. apply app_eq_app in E as (u & [[E1 E2]|[E1 E2]]).
    - left. exists u. split; auto. apply (Hc (s ++ r) (s ++ u)); auto.
      apply is_below_spec. exists t. split; auto. rewrite E2, app_assoc. reflexivity.
    - destruct u as [|a u].
      + left. exists []. rewrite !app_nil_r. rewrite app_nil_r in E1. split; [auto|].
        simpl in E2. subst t. apply (Hc (s ++ r) s); auto.
        apply is_below_spec. exists r. split; auto.
      + right. assert (Hq : is_prefix q dpar = true).
        { apply (below_snoc q dpar dname). apply is_below_spec. exists (a :: u). split; [exact E1 | discriminate]. }
        split; [eapply prefix_of_group; eauto | apply s_not_above_dpar; exact Hq].
  Qed.

  Lemma move_tree_ok : tree_ok (map mvn l).
  Proof.
    pose proof Ht as [Hnd Hc].
    assert (Hnd' : NoDup (map n_path (map mvn l))).
    { rewrite map_map. rewrite (map_ext _ (fun nd => mvp (n_path nd)) mvn_path), <- map_map.
      apply NoDup_map_inj_on; auto. intros x y; apply mvp_inj. }
    split; auto.
    assert (Hkeep : forall q, is_grp_at l q = true -> is_prefix s q = false -> is_grp_at (map mvn l) q = true).
    { intros q Hg Hq. apply is_grp_at_node in Hg as (nd & Hin & Hp & Hgr).
      assert (E : mvn nd = nd) by (unfold mvn; rewrite Hp, Hq; reflexivity).
      rewrite <- Hp. apply is_grp_at_In; auto. rewrite <- E. apply in_map; exact Hin. }
    intros p q Hin Hb. rewrite map_map in Hin. apply in_map_iff in Hin as (nd & Hp & Hin).
    rewrite mvn_path in Hp. unfold mvp in Hp. destruct (is_prefix s (n_path nd)) eqn:Es.
    - pose proof Es as Es'. apply is_prefix_spec in Es' as (r & Er). rewrite Er, rebase_app in Hp. subst p.
      assert (Hinr : In (s ++ r) (map n_path l)) by (rewrite <- Er; apply in_map; exact Hin).
      destruct (below_rebased r q Hinr Hb) as [(u & -> & Hg)|[Hg Hq]]; [|auto].
      apply is_grp_at_node in Hg as (ndu & Hinu & Hpu & Hgu).
      assert (E : n_path (mvn ndu) = d ++ u).
      { rewrite mvn_path. unfold mvp. rewrite Hpu, is_prefix_app, rebase_app. reflexivity. }
      rewrite <- E. apply is_grp_at_In; auto; [apply in_map; exact Hinu | rewrite mvn_grp; exact Hgu].
    - subst p. apply Hkeep.
      + apply (Hc (n_path nd) q); auto. apply in_map; exact Hin.
      + destruct (is_prefix s q) eqn:E; auto.
        rewrite (is_prefix_trans s q (n_path nd) E (is_below_prefix _ _ Hb)) in Es. discriminate.
  Qed.

  (** Copies: any list of nodes whose paths are the rebased paths of the nodes below [s]. *)
  Variable C : list node.
  Hypothesis HCp : map n_path C = map (rebase s d) (filter (is_prefix s) (map n_path l)).
  Hypothesis HCg : forall nd, In nd l -> is_prefix s (n_path nd) = true ->
    exists c, In c C /\ n_path c = rebase s d (n_path nd) /\ n_grp c = n_grp nd.

  Lemma copy_tree_ok : tree_ok (l ++ C).
  Proof.
    pose proof Ht as [Hnd Hc].
    assert (HndC : NoDup (map n_path C)).
    { rewrite HCp. apply NoDup_map_inj_on; [apply NoDup_filter; exact Hnd|].
      intros x y Hx Hy. apply filter_In in Hx as [_ Hx]. apply filter_In in Hy as [_ Hy].
      apply rebase_inj; auto. }
    assert (HCd : forall x, In x (map n_path C) -> is_prefix d x = true).
    { intros x Hx. rewrite HCp in Hx. apply in_map_iff in Hx as (y & <- & Hy).
      apply filter_In in Hy as [_ Hy]. apply rebase_under_d; exact Hy. }
    assert (Hnd' : NoDup (map n_path (l ++ C))).
    { rewrite map_app. apply NoDup_app_intro; auto.
      intros x H1 H2. exact (no_node_under_d x H1 (HCd x H2)). }
    split; auto. intros p q Hin Hb. rewrite map_app in Hin. apply in_app_iff in Hin as [Hin|Hin].
    - apply is_grp_at_app. eapply Hc; eauto.
    - rewrite HCp in Hin. apply in_map_iff in Hin as (x & <- & Hx). apply filter_In in Hx as [Hx Es].
      pose proof Es as Es'. apply is_prefix_spec in Es' as (r & ->). rewrite rebase_app in Hb.
      destruct (below_rebased r q Hx Hb) as [(u & -> & Hg)|[Hg Hq]]; [|apply is_grp_at_app; exact Hg].
      apply is_grp_at_node in Hg as (ndu & Hinu & Hpu & Hgu).
      destruct (HCg ndu Hinu) as (c & Hc1 & Hc2 & Hc3); [rewrite Hpu; apply is_prefix_app|].
      rewrite Hpu, rebase_app in Hc2. rewrite <- Hc2. apply is_grp_at_In; auto.
      + apply in_app_iff; right; exact Hc1.
      + congruence.
  Qed.
End MoveCopy.

Lemma reuuid_same m : forall nx,
  map (fun o => (m_ref o, m_val o)) (fst (reuuid m nx)) = map (fun o => (m_ref o, m_val o)) m.
Proof. induction m as [|o m IH]; intros nx; simpl; auto. rewrite IH. reflexivity. Qed.

Lemma same_objs_names m' m :
  map (fun o => (m_ref o, m_val o)) m' = map (fun o => (m_ref o, m_val o)) m ->
  map oname m' = map oname m /\ map m_ref m' = map m_ref m.
Proof.
  intros H. split.
  - apply (f_equal (map (fun rv : sref * string => fst (fst rv)))) in H. rewrite !map_map in H. exact H.
  - apply (f_equal (map (fun rv : sref * string => fst rv))) in H. rewrite !map_map in H. exact H.
Qed.

Lemma copy_nodes_props s d wm : forall l nx,
  let C := fst (copy_nodes s d wm l nx) in
  map n_path C = map (rebase s d) (filter (is_prefix s) (map n_path l)) /\
  (forall nd, In nd l -> is_prefix s (n_path nd) = true ->
     exists c, In c C /\ n_path c = rebase s d (n_path nd) /\ n_grp c = n_grp nd /\
       (if wm then n_meta c = []
        else map (fun o => (m_ref o, m_val o)) (n_meta c) = map (fun o => (m_ref o, m_val o)) (n_meta nd))) /\
  (forall c, In c C -> exists nd, In nd l /\ is_prefix s (n_path nd) = true /\
       n_path c = rebase s d (n_path nd) /\
       (if wm then n_meta c = []
        else map (fun o => (m_ref o, m_val o)) (n_meta c) = map (fun o => (m_ref o, m_val o)) (n_meta nd))).
Proof.
  induction l as [|x l IH]; intros nx; simpl.
  - repeat split; intros; tauto.
  - destruct (is_prefix s (n_path x)) eqn:E; simpl.
    + set (mn := if wm then ([], nx) else reuuid (n_meta x) nx).
      destruct (IH (snd mn)) as (A & B & D).
      assert (Hm : if wm then fst mn = []
                   else map (fun o => (m_ref o, m_val o)) (fst mn) = map (fun o => (m_ref o, m_val o)) (n_meta x)).
      { unfold mn. destruct wm; simpl; auto. apply reuuid_same. }
      split; [rewrite A; reflexivity|]. split.
      * intros nd [<-|Hin] Hp.
        -- eexists. split; [left; reflexivity|]. simpl. repeat split; auto.
        -- destruct (B nd Hin Hp) as (c & Hc & Hrest). exists c. split; [right; exact Hc | exact Hrest].
      * intros c [<-|Hc].
        -- exists x. simpl. repeat split; auto.
        -- destruct (D c Hc) as (nd & Hin & Hrest). exists nd. split; [right; exact Hin | exact Hrest].
    + destruct (IH nx) as (A & B & D). split; [exact A|]. split.
      * intros nd [<-|Hin] Hp; [congruence|]. apply B; auto.
      * intros c Hc. destruct (D c Hc) as (nd & Hin & Hrest). exists nd. split; [right; exact Hin | exact Hrest].
Qed.

(** ** Every operation keeps the invariant *)

Lemma ref_in_use_app l l' r : ref_in_use (l ++ l') r = ref_in_use l r || ref_in_use l' r.
Proof. unfold ref_in_use. apply existsb_app. Qed.

Lemma ref_in_use_map_meta f l r :
  (forall nd, n_meta (f nd) = n_meta nd) -> ref_in_use (map f l) r = ref_in_use l r.
Proof.
  intros Hf. unfold ref_in_use. induction l as [|x l IH]; simpl; auto. rewrite Hf, IH. reflexivity.
Qed.

Lemma detach_inv e st p s : inv e st -> inv e (fst (detach st p s)).
Proof.
  intros H. unfold detach. destruct (nfind (s_nodes st) p) as [nd|]; auto.
  destruct (ofind (n_meta nd) s); auto. simpl. apply detach1_inv; exact H.
Qed.

Lemma inv_step e st o : env_wf e -> inv e st -> inv e (fst (step e st o)).
Proof.
  intros Hwf Hinv. destruct o as [p s v val vf|p s|par name grp|p|s dpar dname|s dpar dname wm|]; cbn [step].
  - destruct (attach e st p s v val vf) as [st' [|w]] eqn:E; simpl.
    + eapply attach_inv; eauto.
    + apply attach_refused_same in E. subst; auto.
  - apply detach_inv; exact Hinv.
  - destruct (is_grp_at (s_nodes st) par && negb (has_node (s_nodes st) (par ++ [name]))) eqn:E; simpl; auto.
    apply andb_true_iff in E as [E1 E2]. apply negb_true_iff, has_node_false in E2.
    destruct Hinv as (Ht & Hn & Hu & Hr & Hc).
    split; [apply mk_tree_ok; auto|]. simpl. split; [|split; [|split]]; auto.
    + intros nd Hin. apply in_app_iff in Hin as [Hin|[<-|[]]]; auto. simpl. constructor.
    + intros r. rewrite ref_in_use_app, Hu. simpl. rewrite !orb_false_r. reflexivity.
    + intros nd o Hin Ho. apply in_app_iff in Hin as [Hin|[<-|[]]]; [eauto | destruct Ho].
  - destruct p as [|a p]; [exact Hinv|]. lazy beta iota. set (q := a :: p).
    destruct (has_node (s_nodes st) q); [|exact Hinv]. cbn [fst].
    destruct (destroy_meta_props e st q Hinv) as ((Ht & Hn & Hu & Hr & Hc) & _ & _ & Hemp).
    split; [apply filter_tree_ok; auto|]. simpl. split; [|split; [|split]]; auto.
    + intros nd Hin. apply filter_In in Hin as [Hin _]. auto.
    + intros r. rewrite Hu, !ref_in_use_spec. split.
      * intros (nd & o & A & B & C). exists nd, o. split; auto. apply filter_In. split; auto.
        apply negb_true_iff. destruct (is_prefix q (n_path nd)) eqn:E; auto.
        rewrite (Hemp nd A E) in B. destruct B.
      * intros (nd & o & A & B & C). apply filter_In in A as [A _]. eauto.
    + intros nd o Hin Ho. apply filter_In in Hin as [Hin _]. eauto.
  - destruct (dest_ok (s_nodes st) s dpar dname) eqn:E; simpl; auto.
    apply dest_ok_spec in E as (_ & _ & Hdg & Hdn & Hsd).
    destruct Hinv as (Ht & Hn & Hu & Hr & Hc).
    change (map _ (s_nodes st)) with (map (mvn s dpar dname) (s_nodes st)).
    split; [apply move_tree_ok; auto|]. simpl. split; [|split; [|split]]; auto.
    + intros nd Hin. apply in_map_iff in Hin as (nd0 & <- & Hin). rewrite mvn_meta. auto.
    + intros r. rewrite ref_in_use_map_meta; [apply Hu | apply mvn_meta].
    + intros nd o Hin Ho. apply in_map_iff in Hin as (nd0 & <- & Hin). rewrite mvn_meta in Ho. eauto.
  - destruct (dest_ok (s_nodes st) s dpar dname) eqn:E; simpl; auto.
    apply dest_ok_spec in E as (_ & _ & Hdg & Hdn & Hsd).
    destruct Hinv as (Ht & Hn & Hu & Hr & Hc).
    destruct (copy_nodes_props s (dpar ++ [dname]) wm (s_nodes st) (s_next st)) as (A & B & D).
    set (C := fst (copy_nodes s (dpar ++ [dname]) wm (s_nodes st) (s_next st))) in *.
    assert (Hsub : forall c o, In c C -> In o (n_meta c) ->
              exists nd o0, In nd (s_nodes st) /\ In o0 (n_meta nd) /\ m_ref o0 = m_ref o).
    { intros c o Hc' Ho. destruct (D c Hc') as (nd & Hin & _ & _ & Hm). destruct wm.
      - rewrite Hm in Ho. destruct Ho.
      - apply same_objs_names in Hm as [_ Hm].
        assert (Hi : In (m_ref o) (map m_ref (n_meta nd))) by (rewrite <- Hm; apply in_map; exact Ho).
        apply in_map_iff in Hi as (o0 & E0 & Hi). eauto. }
    split.
    { apply (copy_tree_ok (s_nodes st) s dpar dname Ht Hdg Hdn Hsd C A).
      intros nd Hin Hp. destruct (B nd Hin Hp) as (c & H1 & H2 & H3 & _). eauto. }
    simpl. fold C. split; [|split; [|split]]; auto.
    + intros nd Hin. apply in_app_iff in Hin as [Hin|Hin]; auto.
      destruct (D nd Hin) as (nd0 & Hin0 & _ & _ & Hm). destruct wm.
      * rewrite Hm. constructor.
      * apply same_objs_names in Hm as [Hm _]. rewrite Hm. auto.
    + intros r. rewrite ref_in_use_app, Hu. split; [intros ->; reflexivity|].
      intros H. apply orb_true_iff in H as [H|H]; auto.
      apply ref_in_use_spec in H as (c & o & Hc' & Ho & <-).
      destruct (Hsub c o Hc' Ho) as (nd & o0 & H1 & H2 & H3).
      apply ref_in_use_spec. eauto.
    + intros nd o Hin Ho. apply in_app_iff in Hin as [Hin|Hin]; eauto.
      destruct (Hsub nd o Hin Ho) as (nd0 & o0 & H1 & H2 & H3). rewrite <- H3. eauto.
  - destruct Hinv as (Ht & Hn & Hu & Hr & Hc). split; auto. simpl. split; [|split; [|split]]; auto.
    apply toc_rebuild_ok; exact Hwf.
Qed.

Lemma inv_run e ops : env_wf e -> inv e (run e ops).
Proof.
  intros Hwf. unfold run. assert (G : forall st, inv e st -> inv e (fold_left (fun st o => fst (step e st o)) ops st)).
  { induction ops as [|o ops IH]; intros st H; simpl; auto. apply IH. apply inv_step; auto. }
  apply G. apply inv_init.
Qed.

(** ** Queries are exact *)

Lemma inv_used e st nd o : inv e st -> In nd (s_nodes st) -> In o (n_meta nd) ->
  In (m_ref o) (t_used (s_toc st)).
Proof. intros (_ & _ & Hu & _) Hin Ho. apply Hu. apply ref_in_use_spec. eauto. Qed.

Lemma ncontains_spec e st nd s v : inv e st -> In nd (s_nodes st) ->
  ncontains (s_toc st) s v nd = existsb (carries e s v) (n_meta nd).
Proof.
  intros Hinv Hin. unfold ncontains. pose proof Hinv as (_ & Hn & _ & _ & Hc).
  apply mcontains_spec; auto. intros o Ho. eapply inv_used; eauto.
Qed.

Theorem query_exact e st start s v : inv e st ->
  (forall p, In p (query st start s v) <-> In p (brute e st start s v)) /\
  NoDup (query st start s v) /\ NoDup (brute e st start s v).
Proof.
  intros Hinv. pose proof Hinv as ((Hnd & Hcl) & _).
  assert (HB : NoDup (brute e st start s v)) by (unfold brute; apply NoDup_map_filter; exact Hnd).
  unfold query. destruct (nfind (s_nodes st) start) as [nd|] eqn:Hf.
  - pose proof (nfind_In _ _ _ Hf) as [Hin Hp].
    set (below := filter (fun x => is_below start (n_path x) && ncontains (s_toc st) s v x) (s_nodes st)).
    split; [|split; auto].
    + intros p. unfold brute. rewrite in_app_iff, in_map_iff. split.
      * intros [H|H].
        -- destruct (ncontains (s_toc st) s v nd) eqn:Ec; [|destruct H]. destruct H as [<-|[]].
           exists nd. split; auto. apply filter_In. split; auto.
           rewrite Hp, is_prefix_refl. rewrite <- (ncontains_spec e st nd s v Hinv Hin). exact Ec.
        -- destruct (n_grp nd); [|destruct H]. apply in_map_iff in H as (x & <- & Hx).
           apply filter_In in Hx as [Hx Hc]. apply andb_true_iff in Hc as [Hb Hc].
           exists x. split; auto. apply filter_In. split; auto.
           rewrite (is_below_prefix _ _ Hb). rewrite <- (ncontains_spec e st x s v Hinv Hx). exact Hc.
      * intros (x & <- & Hx). apply filter_In in Hx as [Hx Hc]. apply andb_true_iff in Hc as [Hpre Hc].
        rewrite <- (ncontains_spec e st x s v Hinv Hx) in Hc.
        apply prefix_cases in Hpre as [E|Hb].
        -- left. assert (x = nd) by (apply (node_at_unique _ x nd start Hnd Hf Hx); auto). subst x. rewrite Hc. left; auto.
        -- right. assert (Hg : is_grp_at (s_nodes st) start = true).
           { apply (Hcl (n_path x) start); auto. apply in_map; exact Hx. }
           unfold is_grp_at in Hg. rewrite Hf in Hg. rewrite Hg.
           apply in_map. apply filter_In. split; auto. rewrite Hb, Hc. reflexivity.
    + apply NoDup_app_intro.
      * destruct (ncontains (s_toc st) s v nd); constructor; [tauto | constructor].
      * destruct (n_grp nd); [apply NoDup_map_filter; exact Hnd | constructor].
      * intros x H1 H2. destruct (ncontains (s_toc st) s v nd); [|destruct H1]. destruct H1 as [<-|[]].
        destruct (n_grp nd); [|destruct H2]. apply in_map_iff in H2 as (y & Ey & Hy).
        apply filter_In in Hy as [_ Hy]. apply andb_true_iff in Hy as [Hy _].
        apply is_below_spec in Hy as (r & Er & Hr). rewrite Ey in Er.
        rewrite <- (app_nil_r start) in Er at 1. apply app_inv_head in Er. congruence.
  - split; [|split; [constructor | auto]]. intros p. split; [intros []|].
    unfold brute. intros H. apply in_map_iff in H as (x & <- & Hx). apply filter_In in Hx as [Hx Hc].
    apply andb_true_iff in Hc as [Hpre _]. exfalso.
    apply (closed_prefix_node (s_nodes st) (n_path x) start); auto; [split; auto | apply in_map; exact Hx].
Qed.

(** ** Reading attached objects *)

Definition stored (st : state) (p : path) (ob : mobj) : Prop :=
  exists nd, nfind (s_nodes st) p = Some nd /\ In ob (n_meta nd).

Lemma toc_par_ppath e t c : toc_ok e t -> In c (t_used t) -> aget (t_par t) c = ppath e c.
Proof.
  intros (_ & _ & Hp & Hu) Hc. specialize (Hu c Hc). unfold aget.
  destruct (afind (t_par t) c) as [l|] eqn:E; [|congruence]. apply (Hp c l E).
Qed.

Lemma cands_ext e t m s v :
  toc_ok e t -> (forall o, In o m -> In (m_ref o) (t_used t)) ->
  cands t m s v =
  match get_raw m s v with
  | Some o => [o]
  | None => filter (fun o => existsb (vcompat s v) (sanc e (m_ref o))) m
  end.
Proof.
  intros Ht Hu. unfold cands. destruct (get_raw m s v); auto.
  apply filter_ext_in. intros o Ho. apply via_child_spec; auto.
Qed.

Lemma NoDup_map_NoDup {X Y} (f : X -> Y) l : NoDup (map f l) -> NoDup l.
Proof. apply NoDup_map_inv. Qed.

Lemma all_same_singleton {X} (l : list X) x :
  NoDup l -> In x l -> (forall y, In y l -> y = x) -> l = [x].
Proof.
  intros Hnd Hin Hall. destruct l as [|a l]; [destruct Hin|].
  assert (a = x) by (apply Hall; left; reflexivity). subst a.
  destruct l as [|b l]; auto. assert (b = x) by (apply Hall; right; left; reflexivity). subst b.
  inversion Hnd; subst. exfalso. apply H1. left; reflexivity.
Qed.

Lemma cands_props e t m s v :
  toc_ok e t -> (forall o, In o m -> In (m_ref o) (t_used t)) -> NoDup (map oname m) ->
  (forall o, In o (cands t m s v) -> In o m /\ carries e s v o = true) /\
  (forall o, In o m -> carries e s v o = true -> cands t m s v <> []) /\
  (forall o, In o m -> carries e s v o = true ->
     (forall o2, In o2 m -> carries e s v o2 = true -> o2 = o) -> cands t m s v = [o]).
Proof.
  intros Ht Hu Hnd. rewrite (cands_ext e t m s v Ht Hu).
  assert (A : forall o, In o (match get_raw m s v with
                              | Some o => [o]
                              | None => filter (fun o => existsb (vcompat s v) (sanc e (m_ref o))) m
                              end) -> In o m /\ carries e s v o = true).
  { intros o. destruct (get_raw m s v) as [o'|] eqn:E.
    - intros [<-|[]]. apply get_raw_Some in E as [E1 E2]; auto. split; auto.
      rewrite carries_split, E2. apply orb_true_r.
    - intros H. apply filter_In in H as [H1 H2]. split; auto. rewrite carries_split, H2. reflexivity. }
  assert (B : forall o, In o m -> carries e s v o = true ->
              In o (match get_raw m s v with
                    | Some o => [o]
                    | None => filter (fun o => existsb (vcompat s v) (sanc e (m_ref o))) m
                    end) \/ exists o', get_raw m s v = Some o').
  { intros o Ho Hc. destruct (get_raw m s v) as [o'|] eqn:E; [right; eauto|]. left.
    apply filter_In. split; auto. rewrite carries_split in Hc. apply orb_true_iff in Hc as [Hc|Hc]; auto.
    rewrite get_raw_None in E; auto. rewrite (E o Ho) in Hc. discriminate. }
  split; [exact A|]. split.
  - intros o Ho Hc. destruct (B o Ho Hc) as [H|(o' & E)].
    + intros E. rewrite E in H. destruct H.
    + rewrite E. discriminate.
  - intros o Ho Hc Huniq. destruct (get_raw m s v) as [o'|] eqn:E.
    + f_equal. apply Huniq; apply (A o'); left; reflexivity.
    + apply all_same_singleton.
      * apply NoDup_filter. eapply NoDup_map_NoDup; eauto.
      * destruct (B o Ho Hc) as [H|(o' & E')]; [exact H | discriminate].
      * intros y Hy. apply A in Hy as [Hy1 Hy2]. apply Huniq; auto.
Qed.

Lemma stored_node e st p ob : inv e st -> stored st p ob ->
  exists nd, nfind (s_nodes st) p = Some nd /\ In nd (s_nodes st) /\ In ob (n_meta nd) /\
    NoDup (map oname (n_meta nd)) /\ (forall o, In o (n_meta nd) -> In (m_ref o) (t_used (s_toc st))) /\
    env_get e (m_ref ob) <> None.
Proof.
  intros Hinv (nd & Hf & Ho). pose proof (nfind_In _ _ _ Hf) as [Hin _].
  pose proof Hinv as (_ & Hn & _ & Hr & _). exists nd. repeat split; eauto.
  intros o Ho'. eapply inv_used; eauto.
Qed.

Lemma sref_eta (r : sref) : (fst r, snd r) = r.
Proof. destruct r; reflexivity. Qed.

Lemma vcompat_self a : vcompat (fst a) (Some (snd a)) a = true.
Proof. unfold vcompat. rewrite String.eqb_refl, sref_eta. apply supports_refl. Qed.

(** The object comes back, as its own schema, through a release that supports the stored one. *)
Theorem get_own e st p ob : inv e st -> stored st p ob ->
  exists cls, get e st p (oname ob) (Some (snd (m_ref ob))) = GFound ob cls /\
              fst cls = oname ob /\ supports (to_ref cls) (to_ref (m_ref ob)) = true.
Proof.
  intros Hinv Hst. destruct (stored_node e st p ob Hinv Hst) as (nd & Hf & Hin & Ho & Hnd & Hu & Hreg).
  unfold get, get_all. rewrite Hf. unfold cands.
  assert (E : get_raw (n_meta nd) (oname ob) (Some (snd (m_ref ob))) = Some ob).
  { apply get_raw_Some; auto. split; auto. apply vcompat_self. }
  rewrite E. simpl. unfold view, view_ver.
  destruct (eresolve_exists e (oname ob) (snd (m_ref ob)) (m_ref ob) Hreg eq_refl) as (cls & Ec).
  { unfold oname. rewrite sref_eta. apply supports_refl. }
  rewrite Ec. apply eresolve_Some in Ec as (_ & Hn & Hs).
  exists cls. repeat split; auto.
Qed.

Lemma nfind_nupd_same l p f nd :
  nfind l p = Some nd -> nfind (nupd l p f) p = Some (mknode (n_path nd) (n_grp nd) (f (n_meta nd))).
Proof.
  intros H. rewrite nfind_nupd, H. apply nfind_In in H as [_ Hp]. rewrite Hp, path_eqb_refl. reflexivity.
Qed.

(** What was attached is what [get] returns -- by its release and by its name alone. *)
Theorem get_set e st p s v val vf st' :
  env_wf e -> inv e st -> attach e st p s v val vf = (st', ROk) ->
  exists r, let o := mkmobj r (s_next st) val in
    fst r = s /\ eresolve e s v = Some r /\ stored st' p o /\
    get e st' p s (Some (snd r)) = GFound o r /\ get e st' p s None = GFound o r.
Proof.
  intros Hwf Hinv Hat. pose proof (attach_inv e st p s v val vf st' Hwf Hinv Hat) as Hinv'.
  apply attach_ok_inv in Hat as (nd0 & r & Hf & Ho & Er & _ & _ & ->).
  pose proof (eresolve_Some _ _ _ _ Er) as (Hreg & Hname & _).
  exists r. cbv zeta. set (o := mkmobj r (s_next st) val).
  set (st' := mkstate _ _ _) in *.
  assert (Hf' : nfind (s_nodes st') p = Some (mknode (n_path nd0) (n_grp nd0) (n_meta nd0 ++ [o])))
    by (apply (nfind_nupd_same _ p (fun m => m ++ [o]) nd0 Hf)).
  assert (Hst : stored st' p o).
  { eexists. split; [exact Hf'|]. simpl. apply in_app_iff; right; left; reflexivity. }
  destruct (stored_node e st' p o Hinv' Hst) as (nd & Hfn & Hin & Hon & Hnd & Hu & _).
  split; auto. split; auto. split; auto.
  assert (Hfix : eresolve e s (Some (snd r)) = Some r) by (eapply eresolve_fix; eauto).
  assert (Hraw : forall v', vcompat s v' r = true -> get_raw (n_meta nd) s v' = Some o).
  { intros v' Hv. apply get_raw_Some; auto. }
  split.
  - unfold get, get_all. rewrite Hfn. unfold cands. rewrite Hraw.
    + cbn [map]. unfold view, view_ver. rewrite Hfix. reflexivity.
    + rewrite <- Hname. apply vcompat_self.
  - unfold get, get_all. rewrite Hfn. unfold cands. rewrite Hraw.
    + cbn [map]. unfold view, view_ver. change (m_ref o) with r.
      destruct Hinv' as (_ & _ & _ & _ & Htoc). rewrite (toc_par_ppath e (s_toc st') r Htoc (Hu o Hon)).
      unfold ppath. rewrite rev_app_distr. cbn [rev app find]. rewrite Hname, String.eqb_refl.
      cbn [snd]. rewrite Hfix. reflexivity.
    + unfold vcompat. rewrite Hname, String.eqb_refl. reflexivity.
Qed.

Lemma ppath_reg e r a : env_wf e -> env_get e r <> None -> In a (ppath e r) -> env_get e a <> None.
Proof.
  intros Hwf Hr Ha. unfold ppath in Ha. apply in_app_iff in Ha as [Ha|[<-|[]]]; auto.
  eapply sanc_reg; eauto.
Qed.

(** Requested by (a release of) any ancestor schema: a parent view of a carrying object. *)
Theorem parent_view e st p ob a :
  env_wf e -> inv e st -> stored st p ob -> In a (ppath e (m_ref ob)) ->
  exists ob' cls, get e st p (fst a) (Some (snd a)) = GFound ob' cls /\ stored st p ob' /\
    carries e (fst a) (Some (snd a)) ob' = true /\ fst cls = fst a /\
    supports (to_ref cls) (to_ref a) = true /\
    ((forall o2, stored st p o2 -> carries e (fst a) (Some (snd a)) o2 = true -> o2 = ob) -> ob' = ob).
Proof.
  intros Hwf Hinv Hst Ha.
  destruct (stored_node e st p ob Hinv Hst) as (nd & Hf & Hin & Ho & Hnd & Hu & Hreg).
  pose proof Hinv as (_ & _ & _ & _ & Htoc).
  destruct (cands_props e (s_toc st) (n_meta nd) (fst a) (Some (snd a)) Htoc Hu Hnd) as (A & B & C).
  assert (Hc : carries e (fst a) (Some (snd a)) ob = true).
  { unfold carries. apply existsb_exists. exists a. split; auto. apply vcompat_self. }
  pose proof (B ob Ho Hc) as Hne.
  destruct (eresolve_exists e (fst a) (snd a) a) as (cls & Ec); auto.
  { eapply ppath_reg; eauto. }
  { rewrite sref_eta. apply supports_refl. }
  unfold get, get_all. rewrite Hf.
  destruct (cands (s_toc st) (n_meta nd) (fst a) (Some (snd a))) as [|ob' rest] eqn:Ecs; [congruence|].
  simpl. unfold view, view_ver. rewrite Ec.
  destruct (A ob') as [A1 A2]; [left; reflexivity|].
  pose proof (eresolve_Some _ _ _ _ Ec) as (_ & Hn & Hs). rewrite sref_eta in Hs.
  exists ob', cls. repeat split; auto.
  - exists nd. auto.
  - intros Huniq. assert (E : ob' :: rest = [ob]).
    { apply C; auto. intros o2 Ho2 Hc2. apply Huniq; auto. exists nd; auto. }
    congruence.
Qed.

(** Requested by name only: the view is through a release supporting the release of that
    schema the object was stored as. *)
Theorem view_release e st p s ob' cls :
  env_wf e -> inv e st -> get e st p s None = GFound ob' cls ->
  stored st p ob' /\
  exists a, In a (ppath e (m_ref ob')) /\ fst a = s /\ fst cls = s /\
            supports (to_ref cls) (to_ref a) = true.
Proof.
  intros Hwf Hinv. unfold get, get_all.
  destruct (nfind (s_nodes st) p) as [nd|] eqn:Hf; [|discriminate].
  pose proof (nfind_In _ _ _ Hf) as [Hin _].
  pose proof Hinv as (_ & Hn & _ & _ & Htoc).
  assert (Hu : forall o, In o (n_meta nd) -> In (m_ref o) (t_used (s_toc st))) by (intros; eapply inv_used; eauto).
  destruct (cands_props e (s_toc st) (n_meta nd) s None Htoc Hu (Hn nd Hin)) as (A & _ & _).
  destruct (cands (s_toc st) (n_meta nd) s None) as [|o rest]; [discriminate|]. simpl.
  destruct (A o) as [A1 A2]; [left; reflexivity|].
  unfold view, view_ver. rewrite (toc_par_ppath e _ _ Htoc (Hu o A1)).
  unfold carries in A2. apply existsb_exists in A2 as (a0 & Ha0 & Hv0). apply vcompat_name in Hv0.
  destruct (find (fun a => String.eqb (fst a) s) (rev (ppath e (m_ref o)))) as [a|] eqn:Efind.
  - apply find_some in Efind as [E1 E2]. apply in_rev in E1. apply String.eqb_eq in E2.
    destruct (eresolve e s (Some (snd a))) as [c|] eqn:Ec; [|discriminate].
    intros H; inversion H; subst o c. split; [exists nd; auto|].
    apply eresolve_Some in Ec as (_ & Hnc & Hs). exists a. repeat split; auto.
    rewrite <- E2, sref_eta in Hs. exact Hs.
  - exfalso. assert (Hr0 : In a0 (rev (ppath e (m_ref o)))) by (rewrite <- in_rev; exact Ha0).
    pose proof (find_none _ _ Efind a0 Hr0) as Hfn. cbv beta in Hfn.
    rewrite Hv0, String.eqb_refl in Hfn. discriminate.
Qed.

Theorem parent_view_by_name e st p ob a :
  env_wf e -> inv e st -> stored st p ob -> In a (ppath e (m_ref ob)) ->
  exists ob' cls, get e st p (fst a) None = GFound ob' cls.
Proof.
  intros Hwf Hinv Hst Ha.
  destruct (stored_node e st p ob Hinv Hst) as (nd & Hf & Hin & Ho & Hnd & Hu & Hreg).
  pose proof Hinv as (_ & _ & _ & Hr & Htoc).
  destruct (cands_props e (s_toc st) (n_meta nd) (fst a) None Htoc Hu Hnd) as (A & B & _).
  assert (Hc : carries e (fst a) None ob = true).
  { unfold carries. apply existsb_exists. exists a. split; auto. unfold vcompat. rewrite String.eqb_refl. reflexivity. }
  pose proof (B ob Ho Hc) as Hne. unfold get, get_all. rewrite Hf.
  destruct (cands (s_toc st) (n_meta nd) (fst a) None) as [|o rest]; [congruence|]. simpl.
  destruct (A o) as [A1 A2]; [left; reflexivity|].
  unfold view, view_ver. rewrite (toc_par_ppath e _ _ Htoc (Hu o A1)).
  unfold carries in A2. apply existsb_exists in A2 as (a0 & Ha0 & Hv0). apply vcompat_name in Hv0.
  destruct (find (fun x => String.eqb (fst x) (fst a)) (rev (ppath e (m_ref o)))) as [a1|] eqn:Efind.
  - apply find_some in Efind as [E1 E2]. rewrite <- in_rev in E1. apply String.eqb_eq in E2.
    destruct (eresolve_exists e (fst a) (snd a1) a1) as (cls & Ec); auto.
    + apply (ppath_reg e (m_ref o) a1 Hwf (Hr nd o Hin A1) E1).
    + rewrite <- E2, sref_eta. apply supports_refl.
    + rewrite Ec. eauto.
  - exfalso. assert (Hr0 : In a0 (rev (ppath e (m_ref o)))) by (rewrite <- in_rev; exact Ha0).
    pose proof (find_none _ _ Efind a0 Hr0) as Hfn. cbv beta in Hfn.
    rewrite Hv0, String.eqb_refl in Hfn. discriminate.
Qed.

(** ** An attached object stays until it or its node is deleted *)

Definition keeps (o : op) (p : path) (ob : mobj) : Prop :=
  match o with
  | ODetach q s => ~ (q = p /\ s = oname ob)
  | ODel q => is_prefix q p = false
  | _ => True
  end.

(** Where the node is after the operation (a successful move renames it). *)
Definition moved (o : op) (st : state) (p : path) : path :=
  match o with
  | OMove s dpar dname =>
      if dest_ok (s_nodes st) s dpar dname && is_prefix s p then rebase s (dpar ++ [dname]) p else p
  | _ => p
  end.

Lemma detach1_stored st q s p ob :
  stored st p ob -> ~ (q = p /\ s = oname ob) -> stored (detach1 st q s) p ob.
Proof.
  intros (nd & Hf & Ho) Hk. unfold detach1.
  destruct (nfind (s_nodes st) q) as [nd0|] eqn:Hq; [|exists nd; auto].
  destruct (ofind (n_meta nd0) s) as [o0|] eqn:Ho0; [|exists nd; auto].
  unfold stored. simpl. rewrite nfind_nupd, Hf. eexists. split; [reflexivity|].
  destruct (path_eqb (n_path nd) q) eqn:E; auto. simpl. apply orem_In. split; auto.
  intros En. apply Hk. apply path_eqb_eq in E. apply nfind_In in Hf as [_ Hp]. split; congruence.
Qed.

Lemma dfold_stored p ob : forall l st,
  (forall q s, In (q, s) l -> q <> p) -> stored st p ob -> stored (dfold l st) p ob.
Proof.
  induction l as [|[q s] l IH]; intros st Hl Hst; simpl; auto.
  apply IH; [intros q' s' H; apply (Hl q' s'); right; exact H|].
  apply detach1_stored; auto. intros [E _]. apply (Hl q s); auto. left; reflexivity.
Qed.

Lemma stored_step e st o p ob :
  env_wf e -> inv e st -> stored st p ob -> keeps o p ob ->
  stored (fst (step e st o)) (moved o st p) ob.
Proof.
  intros Hwf Hinv Hst Hk. pose proof Hst as (nd & Hf & Ho).
  destruct o as [q s v val vf|q s|par name grp|q|s dpar dname|s dpar dname wm|]; cbn [step moved].
  - destruct (attach e st q s v val vf) as [st' [|w]] eqn:E; cbn [fst].
    + apply attach_ok_inv in E as (nd0 & r & _ & _ & _ & _ & _ & ->).
      unfold stored. simpl. rewrite nfind_nupd, Hf. eexists. split; [reflexivity|].
      destruct (path_eqb (n_path nd) q); auto. simpl. apply in_app_iff; auto.
    + apply attach_refused_same in E. subst; auto.
  - unfold detach. destruct (nfind (s_nodes st) q) as [nd0|]; auto.
    destruct (ofind (n_meta nd0) s); auto. cbn [fst]. apply detach1_stored; auto.
  - destruct (is_grp_at (s_nodes st) par && negb (has_node (s_nodes st) (par ++ [name]))); auto.
    unfold stored. simpl. rewrite nfind_app, Hf. eauto.
  - destruct q as [|a q]; auto. lazy beta iota. unfold keeps in Hk. set (q' := a :: q) in *.
    destruct (has_node (s_nodes st) q'); auto. cbn [fst].
    assert (Hd : stored (destroy_meta st q') p ob).
    { unfold destroy_meta. apply (dfold_stored p ob); auto.
      intros x s H E. apply meta_pairs_In in H as (ndx & o & _ & Hpre & _ & -> & _).
      rewrite E in Hpre. congruence. }
    destruct Hd as (nd1 & Hf1 & Ho1). unfold stored. cbn [s_nodes]. exists nd1. split; auto.
    rewrite nfind_filter; auto. intros x Hx. rewrite Hx, Hk. reflexivity.
  - destruct (dest_ok (s_nodes st) s dpar dname) eqn:E; cbn [fst andb]; auto.
    pose proof E as E'. apply dest_ok_spec in E' as (_ & _ & Hdg & Hdn & Hsd).
    pose proof Hinv as (Ht & _).
    pose proof (move_tree_ok (s_nodes st) s dpar dname Ht Hdg Hdn Hsd) as [Hnd' _].
    pose proof (nfind_In _ _ _ Hf) as [Hin Hp].
    unfold stored. cbn [s_nodes]. change (map _ (s_nodes st)) with (map (mvn s dpar dname) (s_nodes st)).
    exists (mvn s dpar dname nd). split; [|rewrite mvn_meta; exact Ho].
    assert (Epath : n_path (mvn s dpar dname nd) =
                    (if is_prefix s p then rebase s (dpar ++ [dname]) p else p)).
    { rewrite mvn_path. unfold mvp. rewrite Hp. reflexivity. }
    rewrite <- Epath. apply nfind_NoDup; auto. apply in_map; exact Hin.
  - destruct (dest_ok (s_nodes st) s dpar dname); auto.
    unfold stored. simpl. rewrite nfind_app, Hf. eauto.
  - exact Hst.
Qed.

Theorem get_stable e st o p ob :
  env_wf e -> inv e st -> stored st p ob -> keeps o p ob ->
  exists cls, get e (fst (step e st o)) (moved o st p) (oname ob) (Some (snd (m_ref ob))) = GFound ob cls /\
              fst cls = oname ob /\ supports (to_ref cls) (to_ref (m_ref ob)) = true.
Proof.
  intros Hwf Hinv Hst Hk. apply get_own.
  - apply inv_step; auto.
  - apply stored_step; auto.
Qed.

(** ** One object per schema; auxiliary and unknown schemas are refused *)

Theorem one_per_schema e st p ob v val vf :
  stored st p ob -> attach e st p (oname ob) v val vf = (st, RRef WExists).
Proof.
  intros (nd & Hf & Ho). unfold attach. rewrite Hf.
  destruct (ofind (n_meta nd) (oname ob)) eqn:E; auto.
  rewrite ofind_None in E. exfalso. apply (E ob Ho). reflexivity.
Qed.

Theorem one_per_schema_state e st p o1 o2 :
  inv e st -> stored st p o1 -> stored st p o2 -> oname o1 = oname o2 -> o1 = o2.
Proof.
  intros Hinv (nd & Hf & H1) (nd' & Hf' & H2) En. rewrite Hf in Hf'. inversion Hf'; subst nd'.
  pose proof (nfind_In _ _ _ Hf) as [Hin _]. destruct Hinv as (_ & Hn & _).
  pose proof (ofind_unique _ (oname o2) o1 (Hn nd Hin) H1 En) as E1.
  pose proof (ofind_unique _ (oname o2) o2 (Hn nd Hin) H2 eq_refl) as E2. congruence.
Qed.

Theorem aux_or_unknown_refused e st p s v val vf :
  (eresolve e s v = None \/
   exists r i, eresolve e s v = Some r /\ env_get e r = Some i /\ s_aux i = true) ->
  exists w, attach e st p s v val vf = (st, RRef w).
Proof.
  intros H. unfold attach. destruct (nfind (s_nodes st) p) as [nd|]; [|eauto].
  destruct (ofind (n_meta nd) s); [eauto|]. unfold require_schema.
  destruct H as [->|(r & i & -> & -> & ->)]; eauto.
Qed.

(** ** A re-opened container gives the same answers *)

Theorem reopen_same e st :
  env_wf e -> inv e st ->
  let st' := fst (step e st OReopen) in
  (forall start s v, query st' start s v = query st start s v) /\
  (forall p s v, get_all e st' p s v = get_all e st p s v) /\
  (forall nd s v, In nd (s_nodes st) -> ncontains (s_toc st') s v nd = ncontains (s_toc st) s v nd).
Proof.
  intros Hwf Hinv st'. pose proof (inv_step e st OReopen Hwf Hinv) as Hinv'. fold st' in Hinv'.
  assert (Hnodes : s_nodes st' = s_nodes st) by reflexivity.
  assert (Hc : forall nd s v, In nd (s_nodes st) -> ncontains (s_toc st') s v nd = ncontains (s_toc st) s v nd).
  { intros nd s v Hin. rewrite (ncontains_spec e st' nd s v Hinv'), (ncontains_spec e st nd s v Hinv); auto. }
  split; [|split; [|exact Hc]].
  - intros start s v. unfold query. rewrite Hnodes.
    destruct (nfind (s_nodes st) start) as [nd|] eqn:Hf; auto.
    pose proof (nfind_In _ _ _ Hf) as [Hin _]. rewrite (Hc nd s v Hin). f_equal.
    destruct (n_grp nd); auto. f_equal. apply filter_ext_in. intros x Hx. rewrite (Hc x s v Hx). reflexivity.
  - intros p s v. unfold get_all. rewrite Hnodes.
    destruct (nfind (s_nodes st) p) as [nd|] eqn:Hf; auto.
    pose proof (nfind_In _ _ _ Hf) as [Hin _].
    pose proof Hinv as (_ & _ & _ & _ & Htoc). pose proof Hinv' as (_ & _ & _ & _ & Htoc').
    assert (Hu : forall o, In o (n_meta nd) -> In (m_ref o) (t_used (s_toc st))) by (intros; eapply inv_used; eauto).
    assert (Hu' : forall o, In o (n_meta nd) -> In (m_ref o) (t_used (s_toc st'))) by (intros; apply Hu; auto).
    rewrite (cands_ext e (s_toc st') (n_meta nd) s v Htoc' Hu'), (cands_ext e (s_toc st) (n_meta nd) s v Htoc Hu).
    apply map_ext_in. intros o Ho.
    assert (Hom : In o (n_meta nd)).
    { destruct (get_raw (n_meta nd) s v) as [o'|] eqn:E.
      - destruct Ho as [<-|[]]. unfold get_raw in E. destruct (ofind (n_meta nd) s) as [o2|] eqn:E2; [|discriminate].
        destruct (vcompat s v (m_ref o2)); [|discriminate]. inversion E; subst. apply ofind_In in E2; tauto.
      - apply filter_In in Ho; tauto. }
    unfold view, view_ver.
    rewrite (toc_par_ppath e (s_toc st') _ Htoc' (Hu' o Hom)), (toc_par_ppath e (s_toc st) _ Htoc (Hu o Hom)).
    reflexivity.
Qed.

(** ** The pinned rules, refuted on concrete histories *)

Definition ex_env : env :=
  rev [ (("aa", (1, (0, 0))), mksinfo None false);
        (("aa", (2, (0, 0))), mksinfo None false);
        (("bb", (1, (0, 0))), mksinfo (Some ("aa", (1, (0, 0)))) false);
        (("cc", (1, (0, 0))), mksinfo (Some ("bb", (1, (0, 0)))) false);
        (("xx", (1, (0, 0))), mksinfo None true);
        (("dd", (1, (0, 0))), mksinfo (Some ("xx", (1, (0, 0)))) false);
        (("ff", (1, (0, 0))), mksinfo None false);
        (("ff", (2, (0, 0))), mksinfo None false) ]%N.

Lemma ex_env_wf : env_wf ex_env.
Proof. apply env_wfb_wf. vm_compute. reflexivity. Qed.

Definition v100 : ver := (1, (0, 0))%N.
Definition ex_all : list sref := map fst ex_env.

(** Reading through an auxiliary parent schema: the pinned rule raises. *)
Lemma get_pinned_aux_refuted :
  exists e ops p s v o cls, env_wf e /\
    get e (run e ops) p s v = GFound o cls /\ get_pinned e (run e ops) p s v = GErr WAux.
Proof.
  exists ex_env, [OMk [] "g" true; OAttach ["g"] "dd" (Some v100) "val" ex_all], ["g"], "xx", None.
  eexists; eexists. split; [exact ex_env_wf|]. split; vm_compute; reflexivity.
Qed.

(** Reading by name: the pinned rule presents an object of release 1 through release 2. *)
Lemma get_pinned_release_refuted :
  exists e ops p s o cls, env_wf e /\
    get_pinned e (run e ops) p s None = GFound o cls /\
    forallb (fun a => negb (String.eqb (fst a) s && supports (to_ref cls) (to_ref a))) (ppath e (m_ref o)) = true.
Proof.
  exists ex_env, [OMk [] "g" true; OAttach ["g"] "ff" (Some v100) "val" ex_all], ["g"], "ff".
  eexists; eexists. split; [exact ex_env_wf|]. split; vm_compute; reflexivity.
Qed.

(** The incrementally maintained children map is *not* the rebuilt one (chain aa > bb > cc:
    removing the last bb object while cc is in use leaves bb among the children of aa);
    no query or read can tell (theorem [reopen_same]). *)
Lemma index_not_rebuilt_refuted :
  exists e ops x y, env_wf e /\
    let t := s_toc (run e ops) in
    smem y (aget (t_chi t) x) = true /\
    smem y (aget (t_chi (toc_rebuild e (t_used t))) x) = false.
Proof.
  exists ex_env,
    [OMk [] "g" true; OMk [] "h" true;
     OAttach ["g"] "cc" (Some v100) "c" ex_all; OAttach ["h"] "bb" (Some v100) "b" ex_all;
     ODetach ["h"] "bb"],
    ("aa", v100), ("bb", v100).
  split; [exact ex_env_wf|]. split; vm_compute; reflexivity.
Qed.
