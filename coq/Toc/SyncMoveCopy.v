(** * Move and copy keep the container in sync (property C06, file part of the
    successful [c_move], [c_copy] and copy into a group object). *)
From Coq Require Import List String Ascii Bool Arith NArith Lia.
From MV Require Import Base.Sx Toc.Layout Toc.LayoutProofs Toc.UserView Toc.UserViewProofs
  Toc.Sync Toc.SyncProofs.
Import ListNotations.
Local Open Scope string_scope.
Local Open Scope list_scope.
Local Arguments meta_dir_of : simpl never.
Local Arguments String.eqb : simpl never.

(** ** Re-keying a tree *)

Definition tmap (r : path -> path) (T : tree) : tree := map (fun e => (r (fst e), snd e)) T.

Lemma t_rename_tmap s d T : t_rename s d T = tmap (rebase s d) T.
Proof. reflexivity. Qed.

Lemma keys_tmap r T : map fst (tmap r T) = map r (map fst T).
Proof. unfold tmap. rewrite !map_map. reflexivity. Qed.

Lemma tmap_tmap r1 r2 T : tmap r2 (tmap r1 T) = tmap (fun k => r2 (r1 k)) T.
Proof. unfold tmap. rewrite map_map. reflexivity. Qed.

Lemma tmap_ext_in r1 r2 T : (forall k, In k (map fst T) -> r1 k = r2 k) -> tmap r1 T = tmap r2 T.
Proof.
  intros H. unfold tmap. apply map_ext_in. intros e I. rewrite H; auto. now apply in_map.
Qed.

Lemma tmap_id r T : (forall k, In k (map fst T) -> r k = k) -> tmap r T = T.
Proof.
  intros H. unfold tmap. rewrite <- (map_id T) at 2. apply map_ext_in. intros e I.
  rewrite H; [now destruct e|now apply in_map].
Qed.

Lemma NoDup_map_inj_in {X Y} (f : X -> Y) l :
  NoDup l -> (forall x y, In x l -> In y l -> f x = f y -> x = y) -> NoDup (map f l).
Proof.
  induction l as [|a l IH]; simpl; intros ND H; constructor.
  - inversion ND; subst. intros I. apply in_map_iff in I as (y & E & I).
    assert (y = a) by (apply H; auto). subst. contradiction.
  - inversion ND; subst. apply IH; auto.
Qed.

Lemma filter_map_in {X} (f : X -> bool) (r : X -> X) l :
  (forall x, In x l -> f (r x) = f x) -> filter f (map r l) = map r (filter f l).
Proof.
  induction l as [|a l IH]; simpl; auto. intros H. rewrite (H a) by auto.
  destruct (f a); simpl; rewrite IH; auto.
Qed.

Section Rekey.
  Variables (r : path -> path) (T : tree).
  Hypothesis ND : NoDup (map fst T).
  Hypothesis INJ : forall k1 k2, t_has T k1 = true -> t_has T k2 = true -> r k1 = r k2 -> k1 = k2.

  Lemma rk_nodup : NoDup (map fst (tmap r T)).
  Proof.
    rewrite keys_tmap. apply NoDup_map_inj_in; auto. intros x y Ix Iy.
    apply INJ; now apply in_keys_t_has.
  Qed.

  Lemma rk_get k o : t_get T k = Some o -> t_get (tmap r T) (r k) = Some o.
  Proof.
    intros G. apply t_get_nodup_in; [apply rk_nodup|]. apply t_get_in in G.
    unfold tmap. apply in_map_iff. exists (k, o). auto.
  Qed.

  Lemma rk_inv p o : t_get (tmap r T) p = Some o -> exists k, p = r k /\ t_get T k = Some o.
  Proof.
    intros G. apply t_get_in in G. unfold tmap in G. apply in_map_iff in G as ([k o'] & E & I).
    simpl in E. inversion E; subst. exists k. split; auto. now apply t_get_nodup_in.
  Qed.

  Lemma rk_has k : t_has T k = true -> t_has (tmap r T) (r k) = true.
  Proof.
    unfold t_has. destruct (t_get T k) eqn:G; [|discriminate]. intros _. now rewrite (rk_get k o G).
  Qed.

  Lemma rk_none k : t_has T k = true -> forall p, p = r k -> t_get (tmap r T) p = t_get T k.
  Proof.
    intros H p ->. unfold t_has in H. destruct (t_get T k) eqn:G; [|discriminate]. now apply rk_get.
  Qed.
End Rekey.

Lemma path_eqb_sym_b a b : path_eqb a b = path_eqb b a.
Proof.
  apply Bool.eq_iff_eq_true. rewrite !path_eqb_eq. split; congruence.
Qed.

(** ** Relinking *)

Definition relink1 (T : tree) (op : path) : tree :=
  t_upd T (link_path (sch op) (uid op)) (fun o => mkobj (KData (name_of op)) (oattrs o)).

Lemma relink_region_eq T region : relink_region T region = fold_left relink1 (meta_objs T region) T.
Proof. reflexivity. Qed.

Lemma relink_fold_keys L : forall T, map fst (fold_left relink1 L T) = map fst T.
Proof. induction L; intros T; simpl; auto. rewrite IHL. apply keys_upd. Qed.

Lemma relink_fold_outside L : forall T p, in_toc p = false -> t_get (fold_left relink1 L T) p = t_get T p.
Proof.
  induction L as [|op L IH]; intros T p I; simpl; auto. rewrite IH; auto. unfold relink1.
  rewrite t_get_upd. destruct (path_eqb p _) eqn:X; auto. apply path_eqb_eq in X. subst. discriminate.
Qed.

Lemma relink_fold_has L T p : t_has (fold_left relink1 L T) p = t_has T p.
Proof.
  apply Bool.eq_iff_eq_true. rewrite !t_has_keys. now rewrite relink_fold_keys.
Qed.

Definition setv (op : path) (o : obj) : obj := mkobj (KData (name_of op)) (oattrs o).

Lemma relink_fold_get L : forall T p,
  t_get (fold_left relink1 L T) p =
  match find (fun op => path_eqb (link_path (sch op) (uid op)) p) (rev L) with
  | Some op => option_map (setv op) (t_get T p)
  | None => t_get T p
  end.
Proof.
  induction L as [|op L IH]; intros T p; [reflexivity|]. cbn [fold_left rev].
  rewrite IH, find_app. cbn [find]. unfold relink1. rewrite t_get_upd.
  set (lp := link_path (sch op) (uid op)). rewrite (path_eqb_sym_b p lp).
  destruct (find _ (rev L)) as [op'|].
  - destruct (path_eqb lp p); auto. now destruct (t_get T p).
  - destruct (path_eqb lp p); auto.
Qed.

Section RelinkToc.
  Variables (E : env) (M : list path) (T : tree) (r : path -> path) (L : list path).
  Hypothesis TO : TocOk E M T.
  Hypothesis UQ : UidUniq M.
  Hypothesis LS : forall x, In x M -> last_seg (r x) = last_seg x.
  Hypothesis H1 : forall op, In op L -> exists x, In x M /\ op = r x.
  Hypothesis H2 : forall x, In x M -> r x <> x -> In (r x) L.

  Lemma rl_sch x : In x M -> sch (r x) = sch x.
  Proof. intros I. unfold sch. now rewrite LS. Qed.
  Lemma rl_uid x : In x M -> uid (r x) = uid x.
  Proof. intros I. unfold uid. now rewrite LS. Qed.

  Lemma rl_existsb (f : string -> bool) :
    existsb (fun q => f (sch q)) (map r M) = existsb (fun q => f (sch q)) M.
  Proof.
    clear TO UQ H1 H2. induction M as [|x M' IH]; simpl; auto.
    rewrite IH; [|intros y I; apply LS; simpl; auto]. unfold sch. rewrite LS; simpl; auto.
  Qed.

  Lemma rl_find s u :
    find (fun q => String.eqb (sch q) s && String.eqb (uid q) u) (map r M) =
    option_map r (find (fun q => String.eqb (sch q) s && String.eqb (uid q) u) M).
  Proof.
    clear TO UQ H1 H2. induction M as [|x M' IH]; simpl; auto.
    unfold sch, uid in *. rewrite LS by (simpl; auto).
    destruct (_ && _); auto. apply IH. intros y I. apply LS. simpl. auto.
  Qed.

  Lemma relink_tocok : TocOk E (map r M) (fold_left relink1 L T).
  Proof.
    intros p I. pose proof (TO p I) as Hs. rewrite relink_fold_get.
    apply in_toc_inv in I as (t & ->). unfold toc_spec in *. rewrite classify_toc_eq in *.
    assert (NoL : forall c : unit, (forall s u, classify_toc t <> PLink s u) ->
              find (fun op => path_eqb (link_path (sch op) (uid op)) (toc_seg :: t)) (rev L) = None).
    { intros _ NL. apply find_none_all. intros op _. destruct (path_eqb _ _) eqn:X; auto.
      apply path_eqb_eq in X. exfalso. inversion X; subst. now apply (NL (sch op) (uid op)). }
    destruct (classify_toc t) eqn:K; try (rewrite (NoL tt) by discriminate); auto.
    - destruct M; simpl; auto.
    - unfold uses in *. now rewrite (rl_existsb (fun x => String.eqb x s)).
    - (* link *)
      pose proof (classify_toc_inv t) as C. rewrite K in C. subst t.
      rewrite rl_find. destruct (find _ M) as [q|] eqn:F.
      + apply find_some in F as [F1 F2]. apply andb_prop in F2 as [F2 F3].
        apply String.eqb_eq in F2, F3. simpl option_map.
        destruct (t_get T _) as [[[|v] a]|] eqn:G; simpl in Hs; try discriminate.
        destruct (find _ (rev L)) as [op|] eqn:FL.
        * apply find_some in FL as [FL1 FL2]. apply path_eqb_eq in FL2.
          apply link_path_inj in FL2 as [E1 E2]. apply in_rev in FL1.
          destruct (H1 op FL1) as (x & Ix & ->). rewrite rl_uid in E2; auto.
          assert (x = q) by (apply UQ; auto; congruence). subst x. simpl. apply String.eqb_refl.
        * simpl. destruct (list_eq_dec string_dec (r q) q) as [Eq|Nq].
          -- now rewrite Eq.
          -- exfalso. apply H2 in Nq; auto. apply in_rev in Nq.
             apply (find_none _ _ FL) in Nq. rewrite rl_sch, rl_uid, F2, F3 in Nq; auto.
             now rewrite path_eqb_refl in Nq.
      + apply sat_none in Hs. rewrite Hs. simpl. now destruct (find _ (rev L)).
    - destruct M; simpl; auto.
    - unfold uses in *. now rewrite (rl_existsb (fun x => String.eqb x s)).
    - unfold uses in *. now rewrite (rl_existsb (fun x => String.eqb x s)).
    - unfold uses in *. now rewrite (rl_existsb (fun x => String.eqb x s)).
    - destruct M; simpl; auto.
    - now rewrite (rl_existsb (fun x => String.eqb (pkg_of E x) p)).
  Qed.
End RelinkToc.

(** ** [SyncRaw] is invariant under a structure-preserving re-keying followed by relinking *)

Definition x0_of (m : string) : string := drop_str (String.length METADOR_META_PREF) m.
Definition opath (d : path) (m : string) : path :=
  if String.eqb (x0_of m) "" then d else d ++ [x0_of m].

Lemma owner_ok_opath T d m :
  owner_ok T d m = if String.eqb (x0_of m) "" then is_group (t_get T (opath d m))
                   else is_data (t_get T (opath d m)).
Proof. unfold owner_ok, opath, x0_of. now destruct (String.eqb _ ""). Qed.

Lemma opath_not_toc E T n pr d m :
  SyncRaw E T n pr -> has_reserved d = false -> owner_ok T d m = true ->
  in_toc (opath d m) = false.
Proof.
  intros S Hd O. rewrite owner_ok_opath in O. unfold opath in *.
  destruct (String.eqb (x0_of m) "").
  - destruct (in_toc d) eqn:X; auto. apply in_toc_reserved in X. congruence.
  - destruct (in_toc (d ++ [x0_of m])) eqn:X; auto. exfalso. apply in_toc_inv in X as (t & X).
    destruct d as [|a d']; cbn [app] in X; inversion X; subst.
    + pose proof (sat_group _ (sr_tocok _ _ _ _ S toc_segs eq_refl)) as G.
      cbn [app] in O. rewrite H0 in O. unfold toc_segs in G.
      destruct (t_get T [toc_seg]) as [[[|?] ?]|]; simpl in *; discriminate.
    + simpl in Hd. discriminate.
Qed.

Record RenOk (r : path -> path) (T : tree) : Prop := mk_renok {
  ro_nil : r [] = [];
  ro_toc : forall k, in_toc k = true -> r k = k;
  ro_ntoc : forall k, t_has T k = true -> in_toc k = false -> in_toc (r k) = false;
  ro_inj : forall k1 k2, t_has T k1 = true -> t_has T k2 = true -> r k1 = r k2 -> k1 = k2;
  ro_par : forall k, t_has T k = true -> k <> [] ->
                     r k <> [] /\ exists k', is_group (t_get T k') = true /\ r k' = parent (r k);
  ro_user : forall k, t_has T k = true -> has_reserved k = false -> has_reserved (r k) = false;
  ro_dir : forall k dd m, t_has T k = true -> classify k = PMetaDir dd m ->
                          owner_ok T dd m = true ->
                          exists dd' m', r k = dd' ++ [m'] /\ has_reserved dd' = false /\
                                         meta_seg m' = true /\
                                         String.eqb (x0_of m') "" = String.eqb (x0_of m) "" /\
                                         opath dd' m' = r (opath dd m) /\
                                         forall y, t_has T (k ++ [y]) = true -> r (k ++ [y]) = r k ++ [y];
  ro_obj : forall k, t_has T k = true -> is_obj_path k = true ->
                     is_obj_path (r k) = true /\ last_seg (r k) = last_seg k
}.

Section Rename.
  Variables (E : env) (T : tree) (n : N) (pr : list (string * string)) (r : path -> path)
            (L : list path).
  Hypothesis S : SyncRaw E T n pr.
  Hypothesis R : RenOk r T.
  Let T1 := tmap r T.
  Hypothesis HL1 : forall op, In op L -> exists x, In x (objs T) /\ op = r x.
  Hypothesis HL2 : forall x, In x (objs T) -> r x <> x -> In (r x) L.
  Let T2 := fold_left relink1 L T1.

  Lemma rn_nodup : NoDup (map fst T1).
  Proof. apply rk_nodup; [apply (sr_nodup _ _ _ _ S)|apply (ro_inj _ _ R)]. Qed.

  Lemma rn_get k o : t_get T k = Some o -> t_get T1 (r k) = Some o.
  Proof. apply rk_get; [apply (sr_nodup _ _ _ _ S)|apply (ro_inj _ _ R)]. Qed.

  Lemma rn_inv p o : t_get T1 p = Some o -> exists k, p = r k /\ t_get T k = Some o.
  Proof. apply rk_inv. apply (sr_nodup _ _ _ _ S). Qed.

  Lemma rn_toc p : in_toc p = true -> t_get T1 p = t_get T p.
  Proof.
    intros I. destruct (t_get T p) as [o|] eqn:G.
    - rewrite <- (ro_toc _ _ R p I) at 1. now apply rn_get.
    - destruct (t_get T1 p) as [o|] eqn:G1; auto. apply rn_inv in G1 as (k & -> & G1).
      destruct (in_toc k) eqn:Ik.
      + rewrite (ro_toc _ _ R k Ik) in G. congruence.
      + rewrite (ro_ntoc _ _ R k) in I; auto; [discriminate|]. unfold t_has. now rewrite G1.
  Qed.

  Lemma rn_class k : t_has T k = true -> is_obj_path (r k) = is_obj_path k.
  Proof.
    intros H. destruct (in_toc k) eqn:Ik; [now rewrite (ro_toc _ _ R k Ik)|].
    unfold t_has in H. destruct (t_get T k) as [o|] eqn:G; [|discriminate].
    assert (Hk : t_has T k = true) by (unfold t_has; now rewrite G).
    pose proof (sraw_shape E T n pr k o S G Ik) as Sh.
    destruct (is_obj_path k) eqn:O; [apply (ro_obj _ _ R k Hk O)|].
    unfold is_obj_path in O. destruct (classify k) eqn:K; try contradiction; try discriminate.
    - apply classify_user_inv in K. pose proof (ro_user _ _ R k Hk K) as U.
      unfold is_obj_path. now rewrite (classify_user _ U).
    - pose proof (sr_entries _ _ _ _ S k o G) as C. unfold chk_entry in C. rewrite K in C.
      apply andb_prop in C as [_ C]. apply andb_prop in C as [C _]. apply andb_prop in C as [_ C].
      destruct (ro_dir _ _ R k d m Hk K C) as (dd' & m' & -> & Hd & Hm & _).
      now apply dir_not_obj.
  Qed.

  Lemma rn_objs : objs T1 = map r (objs T).
  Proof.
    unfold objs, T1. rewrite keys_tmap. apply filter_map_in. intros x I. apply rn_class.
    now apply in_keys_t_has.
  Qed.

  Lemma rn_T2_out p : in_toc p = false -> t_get T2 p = t_get T1 p.
  Proof. apply relink_fold_outside. Qed.

  Lemma rn_objs2 : objs T2 = map r (objs T).
  Proof. unfold objs, T2. rewrite relink_fold_keys. apply rn_objs. Qed.

  Lemma rn_tocok : TocOk E (map r (objs T)) T2.
  Proof.
    apply relink_tocok; auto.
    - intros p I. rewrite (rn_toc p I). apply (sr_tocok _ _ _ _ S p I).
    - apply (sraw_uniq E T n pr S).
    - intros x I. apply in_objs in I as [I1 I2]. apply (ro_obj _ _ R x I1 I2).
  Qed.

  Lemma rn_get2 k o : t_get T k = Some o -> in_toc k = false -> t_get T2 (r k) = Some o.
  Proof.
    intros G I. rewrite rn_T2_out; [now apply rn_get|]. apply (ro_ntoc _ _ R k); auto.
    unfold t_has. now rewrite G.
  Qed.

  Lemma rename_sync : SyncRaw E T2 n pr.
  Proof.
    assert (Root : is_group (t_get T2 []) = true).
    { rewrite rn_T2_out by reflexivity. pose proof (sr_root _ _ _ _ S) as X.
      destruct (t_get T []) as [o|] eqn:G; [|discriminate].
      pose proof (rn_get [] o G) as Y. rewrite (ro_nil _ _ R) in Y. now rewrite Y. }
    constructor; auto.
    - unfold T2. rewrite relink_fold_keys. apply rn_nodup.
    - intros p o Gp. destruct (in_toc p) eqn:Ip.
      + apply (toc_entries_ok E (map r (objs T))); auto. apply rn_tocok.
      + rewrite rn_T2_out in Gp by auto. apply rn_inv in Gp as (k & -> & G).
        assert (Hk : t_has T k = true) by (unfold t_has; now rewrite G).
        assert (Ik : in_toc k = false).
        { destruct (in_toc k) eqn:X; auto. rewrite (ro_toc _ _ R k X) in Ip. congruence. }
        pose proof (sr_entries _ _ _ _ S k o G) as C. unfold chk_entry in *.
        apply andb_prop in C as [C1 C2]. apply andb_true_intro. split.
        * destruct k as [|a k'].
          -- rewrite (ro_nil _ _ R). exact C1.
          -- destruct (ro_par _ _ R (a :: k') Hk) as (NE & k0 & G0 & E0); [discriminate|].
             rewrite (match_nonempty (r (a :: k'))) by auto. rewrite <- E0.
             destruct (t_get T k0) as [g|] eqn:Gk; [|discriminate].
             destruct (in_toc k0) eqn:I0.
             ++ exfalso. rewrite (ro_toc _ _ R k0 I0) in E0.
                apply in_toc_inv in I0 as (t & ->).
                destruct (exists_last NE) as (l & x & El). rewrite El, parent_app1 in E0.
                rewrite El, <- E0 in Ip. discriminate.
             ++ now rewrite (rn_get2 k0 g Gk I0).
        * pose proof (sraw_shape E T n pr k o S G Ik) as Sh.
          destruct (classify k) eqn:K; try contradiction.
          -- apply classify_user_inv in K. now rewrite (classify_user _ (ro_user _ _ R k Hk K)).
          -- apply andb_prop in C2 as [C2 C4]. apply andb_prop in C2 as [C2 C3].
             destruct (ro_dir _ _ R k d m Hk K C3) as (dd' & m' & Ek & Hd & Hm & Ex & Eo & Ech).
             rewrite Ek, (classify_dir dd' m' Hd Hm), C2. cbn [andb].
             apply andb_true_intro. split.
             ++ pose proof (classify_dir_inv k d m K) as (_ & Hdd & _).
                pose proof (opath_not_toc E T n pr d m S Hdd C3) as Io.
                rewrite owner_ok_opath in *. rewrite Ex, Eo.
                destruct (t_get T (opath d m)) as [g|] eqn:Go;
                  [|destruct (String.eqb (x0_of m) ""); discriminate].
                now rewrite (rn_get2 _ g Go Io).
             ++ apply has_children_iff in C4 as (c & Cc & Pc). apply is_child_iff in Cc as (y & ->).
                apply has_children_iff. exists (dd' ++ [m'] ++ [y]). split.
                ** apply is_child_iff. exists y. now rewrite app_assoc.
                ** rewrite app_assoc, <- Ek, <- (Ech y Pc). unfold T2. rewrite relink_fold_has.
                   now apply rk_has; [apply (sr_nodup _ _ _ _ S)|apply (ro_inj _ _ R)|].
          -- apply andb_prop in C2 as [C2 C4]. apply andb_prop in C2 as [C2 C3].
             assert (Ok : is_obj_path k = true) by (unfold is_obj_path; now rewrite K).
             destruct (ro_obj _ _ R k Hk Ok) as [Or Lr].
             unfold is_obj_path in Or. destruct (classify (r k)) eqn:Kr; try discriminate.
             apply classify_obj_inv in Kr as (Er & _). apply classify_obj_inv in K as (Ekk & _).
             assert (name0 = name).
             { rewrite Er, Ekk, !last_seg_app2 in Lr. exact Lr. }
             subst name0. rewrite C2, C3. cbn [andb]. rewrite rn_objs2.
             rewrite forallb_forall in *. intros q Iq. apply in_map_iff in Iq as (q0 & <- & Iq).
             pose proof Iq as Jq. apply in_objs in Jq as [Jq1 Jq2].
             destruct (ro_obj _ _ R q0 Jq1 Jq2) as [_ Lq].
             specialize (C4 q0 Iq). unfold uid in *. rewrite Lq, Lr.
             apply orb_prop in C4 as [C4|C4]; [now rewrite C4|].
             apply path_eqb_eq in C4. subst q0. rewrite path_eqb_refl. apply orb_true_r.
    - rewrite rn_objs2. apply rn_tocok.
    - intros q Iq. rewrite rn_objs2 in Iq. apply in_map_iff in Iq as (q0 & <- & Iq).
      pose proof Iq as Jq. apply in_objs in Jq as [Jq1 Jq2].
      destruct (ro_obj _ _ R q0 Jq1 Jq2) as [_ Lq]. unfold sch. rewrite Lq.
      apply (sr_prov _ _ _ _ S q0 Iq).
  Qed.
End Rename.

(** ** [rebase] *)

Lemma rebase_under s d k : is_prefix s k = true -> rebase s d k = d ++ skipn (List.length s) k.
Proof. unfold rebase. now intros ->. Qed.

Lemma rebase_not s d k : is_prefix s k = false -> rebase s d k = k.
Proof. unfold rebase. now intros ->. Qed.

Lemma rebase_self s d : rebase s d s = d.
Proof. rewrite rebase_under by apply is_prefix_refl. now rewrite skipn_all, app_nil_r. Qed.

Lemma is_prefix_app_r s k l : is_prefix s k = true -> is_prefix s (k ++ l) = true.
Proof. intros H. eapply is_prefix_trans; eauto. apply is_prefix_app. Qed.

Lemma rebase_app s d k l : is_prefix s k = true -> rebase s d (k ++ l) = rebase s d k ++ l.
Proof.
  intros H. rewrite !rebase_under; auto using is_prefix_app_r.
  rewrite skipn_app. pose proof (is_prefix_length s k H).
  replace (List.length s - List.length k) with 0 by lia. simpl. now rewrite app_assoc.
Qed.

Lemma rebase_prefix s d k : is_prefix s k = true -> is_prefix d (rebase s d k) = true.
Proof. intros H. rewrite rebase_under; auto. apply is_prefix_app. Qed.

Lemma rebase_inj_under s d k1 k2 :
  is_prefix s k1 = true -> is_prefix s k2 = true -> rebase s d k1 = rebase s d k2 -> k1 = k2.
Proof.
  intros H1 H2 E. rewrite !rebase_under in E by auto. apply app_inv_head in E.
  rewrite (is_prefix_split s k1 H1), (is_prefix_split s k2 H2). now rewrite E.
Qed.

Lemma user_not_under_toc s k : has_reserved s = false -> s <> [] -> in_toc k = true -> is_prefix s k = false.
Proof.
  intros Us NE I. destruct (is_prefix s k) eqn:P; auto. exfalso.
  apply in_toc_inv in I as (t & ->). destruct s as [|a s']; [contradiction|].
  rewrite is_prefix_cons in P. apply andb_prop in P as [P _]. apply String.eqb_eq in P. subst.
  simpl in Us. discriminate.
Qed.

Lemma user_head_not_toc d l : has_reserved d = false -> d <> [] -> in_toc (d ++ l) = false.
Proof.
  intros Ud NE. destruct d as [|a d']; [contradiction|]. simpl in *.
  apply orb_false_iff in Ud as [Ua _]. destruct (String.eqb a toc_seg) eqn:X; auto.
  apply String.eqb_eq in X. subst. discriminate.
Qed.

Lemma parent_under s k : is_prefix s k = true -> k <> s -> is_prefix s (parent k) = true.
Proof.
  intros P NE. pose proof (is_prefix_split s k P) as Sp.
  destruct (skipn (List.length s) k) as [|y l] eqn:K.
  - rewrite app_nil_r in Sp. congruence.
  - assert (E : k = (s ++ removelast (y :: l)) ++ [last (y :: l) ""]).
    { rewrite Sp at 1. rewrite <- app_assoc. f_equal. apply app_removelast_last. discriminate. }
    rewrite E, parent_app1. apply is_prefix_app.
Qed.

Lemma parent_not_under s k : is_prefix s k = false -> is_prefix s (parent k) = false.
Proof.
  intros P. destruct (is_prefix s (parent k)) eqn:X; auto.
  induction k as [|a k' _] using rev_ind; [simpl in X; congruence|]. rewrite parent_app1 in X.
  now rewrite (is_prefix_app_r s k' [a] X) in P.
Qed.

Lemma parent_rebase s d k :
  is_prefix s k = true -> k <> s -> parent (rebase s d k) = rebase s d (parent k).
Proof.
  intros P NE. induction k as [|a k' _] using rev_ind.
  - destruct s; [contradiction|discriminate].
  - rewrite parent_app1. assert (Pk : is_prefix s k' = true).
    { pose proof (parent_under s (k' ++ [a]) P NE) as X. now rewrite parent_app1 in X. }
    rewrite rebase_app by auto. now rewrite parent_app1.
Qed.

(** The relinked objects of a region are the re-keyed objects. *)
Lemma meta_objs_ren E T n pr r region :
  SyncRaw E T n pr -> RenOk r T -> in_toc region = false -> region <> [] ->
  (forall x, In x (objs T) -> r x <> x -> is_prefix region (r x) = true) ->
  (forall op, In op (meta_objs (tmap r T) region) -> exists x, In x (objs T) /\ op = r x) /\
  (forall x, In x (objs T) -> r x <> x -> In (r x) (meta_objs (tmap r T) region)).
Proof.
  intros S R Ir NE Hreg. unfold meta_objs. rewrite keys_tmap. split.
  - intros op I. apply filter_In in I as [I F]. apply andb_prop in F as [F1 F2].
    apply in_map_iff in I as (k & <- & I). exists k. split; auto.
    pose proof (in_keys_t_has T k I) as Hk. apply in_objs. split; auto.
    destruct (in_toc k) eqn:Ik.
    + rewrite (ro_toc _ _ R k Ik) in F1. exfalso.
      apply in_toc_inv in Ik as (t & ->). destruct region as [|a reg]; [contradiction|].
      rewrite is_prefix_cons in F1. apply andb_prop in F1 as [F1 _]. apply String.eqb_eq in F1.
      subst. now rewrite in_toc_cons in Ir.
    + unfold t_has in Hk. destruct (t_get T k) as [o|] eqn:G; [|discriminate].
      assert (Hk' : t_has T k = true) by (unfold t_has; now rewrite G).
      pose proof (sraw_shape E T n pr k o S G Ik) as Sh. unfold is_obj_path.
      destruct (classify k) eqn:K; try contradiction; auto; exfalso.
      * apply classify_user_inv in K. pose proof (ro_user _ _ R k Hk' K) as U.
        unfold is_meta_obj in F2. now rewrite (existsb_meta_user _ U) in F2.
      * pose proof (sr_entries _ _ _ _ S k o G) as C. unfold chk_entry in C. rewrite K in C.
        apply andb_prop in C as [_ C]. apply andb_prop in C as [C _]. apply andb_prop in C as [_ C].
        destruct (ro_dir _ _ R k d m Hk' K C) as (dd' & m' & Ek & Hd & Hm & _).
        unfold is_meta_obj in F2. rewrite Ek, last_seg_app, Hm in F2. now rewrite andb_false_r in F2.
  - intros x I Nx. apply filter_In. pose proof I as J. apply in_objs in J as [J1 J2]. split.
    + apply in_map. now apply t_has_keys.
    + rewrite (Hreg x I Nx). simpl. apply is_meta_obj_of_obj. apply (ro_obj _ _ R x J1 J2).
Qed.

(** ** Moving a group *)

Section MoveGroup.
  Variables (E : env) (T : tree) (n : N) (pr : list (string * string)) (s d : path).
  Hypothesis S : SyncRaw E T n pr.
  Hypothesis Us : has_reserved s = false.
  Hypothesis Ud : has_reserved d = false.
  Hypothesis NEs : s <> [].
  Hypothesis NEd : d <> [].
  Hypothesis Psd : is_prefix s d = false.
  Hypothesis Gs : is_group (t_get T s) = true.
  Hypothesis Free : forall k, is_prefix d k = true -> t_has T k = false.
  Hypothesis Gpd : is_group (t_get T (parent d)) = true.
  Let r := rebase s d.

  Lemma mg_user k : has_reserved k = false -> has_reserved (r k) = false.
  Proof.
    intros H. unfold r, rebase. destruct (is_prefix s k); auto.
    rewrite has_reserved_app, Ud. simpl. destruct (has_reserved (skipn _ k)) eqn:X; auto.
    apply has_reserved_skipn in X. congruence.
  Qed.

  Lemma mg_under_dir k dd m l :
    k = dd ++ m :: l -> has_reserved dd = false -> meta_seg m = true ->
    is_prefix s k = true -> is_prefix s dd = true.
  Proof.
    intros -> Hd Hm P. apply (user_prefix_of_meta s dd m l Us (meta_seg_reserved m Hm) P).
  Qed.

  Lemma move_group_renok : RenOk r T.
  Proof.
    constructor.
    - unfold r. apply rebase_not. destruct s; [contradiction|reflexivity].
    - intros k I. unfold r. apply rebase_not. now apply user_not_under_toc.
    - intros k Hk I. unfold r, rebase. destruct (is_prefix s k); auto. now apply user_head_not_toc.
    - intros k1 k2 H1 H2 Er. unfold r in Er.
      destruct (is_prefix s k1) eqn:P1, (is_prefix s k2) eqn:P2.
      + eapply rebase_inj_under; eauto.
      + rewrite (rebase_not s d k2 P2) in Er. rewrite <- Er in H2.
        rewrite Free in H2; [discriminate|now apply rebase_prefix].
      + rewrite (rebase_not s d k1 P1) in Er. rewrite Er in H1.
        rewrite Free in H1; [discriminate|now apply rebase_prefix].
      + now rewrite !rebase_not in Er.
    - intros k Hk NEk. unfold t_has in Hk. destruct (t_get T k) as [o|] eqn:G; [|discriminate].
      pose proof (sraw_parent E T n pr k o S G NEk) as PG.
      destruct (is_prefix s k) eqn:P.
      + split.
        * unfold r. rewrite rebase_under by auto. destruct d; [contradiction|discriminate].
        * destruct (list_eq_dec string_dec k s) as [->|Nk].
          -- exists (parent d). split; auto. unfold r. rewrite rebase_self.
             apply rebase_not. destruct (is_prefix s (parent d)) eqn:X; auto.
             rewrite (is_prefix_trans s (parent d) d X) in Psd; [discriminate|].
             now apply is_prefix_parent.
          -- exists (parent k). split; auto. unfold r. symmetry. now apply parent_rebase.
      + split.
        * unfold r. now rewrite rebase_not.
        * exists (parent k). split; auto. unfold r. rewrite !rebase_not; auto.
          now apply parent_not_under.
    - intros k _. apply mg_user.
    - intros k dd m Hk K Ow. apply classify_dir_inv in K as (Ek & Hd & Hm).
      destruct (is_prefix s k) eqn:P.
      + assert (Pd : is_prefix s dd = true) by (apply (mg_under_dir k dd m [] Ek Hd Hm P)).
        exists (r dd), m. subst k. unfold r. rewrite rebase_app by auto. repeat split; auto.
        * now apply mg_user.
        * unfold opath. destruct (String.eqb (x0_of m) ""); auto. now rewrite rebase_app.
        * intros y _. rewrite (rebase_app s d (dd ++ [m]) [y]) by (now apply is_prefix_app_r).
          now rewrite rebase_app.
      + exists dd, m. unfold r. rewrite (rebase_not s d k P). repeat split; auto.
        * symmetry. apply rebase_not. rewrite owner_ok_opath in Ow. unfold opath in *.
          destruct (String.eqb (x0_of m) "").
          -- destruct (is_prefix s dd) eqn:X; auto. subst k.
             now rewrite (is_prefix_app_r s dd [m] X) in P.
          -- destruct (is_prefix s (dd ++ [x0_of m])) eqn:X; auto. exfalso.
             destruct (list_eq_dec string_dec (dd ++ [x0_of m]) s) as [Eo|No].
             ++ rewrite Eo in Ow. destruct (t_get T s) as [[[|?] ?]|]; simpl in *; discriminate.
             ++ pose proof (parent_under s _ X No) as Y. rewrite parent_app1 in Y. subst k.
                now rewrite (is_prefix_app_r s dd [m] Y) in P.
        * intros y _. apply rebase_not. destruct (is_prefix s (k ++ [y])) eqn:X; auto. exfalso.
          assert (Ey : k ++ [y] = dd ++ m :: [y]) by (subst k; now rewrite <- app_assoc).
          pose proof (mg_under_dir _ dd m [y] Ey Hd Hm X) as Y. subst k.
          now rewrite (is_prefix_app_r s dd [m] Y) in P.
    - intros k Hk Ok. unfold is_obj_path in Ok. destruct (classify k) eqn:K; try discriminate.
      apply classify_obj_inv in K as (Ek & Hd & Hm & Hn).
      destruct (is_prefix s k) eqn:P.
      + assert (Pd : is_prefix s d0 = true) by (apply (mg_under_dir k d0 m [name] Ek Hd Hm P)).
        subst k. unfold r. rewrite rebase_app by auto. split.
        * unfold is_obj_path. rewrite classify_obj; auto. now apply mg_user.
        * now rewrite !last_seg_app2.
      + unfold r. rewrite (rebase_not s d k P). split; auto. subst k.
        unfold is_obj_path. now rewrite classify_obj.
  Qed.

  Lemma move_group_sync : SyncRaw E (relink_region (t_rename s d T) d) n pr.
  Proof.
    rewrite relink_region_eq, t_rename_tmap. fold r.
    assert (Id : in_toc d = false).
    { destruct (in_toc d) eqn:X; auto. apply in_toc_reserved in X. congruence. }
    destruct (meta_objs_ren E T n pr r d S move_group_renok Id NEd) as [L1 L2].
    { intros x I Nx. unfold r in *. destruct (is_prefix s x) eqn:P.
      - now apply rebase_prefix.
      - now rewrite rebase_not in Nx. }
    apply (rename_sync E T n pr r _ S move_group_renok L1 L2).
  Qed.
End MoveGroup.

(** ** Moving a dataset (its sidecar directory follows) *)

Lemma not_under_nontoc c p : in_toc c = false -> c <> [] -> in_toc p = true -> is_prefix c p = false.
Proof.
  intros Ic NEc Ip. destruct (is_prefix c p) eqn:X; auto. exfalso.
  destruct c as [|a c']; [contradiction|]. destruct p as [|b p']; [discriminate|].
  rewrite is_prefix_cons in X. apply andb_prop in X as [X _]. apply String.eqb_eq in X. subst.
  simpl in Ip, Ic. congruence.
Qed.

Lemma in_toc_app c l : c <> [] -> in_toc (c ++ l) = in_toc c.
Proof. destruct c; [contradiction|reflexivity]. Qed.

Lemma x0_of_pref x : x0_of (METADOR_META_PREF ++ x) = x.
Proof. unfold x0_of. apply drop_str_app. Qed.

Lemma obj_last_not_reserved k : is_obj_path k = true -> reserved_seg (last_seg k) = false.
Proof.
  unfold is_obj_path. destruct (classify k) eqn:K; try discriminate. intros _.
  apply classify_obj_inv in K as (-> & _ & _ & Hn). now rewrite last_seg_app2.
Qed.

Section MoveData.
  Variables (E : env) (T : tree) (n : N) (pr : list (string * string)) (s d : path).
  Hypothesis S : SyncRaw E T n pr.
  Hypothesis Us : has_reserved s = false.
  Hypothesis Ud : has_reserved d = false.
  Hypothesis NEs : s <> [].
  Hypothesis NEd : d <> [].
  Hypothesis Ls : last_seg s <> "".
  Hypothesis Ld : last_seg d <> "".
  Hypothesis Psd : is_prefix s d = false.
  Hypothesis Ds : is_data (t_get T s) = true.
  Hypothesis Free : forall k, is_prefix d k = true -> t_has T k = false.
  Hypothesis Gpd : is_group (t_get T (parent d)) = true.
  Let ms := meta_dir_of s true.
  Let md := meta_dir_of d true.
  Let r (k : path) : path := if path_eqb k s then d else rebase ms md k.

  Let ps := parent s.
  Let pd := parent d.
  Let mms := (METADOR_META_PREF ++ last_seg s)%string.
  Let mmd := (METADOR_META_PREF ++ last_seg d)%string.

  Lemma md_shape :
    ms = ps ++ [mms] /\ md = pd ++ [mmd] /\ s = ps ++ [last_seg s] /\ d = pd ++ [last_seg d] /\
    has_reserved ps = false /\ has_reserved pd = false.
  Proof.
    destruct (exists_last NEs) as (a & x & Es). destruct (exists_last NEd) as (b & y & Ed).
    assert (Ua : has_reserved a = false).
    { pose proof Us as U. rewrite Es, has_reserved_app in U. now apply orb_false_iff in U as [U _]. }
    assert (Ub : has_reserved b = false).
    { pose proof Ud as U. rewrite Ed, has_reserved_app in U. now apply orb_false_iff in U as [U _]. }
    unfold ms, md, ps, pd, mms, mmd, meta_dir_of.
    rewrite Es, Ed, !parent_app1, !last_seg_app, !set_last_app. repeat split; auto.
  Qed.

  Lemma md_meta : meta_seg mms = true /\ meta_seg mmd = true.
  Proof. split; apply meta_seg_meta_pref. Qed.

  Lemma md_res : has_reserved ms = true /\ has_reserved md = true.
  Proof.
    destruct md_shape as (Hms & Hmd & _). destruct md_meta as [A B].
    rewrite Hms, Hmd, !has_reserved_app. simpl. now rewrite !orb_true_r.
  Qed.

  Lemma md_below k : is_prefix s k = true -> k <> s -> t_has T k = false.
  Proof. intros P Nk. now apply (below_data_absent E T n pr s k S Ds). Qed.

  Lemma md_free k : is_prefix md k = true -> t_has T k = false.
  Proof.
    intros P. destruct (t_has T k) eqn:H; auto. exfalso.
    destruct md_shape as (_ & Hmd & _ & Ed & _ & Upd). destruct md_meta as [_ Mmd].
    assert (Pm : t_has T md = true).
    { destruct (list_eq_dec string_dec k md) as [->|Nk]; auto.
      rewrite (is_prefix_split md k P) in H, Nk.
      destruct (skipn _ k) as [|y l]; [now rewrite app_nil_r in Nk|].
      pose proof (below_is_group E T n pr md (y :: l) S) as G.
      unfold t_has. destruct (t_get T md); auto. discriminate G; auto. discriminate. }
    unfold t_has in Pm. destruct (t_get T md) as [g|] eqn:G; [|discriminate]. rewrite Hmd in G.
    destruct (sraw_entry_dir E T n pr pd mmd g S Upd Mmd G) as [Ow _].
    rewrite owner_ok_opath in Ow. unfold opath, mmd in Ow. rewrite x0_of_pref in Ow.
    apply String.eqb_neq in Ld. rewrite Ld, <- Ed in Ow.
    assert (t_has T d = false) by (apply Free, is_prefix_refl).
    unfold t_has in H0. destruct (t_get T d); discriminate.
  Qed.

  Lemma md_msgroup g : t_get T ms = Some g -> is_group (Some g) = true.
  Proof.
    destruct md_shape as (Hms & _ & _ & _ & Ups & _). destruct md_meta as [Mms _].
    rewrite Hms. now apply (sraw_dir_group E T n pr ps mms g S).
  Qed.

  Lemma r_s : r s = d.
  Proof. unfold r. now rewrite path_eqb_refl. Qed.

  Lemma r_other k : k <> s -> r k = rebase ms md k.
  Proof.
    intros Nk. unfold r. destruct (path_eqb k s) eqn:X; auto. apply path_eqb_eq in X. contradiction.
  Qed.

  Lemma r_fixed k : k <> s -> is_prefix ms k = false -> r k = k.
  Proof. intros Nk P. rewrite r_other by auto. now apply rebase_not. Qed.

  Lemma r_user k : has_reserved k = false -> k <> s -> r k = k.
  Proof.
    intros U Nk. apply r_fixed; auto. apply user_not_under; auto. apply md_res.
  Qed.

  (** the only metadata directory below [ms] is [ms] itself *)
  Lemma md_dir_under dd m :
    has_reserved dd = false -> is_prefix ms (dd ++ [m]) = true -> dd ++ [m] = ms.
  Proof.
    intros Hd P. destruct (list_eq_dec string_dec (dd ++ [m]) ms) as [|Nk]; auto. exfalso.
    pose proof (parent_under ms _ P Nk) as X. rewrite parent_app1 in X.
    pose proof (user_not_under ms dd (proj1 md_res) Hd). congruence.
  Qed.

  Lemma md_obj_under k :
    is_obj_path k = true -> is_prefix ms k = true -> exists ny, k = ms ++ [ny].
  Proof.
    intros Ok P. destruct md_shape as (Hms & _ & _ & _ & Ups & _). destruct md_meta as [Mms _].
    rewrite Hms in P. destruct (dir_prefix_obj ps mms k Ups Mms Ok P) as (ny & ->).
    exists ny. now rewrite Hms, app_assoc1.
  Qed.

  Lemma move_data_renok : RenOk r T.
  Proof.
    destruct md_shape as (Hms & Hmd & Es & Ed & Ups & Upd). destruct md_meta as [Mms Mmd].
    destruct md_res as [Rms Rmd].
    assert (Ims : in_toc ms = false) by (rewrite Hms; now apply dir_not_toc).
    assert (Imd : in_toc md = false) by (rewrite Hmd; now apply dir_not_toc).
    assert (NEms : ms <> []) by (rewrite Hms; apply app1_nonempty).
    assert (NEmd : md <> []) by (rewrite Hmd; apply app1_nonempty).
    assert (Is : in_toc s = false).
    { destruct (in_toc s) eqn:X; auto. apply in_toc_reserved in X. congruence. }
    constructor.
    - apply r_user; auto.
    - intros k I. apply r_fixed; [intros ->; congruence|now apply not_under_nontoc].
    - intros k Hk I. destruct (list_eq_dec string_dec k s) as [->|Nk].
      + rewrite r_s. destruct (in_toc d) eqn:X; auto. apply in_toc_reserved in X. congruence.
      + rewrite r_other by auto. unfold rebase. destruct (is_prefix ms k); auto.
        now rewrite in_toc_app.
    - intros k1 k2 H1 H2 Er.
      assert (Key : forall a b, t_has T a = true -> t_has T b = true -> a = s -> r a = r b -> a = b).
      { intros a b Ha Hb -> Eab. rewrite r_s in Eab.
        destruct (list_eq_dec string_dec b s) as [|Nb]; auto. exfalso.
        rewrite r_other in Eab by auto. unfold rebase in Eab.
        destruct (is_prefix ms b).
        - rewrite Eab, has_reserved_app, Rmd in Ud. discriminate.
        - rewrite <- Eab in Hb. rewrite Free in Hb; [discriminate|apply is_prefix_refl]. }
      destruct (list_eq_dec string_dec k1 s) as [E1|N1]; [now apply Key|].
      destruct (list_eq_dec string_dec k2 s) as [E2|N2]; [symmetry; now apply Key|].
      rewrite !r_other in Er by auto.
      destruct (is_prefix ms k1) eqn:P1, (is_prefix ms k2) eqn:P2.
      + eapply rebase_inj_under; eauto.
      + rewrite (rebase_not ms md k2 P2) in Er. rewrite <- Er in H2.
        rewrite md_free in H2; [discriminate|now apply rebase_prefix].
      + rewrite (rebase_not ms md k1 P1) in Er. rewrite Er in H1.
        rewrite md_free in H1; [discriminate|now apply rebase_prefix].
      + now rewrite !rebase_not in Er.
    - intros k Hk NEk. unfold t_has in Hk. destruct (t_get T k) as [o|] eqn:G; [|discriminate].
      pose proof (sraw_parent E T n pr k o S G NEk) as PG.
      assert (Rpd : r pd = pd).
      { apply r_user; auto. intros X. unfold pd in X.
        rewrite <- X in Psd. rewrite is_prefix_parent in Psd; auto. discriminate. }
      destruct (list_eq_dec string_dec k s) as [->|Nk].
      + rewrite r_s. split; auto. exists pd. auto.
      + rewrite r_other by auto. destruct (is_prefix ms k) eqn:P.
        * split; [rewrite rebase_under by auto; destruct md; [contradiction|discriminate]|].
          destruct (list_eq_dec string_dec k ms) as [->|Nm].
          -- exists pd. split; auto. rewrite rebase_self, Rpd, Hmd. now rewrite parent_app1.
          -- exists (parent k). split; auto. rewrite r_other.
             ++ symmetry. now apply parent_rebase.
             ++ intros X. pose proof (parent_under ms k P Nm) as Y. rewrite X in Y.
                pose proof (user_not_under ms s Rms Us). congruence.
        * rewrite rebase_not by auto. split; auto. exists (parent k). split; auto.
          apply r_fixed.
          -- intros X. rewrite X in PG. destruct (t_get T s) as [[[|?] ?]|]; simpl in *; discriminate.
          -- now apply parent_not_under.
    - intros k _ U. destruct (list_eq_dec string_dec k s) as [->|Nk]; [now rewrite r_s|].
      now rewrite r_user.
    - intros k dd m Hk K Ow. apply classify_dir_inv in K as (Ek & Hd & Hm).
      assert (Nk : k <> s).
      { intros X. pose proof Us as U. rewrite <- X, Ek, has_reserved_app in U. simpl in U.
        rewrite (meta_seg_reserved m Hm), orb_true_r in U. discriminate. }
      destruct (is_prefix ms k) eqn:P.
      + (* the sidecar of [s] *)
        assert (Ekm : k = ms) by (subst k; now apply md_dir_under). 
        rewrite Ekm, Hms in Ek. apply app_inj_tail in Ek as [<- <-].
        exists pd, mmd. rewrite r_other, Ekm, rebase_self by congruence.
        repeat split; auto.
        * unfold mms, mmd. rewrite !x0_of_pref. apply String.eqb_neq in Ls, Ld. now rewrite Ls, Ld.
        * unfold opath, mms, mmd. rewrite !x0_of_pref. apply String.eqb_neq in Ls, Ld.
          rewrite Ls, Ld, <- Es, <- Ed. now rewrite r_s.
        * intros y _. rewrite r_other.
          -- rewrite rebase_app by apply is_prefix_refl. now rewrite rebase_self.
          -- intros X. rewrite <- X, has_reserved_app, Rms in Us. discriminate.
      + exists dd, m. rewrite r_fixed by auto. repeat split; auto.
        * symmetry. rewrite owner_ok_opath in Ow. unfold opath in *.
          destruct (String.eqb (x0_of m) "") eqn:Zx.
          -- apply r_user; auto. intros X. rewrite X in Ow.
             destruct (t_get T s) as [[[|?] ?]|]; simpl in *; discriminate.
          -- apply r_fixed.
             ++ intros X. rewrite Es in X. apply app_inj_tail in X as [Xd Xx].
                assert (m = mms).
                { unfold mms. rewrite <- Xx. apply starts_with_split. exact Hm. }
                subst. rewrite <- Hms, is_prefix_refl in P. discriminate.
             ++ destruct (is_prefix ms (dd ++ [x0_of m])) eqn:X; auto. exfalso.
                pose proof (md_dir_under dd (x0_of m) Hd X) as Y. rewrite Y in Ow.
                destruct (t_get T ms) as [g|] eqn:Gm; [|discriminate].
                pose proof (md_msgroup g Gm). destruct g as [[|?] ?]; simpl in *; discriminate.
        * intros y Hy. apply r_fixed.
          -- intros X. pose proof Us as U. rewrite <- X, Ek, !has_reserved_app in U. simpl in U.
             rewrite (meta_seg_reserved m Hm), !orb_true_r in U. discriminate.
          -- destruct (is_prefix ms (k ++ [y])) eqn:X; auto. exfalso. subst k.
             rewrite app_assoc1 in *. unfold t_has in Hy.
             destruct (t_get T (dd ++ [m; y])) as [g|] eqn:Gc; [|discriminate].
             destruct (sraw_obj_name E T n pr dd m y g S Hd Hm Gc) as [Cc _].
             assert (Oc : is_obj_path (dd ++ [m; y]) = true) by (unfold is_obj_path; now rewrite Cc).
             destruct (md_obj_under _ Oc X) as (ny & Ey). rewrite <- app_assoc1 in Ey.
             apply app_inj_tail in Ey as [Ey _]. rewrite Ey, is_prefix_refl in P. discriminate.
    - intros k Hk Ok.
      assert (Nk : k <> s).
      { intros ->. unfold is_obj_path in Ok. now rewrite (classify_user s Us) in Ok. }
      destruct (is_prefix ms k) eqn:P.
      + destruct (md_obj_under k Ok P) as (ny & ->).
        rewrite r_other, rebase_app, rebase_self by (auto; apply is_prefix_refl).
        pose proof (obj_last_not_reserved _ Ok) as Rn. rewrite last_seg_app in Rn.
        rewrite Hmd, app_assoc1, Hms, app_assoc1, !last_seg_app2. split; auto.
        unfold is_obj_path. now rewrite classify_obj.
      + now rewrite r_fixed.
  Qed.
  Lemma move_data_tree :
    (if t_has (t_rename s d T) ms then t_rename ms md (t_rename s d T) else t_rename s d T)
    = tmap r T.
  Proof.
    destruct md_res as [Rms Rmd].
    set (r1 := fun k : path => if path_eqb k s then d else k).
    assert (E1 : t_rename s d T = tmap r1 T).
    { rewrite t_rename_tmap. apply tmap_ext_in. intros k I. unfold r1.
      destruct (path_eqb k s) eqn:X.
      - apply path_eqb_eq in X. subst. apply rebase_self.
      - apply rebase_not. destruct (is_prefix s k) eqn:P; auto.
        apply in_keys_t_has in I. rewrite md_below in I; auto; try discriminate.
        intros ->. now rewrite path_eqb_refl in X. }
    rewrite E1.
    assert (Hm : t_has (tmap r1 T) ms = t_has T ms).
    { apply Bool.eq_iff_eq_true. rewrite !t_has_keys, keys_tmap, in_map_iff. split.
      - intros (k & Ek & I). unfold r1 in Ek. destruct (path_eqb k s); [|now subst].
        rewrite Ek in Ud. congruence.
      - intros I. exists ms. split; auto. unfold r1. destruct (path_eqb ms s) eqn:X; auto.
        apply path_eqb_eq in X. rewrite X in Rms. congruence. }
    rewrite Hm. destruct (t_has T ms) eqn:Pm.
    - rewrite t_rename_tmap, tmap_tmap. apply tmap_ext_in. intros k I. unfold r1, r.
      destruct (path_eqb k s); auto. apply rebase_not. now apply user_not_under.
    - apply tmap_ext_in. intros k I. unfold r1, r. destruct (path_eqb k s); auto.
      symmetry. apply rebase_not. destruct (is_prefix ms k) eqn:P; auto. exfalso.
      apply in_keys_t_has in I.
      destruct (list_eq_dec string_dec k ms) as [->|Nk]; [congruence|].
      rewrite (is_prefix_split ms k P) in I, Nk.
      destruct (skipn _ k) as [|y l]; [now rewrite app_nil_r in Nk|].
      pose proof (below_is_group E T n pr ms (y :: l) S) as G.
      unfold t_has in Pm. destruct (t_get T ms); [discriminate|]. discriminate G; auto. discriminate.
  Qed.

  Lemma move_data_sync :
    SyncRaw E (relink_region
                 (if t_has (t_rename s d T) ms then t_rename ms md (t_rename s d T)
                  else t_rename s d T) md) n pr.
  Proof.
    rewrite move_data_tree, relink_region_eq.
    destruct md_shape as (Hms & Hmd & _ & _ & Ups & Upd). destruct md_meta as [Mms Mmd].
    assert (Imd : in_toc md = false) by (rewrite Hmd; now apply dir_not_toc).
    assert (NEmd : md <> []) by (rewrite Hmd; apply app1_nonempty).
    destruct (meta_objs_ren E T n pr r md S move_data_renok Imd NEmd) as [L1 L2].
    { intros x I Nx. assert (Nxs : x <> s).
      { intros ->. apply objs_all_obj in I. unfold is_obj_path in I.
        now rewrite (classify_user s Us) in I. }
      rewrite r_other in * by auto. destruct (is_prefix ms x) eqn:P.
      - now apply rebase_prefix.
      - now rewrite rebase_not in Nx. }
    apply (rename_sync E T n pr r _ S move_data_renok L1 L2).
  Qed.
End MoveData.

(** ** [c_move] *)

Lemma free_after_mkgroups E T n pr d T0 :
  SyncRaw E T n pr -> d <> [] -> t_has T d = false ->
  mkgroups_from T [] (parent d) = Some T0 ->
  forall k, is_prefix d k = true -> t_has T0 k = false.
Proof.
  intros S NE Hd MK k P. destruct (t_has T0 k) eqn:H; auto. exfalso.
  destruct (t_get T k) as [o|] eqn:G.
  - destruct (list_eq_dec string_dec k d) as [->|Nk].
    + unfold t_has in Hd. now rewrite G in Hd.
    + rewrite (is_prefix_split d k P) in G, Nk.
      destruct (skipn _ k) as [|y l]; [now rewrite app_nil_r in Nk|].
      pose proof (below_is_group E T n pr d (y :: l) S) as X.
      unfold t_has in Hd, X. rewrite G in X. destruct (t_get T d); [discriminate|].
      discriminate X; auto. discriminate.
  - pose proof (mkgroups_only_prefixes _ _ _ _ MK k G H) as Q. simpl in Q.
    pose proof (is_prefix_trans d k (parent d) P Q) as X.
    rewrite not_prefix_longer in X; auto. discriminate.
Qed.

Lemma move_raw E st s d :
  SyncRaw E (raw st) (next_id st) (prov st) ->
  has_reserved s = false -> has_reserved d = false ->
  (last_seg s <> "" \/ s = []) -> (last_seg d <> "" \/ d = []) ->
  SyncRaw E (raw (fst (c_move st s d))) (next_id (fst (c_move st s d))) (prov (fst (c_move st s d))).
Proof.
  intros S Us Ud Ls Ld. unfold c_move. destruct (u_move (raw st) s d) as [T1|] eqn:UM; [|exact S].
  unfold u_move in UM. destruct s as [|a s']; [discriminate|]. destruct d as [|b d']; [discriminate|].
  set (s := a :: s') in *. set (d := b :: d') in *.
  destruct (is_prefix s d || negb (t_has (raw st) s) || t_has (raw st) d) eqn:C; [discriminate|].
  apply orb_false_iff in C as [C Hd]. apply orb_false_iff in C as [Psd Hs].
  apply negb_false_iff in Hs.
  destruct (t_mkgroups (raw st) (parent d)) as [T0|] eqn:MK; [|discriminate].
  inversion UM; subst T1. unfold t_mkgroups in MK.
  assert (Upd : has_reserved (parent d) = false).
  { apply (user_prefix (parent d) d); auto. apply is_prefix_parent. discriminate. }
  destruct (mkgroups_grow _ _ _ _ MK (sr_root _ _ _ _ S) Upd) as [G Gpd]. simpl in Gpd.
  pose proof (grow_frame E _ T0 _ _ S G) as S0.
  pose proof (free_after_mkgroups E _ _ _ d T0 S ltac:(discriminate) Hd MK) as Free.
  assert (NEs : s <> []) by discriminate. assert (NEd : d <> []) by discriminate.
  destruct Ls as [Ls|Ls]; [|discriminate]. destruct Ld as [Ld|Ld]; [|discriminate].
  unfold t_has in Hs. destruct (t_get (raw st) s) as [o|] eqn:Gs; [|discriminate].
  pose proof (gr_mono _ _ G s o Gs) as Gs0.
  destruct o as [[|v] at0]; cbn [fst raw next_id prov set_raw].
  - apply (move_group_sync E T0 _ _ s d S0 Us Ud NEs NEd Psd); auto. now rewrite Gs0.
  - apply (move_data_sync E T0 _ _ s d S0 Us Ud NEs NEd Ls Ld Psd); auto. now rewrite Gs0.
Qed.

Lemma raw_step_move E st cwd s d : Sync E st -> RawStep E st (CMove cwd s d).
Proof.
  intros S. unfold RawStep, c_step, c_step_gen.
  destruct (guard cwd) eqn:Gc; [apply (raw_of_sync _ _ S)|].
  destruct (enter (raw (cs st)) cwd) as [c|] eqn:En; [|apply (raw_of_sync _ _ S)].
  destruct (guard s) eqn:Gs; [apply (raw_of_sync _ _ S)|].
  destruct (guard d) eqn:Gd; [apply (raw_of_sync _ _ S)|].
  pose proof (enter_user _ cwd c Gc En) as Uc. pose proof (enter_last _ cwd c En) as Lc.
  apply move_raw; auto using resolve_user, resolve_last_gen. apply (raw_of_sync _ _ S).
Qed.

(** ** Copy without metadata: only user nodes are added *)

Lemma NoDup_app_intro {X} (a b : list X) :
  NoDup a -> NoDup b -> (forall x, In x a -> In x b -> False) -> NoDup (a ++ b).
Proof.
  induction a as [|x a IH]; simpl; auto. intros Na Nb D. inversion Na; subst. constructor.
  - rewrite in_app_iff. intros [I|I]; auto. apply (D x); auto.
  - apply IH; auto. intros y Ia Ib. apply (D y); auto.
Qed.

Lemma filter_none {X} (f : X -> bool) l : (forall x, In x l -> f x = false) -> filter f l = [].
Proof.
  induction l as [|x l IH]; simpl; auto. intros H. rewrite (H x) by auto. apply IH. auto.
Qed.

Section CopyUser.
  (* [T]: the tree the snapshot of [s] is taken from; [B]: the tree it is added to ([T] plus the
     intermediate groups of the destination). *)
  Variables (E : env) (T B : tree) (n : N) (pr : list (string * string)) (s d : path).
  Hypothesis S : SyncRaw E T n pr.
  Hypothesis Us : has_reserved s = false.
  Hypothesis Ud : has_reserved d = false.
  Hypothesis NEs : s <> [].
  Hypothesis NEd : d <> [].
  Hypothesis Free : forall k, is_prefix d k = true -> t_has B k = false.
  Hypothesis Gpd : is_group (t_get B (parent d)) = true.
  Let r := rebase s d.
  Definition usub : tree := filter (fun e => negb (has_reserved (fst e))) (t_sub s T).
  Let X := usub.

  Lemma cu_in k o : In (k, o) X <-> t_get T k = Some o /\ is_prefix s k = true /\ has_reserved k = false.
  Proof.
    unfold X, usub, t_sub. rewrite !filter_In. simpl. rewrite negb_true_iff. split.
    - intros ((I & P) & U). repeat split; auto. apply t_get_nodup_in; auto. apply (sr_nodup _ _ _ _ S).
    - intros (G & P & U). repeat split; auto. now apply t_get_in.
  Qed.

  Lemma cu_nodupX : NoDup (map fst X).
  Proof.
    unfold X, usub, t_sub. rewrite (map_fst_filter (fun k => negb (has_reserved k))).
    rewrite (map_fst_filter (fun k => is_prefix s k)).
    repeat apply NoDup_filter. apply (sr_nodup _ _ _ _ S).
  Qed.

  Lemma cu_nodup_rX : NoDup (map fst (tmap r X)).
  Proof.
    rewrite keys_tmap. apply NoDup_map_inj_in; [apply cu_nodupX|].
    intros a b Ia Ib Er. apply in_map_iff in Ia as ([k1 o1] & <- & I1).
    apply in_map_iff in Ib as ([k2 o2] & <- & I2). apply cu_in in I1 as (_ & P1 & _).
    apply cu_in in I2 as (_ & P2 & _). simpl in *. eapply rebase_inj_under; eauto.
  Qed.

  Lemma cu_get k o : In (k, o) X -> t_get (tmap r X) (r k) = Some o.
  Proof.
    intros I. apply t_get_nodup_in; [apply cu_nodup_rX|]. unfold tmap. apply in_map_iff.
    exists (k, o). auto.
  Qed.

  Lemma cu_user k : has_reserved k = false -> has_reserved (r k) = false.
  Proof.
    intros H. unfold r, rebase. destruct (is_prefix s k); auto.
    rewrite has_reserved_app, Ud. simpl. destruct (has_reserved (skipn _ k)) eqn:Z; auto.
    apply has_reserved_skipn in Z. congruence.
  Qed.

  Lemma copy_user_grow : Grow B (B ++ tmap r X).
  Proof.
    constructor.
    - intros p x G. now rewrite t_get_app, G.
    - intros p o G. rewrite t_get_app in G. destruct (t_get B p) as [x|] eqn:G0; auto.
      right. apply t_get_in in G. unfold tmap in G. apply in_map_iff in G as ([k o'] & Ek & I).
      simpl in Ek. inversion Ek; subst. apply cu_in in I as (Gk & P & U).
      assert (NEr : r k <> []).
      { unfold r. rewrite rebase_under by auto. destruct d; [contradiction|discriminate]. }
      repeat split; auto; [now apply cu_user|].
      destruct (list_eq_dec string_dec k s) as [->|Nk].
      + unfold r. rewrite rebase_self, t_get_app.
        destruct (t_get B (parent d)); [exact Gpd|discriminate].
      + assert (NEk : k <> []) by (intros ->; destruct s; [contradiction|discriminate]).
        pose proof (sraw_parent E T n pr k o S Gk NEk) as PG.
        destruct (t_get T (parent k)) as [g|] eqn:Gp; [|discriminate].
        assert (Ip : In (parent k, g) X).
        { apply cu_in. repeat split; auto; [now apply parent_under|].
          apply (user_prefix (parent k) k); auto. now apply is_prefix_parent. }
        unfold r. rewrite (parent_rebase s d k P Nk), t_get_app.
        assert (t_has B (rebase s d (parent k)) = false).
        { apply Free, rebase_prefix. now apply parent_under. }
        unfold t_has in H. destruct (t_get B (rebase s d (parent k))); [discriminate|].
        fold r. now rewrite (cu_get _ _ Ip).
    - intros ND. rewrite map_app. apply NoDup_app_intro; auto; [apply cu_nodup_rX|].
      intros x Ia Ib. rewrite keys_tmap in Ib. apply in_map_iff in Ib as (k & <- & Ik).
      apply in_map_iff in Ik as ([k' o] & <- & I). apply cu_in in I as (_ & P & _). simpl in *.
      apply in_keys_t_has in Ia. unfold r in Ia. rewrite Free in Ia; [discriminate|].
      now apply rebase_prefix.
    - unfold objs. rewrite map_app, filter_app, keys_tmap.
      rewrite (filter_none is_obj_path (map r (map fst X))); [apply app_nil_r|].
      intros x I. apply in_map_iff in I as (k & <- & Ik).
      apply in_map_iff in Ik as ([k' o] & <- & I). apply cu_in in I as (_ & _ & U). simpl.
      unfold is_obj_path. now rewrite (classify_user _ (cu_user _ U)).
  Qed.
End CopyUser.

Lemma filter_map_gen {X Y} (f : Y -> bool) (g : X -> Y) l :
  filter f (map g l) = map g (filter (fun x => f (g x)) l).
Proof. induction l as [|x l IH]; simpl; auto. destruct (f (g x)); simpl; now rewrite IH. Qed.

Lemma skipn_app_exact {X} (a b : list X) : skipn (List.length a) (a ++ b) = b.
Proof. induction a; simpl; auto. Qed.

Lemma has_reserved_under s k :
  has_reserved s = false -> is_prefix s k = true ->
  has_reserved (skipn (List.length s) k) = has_reserved k.
Proof.
  intros Us P. rewrite (is_prefix_split s k P) at 2. now rewrite has_reserved_app, Us.
Qed.

Lemma strip_copy_eq T B s d :
  has_reserved s = false ->
  (forall k, is_prefix d k = true -> t_has B k = false) ->
  strip_meta_below (B ++ t_rename s d (t_sub s T)) d = B ++ tmap (rebase s d) (usub T s).
Proof.
  intros Us Free. unfold strip_meta_below. rewrite filter_app. f_equal.
  - apply filter_all. intros e I. apply in_t_has in I. destruct (is_prefix d (fst e)) eqn:P; auto.
    rewrite Free in I; auto. discriminate.
  - rewrite t_rename_tmap. unfold tmap at 1. rewrite filter_map_gen. unfold usub, tmap. f_equal.
    apply filter_ext_in. intros e I. unfold t_sub in I. apply filter_In in I as [_ P]. simpl.
    rewrite (rebase_prefix s d _ P), (rebase_under s d _ P), skipn_app_exact. simpl.
    now rewrite has_reserved_under.
Qed.

Lemma sub_data_usub E T n pr s :
  SyncRaw E T n pr -> has_reserved s = false -> is_data (t_get T s) = true ->
  t_sub s T = usub T s.
Proof.
  intros S Us D. unfold usub. symmetry. apply filter_all. intros e I.
  unfold t_sub in I. apply filter_In in I as [I P]. apply negb_true_iff. destruct e as [k o].
  simpl in *. destruct (list_eq_dec string_dec k s) as [->|Nk]; auto.
  apply in_t_has in I. simpl in I. rewrite (below_data_absent E T n pr s k S D P Nk) in I. discriminate.
Qed.

(** The part of [copy] that is proved: everything except the re-uuid of copied objects. *)
Lemma copy_user_raw E T B n pr s d :
  SyncRaw E T n pr -> SyncRaw E B n pr ->
  has_reserved s = false -> has_reserved d = false -> s <> [] -> d <> [] ->
  (forall k, is_prefix d k = true -> t_has B k = false) ->
  is_group (t_get B (parent d)) = true ->
  SyncRaw E (B ++ tmap (rebase s d) (usub T s)) n pr.
Proof.
  intros S SB Us Ud NEs NEd Free Gpd. apply (grow_frame E B); auto.
  now apply (copy_user_grow E T B n pr s d).
Qed.

(** ** [c_copy], common part: the state after the raw copy *)

Section CopySetup.
  Variables (E : env) (st : cstate) (o : obj) (s d : path) (T1 : tree).
  Hypothesis S : SyncRaw E (raw st) (next_id st) (prov st).
  Hypothesis Us : has_reserved s = false.
  Hypothesis Ud : has_reserved d = false.
  Hypothesis Go : t_get (raw st) s = Some o.
  Hypothesis UC : u_copy (raw st) s d = Some T1.

  Lemma copy_setup :
    exists T0, SyncRaw E T0 (next_id st) (prov st) /\ s <> [] /\ d <> [] /\
               t_get T0 s = Some o /\
               (forall k, is_prefix d k = true -> t_has T0 k = false) /\
               is_group (t_get T0 (parent d)) = true /\
               T1 = T0 ++ t_rename s d (t_sub s (raw st)) /\ Grow (raw st) T0.
  Proof.
    unfold u_copy in UC. destruct s as [|a s']; [discriminate|]. destruct d as [|b d']; [discriminate|].
    set (s0 := a :: s') in *. set (d0 := b :: d') in *.
    destruct (negb (t_has (raw st) s0) || t_has (raw st) d0) eqn:C; [discriminate|].
    apply orb_false_iff in C as [_ Hd].
    destruct (t_mkgroups (raw st) (parent d0)) as [T0|] eqn:MK; [|discriminate].
    inversion UC; subst T1. unfold t_mkgroups in MK.
    assert (Upd : has_reserved (parent d0) = false).
    { apply (user_prefix (parent d0) d0); auto. apply is_prefix_parent. discriminate. }
    destruct (mkgroups_grow _ _ _ _ MK (sr_root _ _ _ _ S) Upd) as [G Gpd].
    change ([] ++ parent d0) with (parent d0) in Gpd.
    exists T0. split; [now apply (grow_frame E (raw st))|]. split; [discriminate|].
    split; [discriminate|]. split; [now apply (gr_mono _ _ G)|].
    split; [apply (free_after_mkgroups E _ _ _ d0 T0 S); auto; discriminate|].
    split; [exact Gpd|]. split; auto.
  Qed.
End CopySetup.

Lemma copy_raw_without_meta E st o s d :
  SyncRaw E (raw st) (next_id st) (prov st) -> has_reserved s = false -> has_reserved d = false ->
  t_get (raw st) s = Some o ->
  SyncRaw E (raw (fst (c_copy st o s d true))) (next_id (fst (c_copy st o s d true)))
          (prov (fst (c_copy st o s d true))).
Proof.
  intros S Us Ud Go. unfold c_copy. destruct (u_copy (raw st) s d) as [T1|] eqn:UC; [|exact S].
  destruct (copy_setup E st o s d T1 S Us Ud Go UC) as (T0 & S0 & NEs & NEd & G0 & Free & Gpd & -> & _).
  unfold c_copy_fixups. destruct o as [[|v] at0]; cbn [okind fst raw next_id prov set_raw].
  - rewrite strip_copy_eq; auto. now apply (copy_user_raw E (raw st) T0).
  - rewrite t_rename_tmap, (sub_data_usub E (raw st) _ _ s S Us) by now rewrite Go.
    now apply (copy_user_raw E (raw st) T0).
Qed.

(** A dataset without metadata copied with [without_meta = false]: the data is copied, then
    the sidecar copy raises ([RFailLate]); the TOC and the metadata are untouched. *)
Lemma copy_raw_late E st o s d :
  SyncRaw E (raw st) (next_id st) (prov st) -> has_reserved s = false -> has_reserved d = false ->
  t_get (raw st) s = Some o -> snd (c_copy st o s d false) = RFailLate ->
  SyncRaw E (raw (fst (c_copy st o s d false))) (next_id (fst (c_copy st o s d false)))
          (prov (fst (c_copy st o s d false))).
Proof.
  intros S Us Ud Go. unfold c_copy. destruct (u_copy (raw st) s d) as [T1|] eqn:UC; [|simpl; discriminate].
  destruct (copy_setup E st o s d T1 S Us Ud Go UC) as (T0 & S0 & NEs & NEd & G0 & Free & Gpd & -> & _).
  unfold c_copy_fixups. destruct o as [[|v] at0]; cbn [okind].
  - destruct (reuuid_region _ _ _ _). discriminate.
  - destruct (t_has _ (meta_dir_of s true)).
    + destruct (reuuid_region _ _ _ _). discriminate.
    + intros _. cbn [fst raw next_id prov set_raw].
      rewrite t_rename_tmap, (sub_data_usub E (raw st) _ _ s S Us) by now rewrite Go.
      now apply (copy_user_raw E (raw st) T0).
Qed.

(** ** The step theorem with move and copy-without-metadata included *)

Lemma user_of_res p : has_reserved p = false -> user_path p = true.
Proof. intros H. unfold user_path. now rewrite H. Qed.
Lemma res_of_user p : user_path p = true -> has_reserved p = false.
Proof. unfold user_path. intros H. now apply negb_true_iff in H. Qed.

(** Source object, source and destination of a copy, when the call gets that far. *)
Definition copy_args (st : cstate) (co : cop) : option (obj * path * path * bool) :=
  match co with
  | CCopy cwd s d wm =>
      if guard cwd then None else
      match enter (raw st) cwd with None => None | Some c =>
      if guard s then None else
      match t_get (raw st) (resolve c s) with None => None | Some o =>
      if guard d then None else Some (o, resolve c s, resolve c d, wm) end end
  | CCopyInto cwd s dgrp name wm =>
      if guard cwd then None else
      match enter (raw st) cwd with None => None | Some c =>
      if guard dgrp then None else
      match enter (raw st) dgrp with None => None | Some dg =>
      if guard s then None else
      match t_get (raw st) (resolve c s) with None => None | Some o =>
      if name_guard name then None
      else Some (o, resolve c s, into_dest dg (resolve c s) name, wm) end end end
  | _ => None
  end.

Lemma copy_step_cases st co :
  match copy_args st co with
  | Some (o, s, d, wm) =>
      c_step st co = c_copy st o s d wm /\ has_reserved s = false /\ has_reserved d = false /\
      t_get (raw st) s = Some o
  | None => match co with
            | CCopy _ _ _ _ | CCopyInto _ _ _ _ _ => fst (c_step st co) = st
            | _ => True
            end
  end.
Proof.
  destruct co; simpl; auto.
  - unfold c_step, c_step_gen. destruct (guard cwd) eqn:Gc; auto.
    destruct (enter (raw st) cwd) as [c|] eqn:En; auto. destruct (guard s) eqn:Gs; auto.
    destruct (t_get (raw st) (resolve c s)) as [o|] eqn:Go; auto. destruct (guard d) eqn:Gd; auto.
    pose proof (enter_user _ cwd c Gc En) as Uc. repeat split; auto using resolve_user.
  - unfold c_step, c_step_gen. destruct (guard cwd) eqn:Gc; auto.
    destruct (enter (raw st) cwd) as [c|] eqn:En; auto. destruct (guard dgrp) eqn:Gg; auto.
    destruct (enter (raw st) dgrp) as [dg|] eqn:Eg; auto. destruct (guard s) eqn:Gs; auto.
    destruct (t_get (raw st) (resolve c s)) as [o|] eqn:Go; auto.
    destruct (name_guard name) eqn:Gn; auto.
    pose proof (enter_user _ cwd c Gc En) as Uc. pose proof (enter_user _ dgrp dg Gg Eg) as Ug.
    pose proof (resolve_user c s Uc Gs) as Us. repeat split; auto.
    apply res_of_user, into_dest_user; auto using user_of_res.
Qed.

(** The only case left as a premise: a copy WITH metadata ([without_meta = false]) that
    succeeds ([ROk]). *)
Definition copies_meta (o : sop) : bool :=
  match o with
  | SOp (CCopy _ _ _ false) | SOp (CCopyInto _ _ _ _ false) => true
  | _ => false
  end.

Lemma res_eq_ok (r : res) : r = ROk \/ r <> ROk.
Proof. destruct r; auto; right; discriminate. Qed.

Lemma raw_step_copy E st co :
  Sync E st ->
  match co with CCopy _ _ _ _ | CCopyInto _ _ _ _ _ => True | _ => False end ->
  (copies_meta (SOp co) = true -> snd (c_step (cs st) co) <> ROk) ->
  RawStep E st co.
Proof.
  intros S Hc Hm. pose proof (raw_of_sync E st S) as R.
  pose proof (copy_step_cases (cs st) co) as C.
  destruct (copy_args (cs st) co) as [[[[o s] d] wm]|] eqn:A.
  - destruct C as (Ec & Us & Ud & Go). unfold RawStep. rewrite Ec in *.
    destruct wm.
    + now apply copy_raw_without_meta.
    + assert (CM : copies_meta (SOp co) = true).
      { destruct co; try contradiction; simpl in A;
          repeat match type of A with
                 | (if ?b then _ else _) = _ => destruct b; [discriminate|]
                 | match ?x with Some _ => _ | None => _ end = _ => destruct x; [|discriminate]
                 end; inversion A; subst; reflexivity. }
      specialize (Hm CM). destruct (snd (c_copy (cs st) o s d false)) eqn:Rs.
      * contradiction.
      * rewrite c_copy_ref; auto. now rewrite Rs.
      * rewrite c_copy_ref; auto. now rewrite Rs.
      * now apply copy_raw_late.
  - destruct co; try contradiction; apply raw_step_same; auto.
Qed.

Lemma sync_step_general E st o :
  env_ok E = true -> Sync E st ->
  (copies_meta o = true -> snd (s_step E st o) = ROk ->
   match o with SOp co => RawStep E st co | _ => True end) ->
  Sync E (fst (s_step E st o)).
Proof.
  intros EO S H. destruct (is_heavy o) eqn:Hv; [|now apply sync_step_light].
  destruct o as [co| | |]; try discriminate.
  destruct co; try discriminate.
  - (* move *) apply sync_step_heavy; auto. now apply raw_step_move.
  - (* copy *)
    unfold s_step, s_step_gen in *. destruct (ro st && _) eqn:RO; [exact S|].
    assert (R : RawStep E st (CCopy cwd s d without_meta)).
    { destruct (c_step (cs st) (CCopy cwd s d without_meta)) as [c' rs] eqn:Ec.
      destruct (res_eq_ok rs) as [->|Nok].
      - destruct without_meta.
        + apply raw_step_copy; auto. simpl. discriminate.
        + apply H; auto.
      - apply raw_step_copy; auto. intros _. now rewrite Ec. }
    unfold RawStep in R. destruct (c_step (cs st) _) as [c' rs]. simpl in *. now apply sync_track.
  - unfold s_step, s_step_gen in *. destruct (ro st && _) eqn:RO; [exact S|].
    assert (R : RawStep E st (CCopyInto cwd s dgrp name without_meta)).
    { destruct (c_step (cs st) (CCopyInto cwd s dgrp name without_meta)) as [c' rs] eqn:Ec.
      destruct (res_eq_ok rs) as [->|Nok].
      - destruct without_meta.
        + apply raw_step_copy; auto. simpl. discriminate.
        + apply H; auto.
      - apply raw_step_copy; auto. intros _. now rewrite Ec. }
    unfold RawStep in R. destruct (c_step (cs st) _) as [c' rs]. simpl in *. now apply sync_track.
Qed.

(** ** Histories *)

Fixpoint meta_copies_ok (E : env) (st : sstate) (ops : list sop) : Prop :=
  match ops with
  | [] => True
  | o :: r =>
      (copies_meta o = true -> snd (s_step E st o) = ROk ->
       match o with SOp co => RawStep E st co | _ => True end) /\
      meta_copies_ok E (fst (s_step E st o)) r
  end.

Lemma sync_run_general E : forall ops st,
  env_ok E = true -> Sync E st -> meta_copies_ok E st ops -> Sync E (s_run E st ops).
Proof.
  induction ops as [|o ops IH]; intros st EO S H; simpl; auto.
  destruct H as [H1 H2]. apply IH; auto. now apply sync_step_general.
Qed.

Lemma no_meta_copies_ok E : forall ops st,
  forallb (fun o => negb (copies_meta o)) ops = true -> meta_copies_ok E st ops.
Proof.
  induction ops as [|o ops IH]; intros st H; simpl; auto. simpl in H.
  apply andb_prop in H as [H1 H2]. apply negb_true_iff in H1. split; auto. intros X. congruence.
Qed.

Lemma sync_step_no_meta_copy E st o :
  env_ok E = true -> Sync E st -> copies_meta o = false -> Sync E (fst (s_step E st o)).
Proof. intros EO S H. apply sync_step_general; auto. intros X. congruence. Qed.

Lemma sync_run_no_meta_copy E ops :
  env_ok E = true -> forallb (fun o => negb (copies_meta o)) ops = true ->
  Sync E (s_run E init_ss ops).
Proof. intros EO H. apply sync_run_general; auto. apply sync_init. now apply no_meta_copies_ok. Qed.

(** A copy with metadata that does not succeed (refused, or a dataset without metadata:
    [RFailLate]) needs no premise either. *)
Lemma sync_step_meta_copy_not_ok E st o :
  env_ok E = true -> Sync E st -> snd (s_step E st o) <> ROk -> Sync E (fst (s_step E st o)).
Proof. intros EO S H. apply sync_step_general; auto. intros _ X. contradiction. Qed.

(** Witness: move, copy without metadata, delete, reopen -- no premise. *)
Definition ops_move_copy : list sop :=
  [SOp (CCreateGroup "/" "g"); SOp (CSetItem "/" "g/x" "1");
   SAttach "/g/x" "c06.bb__0.1.0" "0" true; SAttach "/g" "c06.aa__0.1.0" "1" true;
   SOp (CMove "/" "g/x" "z"); SOp (CCopy "/" "g" "k" true); SOp (CMove "/" "g" "h/i");
   SOp (CCopy "/" "z" "z2" true); SOp (CCopyInto "/" "z" "/k" (Some "zz") true);
   SOp (CDelete "/" "h"); SReopen false].

Lemma example_move_copy :
  Sync E0 (s_run E0 init_ss ops_move_copy) /\
  t_has (raw (cs (s_run E0 init_ss ops_move_copy))) (link_path "c06.bb__0.1.0" "u0") = true.
Proof. split; [apply sync_run_no_meta_copy; reflexivity|vm_compute; reflexivity]. Qed.
