(** * Lemmas about the container path layout ([Toc/Layout.v]). *)
From Coq Require Import List String Ascii Bool Arith Lia.
From MV Require Import Toc.Layout.
Import ListNotations.
Local Open Scope string_scope.

(** ** Characters and separators *)

Fixpoint no_char (c : ascii) (s : string) : bool :=
  match s with
  | EmptyString => true
  | String a r => negb (Ascii.eqb a c) && no_char c r
  end.

Lemma no_char_app c a b : no_char c (a ++ b) = no_char c a && no_char c b.
Proof. induction a; simpl; auto. rewrite IHa. now rewrite andb_assoc. Qed.

Lemma split_nonempty c s : split c s <> [].
Proof.
  destruct s; simpl; [discriminate|].
  destruct (Ascii.eqb a c); [discriminate|]. destruct (split c s); discriminate.
Qed.

Lemma split_no_char c s : Forall (fun x => no_char c x = true) (split c s).
Proof.
  induction s; simpl.
  - constructor; auto.
  - destruct (Ascii.eqb a c) eqn:E.
    + constructor; auto.
    + destruct (split c s) as [|h t].
      * constructor; auto. simpl. now rewrite E.
      * inversion IHs; subst. constructor; auto. simpl. now rewrite E.
Qed.

Lemma join_cons_char c a h t : join c (String a h :: t) = String a (join c (h :: t)).
Proof. destruct t; reflexivity. Qed.

Lemma join_cons2 c x y r : join c (x :: y :: r) = x ++ String c (join c (y :: r)).
Proof. reflexivity. Qed.

Lemma join_split c s : join c (split c s) = s.
Proof.
  induction s; simpl; auto.
  destruct (Ascii.eqb a c) eqn:E.
  - apply Ascii.eqb_eq in E; subst.
    destruct (split c s) as [|h t] eqn:S; [now apply split_nonempty in S|].
    rewrite join_cons2, IHs. reflexivity.
  - destruct (split c s) as [|h t] eqn:S; [now apply split_nonempty in S|].
    rewrite join_cons_char. now rewrite IHs.
Qed.

Lemma split_one c x : no_char c x = true -> split c x = [x].
Proof.
  induction x; simpl; auto. intros H. apply andb_prop in H as [H1 H2].
  apply negb_true_iff in H1. rewrite H1, (IHx H2). reflexivity.
Qed.

Lemma split_app_sep c x s : no_char c x = true -> split c (x ++ String c s) = x :: split c s.
Proof.
  induction x; simpl; intros H.
  - now rewrite Ascii.eqb_refl.
  - apply andb_prop in H as [H1 H2]. apply negb_true_iff in H1.
    rewrite H1, (IHx H2). reflexivity.
Qed.

Lemma split_join c l :
  l <> [] -> Forall (fun x => no_char c x = true) l -> split c (join c l) = l.
Proof.
  induction l as [|x r IH]; [congruence|]. intros _ H. inversion H; subst.
  destruct r as [|y r'].
  - simpl. now apply split_one.
  - rewrite join_cons2, split_app_sep by auto. f_equal. apply IH; [discriminate|auto].
Qed.

(** ** [is_internal_path] is "some segment starts with the prefix" *)

Lemma starts_with_hd_split c pref s :
  no_char c pref = true ->
  starts_with pref s = starts_with pref (hd "" (split c s)).
Proof.
  revert s. induction pref as [|a p' IH]; intros s H; simpl; auto.
  simpl in H. apply andb_prop in H as [H1 H2]. apply negb_true_iff in H1.
  destruct s as [|b r]; simpl; auto.
  destruct (Ascii.eqb b c) eqn:E; simpl.
  - apply Ascii.eqb_eq in E; subst. now rewrite H1.
  - rewrite (IH r H2). destruct (split c r); simpl; auto.
Qed.

Lemma has_sub_tl_split c pref s :
  no_char c pref = true ->
  has_sub (String c pref) s = existsb (starts_with pref) (tl (split c s)).
Proof.
  intros H. induction s as [|a r IH]; simpl; auto.
  destruct (Ascii.eqb a c) eqn:E.
  - apply Ascii.eqb_eq in E; subst. rewrite Ascii.eqb_refl. simpl.
    rewrite IH, (starts_with_hd_split c pref r H).
    destruct (split c r) as [|h t] eqn:S; [now apply split_nonempty in S|]. reflexivity.
  - rewrite Ascii.eqb_sym, E. simpl. rewrite IH.
    destruct (split c r); reflexivity.
Qed.

Lemma internal_pref_iff_segment pref p :
  no_char slash pref = true ->
  is_internal_path_pref p pref = existsb (starts_with pref) (segs_of p).
Proof.
  intros H. unfold is_internal_path_pref, segs_of.
  rewrite (has_sub_tl_split slash pref p H), (starts_with_hd_split slash pref p H).
  destruct (split slash p) as [|h t] eqn:S; [now apply split_nonempty in S|]. reflexivity.
Qed.

(** A path is internal iff one of its ["/"]-separated segments starts with [metador_]. *)
Lemma internal_iff_segment p :
  is_internal_path p = existsb reserved_seg (segs_of p).
Proof. apply internal_pref_iff_segment. reflexivity. Qed.

Lemma internal_iff_segment_prop p :
  is_internal_path p = true <->
  exists s, In s (segs_of p) /\ starts_with "metador_" s = true.
Proof. rewrite internal_iff_segment. apply existsb_exists. Qed.

(** ** Meta base path <-> node path *)

Lemma drop_str_app a b : drop_str (String.length a) (a ++ b) = b.
Proof. induction a; simpl; auto. Qed.

Lemma last_seg_app l x : last_seg (l ++ [x]) = x.
Proof. unfold last_seg. apply last_last. Qed.

Lemma set_last_app l y x : set_last (l ++ [y]) x = (l ++ [x])%list.
Proof. unfold set_last. now rewrite removelast_last. Qed.

Lemma set_last_self l : l <> [] -> set_last l (last_seg l) = l.
Proof. intros H. unfold set_last, last_seg. symmetry. now apply app_removelast_last. Qed.

Lemma reserved_meta_pref x : reserved_seg (METADOR_META_PREF ++ x) = true.
Proof. reflexivity. Qed.

Lemma meta_seg_meta_pref x : meta_seg (METADOR_META_PREF ++ x) = true.
Proof. reflexivity. Qed.

Lemma meta_seg_reserved s : meta_seg s = true -> reserved_seg s = true.
Proof.
  unfold meta_seg, reserved_seg, METADOR_META_PREF, METADOR_PREF.
  repeat (destruct s as [|? s]; simpl; try discriminate;
          match goal with |- (?a && _ = true) -> _ =>
            let E := fresh in destruct a eqn:E; simpl; try discriminate end); auto.
Qed.

(** The segment list of a meta base path: everything but the last segment comes from the
    node path, the last one starts with [metador_meta_]. *)
Lemma meta_base_segs_shape S d :
  exists l x, meta_base_segs S d = (l ++ [(METADOR_META_PREF ++ x)%string])%list /\
              (forall s, In s l -> In s S) .
Proof.
  destruct d; simpl.
  - exists (removelast S), (last_seg S). split; auto.
    intros s Hs. destruct S as [|a S']; [inversion Hs|].
    rewrite (app_removelast_last "" (l:=a :: S')) by discriminate.
    apply in_or_app. now left.
  - assert (D : meta_base_segs S false = (S ++ [METADOR_META_PREF])%list \/
                (S = [""; ""] /\ meta_base_segs S false = ([""] ++ [METADOR_META_PREF])%list)).
    { unfold meta_base_segs.
      destruct S as [|a [|b [|c r]]]; auto; destruct a; auto; destruct b; auto. }
    destruct D as [D|[E D]]; unfold meta_base_segs in D |- *; rewrite D.
    + exists S, "". split; auto.
    + exists [""], "". split; [reflexivity|]. subst. intros s [<-|[]]. now left.
Qed.

Lemma meta_base_segs_nonempty S d : meta_base_segs S d <> [].
Proof.
  destruct (meta_base_segs_shape S d) as (l & x & E & _). rewrite E.
  destruct l; discriminate.
Qed.

Lemma no_char_meta_pref x : no_char slash (METADOR_META_PREF ++ x) = no_char slash x.
Proof. reflexivity. Qed.

Lemma meta_base_segs_no_slash S d :
  Forall (fun x => no_char slash x = true) S ->
  Forall (fun x => no_char slash x = true) (meta_base_segs S d).
Proof.
  intros H. destruct d; simpl.
  - unfold set_last. apply Forall_app. split.
    + rewrite Forall_forall in *. intros s Hs. apply H.
      destruct S as [|a S']; [inversion Hs|].
      rewrite (app_removelast_last "" (l:=a :: S')) by discriminate.
      apply in_or_app. now left.
    + constructor; auto. change (no_char slash (last_seg S) = true).
      destruct S as [|a S']; [reflexivity|].
      rewrite Forall_forall in H. apply H. unfold last_seg.
      rewrite (app_removelast_last "" (l:=a :: S')) at 2 by discriminate.
      apply in_or_app. right. now left.
  - unfold meta_base_segs.
    destruct S as [|a [|b [|c r]]]; try (apply Forall_app; split; auto; fail);
      destruct a; try (apply Forall_app; split; auto; fail);
      destruct b; try (apply Forall_app; split; auto; fail).
    repeat constructor.
Qed.

(** [segs_of] inverts [path_of] on the segment list of a meta base path. *)
Lemma segs_of_meta_base p d :
  segs_of (to_meta_base_path p d) = meta_base_segs (segs_of p) d.
Proof.
  unfold to_meta_base_path, segs_of, path_of. apply split_join.
  - apply meta_base_segs_nonempty.
  - apply meta_base_segs_no_slash, split_no_char.
Qed.

(** Which node paths the scheme can represent: a dataset needs a non-empty last segment,
    a group path must not be the empty string.  Every [node.name] qualifies. *)
Definition node_path_ok (p : string) (is_dataset : bool) : Prop :=
  if is_dataset then last_seg (segs_of p) <> "" else p <> "".

Lemma data_node_segs_app l x :
  data_node_segs (l ++ [(METADOR_META_PREF ++ x)%string]) =
  match x with
  | "" => if Nat.ltb 2 (List.length (l ++ [""])) || negb (String.eqb (hd "" (l ++ [""])) "")
          then l else (l ++ [""])%list
  | _ => (l ++ [x])%list
  end.
Proof.
  unfold data_node_segs. rewrite last_seg_app, drop_str_app, set_last_app.
  destruct x; [|reflexivity]. now rewrite removelast_last.
Qed.

Lemma meta_base_segs_false S :
  meta_base_segs S false = (S ++ [(METADOR_META_PREF ++ "")%string])%list \/ S = [""; ""].
Proof.
  unfold meta_base_segs.
  destruct S as [|a [|b [|c r]]]; auto; destruct a; auto; destruct b; auto.
Qed.

Lemma data_node_segs_meta_base S d :
  S <> [] ->
  (match d return Prop with true => last_seg S <> "" | false => S <> [""] end) ->
  data_node_segs (meta_base_segs S d) = S.
Proof.
  intros NE OK. destruct d.
  - unfold meta_base_segs, set_last. rewrite data_node_segs_app.
    fold (set_last S (last_seg S)). rewrite (set_last_self S NE).
    destruct (last_seg S) eqn:E; [congruence|reflexivity].
  - destruct (meta_base_segs_false S) as [D|E]; [|subst; reflexivity].
    rewrite D, data_node_segs_app. rewrite app_length. simpl List.length.
    destruct S as [|a [|b r]]; [congruence| |].
    + simpl. destruct a; [congruence|reflexivity].
    + replace (Nat.ltb 2 (List.length (a :: b :: r) + 1)) with true
        by (symmetry; apply Nat.ltb_lt; simpl; lia).
      reflexivity.
Qed.

(** Round trip: the node path is recovered from its meta base path. *)
Lemma meta_path_roundtrip p d :
  node_path_ok p d -> to_data_node_path (to_meta_base_path p d) = p.
Proof.
  intros OK. unfold to_data_node_path. rewrite segs_of_meta_base.
  rewrite data_node_segs_meta_base.
  - apply join_split.
  - apply split_nonempty.
  - destruct d; simpl in *; auto. intros E. apply OK.
    rewrite <- (join_split slash p). unfold segs_of in E. now rewrite E.
Qed.

(** The meta base path of any node is internal, and is recognised as a meta base path. *)
Lemma meta_path_internal p d : is_internal_path (to_meta_base_path p d) = true.
Proof.
  rewrite internal_iff_segment, segs_of_meta_base.
  destruct (meta_base_segs_shape (segs_of p) d) as (l & x & E & _). rewrite E.
  rewrite existsb_app. apply orb_true_iff. right. reflexivity.
Qed.

Lemma meta_path_is_base p d : is_meta_base_path (to_meta_base_path p d) = true.
Proof.
  unfold is_meta_base_path. rewrite segs_of_meta_base.
  destruct (meta_base_segs_shape (segs_of p) d) as (l & x & E & _). rewrite E.
  rewrite last_seg_app. apply meta_seg_meta_pref.
Qed.

(** Distinct nodes (or a group and a dataset of the same name) never share a meta dir. *)
Lemma meta_path_inj p d q e :
  node_path_ok p d -> node_path_ok q e ->
  to_meta_base_path p d = to_meta_base_path q e -> p = q /\ d = e.
Proof.
  intros Hp Hq E.
  assert (PQ : p = q).
  { rewrite <- (meta_path_roundtrip p d Hp), <- (meta_path_roundtrip q e Hq). now rewrite E. }
  split; auto. subst q.
  apply (f_equal segs_of) in E. rewrite !segs_of_meta_base in E.
  destruct d, e; auto; exfalso.
  - (* dataset vs group *)
    simpl in Hp. set (S := segs_of p) in *.
    destruct (meta_base_segs_false S) as [D|D]; [|rewrite D in Hp; now apply Hp].
    rewrite D in E. unfold meta_base_segs, set_last in E.
    apply (f_equal (@List.length string)) in E. rewrite !app_length in E. simpl in E.
    assert (NE : S <> []) by apply split_nonempty.
    assert (L := f_equal (@List.length string) (app_removelast_last "" NE)).
    rewrite app_length in L. simpl in L. lia.
  - simpl in Hq. set (S := segs_of p) in *.
    destruct (meta_base_segs_false S) as [D|D]; [|rewrite D in Hq; now apply Hq].
    rewrite D in E. unfold meta_base_segs, set_last in E.
    apply (f_equal (@List.length string)) in E. rewrite !app_length in E. simpl in E.
    assert (NE : S <> []) by apply split_nonempty.
    assert (L := f_equal (@List.length string) (app_removelast_last "" NE)).
    rewrite app_length in L. simpl in L. lia.
Qed.

(** ** Segment-list level: guard, resolution, meta directories *)

Lemma has_reserved_app a b : has_reserved (a ++ b) = has_reserved a || has_reserved b.
Proof. apply existsb_app. Qed.

Lemma has_reserved_filter f l : has_reserved l = false -> has_reserved (filter f l) = false.
Proof.
  unfold has_reserved. induction l as [|x r IH]; simpl; auto.
  intros H. apply orb_false_iff in H as [H1 H2].
  destruct (f x); simpl; auto. now rewrite H1, IH.
Qed.

(** A path that passes [_guard_path], resolved against a user group, is a user path. *)
Lemma guard_resolve cwd p :
  is_internal_path p = false -> has_reserved cwd = false ->
  has_reserved (resolve cwd p) = false.
Proof.
  rewrite internal_iff_segment. intros Hp Hc. unfold resolve, norm_segs.
  destruct (is_abs p).
  - now apply has_reserved_filter.
  - rewrite has_reserved_app, Hc. now apply has_reserved_filter.
Qed.

Lemma meta_dir_reserved p d : has_reserved (meta_dir_of p d) = true.
Proof.
  unfold meta_dir_of, set_last. destruct d; rewrite has_reserved_app;
    apply orb_true_iff; right; reflexivity.
Qed.

Lemma meta_dir_last_meta p d : meta_seg (last_seg (meta_dir_of p d)) = true.
Proof. unfold meta_dir_of, set_last. destruct d; rewrite last_seg_app; reflexivity. Qed.

(** Well-formed node segments: non-empty and free of the separator. *)
Definition good_segs (p : list string) : Prop :=
  Forall (fun s => no_char slash s = true /\ s <> "") p.

Lemma segs_of_name_of p : good_segs p -> p <> [] -> segs_of (name_of p) = "" :: p.
Proof.
  intros G NE. destruct p as [|a r]; [congruence|]. unfold name_of, segs_of, path_of.
  apply split_join; [discriminate|]. constructor; auto.
  eapply Forall_impl; [|exact G]. now intros s [H _].
Qed.

Lemma name_of_cons l : l <> [] -> name_of l = path_of ("" :: l).
Proof. destruct l; [congruence|reflexivity]. Qed.

Lemma set_last_cons a l x : l <> [] -> set_last (a :: l) x = a :: set_last l x.
Proof. destruct l; [congruence|reflexivity]. Qed.

Lemma set_last_nonempty l x : set_last l x <> [].
Proof. unfold set_last. destruct (removelast l); discriminate. Qed.

(** [to_meta_base_path] on the h5py name of a node is the name of [meta_dir_of]. *)
Lemma meta_base_of_name p d :
  good_segs p -> (d = true -> p <> []) ->
  to_meta_base_path (name_of p) d = name_of (meta_dir_of p d).
Proof.
  intros G ND. destruct p as [|a r].
  - destruct d; [now specialize (ND eq_refl)|reflexivity].
  - unfold to_meta_base_path. rewrite segs_of_name_of by (auto; discriminate).
    assert (A : a <> "") by (inversion G; tauto).
    destruct d.
    + unfold meta_base_segs, meta_dir_of.
      rewrite set_last_cons by discriminate.
      rewrite name_of_cons by apply set_last_nonempty. reflexivity.
    + destruct (meta_base_segs_false ("" :: a :: r)) as [D|D].
      * rewrite D. unfold meta_dir_of.
        rewrite name_of_cons by (destruct r; discriminate). reflexivity.
      * inversion D. congruence.
Qed.
