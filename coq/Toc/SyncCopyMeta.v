(** * Copy WITH metadata keeps the container in sync (property C06, file part of the
    successful [c_copy] with [without_meta = false]: the [reuuid_region] fold).

    The fold is followed with a *pending-set invariant* [Pend]: the tree satisfies every
    structural condition of [SyncRaw], the TOC is exactly what the set [M] of already
    registered objects determines, and the copied objects that still wait for their fresh
    uuid ([X]) are exempt from uuid uniqueness and not counted in the TOC. *)
From Coq Require Import List String Ascii Bool Arith NArith Lia.
From MV Require Import Base.Sx Toc.Layout Toc.LayoutProofs Toc.UserView Toc.UserViewProofs
  Toc.Sync Toc.SyncProofs Toc.SyncMoveCopy.
Import ListNotations.
Local Open Scope string_scope.
Local Open Scope list_scope.
Local Arguments meta_dir_of : simpl never.
Local Arguments String.eqb : simpl never.

(** ** [toc_spec] depends on the attachment set only as a set (uuids being unique) *)

Lemma existsb_seteq {X} (f : X -> bool) (a b : list X) :
  (forall x, In x a <-> In x b) -> existsb f a = existsb f b.
Proof.
  intros H. apply Bool.eq_iff_eq_true. rewrite !existsb_exists.
  split; intros (x & I & F); exists x; split; auto; now apply H.
Qed.

Lemma nonempty_seteq {X Y} (a b : list X) (u v : Y) :
  (forall x, In x a <-> In x b) ->
  match a with [] => u | _ => v end = match b with [] => u | _ => v end.
Proof.
  intros H. destruct a as [|x a], b as [|y b]; auto.
  - destruct (proj2 (H y)); simpl; auto.
  - destruct (proj1 (H x)); simpl; auto.
Qed.

Lemma toc_spec_seteq E M M' p :
  (forall q, In q M <-> In q M') -> UidUniq M -> toc_spec E M p = toc_spec E M' p.
Proof.
  intros H U. unfold toc_spec. destruct (classify p); auto.
  - now apply nonempty_seteq.
  - unfold uses. now rewrite (existsb_seteq _ M M' H).
  - destruct (find _ M) as [q|] eqn:F1, (find _ M') as [q'|] eqn:F2; auto.
    + apply find_some in F1 as [I1 P1], F2 as [I2 P2].
      apply andb_prop in P1 as [_ P1], P2 as [_ P2]. apply String.eqb_eq in P1, P2.
      assert (q = q') by (apply U; auto; [now apply H|congruence]). now subst.
    + apply find_some in F1 as [I1 P1]. apply H in I1. apply (find_none _ _ F2) in I1. congruence.
    + apply find_some in F2 as [I2 P2]. apply H in I2. apply (find_none _ _ F1) in I2. congruence.
  - now apply nonempty_seteq.
  - unfold uses. now rewrite (existsb_seteq _ M M' H).
  - unfold uses. now rewrite (existsb_seteq _ M M' H).
  - unfold uses. now rewrite (existsb_seteq _ M M' H).
  - now apply nonempty_seteq.
  - now rewrite (existsb_seteq _ M M' H).
Qed.

(** ** The pending-set invariant *)

Definition chk_pend (E : env) (T : tree) (n : N) (p : path) (o : obj) : bool :=
  match p with [] => is_group (Some o) | _ => is_group (t_get T (parent p)) end &&
  match classify p with
  | PUser => true
  | PMetaDir d m => is_group (Some o) && owner_ok T d m && has_children T p
  | PMetaObj d m nm => is_data (Some o) && name_ok E n nm
  | _ => false
  end.

Record Pend (E : env) (pr : list (string * string)) (M : list path) (T : tree) (n : N)
       (X : list path) : Prop := mk_pend {
  pd_nodup : NoDup (map fst T);
  pd_root : is_group (t_get T []) = true;
  pd_ent : forall p o, t_get T p = Some o -> in_toc p = false -> chk_pend E T n p o = true;
  pd_M : forall q, In q M <-> In q (objs T) /\ ~ In q X;
  pd_X : forall q, In q X -> In q (objs T);
  pd_Xnd : NoDup X;
  pd_uniq : UidUniq M;
  pd_toc : TocOk E M T;
  pd_prov : ProvOk E pr (objs T)
}.

Lemma chk_entry_pend E T n p o : chk_entry E T n p o = true -> in_toc p = false -> chk_pend E T n p o = true.
Proof.
  unfold chk_entry, chk_pend. intros H I. apply andb_prop in H as [H1 H2]. rewrite H1. simpl.
  destruct (classify p); auto; try congruence.
  apply andb_prop in H2 as [H2 _]. exact H2.
Qed.

Section PendFacts.
  Variables (E : env) (pr : list (string * string)) (M : list path) (T : tree) (n : N)
            (X : list path).
  Hypothesis P : Pend E pr M T n X.

  Lemma pend_obj q :
    In q (objs T) ->
    exists d m nm o, q = d ++ [m; nm] /\ classify q = PMetaObj d m nm /\ has_reserved d = false /\
                     meta_seg m = true /\ reserved_seg nm = false /\ t_get T q = Some o /\
                     is_data (Some o) = true /\ name_ok E n nm = true /\
                     is_group (t_get T (d ++ [m])) = true.
  Proof.
    intros I. apply in_objs in I as [I1 I2]. unfold t_has in I1.
    destruct (t_get T q) as [o|] eqn:G; [|discriminate].
    pose proof (pd_ent _ _ _ _ _ _ P q o G (obj_not_toc q I2)) as C. unfold chk_pend in C.
    unfold is_obj_path in I2. destruct (classify q) eqn:K; try discriminate.
    pose proof K as K'. apply classify_obj_inv in K' as (Eq & Hd & Hm & Hn).
    exists d, m, name, o. apply andb_prop in C as [C1 C2]. apply andb_prop in C2 as [C2 C3].
    repeat split; auto. subst q. rewrite (match_nonempty (d ++ [m; name])) in C1.
    - now rewrite <- app_assoc1, parent_app1 in C1.
    - destruct d; discriminate.
  Qed.

  Lemma pend_obj_lt q : In q (objs T) -> uuid_lt (uid q) n = true.
  Proof.
    intros I. destruct (pend_obj q I) as (d & m & nm & o & -> & _ & _ & _ & _ & _ & _ & NK & _).
    unfold uid. rewrite last_seg_app2. unfold name_ok in NK. now apply andb_prop in NK as [_ NK].
  Qed.

  Lemma pend_parent p o : t_get T p = Some o -> in_toc p = false -> p <> [] ->
    is_group (t_get T (parent p)) = true.
  Proof.
    intros G I NE. pose proof (pd_ent _ _ _ _ _ _ P p o G I) as C. unfold chk_pend in C.
    apply andb_prop in C as [C _]. destruct p; [contradiction|exact C].
  Qed.

  Lemma pend_below q : q <> [] -> in_toc q = false -> forall r,
    r <> [] -> t_has T (q ++ r) = true -> is_group (t_get T q) = true.
  Proof.
    intros NEq Iq. induction r as [|x r IH] using rev_ind; intros NE H; [contradiction|].
    unfold t_has in H. destruct (t_get T (q ++ r ++ [x])) as [o|] eqn:G; [|discriminate].
    assert (NEp : q ++ r ++ [x] <> []) by (rewrite app_assoc; apply app1_nonempty).
    assert (Ip : in_toc (q ++ r ++ [x]) = false) by (rewrite in_toc_app; auto).
    pose proof (pend_parent _ o G Ip NEp) as PG.
    rewrite app_assoc, parent_app1 in PG.
    destruct r as [|y r'].
    - now rewrite app_nil_r in PG.
    - apply IH; [discriminate|]. unfold t_has.
      destruct (t_get T (q ++ y :: r')); [auto|discriminate].
  Qed.

  Lemma pend_M_lt q : In q M -> uuid_lt (uid q) n = true.
  Proof. intros I. apply (pd_M _ _ _ _ _ _ P) in I as [I _]. now apply pend_obj_lt. Qed.
End PendFacts.

(** All objects re-uuided: the invariant is [SyncRaw]. *)
Lemma pend_done E pr M T n : Pend E pr M T n [] -> SyncRaw E T n pr.
Proof.
  intros P.
  assert (HM : forall q, In q M <-> In q (objs T)).
  { intros q. rewrite (pd_M _ _ _ _ _ _ P q). simpl. tauto. }
  constructor.
  - apply (pd_nodup _ _ _ _ _ _ P).
  - apply (pd_root _ _ _ _ _ _ P).
  - intros p o G. destruct (in_toc p) eqn:I.
    + apply (toc_entries_ok E M); auto; [apply (pd_toc _ _ _ _ _ _ P)|apply (pd_root _ _ _ _ _ _ P)].
    + pose proof (pd_ent _ _ _ _ _ _ P p o G I) as C. unfold chk_pend in C. unfold chk_entry.
      apply andb_prop in C as [C1 C2]. rewrite C1. cbn [andb].
      destruct (classify p) eqn:K; auto; try discriminate. rewrite C2. cbn [andb].
      rewrite forallb_forall. intros q Iq.
      destruct (String.eqb (uid q) (uid p)) eqn:Eu; auto. simpl.
      apply String.eqb_eq in Eu. apply path_eqb_eq.
      apply (pd_uniq _ _ _ _ _ _ P); auto; apply HM; auto.
      apply in_objs. split; [unfold t_has; now rewrite G|unfold is_obj_path; now rewrite K].
  - intros p I. rewrite <- (toc_spec_seteq E M (objs T) p HM (pd_uniq _ _ _ _ _ _ P)).
    apply (pd_toc _ _ _ _ _ _ P p I).
  - apply (pd_prov _ _ _ _ _ _ P).
Qed.

(** ** One step of the fold *)

Definition reuuid1 (pr : list (string * string)) (Tn : tree * N) (op : path) : tree * N :=
  let '(T, n) := Tn in
  let s := obj_schema (last_seg op) in
  let u := uuid_of n in
  let newp := parent op ++ [obj_name s u] in
  let T1 := t_rename op newp T in
  let T2 := reg_schema T1 s (assoc pr s) in
  (add_link T2 s u newp, N.succ n).

Lemma reuuid_region_eq T n pr region :
  reuuid_region T n pr region = fold_left (reuuid1 pr) (meta_objs T region) (T, n).
Proof. reflexivity. Qed.

Section Step.
  Variables (E : env) (pr : list (string * string)) (M : list path) (T : tree) (n : N)
            (op : path) (X : list path).
  Hypothesis EO : env_ok E = true.
  Hypothesis P : Pend E pr M T n (op :: X).

  Let s := obj_schema (last_seg op).
  Let u := uuid_of n.
  Let newp := parent op ++ [obj_name s u].
  Let r (k : path) : path := if path_eqb k op then newp else k.
  Let T1 := tmap r T.

  Lemma st_op_in : In op (objs T).
  Proof. apply (pd_X _ _ _ _ _ _ P). simpl. auto. Qed.

  Lemma st_shape :
    exists d m nm oo, op = d ++ [m; nm] /\ has_reserved d = false /\ meta_seg m = true /\
      reserved_seg nm = false /\ t_get T op = Some oo /\ is_data (Some oo) = true /\
      name_ok E n nm = true /\ is_group (t_get T (d ++ [m])) = true /\
      s = obj_schema nm /\ newp = d ++ [m; obj_name s u] /\ parent op = d ++ [m].
  Proof.
    destruct (pend_obj E pr M T n _ P op st_op_in) as (d & m & nm & oo & Eq & K & Hd & Hm & Hn & G & D & NK & PG).
    exists d, m, nm, oo. repeat split; auto.
    - unfold s. now rewrite Eq, last_seg_app2.
    - unfold newp. now rewrite Eq, <- app_assoc1, parent_app1, app_assoc1.
    - now rewrite Eq, <- app_assoc1, parent_app1.
  Qed.

  Lemma st_schema :
    known E s = true /\ no_char eq_char s = true /\ reserved_seg (obj_name s u) = false /\
    sch newp = s /\ uid newp = u /\ sch op = s.
  Proof.
    destruct st_shape as (d & m & nm & oo & Eq & Hd & Hm & Hn & G & D & NK & PG & Es & En & Ep).
    unfold name_ok in NK. apply andb_prop in NK as [NK _]. apply andb_prop in NK as [_ NK].
    rewrite <- Es in NK. destruct (known_decl E s NK) as (dc & K1 & K2 & K3).
    destruct (env_ok_decl E dc EO K2) as (A1 & A2 & A3). rewrite K3 in A1, A2, A3.
    destruct (obj_name_parts s u A1 (uuid_of_no_eq n)) as [P1 P2].
    repeat split; auto.
    - now apply obj_name_not_reserved.
    - unfold sch. now rewrite En, last_seg_app2.
    - unfold uid. now rewrite En, last_seg_app2.
  Qed.

  Lemma st_fresh q : In q (objs T) -> uid q <> u.
  Proof.
    intros I Eu. pose proof (pend_obj_lt E pr M T n _ P q I) as L. rewrite Eu in L.
    unfold u in L. now rewrite uuid_lt_fresh in L.
  Qed.

  Lemma st_newp_obj : is_obj_path newp = true.
  Proof.
    destruct st_shape as (d & m & nm & oo & Eq & Hd & Hm & Hn & G & D & NK & PG & Es & En & Ep).
    destruct st_schema as (_ & _ & Rn & _). unfold is_obj_path. rewrite En.
    now rewrite (classify_obj d m _ Hd Hm Rn).
  Qed.

  Lemma st_newp_absent : t_has T newp = false.
  Proof.
    destruct (t_has T newp) eqn:H; auto. exfalso.
    apply (st_fresh newp); [apply in_objs; split; auto; apply st_newp_obj|].
    apply st_schema.
  Qed.

  Lemma st_op_ne : op <> [] /\ in_toc op = false.
  Proof.
    pose proof st_op_in as I. apply in_objs in I as [_ I]. split; [|now apply obj_not_toc].
    intros Z. rewrite Z in I. discriminate.
  Qed.

  Lemma st_nothing_below k : t_has T k = true -> is_prefix op k = true -> k = op.
  Proof.
    intros H Pk. destruct (list_eq_dec string_dec k op) as [|Nk]; auto. exfalso.
    rewrite (is_prefix_split op k Pk) in H, Nk.
    destruct (skipn _ k) as [|y l]; [now rewrite app_nil_r in Nk|].
    destruct st_op_ne as [NE I].
    assert (G : is_group (t_get T op) = true).
    { apply (pend_below E pr M T n _ P op NE I (y :: l)); auto. discriminate. }
    destruct st_shape as (d & m & nm & oo & Eq & Hd & Hm & Hn & Go & D & _).
    rewrite Go in G. destruct oo as [[|?] ?]; simpl in *; discriminate.
  Qed.

  Lemma st_rename : t_rename op newp T = T1.
  Proof.
    rewrite t_rename_tmap. apply tmap_ext_in. intros k I. unfold r.
    destruct (path_eqb k op) eqn:Z.
    - apply path_eqb_eq in Z. subst. apply rebase_self.
    - apply rebase_not. destruct (is_prefix op k) eqn:Pk; auto.
      apply in_keys_t_has in I. rewrite (st_nothing_below k I Pk), path_eqb_refl in Z. discriminate.
  Qed.

  Lemma r_op : r op = newp.
  Proof. unfold r. now rewrite path_eqb_refl. Qed.

  Lemma r_other k : k <> op -> r k = k.
  Proof.
    intros Nk. unfold r. destruct (path_eqb k op) eqn:Z; auto. apply path_eqb_eq in Z. contradiction.
  Qed.

  Lemma st_inj k1 k2 : t_has T k1 = true -> t_has T k2 = true -> r k1 = r k2 -> k1 = k2.
  Proof.
    intros H1 H2 Er. destruct (list_eq_dec string_dec k1 op) as [->|N1];
      destruct (list_eq_dec string_dec k2 op) as [->|N2]; auto.
    - rewrite r_op, (r_other k2 N2) in Er. rewrite <- Er, st_newp_absent in H2. discriminate.
    - rewrite r_op, (r_other k1 N1) in Er. rewrite Er, st_newp_absent in H1. discriminate.
    - now rewrite !r_other in Er.
  Qed.

  Lemma st_nodup1 : NoDup (map fst T1).
  Proof. apply rk_nodup; [apply (pd_nodup _ _ _ _ _ _ P)|apply st_inj]. Qed.

  Lemma st_get1 k o : t_get T k = Some o -> t_get T1 (r k) = Some o.
  Proof. apply rk_get; [apply (pd_nodup _ _ _ _ _ _ P)|apply st_inj]. Qed.

  Lemma st_inv1 p o : t_get T1 p = Some o -> exists k, p = r k /\ t_get T k = Some o.
  Proof. apply rk_inv. apply (pd_nodup _ _ _ _ _ _ P). Qed.

  Lemma st_keep1 k o : t_get T k = Some o -> k <> op -> t_get T1 k = Some o.
  Proof. intros G Nk. rewrite <- (r_other k Nk). now apply st_get1. Qed.

  Lemma st_newp_toc : in_toc newp = false.
  Proof. apply obj_not_toc, st_newp_obj. Qed.

  Lemma st_toc1 p : in_toc p = true -> t_get T1 p = t_get T p.
  Proof.
    intros I. destruct st_op_ne as [_ Io].
    assert (Np : p <> op) by (intros ->; congruence).
    destruct (t_get T p) as [o|] eqn:G; [now apply st_keep1|].
    destruct (t_get T1 p) as [o|] eqn:G1; auto. apply st_inv1 in G1 as (k & -> & G1).
    destruct (list_eq_dec string_dec k op) as [->|Nk].
    - rewrite r_op, st_newp_toc in I. discriminate.
    - rewrite r_other in G by auto. congruence.
  Qed.

  Lemma st_objs1 : objs T1 = map r (objs T).
  Proof.
    unfold objs, T1. rewrite keys_tmap. apply filter_map_in. intros x I.
    destruct (list_eq_dec string_dec x op) as [->|Nx]; [|now rewrite r_other].
    rewrite r_op, st_newp_obj. symmetry. pose proof st_op_in as J. now apply in_objs in J as [_ J].
  Qed.

  Lemma st_tocok1 : TocOk E M T1.
  Proof. intros p I. rewrite (st_toc1 p I). apply (pd_toc _ _ _ _ _ _ P p I). Qed.

  Lemma st_M_fresh q : In q M -> uid q <> uid newp.
  Proof.
    intros I. destruct st_schema as (_ & _ & _ & _ & -> & _).
    apply st_fresh. now apply (pd_M _ _ _ _ _ _ P) in I as [I _].
  Qed.

  Let L := regL s (pkg_of E s) ++ linkL s u newp.
  Let T' := puts L T1.

  Lemma st_result :
    add_link (reg_schema (t_rename op newp T) s (assoc pr s)) s u newp = T' /\
    TocOk E (M ++ [newp]) T'.
  Proof.
    destruct st_schema as (_ & _ & _ & Sn & Un & So).
    destruct (attach_toc E M T1 newp st_tocok1 st_M_fresh) as [EQ TO].
    rewrite Sn, Un in EQ, TO. split; auto.
    rewrite st_rename. rewrite <- So at 2. rewrite (pd_prov _ _ _ _ _ _ P op st_op_in), So. exact EQ.
  Qed.

  Lemma st_so : SameOutside T1 T'.
  Proof.
    apply so_puts. intros e I. unfold L in I. apply in_app_or in I as [I|I]; simpl in I;
      repeat (destruct I as [<-|I]; [reflexivity|]); destruct I.
  Qed.

  Lemma st_keep k o : t_get T k = Some o -> k <> op -> t_get T' k = Some o.
  Proof.
    intros G Nk. unfold T'. rewrite t_get_puts. now rewrite (st_keep1 k o G Nk).
  Qed.

  Lemma st_get_new oo : t_get T op = Some oo -> t_get T' newp = Some oo.
  Proof.
    intros G. destruct st_so as (SO1 & _). rewrite SO1 by apply st_newp_toc.
    rewrite <- r_op. now apply st_get1.
  Qed.

  Lemma st_group_keep k : is_group (t_get T k) = true -> is_group (t_get T' k) = true.
  Proof.
    intros G. destruct (t_get T k) as [o|] eqn:Gk; [|discriminate].
    rewrite (st_keep k o Gk); auto. intros ->.
    destruct st_shape as (d & m & nm & oo & Eq & Hd & Hm & Hn & Go & D & _).
    rewrite Go in Gk. inversion Gk; subst. destruct o as [[|?] ?]; simpl in *; discriminate.
  Qed.

  Lemma st_data_keep k : is_data (t_get T k) = true -> k <> op -> is_data (t_get T' k) = true.
  Proof.
    intros G U. destruct (t_get T k) as [o|] eqn:Gk; [|discriminate].
    now rewrite (st_keep k o Gk).
  Qed.

  Lemma pend_step : Pend E pr (M ++ [newp]) T' (N.succ n) X.
  Proof.
    destruct st_shape as (d & m & nm & oo & Eq & Hd & Hm & Hn & Go & D & NK & PG & Es & En & Ep).
    destruct st_schema as (Kn & A1 & Rn & Sn & Un & So).
    destruct st_so as (SO1 & SO2 & SO3). destruct st_result as [_ TO].
    destruct st_op_ne as [NEop Iop].
    assert (O' : objs T' = map r (objs T)) by (rewrite SO2; apply st_objs1).
    assert (NX : ~ In op X /\ NoDup X).
    { pose proof (pd_Xnd _ _ _ _ _ _ P) as ND. now inversion ND. }
    destruct NX as [NopX NDX].
    assert (XT : forall x, In x X -> In x (objs T) /\ x <> op /\ x <> newp).
    { intros x I. assert (J : In x (objs T)) by (apply (pd_X _ _ _ _ _ _ P); simpl; auto).
      repeat split; auto; intros ->; auto. apply in_objs in J as [J _].
      rewrite st_newp_absent in J. discriminate. }
    constructor.
    - apply SO3, st_nodup1.
    - apply st_group_keep, (pd_root _ _ _ _ _ _ P).
    - (* entries *)
      intros p o Gp Ip. rewrite SO1 in Gp by auto. apply st_inv1 in Gp as (k & -> & Gk).
      assert (Ik : in_toc k = false).
      { destruct (list_eq_dec string_dec k op) as [->|Nk]; auto. now rewrite r_other in Ip. }
      pose proof (pd_ent _ _ _ _ _ _ P k o Gk Ik) as C. unfold chk_pend in C.
      apply andb_prop in C as [C1 C2].
      destruct (list_eq_dec string_dec k op) as [->|Nk].
      + (* the renamed object *)
        rewrite r_op. rewrite Go in Gk. inversion Gk; subst o. unfold chk_pend.
        rewrite (match_nonempty newp) by (unfold newp; apply app1_nonempty).
        unfold newp at 1. rewrite parent_app1, Ep.
        rewrite (st_group_keep _ PG). cbn [andb].
        rewrite En, (classify_obj d m _ Hd Hm Rn), D. cbn [andb].
        apply name_ok_obj; auto. lia.
      + rewrite r_other by auto. unfold chk_pend. apply andb_true_intro. split.
        * destruct k; [now destruct o as [[|?] ?]|]. now apply st_group_keep.
        * destruct (classify k) eqn:K; auto; try discriminate.
          -- apply andb_prop in C2 as [C2 C4]. apply andb_prop in C2 as [C2 C3]. rewrite C2. cbn [andb].
             apply classify_dir_inv in K as (Ek & Hdd & Hmm).
             apply andb_true_intro. split.
             ++ unfold owner_ok in *. destruct (String.eqb _ "").
                ** now apply st_group_keep.
                ** apply st_data_keep; auto. intros Z. rewrite Eq, <- app_assoc1 in Z.
                   apply app_inj_tail in Z as [Z _]. rewrite Z, has_reserved_app in Hdd.
                   simpl in Hdd. rewrite (meta_seg_reserved m Hm), orb_true_r in Hdd. discriminate.
             ++ apply has_children_iff in C4 as (c & Cc & Pc). apply is_child_iff in Cc as (y & ->).
                apply has_children_iff.
                destruct (list_eq_dec string_dec (k ++ [y]) op) as [Ec|Nc].
                ** exists newp. split.
                   --- apply is_child_iff. exists (obj_name s u). unfold newp. rewrite <- Ec.
                       now rewrite parent_app1.
                   --- unfold t_has. now rewrite (st_get_new oo Go).
                ** exists (k ++ [y]). split; [apply is_child_iff; eauto|].
                   unfold t_has in *. destruct (t_get T (k ++ [y])) as [c|] eqn:Gc; [|discriminate].
                   now rewrite (st_keep _ c Gc Nc).
          -- apply andb_prop in C2 as [C2 C3]. rewrite C2. cbn [andb].
             apply (name_ok_mono E n); auto. lia.
    - (* M *)
      intros q. rewrite in_app_iff, O'. split.
      + intros [I|[<-|[]]].
        * apply (pd_M _ _ _ _ _ _ P) in I as [I NI]. split.
          -- apply in_map_iff. exists q. split; auto. apply r_other. intros ->. apply NI. simpl. auto.
          -- intros J. apply NI. simpl. auto.
        * split.
          -- apply in_map_iff. exists op. split; [apply r_op|apply st_op_in].
          -- intros J. now apply XT in J as (_ & _ & J).
      + intros [I NI]. apply in_map_iff in I as (k & <- & I).
        destruct (list_eq_dec string_dec k op) as [->|Nk]; [right; rewrite r_op; simpl; auto|].
        left. rewrite r_other in * by auto. apply (pd_M _ _ _ _ _ _ P). split; auto.
        intros [J|J]; auto.
    - intros x I. rewrite O'. apply XT in I as (I & Nx & _). apply in_map_iff. exists x.
      split; auto. now apply r_other.
    - exact NDX.
    - (* uniqueness *)
      intros q1 q2 I1 I2 Eu. apply in_app_or in I1, I2.
      destruct I1 as [I1|[<-|[]]], I2 as [I2|[<-|[]]]; auto.
      + now apply (pd_uniq _ _ _ _ _ _ P).
      + exfalso. now apply (st_M_fresh q1 I1).
      + exfalso. symmetry in Eu. now apply (st_M_fresh q2 I2).
    - exact TO.
    - intros q I. rewrite O' in I. apply in_map_iff in I as (k & <- & I).
      destruct (list_eq_dec string_dec k op) as [->|Nk].
      + rewrite r_op, Sn, <- So. apply (pd_prov _ _ _ _ _ _ P op I).
      + rewrite r_other by auto. apply (pd_prov _ _ _ _ _ _ P k I).
  Qed.

  Lemma pend_step_fold :
    Pend E pr (M ++ [newp]) (fst (reuuid1 pr (T, n) op)) (snd (reuuid1 pr (T, n) op)) X.
  Proof.
    cbn [reuuid1 fst snd]. fold s. fold u. fold newp. rewrite (proj1 st_result). exact pend_step.
  Qed.
End Step.

Lemma pend_fold E pr : env_ok E = true -> forall X M Tn,
  Pend E pr M (fst Tn) (snd Tn) X ->
  SyncRaw E (fst (fold_left (reuuid1 pr) X Tn)) (snd (fold_left (reuuid1 pr) X Tn)) pr.
Proof.
  intros EO. induction X as [|op X IH]; intros M [T n] P; cbn [fold_left].
  - now apply (pend_done E pr M).
  - apply (IH _ _ (pend_step_fold E pr M T n op X EO P)).
Qed.

(** ** The state before the fold: a tree plus a re-keyed copy of some of its entries *)

Section CopyBase.
  Variables (B : tree) (rho : path -> path) (S : tree).
  Hypothesis NDB : NoDup (map fst B).
  Hypothesis SUB : forall k o, In (k, o) S -> t_get B k = Some o.
  Hypothesis NDS : NoDup (map fst S).
  Hypothesis INJ : forall k1 k2, In k1 (map fst S) -> In k2 (map fst S) -> rho k1 = rho k2 -> k1 = k2.
  Hypothesis FREE : forall k, In k (map fst S) -> t_has B (rho k) = false.
  Let T0 := B ++ tmap rho S.

  Lemma cb_nodupS : NoDup (map fst (tmap rho S)).
  Proof. rewrite keys_tmap. apply NoDup_map_inj_in; auto. Qed.

  Lemma cb_nodup : NoDup (map fst T0).
  Proof.
    unfold T0. rewrite map_app. apply NoDup_app_intro; auto; [apply cb_nodupS|].
    intros x Ia Ib. rewrite keys_tmap in Ib. apply in_map_iff in Ib as (k & <- & Ik).
    apply in_keys_t_has in Ia. rewrite FREE in Ia; auto. discriminate.
  Qed.

  Lemma cb_old p o : t_get B p = Some o -> t_get T0 p = Some o.
  Proof. intros G. unfold T0. now rewrite t_get_app, G. Qed.

  Lemma cb_new k o : In (k, o) S -> t_get T0 (rho k) = Some o.
  Proof.
    intros I. unfold T0. rewrite t_get_app.
    assert (Ik : In k (map fst S)) by (apply in_map_iff; exists (k, o); auto).
    pose proof (FREE k Ik) as F. unfold t_has in F. destruct (t_get B (rho k)); [discriminate|].
    apply t_get_nodup_in; [apply cb_nodupS|]. unfold tmap. apply in_map_iff. exists (k, o). auto.
  Qed.

  Lemma cb_inv p o :
    t_get T0 p = Some o ->
    t_get B p = Some o \/ (t_get B p = None /\ exists k, p = rho k /\ In (k, o) S).
  Proof.
    unfold T0. rewrite t_get_app. destruct (t_get B p) as [x|] eqn:G; auto. intros G1. right.
    split; auto. apply t_get_in in G1. unfold tmap in G1. apply in_map_iff in G1 as ([k o'] & Ek & I).
    simpl in Ek. inversion Ek; subst. eauto.
  Qed.

  Lemma cb_has_old p : t_has B p = true -> t_has T0 p = true.
  Proof.
    unfold t_has. destruct (t_get B p) as [o|] eqn:G; [|discriminate]. now rewrite (cb_old p o G).
  Qed.
End CopyBase.

Record CopyOk (B : tree) (rho : path -> path) (S : tree) (region : path) : Prop := mk_copyok {
  co_sub : forall k o, In (k, o) S -> t_get B k = Some o;
  co_nds : NoDup (map fst S);
  co_inj : forall k1 k2, In k1 (map fst S) -> In k2 (map fst S) -> rho k1 = rho k2 -> k1 = k2;
  co_free : forall k, In k (map fst S) -> t_has B (rho k) = false;
  co_ntoc : forall k, In k (map fst S) -> in_toc k = false /\ in_toc (rho k) = false;
  co_par : forall k, In k (map fst S) ->
                     rho k <> [] /\ is_group (t_get (B ++ tmap rho S) (parent (rho k))) = true;
  co_user : forall k, In k (map fst S) -> has_reserved k = false -> has_reserved (rho k) = false;
  co_dir : forall k dd m, In k (map fst S) -> classify k = PMetaDir dd m ->
             exists dd' m', rho k = dd' ++ [m'] /\ has_reserved dd' = false /\ meta_seg m' = true /\
               owner_ok (B ++ tmap rho S) dd' m' = true /\
               forall y, t_has B (k ++ [y]) = true ->
                         In (k ++ [y]) (map fst S) /\ rho (k ++ [y]) = rho k ++ [y];
  co_obj : forall k, In k (map fst S) -> is_obj_path k = true ->
                     is_obj_path (rho k) = true /\ last_seg (rho k) = last_seg k;
  co_reg_new : forall k, In k (map fst S) -> is_prefix region (rho k) = true;
  co_reg_old : forall p, t_has B p = true -> is_prefix region p = false
}.

Lemma chk_pend_mono E T T' n p o :
  (forall p' x, t_get T p' = Some x -> t_get T' p' = Some x) ->
  chk_entry E T n p o = true -> in_toc p = false -> chk_pend E T' n p o = true.
Proof.
  intros Hm H I. apply chk_entry_pend in H; auto. unfold chk_pend in *.
  apply andb_prop in H as [H1 H2]. apply andb_true_intro. split.
  - destruct p; auto. now apply (is_group_mono T T').
  - destruct (classify p) eqn:C; auto.
    apply andb_prop in H2 as [H2 H4]. apply andb_prop in H2 as [H2 H3].
    rewrite H2. simpl. apply andb_true_intro. split.
    + unfold owner_ok in *. destruct (String.eqb _ ""); [now apply (is_group_mono T T')|
        now apply (is_data_mono T T')].
    + apply has_children_iff in H4 as (c & C1 & C2). apply has_children_iff. exists c.
      split; auto. now apply (t_has_mono T T').
Qed.

Section CopyPend.
  Variables (E : env) (B : tree) (n : N) (pr : list (string * string)) (rho : path -> path)
            (S : tree) (region : path).
  Hypothesis SB : SyncRaw E B n pr.
  Hypothesis CO : CopyOk B rho S region.
  Let T0 := B ++ tmap rho S.
  Let X := map rho (filter is_obj_path (map fst S)).

  Let NDB := sr_nodup _ _ _ _ SB.
  Let c_old := cb_old B rho S.
  Let c_new := cb_new B rho S (co_nds _ _ _ _ CO) (co_inj _ _ _ _ CO) (co_free _ _ _ _ CO).
  Let c_inv := cb_inv B rho S.

  Lemma cp_key k : In k (map fst S) -> exists o, In (k, o) S /\ t_get B k = Some o.
  Proof.
    intros I. apply in_map_iff in I as ([k' o] & <- & I). exists o. split; auto.
    now apply (co_sub _ _ _ _ CO).
  Qed.

  Lemma cp_shape k : In k (map fst S) ->
    match classify k with PUser | PMetaDir _ _ | PMetaObj _ _ _ => True | _ => False end.
  Proof.
    intros I. destruct (cp_key k I) as (o & _ & G).
    apply (sraw_shape E B n pr k o SB G). now apply (co_ntoc _ _ _ _ CO).
  Qed.

  Lemma cp_class k : In k (map fst S) ->
    is_obj_path (rho k) = is_obj_path k /\ is_meta_obj (rho k) = is_obj_path k.
  Proof.
    intros I. pose proof (cp_shape k I) as Sh. unfold is_obj_path at 2 3.
    destruct (classify k) eqn:K; try contradiction.
    - apply classify_user_inv in K. pose proof (co_user _ _ _ _ CO k I K) as U. split.
      + unfold is_obj_path. now rewrite (classify_user _ U).
      + unfold is_meta_obj. now rewrite (existsb_meta_user _ U).
    - destruct (co_dir _ _ _ _ CO k d m I K) as (dd' & m' & -> & Hd & Hm & _). split.
      + now apply dir_not_obj.
      + unfold is_meta_obj. now rewrite last_seg_app, Hm, andb_false_r.
    - assert (O : is_obj_path k = true) by (unfold is_obj_path; now rewrite K).
      destruct (co_obj _ _ _ _ CO k I O) as [O' _]. split; auto. now apply is_meta_obj_of_obj.
  Qed.

  Lemma cp_objs : objs T0 = objs B ++ X.
  Proof.
    unfold objs, T0, X. rewrite map_app, filter_app, keys_tmap. f_equal.
    apply filter_map_in. intros x I. now apply cp_class.
  Qed.

  Lemma cp_meta_objs : meta_objs T0 region = X.
  Proof.
    unfold meta_objs, T0, X. rewrite map_app, filter_app, keys_tmap.
    rewrite (filter_none _ (map fst B)).
    - cbn [app]. rewrite filter_map_gen. f_equal. apply filter_ext_in. intros k I.
      rewrite (co_reg_new _ _ _ _ CO k I). cbn [andb]. now apply cp_class.
    - intros p I. apply in_keys_t_has in I. now rewrite (co_reg_old _ _ _ _ CO p I).
  Qed.

  Lemma cp_X_in x : In x X <-> exists k, x = rho k /\ In k (map fst S) /\ is_obj_path k = true.
  Proof.
    unfold X. rewrite in_map_iff. split.
    - intros (k & <- & I). apply filter_In in I as [I O]. eauto.
    - intros (k & -> & I & O). exists k. split; auto. apply filter_In. auto.
  Qed.

  Lemma cp_X_new x : In x X -> t_has B x = false.
  Proof. intros I. apply cp_X_in in I as (k & -> & I & _). now apply (co_free _ _ _ _ CO). Qed.

  Lemma copy_pend : Pend E pr (objs B) T0 n X.
  Proof.
    constructor.
    - apply cb_nodup; auto; apply CO.
    - apply (is_group_mono B); [apply c_old|apply (sr_root _ _ _ _ SB)].
    - intros p o G Ip. apply c_inv in G as [G|(G0 & k & -> & I)].
      + apply (chk_pend_mono E B); auto. apply (sr_entries _ _ _ _ SB p o G).
      + assert (Ik : In k (map fst S)) by (apply in_map_iff; exists (k, o); auto).
        pose proof (co_sub _ _ _ _ CO k o I) as Gk.
        pose proof (sr_entries _ _ _ _ SB k o Gk) as C. unfold chk_entry in C.
        apply andb_prop in C as [_ C2].
        destruct (co_par _ _ _ _ CO k Ik) as [NE PG]. unfold chk_pend.
        rewrite (match_nonempty (rho k)) by auto. fold T0 in PG. rewrite PG. cbn [andb].
        pose proof (cp_shape k Ik) as Sh. destruct (classify k) eqn:K; try contradiction.
        * apply classify_user_inv in K. now rewrite (classify_user _ (co_user _ _ _ _ CO k Ik K)).
        * apply andb_prop in C2 as [C2 C4]. apply andb_prop in C2 as [C2 C3].
          destruct (co_dir _ _ _ _ CO k d m Ik K) as (dd' & m' & Er & Hd & Hm & Ow & Ch).
          rewrite Er, (classify_dir dd' m' Hd Hm), C2. fold T0 in Ow. rewrite Ow. cbn [andb].
          apply has_children_iff in C4 as (c & Cc & Pc). apply is_child_iff in Cc as (y & ->).
          destruct (Ch y Pc) as [Iy Ey]. destruct (cp_key _ Iy) as (oy & Iy' & _).
          apply has_children_iff. exists (rho (k ++ [y])). split.
          -- apply is_child_iff. exists y. now rewrite Ey, Er.
          -- unfold t_has, T0. now rewrite (c_new _ _ Iy').
        * apply andb_prop in C2 as [C2 _].
          assert (O : is_obj_path k = true) by (unfold is_obj_path; now rewrite K).
          destruct (co_obj _ _ _ _ CO k Ik O) as [O' Ls].
          unfold is_obj_path in O'. destruct (classify (rho k)) eqn:Kr; try discriminate.
          apply classify_obj_inv in Kr as (Er & _). apply classify_obj_inv in K as (Ek & _).
          assert (name0 = name) by (rewrite Er, Ek, !last_seg_app2 in Ls; exact Ls).
          subst name0. exact C2.
    - intros q. rewrite cp_objs, in_app_iff. split.
      + intros I. split; auto. intros J. apply cp_X_new in J. apply in_objs in I as [I _]. congruence.
      + intros [[I|I] NI]; auto. contradiction.
    - intros q I. rewrite cp_objs, in_app_iff. auto.
    - unfold X. apply NoDup_map_inj_in.
      + apply NoDup_filter, (co_nds _ _ _ _ CO).
      + intros a b Ia Ib. apply filter_In in Ia as [Ia _], Ib as [Ib _]. now apply (co_inj _ _ _ _ CO).
    - apply (sraw_uniq E B n pr SB).
    - intros p I. destruct (t_get T0 p) as [o|] eqn:G.
      + apply c_inv in G as [G|(G0 & k & -> & Ik)].
        * rewrite <- G. apply (sr_tocok _ _ _ _ SB p I).
        * assert (In k (map fst S)) by (apply in_map_iff; exists (k, o); auto).
          destruct (co_ntoc _ _ _ _ CO k H) as [_ Z]. congruence.
      + destruct (t_get B p) as [o|] eqn:G0; [unfold T0 in G; rewrite (c_old p o G0) in G; discriminate|].
        rewrite <- G0. apply (sr_tocok _ _ _ _ SB p I).
    - intros q I. rewrite cp_objs in I. apply in_app_or in I as [I|I]; [apply (sr_prov _ _ _ _ SB q I)|].
      apply cp_X_in in I as (k & -> & Ik & O).
      destruct (co_obj _ _ _ _ CO k Ik O) as [_ Ls]. unfold sch. rewrite Ls.
      apply (sr_prov _ _ _ _ SB k). apply in_objs. split; auto.
      destruct (cp_key k Ik) as (o & _ & G). unfold t_has. now rewrite G.
  Qed.
End CopyPend.

(** The fold over a copied region re-establishes the file invariant. *)
Lemma reuuid_sync E B n pr rho S region :
  env_ok E = true -> SyncRaw E B n pr -> CopyOk B rho S region ->
  SyncRaw E (fst (reuuid_region (B ++ tmap rho S) n pr region))
          (snd (reuuid_region (B ++ tmap rho S) n pr region)) pr.
Proof.
  intros EO SB CO. rewrite reuuid_region_eq, (cp_meta_objs E B n pr rho S region SB CO).
  apply (pend_fold E pr EO _ (objs B) (B ++ tmap rho S, n)).
  apply (copy_pend E B n pr rho S region SB CO).
Qed.

(** ** Copying everything below a path [c] to a free place [c']

    [T]: the tree the snapshot is taken from; [B]: the tree it is added to ([T] plus user
    nodes, viz. the intermediate groups of the destination, which may lie below [c]). *)

Section SubCopy.
  Variables (E : env) (T B : tree) (n : N) (pr : list (string * string)) (c c' : path).
  Hypothesis S : SyncRaw E T n pr.
  Hypothesis GB : Grow T B.
  Hypothesis NEc : c <> [].
  Hypothesis NEc' : c' <> [].
  Hypothesis Free : forall k, is_prefix c' k = true -> t_has B k = false.
  Hypothesis Gpd : is_group (t_get B (parent c')) = true.
  Let r := rebase c c'.
  Let S0 := t_sub c T.

  Lemma sc_in k o : In (k, o) S0 <-> t_get T k = Some o /\ is_prefix c k = true.
  Proof.
    unfold S0, t_sub. rewrite filter_In. simpl. split.
    - intros (I & P). split; auto. apply t_get_nodup_in; auto. apply (sr_nodup _ _ _ _ S).
    - intros (G & P). split; auto. now apply t_get_in.
  Qed.

  Lemma sc_key k : In k (map fst S0) <-> t_has T k = true /\ is_prefix c k = true.
  Proof.
    rewrite in_map_iff. split.
    - intros ([k' o] & <- & I). apply sc_in in I as [G P]. simpl. split; auto.
      unfold t_has. now rewrite G.
    - intros [H P]. unfold t_has in H. destruct (t_get T k) as [o|] eqn:G; [|discriminate].
      exists (k, o). split; auto. now apply sc_in.
  Qed.

  Lemma sc_sub k o : In (k, o) S0 -> t_get B k = Some o.
  Proof. intros I. apply sc_in in I as [G _]. now apply (gr_mono _ _ GB). Qed.

  Lemma sc_nds : NoDup (map fst S0).
  Proof.
    unfold S0, t_sub. rewrite (map_fst_filter (fun k => is_prefix c k)).
    apply NoDup_filter, (sr_nodup _ _ _ _ S).
  Qed.

  Lemma sc_inj k1 k2 : In k1 (map fst S0) -> In k2 (map fst S0) -> r k1 = r k2 -> k1 = k2.
  Proof.
    intros I1 I2. apply sc_key in I1 as [_ P1], I2 as [_ P2]. now apply rebase_inj_under.
  Qed.

  Lemma sc_free k : In k (map fst S0) -> t_has B (r k) = false.
  Proof. intros I. apply sc_key in I as [_ P]. apply Free. now apply rebase_prefix. Qed.

  Lemma sc_new k o : t_get T k = Some o -> is_prefix c k = true -> t_get (B ++ tmap r S0) (r k) = Some o.
  Proof.
    intros G P. apply (cb_new B r S0 sc_nds sc_inj sc_free). now apply sc_in.
  Qed.

  Lemma sc_par k : In k (map fst S0) ->
    r k <> [] /\ is_group (t_get (B ++ tmap r S0) (parent (r k))) = true.
  Proof.
    intros I. apply sc_key in I as [H P]. unfold t_has in H.
    destruct (t_get T k) as [o|] eqn:G; [|discriminate]. split.
    - unfold r. rewrite rebase_under by auto. destruct c'; [contradiction|discriminate].
    - destruct (list_eq_dec string_dec k c) as [->|Nk].
      + unfold r. rewrite rebase_self. apply (is_group_mono B); auto. apply cb_old.
      + assert (NEk : k <> []) by (intros ->; destruct c; [contradiction|discriminate]).
        pose proof (sraw_parent E T n pr k o S G NEk) as PG.
        destruct (t_get T (parent k)) as [g|] eqn:Gp; [|discriminate].
        unfold r. rewrite (parent_rebase c c' k P Nk). fold r.
        now rewrite (sc_new _ g Gp (parent_under c k P Nk)).
  Qed.

  (** a reserved path present in [B] is present in [T] *)
  Lemma sc_res_old p : has_reserved p = true -> t_has B p = true -> t_has T p = true.
  Proof.
    intros R H. unfold t_has in *. destruct (t_get B p) as [o|] eqn:G; [|discriminate].
    destruct (gr_new _ _ GB p o G) as [G0|(_ & U & _)]; [now rewrite G0|congruence].
  Qed.

  Lemma sc_reg_new k : In k (map fst S0) -> is_prefix c' (r k) = true.
  Proof. intros I. apply sc_key in I as [_ P]. now apply rebase_prefix. Qed.

  Lemma sc_reg_old p : t_has B p = true -> is_prefix c' p = false.
  Proof. intros H. destruct (is_prefix c' p) eqn:P; auto. rewrite Free in H; auto. Qed.
End SubCopy.

(** ** Copying a group with everything below it *)

Section CopyGroup.
  Variables (E : env) (T B : tree) (n : N) (pr : list (string * string)) (s d : path).
  Hypothesis S : SyncRaw E T n pr.
  Hypothesis SB : SyncRaw E B n pr.
  Hypothesis GB : Grow T B.
  Hypothesis Us : has_reserved s = false.
  Hypothesis Ud : has_reserved d = false.
  Hypothesis NEs : s <> [].
  Hypothesis NEd : d <> [].
  Hypothesis Free : forall k, is_prefix d k = true -> t_has B k = false.
  Hypothesis Gpd : is_group (t_get B (parent d)) = true.
  Let r := rebase s d.
  Let S0 := t_sub s T.

  Lemma cg_key k : In k (map fst S0) <-> t_has T k = true /\ is_prefix s k = true.
  Proof. apply (sc_key E T n pr s S). Qed.
  Lemma cg_new k o : t_get T k = Some o -> is_prefix s k = true -> t_get (B ++ tmap r S0) (r k) = Some o.
  Proof. apply (sc_new E T B n pr s d S Free). Qed.

  Lemma cg_user k : has_reserved k = false -> has_reserved (r k) = false.
  Proof.
    intros H. unfold r, rebase. destruct (is_prefix s k); auto.
    rewrite has_reserved_app, Ud. simpl. destruct (has_reserved (skipn _ k)) eqn:Z; auto.
    apply has_reserved_skipn in Z. congruence.
  Qed.

  Lemma copy_group_ok : CopyOk B r S0 d.
  Proof.
    constructor.
    - apply (sc_sub E T B n pr s S GB).
    - apply (sc_nds E T n pr s S).
    - apply (sc_inj E T n pr s d S).
    - apply (sc_free E T B n pr s d S Free).
    - intros k I. apply cg_key in I as [_ P]. split.
      + destruct (in_toc k) eqn:X; auto.
        now rewrite (user_not_under_toc s k Us NEs X) in P.
      + unfold r. rewrite rebase_under by auto. now apply user_head_not_toc.
    - apply (sc_par E T B n pr s d S NEs NEd Free Gpd).
    - intros k _. apply cg_user.
    - intros k dd m I K. apply cg_key in I as [H P].
      apply classify_dir_inv in K as (Ek & Hd & Hm).
      assert (Pd : is_prefix s dd = true).
      { apply (user_prefix_of_meta s dd m [] Us (meta_seg_reserved m Hm)). now rewrite <- Ek. }
      unfold t_has in H. destruct (t_get T k) as [o|] eqn:G; [|discriminate]. rewrite Ek in G.
      destruct (sraw_entry_dir E T n pr dd m o S Hd Hm G) as [Ow _].
      exists (r dd), m. subst k. unfold r. rewrite rebase_app by auto. fold r.
      split; auto. split; [now apply cg_user|]. split; auto. split.
      + unfold owner_ok in *. set (x0 := drop_str (String.length METADOR_META_PREF) m) in *.
        destruct (String.eqb x0 "").
        * destruct (t_get T dd) as [g|] eqn:Gd; [|discriminate]. now rewrite (cg_new dd g Gd Pd).
        * destruct (t_get T (dd ++ [x0])) as [g|] eqn:Gd; [|discriminate].
          unfold r. rewrite <- rebase_app by auto. fold r.
          now rewrite (cg_new _ g Gd (is_prefix_app_r s dd _ Pd)).
      + intros y Hy. split.
        * apply cg_key. split; [|apply is_prefix_app_r; now apply is_prefix_app_r].
          apply (sc_res_old T B GB); auto. rewrite !has_reserved_app. simpl.
          now rewrite (meta_seg_reserved m Hm), !orb_true_r.
        * unfold r. rewrite (rebase_app s d (dd ++ [m]) [y]) by (now apply is_prefix_app_r).
          now rewrite rebase_app.
    - intros k I Ok. apply cg_key in I as [H P].
      unfold is_obj_path in Ok. destruct (classify k) eqn:K; try discriminate.
      apply classify_obj_inv in K as (Ek & Hd & Hm & Hn).
      assert (Pd : is_prefix s d0 = true).
      { apply (user_prefix_of_meta s d0 m [name] Us (meta_seg_reserved m Hm)). now rewrite <- Ek. }
      subst k. unfold r. rewrite rebase_app by auto. split.
      + unfold is_obj_path. rewrite classify_obj; auto. now apply cg_user.
      + now rewrite !last_seg_app2.
    - apply (sc_reg_new E T n pr s d S).
    - apply (sc_reg_old B d Free).
  Qed.

  Lemma copy_group_meta_sync :
    env_ok E = true ->
    SyncRaw E (fst (reuuid_region (B ++ t_rename s d (t_sub s T)) n pr d))
            (snd (reuuid_region (B ++ t_rename s d (t_sub s T)) n pr d)) pr.
  Proof.
    intros EO. rewrite t_rename_tmap. apply (reuuid_sync E B n pr r S0 d EO SB copy_group_ok).
  Qed.
End CopyGroup.

(** ** Copying the sidecar directory of a dataset *)

Section CopySidecar.
  Variables (E : env) (T : tree) (n : N) (pr : list (string * string)) (s d : path).
  Hypothesis S : SyncRaw E T n pr.
  Hypothesis Us : has_reserved s = false.
  Hypothesis Ud : has_reserved d = false.
  Hypothesis NEs : s <> [].
  Hypothesis NEd : d <> [].
  Hypothesis Dd : is_data (t_get T d) = true.
  Let ms := meta_dir_of s true.
  Let md := meta_dir_of d true.
  Hypothesis Free : forall k, is_prefix md k = true -> t_has T k = false.
  Let r := rebase ms md.
  Let S0 := t_sub ms T.
  Let ps := parent s.
  Let pd := parent d.
  Let mms := (METADOR_META_PREF ++ last_seg s)%string.
  Let mmd := (METADOR_META_PREF ++ last_seg d)%string.

  Lemma cs_facts :
    ms = ps ++ [mms] /\ md = pd ++ [mmd] /\ d = pd ++ [last_seg d] /\
    has_reserved ps = false /\ has_reserved pd = false /\ meta_seg mms = true /\ meta_seg mmd = true /\
    has_reserved ms = true /\ in_toc ms = false /\ in_toc md = false /\ ms <> [] /\ md <> [] /\
    is_group (t_get T pd) = true.
  Proof.
    destruct (md_shape s d Us Ud NEs NEd) as (Hms & Hmd & _ & Ed & Ups & Upd).
    destruct (md_meta s d) as [Mms Mmd]. destruct (md_res s d Us Ud NEs NEd) as [Rms _].
    fold ms in Hms, Rms. fold md in Hmd. fold ps in Hms, Ups. fold pd in Hmd, Upd, Ed.
    fold mms in Hms, Mms. fold mmd in Hmd, Mmd.
    repeat split; auto.
    - rewrite Hms. now apply dir_not_toc.
    - rewrite Hmd. now apply dir_not_toc.
    - rewrite Hms. apply app1_nonempty.
    - rewrite Hmd. apply app1_nonempty.
    - destruct (t_get T d) as [o|] eqn:G; [|discriminate]. apply (sraw_parent E T n pr d o S G NEd).
  Qed.

  Lemma cs_key k : In k (map fst S0) <-> t_has T k = true /\ is_prefix ms k = true.
  Proof. apply (sc_key E T n pr ms S). Qed.

  Lemma copy_sidecar_ok : CopyOk T r S0 md.
  Proof.
    destruct cs_facts as (Hms & Hmd & Ed & Ups & Upd & Mms & Mmd & Rms & Ims & Imd & NEms & NEmd & Gpd).
    assert (Gpm : is_group (t_get T (parent md)) = true) by (rewrite Hmd, parent_app1; exact Gpd).
    constructor.
    - apply (sc_sub E T T n pr ms S (grow_refl T)).
    - apply (sc_nds E T n pr ms S).
    - apply (sc_inj E T n pr ms md S).
    - apply (sc_free E T T n pr ms md S Free).
    - intros k I. apply cs_key in I as [_ P]. split.
      + destruct (in_toc k) eqn:X; auto. now rewrite (not_under_nontoc ms k Ims NEms X) in P.
      + unfold r. rewrite rebase_under by auto. now rewrite in_toc_app.
    - apply (sc_par E T T n pr ms md S NEms NEmd Free Gpm).
    - intros k I U. apply cs_key in I as [_ P]. now rewrite (user_not_under ms k Rms U) in P.
    - intros k dd m I K. apply cs_key in I as [H P].
      apply classify_dir_inv in K as (Ek & Hd & Hm).
      assert (Ekm : k = ms) by (subst k; now apply (md_dir_under s d Us Ud NEs NEd)).
      exists pd, mmd. unfold r. rewrite Ekm, rebase_self. repeat split; auto.
      + unfold owner_ok, mmd. rewrite drop_str_app. destruct (String.eqb (last_seg d) "").
        * apply (is_group_mono T); auto. apply cb_old.
        * rewrite <- Ed. apply (is_data_mono T); auto. apply cb_old.
      + apply cs_key. split; [assumption|]. apply is_prefix_app.
      + rewrite rebase_app by apply is_prefix_refl. now rewrite rebase_self.
    - intros k I Ok. apply cs_key in I as [H P].
      destruct (md_obj_under s d Us Ud NEs NEd k Ok P) as (ny & ->). fold ms.
      unfold r. rewrite rebase_app, rebase_self by apply is_prefix_refl.
      pose proof (obj_last_not_reserved _ Ok) as Rn. rewrite last_seg_app in Rn.
      rewrite Hmd, app_assoc1, !last_seg_app, last_seg_app2. split; auto.
      unfold is_obj_path. now rewrite classify_obj.
    - apply (sc_reg_new E T n pr ms md S).
    - apply (sc_reg_old T md Free).
  Qed.

  Lemma copy_sidecar_meta_sync :
    env_ok E = true ->
    SyncRaw E (fst (reuuid_region (T ++ t_rename ms md (t_sub ms T)) n pr md))
            (snd (reuuid_region (T ++ t_rename ms md (t_sub ms T)) n pr md)) pr.
  Proof.
    intros EO. rewrite t_rename_tmap. apply (reuuid_sync E T n pr r S0 md EO S copy_sidecar_ok).
  Qed.
End CopySidecar.

(** ** [c_copy] with metadata *)

Lemma copy_raw_with_meta E st o s d :
  env_ok E = true ->
  SyncRaw E (raw st) (next_id st) (prov st) -> has_reserved s = false -> has_reserved d = false ->
  (s <> [] -> last_seg d <> "" \/ d = []) ->
  t_get (raw st) s = Some o ->
  SyncRaw E (raw (fst (c_copy st o s d false))) (next_id (fst (c_copy st o s d false)))
          (prov (fst (c_copy st o s d false))).
Proof.
  intros EO S Us Ud Ld Go. unfold c_copy. destruct (u_copy (raw st) s d) as [T1|] eqn:UC; [|exact S].
  destruct (copy_setup E st o s d T1 S Us Ud Go UC) as (T0 & S0 & NEs & NEd & G0 & Free & Gpd & -> & GR0).
  destruct (Ld NEs) as [Ld'|Ld']; [|contradiction]. clear Ld.
  unfold c_copy_fixups. destruct o as [[|v] at0]; cbn [okind].
  - (* group: also when the destination lies below the source *)
    pose proof (copy_group_meta_sync E (raw st) T0 _ _ s d S S0 GR0 Us Ud NEs NEd Free Gpd EO) as R.
    destruct (reuuid_region _ _ _ _) as [T3 n3]. exact R.
  - (* dataset *)
    assert (Ds : is_data (t_get (raw st) s) = true) by now rewrite Go.
    rewrite t_rename_tmap, (sub_data_usub E (raw st) _ _ s S Us Ds).
    set (T1 := T0 ++ tmap (rebase s d) (usub (raw st) s)).
    assert (S1 : SyncRaw E T1 (next_id st) (prov st)) by now apply (copy_user_raw E (raw st) T0).
    destruct (t_has T1 (meta_dir_of s true)) eqn:Hm; [|exact S1].
    assert (Dd : is_data (t_get T1 d) = true).
    { unfold T1. rewrite t_get_app. pose proof (Free d (is_prefix_refl d)) as Fd.
      unfold t_has in Fd. destruct (t_get T0 d); [discriminate|].
      rewrite <- (rebase_self s d) at 2.
      rewrite (cu_get E (raw st) _ _ s d S s (mkobj (KData v) at0)); auto.
      apply (cu_in E (raw st) _ _ s S). repeat split; auto using is_prefix_refl. }
    assert (FreeMd : forall k, is_prefix (meta_dir_of d true) k = true -> t_has T1 k = false).
    { intros k P. destruct (t_has T1 k) eqn:H; auto. exfalso. unfold t_has in H.
      destruct (t_get T1 k) as [x|] eqn:G; [|discriminate].
      pose proof (copy_user_grow E (raw st) T0 _ _ s d S Us Ud NEs NEd Free Gpd) as GR.
      destruct (gr_new _ _ GR k x G) as [Gk|(_ & U & _)].
      - pose proof (md_free E T0 _ _ s d S0 Us Ud NEs NEd Ld' Free k P) as F.
        unfold t_has in F. now rewrite Gk in F.
      - destruct (md_res s d Us Ud NEs NEd) as [_ Rmd].
        now rewrite (user_not_under _ k Rmd U) in P. }
    pose proof (copy_sidecar_meta_sync E T1 _ _ s d S1 Us Ud NEs NEd Dd FreeMd EO) as R.
    destruct (reuuid_region _ _ _ _) as [T3 n3]. exact R.
Qed.

Lemma copy_args_last st co o s d wm :
  copy_args st co = Some (o, s, d, wm) -> s <> [] -> last_seg d <> "" \/ d = [].
Proof.
  intros A NEs. destruct co; try discriminate; simpl in A.
  - destruct (guard cwd); [discriminate|]. destruct (enter (raw st) cwd) as [c|] eqn:En; [|discriminate].
    destruct (guard s0); [discriminate|]. destruct (t_get (raw st) (resolve c s0)); [|discriminate].
    destruct (guard d0); [discriminate|]. inversion A; subst.
    apply resolve_last_gen. eapply enter_last; eauto.
  - destruct (guard cwd); [discriminate|]. destruct (enter (raw st) cwd) as [c|] eqn:En; [|discriminate].
    destruct (guard dgrp); [discriminate|]. destruct (enter (raw st) dgrp) as [dg|] eqn:Eg; [|discriminate].
    destruct (guard s0); [discriminate|]. destruct (t_get (raw st) (resolve c s0)); [|discriminate].
    destruct (name_guard name); [discriminate|]. inversion A; subst.
    unfold into_dest. destruct name as [nm|].
    + unfold norm_segs. destruct (keep_last_nonempty (segs_of nm)) as [H|H].
      * left. rewrite last_seg_app_ne; auto. intros Z. rewrite Z in H. now apply H.
      * rewrite H, app_nil_r. eapply enter_last; eauto.
    + left. rewrite last_seg_app.
      destruct (resolve_last_gen c s0 (enter_last _ _ _ En)) as [H|H]; auto; contradiction.
Qed.

(** The file part of every copy, with or without metadata. *)
Lemma raw_step_copy_all E st co :
  env_ok E = true -> Sync E st ->
  match co with CCopy _ _ _ _ | CCopyInto _ _ _ _ _ => True | _ => False end ->
  RawStep E st co.
Proof.
  intros EO S Hc. pose proof (raw_of_sync E st S) as R.
  pose proof (copy_step_cases (cs st) co) as C.
  destruct (copy_args (cs st) co) as [[[[o s] d] wm]|] eqn:A.
  - destruct C as (Ec & Us & Ud & Go). unfold RawStep. rewrite Ec in *.
    destruct wm.
    + now apply copy_raw_without_meta.
    + apply copy_raw_with_meta; auto. now apply (copy_args_last (cs st) co o s d false).
  - destruct co; try contradiction; apply raw_step_same; auto.
Qed.

(** ** The step theorem and the history theorem, for ALL operations *)

Lemma sync_step_all E st o : env_ok E = true -> Sync E st -> Sync E (fst (s_step E st o)).
Proof.
  intros EO S. apply sync_step_general; auto. intros CM _.
  destruct o as [co| | |]; auto. apply raw_step_copy_all; auto.
  destruct co; try discriminate; exact I.
Qed.

Lemma sync_run_all E : forall ops st, env_ok E = true -> Sync E st -> Sync E (s_run E st ops).
Proof.
  induction ops as [|o ops IH]; intros st EO S; simpl; auto.
  apply IH; auto. now apply sync_step_all.
Qed.

Lemma sync_reachable E ops : env_ok E = true -> Sync E (s_run E init_ss ops).
Proof. intros EO. apply sync_run_all; auto. apply sync_init. Qed.

(** Witness: a history that copies WITH metadata (a dataset with sidecar, a group, into a
    group object), without any appeal to the checker. *)
Definition ops_copy_meta : list sop :=
  [SOp (CCreateGroup "/" "g"); SOp (CSetItem "/" "g/x" "1");
   SAttach "/g/x" "c06.bb__0.1.0" "0" true; SAttach "/g" "c06.aa__0.1.0" "1" true;
   SOp (CCopy "/" "g" "h" false); SOp (CCopy "/" "g/x" "z" false);
   SOp (CCopyInto "/" "g/x" "/h" (Some "xx") false); SOp (CCopyInto "/" "h" "/g" None false);
   SOp (CMove "/" "g" "k"); SOp (CDelete "/" "h"); SReopen false].

Lemma example_copy_meta :
  Sync E0 (s_run E0 init_ss ops_copy_meta) /\
  List.length (objs (raw (cs (s_run E0 init_ss ops_copy_meta)))) = 6 /\
  next_id (cs (s_run E0 init_ss ops_copy_meta)) = 9%N.
Proof. split; [apply sync_reachable; reflexivity|vm_compute; auto]. Qed.


(** Witness: copies of a group to places strictly BELOW the group itself ([copy g g/b/c] with
    metadata, [copy g g/h/k] without, copy into its own sub-group object): a snapshot of the
    source taken before the intermediate groups are created is grafted; every call succeeds. *)
Definition ops_self_copy : list sop :=
  [SOp (CCreateGroup "/" "g/h"); SOp (CSetItem "/" "g/x" "1");
   SAttach "/g/x" "c06.bb__0.1.0" "0" true; SAttach "/g" "c06.aa__0.1.0" "1" true;
   SAttach "/g/h" "c06.cc__0.1.0" "2" true;
   SOp (CCopy "/" "g" "g/b/c" false); SOp (CCopy "/" "g" "g/h/k" true);
   SOp (CCopyInto "/" "g/h" "/g/h" (Some "again") false); SReopen false].

Lemma example_self_copy :
  Sync E0 (s_run E0 init_ss ops_self_copy) /\
  t_has (raw (cs (s_run E0 init_ss ops_self_copy))) ["g"; "b"; "c"; "h"; "metador_meta_"] = true /\
  t_has (raw (cs (s_run E0 init_ss ops_self_copy))) ["g"; "b"; "c"; "b"] = false /\
  t_has (raw (cs (s_run E0 init_ss ops_self_copy))) ["g"; "h"; "again"; "metador_meta_"] = true /\
  t_has (raw (cs (s_run E0 init_ss ops_self_copy))) ["g"; "h"; "k"; "b"; "c"; "x"] = true /\
  t_has (raw (cs (s_run E0 init_ss ops_self_copy))) ["g"; "h"; "k"; "metador_meta_"] = false.
Proof. split; [apply sync_reachable; reflexivity|vm_compute; auto]. Qed.
