(** * Proofs about the schema / package bookkeeping model (property C20, container part). *)
From Coq Require Import List String Ascii Bool NArith Lia.
From MV Require Import Base.Sx Toc.Layout Toc.UserView Toc.SelfDesc.
Import ListNotations.
Local Open Scope string_scope.
Local Open Scope list_scope.

(** ** Well-formed environments (facts about the plugin system, premises of the theorems)

    - the package reported as provider of a schema lists that schema among its plugins
      ([PluginPkgMeta.for_package] collects the entry points of the distribution the
      entry point belongs to);
    - a schema listed by the provider of another schema has the same provider (every
      entry point belongs to one distribution);
    - a package (name, version) has one info object;
    - [parent_path] is a chain: it contains the schema itself, and the chain of every
      member *that objects can be stored under* is the prefix ending at that member
      ([PGSchema._compute_parent_path] continues from the class a parent reference
      resolves to, so for members that are not their own resolution the prefix can differ). *)
Record env_wf (E : env) : Prop := mk_env_wf {
  w_lists : forall r, kmem r (pk_plugins (e_provider E r)) = true;
  w_unique : forall r r', kmem r (pk_plugins (e_provider E r')) = true ->
                          e_provider E r = e_provider E r';
  w_id : forall r r', pk_id (e_provider E r) = pk_id (e_provider E r') ->
                      e_provider E r = e_provider E r';
  w_self : forall r, In r (e_parents E r);
  w_chain : forall r pre p post, e_parents E r = pre ++ p :: post -> e_ok E p = true ->
                                 e_parents E p = pre ++ [p] }.

Definition inuse (st : toc) (r : sref) : Prop := exists l, In l (links st) /\ l_schema l = r.

(** ** The invariant *)
Record Desc (E : env) (st : toc) : Prop := mk_desc {
  (* every attached object's schema has a record ... *)
  d_rec : forall l, In l (links st) -> khas (l_schema l) (schemas st) = true;
  (* ... holding the environment's JSON Schema and parent chain ... *)
  d_val : forall r rec, kget r (schemas st) = Some rec ->
                        rec = mksrec (e_json E r) (e_parents E r);
  (* ... records exist only for schemas in use ... *)
  d_only : forall r, khas r (schemas st) = true -> inuse st r;
  (* ... one record per schema ... *)
  d_sch_keys : NoDup (map fst (schemas st));
  (* ... its providing package is stored ... *)
  d_pkg : forall r, khas r (schemas st) = true ->
                    kget (pk_id (e_provider E r)) (pkgs st) = Some (e_provider E r);
  (* ... packages are stored only as providers of schemas in use *)
  d_pkg_only : forall p m, In (p, m) (pkgs st) ->
                           p = pk_id m /\ exists r, khas r (schemas st) = true /\ m = e_provider E r;
  d_pkg_keys : NoDup (map fst (pkgs st));
  (* in-memory tables *)
  d_used : forall p r, In r (kgetl p (used st)) <->
                       (khas r (schemas st) = true /\
                        exists m, kget p (pkgs st) = Some m /\ kmem r (pk_plugins m) = true);
  d_par : forall r, khas r (schemas st) = true -> kget r (parents st) = Some (e_parents E r);
  d_par_val : forall p l, kget p (parents st) = Some l -> e_ok E p = true -> l = e_parents E p;
  d_ok : forall l, In l (links st) -> e_ok E (l_schema l) = true;
  (* link identities *)
  d_uuid_lt : forall l, In l (links st) -> (l_uuid l < next st)%N;
  d_uuid_nodup : NoDup (map l_uuid (links st)) }.


(** ** Keys, sets, association lists *)
Lemma key_eqb_eq : forall a b, key_eqb a b = true <-> a = b.
Proof.
  intros [a1 a2] [b1 b2]; unfold key_eqb; simpl.
  rewrite andb_true_iff, !String.eqb_eq. split.
  - intros [-> ->]; reflexivity.
  - intros H; inversion H; auto.
Qed.

Lemma key_eqb_refl : forall a, key_eqb a a = true.
Proof. intros a; apply key_eqb_eq; reflexivity. Qed.

Lemma key_eqb_neq : forall a b, key_eqb a b = false <-> a <> b.
Proof.
  intros a b; split.
  - intros H e; apply key_eqb_eq in e; congruence.
  - intros H; destruct (key_eqb a b) eqn:e; auto. apply key_eqb_eq in e; contradiction.
Qed.

Lemma key_dec : forall a b : key, a = b \/ a <> b.
Proof.
  intros a b; destruct (key_eqb a b) eqn:e;
    [left; apply key_eqb_eq; auto | right; apply key_eqb_neq; auto].
Qed.

Ltac keq a b :=
  let e := fresh "e" in
  destruct (key_eqb a b) eqn:e;
  [apply key_eqb_eq in e | apply key_eqb_neq in e].

Lemma kmem_In : forall k l, kmem k l = true <-> In k l.
Proof.
  intros k l; unfold kmem; rewrite existsb_exists; split.
  - intros [x [H e]]; apply key_eqb_eq in e; subst; auto.
  - intros H; exists k; split; auto; apply key_eqb_refl.
Qed.

Lemma kmem_false : forall k l, kmem k l = false <-> ~ In k l.
Proof.
  intros k l; rewrite <- kmem_In; destruct (kmem k l); split; congruence.
Qed.

Lemma set_add_In : forall x k l, In x (set_add k l) <-> x = k \/ In x l.
Proof.
  intros x k l; unfold set_add; destruct (kmem k l) eqn:e.
  - apply kmem_In in e; split; auto. intros [-> | H]; auto.
  - rewrite in_app_iff; simpl; split; intros H; intuition.
Qed.

Lemma set_remove_In : forall x k l, In x (set_remove k l) <-> In x l /\ x <> k.
Proof.
  intros x k l; unfold set_remove; rewrite filter_In, negb_true_iff, key_eqb_neq; tauto.
Qed.

Section Assoc.
  Context {X : Type}.
  Implicit Types (m : list (key * X)) (k : key) (x : X).

  Lemma kget_app : forall k m1 m2,
    kget k (m1 ++ m2) = match kget k m1 with Some x => Some x | None => kget k m2 end.
  Proof.
    intros k m1 m2; induction m1 as [|[k' x] m1 IH]; simpl; auto.
    destruct (key_eqb k k'); auto.
  Qed.

  Lemma kdel_In : forall e k m, In e (kdel k m) <-> In e m /\ fst e <> k.
  Proof.
    intros e k m; unfold kdel; rewrite filter_In, negb_true_iff, key_eqb_neq; tauto.
  Qed.

  Lemma kget_kdel_eq : forall k m, kget k (kdel k m) = None.
  Proof.
    intros k m; induction m as [|[k' x] m IH]; simpl; auto.
    keq k' k; simpl; auto.
    keq k k'; auto. congruence.
  Qed.

  Lemma kget_kdel_neq : forall k k' m, k' <> k -> kget k' (kdel k m) = kget k' m.
  Proof.
    intros k k' m Hn; induction m as [|[k0 x] m IH]; simpl; auto.
    keq k0 k; simpl.
    - subst. keq k' k; auto. contradiction.
    - rewrite IH; auto.
  Qed.

  Lemma kget_kset_eq : forall k x m, kget k (kset k x m) = Some x.
  Proof.
    intros; unfold kset; rewrite kget_app, kget_kdel_eq; simpl.
    rewrite key_eqb_refl; auto.
  Qed.

  Lemma kget_kset_neq : forall k k' x m, k' <> k -> kget k' (kset k x m) = kget k' m.
  Proof.
    intros k k' x m Hn; unfold kset; rewrite kget_app, kget_kdel_neq by auto.
    destruct (kget k' m); auto. simpl.
    keq k' k; auto; contradiction.
  Qed.

  Lemma khas_kset : forall k k' x m,
    khas k' (kset k x m) = true <-> k' = k \/ khas k' m = true.
  Proof.
    intros k k' x m; unfold khas. destruct (key_dec k' k) as [->|Hn].
    - rewrite kget_kset_eq; tauto.
    - rewrite kget_kset_neq by auto. tauto.
  Qed.

  Lemma khas_kdel : forall k k' m,
    khas k' (kdel k m) = true <-> k' <> k /\ khas k' m = true.
  Proof.
    intros k k' m; unfold khas. destruct (key_dec k' k) as [->|Hn].
    - rewrite kget_kdel_eq; split; [congruence | tauto].
    - rewrite kget_kdel_neq by auto. tauto.
  Qed.

  Lemma kget_In : forall k x m, kget k m = Some x -> In (k, x) m.
  Proof.
    intros k x m; induction m as [|[k' y] m IH]; simpl; [congruence|].
    keq k k'; intros H.
    - left; congruence.
    - right; auto.
  Qed.

  Lemma In_kget : forall k x m, NoDup (map fst m) -> In (k, x) m -> kget k m = Some x.
  Proof.
    intros k x m; induction m as [|[k' y] m IH]; simpl; [tauto|].
    intros Hnd [H|H]; inversion Hnd; subst.
    - inversion H; subst. rewrite key_eqb_refl; auto.
    - keq k k'; [subst|auto]. exfalso; apply H2.
      apply in_map_iff; exists (k', x); auto.

  Qed.

  Lemma khas_In : forall k m, khas k m = true <-> exists x, In (k, x) m.
  Proof.
    intros k m; unfold khas; induction m as [|[k' y] m IH]; simpl.
    - split; [congruence | intros [x []]].
    - keq k k'.
      + subst; split; auto. intros _; exists y; auto.
      + rewrite IH; split; intros [x H]; exists x; auto.
        destruct H as [H|H]; auto. inversion H; subst; contradiction.
  Qed.

  Lemma kget_None : forall k m, kget k m = None -> forall x, ~ In (k, x) m.
  Proof.
    intros k m H x Hin.
    assert (khas k m = true) as Hh by (apply khas_In; eauto).
    unfold khas in Hh; rewrite H in Hh; congruence.
  Qed.

  Lemma kdel_id : forall k m, kget k m = None -> kdel k m = m.
  Proof.
    intros k m; induction m as [|[k' y] m IH]; simpl; auto.
    keq k k'; [congruence|]. intros H.
    keq k' k; [congruence|]. simpl. rewrite IH; auto.
  Qed.

  Lemma kset_In : forall p y k x m,
    In (p, y) (kset k x m) <-> (p = k /\ y = x) \/ (In (p, y) m /\ p <> k).
  Proof.
    intros; unfold kset; rewrite in_app_iff, kdel_In; simpl. split.
    - intros [H | [H | []]]; auto. inversion H; auto.
    - intros [[-> ->] | H]; auto.
  Qed.

  Lemma NoDup_kdel : forall k m, NoDup (map fst m) -> NoDup (map fst (kdel k m)).
  Proof.
    intros k m; induction m as [|[k' y] m IH]; simpl; auto.
    intros H; inversion H; subst.
    keq k' k; simpl; auto.
    constructor; auto.
    intros Hin; apply H2. apply in_map_iff in Hin; destruct Hin as [e0 [H0 H1]].
    apply kdel_In in H1. apply in_map_iff; exists e0; tauto.
  Qed.

  Lemma NoDup_snoc : forall (A : Type) (a : A) l, NoDup l -> ~ In a l -> NoDup (l ++ [a]).
  Proof.
    intros A a l; induction l as [|b l IH]; simpl; intros H Hn.
    - constructor; auto; constructor.
    - inversion H; subst. constructor.
      + rewrite in_app_iff; simpl; intuition.
      + apply IH; auto.
  Qed.

  Lemma NoDup_kset : forall k x m, NoDup (map fst m) -> NoDup (map fst (kset k x m)).
  Proof.
    intros k x m H; unfold kset; rewrite map_app; simpl.
    apply NoDup_snoc; [apply NoDup_kdel; auto|].
    intros Hin; apply in_map_iff in Hin; destruct Hin as [e0 [H0 H1]].
    apply kdel_In in H1; tauto.
  Qed.

  Lemma kmem_map_fst : forall k m, kmem k (map fst m) = khas k m.
  Proof.
    intros k m; unfold khas; induction m as [|[k' y] m IH]; simpl; auto.
    destruct (key_eqb k k'); simpl; auto.
  Qed.
End Assoc.

Lemma kgetl_kset_eq : forall k l U, kgetl k (kset k l U) = l.
Proof. intros; unfold kgetl; rewrite kget_kset_eq; auto. Qed.

Lemma kgetl_kset_neq : forall k k' l U, k' <> k -> kgetl k' (kset k l U) = kgetl k' U.
Proof. intros; unfold kgetl; rewrite kget_kset_neq; auto. Qed.

Lemma NoDup_map_inj : forall (A B : Type) (f : A -> B) l a b,
  NoDup (map f l) -> In a l -> In b l -> f a = f b -> a = b.
Proof.
  intros A B f l; induction l as [|c l IH]; simpl; [tauto|].
  intros a b H Ha Hb Hf; inversion H; subst.
  destruct Ha as [->|Ha]; destruct Hb as [->|Hb]; auto.
  - exfalso; apply H2; rewrite Hf; apply in_map; auto.
  - exfalso; apply H2; rewrite <- Hf; apply in_map; auto.
Qed.

Lemma NoDup_map_filter : forall (A B : Type) (f : A -> B) g l,
  NoDup (map f l) -> NoDup (map f (filter g l)).
Proof.
  intros A B f g l; induction l as [|c l IH]; simpl; auto.
  intros H; inversion H; subst. destruct (g c); simpl; auto.
  constructor; auto. intros Hin; apply H2.
  apply in_map_iff in Hin; destruct Hin as [x [H0 H1]].
  apply filter_In in H1. apply in_map_iff; exists x; tauto.
Qed.

Lemma NoDup_map_fst : forall (A B : Type) (l : list (A * B)), NoDup (map fst l) -> NoDup l.
Proof.
  intros A B l; induction l as [|c l IH]; simpl; intros H; [constructor|].
  inversion H; subst; constructor; auto.
  intros Hin; apply H2; apply in_map; auto.
Qed.

(** A filter that selects only copies of [e] from a duplicate-free list. *)
Lemma filter_single : forall (A : Type) (f : A -> bool) (e : A) l,
  NoDup l -> (forall x, In x l -> f x = true -> x = e) ->
  (filter f l = [] /\ (In e l -> f e = false)) \/ (filter f l = [e] /\ In e l /\ f e = true).
Proof.
  intros A f e l; induction l as [|a l IH]; simpl; intros Hnd Hall.
  - left; split; auto; tauto.
  - inversion Hnd; subst.
    destruct IH as [[IH1 IH2] | [IH1 [IH2 IH3]]]; auto.
    + destruct (f a) eqn:Hfa.
      * right. assert (a = e) by (apply Hall; auto). subst. rewrite IH1; auto.
      * left; split; auto. intros [->|H]; auto.
    + destruct (f a) eqn:Hfa.
      * assert (a = e) by (apply Hall; auto). subst. contradiction.
      * right; rewrite IH1; auto.
Qed.

(** ** The invariant by parts *)
Record CoreS (E : env) (S : list (sref * srec)) : Prop := mk_coreS {
  c_val : forall r rec, kget r S = Some rec -> rec = mksrec (e_json E r) (e_parents E r);
  c_sch_keys : NoDup (map fst S) }.

Record CorePar (E : env) (S : list (sref * srec)) (P : list (sref * list sref)) : Prop :=
  mk_corePar {
  c_par : forall r, khas r S = true -> kget r P = Some (e_parents E r);
  c_par_val : forall p l, kget p P = Some l -> e_ok E p = true -> l = e_parents E p }.

Record CoreK (E : env) (S : list (sref * srec)) (K : list (pkgid * pkgmeta))
             (U : list (pkgid * list sref)) : Prop := mk_coreK {
  c_pkg : forall r, khas r S = true ->
                    kget (pk_id (e_provider E r)) K = Some (e_provider E r);
  c_pkg_only : forall p m, In (p, m) K ->
                           p = pk_id m /\ exists r, khas r S = true /\ m = e_provider E r;
  c_pkg_keys : NoDup (map fst K);
  c_used : forall p r, In r (kgetl p U) <->
                       (khas r S = true /\
                        exists m, kget p K = Some m /\ kmem r (pk_plugins m) = true) }.

Record LinkOK (E : env) (ls : list lnk) (S : list (sref * srec)) (n : N) : Prop := mk_linkOK {
  k_ok : forall l, In l ls -> e_ok E (l_schema l) = true;
  k_rec : forall l, In l ls -> khas (l_schema l) S = true;
  k_only : forall r, khas r S = true -> exists l, In l ls /\ l_schema l = r;
  k_lt : forall l, In l ls -> (l_uuid l < n)%N;
  k_nodup : NoDup (map l_uuid ls) }.

Definition core (E : env) (st : toc) : Prop :=
  CoreS E (schemas st) /\ CorePar E (schemas st) (parents st) /\
  CoreK E (schemas st) (pkgs st) (used st).

Lemma desc_parts : forall E st,
  Desc E st <-> core E st /\ LinkOK E (links st) (schemas st) (next st).
Proof.
  intros E st; split.
  - intros H; destruct H. split; [split; [|split]|]; constructor; auto.
  - intros [[[? ?] [[? ?] [? ? ? ?]]] [? ? ? ? ?]]. constructor; auto.
Qed.

(** ** Stored packages and providers *)
Section Providers.
  Context (E : env) (WF : env_wf E).

  Lemma stored_lists : forall S K U p m r,
    CoreK E S K U -> In (p, m) K -> kmem r (pk_plugins m) = true ->
    m = e_provider E r /\ p = pk_id (e_provider E r).
  Proof.
    intros S K U p m r C Hin Hl.
    destruct (c_pkg_only _ _ _ _ C _ _ Hin) as [-> [r' [_ ->]]].
    rewrite (w_unique _ WF r r' Hl); auto.
  Qed.

  Lemma prov_cases : forall S K U r,
    CoreK E S K U ->
    (providers_of K r = [] /\ kget (pk_id (e_provider E r)) K = None) \/
    (providers_of K r = [(pk_id (e_provider E r), e_provider E r)] /\
     kget (pk_id (e_provider E r)) K = Some (e_provider E r)).
  Proof.
    intros S K U r C.
    destruct (filter_single _ (provides r) (pk_id (e_provider E r), e_provider E r) K)
      as [[H1 H2] | [H1 [H2 H3]]].
    - apply NoDup_map_fst, (c_pkg_keys _ _ _ _ C).
    - intros [p m] Hin Hp. unfold provides in Hp; simpl in Hp.
      destruct (stored_lists _ _ _ _ _ _ C Hin Hp) as [-> ->]; auto.
    - left; split; auto.
      destruct (kget (pk_id (e_provider E r)) K) as [m|] eqn:Hk; auto.
      exfalso. apply kget_In in Hk.
      destruct (c_pkg_only _ _ _ _ C _ _ Hk) as [Hid [r' [_ ->]]].
      rewrite <- (w_id _ WF _ _ Hid) in Hk.
      apply H2 in Hk. unfold provides in Hk; simpl in Hk.
      rewrite (w_lists _ WF) in Hk; congruence.
    - right; split; auto. apply In_kget; auto. apply (c_pkg_keys _ _ _ _ C).
  Qed.

  Lemma filter_nil : forall (A : Type) (f : A -> bool) l,
    filter f l = [] -> forall x, In x l -> f x = false.
  Proof.
    intros A f l H x Hin. destruct (f x) eqn:Hf; auto.
    assert (In x (filter f l)) as H0 by (apply filter_In; auto).
    rewrite H in H0; destruct H0.
  Qed.

  (** ** Parent chains *)
  Fixpoint upP (pre rest : list sref) (P : list (sref * list sref)) :=
    match rest with
    | [] => P
    | p :: rest' => upP (pre ++ [p]) rest' (if khas p P then P else kset p (pre ++ [p]) P)
    end.

  Lemma upc_add_fst : forall r rest pre pc,
    fst (upc_add r pre rest pc) = upP pre rest (fst pc).
  Proof.
    intros r rest; induction rest as [|p rest IH]; intros; simpl; auto.
    rewrite IH; reflexivity.
  Qed.

  Lemma upP_keep : forall rest pre P k l,
    kget k P = Some l -> kget k (upP pre rest P) = Some l.
  Proof.
    induction rest as [|p rest IH]; intros pre P k l H; simpl; auto.
    apply IH. destruct (khas p P) eqn:Hh; auto.
    keq k p.
    - subst. unfold khas in Hh; rewrite H in Hh; congruence.
    - rewrite kget_kset_neq; auto.
  Qed.

  Lemma upP_keep_has : forall rest pre P k,
    khas k P = true -> khas k (upP pre rest P) = true.
  Proof.
    intros rest pre P k; unfold khas.
    destruct (kget k P) as [l|] eqn:H; [|congruence].
    rewrite (upP_keep rest pre _ _ _ H); auto.
  Qed.

  Lemma upP_inv : forall rest pre P k l,
    kget k (upP pre rest P) = Some l ->
    kget k P = Some l \/
    exists pre' post, rest = pre' ++ k :: post /\ l = pre ++ pre' ++ [k].
  Proof.
    induction rest as [|p rest IH]; intros pre P k l H; simpl in H; auto.
    apply IH in H. destruct H as [H | [pre' [post [-> ->]]]].
    - destruct (khas p P) eqn:Hh; auto.
      keq k p.
      + subst. rewrite kget_kset_eq in H. inversion H; subst.
        right; exists [], rest; auto.
      + rewrite kget_kset_neq in H; auto.
    - right; exists (p :: pre'), post; split; auto.
      rewrite <- app_assoc; reflexivity.
  Qed.

  Lemma upP_has : forall rest pre P k, In k rest -> khas k (upP pre rest P) = true.
  Proof.
    induction rest as [|p rest IH]; intros pre P k H; simpl in *; [tauto|].
    destruct H as [->|H]; auto.
    apply upP_keep_has. destruct (khas k P) eqn:Hh; auto.
    unfold khas; rewrite kget_kset_eq; auto.
  Qed.

  Definition PV (P : list (sref * list sref)) : Prop :=
    forall k l, kget k P = Some l -> e_ok E k = true -> l = e_parents E k.

  Lemma upP_PV : forall r P, PV P -> PV (upP [] (e_parents E r) P).
  Proof.
    intros r P H k l Hk Hok.
    apply upP_inv in Hk. destruct Hk as [Hk | [pre' [post [H1 ->]]]]; auto.
    simpl. symmetry. eapply (w_chain _ WF); eauto.
  Qed.

  Lemma upc_del_keep : forall r S ps pc k,
    kmem k S = true -> kget k (fst (upc_del r S ps pc)) = kget k (fst pc).
  Proof.
    intros r S ps; induction ps as [|p ps IH]; intros pc k H; simpl; auto.
    rewrite IH; auto.
    destruct (kmem p S) eqn:Hp; simpl; auto.
    destruct (forallb _ _); simpl; auto.
    apply kget_kdel_neq. intros ->; congruence.
  Qed.

  Lemma upc_del_inv : forall r S ps pc k l,
    kget k (fst (upc_del r S ps pc)) = Some l -> kget k (fst pc) = Some l.
  Proof.
    intros r S ps; induction ps as [|p ps IH]; intros pc k l H; simpl in H; auto.
    apply IH in H.
    destruct (kmem p S) eqn:Hp; simpl in H; auto.
    destruct (forallb _ _); simpl in H; auto.
    keq k p.
    - subst; rewrite kget_kdel_eq in H; congruence.
    - rewrite kget_kdel_neq in H; auto.
  Qed.

  Lemma par_reg : forall S P C r rec,
    e_ok E r = true ->
    CorePar E S P ->
    CorePar E (kset r rec S) (fst (upc_add r [] (e_parents E r) (P, C))).
  Proof.
    intros S P C r rec Hok [Hp Hv]. rewrite upc_add_fst; simpl.
    assert (PV (upP [] (e_parents E r) P)) as Hpv by (apply upP_PV; exact Hv).
    constructor; auto.
    intros r' H. apply khas_kset in H. destruct H as [-> | H].
    - pose proof (upP_has (e_parents E r) [] P r (w_self _ WF r)) as Hh.
      unfold khas in Hh.
      destruct (kget r (upP [] (e_parents E r) P)) as [l|] eqn:Hk; [|congruence].
      f_equal; apply Hpv in Hk; auto.
    - apply upP_keep; auto.
  Qed.

  Lemma par_unreg : forall S P C r ps,
    CorePar E S P ->
    CorePar E (kdel r S) (fst (upc_del r (map fst (kdel r S)) ps (P, C))).
  Proof.
    intros S P C r ps [Hp Hv]. constructor.
    - intros r' H. rewrite upc_del_keep by (rewrite kmem_map_fst; auto).
      simpl. apply Hp. apply khas_kdel in H; tauto.
    - intros p l H. apply upc_del_inv in H; simpl in H; eauto.
  Qed.

  Lemma coreS_reg : forall S r,
    CoreS E S -> CoreS E (kset r (mksrec (e_json E r) (e_parents E r)) S).
  Proof.
    intros S r [Hv Hn]; constructor.
    - intros r' rec H. keq r' r.
      + subst; rewrite kget_kset_eq in H; congruence.
      + rewrite kget_kset_neq in H; auto.
    - apply NoDup_kset; auto.
  Qed.

  Lemma coreS_unreg : forall S r, CoreS E S -> CoreS E (kdel r S).
  Proof.
    intros S r [Hv Hn]; constructor.
    - intros r' rec H. keq r' r.
      + subst; rewrite kget_kdel_eq in H; congruence.
      + rewrite kget_kdel_neq in H; auto.
    - apply NoDup_kdel; auto.
  Qed.
End Providers.

(** ** Registering and unregistering a schema *)
Section Reg.
  Context (E : env) (WF : env_wf E).

  Lemma coreK_reg : forall S K U r rec K1 U1,
    CoreK E S K U ->
    kget (pk_id (e_provider E r)) K1 = Some (e_provider E r) ->
    (forall k, k <> pk_id (e_provider E r) -> kget k K1 = kget k K) ->
    (forall m, kget (pk_id (e_provider E r)) K = Some m -> m = e_provider E r) ->
    (forall p m, In (p, m) K1 ->
                 (p = pk_id (e_provider E r) /\ m = e_provider E r) \/ In (p, m) K) ->
    NoDup (map fst K1) ->
    (forall k x, In x (kgetl k U1) <-> In x (kgetl k U)) ->
    CoreK E (kset r rec S) K1
          (kset (pk_id (e_provider E r))
                (set_add r (kgetl (pk_id (e_provider E r)) U1)) U1).
  Proof.
    intros S K U r rec K1 U1 C Ha Hb Hc Hd He Hu.
    set (id := pk_id (e_provider E r)) in *.
    set (info := e_provider E r) in *.
    constructor.
    - intros r' H. apply khas_kset in H. destruct H as [-> | H]; auto.
      pose proof (c_pkg _ _ _ _ C _ H) as Hk.
      destruct (key_dec (pk_id (e_provider E r')) id) as [Hi | Hi].
      + rewrite Hi. rewrite (w_id _ WF _ _ Hi). exact Ha.
      + rewrite Hb; auto.
    - intros p m Hin. apply Hd in Hin. destruct Hin as [[-> ->] | Hin].
      + split; auto. exists r; split; auto. apply khas_kset; auto.
      + destruct (c_pkg_only _ _ _ _ C _ _ Hin) as [Hp [r0 [H0 H1]]].
        split; auto. exists r0; split; auto. apply khas_kset; auto.
    - exact He.
    - intros p x. rewrite khas_kset.
      destruct (key_dec p id) as [-> | Hp].
      + rewrite kgetl_kset_eq, set_add_In, Hu, (c_used _ _ _ _ C), Ha. split.
        * intros [-> | [Hx [m [Hm Hl]]]].
          -- split; auto. exists info; split; auto. apply (w_lists _ WF).
          -- split; auto. exists info; split; auto. apply Hc in Hm; subst; auto.
        * intros [[-> | Hx] [m [Hm Hl]]]; auto.
          right; split; auto. inversion Hm; subst m.
          exists info; split; auto.
          pose proof (c_pkg _ _ _ _ C _ Hx) as Hk.
          rewrite (w_unique _ WF x r Hl) in Hk. exact Hk.
      + rewrite kgetl_kset_neq by auto. rewrite Hu, (c_used _ _ _ _ C), Hb by auto. split.
        * intros [Hx Hm]; auto.
        * intros [[-> | Hx] [m [Hm Hl]]]; [|eauto].
          exfalso. apply kget_In in Hm.
          destruct (stored_lists E WF _ _ _ _ _ _ C Hm Hl) as [_ Hq]. contradiction.
  Qed.

  Lemma coreK_unreg_none : forall S K U r,
    CoreK E S K U -> providers_of K r = [] -> CoreK E (kdel r S) K U.
  Proof.
    intros S K U r C Hp.
    assert (forall p m, In (p, m) K -> kmem r (pk_plugins m) = false) as Hno.
    { intros p m Hin. apply (filter_nil _ _ _ Hp) in Hin. exact Hin. }
    constructor.
    - intros r' H. apply khas_kdel in H. apply (c_pkg _ _ _ _ C); tauto.
    - intros p m Hin. destruct (c_pkg_only _ _ _ _ C _ _ Hin) as [Hq [r0 [H0 H1]]].
      split; auto. exists r0; split; auto. apply khas_kdel; split; auto.
      intros ->. apply Hno in Hin. subst m. rewrite (w_lists _ WF) in Hin; congruence.
    - apply (c_pkg_keys _ _ _ _ C).
    - intros p x. rewrite (c_used _ _ _ _ C), khas_kdel. split.
      + intros [Hx [m [Hm Hl]]]. split; eauto. split; auto.
        intros ->. apply kget_In, Hno in Hm. congruence.
      + intros [[_ Hx] Hm]; auto.
  Qed.

  Lemma coreK_unreg_some : forall S K U r K' u,
    CoreK E S K U ->
    kget (pk_id (e_provider E r)) K = Some (e_provider E r) ->
    (forall x, In x u <-> In x (kgetl (pk_id (e_provider E r)) U) /\ x <> r) ->
    ((forall x, ~ In x u) /\ K' = kdel (pk_id (e_provider E r)) K) \/
    ((exists x, In x u) /\ K' = K) ->
    CoreK E (kdel r S) K' (kset (pk_id (e_provider E r)) u U).
  Proof.
    intros S K U r K' u C Hk Hu Hcase.
    set (id := pk_id (e_provider E r)) in *.
    set (info := e_provider E r) in *.
    assert (forall k, k <> id -> kget k K' = kget k K) as Hneq.
    { intros k Hn. destruct Hcase as [[_ ->] | [_ ->]]; auto. apply kget_kdel_neq; auto. }
    assert (forall p m, In (p, m) K' -> In (p, m) K) as Hsub.
    { intros p m Hin. destruct Hcase as [[_ ->] | [_ ->]]; auto. apply kdel_In in Hin; tauto. }
    constructor.
    - intros r' H. apply khas_kdel in H. destruct H as [Hn H].
      pose proof (c_pkg _ _ _ _ C _ H) as Hk'.
      destruct (key_dec (pk_id (e_provider E r')) id) as [Hi | Hi].
      + destruct Hcase as [[Hemp ->] | [_ ->]]; auto.
        exfalso. apply (Hemp r'). apply Hu. split; auto.
        apply (c_used _ _ _ _ C). split; auto.
        exists info; split; auto.
        unfold info. rewrite <- (w_id _ WF _ _ Hi). apply (w_lists _ WF).
      + rewrite Hneq; auto.
    - intros p m Hin. pose proof (Hsub _ _ Hin) as Hin0.
      destruct (c_pkg_only _ _ _ _ C _ _ Hin0) as [Hq [r0 [H0 H1]]].
      split; auto.
      destruct (key_dec r0 r) as [-> | Hn].
      + destruct Hcase as [[Hemp ->] | [[x Hx] ->]].
        * apply kdel_In in Hin. simpl in Hin. subst m. tauto.
        * apply Hu in Hx. destruct Hx as [Hx Hxr].
          apply (c_used _ _ _ _ C) in Hx. destruct Hx as [Hxs [m' [Hm' Hl]]].
          rewrite Hk in Hm'. inversion Hm'; subst m'.
          exists x; split; [apply khas_kdel; auto|].
          subst m. symmetry. apply (w_unique _ WF); auto.
      + exists r0; split; auto. apply khas_kdel; auto.
    - destruct Hcase as [[_ ->] | [_ ->]]; [apply NoDup_kdel|]; apply (c_pkg_keys _ _ _ _ C).
    - intros p x. rewrite khas_kdel.
      destruct (key_dec p id) as [-> | Hp].
      + rewrite kgetl_kset_eq, Hu, (c_used _ _ _ _ C).
        destruct Hcase as [[Hemp ->] | [_ ->]].
        * rewrite kget_kdel_eq. split.
          -- intros [Hx Hxr]. exfalso. apply (Hemp x). apply Hu. split; auto.
             apply (c_used _ _ _ _ C); auto.
          -- intros [_ [m [Hm _]]]; congruence.
        * tauto.
      + rewrite kgetl_kset_neq by auto. rewrite (c_used _ _ _ _ C), Hneq by auto. split.
        * intros [Hx [m [Hm Hl]]]. split; eauto. split; auto.
          intros ->. apply kget_In in Hm.
          destruct (stored_lists E WF _ _ _ _ _ _ C Hm Hl) as [_ Hq]. contradiction.
        * intros [[_ Hx] Hm]; auto.
  Qed.

  Lemma coreK_unreg : forall S K U r,
    CoreK E S K U ->
    CoreK E (kdel r S) (fst (fold_left (drop_use r) (providers_of K r) (K, U)))
                       (snd (fold_left (drop_use r) (providers_of K r) (K, U))).
  Proof.
    intros S K U r C.
    destruct (prov_cases E WF _ _ _ r C) as [[Hp Hk] | [Hp Hk]]; rewrite Hp; simpl.
    - apply coreK_unreg_none; auto.
    - unfold drop_use; simpl.
      destruct (set_remove r (kgetl (pk_id (e_provider E r)) U)) as [|y u] eqn:Hu; simpl.
      + apply coreK_unreg_some with (K := K); [exact C | exact Hk | | ].
        * intros x. rewrite <- set_remove_In, Hu. tauto.
        * left; split; auto.
      + apply coreK_unreg_some with (K := K); [exact C | exact Hk | | ].
        * intros x. rewrite <- set_remove_In, Hu. tauto.
        * right; split; auto. exists y; simpl; auto.
  Qed.

  Lemma unreg_schema_core : forall st r, core E st -> core E (unreg_schema st r).
  Proof.
    intros st r [HS [HP HK]]. unfold core, unreg_schema; simpl.
    split; [|split].
    - apply coreS_unreg; auto.
    - apply par_unreg; auto.
    - apply coreK_unreg; auto.
  Qed.

  Lemma providers_kset_new : forall (K : list (pkgid * pkgmeta)) k m r,
    kget k K = None ->
    providers_of (kset k m K) r
    = providers_of K r ++ (if kmem r (pk_plugins m) then [(k, m)] else []).
  Proof.
    intros K k m r H. unfold providers_of, kset. rewrite kdel_id by auto.
    rewrite filter_app. reflexivity.
  Qed.

  Lemma reg_schema_ok : forall st r,
    e_ok E r = true ->
    core E st ->
    exists st1, reg_schema E st r = Some st1 /\ links st1 = links st /\ next st1 = next st /\
                core E st1 /\
                (forall r', khas r' (schemas st1) = true <-> r' = r \/ khas r' (schemas st) = true).
  Proof.
    intros st r Hok [HS [HP HK]]. unfold reg_schema.
    destruct (khas r (schemas st)) eqn:Hh.
    { exists st. split; auto. split; auto. split; auto. split; [unfold core; auto|].
      intros r'; split; auto. intros [-> | H]; auto. }
    cbv zeta.
    destruct (prov_cases E WF _ _ _ r HK) as [[Hp Hk] | [Hp Hk]]; rewrite Hp.
    - unfold khas at 1. rewrite Hk.
      assert (providers_of (kset (pk_id (e_provider E r)) (e_provider E r) (pkgs st)) r
              = [(pk_id (e_provider E r), e_provider E r)]) as Hp1.
      { rewrite providers_kset_new by auto. rewrite Hp, (w_lists _ WF). reflexivity. }
      rewrite Hp1. eexists; split; [reflexivity|]. simpl.
      split; auto. split; auto. split.
      + split; [|split]; simpl.
        * apply coreS_reg; auto.
        * apply par_reg; auto.
        * apply coreK_reg with (K := pkgs st) (U := used st); auto.
          -- apply kget_kset_eq.
          -- intros; apply kget_kset_neq; auto.
          -- intros m Hm; congruence.
          -- intros p m Hin. apply kset_In in Hin. tauto.
          -- apply NoDup_kset, (c_pkg_keys _ _ _ _ HK).
          -- intros k x. destruct (key_dec k (pk_id (e_provider E r))) as [-> | Hn].
             ++ rewrite kgetl_kset_eq. split; [intros []|].
                intros Hx. apply (c_used _ _ _ _ HK) in Hx.
                destruct Hx as [_ [m [Hm _]]]; congruence.
             ++ rewrite kgetl_kset_neq by auto. tauto.
      + intros r'. apply khas_kset.
    - cbv beta iota. rewrite Hp. eexists; split; [reflexivity|]. simpl.
      split; auto. split; auto. split.
      + split; [|split]; simpl.
        * apply coreS_reg; auto.
        * apply par_reg; auto.
        * apply coreK_reg with (K := pkgs st) (U := used st); auto.
          -- intros m Hm; congruence.
          -- apply (c_pkg_keys _ _ _ _ HK).
          -- tauto.
      + intros r'. apply khas_kset.
  Qed.
End Reg.

(** ** Links: register / unregister, and the container operations *)
Section Steps.
  Context (E : env) (WF : env_wf E).

  Lemma register_ok : forall st r node,
    e_ok E r = true -> Desc E st ->
    exists st', register E st r node = Some st' /\ Desc E st'.
  Proof.
    intros st r node Hok H. apply desc_parts in H. destruct H as [Hc Hl].
    destruct (reg_schema_ok E WF st r Hok Hc) as [st1 [H1 [H2 [H3 [H4 H5]]]]].
    unfold register; rewrite H1. eexists; split; [reflexivity|].
    apply desc_parts; simpl. split; [exact H4|].
    rewrite H2, H3. destruct Hl as [Lok Lrec Lonly Llt Lnd]. constructor.
    - intros l Hin; apply in_app_iff in Hin; destruct Hin as [Hin | [<- | []]]; simpl; auto.
    - intros l Hin; apply H5. apply in_app_iff in Hin; destruct Hin as [Hin | [<- | []]]; simpl; auto.
    - intros r' H; apply H5 in H; destruct H as [-> | H].
      + eexists; split; [apply in_app_iff; right; left; reflexivity | reflexivity].
      + destruct (Lonly _ H) as [l [Hl1 Hl2]]; exists l; split; auto; apply in_app_iff; auto.
    - intros l Hin; apply in_app_iff in Hin; destruct Hin as [Hin | [<- | []]]; simpl.
      + apply Llt in Hin; lia.
      + lia.
    - rewrite map_app; simpl. apply NoDup_snoc; auto.
      intros Hin; apply in_map_iff in Hin; destruct Hin as [l [Hl1 Hl2]].
      apply Llt in Hl2; lia.
  Qed.

  Lemma unregister_ok : forall st u, Desc E st -> Desc E (unregister st u).
  Proof.
    intros st u H. unfold unregister.
    destruct (find (fun l => N.eqb (l_uuid l) u) (links st)) as [l|] eqn:Hf; auto.
    apply find_some in Hf. destruct Hf as [Hin Hu]. apply N.eqb_eq in Hu.
    apply desc_parts in H. destruct H as [Hc Hl]. destruct Hl as [Lok Lrec Lonly Llt Lnd].
    set (ls := filter (fun l' => negb (N.eqb (l_uuid l') u)) (links st)).
    assert (forall l', In l' ls -> In l' (links st)) as Hsub.
    { intros l' H; apply filter_In in H; tauto. }
    assert (forall l', In l' (links st) -> l_schema l' <> l_schema l -> In l' ls) as Hls.
    { intros l' H Hn; apply filter_In; split; auto.
      apply negb_true_iff, N.eqb_neq. intros He. apply Hn. f_equal.
      apply (NoDup_map_inj _ _ l_uuid (links st)); auto. congruence. }
    destruct (existsb (fun l' => key_eqb (l_schema l') (l_schema l)) ls) eqn:Hex.
    - apply existsb_exists in Hex. destruct Hex as [l' [Hl'1 Hl'2]]. apply key_eqb_eq in Hl'2.
      apply desc_parts; simpl. split; [exact Hc|]. constructor; auto.
      + intros r' H. destruct (Lonly _ H) as [l0 [H0 H1]].
        destruct (key_dec r' (l_schema l)) as [-> | Hn].
        * exists l'; split; auto.
        * exists l0; split; auto. apply Hls; auto. congruence.
      + apply NoDup_map_filter; auto.
    - assert (forall l', In l' ls -> l_schema l' <> l_schema l) as Hno.
      { intros l' H He.
        assert (existsb (fun l' => key_eqb (l_schema l') (l_schema l)) ls = true) as Ht.
        { apply existsb_exists; exists l'; split; auto; apply key_eqb_eq; auto. }
        congruence. }
      apply desc_parts. split.
      + apply unreg_schema_core; auto.
      + simpl. constructor; auto.
        * intros l' H. apply khas_kdel; split; auto.
        * intros r' H. apply khas_kdel in H. destruct H as [Hn H].
          destruct (Lonly _ H) as [l0 [H0 H1]]. exists l0; split; auto.
          apply Hls; auto. congruence.
        * apply NoDup_map_filter; auto.
  Qed.

  Lemma fold_unregister_ok : forall us st, Desc E st -> Desc E (fold_left unregister us st).
  Proof.
    induction us as [|u us IH]; intros st H; simpl; auto.
    apply IH, unregister_ok, H.
  Qed.

  Lemma register_all_ok : forall todo st,
    (forall rn, In rn todo -> e_ok E (fst rn) = true) -> Desc E st ->
    exists st', register_all E st todo = Some st' /\ Desc E st'.
  Proof.
    induction todo as [|a todo IH]; intros st Hok H.
    - exists st; split; auto.
    - destruct (register_ok st (fst a) (snd a) (Hok a (or_introl eq_refl)) H) as [st1 [H1 H2]].
      destruct (IH st1 (fun rn Hin => Hok rn (or_intror Hin)) H2) as [st' [H3 H4]].
      exists st'; split; auto.
      unfold register_all in *. simpl. rewrite H1. exact H3.
  Qed.

  Lemma move_ok : forall st (g : path -> path),
    Desc E st ->
    Desc E (set_links st (map (fun l => mklnk (l_uuid l) (l_schema l) (g (l_node l))) (links st))).
  Proof.
    intros st g H. apply desc_parts in H. destruct H as [Hc Hl].
    destruct Hl as [Lok Lrec Lonly Llt Lnd].
    apply desc_parts; split; [exact Hc|]. simpl. constructor.
    - intros l' H; apply in_map_iff in H; destruct H as [l [<- Hl]]; simpl; auto.
    - intros l' H; apply in_map_iff in H; destruct H as [l [<- Hl]]; simpl; auto.
    - intros r H. destruct (Lonly _ H) as [l [H0 H1]].
      exists (mklnk (l_uuid l) (l_schema l) (g (l_node l))); split; auto.
      apply in_map_iff; exists l; auto.
    - intros l' H; apply in_map_iff in H; destruct H as [l [<- Hl]]; simpl; auto.
    - rewrite map_map; simpl. exact Lnd.
  Qed.

  (** *** Opening the container *)
  Definition parfold (S : list (sref * srec)) (pc : pcmap) : pcmap :=
    fold_left (fun pc e => upc_add (fst e) [] (s_compat (snd e)) pc) S pc.
  Definition usefold (K : list (pkgid * pkgmeta)) (S : list (sref * srec))
                     (U : list (pkgid * list sref)) :=
    fold_left (fun U e => use_add (fst e) (providers_of K (fst e)) U) S U.

  Lemma load_fold_split : forall K S pc U,
    fold_left (load_step K) S (pc, U) = (parfold S pc, usefold K S U).
  Proof.
    intros K S; induction S as [|a S IH]; intros pc U; simpl; auto.
    unfold parfold, usefold in *; simpl. rewrite <- IH. reflexivity.
  Qed.

  Lemma parfold_PV : forall S pc,
    (forall e, In e S -> s_compat (snd e) = e_parents E (fst e)) ->
    PV E (fst pc) -> PV E (fst (parfold S pc)).
  Proof.
    induction S as [|a S IH]; intros pc Hc H; simpl; auto.
    apply IH; [intros; apply Hc; right; auto|].
    rewrite upc_add_fst, (Hc a) by (left; auto). apply upP_PV; auto.
  Qed.

  Lemma parfold_keep_has : forall S pc k,
    khas k (fst pc) = true -> khas k (fst (parfold S pc)) = true.
  Proof.
    induction S as [|a S IH]; intros pc k H; simpl; auto.
    apply IH. rewrite upc_add_fst. apply upP_keep_has; auto.
  Qed.

  Lemma parfold_has : forall S pc e,
    (forall e, In e S -> s_compat (snd e) = e_parents E (fst e)) ->
    In e S -> khas (fst e) (fst (parfold S pc)) = true.
  Proof.
    induction S as [|a S IH]; intros pc e Hc Hin; simpl in *; [tauto|].
    destruct Hin as [-> | Hin].
    - apply parfold_keep_has. rewrite upc_add_fst, (Hc e) by auto.
      apply upP_has. apply (w_self _ WF).
    - apply IH; auto.
  Qed.

  Lemma usefold_In : forall K L,
    (forall e, In e L -> providers_of K (fst e)
                         = [(pk_id (e_provider E (fst e)), e_provider E (fst e))]) ->
    forall U p x,
    In x (kgetl p (usefold K L U)) <->
    In x (kgetl p U) \/ (exists e, In e L /\ fst e = x /\ p = pk_id (e_provider E x)).
  Proof.
    intros K L; induction L as [|a L IH]; intros Hp U p x; simpl.
    - split; auto. intros [H | [e [[] _]]]; auto.
    - unfold usefold in *; simpl.
      rewrite IH by (intros; apply Hp; right; auto).
      rewrite (Hp a) by (left; auto). unfold use_add; simpl.
      destruct (key_dec p (pk_id (e_provider E (fst a)))) as [-> | Hn].
      + rewrite kgetl_kset_eq, set_add_In. split.
        * intros [[-> | H1] | [e [H1 H2]]]; auto.
          -- right; exists a; auto.
          -- right; exists e; tauto.
        * intros [H1 | [e [[<- | H1] [H2 H3]]]]; auto.
          right; exists e; auto.
      + rewrite kgetl_kset_neq by auto. split.
        * intros [H1 | [e [H1 H2]]]; auto. right; exists e; tauto.
        * intros [H1 | [e [[<- | H1] [H2 H3]]]]; auto.
          -- subst x. contradiction.
          -- right; exists e; auto.
  Qed.

  Lemma kgetl_U0 : forall (K : list (pkgid * pkgmeta)) p,
    kgetl p (map (fun e => (fst e, @nil sref)) K) = [].
  Proof.
    intros K p; unfold kgetl. induction K as [|[k m] K IH]; simpl; auto.
    destruct (key_eqb p k); auto.
  Qed.

  Lemma load_core : forall st, Desc E st -> core E (load st).
  Proof.
    intros st H. apply desc_parts in H. destruct H as [[HS [HP HK]] Hl].
    assert (forall e, In e (schemas st) -> s_compat (snd e) = e_parents E (fst e)) as Hcomp.
    { intros [r rec] Hin. apply In_kget in Hin; [|apply (c_sch_keys _ _ HS)].
      apply (c_val _ _ HS) in Hin. subst; reflexivity. }
    assert (forall r, khas r (schemas st) = true -> e_ok E r = true) as Hok.
    { intros r Hr. destruct (k_only _ _ _ _ Hl _ Hr) as [l [H0 <-]]. apply (k_ok _ _ _ _ Hl); auto. }
    assert (forall e, In e (schemas st) ->
              providers_of (pkgs st) (fst e)
              = [(pk_id (e_provider E (fst e)), e_provider E (fst e))]) as Hprov.
    { intros [r rec] Hin. simpl.
      assert (khas r (schemas st) = true) as Hr by (apply khas_In; eauto).
      pose proof (c_pkg _ _ _ _ HK _ Hr) as Hk.
      destruct (prov_cases E WF _ _ _ r HK) as [[_ Hk'] | [Hp _]]; auto. congruence. }
    unfold core, load. rewrite load_fold_split. simpl.
    split; [exact HS | split].
    - assert (PV E (fst (parfold (schemas st) ([], [])))) as Hpv.
      { apply parfold_PV; auto. intros k l Hk; simpl in Hk; congruence. }
      constructor; auto.
      intros r Hr. pose proof Hr as Hr'. apply khas_In in Hr'. destruct Hr' as [rec Hin].
      pose proof (parfold_has _ ([], []) _ Hcomp Hin) as Hh. simpl in Hh.
      unfold khas in Hh.
      destruct (kget r (fst (parfold (schemas st) ([], [])))) as [l|] eqn:Hk; [|congruence].
      f_equal. apply Hpv; auto.
    - constructor.
      + apply (c_pkg _ _ _ _ HK).
      + apply (c_pkg_only _ _ _ _ HK).
      + apply (c_pkg_keys _ _ _ _ HK).
      + intros p x. rewrite (usefold_In _ _ Hprov), kgetl_U0. split.
        * intros [[] | [[r rec] [Hin [Hx Hp]]]]. simpl in Hx; subst.
          assert (khas x (schemas st) = true) as Hr by (apply khas_In; eauto).
          split; auto. exists (e_provider E x); split.
          -- apply (c_pkg _ _ _ _ HK); auto.
          -- apply (w_lists _ WF).
        * intros [Hx [m [Hm Hlst]]]. right.
          apply khas_In in Hx. destruct Hx as [rec Hin].
          exists (x, rec); split; auto. split; auto.
          apply kget_In in Hm.
          destruct (stored_lists E WF _ _ _ _ _ _ HK Hm Hlst) as [_ Hq]; auto.
  Qed.

  Lemma load_ok : forall st, Desc E st -> Desc E (load st).
  Proof.
    intros st H. apply desc_parts. split; [apply load_core; auto|].
    apply desc_parts in H. destruct H as [_ Hl]. exact Hl.
  Qed.
End Steps.

(** ** The theorems *)
Theorem desc_init : forall E, Desc E init.
Proof.
  intros E; constructor; simpl.
  - intros l [].
  - intros r rec H; discriminate.
  - intros r H; discriminate.
  - constructor.
  - intros r H; discriminate.
  - intros p m [].
  - constructor.
  - intros p r; split; [intros [] | intros [H _]; discriminate].
  - intros r H; discriminate.
  - intros p l H; discriminate.
  - intros l [].
  - intros l [].
  - constructor.
Qed.

Lemma step_ok : forall E st o, env_wf E -> Desc E st ->
  Desc E (fst (step E st o)) /\ snd (step E st o) <> SBroken.
Proof.
  intros E st o WF H. destruct o; cbn [step].
  - destruct (negb (e_ok E r) || existsb (at_node node (fst r)) (links st)) eqn:Hc.
    + simpl; split; auto; discriminate.
    + apply orb_false_iff in Hc. destruct Hc as [Hc1 Hc2]. apply negb_false_iff in Hc1.
      destruct (register_ok E WF st r node Hc1 H) as [st' [H1 H2]]. rewrite H1.
      simpl; split; auto; discriminate.
  - destruct (find (at_node node name) (links st)); simpl; split; auto; try discriminate.
    apply unregister_ok; auto.
  - simpl; split; [|discriminate]. apply fold_unregister_ok; auto.
  - match goal with |- context [register_all E st ?t] =>
      destruct (register_all_ok E WF t st) as [st' [H1 H2]]; auto end.
    + intros rn Hin. apply in_map_iff in Hin. destruct Hin as [l [<- Hl]]. simpl.
      apply filter_In in Hl. apply (d_ok _ _ H); tauto.
    + rewrite H1. simpl; split; auto; discriminate.
  - simpl; split; [|discriminate]. apply move_ok; auto.
  - simpl; split; [|discriminate]. apply load_ok; auto.
Qed.

Theorem step_not_broken : forall E st o, env_wf E -> Desc E st -> snd (step E st o) <> SBroken.
Proof. intros E st o WF H. apply step_ok; auto. Qed.

Theorem desc_step : forall E st o, env_wf E -> Desc E st -> Desc E (fst (step E st o)).
Proof. intros E st o WF H. apply step_ok; auto. Qed.

Theorem desc_run : forall E ops, env_wf E -> Desc E (run E init ops).
Proof.
  intros E ops WF. unfold run.
  assert (forall ops st, Desc E st ->
            Desc E (fold_left (fun st o => fst (step E st o)) ops st)) as Hgen.
  { induction ops0 as [|o ops0 IH]; intros st H; simpl; auto.
    apply IH, desc_step; auto. }
  apply Hgen, desc_init.
Qed.

Theorem described : forall E st, env_wf E -> Desc E st ->
  (forall l, In l (links st) ->
     rep_stored st (l_schema l) = Some (mksrec (e_json E (l_schema l)) (e_parents E (l_schema l))) /\
     rep_json st (l_schema l) = Some (e_json E (l_schema l)) /\
     rep_parents st (l_schema l) = Some (e_parents E (l_schema l)) /\
     rep_provider st (l_schema l) = Some (e_provider E (l_schema l)) /\
     In (pk_id (e_provider E (l_schema l)), e_provider E (l_schema l)) (pkgs st) /\
     kmem (l_schema l) (pk_plugins (e_provider E (l_schema l))) = true) /\
  (forall r, khas r (schemas st) = true -> inuse st r) /\
  (forall p m, In (p, m) (pkgs st) -> exists l, In l (links st) /\ m = e_provider E (l_schema l)).
Proof.
  intros E st WF H. pose proof H as H'. apply desc_parts in H'.
  destruct H' as [[HS [HP HK]] Hl]. split; [|split].
  - intros l Hin. pose proof (d_rec _ _ H _ Hin) as Hr.
    set (r := l_schema l) in *.
    unfold rep_stored, rep_json, rep_parents, rep_provider.
    pose proof Hr as Hg. unfold khas in Hg.
    destruct (kget r (schemas st)) as [rec|] eqn:Hk; [|discriminate].
    rewrite (d_val _ _ H _ _ Hk). simpl.
    rewrite (d_par _ _ H _ Hr).
    pose proof (d_pkg _ _ H _ Hr) as Hpk.
    destruct (prov_cases E WF _ _ _ r HK) as [[_ Hk'] | [Hp _]]; [congruence|].
    rewrite Hp. simpl.
    repeat split; auto.
    + apply kget_In; auto.
    + apply (w_lists _ WF).
  - apply (d_only _ _ H).
  - intros p m Hin. destruct (d_pkg_only _ _ H _ _ Hin) as [_ [r [Hr ->]]].
    destruct (d_only _ _ H _ Hr) as [l [H0 H1]]. exists l; split; auto. rewrite H1; auto.
Qed.

Theorem reopen_same : forall E st, env_wf E -> Desc E st ->
  links (load st) = links st /\ schemas (load st) = schemas st /\ pkgs (load st) = pkgs st /\
  (forall r, khas r (schemas st) = true ->
     rep_json (load st) r = rep_json st r /\ rep_parents (load st) r = rep_parents st r /\
     rep_provider (load st) r = rep_provider st r) /\
  Desc E (load st).
Proof.
  intros E st WF H. pose proof (load_ok E WF st H) as HL.
  split; [reflexivity|]. split; [reflexivity|]. split; [reflexivity|]. split; auto.
  intros r Hr. split; [reflexivity|]. split; [|reflexivity].
  unfold rep_parents. rewrite (d_par _ _ H _ Hr). apply (d_par _ _ HL). exact Hr.
Qed.

(** ** The statements along arbitrary histories from the fresh container *)
Theorem described_run : forall E ops, env_wf E ->
  let st := run E init ops in
  (forall l, In l (links st) ->
     rep_stored st (l_schema l) = Some (mksrec (e_json E (l_schema l)) (e_parents E (l_schema l))) /\
     rep_json st (l_schema l) = Some (e_json E (l_schema l)) /\
     rep_parents st (l_schema l) = Some (e_parents E (l_schema l)) /\
     rep_provider st (l_schema l) = Some (e_provider E (l_schema l)) /\
     In (pk_id (e_provider E (l_schema l)), e_provider E (l_schema l)) (pkgs st) /\
     kmem (l_schema l) (pk_plugins (e_provider E (l_schema l))) = true) /\
  (forall r, khas r (schemas st) = true -> inuse st r) /\
  (forall p m, In (p, m) (pkgs st) -> exists l, In l (links st) /\ m = e_provider E (l_schema l)).
Proof. intros E ops WF. apply described; [exact WF | apply desc_run; exact WF]. Qed.

Theorem never_broken_run : forall E ops o, env_wf E ->
  snd (step E (run E init ops) o) <> SBroken.
Proof. intros E ops o WF. apply step_not_broken; [exact WF | apply desc_run; exact WF]. Qed.

Theorem reopen_run : forall E ops, env_wf E ->
  let st := run E init ops in
  links (load st) = links st /\ schemas (load st) = schemas st /\ pkgs (load st) = pkgs st /\
  (forall r, khas r (schemas st) = true ->
     rep_json (load st) r = rep_json st r /\ rep_parents (load st) r = rep_parents st r /\
     rep_provider (load st) r = rep_provider st r) /\
  (forall l, In l (links (load st)) ->
     rep_json (load st) (l_schema l) = Some (e_json E (l_schema l)) /\
     rep_parents (load st) (l_schema l) = Some (e_parents E (l_schema l)) /\
     rep_provider (load st) (l_schema l) = Some (e_provider E (l_schema l))).
Proof.
  intros E ops WF st.
  pose proof (desc_run E ops WF) as HD. fold st in HD.
  destruct (reopen_same E st WF HD) as [H1 [H2 [H3 [H4 H5]]]].
  split; [exact H1|]. split; [exact H2|]. split; [exact H3|]. split; [exact H4|].
  intros l Hl. destruct (described E (load st) WF H5) as [Hd _].
  destruct (Hd l Hl) as [_ [Ha [Hb [Hc _]]]]. auto.
Qed.

(** ** Non-vacuity of the environment premises: every schema its own package, no parents. *)
Definition solo_env : env :=
  mkenv (fun r => fst r) (fun r => [r]) (fun r => mkpkg r "" [r]) (fun _ => true).

Lemma solo_env_wf : env_wf solo_env.
Proof.
  constructor; simpl.
  - intros r. unfold kmem. simpl. rewrite key_eqb_refl. reflexivity.
  - intros r r' H. unfold kmem in H. simpl in H. rewrite orb_false_r in H.
    apply key_eqb_eq in H. subst. reflexivity.
  - intros r r' H. subst. reflexivity.
  - intros r. left. reflexivity.
  - intros r pre p post H _. destruct pre as [|x pre].
    + simpl in H. inversion H. reflexivity.
    + simpl in H. inversion H. destruct pre; discriminate.
Qed.

(** ** The pinned [TOCSchemas.get] reports nothing for a schema in use. *)
Lemma rep_get_pinned_refuted : exists st r,
  Desc solo_env st /\ inuse st r /\ rep_get st r = Some (e_json solo_env r) /\ rep_get_pinned st r = None.
Proof.
  exists (run solo_env init [OAttach [] ("s", "0.1.0")]), ("s", "0.1.0").
  split; [apply desc_run; exact solo_env_wf|].
  split; [|split; reflexivity].
  exists (mklnk 0%N ("s", "0.1.0") []). split; [left; reflexivity | reflexivity].
Qed.

(** ** [load] does not depend on the order in which the stored schema records are listed
    (h5py / IH5 list the [schemas] group by record name). *)
From Coq Require Import Permutation.

Lemma kget_perm : forall (X : Type) (k : key) (m m' : list (key * X)),
  NoDup (map fst m) -> Permutation m m' -> kget k m' = kget k m.
Proof.
  intros X k m m' Hnd Hp.
  assert (Hnd' : NoDup (map fst m')).
  { apply (Permutation_NoDup (Permutation_map fst Hp) Hnd). }
  destruct (kget k m) as [x|] eqn:E.
  - apply In_kget; [exact Hnd'|]. apply (Permutation_in _ Hp). apply kget_In. exact E.
  - destruct (kget k m') as [y|] eqn:E'; [|reflexivity].
    apply kget_In in E'. apply (Permutation_in _ (Permutation_sym Hp)) in E'.
    apply (In_kget _ _ _ Hnd) in E'. congruence.
Qed.

Lemma khas_perm : forall (X : Type) (k : key) (m m' : list (key * X)),
  NoDup (map fst m) -> Permutation m m' -> khas k m' = khas k m.
Proof. intros. unfold khas. rewrite (kget_perm X k m m'); auto. Qed.

Definition with_schemas (st : toc) (sch : list (sref * srec)) : toc :=
  mktoc (links st) sch (pkgs st) (parents st) (children st) (used st) (next st).

Lemma desc_perm : forall E st sch, Desc E st -> Permutation (schemas st) sch ->
  Desc E (with_schemas st sch).
Proof.
  intros E st sch H Hp.
  pose proof (d_sch_keys _ _ H) as Hnd.
  assert (Hk : forall r, kget r sch = kget r (schemas st)) by (intros; apply kget_perm; auto).
  assert (Hh : forall r, khas r sch = khas r (schemas st)) by (intros; apply khas_perm; auto).
  destruct H. constructor; unfold with_schemas; simpl; unfold inuse in *; simpl;
    try assumption.
  - intros l Hl. rewrite Hh. auto.
  - intros r rec Hr. rewrite Hk in Hr. eauto.
  - intros r Hr. rewrite Hh in Hr. auto.
  - apply (Permutation_NoDup (Permutation_map fst Hp) Hnd).
  - intros r Hr. rewrite Hh in Hr. auto.
  - intros p m Hin. destruct (d_pkg_only0 p m Hin) as [Ha [r [Hr Hm]]].
    split; [exact Ha|]. exists r. rewrite Hh. auto.
  - intros p r. rewrite Hh. apply d_used0.
  - intros r Hr. rewrite Hh in Hr. auto.
Qed.

Theorem load_order_irrelevant : forall E st sch, env_wf E -> Desc E st ->
  Permutation (schemas st) sch ->
  pkgs (load (with_schemas st sch)) = pkgs (load st) /\
  forall r, khas r (schemas st) = true ->
    rep_json (load (with_schemas st sch)) r = rep_json (load st) r /\
    rep_parents (load (with_schemas st sch)) r = rep_parents (load st) r /\
    rep_provider (load (with_schemas st sch)) r = rep_provider (load st) r.
Proof.
  intros E st sch WF H Hp. split; [reflexivity|]. intros r Hr.
  pose proof (desc_perm E st sch H Hp) as H'.
  destruct (reopen_same E st WF H) as [_ [_ [_ [_ HL]]]].
  destruct (reopen_same E _ WF H') as [_ [_ [_ [_ HL']]]].
  split; [|split; [|reflexivity]].
  - unfold rep_json, load, with_schemas. simpl.
    rewrite (kget_perm _ r (schemas st) sch (d_sch_keys _ _ H) Hp). reflexivity.
  - unfold rep_parents.
    rewrite (d_par _ _ HL r) by exact Hr.
    apply (d_par _ _ HL' r). simpl.
    rewrite (khas_perm _ r (schemas st) sch (d_sch_keys _ _ H) Hp). exact Hr.
Qed.
