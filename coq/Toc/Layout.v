(** * Layout: the syntactic path conventions of a Metador container
    (properties C06, C07, C08, C15, C20).

    Transcribes [src/metador_core/container/utils.py] as total Gallina functions over
    plain standard-library strings:
    - the reserved prefixes and the TOC paths ([METADOR_PREF], [METADOR_META_PREF],
      [METADOR_TOC_PATH], ...);
    - [is_internal_path], [is_meta_base_path], [to_meta_base_path], [to_data_node_path];
    - Python's [str.split(sep)], [sep.join], [str.startswith], [str.find(sub) >= 0].

    Model file: definitions only.  Lemmas are in [Toc/LayoutProofs.v]. *)
From Coq Require Import List String Ascii Bool.
Import ListNotations.
Local Open Scope string_scope.

(** ** Python string primitives *)

(** [s.startswith(p)]. *)
Fixpoint starts_with (p s : string) : bool :=
  match p with
  | EmptyString => true
  | String a p' =>
      match s with
      | EmptyString => false
      | String b s' => Ascii.eqb a b && starts_with p' s'
      end
  end.

(** [s.find(p) >= 0]: [p] occurs somewhere in [s]. *)
Fixpoint has_sub (p s : string) : bool :=
  starts_with p s ||
  match s with
  | EmptyString => false
  | String _ s' => has_sub p s'
  end.

(** [s[n:]]. *)
Fixpoint drop_str (n : nat) (s : string) : string :=
  match n with
  | O => s
  | S n' => match s with EmptyString => EmptyString | String _ s' => drop_str n' s' end
  end.

(** [s.split(c)] for a one-character separator: never empty, ["".split(c) = [""]]. *)
Fixpoint split (c : ascii) (s : string) : list string :=
  match s with
  | EmptyString => [EmptyString]
  | String a r =>
      if Ascii.eqb a c then EmptyString :: split c r
      else match split c r with
           | [] => [String a EmptyString]
           | h :: t => String a h :: t
           end
  end.

(** [c.join(l)]. *)
Fixpoint join (c : ascii) (l : list string) : string :=
  match l with
  | [] => EmptyString
  | [x] => x
  | x :: r => x ++ String c (join c r)
  end.

Definition slash : ascii := "/"%char.
Definition segs_of (p : string) : list string := split slash p.
Definition path_of (l : list string) : string := join slash l.

(** Python list helpers used by the transcriptions: [l[-1]], [l[:-1]], [l[-1] = x]. *)
Definition last_seg (l : list string) : string := last l EmptyString.
Definition set_last (l : list string) (x : string) : list string := removelast l ++ [x].

(** ** Constants of [container/utils.py] *)

Definition METADOR_PREF : string := "metador_".
Definition METADOR_META_PREF : string := METADOR_PREF ++ "meta_".
Definition METADOR_TOC_PATH : string := "/" ++ METADOR_PREF ++ "container".
Definition METADOR_VERSION_PATH : string := METADOR_TOC_PATH ++ "/version".
Definition METADOR_UUID_PATH : string := METADOR_TOC_PATH ++ "/uuid".
Definition METADOR_PACKAGES_PATH : string := METADOR_TOC_PATH ++ "/packages".
Definition METADOR_SCHEMAS_PATH : string := METADOR_TOC_PATH ++ "/schemas".
Definition METADOR_LINKS_PATH : string := METADOR_TOC_PATH ++ "/links".

(** The same as segment lists (absolute paths without the leading empty segment). *)
Definition toc_seg : string := METADOR_PREF ++ "container".
Definition toc_segs : list string := [toc_seg].
Definition version_segs : list string := [toc_seg; "version"].
Definition uuid_segs : list string := [toc_seg; "uuid"].
Definition packages_segs : list string := [toc_seg; "packages"].
Definition schemas_segs : list string := [toc_seg; "schemas"].
Definition links_segs : list string := [toc_seg; "links"].

(** ** [utils.py] functions *)

(** [is_internal_path(path, pref)]:
    [path.startswith(pref) or path.find(f"/{pref}") >= 0]. *)
Definition is_internal_path_pref (path pref : string) : bool :=
  starts_with pref path || has_sub (String slash pref) path.

Definition is_internal_path (path : string) : bool :=
  is_internal_path_pref path METADOR_PREF.

(** A single segment is reserved iff it starts with [metador_]. *)
Definition reserved_seg (s : string) : bool := starts_with METADOR_PREF s.
Definition meta_seg (s : string) : bool := starts_with METADOR_META_PREF s.

(** Segment-list form of "is or contains a reserved segment". *)
Definition has_reserved (l : list string) : bool := existsb reserved_seg l.

(** [is_meta_base_path(path)]: [path.split("/")[-1].startswith(METADOR_META_PREF)]. *)
Definition is_meta_base_path (path : string) : bool :=
  meta_seg (last_seg (segs_of path)).

(** [to_meta_base_path(node_path, is_dataset)]. *)
Definition meta_base_segs (segs : list string) (is_dataset : bool) : list string :=
  if is_dataset then set_last segs (METADOR_META_PREF ++ last_seg segs)
  else match segs with
       | [EmptyString; EmptyString] => set_last segs METADOR_META_PREF   (* name was "/" *)
       | _ => segs ++ [METADOR_META_PREF]
       end.

Definition to_meta_base_path (node_path : string) (is_dataset : bool) : string :=
  path_of (meta_base_segs (segs_of node_path) is_dataset).

(** [to_data_node_path(meta_dir_path)]. *)
Definition data_node_segs (segs : list string) : list string :=
  let pl := String.length METADOR_META_PREF in
  let lst := drop_str pl (last_seg segs) in
  let segs1 := set_last segs lst in
  match lst with
  | EmptyString =>
      if Nat.ltb 2 (List.length segs1) || negb (String.eqb (hd EmptyString segs1) EmptyString)
      then removelast segs1 else segs1
  | _ => segs1
  end.

Definition to_data_node_path (meta_dir_path : string) : string :=
  path_of (data_node_segs (segs_of meta_dir_path)).

(** ** Node names as h5py reports them ([node.name]): ["/"] or ["/a/b"]. *)

(** Absolute name of the node with the given segments (root = []). *)
Definition name_of (p : list string) : string :=
  match p with
  | [] => "/"
  | _ => path_of (EmptyString :: p)
  end.

(** Segment-level form of [to_meta_base_path (name_of p) is_dataset] (see
    [LayoutProofs.meta_base_of_name]): a group keeps its metadata in a child
    [metador_meta_], a dataset in the sibling [metador_meta_<name>]. *)
Definition meta_dir_of (p : list string) (is_dataset : bool) : list string :=
  if is_dataset then set_last p (METADOR_META_PREF ++ last_seg p)
  else p ++ [METADOR_META_PREF].

(** Path resolution as HDF5 does it: empty segments and ["."] are dropped. *)
Definition keep_seg (s : string) : bool :=
  negb (String.eqb s EmptyString) && negb (String.eqb s ".").
Definition norm_segs (p : string) : list string := filter keep_seg (segs_of p).
Definition is_abs (p : string) : bool := starts_with "/" p.
Definition resolve (cwd : list string) (p : string) : list string :=
  if is_abs p then norm_segs p else cwd ++ norm_segs p.
