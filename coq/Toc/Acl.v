(** * Model of node access restrictions of Metador container wrappers (property C15).

    Transcribes, as total Gallina functions, [metador_core/container/wrappers.py]:
    - [MetadorNode.__init__] / [_child_node_kwargs]: a wrapper carries the flags
      [read_only], [local_only], [skel_only] and, when its creator was [local_only],
      a reference to the creator (the "local parent"); here the chain of local parents
      is the [nstack] of frames (path and flags of each creator, innermost first);
    - [_wrap_if_node] as used by [__getitem__], [get], [items], [values], [visititems],
      [create_group], [require_group], [create_dataset], [require_dataset] ([_wrap_method]:
      [_guard_path] first, then the [read_only] guard for the creating ones, then the raw
      call, then wrapping with the flags of the node the method was called on);
    - [parent] (under [local_only]: the local parent, refused at the local root;
      otherwise the raw parent wrapped with this node's flags), [file], [restrict];
    - query results of [node.metador.query(schema)] ([interface.py] [MetadorContainerTOC.query]:
      the start node itself if it carries a matching object, then every node below it
      found by the start node's own [visititems]);
    - the guards of every operation of the group / dataset protocol, of
      [WrappedAttributeManager] and of [MetadorMeta] ([_guard_acl] sites).

    Two rules are the *repaired* ones (DESIGN 2.3: the model describes the behaviour the
    property demands): [parent] of a node below a local root returns the local parent
    *joined with the flags of the node it is asked on* (the pinned code returns the stored
    parent object unchanged, losing restrictions added to the child later), and [file]
    returns a container wrapper that inherits the flags of the node (the pinned code
    returns the container object with its own flags, usually none).  The pinned rules are
    kept as [nav1_pinned] and refuted in [AclProofs.v].

    A third rule is *demanded but not implemented* (recorded known finding): the [node] of the
    [StoredMetadata] items of [meta.values()] / [meta.items()] is modelled by [nav_meta] (a wrapper
    with the owner's flags that is a local root of its own); the code hands out the raw objects
    of the driver, rule [nav_meta_pinned], against which the harness compares the code and which
    is refuted in [AclProofs.v].

    The underlying tree (HDF5 semantics of path lookup and of create/require) is modelled,
    not verified: a finite list of entries (path from the root, kind, "carries a metadata
    object of the queried schema").  This file contains definitions only. *)
From Coq Require Import List String Bool.
From MV Require Import Base.Sx.
Import ListNotations.
Local Open Scope string_scope.
Local Open Scope list_scope.

(** ** Paths, flags, nodes *)

Definition path : Type := list string.

Fixpoint path_eqb (p q : path) : bool :=
  match p, q with
  | [], [] => true
  | a :: p', b :: q' => String.eqb a b && path_eqb p' q'
  | _, _ => false
  end.

Fixpoint is_prefix (p q : path) : bool :=
  match p, q with
  | [], _ => true
  | a :: p', b :: q' => String.eqb a b && is_prefix p' q'
  | _ :: _, [] => false
  end.

Inductive kind : Type := KGroup | KDataset.

Definition kind_eqb (a b : kind) : bool :=
  match a, b with KGroup, KGroup | KDataset, KDataset => true | _, _ => false end.

Record flags : Type := mkF { ro : bool; lo : bool; so : bool }.

Definition f_none : flags := mkF false false false.
Definition f_or (a b : flags) : flags := mkF (ro a || ro b) (lo a || lo b) (so a || so b).
Definition f_le (a b : flags) : bool :=
  implb (ro a) (ro b) && implb (lo a) (lo b) && implb (so a) (so b).

(** A local parent: the wrapper object a node was derived from while that wrapper was
    [local_only] (always a group). *)
Record frame : Type := mkFr { fpath : path; ffl : flags }.

Record node : Type := mkN { npath : path; nkind : kind; nfl : flags; nstack : list frame }.

(** [_child_node_kwargs]: flags are copied; [local_parent] is the creator iff it is
    [local_only]. *)
Definition child_stack (n : node) : list frame :=
  if lo (nfl n) then mkFr (npath n) (nfl n) :: nstack n else [].

Definition derive (n : node) (p : path) (k : kind) : node := mkN p k (nfl n) (child_stack n).

(** ** The underlying tree *)

(** [emeta]: carries an object of the queried schema; [eobjs]: carries any metadata object. *)
Record entry : Type := mkE { epath : path; ekind : kind; emeta : bool; eobjs : bool }.
Definition tree : Type := list entry.

Fixpoint find (t : tree) (p : path) : option entry :=
  match t with
  | [] => None
  | e :: r => if path_eqb (epath e) p then Some e else find r p
  end.

(** The root group always exists. *)
Definition lookup (t : tree) (p : path) : option kind :=
  match p with
  | [] => Some KGroup
  | _ => option_map ekind (find t p)
  end.

Definition has_meta (t : tree) (p : path) : bool :=
  match find t p with Some e => emeta e | None => false end.

Definition has_objs (t : tree) (p : path) : bool :=
  match find t p with Some e => eobjs e | None => false end.

(** Proper non-empty prefixes of a path, shortest first. *)
Fixpoint inits (p : path) : list path :=
  match p with
  | [] => []
  | a :: r => [a] :: map (cons a) (inits r)
  end.

Definition proper_inits (p : path) : list path := removelast (inits p).

Definition blocked (t : tree) (p : path) : bool :=
  existsb (fun q => match lookup t q with Some KDataset => true | _ => false end) (proper_inits p).

Definition add_missing (t : tree) (ps : list path) (k : kind) : tree :=
  fold_left (fun acc q => match lookup acc q with
                          | Some _ => acc
                          | None => acc ++ [mkE q k false false]
                          end) ps t.

(** [create_group] / [create_dataset]: fails if the name exists or an ancestor is a
    dataset; creates missing intermediate groups. *)
Definition tree_create (t : tree) (p : path) (k : kind) : option tree :=
  match p with
  | [] => None
  | _ =>
    match lookup t p with
    | Some _ => None
    | None => if blocked t p then None
              else Some (add_missing (add_missing t (proper_inits p) KGroup) [p] k)
    end
  end.

(** [require_group] / [require_dataset] (called with the shape and type of an existing
    dataset): the existing node of the right kind, or a new one. *)
Definition tree_require (t : tree) (p : path) (k : kind) : option tree :=
  match lookup t p with
  | Some k' => if kind_eqb k k' then Some t else None
  | None => tree_create t p k
  end.

(** ** Navigation primitives *)

(** A path argument as Python sees it: absolute iff it starts with ["/"]. *)
Record parg : Type := mkP { pabs : bool; psegs : path }.

Definition target (n : node) (a : parg) : path :=
  if pabs a then psegs a else npath n ++ psegs a.

Inductive creator : Type := CreateGroup | RequireGroup | CreateDataset | RequireDataset.

(** What is taken from a [StoredMetadata] item of a metadata listing: its [node] (the dataset
    holding the serialised object), or that node's [file] / [parent]. *)
Inductive metahop : Type := HNode | HFile | HParent.

Inductive prim : Type :=
| PGetItem (a : parg)            (* node[path] *)
| PGet (a : parg)                (* node.get(path) *)
| PParent
| PFile
| PItems (name : string)         (* the node paired with [name] by items() *)
| PValues (name : string)        (* the node named [name] in values() *)
| PVisit (rel : path)            (* the node passed to a visititems callback for [rel] *)
| PCreate (c : creator) (a : parg)  (* return value of create_/require_ group/dataset *)
| PQuery (tgt : path)            (* the result of node.metador.query(schema) at [tgt] *)
| PRestrict (f : flags)
| PMeta (h : metahop).           (* [.node] of an item of meta.values() / meta.items(), or its file / parent *)

Inductive navres : Type :=
| NOk (t : tree) (n : node)
| NRefused
| NErr.

(** [_guard_path]: absolute paths are refused on a local_only node. *)
Definition guard_path (n : node) (a : parg) : bool := lo (nfl n) && pabs a.

Definition nav_lookup (t : tree) (n : node) (a : parg) : navres :=
  match nkind n with
  | KDataset => if so (nfl n) then NRefused else NErr
  | KGroup =>
    if guard_path n a then NRefused
    else match lookup t (target n a) with
         | Some k => NOk t (derive n (target n a) k)
         | None => NErr
         end
  end.

Definition nav_listed (t : tree) (n : node) (rel : path) : navres :=
  match nkind n, rel with
  | KGroup, _ :: _ =>
      match lookup t (npath n ++ rel) with
      | Some k => NOk t (derive n (npath n ++ rel) k)
      | None => NErr
      end
  | _, _ => NErr
  end.

Definition creator_kind (c : creator) : kind :=
  match c with CreateGroup | RequireGroup => KGroup | _ => KDataset end.

Definition tree_creator (c : creator) (t : tree) (p : path) : option tree :=
  match c with
  | CreateGroup => tree_create t p KGroup
  | CreateDataset => tree_create t p KDataset
  | RequireGroup => tree_require t p KGroup
  | RequireDataset => tree_require t p KDataset
  end.

Definition nav_create (t : tree) (n : node) (c : creator) (a : parg) : navres :=
  match nkind n with
  | KDataset => NErr
  | KGroup =>
    if guard_path n a then NRefused
    else if ro (nfl n) then NRefused
    else match tree_creator c t (target n a) with
         | Some t' => NOk t' (derive n (target n a) (creator_kind c))
         | None => NErr
         end
  end.

(** [parent] (repaired: the local parent is joined with this node's flags). *)
Definition nav_parent (t : tree) (n : node) : navres :=
  if lo (nfl n) then
    match nstack n with
    | fr :: rest => NOk t (mkN (fpath fr) KGroup (f_or (ffl fr) (nfl n)) rest)
    | [] => NRefused
    end
  else NOk t (mkN (removelast (npath n)) KGroup (nfl n) []).

(** [file] (repaired: the container wrapper inherits this node's flags). *)
Definition nav_file (t : tree) (n : node) : navres :=
  if lo (nfl n) then NRefused else NOk t (mkN [] KGroup (nfl n) []).

(** Query results: the start node object itself, then wrapped nodes strictly below it. *)
Definition nav_query (t : tree) (n : node) (tgt : path) : navres :=
  if negb (has_meta t tgt) then NErr
  else if path_eqb tgt (npath n) then NOk t n
  else match nkind n with
       | KDataset => NErr
       | KGroup =>
           if is_prefix (npath n) tgt then
             match lookup t tgt with
             | Some k => NOk t (derive n tgt k)
             | None => NErr
             end
           else NErr
       end.

(** [restrict]: flags can only be added; a new local root forgets its local parent. *)
Definition restrict (f : flags) (n : node) : node :=
  mkN (npath n) (nkind n) (f_or (nfl n) f) (if lo f then [] else nstack n).

(** Metadata listings ([MetadorMeta.values] / [items], guarded by skel_only).  Paths of
    metadata objects and of metadata directories are identified with the path of the node
    they describe (the harness applies [to_data_node_path] to what the code hands out).

    DEMANDED rule (the code does not implement it, see [nav_meta_pinned]): the node handed out
    is a wrapper carrying the owner's flags and is a local root of its own, so that neither
    [file] nor [parent] lead anywhere from it. *)
Definition lo_only : flags := mkF false true false.

Definition meta_node (n : node) : node := mkN (npath n) KDataset (f_or (nfl n) lo_only) [].

Definition nav_meta (t : tree) (n : node) (h : metahop) : navres :=
  if so (nfl n) then NRefused
  else if negb (has_objs t (npath n)) then NErr
  else match h with
       | HNode => NOk t (meta_node n)
       | HFile => nav_file t (meta_node n)
       | HParent => nav_parent t (meta_node n)
       end.

Definition nav1 (t : tree) (n : node) (p : prim) : navres :=
  match p with
  | PGetItem a | PGet a => nav_lookup t n a
  | PParent => nav_parent t n
  | PFile => nav_file t n
  | PItems nm | PValues nm => nav_listed t n [nm]
  | PVisit rel => nav_listed t n rel
  | PCreate c a => nav_create t n c a
  | PQuery tgt => nav_query t n tgt
  | PRestrict f => NOk t (restrict f n)
  | PMeta h => nav_meta t n h
  end.

(** A chain of primitives; stops at the first step that does not yield a node. *)
Fixpoint nav (t : tree) (n : node) (ch : list prim) : navres :=
  match ch with
  | [] => NOk t n
  | p :: r => match nav1 t n p with
              | NOk t' n' => nav t' n' r
              | x => x
              end
  end.

(** ** The pinned (unrepaired) rules for [parent] and [file].
    [cfl] stands for the flags of the container object itself. *)
Definition nav_parent_pinned (t : tree) (n : node) : navres :=
  if lo (nfl n) then
    match nstack n with
    | fr :: rest => NOk t (mkN (fpath fr) KGroup (ffl fr) rest)
    | [] => NRefused
    end
  else NOk t (mkN (removelast (npath n)) KGroup (nfl n) []).

Definition nav_file_pinned (cfl : flags) (t : tree) (n : node) : navres :=
  if lo (nfl n) then NRefused else NOk t (mkN [] KGroup cfl []).

Definition nav1_pinned (cfl : flags) (t : tree) (n : node) (p : prim) : navres :=
  match p with
  | PParent => nav_parent_pinned t n
  | PFile => nav_file_pinned cfl t n
  | _ => nav1 t n p
  end.

Fixpoint nav_pinned (cfl : flags) (t : tree) (n : node) (ch : list prim) : navres :=
  match ch with
  | [] => NOk t n
  | p :: r => match nav1_pinned cfl t n p with
              | NOk t' n' => nav_pinned cfl t' n' r
              | x => x
              end
  end.

(** PINNED rule for metadata listings: the raw, unrestricted objects of the driver are handed
    out ([StoredMetadata.node] is the raw dataset; its [file] is the whole container, its
    [parent] the raw metadata directory).  A raw object has no flags and no guards. *)
Definition nav_meta_pinned (t : tree) (n : node) (h : metahop) : navres :=
  if so (nfl n) then NRefused
  else if negb (has_objs t (npath n)) then NErr
  else NOk t (match h with
              | HNode => mkN (npath n) KDataset f_none []
              | HFile => mkN [] KGroup f_none []
              | HParent => mkN (npath n) KGroup f_none []
              end).

Definition nav1_pinned_meta (t : tree) (n : node) (p : prim) : navres :=
  match p with
  | PMeta h => nav_meta_pinned t n h
  | _ => nav1 t n p
  end.

Fixpoint nav_pinned_meta (t : tree) (n : node) (ch : list prim) : navres :=
  match ch with
  | [] => NOk t n
  | p :: r => match nav1_pinned_meta t n p with
              | NOk t' n' => nav_pinned_meta t' n' r
              | x => x
              end
  end.

(** ** Protocol operations and their guards *)

Inductive grpmut : Type :=
| GCreateGroup | GRequireGroup | GCreateDataset | GRequireDataset | GSetItem | GDelItem.

Inductive attrop : Type :=
| AGetItem | ASetItem | ADelItem | AContains | AIter | ALen
| AMethod (name : string) (present : bool).   (* attrs.<name>; [present] = the raw manager has it *)

Inductive metaop : Type :=
| MGet | MGetItem | MValues | MItems | MQueryAll        (* yield metadata objects *)
| MSetItem | MDelItem
| MKeys | MLen | MIter | MContains | MQuery.

Inductive op : Type :=
| OGrp (g : grpmut) (a : parg)
| OMove (a b : parg)
| OCopy (a b : parg)
| OCopyNodes                     (* copy(source node object, destination group object) *)
| OContains (a : parg)
| OListing                       (* keys / len / iter / visit *)
| ODsRead                        (* ds[...] *)
| ODsWrite                       (* ds[...] = v *)
| ODsMember (name : string)      (* getattr(ds, name) *)
| OAttr (a : attrop)
| OMeta (m : metaop).

Inductive outcome : Type := Refused | Passed | NotApplicable.

Definition mem (s : string) (l : list string) : bool := existsb (String.eqb s) l.

(** [MetadorDataset._self_RO_FORBIDDEN] *)
Definition ds_ro_forbidden : list string := ["resize"; "make_scale"; "write_direct"; "flush"].

(** [WrappedAttributeManager._self_acl_whitelist] *)
Definition wl_ro : list string := ["keys"; "values"; "items"; "get"].
Definition wl_so : list string := ["keys"].

(** Intersection of the whitelists of the set flags (only called when ro or so is set). *)
Definition attr_allowed (f : flags) (name : string) : bool :=
  (implb (ro f) (mem name wl_ro)) && (implb (so f) (mem name wl_so)).

(** The [attrs] property wraps the manager only under read_only or skel_only. *)
Definition attr_wrapped (f : flags) : bool := ro f || so f.

Definition guard_attr (f : flags) (a : attrop) : outcome :=
  if negb (attr_wrapped f) then Passed
  else match a with
       | AGetItem => if so f then Refused else Passed
       | ASetItem | ADelItem => if ro f then Refused else Passed
       | AContains | AIter | ALen => Passed
       | AMethod name present =>
           if present && negb (attr_allowed f name) then Refused else Passed
       end.

Definition guard_meta (f : flags) (m : metaop) : outcome :=
  match m with
  | MGet | MGetItem | MValues | MItems | MQueryAll => if so f then Refused else Passed
  | MSetItem | MDelItem => if ro f then Refused else Passed
  | MKeys | MLen | MIter | MContains | MQuery => Passed
  end.

Definition refuse_if (b : bool) : outcome := if b then Refused else Passed.

Definition guard (n : node) (o : op) : outcome :=
  let f := nfl n in
  match o, nkind n with
  | OGrp _ a, KGroup => refuse_if (guard_path n a || ro f)
  | OMove a b, KGroup | OCopy a b, KGroup => refuse_if (ro f || guard_path n a || guard_path n b)
  | OCopyNodes, KGroup => refuse_if (ro f)      (* [_guard_path] applies to string arguments only *)
  | OContains a, KGroup => refuse_if (guard_path n a)
  | OListing, KGroup => Passed
  | ODsRead, KDataset => refuse_if (so f)
  | ODsWrite, KDataset => refuse_if (ro f)
  | ODsMember name, KDataset =>
      refuse_if ((ro f && mem name ds_ro_forbidden) || (so f && String.eqb name "get"))
  | OAttr a, _ => guard_attr f a
  | OMeta m, _ => guard_meta f m
  | _, _ => NotApplicable
  end.

(** ** Classification of operations (what the property speaks about) *)

Definition attr_mutators : list string :=
  ["create"; "modify"; "update"; "pop"; "popitem"; "clear"; "setdefault"].
Definition attr_value_readers : list string := ["get"; "values"; "items"].

(** Operations that change data, attributes or metadata when they reach the raw layer. *)
Definition mutating (o : op) : bool :=
  match o with
  | OGrp _ _ | OMove _ _ | OCopy _ _ | OCopyNodes => true
  | ODsWrite => true
  | ODsMember name => mem name ds_ro_forbidden
  | OAttr ASetItem | OAttr ADelItem => true
  | OAttr (AMethod name present) => present && mem name attr_mutators
  | OMeta MSetItem | OMeta MDelItem => true
  | _ => false
  end.

(** Operations that yield dataset contents, attribute values or metadata objects. *)
Definition revealing (o : op) : bool :=
  match o with
  | ODsRead => true
  | OAttr AGetItem => true
  | OAttr (AMethod name present) => present && mem name attr_value_readers
  | OMeta MGet | OMeta MGetItem | OMeta MValues | OMeta MItems | OMeta MQueryAll => true
  | _ => false
  end.

(** Operations addressing something by an absolute path. *)
Definition upward (o : op) : bool :=
  match o with
  | OGrp _ a | OContains a => pabs a
  | OMove a b | OCopy a b => pabs a || pabs b
  | _ => false
  end.

Definition applicable (n : node) (o : op) : bool :=
  match guard n o with NotApplicable => false | _ => true end.

(** Executing an operation: a refused operation never reaches the raw layer.  The effect
    of an operation that passes the guards is whatever the raw layer ([raw]) does. *)
Definition exec {S : Type} (raw : S -> path -> op -> S) (s : S) (n : node) (o : op)
  : S * outcome :=
  match guard n o with
  | Passed => (raw s (npath n) o, Passed)
  | x => (s, x)
  end.

(** ** Interchange with the harness *)

Definition sx_path (x : sx) : option path := sx_strings x.
Definition of_path (p : path) : sx := of_strings p.

Definition sx_kind (x : sx) : option kind :=
  match x with A "g" => Some KGroup | A "d" => Some KDataset | _ => None end.
Definition of_kind (k : kind) : sx := A (match k with KGroup => "g" | KDataset => "d" end).

Definition sx_flags (x : sx) : option flags :=
  match x with
  | L [a; b; c] =>
      match sx_bool a, sx_bool b, sx_bool c with
      | Some a, Some b, Some c => Some (mkF a b c)
      | _, _, _ => None
      end
  | _ => None
  end.
Definition of_flags (f : flags) : sx := L [of_bool (ro f); of_bool (lo f); of_bool (so f)].

Definition sx_entry (x : sx) : option entry :=
  match x with
  | L [p; k; m; o] =>
      match sx_path p, sx_kind k, sx_bool m, sx_bool o with
      | Some p, Some k, Some m, Some o => Some (mkE p k m o)
      | _, _, _, _ => None
      end
  | _ => None
  end.

Definition sx_parg (ab sg : sx) : option parg :=
  match sx_bool ab, sx_path sg with
  | Some a, Some s => Some (mkP a s)
  | _, _ => None
  end.

Definition sx_creator (s : string) : option creator :=
  if String.eqb s "create_group" then Some CreateGroup
  else if String.eqb s "require_group" then Some RequireGroup
  else if String.eqb s "create_dataset" then Some CreateDataset
  else if String.eqb s "require_dataset" then Some RequireDataset
  else None.

Definition sx_prim (x : sx) : option prim :=
  match x with
  | L (A tag :: args) =>
      let is s := String.eqb tag s in
      match args with
      | [] => if is "parent" then Some PParent else if is "file" then Some PFile else None
      | [a] =>
          if is "items" then option_map PItems (sx_atom a)
          else if is "values" then option_map PValues (sx_atom a)
          else if is "visit" then option_map PVisit (sx_path a)
          else if is "query" then option_map PQuery (sx_path a)
          else if is "restrict" then option_map PRestrict (sx_flags a)
          else if is "meta_node" then
            match a with
            | A "node" => Some (PMeta HNode)
            | A "file" => Some (PMeta HFile)
            | A "parent" => Some (PMeta HParent)
            | _ => None
            end
          else None
      | [ab; sg] =>
          if is "getitem" then option_map PGetItem (sx_parg ab sg)
          else if is "get" then option_map PGet (sx_parg ab sg)
          else match sx_creator tag, sx_parg ab sg with
               | Some c, Some a => Some (PCreate c a)
               | _, _ => None
               end
      | _ => None
      end
  | _ => None
  end.

Definition sx_grpmut (s : string) : option grpmut :=
  if String.eqb s "create_group" then Some GCreateGroup
  else if String.eqb s "require_group" then Some GRequireGroup
  else if String.eqb s "create_dataset" then Some GCreateDataset
  else if String.eqb s "require_dataset" then Some GRequireDataset
  else if String.eqb s "setitem" then Some GSetItem
  else if String.eqb s "delitem" then Some GDelItem
  else None.

Definition sx_attrop (s : string) : option attrop :=
  if String.eqb s "getitem" then Some AGetItem
  else if String.eqb s "setitem" then Some ASetItem
  else if String.eqb s "delitem" then Some ADelItem
  else if String.eqb s "contains" then Some AContains
  else if String.eqb s "iter" then Some AIter
  else if String.eqb s "len" then Some ALen
  else None.

Definition sx_metaop (s : string) : option metaop :=
  if String.eqb s "get" then Some MGet
  else if String.eqb s "getitem" then Some MGetItem
  else if String.eqb s "values" then Some MValues
  else if String.eqb s "items" then Some MItems
  else if String.eqb s "query_all" then Some MQueryAll
  else if String.eqb s "setitem" then Some MSetItem
  else if String.eqb s "delitem" then Some MDelItem
  else if String.eqb s "keys" then Some MKeys
  else if String.eqb s "len" then Some MLen
  else if String.eqb s "iter" then Some MIter
  else if String.eqb s "contains" then Some MContains
  else if String.eqb s "query" then Some MQuery
  else None.

Definition sx_op (x : sx) : option op :=
  match x with
  | L (A tag :: args) =>
      let is s := String.eqb tag s in
      match args with
      | [] =>
          if is "listing" then Some OListing
          else if is "copy_nodes" then Some OCopyNodes
          else if is "ds_read" then Some ODsRead
          else if is "ds_write" then Some ODsWrite
          else None
      | [a] =>
          if is "ds_member" then option_map ODsMember (sx_atom a)
          else if is "attr" then
            match sx_atom a with Some a => option_map OAttr (sx_attrop a) | None => None end
          else if is "meta" then
            match sx_atom a with Some m => option_map OMeta (sx_metaop m) | None => None end
          else None
      | [a; b] =>
          if is "contains" then option_map OContains (sx_parg a b)
          else if is "attr_method" then
            match sx_atom a, sx_bool b with
            | Some nm, Some pr => Some (OAttr (AMethod nm pr))
            | _, _ => None
            end
          else None
      | [g; ab; sg] =>
          if is "grp" then
            match sx_atom g with
            | Some g => match sx_grpmut g, sx_parg ab sg with
                        | Some g, Some a => Some (OGrp g a)
                        | _, _ => None
                        end
            | None => None
            end
          else None
      | [ab1; sg1; ab2; sg2] =>
          match sx_parg ab1 sg1, sx_parg ab2 sg2 with
          | Some a, Some b =>
              if is "move" then Some (OMove a b) else if is "copy" then Some (OCopy a b) else None
          | _, _ => None
          end
      | _ => None
      end
  | _ => None
  end.

Definition of_outcome (o : outcome) : sx :=
  A (match o with Refused => "refused" | Passed => "passed" | NotApplicable => "na" end).

Definition of_node (n : node) : sx :=
  L [of_path (npath n); of_kind (nkind n); of_flags (nfl n);
     of_list (fun fr => L [of_path (fpath fr); of_flags (ffl fr)]) (nstack n)].

(** Compact result of a step for the harness: ["R"], ["E"] or
    [(O path kind flags stack)]. *)
Definition of_navres (r : navres) : sx :=
  match r with
  | NOk _ n => L [A "O"; of_node n]
  | NRefused => A "R"
  | NErr => A "E"
  end.

Definition of_tree (t : tree) : sx :=
  of_list (fun e => L [of_path (epath e); of_kind (ekind e); of_bool (emeta e); of_bool (eobjs e)]) t.

(** Cases:
    [(nav tree (path kind flags) (prim ...) (prim ...))]: run the chain from a fresh
      start node, then apply every primitive of the second list ("fan") to the node
      reached -> [(result-of-chain (result-of-fan-prim ...) tree-after-chain)]; for a metadata
      listing primitive the result is [(M pinned-rule-result demanded-rule-result)];
    [(guard kind flags (op ...))] -> outcome of every operation on a node of that kind
      with those flags. *)
Definition run_c15 (x : sx) : sx :=
  match x with
  | L [A "nav"; tr; L [sp; sk; sf]; ch; fan] =>
      match sx_map sx_entry tr, sx_path sp, sx_kind sk, sx_flags sf,
            sx_map sx_prim ch, sx_map sx_prim fan with
      | Some t, Some p, Some k, Some f, Some ch, Some fan =>
          match nav t (mkN p k f []) ch with
          | NOk t' n =>
              L [of_navres (NOk t' n);
                 of_list (fun q => match q with
                                   | PMeta _ => L [A "M"; of_navres (nav1_pinned_meta t' n q);
                                                   of_navres (nav1 t' n q)]
                                   | _ => of_navres (nav1 t' n q)
                                   end) fan;
                 of_tree t']
          | r => L [of_navres r; L []; L []]
          end
      | _, _, _, _, _, _ => sx_bad "c15 nav decode"
      end
  | L [A "guard"; k; f; ops] =>
      match sx_kind k, sx_flags f, sx_map sx_op ops with
      | Some k, Some f, Some ops => of_list (fun o => of_outcome (guard (mkN [] k f []) o)) ops
      | _, _, _ => sx_bad "c15 guard decode"
      end
  | _ => sx_bad "c15"
  end.
