(** * Query: metadata objects at container nodes, the container-local schema index, and
    container-level queries (property C07).

    An abstract model of [container/interface.py] over an abstract schema environment:

    - [env]: the installed schema plugins as a finite table in *registration order, newest
      first*: schema reference -> (parent reference, auxiliary flag); several versions per
      name.  [env_wf]: no reference registered twice, the parent of every entry is registered
      *before* it (the plugin loader does exactly this: [PGSchema.plugin_deps] loads the
      parent first) -- hence parent chains are acyclic by construction.  [sanc]/[ppath]
      transcribe [PGSchema._compute_parent_path]; [Anc] is the independent statement of
      "ancestor-or-self along the parent pointers of [env]".
    - [state]: the user nodes (path, group/dataset, attached objects = (schema ref, uuid,
      value)), the container-local index [toc] ([TOCSchemas._schemas/_parents/_children])
      and the uuid counter.
    - [upd_add]/[upd_del]: [TOCSchemas._update_parents_children] as the pinned code maintains
      the two maps incrementally (add / remove branch); [toc_rebuild]: what
      [TOCSchemas.__init__] computes when a container is opened.
    - [attach]/[detach]: [MetadorMeta.__setitem__/__delitem__] (order of the refusals as in
      the code: existing object of the same schema *name* -> unknown schema / no compatible
      installed version -> auxiliary -> validation); [step]: also node creation, [del] (with
      [_destroy_meta] first), [move], [copy] (with / without metadata), re-open.
    - [mquery]/[mcontains]/[get]: [MetadorMeta.query/__contains__/get].  [get] is the
      *repaired* rule (the class used for the returned view is resolved for the release the
      found object was stored as when no version is requested, and reading through an
      auxiliary parent schema is allowed); [get_pinned] is the rule of the pinned tree.
    - [query]: [MetadorContainerTOC.query] (start node, then the nodes below a group start);
      [brute]: the specification -- every node at or below [start] carrying an object whose
      schema is [s] in a version [supports]-compatible with the request, or a descendant
      (per [env]) of such a release.
    - [run_c07 : sx -> sx] for the extracted runner.

    Model file: definitions only; lemmas are in [Toc/QueryProofs.v]. *)
From Coq Require Import List String Ascii Bool NArith.
From MV Require Import Base.Sx Util.PluginRef.
Import ListNotations.
Local Open Scope string_scope.
Local Open Scope list_scope.

(** ** Schema references (always of plugin group "schema") *)

Definition SG : string := "schema".
Definition sref : Type := (string * ver)%type.
Definition to_ref (r : sref) : ref := mkref SG (fst r) (snd r).
Definition of_pref (r : ref) : sref := (rname r, rver r).

Definition ver_eqb (a b : ver) : bool :=
  N.eqb (fst a) (fst b) && (N.eqb (fst (snd a)) (fst (snd b)) && N.eqb (snd (snd a)) (snd (snd b))).
Definition sref_eqb (a b : sref) : bool := String.eqb (fst a) (fst b) && ver_eqb (snd a) (snd b).
Definition smem (r : sref) (l : list sref) : bool := existsb (sref_eqb r) l.
(** Python [set.add] / [set.remove] / [set.discard] on a list without order meaning. *)
Definition ladd (r : sref) (l : list sref) : list sref := if smem r l then l else l ++ [r].
Definition lrem (r : sref) (l : list sref) : list sref := filter (fun x => negb (sref_eqb r x)) l.

(** Python dicts keyed by references. *)
Definition amap : Type := list (sref * list sref).
Fixpoint afind (m : amap) (k : sref) : option (list sref) :=
  match m with
  | [] => None
  | (k', v) :: r => if sref_eqb k' k then Some v else afind r k
  end.
Definition aget (m : amap) (k : sref) : list sref := match afind m k with Some v => v | None => [] end.
Definition ahas (m : amap) (k : sref) : bool := match afind m k with Some _ => true | None => false end.
Definition adel (m : amap) (k : sref) : amap := filter (fun kv => negb (sref_eqb (fst kv) k)) m.
Definition aset (m : amap) (k : sref) (v : list sref) : amap := (k, v) :: adel m k.
Definition akeys (m : amap) : list sref := map fst m.

(** ** The schema environment *)

Record sinfo : Type := mksinfo { s_parent : option sref; s_aux : bool }.
Definition env : Type := list (sref * sinfo).

Fixpoint env_get (e : env) (r : sref) : option sinfo :=
  match e with
  | [] => None
  | (k, i) :: rest => if sref_eqb k r then Some i else env_get rest r
  end.
Definition env_has (e : env) (r : sref) : bool := match env_get e r with Some _ => true | None => false end.

Fixpoint env_wf (e : env) : Prop :=
  match e with
  | [] => True
  | (k, i) :: rest =>
      env_wf rest /\ env_get rest k = None /\
      match s_parent i with Some p => env_get rest p <> None | None => True end
  end.

Fixpoint env_wfb (e : env) : bool :=
  match e with
  | [] => true
  | (k, i) :: rest =>
      env_wfb rest && negb (env_has rest k) &&
      match s_parent i with Some p => env_has rest p | None => true end
  end.

(** Strict ancestors of [r], root first ([_compute_parent_path] without its last element). *)
Fixpoint sanc (e : env) (r : sref) : list sref :=
  match e with
  | [] => []
  | (k, i) :: rest =>
      if sref_eqb k r then match s_parent i with Some p => sanc rest p ++ [p] | None => [] end
      else sanc rest r
  end.
(** [PGSchema.parent_path]: root first, the schema itself last. *)
Definition ppath (e : env) (r : sref) : list sref := sanc e r ++ [r].

(** Independent statement: [Anc e r a] -- [a] is [r] or reachable from [r] along parents. *)
Inductive Anc (e : env) : sref -> sref -> Prop :=
| anc_refl : forall r, Anc e r r
| anc_step : forall r i p a, env_get e r = Some i -> s_parent i = Some p -> Anc e p a -> Anc e r a.

(** A request [(s, v)] admits the release [a]: same name and, when a version is asked for,
    [PluginRef(s, v).supports(a)] (same major, minor of [a] not larger). *)
Definition vcompat (s : string) (v : option ver) (a : sref) : bool :=
  String.eqb (fst a) s &&
  match v with None => true | Some v => supports (to_ref (s, v)) (to_ref a) end.

(** [PluginGroup.resolve] over the installed versions (model of C16). *)
Definition etable (e : env) : table := register_all (map (fun kv => to_ref (fst kv)) (rev e)).
Definition eresolve (e : env) (s : string) (v : option ver) : option sref :=
  option_map of_pref (resolve (etable e) SG s v).

Inductive why : Type := WNoNode | WExists | WUnknown | WAux | WInvalid | WNoObj | WBadPath.

(** [MetadorMeta._require_schema]. *)
Definition require_schema (e : env) (s : string) (v : option ver) : sref + why :=
  match eresolve e s v with
  | None => inr WUnknown
  | Some r => match env_get e r with
              | Some i => if s_aux i then inr WAux else inl r
              | None => inr WUnknown
              end
  end.

(** ** Container-local index: [_update_parents_children] *)

(** Add branch: [parents] is walked with its index, [pre] = [parents[:i]]. *)
Fixpoint upd_add (r : sref) (pre todo : list sref) (par chi : amap) : amap * amap :=
  match todo with
  | [] => (par, chi)
  | a :: rest =>
      let pre' := pre ++ [a] in
      let par1 := if ahas par a then par else aset par a pre' in
      let chi1 := if ahas chi a then chi else aset chi a [] in
      let chi2 := if sref_eqb a r then chi1 else aset chi1 a (ladd r (aget chi1 a)) in
      upd_add r pre' rest par1 chi2
  end.

(** Remove branch (pinned rule), [used] = [_schemas] after [r] was taken out. *)
Definition del_step (r : sref) (used : list sref) (pc : amap * amap) (a : sref) : amap * amap :=
  if smem a used then (fst pc, aset (snd pc) a (lrem r (aget (snd pc) a)))
  else if forallb (fun c => negb (smem c used)) (aget (snd pc) a)
       then (adel (fst pc) a, adel (snd pc) a)
       else pc.
Definition upd_del (r : sref) (used : list sref) (par chi : amap) : amap * amap :=
  fold_left (del_step r used) (aget par r) (par, chi).

Record toc : Type := mktoc { t_used : list sref; t_par : amap; t_chi : amap }.
Definition toc0 : toc := mktoc [] [] [].

(** [TOCSchemas._register] / [_unregister], index part. *)
Definition toc_register (e : env) (t : toc) (r : sref) : toc :=
  if smem r (t_used t) then t
  else let pc := upd_add r [] (ppath e r) (t_par t) (t_chi t) in
       mktoc (t_used t ++ [r]) (fst pc) (snd pc).
Definition toc_unregister (t : toc) (r : sref) : toc :=
  let used := lrem r (t_used t) in
  let pc := upd_del r used (t_par t) (t_chi t) in
  mktoc used (fst pc) (snd pc).
(** [TOCSchemas.__init__]: rebuilt from the stored parent paths of the used schemas. *)
Definition toc_rebuild (e : env) (used : list sref) : toc :=
  let pc := fold_left (fun pc r => upd_add r [] (ppath e r) (fst pc) (snd pc)) used ([], []) in
  mktoc used (fst pc) (snd pc).

(** ** Nodes and state *)

Definition path : Type := list string.

Fixpoint path_eqb (a b : path) : bool :=
  match a, b with
  | [], [] => true
  | x :: a', y :: b' => String.eqb x y && path_eqb a' b'
  | _, _ => false
  end.

(** [is_prefix q p]: [p] is [q] or lies below it. *)
Fixpoint is_prefix (q p : path) : bool :=
  match q with
  | [] => true
  | x :: q' => match p with
               | [] => false
               | y :: p' => String.eqb x y && is_prefix q' p'
               end
  end.
Definition is_below (q p : path) : bool := is_prefix q p && negb (path_eqb q p).
Definition rebase (s d p : path) : path := d ++ skipn (List.length s) p.

Record mobj : Type := mkmobj { m_ref : sref; m_uuid : N; m_val : string }.
Record node : Type := mknode { n_path : path; n_grp : bool; n_meta : list mobj }.
Record state : Type := mkstate { s_nodes : list node; s_toc : toc; s_next : N }.

Definition init_state : state := mkstate [mknode [] true []] toc0 0%N.

Fixpoint nfind (l : list node) (p : path) : option node :=
  match l with
  | [] => None
  | nd :: r => if path_eqb (n_path nd) p then Some nd else nfind r p
  end.
Definition nupd (l : list node) (p : path) (f : list mobj -> list mobj) : list node :=
  map (fun nd => if path_eqb (n_path nd) p then mknode (n_path nd) (n_grp nd) (f (n_meta nd)) else nd) l.

Definition oname (o : mobj) : string := fst (m_ref o).
Definition ofind (m : list mobj) (s : string) : option mobj := find (fun o => String.eqb (oname o) s) m.
Definition orem (m : list mobj) (s : string) : list mobj :=
  filter (fun o => negb (String.eqb (oname o) s)) m.
Definition ref_in_use (l : list node) (r : sref) : bool :=
  existsb (fun nd => existsb (fun o => sref_eqb (m_ref o) r) (n_meta nd)) l.

(** ** Per-node reads: [MetadorMeta._get_raw/query/__contains__/get/keys] *)

Definition get_raw (m : list mobj) (s : string) (v : option ver) : option mobj :=
  match ofind m s with
  | Some o => if vcompat s v (m_ref o) then Some o else None
  | None => None
  end.
(** [TOCSchemas.versions] and the union of [TOCSchemas.children] over it. *)
Definition tversions (t : toc) (s : string) (v : option ver) : list sref :=
  filter (vcompat s v) (akeys (t_chi t)).
Definition compat_set (t : toc) (s : string) (v : option ver) : list sref :=
  flat_map (aget (t_chi t)) (tversions t s v).
Definition via_child (t : toc) (s : string) (v : option ver) (o : mobj) : bool :=
  smem (m_ref o) (compat_set t s v).
(** Objects whose schema [MetadorMeta.query] yields: the exact one first. *)
Definition mquery (t : toc) (m : list mobj) (s : string) (v : option ver) : list mobj :=
  (match get_raw m s v with Some o => [o] | None => [] end) ++ filter (via_child t s v) m.
Definition mcontains (t : toc) (m : list mobj) (s : string) (v : option ver) : bool :=
  match mquery t m s v with [] => false | _ => true end.
Definition mkeys (m : list mobj) : list string := map oname m.

(** What [get] may pick: [next(self.query(...))] -- the exact one when present, otherwise
    any element of a Python set intersection (all of them are listed; the head is "the"
    answer of the model). *)
Definition cands (t : toc) (m : list mobj) (s : string) (v : option ver) : list mobj :=
  match get_raw m s v with
  | Some o => [o]
  | None => filter (via_child t s v) m
  end.

Inductive gres : Type := GNone | GFound (o : mobj) (cls : sref) | GErr (w : why).

(** Repaired rule: with no requested version the view class is resolved for the release of
    schema [s] nearest to the found object in its stored parent path. *)
Definition view_ver (t : toc) (c : sref) (s : string) (v : option ver) : option ver :=
  match v with
  | Some v => Some v
  | None => match find (fun a => String.eqb (fst a) s) (rev (aget (t_par t) c)) with
            | Some a => Some (snd a)
            | None => None
            end
  end.
Definition view (e : env) (t : toc) (s : string) (v : option ver) (o : mobj) : gres :=
  match eresolve e s (view_ver t (m_ref o) s v) with
  | Some cls => GFound o cls
  | None => GErr WUnknown
  end.
(** Pinned rule: [_require_schema(schema_name, schema_ver)] with the arguments as passed. *)
Definition view_pinned (e : env) (s : string) (v : option ver) (o : mobj) : gres :=
  match require_schema e s v with
  | inl cls => GFound o cls
  | inr w => GErr w
  end.

Definition get_all (e : env) (st : state) (p : path) (s : string) (v : option ver) : list gres :=
  match nfind (s_nodes st) p with
  | None => []
  | Some nd => map (view e (s_toc st) s v) (cands (s_toc st) (n_meta nd) s v)
  end.
Definition get (e : env) (st : state) (p : path) (s : string) (v : option ver) : gres :=
  match get_all e st p s v with [] => GNone | g :: _ => g end.
Definition get_pinned (e : env) (st : state) (p : path) (s : string) (v : option ver) : gres :=
  match nfind (s_nodes st) p with
  | None => GNone
  | Some nd => match cands (s_toc st) (n_meta nd) s v with
               | [] => GNone
               | o :: _ => view_pinned e s v o
               end
  end.

(** ** Container-level query and its specification *)

Definition ncontains (t : toc) (s : string) (v : option ver) (nd : node) : bool :=
  mcontains t (n_meta nd) s v.

(** [MetadorContainerTOC.query(schema, version, node=start)]. *)
Definition query (st : state) (start : path) (s : string) (v : option ver) : list path :=
  match nfind (s_nodes st) start with
  | None => []
  | Some nd =>
      (if ncontains (s_toc st) s v nd then [start] else []) ++
      (if n_grp nd
       then map n_path (filter (fun x => is_below start (n_path x) && ncontains (s_toc st) s v x)
                               (s_nodes st))
       else [])
  end.

(** Specification: decided from [env] and the stored objects only. *)
Definition carries (e : env) (s : string) (v : option ver) (o : mobj) : bool :=
  existsb (vcompat s v) (ppath e (m_ref o)).
Definition brute (e : env) (st : state) (start : path) (s : string) (v : option ver) : list path :=
  map n_path (filter (fun x => is_prefix start (n_path x) && existsb (carries e s v) (n_meta x))
                     (s_nodes st)).

(** ** Operations *)

Inductive res : Type := ROk | RRef (w : why).

(** [node.meta[schema] = value]: [validfor] lists the releases that accept the value
    (pydantic validation is not modelled: property C13). *)
Definition attach (e : env) (st : state) (p : path) (s : string) (v : option ver)
    (val : string) (validfor : list sref) : state * res :=
  match nfind (s_nodes st) p with
  | None => (st, RRef WNoNode)
  | Some nd =>
      match ofind (n_meta nd) s with
      | Some _ => (st, RRef WExists)
      | None =>
          match require_schema e s v with
          | inr w => (st, RRef w)
          | inl r =>
              if negb (smem r validfor) then (st, RRef WInvalid)
              else
                let o := mkmobj r (s_next st) val in
                (mkstate (nupd (s_nodes st) p (fun m => m ++ [o]))
                         (toc_register e (s_toc st) r) (N.succ (s_next st)), ROk)
          end
      end
  end.

(** Removal of one stored object with the TOC clean-up ([_del_raw] + [unregister]);
    identity when there is no such object. *)
Definition detach1 (st : state) (p : path) (s : string) : state :=
  match nfind (s_nodes st) p with
  | None => st
  | Some nd =>
      match ofind (n_meta nd) s with
      | None => st
      | Some o =>
          let nodes' := nupd (s_nodes st) p (fun m => orem m s) in
          let t' := if ref_in_use nodes' (m_ref o) then s_toc st
                    else toc_unregister (s_toc st) (m_ref o) in
          mkstate nodes' t' (s_next st)
      end
  end.

Definition detach (st : state) (p : path) (s : string) : state * res :=
  match nfind (s_nodes st) p with
  | None => (st, RRef WNoNode)
  | Some nd => match ofind (n_meta nd) s with
               | None => (st, RRef WNoObj)
               | Some _ => (detach1 st p s, ROk)
               end
  end.

(** All (node, schema name) pairs at or below [p]: what [_destroy_meta] walks over. *)
Definition meta_pairs (l : list node) (p : path) : list (path * string) :=
  flat_map (fun nd => if is_prefix p (n_path nd) then map (fun o => (n_path nd, oname o)) (n_meta nd) else [])
           l.
Definition destroy_meta (st : state) (p : path) : state :=
  fold_left (fun st ps => detach1 st (fst ps) (snd ps)) (meta_pairs (s_nodes st) p) st.

Fixpoint reuuid (m : list mobj) (nx : N) : list mobj * N :=
  match m with
  | [] => ([], nx)
  | o :: r => let rn := reuuid r (N.succ nx) in
              (mkmobj (m_ref o) nx (m_val o) :: fst rn, snd rn)
  end.
Fixpoint copy_nodes (s d : path) (wm : bool) (l : list node) (nx : N) : list node * N :=
  match l with
  | [] => ([], nx)
  | nd :: r =>
      if is_prefix s (n_path nd) then
        let mn := if wm then ([], nx) else reuuid (n_meta nd) nx in
        let rn := copy_nodes s d wm r (snd mn) in
        (mknode (rebase s d (n_path nd)) (n_grp nd) (fst mn) :: fst rn, snd rn)
      else copy_nodes s d wm r nx
  end.

Inductive op : Type :=
| OAttach (p : path) (s : string) (v : option ver) (val : string) (validfor : list sref)
| ODetach (p : path) (s : string)
| OMk (par : path) (name : string) (grp : bool)
| ODel (p : path)
| OMove (s dpar : path) (dname : string)
| OCopy (s dpar : path) (dname : string) (without_meta : bool)
| OReopen.

Definition is_grp_at (l : list node) (p : path) : bool :=
  match nfind l p with Some nd => n_grp nd | None => false end.
Definition has_node (l : list node) (p : path) : bool :=
  match nfind l p with Some _ => true | None => false end.

(** Can [s] be placed at [dpar/dname]? *)
Definition dest_ok (l : list node) (s dpar : path) (dname : string) : bool :=
  match s with [] => false | _ => true end &&
  has_node l s && is_grp_at l dpar && negb (has_node l (dpar ++ [dname])) &&
  negb (is_prefix s (dpar ++ [dname])).

Definition step (e : env) (st : state) (o : op) : state * res :=
  match o with
  | OAttach p s v val vf => attach e st p s v val vf
  | ODetach p s => detach st p s
  | OMk par name grp =>
      if is_grp_at (s_nodes st) par && negb (has_node (s_nodes st) (par ++ [name]))
      then (mkstate (s_nodes st ++ [mknode (par ++ [name]) grp []]) (s_toc st) (s_next st), ROk)
      else (st, RRef WBadPath)
  | ODel p =>
      match p with
      | [] => (st, RRef WBadPath)
      | _ => if has_node (s_nodes st) p
             then let st1 := destroy_meta st p in
                  (mkstate (filter (fun nd => negb (is_prefix p (n_path nd))) (s_nodes st1))
                           (s_toc st1) (s_next st1), ROk)
             else (st, RRef WNoNode)
      end
  | OMove s dpar dname =>
      if dest_ok (s_nodes st) s dpar dname
      then (mkstate (map (fun nd => if is_prefix s (n_path nd)
                                    then mknode (rebase s (dpar ++ [dname]) (n_path nd)) (n_grp nd) (n_meta nd)
                                    else nd) (s_nodes st))
                    (s_toc st) (s_next st), ROk)
      else (st, RRef WBadPath)
  | OCopy s dpar dname wm =>
      if dest_ok (s_nodes st) s dpar dname
      then let cn := copy_nodes s (dpar ++ [dname]) wm (s_nodes st) (s_next st) in
           (mkstate (s_nodes st ++ fst cn) (s_toc st) (snd cn), ROk)
      else (st, RRef WBadPath)
  | OReopen => (mkstate (s_nodes st) (toc_rebuild e (t_used (s_toc st))) (s_next st), ROk)
  end.

Definition run (e : env) (ops : list op) : state := fold_left (fun st o => fst (step e st o)) ops init_state.

(** ** Runner entry point.
    Case: [(env ops queries)] with
      env     = [((name a b c) (parent?) aux) ...]   oldest registration first,
      op      = [(attach path name (ver?) val (validfor...))] | [(detach path name)] |
                [(mk par name grp)] | [(del path)] | [(move s dpar dname)] |
                [(copy s dpar dname without_meta)] | [(reopen)],
      queries = [(name (ver?)) ...].
    Result: per operation [(res nodes per-node-observations)]. *)

Definition sx_sref (x : sx) : option sref :=
  match x with
  | L [A n; a; b; c] => option_map (fun v => (n, v)) (sx_ver3 a b c)
  | _ => None
  end.
Definition sx_over (x : sx) : option (option ver) :=
  match x with
  | L [] => Some None
  | L [a; b; c] => option_map Some (sx_ver3 a b c)
  | _ => None
  end.
Definition sx_path (x : sx) : option path := sx_strings x.

Definition sx_env_entry (x : sx) : option (sref * sinfo) :=
  match x with
  | L [r; p; aux] =>
      match sx_sref r, sx_opt sx_sref p, sx_bool aux with
      | Some r, Some p, Some aux => Some (r, mksinfo p aux)
      | _, _, _ => None
      end
  | _ => None
  end.

Definition sx_op (x : sx) : option op :=
  match x with
  | L [A "attach"; p; A s; v; A val; vf] =>
      match sx_path p, sx_over v, sx_map sx_sref vf with
      | Some p, Some v, Some vf => Some (OAttach p s v val vf)
      | _, _, _ => None
      end
  | L [A "detach"; p; A s] => option_map (fun p => ODetach p s) (sx_path p)
  | L [A "mk"; p; A n; g] =>
      match sx_path p, sx_bool g with Some p, Some g => Some (OMk p n g) | _, _ => None end
  | L [A "del"; p] => option_map ODel (sx_path p)
  | L [A "move"; s; d; A n] =>
      match sx_path s, sx_path d with Some s, Some d => Some (OMove s d n) | _, _ => None end
  | L [A "copy"; s; d; A n; wm] =>
      match sx_path s, sx_path d, sx_bool wm with
      | Some s, Some d, Some wm => Some (OCopy s d n wm)
      | _, _, _ => None
      end
  | L [A "reopen"] => Some OReopen
  | _ => None
  end.

Definition sx_q (x : sx) : option (string * option ver) :=
  match x with
  | L [A s; v] => option_map (fun v => (s, v)) (sx_over v)
  | _ => None
  end.

Definition of_sref (r : sref) : sx := L [A (fst r); of_ver (snd r)].
Definition of_why (w : why) : sx :=
  A (match w with
     | WNoNode => "nonode" | WExists => "exists" | WUnknown => "unknown" | WAux => "aux"
     | WInvalid => "invalid" | WNoObj => "noobj" | WBadPath => "badpath"
     end).
Definition of_res (r : res) : sx := match r with ROk => A "ok" | RRef w => of_why w end.
Definition of_mobj (o : mobj) : sx := L [of_sref (m_ref o); of_N (m_uuid o); A (m_val o)].
Definition of_gres (g : gres) : sx :=
  match g with
  | GNone => L [A "none"]
  | GFound o c => L [A "found"; of_mobj o; of_sref c]
  | GErr w => L [A "err"; of_why w]
  end.
Definition of_node (nd : node) : sx :=
  L [of_strings (n_path nd); of_bool (n_grp nd); of_list of_mobj (n_meta nd)].

Definition observe (e : env) (st : state) (qs : list (string * option ver)) : sx :=
  of_list (fun nd =>
    L [of_strings (n_path nd);
       of_list (fun q =>
         L [of_list of_strings (query st (n_path nd) (fst q) (snd q));
            of_list of_strings (brute e st (n_path nd) (fst q) (snd q));
            of_bool (ncontains (s_toc st) (fst q) (snd q) nd);
            of_list of_gres (get_all e st (n_path nd) (fst q) (snd q));
            of_gres (get_pinned e st (n_path nd) (fst q) (snd q))]) qs])
    (s_nodes st).

Definition run_c07 (x : sx) : sx :=
  match x with
  | L [ev; ops; qs] =>
      match sx_map sx_env_entry ev, sx_map sx_op ops, sx_map sx_q qs with
      | Some ev, Some ops, Some qs =>
          let e := rev ev in
          if negb (env_wfb e) then sx_bad "env" else
          let fix go (st : state) (l : list op) : list sx :=
            match l with
            | [] => []
            | o :: r =>
                let sr := step e st o in
                L [of_res (snd sr); of_list of_node (s_nodes (fst sr)); observe e (fst sr) qs]
                  :: go (fst sr) r
            end in
          L (go init_state ops)
      | _, _, _ => sx_bad "c07"
      end
  | _ => sx_bad "c07"
  end.
