(** * Proofs about the access-restriction model (property C15). *)
From Coq Require Import List String Bool.
From MV Require Import Base.Sx Toc.Acl.
Import ListNotations.
Local Open Scope string_scope.
Local Open Scope list_scope.
Local Arguments mem : simpl never.

(** ** Flags *)

Lemma f_le_refl a : f_le a a = true.
Proof. destruct a as [[] [] []]; reflexivity. Qed.

Lemma f_le_or_l a b : f_le a (f_or a b) = true.
Proof. destruct a as [[] [] []], b as [[] [] []]; reflexivity. Qed.

Lemma f_le_or_r a b : f_le b (f_or a b) = true.
Proof. destruct a as [[] [] []], b as [[] [] []]; reflexivity. Qed.

Lemma f_le_trans a b c : f_le a b = true -> f_le b c = true -> f_le a c = true.
Proof. destruct a as [[] [] []], b as [[] [] []], c as [[] [] []]; cbv; intros; congruence. Qed.

Lemma f_le_ro a b : f_le a b = true -> ro a = true -> ro b = true.
Proof. destruct a as [[] [] []], b as [[] [] []]; cbv; intros; congruence. Qed.

Lemma f_le_lo a b : f_le a b = true -> lo a = true -> lo b = true.
Proof. destruct a as [[] [] []], b as [[] [] []]; cbv; intros; congruence. Qed.

Lemma f_le_so a b : f_le a b = true -> so a = true -> so b = true.
Proof. destruct a as [[] [] []], b as [[] [] []]; cbv; intros; congruence. Qed.

(** ** Paths *)

Lemma is_prefix_refl p : is_prefix p p = true.
Proof. induction p; simpl; [reflexivity|]. rewrite String.eqb_refl; assumption. Qed.

Lemma is_prefix_app r p s : is_prefix r p = true -> is_prefix r (p ++ s) = true.
Proof.
  revert p; induction r as [|a r IH]; intros p H; [reflexivity|].
  destruct p as [|b p]; simpl in *; [discriminate|].
  apply andb_true_iff in H; destruct H as [H1 H2]. rewrite H1; simpl. apply IH; assumption.
Qed.

Lemma is_prefix_trans a b c : is_prefix a b = true -> is_prefix b c = true -> is_prefix a c = true.
Proof.
  revert b c; induction a as [|x a IH]; intros b c H1 H2; [reflexivity|].
  destruct b as [|y b]; simpl in H1; [discriminate|].
  destruct c as [|z c]; simpl in H2; [discriminate|].
  apply andb_true_iff in H1; destruct H1 as [E1 P1].
  apply andb_true_iff in H2; destruct H2 as [E2 P2].
  apply String.eqb_eq in E1; apply String.eqb_eq in E2; subst. simpl.
  rewrite String.eqb_refl; simpl. eapply IH; eassumption.
Qed.

Lemma path_eqb_eq p q : path_eqb p q = true -> p = q.
Proof.
  revert q; induction p as [|a p IH]; intros [|b q] H; simpl in H; try discriminate; [reflexivity|].
  apply andb_true_iff in H; destruct H as [E H]. apply String.eqb_eq in E; subst.
  f_equal; apply IH; assumption.
Qed.

(** ** One step: flags are only added, never removed *)

Lemma derive_flags n p k : nfl (derive n p k) = nfl n.
Proof. reflexivity. Qed.

Lemma nav1_flags_monotone t n p t' n' :
  nav1 t n p = NOk t' n' -> f_le (nfl n) (nfl n') = true.
Proof.
  destruct p as [a|a| | |nm|nm|rel|c a|tgt|f|h]; simpl;
    unfold nav_lookup, nav_listed, nav_create, nav_parent, nav_file, nav_query.
  - destruct (nkind n); [|destruct (so (nfl n)); discriminate].
    destruct (guard_path n a); [discriminate|].
    destruct (lookup t (target n a)); [|discriminate].
    intros H; inversion H; subst; apply f_le_refl.
  - destruct (nkind n); [|destruct (so (nfl n)); discriminate].
    destruct (guard_path n a); [discriminate|].
    destruct (lookup t (target n a)); [|discriminate].
    intros H; inversion H; subst; apply f_le_refl.
  - destruct (lo (nfl n)).
    + destruct (nstack n) as [|fr rest]; [discriminate|].
      intros H; inversion H; subst; simpl. apply f_le_or_r.
    + intros H; inversion H; subst; apply f_le_refl.
  - destruct (lo (nfl n)); [discriminate|].
    intros H; inversion H; subst; apply f_le_refl.
  - destruct (nkind n); [|discriminate].
    destruct (lookup t (npath n ++ [nm])); [|discriminate].
    intros H; inversion H; subst; apply f_le_refl.
  - destruct (nkind n); [|discriminate].
    destruct (lookup t (npath n ++ [nm])); [|discriminate].
    intros H; inversion H; subst; apply f_le_refl.
  - destruct (nkind n); [|discriminate]. destruct rel; [discriminate|].
    destruct (lookup t (npath n ++ s :: rel)); [|discriminate].
    intros H; inversion H; subst; apply f_le_refl.
  - destruct (nkind n); [|discriminate].
    destruct (guard_path n a); [discriminate|].
    destruct (ro (nfl n)); [discriminate|].
    destruct (tree_creator c t (target n a)); [|discriminate].
    intros H; inversion H; subst; apply f_le_refl.
  - destruct (negb (has_meta t tgt)); [discriminate|].
    destruct (path_eqb tgt (npath n)).
    + intros H; inversion H; subst; apply f_le_refl.
    + destruct (nkind n); [|discriminate].
      destruct (is_prefix (npath n) tgt); [|discriminate].
      destruct (lookup t tgt); [|discriminate].
      intros H; inversion H; subst; apply f_le_refl.
  - intros H; inversion H; subst; simpl. apply f_le_or_l.
  - unfold nav_meta. destruct (so (nfl n)); [discriminate|].
    destruct (negb (has_objs t (npath n))); [discriminate|].
    destruct h; unfold nav_file, nav_parent, meta_node; simpl; rewrite ?orb_true_r; try discriminate.
    intros H; inversion H; subst; simpl. apply f_le_or_l.
Qed.

Lemma nav_flags_monotone ch : forall t n t' n',
  nav t n ch = NOk t' n' -> f_le (nfl n) (nfl n') = true.
Proof.
  induction ch as [|p ch IH]; intros t n t' n' H; simpl in H.
  - inversion H; subst; apply f_le_refl.
  - destruct (nav1 t n p) as [t1 n1| |] eqn:E; try discriminate.
    eapply f_le_trans; [eapply nav1_flags_monotone; eassumption|]. eapply IH; eassumption.
Qed.

(** ** read_only *)

(** Under read_only no step changes the tree. *)
Lemma nav1_ro_tree t n p t' n' :
  ro (nfl n) = true -> nav1 t n p = NOk t' n' -> t' = t.
Proof.
  intros R.
  destruct p as [a|a| | |nm|nm|rel|c a|tgt|f|h]; simpl;
    unfold nav_lookup, nav_listed, nav_create, nav_parent, nav_file, nav_query.
  - destruct (nkind n); [|destruct (so (nfl n)); discriminate].
    destruct (guard_path n a); [discriminate|].
    destruct (lookup t (target n a)); [|discriminate]. intros H; inversion H; reflexivity.
  - destruct (nkind n); [|destruct (so (nfl n)); discriminate].
    destruct (guard_path n a); [discriminate|].
    destruct (lookup t (target n a)); [|discriminate]. intros H; inversion H; reflexivity.
  - destruct (lo (nfl n)).
    + destruct (nstack n); [discriminate|]. intros H; inversion H; reflexivity.
    + intros H; inversion H; reflexivity.
  - destruct (lo (nfl n)); [discriminate|]. intros H; inversion H; reflexivity.
  - destruct (nkind n); [|discriminate].
    destruct (lookup t (npath n ++ [nm])); [|discriminate]. intros H; inversion H; reflexivity.
  - destruct (nkind n); [|discriminate].
    destruct (lookup t (npath n ++ [nm])); [|discriminate]. intros H; inversion H; reflexivity.
  - destruct (nkind n); [|discriminate]. destruct rel; [discriminate|].
    destruct (lookup t (npath n ++ s :: rel)); [|discriminate]. intros H; inversion H; reflexivity.
  - destruct (nkind n); [|discriminate].
    destruct (guard_path n a); [discriminate|]. rewrite R. discriminate.
  - destruct (negb (has_meta t tgt)); [discriminate|].
    destruct (path_eqb tgt (npath n)); [intros H; inversion H; reflexivity|].
    destruct (nkind n); [|discriminate].
    destruct (is_prefix (npath n) tgt); [|discriminate].
    destruct (lookup t tgt); [|discriminate]. intros H; inversion H; reflexivity.
  - intros H; inversion H; reflexivity.
  - unfold nav_meta. destruct (so (nfl n)); [discriminate|].
    destruct (negb (has_objs t (npath n))); [discriminate|].
    destruct h; unfold nav_file, nav_parent, meta_node; simpl; rewrite ?orb_true_r; try discriminate.
    intros H; inversion H; reflexivity.
Qed.

Lemma nav_ro ch : forall t n t' n',
  ro (nfl n) = true -> nav t n ch = NOk t' n' -> ro (nfl n') = true /\ t' = t.
Proof.
  induction ch as [|p ch IH]; intros t n t' n' R H; simpl in H.
  - inversion H; subst; split; [assumption|reflexivity].
  - destruct (nav1 t n p) as [t1 n1| |] eqn:E; try discriminate.
    assert (R1 : ro (nfl n1) = true)
      by (eapply f_le_ro; [eapply nav1_flags_monotone; eassumption|assumption]).
    assert (t1 = t) by (eapply nav1_ro_tree; [exact R|exact E]). subst t1.
    eapply IH; eassumption.
Qed.

Lemma mutators_not_whitelisted name :
  mem name attr_mutators = true -> mem name wl_ro = false.
Proof.
  unfold mem, attr_mutators, wl_ro; simpl. rewrite !orb_false_r. intros H.
  repeat (apply orb_true_iff in H; destruct H as [H|H]);
    apply String.eqb_eq in H; subst; reflexivity.
Qed.

Lemma readers_not_whitelisted name :
  mem name attr_value_readers = true -> mem name wl_so = false.
Proof.
  unfold mem, attr_value_readers, wl_so; simpl. rewrite !orb_false_r. intros H.
  repeat (apply orb_true_iff in H; destruct H as [H|H]);
    apply String.eqb_eq in H; subst; reflexivity.
Qed.

(** Every mutating operation on a read_only node is stopped by a guard. *)
Lemma guard_ro n o :
  ro (nfl n) = true -> mutating o = true ->
  guard n o = Refused \/ guard n o = NotApplicable.
Proof.
  intros R M. unfold guard. destruct o as [g a|a b|a b| |a| | | |name|a|m]; simpl in M; try discriminate.
  - destruct (nkind n); [left|right; reflexivity]. rewrite R, orb_true_r. reflexivity.
  - destruct (nkind n); [left|right; reflexivity]. rewrite R. reflexivity.
  - destruct (nkind n); [left|right; reflexivity]. rewrite R. reflexivity.
  - destruct (nkind n); [left|right; reflexivity]. rewrite R. reflexivity.
  - destruct (nkind n); [right; reflexivity|left]. rewrite R. reflexivity.
  - destruct (nkind n); [right; reflexivity|left]. rewrite R, M. reflexivity.
  - left. unfold guard_attr, attr_wrapped. rewrite R; simpl.
    destruct a as [ | | | | | |name present]; try discriminate; try reflexivity.
    apply andb_true_iff in M; destruct M as [P M]. subst present.
    unfold attr_allowed. rewrite R; simpl. rewrite (mutators_not_whitelisted _ M). reflexivity.
  - left. destruct m; try discriminate; simpl; rewrite R; reflexivity.
Qed.

Lemma guard_ro_applicable n o :
  ro (nfl n) = true -> mutating o = true -> applicable n o = true -> guard n o = Refused.
Proof.
  intros R M A. destruct (guard_ro n o R M) as [H|H]; [assumption|].
  unfold applicable in A. rewrite H in A. discriminate.
Qed.

(** A refused (or inapplicable) operation never reaches the raw layer. *)
Lemma exec_not_passed {S} (raw : S -> path -> op -> S) s n o :
  guard n o <> Passed -> exec raw s n o = (s, guard n o).
Proof. unfold exec. destruct (guard n o); [reflexivity|congruence|reflexivity]. Qed.

Lemma ro_closed {S} (raw : S -> path -> op -> S) (s : S) ch t start t' n :
  ro (nfl start) = true -> nav t start ch = NOk t' n ->
  ro (nfl n) = true /\ t' = t /\
  forall o, mutating o = true ->
    exec raw s n o = (s, guard n o) /\ guard n o <> Passed /\
    (applicable n o = true -> guard n o = Refused).
Proof.
  intros R H. destruct (nav_ro ch _ _ _ _ R H) as [R' T]. split; [assumption|]. split; [assumption|].
  intros o M.
  assert (NP : guard n o <> Passed) by (destruct (guard_ro n o R' M) as [E|E]; rewrite E; discriminate).
  split; [apply exec_not_passed; assumption|]. split; [assumption|].
  apply guard_ro_applicable; assumption.
Qed.

(** ** skel_only *)

Lemma guard_so n o :
  so (nfl n) = true -> revealing o = true ->
  guard n o = Refused \/ guard n o = NotApplicable.
Proof.
  intros R M. unfold guard. destruct o as [g a|a b|a b| |a| | | |name|a|m]; simpl in M; try discriminate.
  - destruct (nkind n); [right; reflexivity|left]. rewrite R. reflexivity.
  - left. unfold guard_attr, attr_wrapped. rewrite R, orb_true_r; simpl.
    destruct a as [ | | | | | |name present]; try discriminate; try reflexivity.
    apply andb_true_iff in M; destruct M as [P M]. subst present.
    unfold attr_allowed. rewrite R; simpl. rewrite (readers_not_whitelisted _ M).
    rewrite andb_false_r. reflexivity.
  - left. destruct m; try discriminate; simpl; rewrite R; reflexivity.
Qed.

Lemma so_closed ch t start t' n :
  so (nfl start) = true -> nav t start ch = NOk t' n ->
  so (nfl n) = true /\
  forall o, revealing o = true ->
    guard n o <> Passed /\ (applicable n o = true -> guard n o = Refused).
Proof.
  intros R H.
  assert (R' : so (nfl n) = true)
    by (eapply f_le_so; [eapply nav_flags_monotone; eassumption|assumption]).
  split; [assumption|]. intros o M. destruct (guard_so n o R' M) as [E|E].
  - split; [rewrite E; discriminate|intros _; assumption].
  - split; [rewrite E; discriminate|]. unfold applicable; rewrite E; discriminate.
Qed.

(** ** local_only *)

(** The invariant of every node reachable from a local root at [R]. *)
Definition frames_ok (R : path) (st : list frame) : Prop :=
  Forall (fun fr => is_prefix R (fpath fr) = true /\ lo (ffl fr) = true) st.

Definition local_inv (R : path) (n : node) : Prop :=
  lo (nfl n) = true /\ is_prefix R (npath n) = true /\ frames_ok R (nstack n).

Lemma derive_inv R n p k :
  local_inv R n -> is_prefix R p = true -> local_inv R (derive n p k).
Proof.
  intros (L & P & F) Pp. unfold local_inv, derive, child_stack; simpl. rewrite L.
  repeat split; try assumption. constructor; [split; assumption|assumption].
Qed.

Lemma nav1_local R t n p t' n' :
  local_inv R n -> nav1 t n p = NOk t' n' -> local_inv R n'.
Proof.
  intros I. pose proof I as (L & P & F).
  destruct p as [a|a| | |nm|nm|rel|c a|tgt|f|h]; simpl;
    unfold nav_lookup, nav_listed, nav_create, nav_parent, nav_file, nav_query, guard_path, target.
  - destruct (nkind n); [|destruct (so (nfl n)); discriminate]. rewrite L; simpl.
    destruct (pabs a); [discriminate|].
    destruct (lookup t (npath n ++ psegs a)); [|discriminate].
    intros H; inversion H; subst. apply derive_inv; [assumption|apply is_prefix_app; assumption].
  - destruct (nkind n); [|destruct (so (nfl n)); discriminate]. rewrite L; simpl.
    destruct (pabs a); [discriminate|].
    destruct (lookup t (npath n ++ psegs a)); [|discriminate].
    intros H; inversion H; subst. apply derive_inv; [assumption|apply is_prefix_app; assumption].
  - rewrite L. destruct (nstack n) as [|fr rest] eqn:Es; [discriminate|].
    intros H; inversion H; subst. inversion F as [|x l [Pf Lf] Fr]; subst.
    unfold local_inv; simpl. rewrite Lf; simpl. repeat split; assumption.
  - rewrite L. discriminate.
  - destruct (nkind n); [|discriminate].
    destruct (lookup t (npath n ++ [nm])); [|discriminate].
    intros H; inversion H; subst. apply derive_inv; [assumption|apply is_prefix_app; assumption].
  - destruct (nkind n); [|discriminate].
    destruct (lookup t (npath n ++ [nm])); [|discriminate].
    intros H; inversion H; subst. apply derive_inv; [assumption|apply is_prefix_app; assumption].
  - destruct (nkind n); [|discriminate]. destruct rel; [discriminate|].
    destruct (lookup t (npath n ++ s :: rel)); [|discriminate].
    intros H; inversion H; subst. apply derive_inv; [assumption|apply is_prefix_app; assumption].
  - destruct (nkind n); [|discriminate]. rewrite L; simpl.
    destruct (pabs a); [discriminate|].
    destruct (ro (nfl n)); [discriminate|].
    destruct (tree_creator c t (npath n ++ psegs a)); [|discriminate].
    intros H; inversion H; subst. apply derive_inv; [assumption|apply is_prefix_app; assumption].
  - destruct (negb (has_meta t tgt)); [discriminate|].
    destruct (path_eqb tgt (npath n)); [intros H; inversion H; subst; assumption|].
    destruct (nkind n); [|discriminate].
    destruct (is_prefix (npath n) tgt) eqn:Pt; [|discriminate].
    destruct (lookup t tgt); [|discriminate].
    intros H; inversion H; subst. apply derive_inv; [assumption|].
    eapply is_prefix_trans; eassumption.
  - intros H; inversion H; subst. unfold local_inv, restrict; simpl. rewrite L; simpl.
    repeat split; try assumption. destruct (lo f); [constructor|assumption].
  - unfold nav_meta. destruct (so (nfl n)); [discriminate|].
    destruct (negb (has_objs t (npath n))); [discriminate|].
    destruct h; unfold nav_file, nav_parent, meta_node; simpl; rewrite ?orb_true_r; try discriminate.
    intros H; inversion H; subst. unfold local_inv; simpl. rewrite orb_true_r.
    repeat split; [assumption|constructor].
Qed.

Lemma nav_local ch : forall R t n t' n',
  local_inv R n -> nav t n ch = NOk t' n' -> local_inv R n'.
Proof.
  induction ch as [|p ch IH]; intros R t n t' n' I H; simpl in H.
  - inversion H; subst; assumption.
  - destruct (nav1 t n p) as [t1 n1| |] eqn:E; try discriminate.
    eapply IH; [eapply nav1_local; eassumption|eassumption].
Qed.

(** What a local_only node refuses: the container, absolute paths, and the parent of
    the local root. *)
Lemma guard_lo n o :
  lo (nfl n) = true -> upward o = true -> guard n o = Refused \/ guard n o = NotApplicable.
Proof.
  intros Lo U. unfold guard, guard_path.
  destruct o as [g a|a b|a b| |a| | | |name|a|m]; simpl in U; try discriminate;
    (destruct (nkind n); [left|right; reflexivity]); rewrite Lo; simpl.
  - rewrite U; reflexivity.
  - destruct (ro (nfl n)); [reflexivity|]. simpl.
    destruct (pabs a); [reflexivity|]. simpl in *. rewrite U. reflexivity.
  - destruct (ro (nfl n)); [reflexivity|]. simpl.
    destruct (pabs a); [reflexivity|]. simpl in *. rewrite U. reflexivity.
  - rewrite U; reflexivity.
Qed.

Definition not_ok (r : navres) : Prop := forall t n, r <> NOk t n.

Lemma lo_refusals t n :
  lo (nfl n) = true ->
  nav1 t n PFile = NRefused /\
  (nstack n = [] -> nav1 t n PParent = NRefused) /\
  (forall a, pabs a = true ->
     not_ok (nav1 t n (PGetItem a)) /\ not_ok (nav1 t n (PGet a)) /\
     forall c, not_ok (nav1 t n (PCreate c a))) /\
  (forall a, pabs a = true -> nkind n = KGroup ->
     nav1 t n (PGetItem a) = NRefused /\ nav1 t n (PGet a) = NRefused /\
     forall c, nav1 t n (PCreate c a) = NRefused).
Proof.
  intros Lo. simpl. unfold nav_file, nav_parent, nav_lookup, nav_create, guard_path. rewrite Lo.
  split; [reflexivity|]. split; [intros ->; reflexivity|]. split.
  - intros a Ab. rewrite Ab; simpl. unfold not_ok.
    destruct (nkind n); repeat split; try discriminate; destruct (so (nfl n)); discriminate.
  - intros a Ab K. rewrite Ab, K; simpl. repeat split.
Qed.

Lemma lo_closed_gen ch R t start t' n :
  local_inv R start -> nav t start ch = NOk t' n ->
  lo (nfl n) = true /\ is_prefix R (npath n) = true /\
  nav1 t' n PFile = NRefused /\
  (nstack n = [] -> nav1 t' n PParent = NRefused) /\
  (forall a, pabs a = true ->
     not_ok (nav1 t' n (PGetItem a)) /\ not_ok (nav1 t' n (PGet a)) /\
     forall c, not_ok (nav1 t' n (PCreate c a))) /\
  (forall o, upward o = true ->
     guard n o <> Passed /\ (applicable n o = true -> guard n o = Refused)).
Proof.
  intros I H. destruct (nav_local ch _ _ _ _ _ I H) as (L & P & F).
  destruct (lo_refusals t' n L) as (Hf & Hp & Ha & _).
  repeat split; try assumption; try (apply Ha; assumption).
  - destruct (guard_lo n o L H0) as [E|E]; rewrite E; discriminate.
  - intros A. destruct (guard_lo n o L H0) as [E|E]; [assumption|].
    unfold applicable in A; rewrite E in A; discriminate.
Qed.

Lemma lo_closed ch t start t' n :
  lo (nfl start) = true -> nstack start = [] -> nav t start ch = NOk t' n ->
  lo (nfl n) = true /\ is_prefix (npath start) (npath n) = true /\
  nav1 t' n PFile = NRefused /\
  (nstack n = [] -> nav1 t' n PParent = NRefused) /\
  (forall a, pabs a = true ->
     not_ok (nav1 t' n (PGetItem a)) /\ not_ok (nav1 t' n (PGet a)) /\
     forall c, not_ok (nav1 t' n (PCreate c a))) /\
  (forall o, upward o = true ->
     guard n o <> Passed /\ (applicable n o = true -> guard n o = Refused)).
Proof.
  intros L S H. eapply lo_closed_gen; [|eassumption].
  unfold local_inv, frames_ok. rewrite S. repeat split; [assumption|apply is_prefix_refl|constructor].
Qed.

(** Every step above the local root is a [parent] step that pops a stored local parent:
    the node a chain ends in is never outside the subtree, and going up from the local
    root itself is refused (previous lemma).  *)

(** The guards look at the kind and the flags of a node only (this is what the harness's
    guard table per (kind, flags) relies on). *)
Lemma guard_local n m o :
  nkind n = nkind m -> nfl n = nfl m -> guard n o = guard m o.
Proof. intros K F. unfold guard, guard_path. rewrite K, F. reflexivity. Qed.

(** ** restrict *)

Lemma restrict_only_adds f n :
  f_le (nfl n) (nfl (restrict f n)) = true /\ f_le f (nfl (restrict f n)) = true /\
  npath (restrict f n) = npath n /\ nkind (restrict f n) = nkind n.
Proof. simpl. repeat split; [apply f_le_or_l|apply f_le_or_r]. Qed.

(** ** The pinned rules lose restrictions *)

Definition demo_tree : tree :=
  [mkE ["g"] KGroup true true; mkE ["g"; "h"] KGroup false false;
   mkE ["g"; "h"; "d"] KDataset true true; mkE ["g"; "e"] KDataset false false;
   mkE ["top"] KDataset false true].

(** [file] of a read_only group is the unrestricted container. *)
Lemma pinned_file_refuted :
  exists t start ch t' n,
    ro (nfl start) = true /\ nav_pinned f_none t start ch = NOk t' n /\
    ro (nfl n) = false /\ guard n (OGrp GCreateGroup (mkP false ["x"])) = Passed.
Proof.
  exists demo_tree, (mkN ["g"] KGroup (mkF true false false) []), [PFile].
  eexists; eexists. vm_compute. repeat split.
Qed.

(** A restriction added to a child of a local root is lost by [parent]. *)
Lemma pinned_parent_refuted :
  exists t start ch t' n,
    ro (nfl start) = true /\ nav_pinned f_none t start ch = NOk t' n /\
    ro (nfl n) = false /\ guard n (OGrp GCreateGroup (mkP false ["x"])) = Passed.
Proof.
  exists demo_tree,
    (mkN ["g"; "h"] KGroup (mkF true true false) [mkFr ["g"] (mkF false true false)]), [PParent].
  eexists; eexists. vm_compute. repeat split.
Qed.

(** The same through a chain that starts at a freshly restricted node. *)
Lemma pinned_so_chain_refuted :
  exists t start ch t' n,
    lo (nfl start) = true /\ nstack start = [] /\
    nav_pinned f_none t start ch = NOk t' n /\
    exists m, nav_pinned f_none t start (removelast ch) = NOk t' m /\
              so (nfl m) = true /\ so (nfl n) = false.
Proof.
  exists demo_tree, (mkN ["g"] KGroup (mkF false true false) []),
    [PGetItem (mkP false ["h"]); PRestrict (mkF false false true); PParent].
  eexists; eexists. vm_compute. repeat split. eexists. repeat split.
Qed.

(** ** Metadata listings: the pinned rule hands out raw objects (recorded known finding) *)

(** read_only: the object handed out accepts mutations (dataset write on [.node],
    create_group on [.node.file] and on [.node.parent]). *)
Lemma pinned_meta_ro_refuted :
  exists t start,
    ro (nfl start) = true /\
    (exists t' n, nav1_pinned_meta t start (PMeta HNode) = NOk t' n /\
                  ro (nfl n) = false /\ guard n ODsWrite = Passed /\ guard n (OAttr ASetItem) = Passed) /\
    (exists t' n, nav1_pinned_meta t start (PMeta HFile) = NOk t' n /\
                  guard n (OGrp GCreateGroup (mkP false ["x"])) = Passed) /\
    (exists t' n, nav1_pinned_meta t start (PMeta HParent) = NOk t' n /\
                  guard n (OGrp GCreateGroup (mkP false ["x"])) = Passed).
Proof.
  exists demo_tree, (mkN ["g"] KGroup (mkF true false false) []).
  split; [reflexivity|]. repeat split; eexists; eexists; vm_compute; repeat split.
Qed.

(** local_only: [.node.file] is the whole container, above the local root, and is not
    local_only itself. *)
Lemma pinned_meta_lo_refuted :
  exists t start t' n,
    lo (nfl start) = true /\ nstack start = [] /\
    nav1_pinned_meta t start (PMeta HFile) = NOk t' n /\
    is_prefix (npath start) (npath n) = false /\ lo (nfl n) = false /\
    exists t'' m, nav1 t' n (PGetItem (mkP true ["top"])) = NOk t'' m.
Proof.
  exists demo_tree, (mkN ["g"] KGroup (mkF false true false) []).
  eexists; eexists. vm_compute. repeat split. eexists; eexists; reflexivity.
Qed.

(** The two rules agree on when a listing is refused or empty; they differ in what is handed out. *)
Lemma meta_rules_same_refusals t n h :
  (nav_meta_pinned t n h = NRefused <-> so (nfl n) = true) /\
  (so (nfl n) = true -> nav_meta t n h = NRefused) /\
  (so (nfl n) = false -> has_objs t (npath n) = false ->
     nav_meta t n h = NErr /\ nav_meta_pinned t n h = NErr).
Proof.
  unfold nav_meta, nav_meta_pinned. destruct (so (nfl n)); simpl.
  - repeat split; try reflexivity; intros; discriminate.
  - repeat split; try discriminate.
    + destruct (negb (has_objs t (npath n))); discriminate.
    + rewrite H0; reflexivity.
    + rewrite H0; reflexivity.
Qed.

(** Under the demanded rule nothing but the object node itself is handed out, it carries the
    owner's flags, and it is a local root. *)
Lemma meta_demanded t n h t' m :
  nav_meta t n h = NOk t' m ->
  h = HNode /\ t' = t /\ npath m = npath n /\ f_le (nfl n) (nfl m) = true /\
  lo (nfl m) = true /\ nstack m = [].
Proof.
  unfold nav_meta. destruct (so (nfl n)); [discriminate|].
  destruct (negb (has_objs t (npath n))); [discriminate|].
  destruct h; unfold nav_file, nav_parent, meta_node; simpl; rewrite ?orb_true_r; try discriminate.
  intros H; inversion H; subst; simpl. rewrite orb_true_r. repeat split. apply f_le_or_l.
Qed.
