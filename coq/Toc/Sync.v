(** * Sync: the container TOC and the attached metadata objects are in one-to-one sync
    (property C06).

    Wraps the container model of [Toc/UserView.v] ([cstate], [c_step]) into the state a
    [MetadorContainer] object really has:
    - [sstate] = the raw tree (incl. [metador_meta_*] sidecars and the TOC below
      [/metador_container]) + the in-memory index [mem] of [MetadorContainerTOC]
      ([TOCLinks._toc_path], [TOCSchemas._schemas/_parents/_children/_used],
      [TOCPackages._pkginfos]) + the read-only flag of the open container;
    - [env]: the schema environment (plugin group): entry-point name, providing package,
      parent path, auxiliary flag, and whether exporting the schema raises;
    - [s_step]: one container operation.  Data operations and detach are [c_step]; attach
      first runs the checks of [MetadorMeta.__setitem__] against the environment; the index is
      maintained incrementally ([ix_register] / [ix_unregister] transcribe
      [TOCLinks.register/unregister], [TOCSchemas._register/_unregister],
      [_update_parents_children], [TOCPackages._register/_unregister]); [SReopen] replaces
      the index by [load] (the constructors [TOCPackages/TOCSchemas/TOCLinks.__init__]);
    - [Sync]: the property; [syncb]: its executable checker;
    - [run_c06 : sx -> sx] for the extracted runner.

    Rules of the pinned tree kept beside the demanded ones ([s_step_gen]):
    - [attach_pinned]: [_set_raw] stores the object before [register]; when the schema
      export / provider lookup raises, the object (and a half-written schema record) stays;
    - [upc_remove_pinned]: [_update_parents_children(ref, None)] leaves [ref] in the children
      set of parents that are not themselves in use; [_unregister] keeps the (empty) [_used]
      entry of a package it removes.

    Faithfulness notes on [UserView.c_step] (nothing had to be replaced):
    copy re-uuids every copied object ([reuuid_region]), move re-targets the links
    ([relink_region]); [c_attach] itself checks neither the environment nor the value, so
    attach goes through [s_attach] here.  The contents of [schemas/<s>/compat] and
    [packages/<p>] are constants in [UserView]; [load] therefore takes parent paths and
    providers from [env] (the harness checks on every dump that the stored [compat] equals the
    environment's parent path and that the stored package lists the schema).

    Model file: definitions only; lemmas are in [Toc/SyncProofs.v]. *)
From Coq Require Import List String Ascii Bool NArith.
From MV Require Import Base.Sx Toc.Layout Toc.UserView.
Import ListNotations.
Local Open Scope string_scope.
Local Open Scope list_scope.

(** ** Environment *)

Record sdecl : Type := mkdecl {
  d_ep : string;             (* entry-point name [<name>__<version>] *)
  d_pkg : string;            (* providing package, entry-point form *)
  d_path : list string;      (* [schemas.parent_path]: root first, [d_ep] last *)
  d_aux : bool;              (* [Plugin.auxiliary] *)
  d_fail : N                 (* 0 fine; 1 [schema_json()] raises; 2 provider lookup raises *)
}.
Definition env : Type := list sdecl.

Definition lookup_decl (E : env) (s : string) : option sdecl :=
  find (fun d => String.eqb (d_ep d) s) E.
Definition known (E : env) (s : string) : bool :=
  match lookup_decl E s with Some _ => true | None => false end.
Definition pkg_of (E : env) (s : string) : string :=
  match lookup_decl E s with Some d => d_pkg d | None => "" end.
Definition path_of_schema (E : env) (s : string) : list string :=
  match lookup_decl E s with Some d => d_path d | None => [s] end.

Definition mem_str (x : string) (l : list string) : bool := existsb (String.eqb x) l.
Definition remove_str (x : string) (l : list string) : list string :=
  filter (fun y => negb (String.eqb x y)) l.

(** ** The in-memory index *)

Definition smap : Type := list (string * list string).

Fixpoint sm_get (m : smap) (k : string) : option (list string) :=
  match m with
  | [] => None
  | (k', v) :: r => if String.eqb k' k then Some v else sm_get r k
  end.
Definition sm_has (m : smap) (k : string) : bool :=
  match sm_get m k with Some _ => true | None => false end.
Definition sm_del (m : smap) (k : string) : smap :=
  filter (fun kv => negb (String.eqb (fst kv) k)) m.
Definition sm_set (m : smap) (k : string) (v : list string) : smap :=
  if sm_has m k
  then map (fun kv => if String.eqb (fst kv) k then (fst kv, v) else kv) m
  else m ++ [(k, v)].
Definition sm_val (m : smap) (k : string) : list string :=
  match sm_get m k with Some v => v | None => [] end.

Record index : Type := mkix {
  ix_links : list (string * string);     (* [_toc_path]: uuid -> schema (link = links/<s>/<u>) *)
  ix_schemas : list string;              (* [_schemas] *)
  ix_parents : smap;                     (* [_parents] *)
  ix_children : smap;                    (* [_children] *)
  ix_pkgs : list string;                 (* [_pkginfos] keys *)
  ix_used : smap                         (* [_used] *)
}.
Definition ix_empty : index := mkix [] [] [] [] [] [].

(** [_update_parents_children(s, parents)], adding. *)
Fixpoint upc_add_go (s : string) (pre rest : list string) (P C : smap) : smap * smap :=
  match rest with
  | [] => (P, C)
  | p :: r =>
      let pre' := pre ++ [p] in
      let P1 := if sm_has P p then P else P ++ [(p, pre')] in
      let C1 := if sm_has C p then C else C ++ [(p, [])] in
      let C2 := if String.eqb p s then C1
                else if mem_str s (sm_val C1 p) then C1 else sm_set C1 p (sm_val C1 p ++ [s]) in
      upc_add_go s pre' r P1 C2
  end.
Definition upc_add (s : string) (parents : list string) (PC : smap * smap) : smap * smap :=
  upc_add_go s [] parents (fst PC) (snd PC).

(** [_update_parents_children(s, None)], removing; [S] = the used schemas, [s] already
    removed.  Demanded: [s] leaves every children set; a parent that is neither used nor has
    a child left disappears. *)
Definition upc_remove (S : list string) (s : string) (PC : smap * smap) : smap * smap :=
  fold_left (fun PC p =>
               let '(P, C) := PC in
               let C1 := if sm_has C p then sm_set C p (remove_str s (sm_val C p)) else C in
               if negb (mem_str p S) && match sm_val C1 p with [] => true | _ => false end
               then (sm_del P p, sm_del C1 p) else (P, C1))
            (sm_val (fst PC) s) PC.

(** Pinned: the child is removed only from parents that are in use themselves. *)
Definition upc_remove_pinned (S : list string) (s : string) (PC : smap * smap) : smap * smap :=
  fold_left (fun PC p =>
               let '(P, C) := PC in
               if mem_str p S then (P, sm_set C p (remove_str s (sm_val C p)))
               else if forallb (fun c => negb (mem_str c S)) (sm_val C p)
                    then (sm_del P p, sm_del C p) else (P, C))
            (sm_val (fst PC) s) PC.

(** [TOCSchemas._register] + [TOCPackages._register] on the index. *)
Definition ix_reg_schema (E : env) (ix : index) (s : string) : index :=
  if mem_str s (ix_schemas ix) then ix else
  let '(P, C) := upc_add s (path_of_schema E s) (ix_parents ix, ix_children ix) in
  let pk := pkg_of E s in
  let stored := mem_str pk (ix_pkgs ix) in
  let pkgs := if stored then ix_pkgs ix else ix_pkgs ix ++ [pk] in
  let used0 := if stored then ix_used ix else sm_set (ix_used ix) pk [] in
  let used := sm_set used0 pk (sm_val used0 pk ++ [s]) in
  mkix (ix_links ix) (ix_schemas ix ++ [s]) P C pkgs used.

(** [TOCLinks.register]. *)
Definition ix_register (E : env) (ix : index) (su : string * string) : index :=
  let '(s, u) := su in
  let ix1 := ix_reg_schema E ix s in
  mkix (ix_links ix1 ++ [(u, s)]) (ix_schemas ix1) (ix_parents ix1) (ix_children ix1)
       (ix_pkgs ix1) (ix_used ix1).

(** [TOCSchemas._unregister] + [TOCPackages._unregister]. *)
Definition ix_unreg_schema (fixed : bool) (E : env) (ix : index) (s : string) : index :=
  let S := remove_str s (ix_schemas ix) in
  let '(P, C) := (if fixed then upc_remove else upc_remove_pinned) S s
                   (ix_parents ix, ix_children ix) in
  let pk := pkg_of E s in
  let used1 := if sm_has (ix_used ix) pk
               then sm_set (ix_used ix) pk (remove_str s (sm_val (ix_used ix) pk))
               else ix_used ix in
  match sm_val used1 pk with
  | [] => mkix (ix_links ix) S P C (remove_str pk (ix_pkgs ix))
               (if fixed then sm_del used1 pk else used1)   (* pinned: the entry stays *)
  | _ => mkix (ix_links ix) S P C (ix_pkgs ix) used1
  end.

(** [TOCLinks.unregister]. *)
Definition ix_unregister_gen (fixed : bool) (E : env) (ix : index) (su : string * string)
  : index :=
  let '(s, u) := su in
  let links := filter (fun us => negb (String.eqb (fst us) u)) (ix_links ix) in
  let ix1 := mkix links (ix_schemas ix) (ix_parents ix) (ix_children ix) (ix_pkgs ix)
                  (ix_used ix) in
  if existsb (fun us => String.eqb (snd us) s) links then ix1
  else ix_unreg_schema fixed E ix1 s.
Definition ix_unregister := ix_unregister_gen true.

(** ** Classification of raw paths (the layout of [container/__init__.py]) *)

Inductive pclass : Type :=
| PUser
| PToc | PVersion | PUuid
| PLinks | PLinkGrp (s : string) | PLink (s u : string)
| PSchemas | PSchema (s : string) | PSchemaJson (s : string) | PSchemaCompat (s : string)
| PPackages | PPackage (p : string)
| PMetaDir (d : path) (m : string)
| PMetaObj (d : path) (m name : string)
| PBad.

(** Split before the first reserved segment. *)
Fixpoint split_res (p : path) : path * path :=
  match p with
  | [] => ([], [])
  | x :: r => if reserved_seg x then ([], p)
              else let '(a, b) := split_res r in (x :: a, b)
  end.

Definition classify_toc (r : path) : pclass :=
  match r with
  | [] => PToc
  | [x] => if String.eqb x "version" then PVersion
           else if String.eqb x "uuid" then PUuid
           else if String.eqb x "links" then PLinks
           else if String.eqb x "schemas" then PSchemas
           else if String.eqb x "packages" then PPackages
           else PBad
  | [x; s] => if String.eqb x "links" then PLinkGrp s
              else if String.eqb x "schemas" then PSchema s
              else if String.eqb x "packages" then PPackage s
              else PBad
  | [x; s; y] => if String.eqb x "links" then PLink s y
                 else if String.eqb x "schemas"
                      then if String.eqb y "jsonschema.json" then PSchemaJson s
                           else if String.eqb y "compat" then PSchemaCompat s
                           else PBad
                 else PBad
  | _ => PBad
  end.

Definition classify (p : path) : pclass :=
  match split_res p with
  | (_, []) => PUser
  | ([], t :: r) =>
      if String.eqb t toc_seg then classify_toc r
      else if meta_seg t
           then match r with
                | [] => PMetaDir [] t
                | [nm] => if reserved_seg nm then PBad else PMetaObj [] t nm
                | _ => PBad
                end
           else PBad
  | (d, [m]) => if meta_seg m then PMetaDir d m else PBad
  | (d, [m; nm]) => if meta_seg m && negb (reserved_seg nm) then PMetaObj d m nm else PBad
  | _ => PBad
  end.

Definition link_path (s u : string) : path := links_segs ++ [s; u].
Definition linkgrp_path (s : string) : path := links_segs ++ [s].
Definition schema_path (s : string) : path := schemas_segs ++ [s].
Definition package_path (p : string) : path := packages_segs ++ [p].

Definition kind_ok (c : pclass) (o : obj) : bool :=
  match c with
  | PUser => true
  | PToc | PLinks | PLinkGrp _ | PSchemas | PSchema _ | PPackages | PMetaDir _ _ =>
      is_group (Some o)
  | PVersion | PUuid | PLink _ _ | PSchemaJson _ | PSchemaCompat _ | PPackage _
  | PMetaObj _ _ _ => is_data (Some o)
  | PBad => false
  end.

(** Fresh ids handed out so far: [uuid_of k] for [k < n]. *)
Definition N_below (n : N) : list N := map N.of_nat (seq 0 (N.to_nat n)).
Definition uuid_lt (u : string) (n : N) : bool :=
  existsb (fun k => String.eqb (uuid_of k) u) (N_below n).

(** Object node names are [<known schema>=<handed-out uuid>]. *)
Definition name_ok (E : env) (n : N) (nm : string) : bool :=
  String.eqb nm (obj_name (obj_schema nm) (obj_uuid nm)) &&
  known E (obj_schema nm) && uuid_lt (obj_uuid nm) n.

(** The node a metadata directory belongs to exists and has the matching kind. *)
Definition owner_ok (T : tree) (d : path) (m : string) : bool :=
  let nm := drop_str (String.length METADOR_META_PREF) m in
  if String.eqb nm "" then is_group (t_get T d) else is_data (t_get T (d ++ [nm])).

Definition is_obj_path (p : path) : bool :=
  match classify p with PMetaObj _ _ _ => true | _ => false end.
Definition in_toc (p : path) : bool :=
  match p with t :: _ => String.eqb t toc_seg | [] => false end.

(** The metadata objects present in the file, and the schema / uuid their names carry. *)
Definition objs (T : tree) : list path := filter is_obj_path (map fst T).
Definition sch (q : path) : string := obj_schema (last_seg q).
Definition uid (q : path) : string := obj_uuid (last_seg q).

(** What the TOC must hold at a path, given the set [M] of attached objects: a group, a
    dataset, or a link dataset with the given target name; [None] = nothing may be there. *)
Inductive tspec : Type := TG | TD | TL (v : string).

Definition uses (M : list path) (s : string) : bool :=
  existsb (fun q => String.eqb (sch q) s) M.

Definition toc_spec (E : env) (M : list path) (p : path) : option tspec :=
  match classify p with
  | PToc => Some TG
  | PVersion | PUuid => Some TD
  | PLinks | PSchemas | PPackages => match M with [] => None | _ => Some TG end
  | PLinkGrp s | PSchema s => if uses M s then Some TG else None
  | PSchemaJson s | PSchemaCompat s => if uses M s then Some TD else None
  | PLink s u =>
      match find (fun q => String.eqb (sch q) s && String.eqb (uid q) u) M with
      | Some q => Some (TL (name_of q))
      | None => None
      end
  | PPackage pk =>
      if existsb (fun q => String.eqb (pkg_of E (sch q)) pk) M then Some TD else None
  | _ => None
  end.

Definition sat (o : option obj) (t : option tspec) : bool :=
  match o, t with
  | None, None => true
  | Some (mkobj KGroup _), Some TG => true
  | Some (mkobj (KData _) _), Some TD => true
  | Some (mkobj (KData v) _), Some (TL v') => String.eqb v v'
  | _, _ => false
  end.

(** The TOC paths that must exist for [M]. *)
Definition expected (E : env) (M : list path) : list path :=
  [toc_segs; version_segs; uuid_segs] ++
  match M with [] => [] | _ => [links_segs; schemas_segs; packages_segs] end ++
  flat_map (fun q => [linkgrp_path (sch q); link_path (sch q) (uid q); schema_path (sch q);
                      schema_path (sch q) ++ ["jsonschema.json"];
                      schema_path (sch q) ++ ["compat"];
                      package_path (pkg_of E (sch q))]) M.

(** The check of one entry outside the TOC: the parent is a group; a reserved path is a
    metadata directory (a group, belonging to an existing node of the matching kind, not
    empty) or a metadata object (a dataset, canonical name, a uuid no other object has). *)
Definition chk_entry (E : env) (T : tree) (n : N) (p : path) (o : obj) : bool :=
  match p with [] => is_group (Some o) | _ => is_group (t_get T (parent p)) end &&
  match classify p with
  | PUser => true
  | PMetaDir d m => is_group (Some o) && owner_ok T d m && has_children T p
  | PMetaObj d m nm =>
      is_data (Some o) && name_ok E n nm &&
      forallb (fun q => negb (String.eqb (uid q) (uid p)) || path_eqb q p) (objs T)
  | _ => in_toc p
  end.

(** ** [load]: the index rebuilt from disk *)

Definition load_links (T : tree) : list (string * string) :=
  flat_map (fun e => match classify (fst e) with PLink s u => [(u, s)] | _ => [] end) T.
Definition load_schemas (T : tree) : list string :=
  flat_map (fun e => match classify (fst e) with PSchema s => [s] | _ => [] end) T.
Definition load_pkgs (T : tree) : list string :=
  flat_map (fun e => match classify (fst e) with PPackage p => [p] | _ => [] end) T.

Definition load (E : env) (T : tree) : index :=
  let S := load_schemas T in
  let PC := fold_left (fun PC s => upc_add s (path_of_schema E s) PC) S ([], []) in
  let pkgs := load_pkgs T in
  mkix (load_links T) S (fst PC) (snd PC) pkgs
       (map (fun pk => (pk, filter (fun s => String.eqb (pkg_of E s) pk) S)) pkgs).

(** The index an attachment set (the links present in [T]) must give: stated extensionally,
    as Python compares dicts and sets. *)
Definition set_eq (a b : list string) : Prop := forall x, In x a <-> In x b.

Definition in_path (E : env) (p s : string) : bool := mem_str p (path_of_schema E s).

Fixpoint prefix_upto (p : string) (l : list string) : list string :=
  match l with
  | [] => []
  | x :: r => if String.eqb x p then [x] else x :: prefix_upto p r
  end.

Record IxOk (E : env) (T : tree) (ix : index) : Prop := mk_ixok {
  ixo_links : forall u s, In (u, s) (ix_links ix) <-> t_has T (link_path s u) = true;
  ixo_schemas : forall s, In s (ix_schemas ix) <-> t_has T (schema_path s) = true;
  ixo_pkgs : forall p, In p (ix_pkgs ix) <-> t_has T (package_path p) = true;
  ixo_pkeys : forall p, sm_has (ix_parents ix) p = true <->
                        exists s, In s (ix_schemas ix) /\ in_path E p s = true;
  ixo_pvals : forall p l, sm_get (ix_parents ix) p = Some l -> l = path_of_schema E p;
  ixo_ckeys : forall p, sm_has (ix_children ix) p = true <-> sm_has (ix_parents ix) p = true;
  ixo_cvals : forall p c, In c (sm_val (ix_children ix) p) <->
                          In c (ix_schemas ix) /\ in_path E p c = true /\ c <> p;
  ixo_ukeys : forall p, sm_has (ix_used ix) p = true <-> In p (ix_pkgs ix);
  ixo_uvals : forall p s, In s (sm_val (ix_used ix) p) <->
                          In s (ix_schemas ix) /\ pkg_of E s = p
}.

(** Two indexes answer every lookup alike. *)
Record ix_same (a b : index) : Prop := mk_ixsame {
  ixs_links : forall us, In us (ix_links a) <-> In us (ix_links b);
  ixs_schemas : set_eq (ix_schemas a) (ix_schemas b);
  ixs_pkgs : set_eq (ix_pkgs a) (ix_pkgs b);
  ixs_pvals : forall p, sm_get (ix_parents a) p = sm_get (ix_parents b) p;
  ixs_ckeys : forall p, sm_has (ix_children a) p = sm_has (ix_children b) p;
  ixs_cvals : forall p, set_eq (sm_val (ix_children a) p) (sm_val (ix_children b) p);
  ixs_ukeys : forall p, sm_has (ix_used a) p = sm_has (ix_used b) p;
  ixs_uvals : forall p, set_eq (sm_val (ix_used a) p) (sm_val (ix_used b) p)
}.

(** Executable comparison (used by the runner): same keys, same sets. *)
Definition incl_b (a b : list string) : bool := forallb (fun x => mem_str x b) a.
Definition set_eqb (a b : list string) : bool := incl_b a b && incl_b b a.
Definition smap_eqb (exact : bool) (a b : smap) : bool :=
  set_eqb (map fst a) (map fst b) &&
  forallb (fun kv => if exact
                     then match sm_get b (fst kv) with
                          | Some v => if list_eq_dec string_dec (snd kv) v then true else false
                          | None => false
                          end
                     else set_eqb (sm_val a (fst kv)) (sm_val b (fst kv))) a.
Definition pair_str (us : string * string) : string := (fst us ++ "|" ++ snd us)%string.
Definition ix_sameb (a b : index) : bool :=
  set_eqb (map pair_str (ix_links a)) (map pair_str (ix_links b)) &&
  set_eqb (ix_schemas a) (ix_schemas b) && set_eqb (ix_pkgs a) (ix_pkgs b) &&
  smap_eqb true (ix_parents a) (ix_parents b) &&
  smap_eqb false (ix_children a) (ix_children b) &&
  smap_eqb false (ix_used a) (ix_used b).

(** ** State, operations, step *)

Record sstate : Type := mkss {
  cs : cstate;
  mem : index;
  ro : bool                      (* container opened read-only *)
}.

Definition init_ss : sstate := mkss init_st ix_empty false.

Inductive sop : Type :=
| SOp (o : cop)                                  (* data operation, detach *)
| SAttach (node schema v : string) (valid : bool)  (* [valid]: the value parses *)
| SReopen (read_only : bool)
| SNop.                                          (* IH5 commit/create_patch boundary *)

(** Index maintenance: every link that left the file was unregistered, every new one
    registered ([TOCLinks.unregister/register] are the only writers of link nodes). *)
Definition pair_in (x : string * string) (l : list (string * string)) : bool :=
  existsb (fun y => String.eqb (fst x) (fst y) && String.eqb (snd x) (snd y)) l.
Definition swap (us : string * string) : string * string := (snd us, fst us).

Definition track_gen (fixed : bool) (E : env) (T T' : tree) (ix : index) : index :=
  let old := load_links T in
  let new := load_links T' in
  let gone := filter (fun x => negb (pair_in x new)) old in
  let come := filter (fun x => negb (pair_in x old)) new in
  fold_left (fun ix us => ix_register E ix (swap us)) come
            (fold_left (fun ix us => ix_unregister_gen fixed E ix (swap us)) gone ix).

Definition mutating (o : cop) : bool :=
  match o with CGet _ _ => false | _ => true end.

(** [MetadorMeta.__setitem__]: read-only guard, path guard / node lookup, duplicate check,
    [_require_schema] (unknown: KeyError, auxiliary: TypeError), [_parse_obj], then
    [_set_raw].  Demanded: everything that can raise is evaluated before anything is
    stored. *)
Definition has_obj_of (T : tree) (md : path) (schema : string) : bool :=
  existsb (fun e => is_child md (fst e) &&
                    starts_with (obj_name schema "") (last_seg (fst e))) T.

(** Pinned [_set_raw] when [register] raises: the object is already stored; with a failing
    provider lookup the schema record is written as well. *)
Definition attach_pinned (c : cstate) (n : path) (schema : string) (v : string) (stage : N)
  : cstate :=
  match t_get (raw c) n with
  | None => c
  | Some o =>
      let md := meta_dir_of n (is_data (Some o)) in
      let u := uuid_of (next_id c) in
      let T1 := t_put (ensure_group (raw c) md) (md ++ [obj_name schema u]) (new_data v) in
      let T2 :=
        if N.eqb stage 2 then
          let A1 := ensure_group (ensure_group T1 toc_segs) schemas_segs in
          let A2 := t_put A1 (schema_path schema) new_group in
          let A3 := t_put A2 (schema_path schema ++ ["jsonschema.json"]) (new_data "jsonschema") in
          t_put A3 (schema_path schema ++ ["compat"]) (new_data "compat")
        else T1 in
      mkst T2 (N.succ (next_id c)) (prov c)
  end.

(** [TOCSchemas._register] raises: only when the schema is not registered yet; the provider
    lookup is only made when no stored package provides the schema. *)
Definition export_fails (T : tree) (d : sdecl) : bool :=
  negb (t_has T (schema_path (d_ep d))) &&
  (N.eqb (d_fail d) 1 ||
   (N.eqb (d_fail d) 2 && negb (t_has T (package_path (d_pkg d))))).

Definition s_attach (fixed : bool) (E : env) (st : sstate) (node schema v : string)
           (valid : bool) : sstate * res :=
  if guard node then (st, RGuard) else
  if ro st then (st, RFail) else
  let n := resolve [] node in
  match t_get (raw (cs st)) n with
  | None => (st, RFail)
  | Some o =>
      if has_obj_of (raw (cs st)) (meta_dir_of n (is_data (Some o))) schema then (st, RFail)
      else match lookup_decl E schema with
           | None => (st, RFail)
           | Some d =>
               if d_aux d then (st, RFail) else
               if negb valid then (st, RFail) else
               if export_fails (raw (cs st)) d then
                 if fixed then (st, RFail)
                 else (mkss (attach_pinned (cs st) n schema v (d_fail d)) (mem st) (ro st), RFailLate)
               else
                 let '(c', r) := c_attach (cs st) n schema (d_pkg d) v in
                 (mkss c' (track_gen fixed E (raw (cs st)) (raw c') (mem st)) (ro st), r)
           end
  end.

Definition s_step_gen (fixed : bool) (E : env) (st : sstate) (o : sop) : sstate * res :=
  match o with
  | SNop => (st, ROk)
  | SReopen r => (mkss (cs st) (load E (raw (cs st))) r, ROk)
  | SAttach node schema v valid => s_attach fixed E st node schema v valid
  | SOp (CAttach node schema _ v) => s_attach fixed E st node schema v true
  | SOp co =>
      if ro st && mutating co then (st, if op_reserved co then RGuard else RFail) else
      let '(c', r) := c_step (cs st) co in
      (mkss c' (track_gen fixed E (raw (cs st)) (raw c') (mem st)) (ro st), r)
  end.

Definition s_step : env -> sstate -> sop -> sstate * res := s_step_gen true.
Definition s_step_pinned : env -> sstate -> sop -> sstate * res := s_step_gen false.

Definition s_run (E : env) (st : sstate) (ops : list sop) : sstate :=
  fold_left (fun st o => fst (s_step E st o)) ops st.

(** ** The property *)

Definition present (T : tree) (p : path) : Prop := t_has T p = true.

Record Sync (E : env) (st : sstate) : Prop := mk_sync {
  (** the raw tree is a function from paths, rooted in a group *)
  sy_nodup : NoDup (map fst (raw (cs st)));
  sy_root : is_group (t_get (raw (cs st)) []) = true;
  (** outside the TOC: user nodes, non-empty metadata directories of existing nodes,
      canonically named metadata objects with pairwise distinct uuids -- nothing else *)
  sy_entries : forall p o, t_get (raw (cs st)) p = Some o ->
                           chk_entry E (raw (cs st)) (next_id (cs st)) p o = true;
  (** the TOC is exactly what the attached objects determine: one link per object holding
      its path, [links/<s>], [schemas/<s>] (with both records) and the providing package for
      exactly the schemas in use, the three directories only when something is attached *)
  sy_tocok : forall p, in_toc p = true ->
                       sat (t_get (raw (cs st)) p) (toc_spec E (objs (raw (cs st))) p) = true;
  (** the model's package bookkeeping agrees with the environment *)
  sy_prov : forall q, In q (objs (raw (cs st))) ->
                      assoc (prov (cs st)) (sch q) = pkg_of E (sch q);
  (** the incrementally maintained index is the one the file determines *)
  sy_mem : IxOk E (raw (cs st)) (mem st)
}.

(** Executable checker of the file part (the raw tree). *)
Fixpoint nodup_paths (l : list path) : bool :=
  match l with
  | [] => true
  | p :: r => negb (existsb (path_eqb p) r) && nodup_paths r
  end.

Definition syncb_raw (E : env) (T : tree) (n : N) (pr : list (string * string)) : bool :=
  nodup_paths (map fst T) && is_group (t_get T []) &&
  forallb (fun e => chk_entry E T n (fst e) (snd e)) T &&
  forallb (fun e => negb (in_toc (fst e)) ||
                    sat (Some (snd e)) (toc_spec E (objs T) (fst e))) T &&
  forallb (fun p => sat (t_get T p) (toc_spec E (objs T) p)) (expected E (objs T)) &&
  forallb (fun q => String.eqb (assoc pr (sch q)) (pkg_of E (sch q))) (objs T).

Definition syncb (E : env) (st : sstate) : bool :=
  syncb_raw E (raw (cs st)) (next_id (cs st)) (prov (cs st)) &&
  ix_sameb (load E (raw (cs st))) (mem st).

(** Environment sanity: names have no ["="] (the object-name separator), are not reserved
    and at least as long as the reserved prefix (true of every [<name>__<version>]), parent paths end
    in the schema itself and are prefix-closed (a tree-shaped inheritance order). *)
Fixpoint lacks_char (c : ascii) (s : string) : bool :=
  match s with
  | EmptyString => true
  | String a r => negb (Ascii.eqb a c) && lacks_char c r
  end.

Fixpoint nodup_strs (l : list string) : bool :=
  match l with
  | [] => true
  | x :: r => negb (mem_str x r) && nodup_strs r
  end.

Definition decl_ok (E : env) (d : sdecl) : bool :=
  lacks_char eq_char (d_ep d) &&
  Nat.leb 8 (String.length (d_ep d)) && negb (reserved_seg (d_ep d)) &&
  nodup_strs (d_path d) &&
  String.eqb (last_seg (d_path d)) (d_ep d) &&
  forallb (fun p => match lookup_decl E p with
                    | Some dp => if list_eq_dec string_dec (d_path dp)
                                                (prefix_upto p (d_path d)) then true else false
                    | None => false
                    end) (d_path d).
Definition env_ok (E : env) : bool := forallb (decl_ok E) E.

(** ** Wire format *)

Definition sx_decl (x : sx) : option sdecl :=
  match x with
  | L [A ep; A pkg; pth; aux; fl] =>
      match sx_strings pth, sx_bool aux, sx_N fl with
      | Some l, Some a, Some f => Some (mkdecl ep pkg l a f)
      | _, _, _ => None
      end
  | _ => None
  end.

Definition sx_sop (x : sx) : option sop :=
  match x with
  | L [A "sattach"; A n; A s; A v; b] =>
      match sx_bool b with Some vb => Some (SAttach n s v vb) | None => None end
  | L [A "reopen"; b] =>
      match sx_bool b with Some r => Some (SReopen r) | None => None end
  | L [A "bnd"] => Some SNop
  | _ => match sx_cop x with Some o => Some (SOp o) | None => None end
  end.

Definition of_smap (m : smap) : sx := of_list (of_pair A of_strings) m.
Definition of_index (ix : index) : sx :=
  L [of_list (of_pair A A) (ix_links ix); of_strings (ix_schemas ix); of_smap (ix_parents ix);
     of_smap (ix_children ix); of_strings (ix_pkgs ix); of_smap (ix_used ix)].

Definition sx_entry (x : sx) : option entry :=
  match x with
  | L [A nm; A "G"] => Some (norm_segs nm, new_group)
  | L [A nm; A "D"; A v] => Some (norm_segs nm, new_data v)
  | _ => None
  end.

(** Cases:
    - [(run env ops)]: per operation [(res raw-tree syncb mem load)];
    - [(check env next prov tree)]: [syncb_raw] of a tree given from outside (a dump of the
      real container with uuids renamed to [u<k>]). *)
Definition run_c06 (x : sx) : sx :=
  match x with
  | L [A "run"; ev; ops] =>
      match sx_map sx_decl ev, sx_map sx_sop ops with
      | Some E, Some l =>
          let fix go (st : sstate) (l : list sop) : list sx :=
            match l with
            | [] => []
            | o :: r =>
                let '(st1, rs) := s_step E st o in
                L [of_res rs; of_tree (raw (cs st1)); of_bool (syncb E st1);
                   of_index (mem st1); of_index (load E (raw (cs st1)))] :: go st1 r
            end in
          L [of_bool (env_ok E); L (go init_ss l)]
      | _, _ => sx_bad "c06 run"
      end
  | L [A "check"; ev; nx; pv; tr] =>
      match sx_map sx_decl ev, sx_N nx, sx_map (sx_pair sx_atom sx_atom) pv, sx_map sx_entry tr with
      | Some E, Some n, Some pr, Some T => of_bool (syncb_raw E T n pr)
      | _, _, _, _ => sx_bad "c06 check"
      end
  | _ => sx_bad "c06"
  end.
