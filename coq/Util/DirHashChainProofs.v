(** * Proofs about symlink-chain resolution (C19 extension). *)
From Coq Require Import List String Ascii NArith Bool Lia Arith.
From MV Require Import Base.Sx Base.Cmp Util.DirHash Util.DirHashProofs Util.DirHashChain.
Import ListNotations.
Local Open Scope string_scope.

(** ** The resolved path is physical: no prefix of it is a symlink *)

Lemma physb_cons w s c :
  physb w (s :: c) = negb (is_rlink (rlookup w (rev (s :: c)))) && physb w c.
Proof. reflexivity. Qed.

Lemma physb_tl w c : physb w c = true -> physb w (tl c) = true.
Proof. destruct c as [|s c]; [auto|]. rewrite physb_cons. intros H. apply andb_prop in H as [_ H]. exact H. Qed.

Lemma resolve_unfold w f stk cur s rest :
  resolve w (S f) stk cur (s :: rest) =
  if is_skip s then resolve w f stk cur rest
  else if String.eqb s ".." then resolve w f stk (tl cur) rest
  else match rlookup w (rev (s :: cur)) with
       | Some (RLink ab segs2) =>
           if existsb (path_eqb (s :: cur)) stk then RLoop (rev (s :: cur) ++ rest)%list
           else match resolve w f ((s :: cur) :: stk) (if ab then [] else cur) segs2 with
                | ROk cur' => resolve w f stk cur' rest
                | RLoop raw => RLoop (raw ++ rest)%list
                | RFuel => RFuel
                end
       | _ => resolve w f stk (s :: cur) rest
       end.
Proof. reflexivity. Qed.

Lemma resolve_phys w : forall fuel stk cur segs cur',
  physb w cur = true -> resolve w fuel stk cur segs = ROk cur' -> physb w cur' = true.
Proof.
  induction fuel as [|f IH]; intros stk cur segs cur' P H; [discriminate|].
  destruct segs as [|s rest]; [inversion H; subst; exact P|].
  rewrite resolve_unfold in H.
  destruct (is_skip s); [eapply IH; eassumption|].
  destruct (String.eqb s ".."); [eapply IH; [apply physb_tl; exact P | eassumption]|].
  destruct (rlookup w (rev (s :: cur))) as [[bs|ab segs2|es]|] eqn:E.
  - eapply IH; [|eassumption]. rewrite physb_cons, E, P. reflexivity.
  - destruct (existsb (path_eqb (s :: cur)) stk); [discriminate|].
    destruct (resolve w f ((s :: cur) :: stk) (if ab then [] else cur) segs2) as [c2|raw2|] eqn:E2;
      try discriminate.
    eapply IH; [|eassumption]. eapply IH; [|eassumption]. destruct ab; [reflexivity | exact P].
  - eapply IH; [|eassumption]. rewrite physb_cons, E, P. reflexivity.
  - eapply IH; [|eassumption]. rewrite physb_cons, E, P. reflexivity.
Qed.

(** ** The resolved path consists of valid segments *)

Lemma assoc_forallb {X} (P : X -> bool) s : forall (es : list (string * X)) c,
  forallb (fun kc => P (snd kc)) es = true -> assoc s es = Some c -> P c = true.
Proof.
  induction es as [|[k v] es IH]; intros c H A; simpl in *; [discriminate|].
  apply andb_prop in H as [H1 H2].
  destruct (String.eqb s k); [inversion A; subst; exact H1 | eapply IH; eassumption].
Qed.

Lemma rlookup_ok : forall p t t',
  raw_okb t = true -> rlookup t p = Some t' -> raw_okb t' = true.
Proof.
  induction p as [|s r IH]; intros t t' H L; simpl in L.
  - inversion L; subst; exact H.
  - destruct t as [bs|ab segs|es]; try discriminate.
    destruct (assoc s es) as [c|] eqn:A; [|discriminate].
    simpl in H. apply andb_prop in H as [_ H].
    eapply IH; [|exact L]. eapply assoc_forallb; [exact H | exact A].
Qed.

Lemma resolve_valid w : world_okb w = true -> forall fuel stk cur segs cur',
  forallb valid_seg cur = true -> forallb no_slash segs = true ->
  resolve w fuel stk cur segs = ROk cur' -> forallb valid_seg cur' = true.
Proof.
  intros W. induction fuel as [|f IH]; intros stk cur segs cur' V N H; [discriminate|].
  destruct segs as [|s rest]; [inversion H; subst; exact V|].
  rewrite resolve_unfold in H. simpl in N. apply andb_prop in N as [Ns Nr].
  unfold is_skip in H.
  destruct (String.eqb s "") eqn:E1; cbn [orb] in H; [eapply IH; eassumption|].
  destruct (String.eqb s ".") eqn:E2; cbn [orb] in H; [eapply IH; eassumption|].
  destruct (String.eqb s "..") eqn:E3; [eapply IH; [apply forallb_tl; exact V | exact Nr | exact H]|].
  assert (forallb valid_seg (s :: cur) = true) as V2.
  { simpl. rewrite V. unfold valid_seg. rewrite E1, E2, E3, Ns. reflexivity. }
  destruct (rlookup w (rev (s :: cur))) as [[bs|ab segs2|es]|] eqn:E;
    try (eapply IH; [exact V2 | exact Nr | exact H]).
  destruct (existsb (path_eqb (s :: cur)) stk); [discriminate|].
  destruct (resolve w f ((s :: cur) :: stk) (if ab then [] else cur) segs2) as [c2|raw2|] eqn:E2';
    try discriminate.
  eapply IH; [|exact Nr|exact H].
  eapply IH; [| |exact E2'].
  - destruct ab; [reflexivity | exact V].
  - apply (rlookup_ok _ _ _ W) in E. exact E.
Qed.

Lemma resolve_loop_noslash w : world_okb w = true -> forall fuel stk cur segs raw,
  forallb valid_seg cur = true -> forallb no_slash segs = true ->
  resolve w fuel stk cur segs = RLoop raw -> forallb no_slash raw = true.
Proof.
  intros W. induction fuel as [|f IH]; intros stk cur segs raw V N H; [discriminate|].
  destruct segs as [|s rest]; [discriminate|].
  rewrite resolve_unfold in H. simpl in N. apply andb_prop in N as [Ns Nr].
  unfold is_skip in H.
  destruct (String.eqb s "") eqn:E1; cbn [orb] in H; [eapply IH; eassumption|].
  destruct (String.eqb s ".") eqn:E2; cbn [orb] in H; [eapply IH; eassumption|].
  destruct (String.eqb s "..") eqn:E3; [eapply IH; [apply forallb_tl; exact V | exact Nr | exact H]|].
  assert (forallb valid_seg (s :: cur) = true) as V2.
  { simpl. rewrite V. unfold valid_seg. rewrite E1, E2, E3, Ns. reflexivity. }
  destruct (rlookup w (rev (s :: cur))) as [[bs|ab segs2|es]|] eqn:E;
    try (eapply IH; [exact V2 | exact Nr | exact H]).
  destruct (existsb (path_eqb (s :: cur)) stk).
  - injection H as H'. rewrite <- H', forallb_app, Nr, andb_true_r.
    apply valid_no_slash. change (forallb valid_seg (rev (s :: cur)) = true).
    apply forallb_rev. exact V2.
  - assert (forallb valid_seg (if ab then [] else cur) = true) as V3 by (destruct ab; [reflexivity | exact V]).
    assert (forallb no_slash segs2 = true) as N2 by (apply (rlookup_ok _ _ _ W) in E; exact E).
    destruct (resolve w f ((s :: cur) :: stk) (if ab then [] else cur) segs2) as [c2|raw2|] eqn:E2';
      try discriminate.
    + eapply IH; [|exact Nr|exact H]. eapply (resolve_valid w W); [exact V3 | exact N2 | exact E2'].
    + injection H as H'. rewrite <- H', forallb_app, Nr, andb_true_r.
      eapply IH; [exact V3 | exact N2 | exact E2'].
Qed.

(** ** Where the walk meets no symlink it is the lexical normalisation of [DirHash.v] *)

Lemma nolink_unfold w cur s rest :
  nolink_walk w cur (s :: rest) =
  if is_skip s then nolink_walk w cur rest
  else if String.eqb s ".." then nolink_walk w (tl cur) rest
  else negb (is_rlink (rlookup w (rev (s :: cur)))) && nolink_walk w (s :: cur) rest.
Proof. reflexivity. Qed.

Lemma resolve_lexical w : forall segs fuel stk cur,
  nolink_walk w cur segs = true -> List.length segs < fuel ->
  exists c', resolve w fuel stk cur segs = ROk c' /\ rev c' = norm_segs cur segs.
Proof.
  induction segs as [|s rest IH]; intros fuel stk cur NL F.
  - destruct fuel; [inversion F|]. exists cur. split; reflexivity.
  - destruct fuel as [|f]; [inversion F|]. simpl in F. apply Nat.succ_lt_mono in F.
    rewrite resolve_unfold. rewrite nolink_unfold in NL. simpl norm_segs. unfold is_skip in *.
    destruct (String.eqb s "" || String.eqb s "."); [apply IH; assumption|].
    destruct (String.eqb s ".."); [apply IH; assumption|].
    apply andb_prop in NL as [NL1 NL2].
    destruct (rlookup w (rev (s :: cur))) as [[bs|ab segs2|es]|] eqn:E;
      try (apply IH; assumption).
    discriminate.
Qed.

Lemma norm_segs_app_valid : forall p acc segs,
  forallb valid_seg p = true -> norm_segs acc (p ++ segs)%list = norm_segs (rev p ++ acc)%list segs.
Proof.
  induction p as [|s r IH]; intros acc segs H; simpl; [reflexivity|].
  simpl in H. apply andb_prop in H as [Hs Hr].
  apply valid_seg_spec in Hs as (N1 & N2 & N3 & _).
  apply String.eqb_neq in N1, N2, N3. rewrite N1, N2, N3. simpl.
  rewrite IH by exact Hr. rewrite <- app_assoc. reflexivity.
Qed.

(** Chain-free links: the extended [rel_symlink] is the lexical one. *)
Lemma rel_symlink_c_agrees w fuel base linkdir (ab : bool) segs :
  forallb valid_seg (base ++ linkdir)%list = true ->
  nolink_walk w (if ab then @nil string else rev (base ++ linkdir)%list) segs = true ->
  List.length segs < fuel ->
  rel_symlink_c w fuel base linkdir ab segs = rel_symlink base linkdir ab segs.
Proof.
  intros V NL F. unfold rel_symlink_c, resolve_link, resolve_raw, rel_symlink.
  destruct (resolve_lexical w segs fuel [] _ NL F) as (c' & R & E).
  rewrite R. simpl. rewrite E. destruct ab; [reflexivity|].
  rewrite app_assoc, norm_segs_app_valid by exact V. rewrite app_nil_r. reflexivity.
Qed.

(** ** Recorded targets are normalised paths; a recorded target is the FINAL one *)

Lemma rel_symlink_c_valid w fuel base linkdir ab segs p :
  world_okb w = true -> forallb valid_seg base = true -> forallb valid_seg linkdir = true ->
  forallb no_slash segs = true ->
  rel_symlink_c w fuel base linkdir ab segs = In_ p -> forallb valid_seg p = true.
Proof.
  intros W Hb Hl Hs. unfold rel_symlink_c, resolve_link, resolve_raw, target_of, finish.
  assert (forallb valid_seg (if ab then @nil string else rev (base ++ linkdir)%list) = true) as V0.
  { destruct ab; [reflexivity|]. apply forallb_rev. rewrite forallb_app, Hb, Hl. reflexivity. }
  assert (forall q r, strip_prefix base q = Some r -> forallb valid_seg q = true ->
                      forallb valid_seg r = true) as SP.
  { intros q r S V. apply strip_prefix_spec in S. rewrite S, forallb_app in V.
    apply andb_prop in V as [_ V]. exact V. }
  destruct (resolve w fuel [] (if ab then @nil string else rev (base ++ linkdir)%list) segs) as [c|raw|] eqn:R;
    try discriminate.
  - destruct (strip_prefix base (rev c)) as [q|] eqn:S; [|discriminate].
    intros H; inversion H; subst q. apply (SP _ _ S).
    apply forallb_rev. eapply (resolve_valid w W); [exact V0 | exact Hs | exact R].
  - assert (forallb valid_seg (norm_segs [] raw) = true) as V.
    { apply norm_segs_valid; [|reflexivity]. eapply (resolve_loop_noslash w W); [exact V0 | exact Hs | exact R]. }
    destruct (kwalk w fuel [] [] (norm_segs [] raw)); try discriminate;
      (destruct (strip_prefix base (norm_segs [] raw)) as [q|] eqn:S; [|discriminate];
       intros H; inversion H; subst q; exact (SP _ _ S V)).
Qed.

(** When no loop is met, the path recorded for a link has no symlink on it: it is where the
    chain ENDS. *)
Lemma rel_symlink_c_final w fuel base linkdir ab segs cur p :
  physb w (rev (base ++ linkdir)%list) = true ->
  resolve_raw w fuel base linkdir ab segs = ROk cur ->
  rel_symlink_c w fuel base linkdir ab segs = In_ p ->
  rev cur = (base ++ p)%list /\ physb w cur = true.
Proof.
  intros P R. unfold rel_symlink_c, resolve_link. rewrite R. simpl.
  destruct (strip_prefix base (rev cur)) as [q|] eqn:S; [|discriminate].
  intros H; inversion H; subst q. apply strip_prefix_spec in S. split; [exact S|].
  unfold resolve_raw in R. eapply resolve_phys; [|exact R]. destruct ab; [reflexivity | exact P].
Qed.

Lemma cnormalise_links_ok w fuel base : world_okb w = true -> forallb valid_seg base = true ->
  forall t rme, forallb valid_seg rme = true -> raw_okb t = true ->
  links_okb (cnormalise w fuel base rme t) = true.
Proof.
  intros W Hb. induction t as [bs|ab segs|es IH] using rtree_ind2; intros rme Hr Ht; simpl.
  - reflexivity.
  - destruct (rel_symlink_c w fuel base (rev (tl rme)) ab segs) as [p|] eqn:E; [|reflexivity].
    apply (rel_symlink_c_valid w fuel base (rev (tl rme)) ab segs p W Hb); try assumption.
    apply forallb_rev, forallb_tl; exact Hr.
  - simpl in Ht. apply andb_prop in Ht as [Hn Hc].
    rewrite forallb_map'. simpl.
    induction IH as [|[k c] es Hk _ IH2]; [reflexivity|].
    simpl in *. apply andb_prop in Hn as [Hn1 Hn2]. apply andb_prop in Hc as [Hc1 Hc2].
    rewrite Hk; [apply IH2; assumption | | exact Hc1].
    simpl. rewrite Hn1, Hr. reflexivity.
Qed.

(** ** Rejection: exactly when some link does not END below the base *)

Definition ends_outside (base : list string) (r : fres) : bool :=
  match target_of base r with Outside => true | In_ _ => false end.

Lemma cnormalise_no_outside w fuel base : forall t rme,
  no_outsideb (cnormalise w fuel base rme t) =
  negb (any_link (ends_outside base) w fuel base rme t).
Proof.
  induction t as [bs|ab segs|es IH] using rtree_ind2; intros rme; simpl.
  - reflexivity.
  - unfold rel_symlink_c, ends_outside.
    destruct (target_of base (resolve_link w fuel base (rev (tl rme)) ab segs)); reflexivity.
  - rewrite forallb_map'. simpl.
    induction IH as [|[k c] es Hk _ IH2]; [reflexivity|].
    simpl. rewrite Hk, IH2, negb_orb. reflexivity.
Qed.

Section Main.
  Variable state : Type.
  Variable init : state.
  Variable upd : state -> bytes -> state.
  Variable fin : state -> digest.
  Hypothesis Hstream : forall s x y, upd (upd s x) y = upd s (x ++ y)%list.
  Hypothesis Hnil : forall s, upd s [] = s.
  Hypothesis Hinj : forall x y, oneshot state init upd fin x = oneshot state init upd fin y -> x = y.

  (** With chains: equal hashsum trees exactly when the directories agree on names, file
      bytes, sub-directories and the FINAL targets of their links. *)
  Lemma chain_identify n a w1 f1 b1 w2 f2 b2 :
    n > 0 ->
    wfb (final_tree w1 f1 b1) = true -> wfb (final_tree w2 f2 b2) = true ->
    no_outsideb (final_tree w1 f1 b1) = true -> no_outsideb (final_tree w2 f2 b2) = true ->
    (option_map hsort (dir_hashsums_c state init upd fin n a w1 f1 b1) =
     option_map hsort (dir_hashsums_c state init upd fin n a w2 f2 b2)
     <-> tsort (final_tree w1 f1 b1) = tsort (final_tree w2 f2 b2)).
  Proof.
    intros. unfold dir_hashsums_c.
    apply (hashsums_identify state init upd fin Hstream Hnil Hinj); assumption.
  Qed.
End Main.

Lemma chain_rejected_iff state init upd fin n a w fuel base :
  dir_hashsums_c state init upd fin n a w fuel base = None <->
  any_link (ends_outside base) w fuel base [] (base_tree w base) = true.
Proof.
  unfold dir_hashsums_c, final_tree. rewrite rejected_iff, cnormalise_no_outside.
  destruct (any_link (ends_outside base) w fuel base [] (base_tree w base)); simpl; split; congruence.
Qed.
