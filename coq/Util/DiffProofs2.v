(** * Proofs about the directory-diff model (C18), part 2:
      the listing is sound and complete, duplicate-free, safely ordered,
      and [get] agrees with it. *)
From Coq Require Import List String Ascii Bool Lia Permutation.
From MV Require Import Base.Sx Base.Cmp Util.Diff Util.DiffProofs.
Import ListNotations.
Local Open Scope list_scope.

Notation keys l := (map fst l).

(** ** Generic list facts *)

Lemma NoDup_app_iff {X} (l1 l2 : list X) :
  NoDup (l1 ++ l2) <-> NoDup l1 /\ NoDup l2 /\ (forall x, In x l1 -> In x l2 -> False).
Proof.
  induction l1 as [|a r IH]; simpl.
  - split; [intros H; repeat split; [constructor | exact H | intros ? []] | tauto].
  - split.
    + intros H. inversion H as [|? ? Hn Hr]; subst. apply IH in Hr as (H1 & H2 & H3).
      repeat split; [constructor; [|exact H1] | exact H2 |].
      * intros Hin; apply Hn, in_or_app; left; exact Hin.
      * intros x [<-|Hx] Hx2; [apply Hn, in_or_app; right; exact Hx2 | eapply H3; eassumption].
    + intros (H1 & H2 & H3). inversion H1 as [|? ? Hn Hr]; subst. constructor.
      * intros Hin. apply in_app_or in Hin as [Hin|Hin]; [contradiction|].
        eapply H3; [left; reflexivity | exact Hin].
      * apply IH. repeat split; [exact Hr | exact H2 |].
        intros x Hx Hx2; eapply H3; [right; exact Hx | exact Hx2].
Qed.

Lemma NoDup_map_inv {X Y} (f : X -> Y) l : NoDup (map f l) -> NoDup l.
Proof.
  induction l as [|a r IH]; simpl; intros H; constructor; inversion H; subst.
  - intros Hin; apply H2, in_map; exact Hin.
  - apply IH; assumption.
Qed.

Lemma NoDup_map_inj_in {X Y} (f : X -> Y) l x y :
  NoDup (map f l) -> In x l -> In y l -> f x = f y -> x = y.
Proof.
  induction l as [|a r IH]; simpl; [intros _ []|].
  intros H Hx Hy E. inversion H as [|? ? Hn Hr]; subst.
  destruct Hx as [Hx|Hx], Hy as [Hy|Hy]; subst.
  - reflexivity.
  - exfalso; apply Hn. rewrite E. apply in_map; exact Hy.
  - exfalso; apply Hn. rewrite <- E. apply in_map; exact Hx.
  - apply IH; assumption.
Qed.

Lemma NoDup_map_injective {X Y} (f : X -> Y) l :
  (forall x y, f x = f y -> x = y) -> NoDup l -> NoDup (map f l).
Proof.
  intros Hf. induction l as [|a r IH]; simpl; intros H; constructor; inversion H; subst.
  - intros Hin. apply in_map_iff in Hin as (x & E & Hx). apply Hf in E; subst. contradiction.
  - apply IH; assumption.
Qed.

Lemma app_one_inj {X} (p : list X) k k' q q' : p ++ k :: q = p ++ k' :: q' -> k = k' /\ q = q'.
Proof. intros H. apply app_inv_head in H. inversion H; auto. Qed.

Lemma app_self_cons {X} (p : list X) k q : p = p ++ k :: q -> False.
Proof. intros H. apply (f_equal (@List.length X)) in H. rewrite app_length in H. simpl in H. lia. Qed.

(** ** Sub-entries *)

Lemma osub_nil e : osub e [] = e.
Proof. destruct e; reflexivity. Qed.

Lemma osub_cons_D l k q : osub (Some (D l)) (k :: q) = osub (lookup k l) q.
Proof. simpl. destruct (lookup k l); reflexivity. Qed.

Lemma osub_one_D l k : osub (Some (D l)) [k] = lookup k l.
Proof. rewrite osub_cons_D. apply osub_nil. Qed.

Lemma osub_cons e k q : osub e (k :: q) = osub (osub e [k]) q.
Proof.
  destruct e as [[s|l]|]; try reflexivity. rewrite osub_cons_D, osub_one_D. reflexivity.
Qed.

Lemma osub_app e q1 q2 : osub e (q1 ++ q2) = osub (osub e q1) q2.
Proof.
  revert e. induction q1 as [|a q1 IH]; intros e; simpl.
  - rewrite osub_nil; reflexivity.
  - rewrite (osub_cons e a (q1 ++ q2)), IH, <- (osub_cons e a q1). reflexivity.
Qed.

Lemma osub_none_ext e q r : osub e q = None -> osub e (q ++ r) = None.
Proof. intros H. rewrite osub_app, H. reflexivity. Qed.

Lemma canone_one e k : canone e = true -> canone (osub e [k]) = true.
Proof.
  destruct e as [[s|l]|]; intros H; try reflexivity. rewrite osub_one_D.
  destruct (lookup k l) eqn:E; [|reflexivity]. simpl. eapply canon_lookup; eassumption.
Qed.

Lemma canone_osub q : forall e, canone e = true -> canone (osub e q) = true.
Proof.
  induction q as [|k q IH]; intros e H.
  - rewrite osub_nil; exact H.
  - rewrite osub_cons. apply IH, canone_one, H.
Qed.

(** ** Fields of the node returned by [compare] *)

Lemma mk_added_fields p t :
  npath (mk_added p t) = p /\ nprev (mk_added p t) = None /\ ncurr (mk_added p t) = Some t.
Proof. destruct t; simpl; auto. Qed.

Lemma mk_removed_fields p t :
  npath (mk_removed p t) = p /\ nprev (mk_removed p t) = Some t /\ ncurr (mk_removed p t) = None.
Proof. destruct t; simpl; auto. Qed.

Lemma cmp_fields p a b d :
  cmp p a b = Some d -> npath d = p /\ nprev d = Some a /\ ncurr d = Some b.
Proof.
  destruct a as [s|l1], b as [t|l2].
  - simpl. destruct (String.eqb s t); [discriminate|]. intros H; inversion H; simpl; auto.
  - simpl. intros H; inversion H; simpl; auto.
  - simpl. intros H; inversion H; simpl; auto.
  - rewrite cmp_DD. intros H. apply dir_node_some in H. subst. simpl; auto.
Qed.

Lemma compare_fields pv cu p d :
  compare pv cu p = Some d -> npath d = p /\ nprev d = pv /\ ncurr d = cu.
Proof.
  destruct pv as [a|], cu as [b|]; simpl.
  - apply cmp_fields.
  - intros H; inversion H. apply mk_removed_fields.
  - intros H; inversion H. apply mk_added_fields.
  - discriminate.
Qed.

(** ** Nodes that are outputs of [compare] on canonical entries *)

Definition good (d : dnode) : Prop :=
  canone (nprev d) = true /\ canone (ncurr d) = true /\
  compare (nprev d) (ncurr d) (npath d) = Some d.

Lemma compare_good pv cu p d :
  canone pv = true -> canone cu = true -> compare pv cu p = Some d -> good d.
Proof.
  intros Ca Cb H. destruct (compare_fields _ _ _ _ H) as (E1 & E2 & E3).
  unfold good. rewrite E1, E2, E3. auto.
Qed.

(** [c] is the diff of the entries named [k] below [d] *)
Definition child_of (d c : dnode) (k : string) : Prop :=
  compare (osub (nprev d) [k]) (osub (ncurr d) [k]) (npath d ++ [k]) = Some c.

Lemma child_fields d c k :
  child_of d c k ->
  npath c = npath d ++ [k] /\ nprev c = osub (nprev d) [k] /\ ncurr c = osub (ncurr d) [k].
Proof. apply compare_fields. Qed.

Lemma child_good d c k : good d -> child_of d c k -> good c.
Proof.
  intros (Ca & Cb & _) H. eapply compare_good; [| |exact H]; apply canone_one; assumption.
Qed.

(** ** The three buckets, one level *)

Lemma in_kids_added p l c :
  In c (kids_added p l) <-> exists k v, In (k, v) l /\ c = mk_added (p ++ [k]) v.
Proof.
  unfold kids_added. rewrite in_map_iff. split.
  - intros ([k v] & E & Hin). exists k, v. auto.
  - intros (k & v & Hin & E). exists (k, v). auto.
Qed.

Lemma in_kids_removed p l c :
  In c (kids_removed p l) <-> exists k v, In (k, v) l /\ c = mk_removed (p ++ [k]) v.
Proof.
  unfold kids_removed. rewrite in_map_iff. split.
  - intros ([k v] & E & Hin). exists k, v. auto.
  - intros (k & v & Hin & E). exists (k, v). auto.
Qed.

Lemma in_kids_modified f l1 l2 c :
  In c (kids_modified f l1 l2) <->
  exists k v w, In (k, v) l1 /\ lookup k l2 = Some w /\ f k v w = Some c.
Proof.
  unfold kids_modified. rewrite in_flat_map. split.
  - intros ([k v] & Hin & H). simpl in H.
    destruct (lookup k l2) as [w|] eqn:E; [|destruct H].
    destruct (f k v w) as [d|] eqn:F; [|destruct H].
    destruct H as [<-|[]]. exists k, v, w. auto.
  - intros (k & v & w & Hin & E & F). exists (k, v). split; [exact Hin|].
    simpl. rewrite E, F. left; reflexivity.
Qed.

Lemma in_only_in k v l other : In (k, v) (only_in l other) <-> In (k, v) l /\ has k other = false.
Proof.
  unfold only_in. rewrite filter_In. simpl. rewrite negb_true_iff. reflexivity.
Qed.

Lemma only_in_nodup l other : NoDup (keys l) -> NoDup (keys (only_in l other)).
Proof.
  unfold only_in. induction l as [|[k v] r IH]; simpl; intros H; [constructor|].
  inversion H; subst. destruct (negb (has k other)); simpl; [|apply IH; assumption].
  constructor; [|apply IH; assumption].
  intros Hin. apply in_map_iff in Hin as ([k' v'] & E & Hin). simpl in E; subst k'.
  apply filter_In in Hin as [Hin _]. apply H2. apply (in_map fst) in Hin. exact Hin.
Qed.

Lemma kids_added_paths p l : map npath (kids_added p l) = map (fun k => p ++ [k]) (keys l).
Proof.
  unfold kids_added. rewrite !map_map. apply map_ext. intros [k v]. simpl.
  apply (proj1 (mk_added_fields _ _)).
Qed.

Lemma kids_removed_paths p l : map npath (kids_removed p l) = map (fun k => p ++ [k]) (keys l).
Proof.
  unfold kids_removed. rewrite !map_map. apply map_ext. intros [k v]. simpl.
  apply (proj1 (mk_removed_fields _ _)).
Qed.

Lemma snoc_paths_nodup (p : path) ks : NoDup ks -> NoDup (map (fun k => p ++ [k]) ks).
Proof.
  apply NoDup_map_injective. intros x y H. apply app_inv_head in H. inversion H; reflexivity.
Qed.

Lemma kids_modified_nodup p f l1 l2 :
  (forall k v w c, f k v w = Some c -> npath c = p ++ [k]) ->
  NoDup (keys l1) -> NoDup (map npath (kids_modified f l1 l2)).
Proof.
  intros Hf. induction l1 as [|[k v] r IH]; intros H; [constructor|].
  inversion H; subst.
  change (kids_modified f ((k, v) :: r) l2)
    with ((match lookup k l2 with
           | Some w => match f k v w with Some d => [d] | None => [] end
           | None => [] end) ++ kids_modified f r l2).
  destruct (lookup k l2) as [w|] eqn:E; [|apply IH; assumption].
  destruct (f k v w) as [d|] eqn:F; [|apply IH; assumption].
  simpl. constructor; [|apply IH; assumption].
  intros Hin. apply in_map_iff in Hin as (c & Ec & Hin).
  apply in_kids_modified in Hin as (k' & v' & w' & Hin & _ & F').
  apply Hf in F. apply Hf in F'. rewrite F, F' in Ec.
  apply app_inv_head in Ec. inversion Ec; subst k'.
  apply H2. apply (in_map fst) in Hin. exact Hin.
Qed.

Lemma has_false_lookup k l : has k l = false <-> lookup k l = None.
Proof. unfold has. destruct (lookup k l); split; congruence. Qed.

Lemma added_bucket p pv l l' :
  NoDup (keys l) ->
  (forall k v, In (k, v) l' -> In (k, v) l /\ osub pv [k] = None) ->
  forall c, In c (kids_added p l') ->
  exists k, compare (osub pv [k]) (osub (Some (D l)) [k]) (p ++ [k]) = Some c /\
            osub pv [k] = None /\ osub (Some (D l)) [k] <> None.
Proof.
  intros N Hl c Hin. apply in_kids_added in Hin as (k & v & Hin & ->).
  destruct (Hl _ _ Hin) as [Hin' E]. exists k.
  rewrite E, osub_one_D, (lookup_in _ _ _ N Hin'). simpl. repeat split; discriminate.
Qed.

Lemma removed_bucket p cu l l' :
  NoDup (keys l) ->
  (forall k v, In (k, v) l' -> In (k, v) l /\ osub cu [k] = None) ->
  forall c, In c (kids_removed p l') ->
  exists k, compare (osub (Some (D l)) [k]) (osub cu [k]) (p ++ [k]) = Some c /\
            osub (Some (D l)) [k] <> None /\ osub cu [k] = None.
Proof.
  intros N Hl c Hin. apply in_kids_removed in Hin as (k & v & Hin & ->).
  destruct (Hl _ _ Hin) as [Hin' E]. exists k.
  rewrite E, osub_one_D, (lookup_in _ _ _ N Hin'). simpl. repeat split; discriminate.
Qed.

Record level (d : dnode) : Prop := {
  lv_rem : forall c, In c (nrem d) ->
           exists k, child_of d c k /\ osub (nprev d) [k] <> None /\ osub (ncurr d) [k] = None;
  lv_md : forall c, In c (nmd d) ->
           exists k, child_of d c k /\ osub (nprev d) [k] <> None /\ osub (ncurr d) [k] <> None;
  lv_add : forall c, In c (nadd d) ->
           exists k, child_of d c k /\ osub (nprev d) [k] = None /\ osub (ncurr d) [k] <> None;
  lv_all : forall c k, child_of d c k -> In c (children d);
  lv_nd_rem : NoDup (map npath (nrem d));
  lv_nd_md : NoDup (map npath (nmd d));
  lv_nd_add : NoDup (map npath (nadd d))
}.

Lemma level_added_dir p pv l :
  canonb (D l) = true -> (forall k, osub pv [k] = None) ->
  level (Node p pv (Some (D l)) [] [] (kids_added p l)).
Proof.
  intros C Hpv. pose proof (canon_nodup _ C) as N.
  split; unfold child_of; simpl nrem; simpl nmd; simpl nadd; simpl nprev; simpl ncurr; simpl npath.
  - intros c [].
  - intros c [].
  - apply added_bucket; [exact N|]. intros k v Hin; split; [exact Hin | apply Hpv].
  - intros c k. rewrite Hpv, osub_one_D. unfold children; simpl.
    destruct (lookup k l) as [v|] eqn:E; simpl; [|discriminate].
    intros H; inversion H. apply in_kids_added. exists k, v. split; [|reflexivity].
    apply lookup_some_in; exact E.
  - constructor.
  - constructor.
  - rewrite kids_added_paths. apply snoc_paths_nodup, N.
Qed.

Lemma level_removed_dir p cu l :
  canonb (D l) = true -> (forall k, osub cu [k] = None) ->
  level (Node p (Some (D l)) cu (kids_removed p l) [] []).
Proof.
  intros C Hcu. pose proof (canon_nodup _ C) as N.
  split; unfold child_of; simpl nrem; simpl nmd; simpl nadd; simpl nprev; simpl ncurr; simpl npath.
  - apply removed_bucket; [exact N|]. intros k v Hin; split; [exact Hin | apply Hcu].
  - intros c [].
  - intros c [].
  - intros c k. rewrite Hcu, osub_one_D. unfold children; simpl. rewrite app_nil_r.
    destruct (lookup k l) as [v|] eqn:E; simpl; [|discriminate].
    intros H; inversion H. apply in_kids_removed. exists k, v. split; [|reflexivity].
    apply lookup_some_in; exact E.
  - rewrite kids_removed_paths. apply snoc_paths_nodup, N.
  - constructor.
  - constructor.
Qed.

Lemma level_leaf p pv cu :
  (forall k, osub pv [k] = None) -> (forall k, osub cu [k] = None) ->
  level (Node p pv cu [] [] []).
Proof.
  intros Hpv Hcu. split; simpl.
  - intros c [].
  - intros c [].
  - intros c [].
  - intros c k. unfold child_of; simpl. rewrite Hpv, Hcu. discriminate.
  - constructor.
  - constructor.
  - constructor.
Qed.

Lemma level_dir_dir p l1 l2 :
  canonb (D l1) = true -> canonb (D l2) = true ->
  level (Node p (Some (D l1)) (Some (D l2))
           (kids_removed p (only_in l1 l2))
           (kids_modified (fun k v w => cmp (p ++ [k]) v w) l1 l2)
           (kids_added p (only_in l2 l1))).
Proof.
  intros C1 C2. pose proof (canon_nodup _ C1) as N1. pose proof (canon_nodup _ C2) as N2.
  split; unfold child_of; simpl nrem; simpl nmd; simpl nadd; simpl nprev; simpl ncurr; simpl npath.
  - apply removed_bucket; [exact N1|]. intros k v Hin. apply in_only_in in Hin as [Hin Hh].
    split; [exact Hin|]. rewrite osub_one_D. apply has_false_lookup; exact Hh.
  - intros c Hin. apply in_kids_modified in Hin as (k & v & w & Hin & E & F).
    exists k. rewrite !osub_one_D, (lookup_in _ _ _ N1 Hin), E. simpl.
    repeat split; [exact F | discriminate | discriminate].
  - apply added_bucket; [exact N2|]. intros k v Hin. apply in_only_in in Hin as [Hin Hh].
    split; [exact Hin|]. rewrite osub_one_D. apply has_false_lookup; exact Hh.
  - intros c k. rewrite !osub_one_D. unfold children; simpl.
    destruct (lookup k l1) as [v|] eqn:E1, (lookup k l2) as [w|] eqn:E2; simpl; intros H.
    + apply in_or_app; right; apply in_or_app; left. apply in_kids_modified.
      exists k, v, w. split; [apply lookup_some_in; exact E1 | auto].
    + inversion H. apply in_or_app; left. apply in_kids_removed. exists k, v.
      split; [|reflexivity]. apply in_only_in. split; [apply lookup_some_in; exact E1|].
      apply has_false_lookup; exact E2.
    + inversion H. apply in_or_app; right; apply in_or_app; right. apply in_kids_added.
      exists k, w. split; [|reflexivity]. apply in_only_in. split; [apply lookup_some_in; exact E2|].
      apply has_false_lookup; exact E1.
    + discriminate.
  - rewrite kids_removed_paths. apply snoc_paths_nodup, only_in_nodup, N1.
  - apply kids_modified_nodup with (p := p); [|exact N1].
    intros k v w c F. apply cmp_fields in F. tauto.
  - rewrite kids_added_paths. apply snoc_paths_nodup, only_in_nodup, N2.
Qed.

Lemma good_level d : good d -> level d.
Proof.
  destruct d as [p pv cu rem md add]. unfold good; simpl. intros (Ca & Cb & H).
  destruct pv as [[s|l1]|], cu as [[t|l2]|]; unfold compare in H.
  - simpl in H. destruct (String.eqb s t); [discriminate|]. inversion H; subst.
    apply level_leaf; reflexivity.
  - simpl in H. inversion H; subst. apply level_added_dir; [exact Cb | reflexivity].
  - simpl in H. inversion H; subst. apply level_leaf; reflexivity.
  - simpl in H. inversion H; subst. apply level_removed_dir; [exact Ca | reflexivity].
  - rewrite cmp_DD in H. apply dir_node_some in H. inversion H; subst.
    apply level_dir_dir; assumption.
  - simpl in H. inversion H; subst. apply level_removed_dir; [exact Ca | reflexivity].
  - simpl in H. inversion H; subst. apply level_leaf; reflexivity.
  - simpl in H. inversion H; subst. apply level_added_dir; [exact Cb | reflexivity].
  - discriminate.
Qed.

Lemma level_children d c : level d -> In c (children d) -> exists k, child_of d c k.
Proof.
  intros L Hin. unfold children in Hin.
  apply in_app_or in Hin as [Hin|Hin]; [|apply in_app_or in Hin as [Hin|Hin]].
  - destruct (lv_rem _ L _ Hin) as (k & H & _); eauto.
  - destruct (lv_md _ L _ Hin) as (k & H & _); eauto.
  - destruct (lv_add _ L _ Hin) as (k & H & _); eauto.
Qed.

Lemma status_of_fields c pv cu :
  nprev c = pv -> ncurr c = cu ->
  nstatus c = match pv, cu with None, _ => Added | Some _, None => Removed | Some _, Some _ => Modified end.
Proof. intros <- <-. reflexivity. Qed.

Lemma level_status d c : level d ->
  (In c (nrem d) -> nstatus c = Removed) /\
  (In c (nmd d) -> nstatus c = Modified) /\
  (In c (nadd d) -> nstatus c = Added).
Proof.
  intros L. repeat split; intros Hin.
  - destruct (lv_rem _ L _ Hin) as (k & H & H1 & H2). apply child_fields in H as (_ & E1 & E2).
    unfold nstatus. rewrite E1, E2, H2. destruct (osub (nprev d) [k]); [reflexivity|contradiction].
  - destruct (lv_md _ L _ Hin) as (k & H & H1 & H2). apply child_fields in H as (_ & E1 & E2).
    unfold nstatus. rewrite E1, E2.
    destruct (osub (nprev d) [k]); [|contradiction]. destruct (osub (ncurr d) [k]); [reflexivity|contradiction].
  - destruct (lv_add _ L _ Hin) as (k & H & H1 & H2). apply child_fields in H as (_ & E1 & E2).
    unfold nstatus. rewrite E1, H1. reflexivity.
Qed.

Lemma level_children_nodup d : level d -> NoDup (map npath (children d)).
Proof.
  intros L. unfold children. rewrite !map_app.
  assert (X : forall c c' k k', child_of d c k -> child_of d c' k' -> npath c = npath c' -> k = k').
  { intros c c' k k' H H' E. apply child_fields in H as (E1 & _). apply child_fields in H' as (E2 & _).
    rewrite E1, E2 in E. apply app_inv_head in E. inversion E; reflexivity. }
  apply NoDup_app_iff. split; [apply (lv_nd_rem _ L)|]. split.
  - apply NoDup_app_iff. split; [apply (lv_nd_md _ L)|]. split; [apply (lv_nd_add _ L)|].
    intros x H1 H2. apply in_map_iff in H1 as (c & E & Hc). apply in_map_iff in H2 as (c' & E' & Hc').
    destruct (lv_md _ L _ Hc) as (k & H & A1 & A2). destruct (lv_add _ L _ Hc') as (k' & H' & B1 & B2).
    assert (k = k') by (eapply X; [exact H | exact H' | congruence]). subst k'. contradiction.
  - intros x H1 H2. apply in_map_iff in H1 as (c & E & Hc). destruct (lv_rem _ L _ Hc) as (k & H & A1 & A2).
    apply in_app_or in H2 as [H2|H2]; apply in_map_iff in H2 as (c' & E' & Hc').
    + destruct (lv_md _ L _ Hc') as (k' & H' & B1 & B2).
      assert (k = k') by (eapply X; [exact H | exact H' | congruence]). subst k'. contradiction.
    + destruct (lv_add _ L _ Hc') as (k' & H' & B1 & B2).
      assert (k = k') by (eapply X; [exact H | exact H' | congruence]). subst k'. contradiction.
Qed.

(** ** The listing as a set: [nodes] is a permutation of the node and its descendants *)

Lemma insert_by_perm {X} (x : path * X) l : Permutation (insert_by x l) (x :: l).
Proof.
  induction l as [|y r IH]; simpl; [apply Permutation_refl|].
  destruct (pathcmp (fst x) (fst y)); try apply Permutation_refl.
  eapply Permutation_trans; [apply perm_skip; exact IH | apply perm_swap].
Qed.

Lemma sort_by_perm {X} (l : list (path * X)) : Permutation (sort_by l) l.
Proof.
  induction l as [|x r IH]; simpl; [constructor|].
  eapply Permutation_trans; [apply insert_by_perm | apply perm_skip; exact IH].
Qed.

Lemma block_perm (f : dnode -> list dnode) l : Permutation (block f l) (flat_map f l).
Proof.
  unfold block. rewrite <- flat_map_concat_map.
  eapply Permutation_trans; [apply Permutation_flat_map, sort_by_perm|].
  rewrite flat_map_concat_map, map_map, <- flat_map_concat_map. simpl. apply Permutation_refl.
Qed.

Lemma nodes_eq d :
  nodes d = block nodes (nrem d) ++ block nodes (nmd d) ++ [d] ++ block nodes (nadd d).
Proof. destruct d; reflexivity. Qed.

Lemma nodes_perm d : Permutation (nodes d) (d :: flat_map nodes (children d)).
Proof.
  rewrite nodes_eq. unfold children. rewrite !flat_map_app.
  eapply Permutation_trans.
  - apply Permutation_app; [apply block_perm|].
    apply Permutation_app; [apply block_perm|]. apply Permutation_app; [apply Permutation_refl | apply block_perm].
  - rewrite app_assoc. simpl. rewrite (app_assoc (flat_map nodes (nrem d))).
    apply Permutation_sym, Permutation_middle.
Qed.

Lemma in_nodes d n : In n (nodes d) <-> n = d \/ exists c, In c (children d) /\ In n (nodes c).
Proof.
  split.
  - intros H. apply (Permutation_in _ (nodes_perm d)) in H. destruct H as [H|H]; [left; auto|].
    right. apply in_flat_map in H. exact H.
  - intros H. apply (Permutation_in _ (Permutation_sym (nodes_perm d))).
    destruct H as [->|H]; [left; reflexivity | right; apply in_flat_map; exact H].
Qed.

Lemma in_nodes_self d : In d (nodes d).
Proof. apply in_nodes; left; reflexivity. Qed.

(** ** Soundness and completeness: the listed nodes are exactly the diffs of the
    sub-entries at every path where these differ *)

Lemma nodes_sound : forall d, good d -> forall n, In n (nodes d) ->
  exists q, compare (osub (nprev d) q) (osub (ncurr d) q) (npath d ++ q) = Some n.
Proof.
  induction d as [p pv cu rem md add IH1 IH2 IH3] using dnode_ind'.
  intros G n Hin. apply in_nodes in Hin as [->|(c & Hc & Hin)].
  - exists []. rewrite !osub_nil, app_nil_r. apply G.
  - pose proof (good_level _ G) as L.
    destruct (level_children _ _ L Hc) as (k & Hk).
    pose proof (child_good _ _ _ G Hk) as Gc.
    assert (IH : Forall (fun c => good c -> forall n, In n (nodes c) ->
              exists q, compare (osub (nprev c) q) (osub (ncurr c) q) (npath c ++ q) = Some n)
              (rem ++ md ++ add)) by (repeat (apply Forall_app; split); assumption).
    rewrite Forall_forall in IH. destruct (IH _ Hc Gc _ Hin) as (q & Hq).
    destruct (child_fields _ _ _ Hk) as (E1 & E2 & E3). rewrite E1, E2, E3 in Hq.
    exists (k :: q). rewrite (osub_cons _ k q), (osub_cons (ncurr _) k q).
    rewrite <- app_assoc in Hq. exact Hq.
Qed.

Lemma compare_diff pv cu p n :
  canone pv = true -> canone cu = true -> compare pv cu p = Some n -> pv <> cu.
Proof.
  intros Ca Cb H E. apply (compare_none_iff pv cu p Ca Cb) in E. congruence.
Qed.

Lemma nodes_complete q : forall d n, good d ->
  compare (osub (nprev d) q) (osub (ncurr d) q) (npath d ++ q) = Some n -> In n (nodes d).
Proof.
  induction q as [|k q IH]; intros d n G H.
  - rewrite !osub_nil, app_nil_r in H. destruct G as (_ & _ & G). rewrite G in H. inversion H.
    apply in_nodes_self.
  - destruct G as (Ca & Cb & G0).
    destruct (compare (osub (nprev d) [k]) (osub (ncurr d) [k]) (npath d ++ [k])) as [c|] eqn:E.
    + assert (G : good d) by (repeat split; assumption).
      pose proof (lv_all _ (good_level _ G) _ _ E) as Hc.
      apply in_nodes; right. exists c. split; [exact Hc|].
      apply IH; [eapply child_good; eassumption|].
      destruct (child_fields _ _ _ E) as (E1 & E2 & E3). rewrite E1, E2, E3, <- app_assoc.
      rewrite <- !osub_cons. exact H.
    + apply compare_none_iff in E; try (apply canone_one; assumption).
      exfalso. apply compare_diff in H; try (apply canone_osub; assumption).
      apply H. rewrite (osub_cons _ k q), (osub_cons (ncurr d) k q), E. reflexivity.
Qed.

Lemma nodes_iff d n : good d ->
  (In n (nodes d) <->
   exists q, compare (osub (nprev d) q) (osub (ncurr d) q) (npath d ++ q) = Some n).
Proof.
  intros G. split; [apply nodes_sound; exact G|]. intros (q & H). eapply nodes_complete; eassumption.
Qed.

Lemma nodes_fields d n : good d -> In n (nodes d) ->
  exists q, npath n = npath d ++ q /\ nprev n = osub (nprev d) q /\ ncurr n = osub (ncurr d) q /\
            osub (nprev d) q <> osub (ncurr d) q /\ good n.
Proof.
  intros G Hin. destruct (nodes_sound _ G _ Hin) as (q & H). exists q.
  destruct G as (Ca & Cb & _).
  pose proof (compare_fields _ _ _ _ H) as (E1 & E2 & E3).
  repeat split; try assumption.
  - eapply compare_diff; [| |exact H]; apply canone_osub; assumption.
  - rewrite E2; apply canone_osub; assumption.
  - rewrite E3; apply canone_osub; assumption.
  - rewrite E1, E2, E3. exact H.
Qed.

(** ** No path is listed twice *)

Lemma nodes_nodup : forall d, good d -> NoDup (map npath (nodes d)).
Proof.
  induction d as [p pv cu rem md add IH1 IH2 IH3] using dnode_ind'. intros G.
  set (d := Node p pv cu rem md add) in *.
  eapply Permutation_NoDup; [apply Permutation_map, Permutation_sym, nodes_perm|].
  pose proof (good_level _ G) as L.
  assert (IH : Forall (fun c => good c -> NoDup (map npath (nodes c))) (children d))
    by (repeat (apply Forall_app; split); assumption).
  rewrite Forall_forall in IH.
  assert (Hk : forall c, In c (children d) -> exists k, npath c = p ++ [k] /\ good c).
  { intros c Hc. destruct (level_children _ _ L Hc) as (k & Hk). exists k.
    split; [apply (child_fields _ _ _ Hk) | eapply child_good; eassumption]. }
  pose proof (level_children_nodup _ L) as N.
  simpl map. constructor.
  - intros Hin. apply in_map_iff in Hin as (n & E & Hin). apply in_flat_map in Hin as (c & Hc & Hn).
    destruct (Hk _ Hc) as (k & Ek & Gc). destruct (nodes_fields _ _ Gc Hn) as (q & Eq & _).
    rewrite Eq, Ek, <- app_assoc in E. simpl in E. symmetry in E. exact (app_self_cons _ _ _ E).
  - revert IH Hk N. generalize (children d) as cs. induction cs as [|c cs IHcs]; intros IH Hk N.
    + constructor.
    + simpl. rewrite map_app. apply NoDup_app_iff.
      destruct (Hk c (or_introl eq_refl)) as (k & Ek & Gc). split; [|split].
      * apply IH; [left; reflexivity | exact Gc].
      * apply IHcs.
        -- intros c' Hc'; apply IH; right; exact Hc'.
        -- intros c' Hc'; apply Hk; right; exact Hc'.
        -- simpl in N. inversion N; assumption.
      * intros x H1 H2. apply in_map_iff in H1 as (n & E & Hn).
        apply in_map_iff in H2 as (n' & E' & Hn'). apply in_flat_map in Hn' as (c' & Hc' & Hn').
        destruct (Hk c' (or_intror Hc')) as (k' & Ek' & Gc').
        destruct (nodes_fields _ _ Gc Hn) as (q & Eq & _).
        destruct (nodes_fields _ _ Gc' Hn') as (q' & Eq' & _).
        rewrite <- E' in E. rewrite Eq, Eq', Ek, Ek', <- !app_assoc in E. simpl in E.
        apply app_one_inj in E as [-> _].
        simpl in N. inversion N as [|? ? Hnot _]; subst. apply Hnot.
        rewrite Ek, <- Ek'. apply in_map; exact Hc'.
Qed.

Lemma nodes_same_path d n : good d -> In n (nodes d) -> npath n = npath d -> n = d.
Proof.
  intros G Hin E. destruct (nodes_fields _ _ G Hin) as (q & Eq & E1 & E2 & _ & (_ & _ & Gn)).
  rewrite E in Eq. rewrite <- (app_nil_r (npath d)) in Eq at 1. apply app_inv_head in Eq. subst q.
  rewrite !osub_nil in *. rewrite E, E1, E2 in Gn. destruct G as (_ & _ & G). congruence.
Qed.

Lemma child_facts d c : good d -> In c (children d) -> exists k, npath c = npath d ++ [k] /\ good c.
Proof.
  intros G Hc. destruct (level_children _ _ (good_level _ G) Hc) as (k & Hk). exists k.
  split; [apply (child_fields _ _ _ Hk) | eapply child_good; eassumption].
Qed.

(** a listed node strictly below [d] sits in the listing of the child named by the next segment *)
Lemma in_nodes_child d x k r : good d -> In x (nodes d) -> npath x = npath d ++ k :: r ->
  exists c, In c (children d) /\ npath c = npath d ++ [k] /\ good c /\ In x (nodes c).
Proof.
  intros G Hin E. apply in_nodes in Hin as [->|(c & Hc & Hin)].
  - exfalso. exact (app_self_cons _ _ _ E).
  - destruct (child_facts _ _ G Hc) as (k' & Ek & Gc).
    destruct (nodes_fields _ _ Gc Hin) as (q & Eq & _).
    rewrite Eq, Ek, <- app_assoc in E. simpl in E. apply app_one_inj in E as [-> _].
    exists c. auto.
Qed.

(** ** The whole-diff statements *)

Lemma dirdiff_good a b d : canone a = true -> canone b = true -> dirdiff a b = Some d ->
  good d /\ npath d = [] /\ nprev d = a /\ ncurr d = b.
Proof.
  intros Ca Cb H. unfold dirdiff in H. split; [exact (compare_good a b [] d Ca Cb H)|].
  apply compare_fields in H. exact H.
Qed.

Lemma reported_iff a b : canone a = true -> canone b = true ->
  (forall q, (exists n, In n (listing (dirdiff a b)) /\ npath n = q) <-> osub a q <> osub b q) /\
  (forall n, In n (listing (dirdiff a b)) ->
     nprev n = osub a (npath n) /\ ncurr n = osub b (npath n) /\
     nstatus n = match osub a (npath n), osub b (npath n) with
                 | None, _ => Added
                 | Some _, None => Removed
                 | Some _, Some _ => Modified
                 end) /\
  NoDup (map npath (listing (dirdiff a b))).
Proof.
  intros Ca Cb. destruct (dirdiff a b) as [d|] eqn:E.
  - destruct (dirdiff_good _ _ _ Ca Cb E) as (G & Ep & Ea & Eb). simpl listing.
    split; [|split].
    + intros q. split.
      * intros (n & Hin & <-). destruct (nodes_fields _ _ G Hin) as (q & Eq & _ & _ & Hd & _).
        rewrite Ep in Eq. simpl in Eq. rewrite Eq, <- Ea, <- Eb. exact Hd.
      * intros Hd. destruct (compare (osub a q) (osub b q) q) as [n|] eqn:F.
        -- exists n. split; [|apply (compare_fields _ _ _ _ F)].
           eapply (nodes_complete q); [exact G|]. rewrite Ep, Ea, Eb. exact F.
        -- apply compare_none_iff in F; try (apply canone_osub; assumption). contradiction.
    + intros n Hin. destruct (nodes_fields _ _ G Hin) as (q & Eq & E1 & E2 & _).
      rewrite Ep in Eq. simpl in Eq. subst q. rewrite Ea in E1. rewrite Eb in E2.
      repeat split; try assumption. apply status_of_fields; assumption.
    + apply nodes_nodup; exact G.
  - simpl. unfold dirdiff in E. apply (compare_none_iff a b [] Ca Cb) in E. subst b. split; [|split].
    + intros q. split; [intros (n & [] & _) | intros H; exfalso; apply H; reflexivity].
    + intros n [].
    + constructor.
Qed.

(** ** Order of the listing *)

Definition before {X} (x y : X) (l : list X) : Prop :=
  exists l1 l2 l3, l = l1 ++ x :: l2 ++ y :: l3.

Lemma before_app_l {X} (x y : X) l r : before x y l -> before x y (l ++ r).
Proof.
  intros (l1 & l2 & l3 & ->). exists l1, l2, (l3 ++ r).
  rewrite <- app_assoc. simpl. rewrite <- app_assoc. reflexivity.
Qed.

Lemma before_app_r {X} (x y : X) l r : before x y l -> before x y (r ++ l).
Proof. intros (l1 & l2 & l3 & ->). exists (r ++ l1), l2, l3. rewrite <- app_assoc. reflexivity. Qed.

Lemma before_split {X} (x y : X) l r : In x l -> In y r -> before x y (l ++ r).
Proof.
  intros Hx Hy. apply in_split in Hx as (a1 & a2 & ->). apply in_split in Hy as (b1 & b2 & ->).
  exists a1, (a2 ++ b1), b2. rewrite <- app_assoc. simpl. rewrite <- app_assoc. reflexivity.
Qed.

Lemma before_concat {X} (x y : X) l ls : In l ls -> before x y l -> before x y (List.concat ls).
Proof.
  induction ls as [|a r IH]; simpl; [intros []|].
  intros [->|Hin] H; [apply before_app_l; exact H | apply before_app_r, IH; assumption].
Qed.

Lemma in_block (f : dnode -> list dnode) l x : In x (block f l) <-> exists c, In c l /\ In x (f c).
Proof.
  split.
  - intros H. apply (Permutation_in _ (block_perm f l)) in H. apply in_flat_map in H. exact H.
  - intros H. apply (Permutation_in _ (Permutation_sym (block_perm f l))). apply in_flat_map. exact H.
Qed.

Lemma before_block (f : dnode -> list dnode) l c x y :
  In c l -> before x y (f c) -> before x y (block f l).
Proof.
  intros Hc H. unfold block. apply before_concat with (l := f c); [|exact H].
  apply in_map_iff. exists (npath c, f c). split; [reflexivity|].
  apply (Permutation_in _ (Permutation_sym (sort_by_perm _))).
  apply in_map_iff. exists c. auto.
Qed.

Lemma before_lift d c x y : In c (children d) -> before x y (nodes c) -> before x y (nodes d).
Proof.
  intros Hc H. rewrite nodes_eq. unfold children in Hc.
  apply in_app_or in Hc as [Hc|Hc]; [|apply in_app_or in Hc as [Hc|Hc]].
  - apply before_app_l. eapply before_block; eassumption.
  - apply before_app_r, before_app_l. eapply before_block; eassumption.
  - apply before_app_r, before_app_r, before_app_r. eapply before_block; eassumption.
Qed.

Lemma before_index {X} (x y : X) l i j :
  NoDup l -> before x y l -> nth_error l i = Some x -> nth_error l j = Some y -> i < j.
Proof.
  intros N (l1 & l2 & l3 & ->) Hi Hj.
  assert (Ei : i = List.length l1).
  { apply (proj1 (NoDup_nth_error _) N).
    - apply nth_error_Some. rewrite Hi. discriminate.
    - rewrite Hi. rewrite nth_error_app2 by lia. rewrite PeanoNat.Nat.sub_diag. reflexivity. }
  assert (Ej : j = List.length l1 + S (List.length l2)).
  { apply (proj1 (NoDup_nth_error _) N).
    - apply nth_error_Some. rewrite Hj. discriminate.
    - rewrite Hj. rewrite nth_error_app2 by lia.
      replace (List.length l1 + S (List.length l2) - List.length l1) with (S (List.length l2)) by lia.
      simpl. rewrite nth_error_app2 by lia. rewrite PeanoNat.Nat.sub_diag. reflexivity. }
  lia.
Qed.

Lemma order_before : forall d, good d -> forall n m k,
  In n (nodes d) -> In m (nodes d) -> npath n = npath m ++ [k] ->
  (nstatus n = Removed -> before n m (nodes d)) /\ (nstatus n = Added -> before m n (nodes d)).
Proof.
  induction d as [p pv cu rem md add IH1 IH2 IH3] using dnode_ind'. intros G n m k Hn Hm E.
  set (d := Node p pv cu rem md add) in *.
  assert (IH : Forall (fun c => good c -> forall n m k,
      In n (nodes c) -> In m (nodes c) -> npath n = npath m ++ [k] ->
      (nstatus n = Removed -> before n m (nodes c)) /\ (nstatus n = Added -> before m n (nodes c)))
      (children d)) by (repeat (apply Forall_app; split); assumption).
  rewrite Forall_forall in IH.
  pose proof (good_level _ G) as L.
  apply in_nodes in Hm as [->|(c & Hc & Hm)].
  - (* the parent entry is [d] itself: [n] is one of its children *)
    destruct (in_nodes_child d n k [] G Hn E) as (c & Hc & Ec & Gc & Hnc).
    assert (n = c) by (apply nodes_same_path; [exact Gc | exact Hnc | congruence]). subst c.
    destruct (level_status d n L) as (S1 & S2 & S3).
    unfold children in Hc. rewrite nodes_eq.
    split; intros St.
    + apply in_app_or in Hc as [Hc|Hc]; [|apply in_app_or in Hc as [Hc|Hc]].
      * apply before_split; [apply in_block; exists n; split; [exact Hc | apply in_nodes_self]|].
        apply in_or_app; right; apply in_or_app; left; left; reflexivity.
      * rewrite (S2 Hc) in St; discriminate.
      * rewrite (S3 Hc) in St; discriminate.
    + apply in_app_or in Hc as [Hc|Hc]; [|apply in_app_or in Hc as [Hc|Hc]].
      * rewrite (S1 Hc) in St; discriminate.
      * rewrite (S2 Hc) in St; discriminate.
      * apply before_app_r, before_app_r, before_split; [left; reflexivity|].
        apply in_block; exists n; split; [exact Hc | apply in_nodes_self].
  - (* the parent entry lies below the child [c]: so does [n] *)
    destruct (child_facts _ _ G Hc) as (kc & Ekc & Gc).
    destruct (nodes_fields _ _ Gc Hm) as (q & Eq & _).
    assert (E' : npath n = npath d ++ kc :: (q ++ [k])).
    { rewrite E, Eq, Ekc, <- !app_assoc. reflexivity. }
    destruct (in_nodes_child d n kc _ G Hn E') as (c' & Hc' & Ec' & Gc' & Hnc').
    assert (c' = c).
    { apply (NoDup_map_inj_in npath (children d)); [apply level_children_nodup; exact L | | | congruence];
        assumption. }
    subst c'. destruct (IH _ Hc Gc n m k Hnc' Hm E) as [B1 B2].
    split; intros St; eapply before_lift; eauto.
Qed.

Lemma order_safe a b : canone a = true -> canone b = true ->
  forall n k pp, In n (listing (dirdiff a b)) -> npath n = pp ++ [k] ->
  exists j m, nth_error (listing (dirdiff a b)) j = Some m /\ npath m = pp /\
    forall i, nth_error (listing (dirdiff a b)) i = Some n ->
      (nstatus n = Removed -> i < j) /\ (nstatus n = Added -> j < i).
Proof.
  intros Ca Cb n k pp Hin E.
  destruct (reported_iff a b Ca Cb) as (R1 & R2 & R3).
  assert (Hp : osub a pp <> osub b pp).
  { intros X. assert (Y : osub a (pp ++ [k]) <> osub b (pp ++ [k])) by (apply R1; eauto).
    apply Y. rewrite !osub_app, X. reflexivity. }
  apply R1 in Hp as (m & Hm & Em).
  destruct (In_nth_error _ _ Hm) as (j & Hj). exists j, m. split; [exact Hj|]. split; [exact Em|].
  intros i Hi.
  destruct (dirdiff a b) as [d|] eqn:D; [|destruct Hin].
  destruct (dirdiff_good _ _ _ Ca Cb D) as (G & _). simpl listing in *.
  assert (E' : npath n = npath m ++ [k]) by congruence.
  destruct (order_before d G n m k Hin Hm E') as [B1 B2].
  pose proof (NoDup_map_inv _ _ R3) as N.
  split; intros St.
  - eapply before_index; [exact N | apply B1; exact St | exact Hi | exact Hj].
  - eapply before_index; [exact N | apply B2; exact St | exact Hj | exact Hi].
Qed.

(** ** Lookup by path *)

Lemma path_eqb_true p q : path_eqb p q = true <-> p = q.
Proof. unfold path_eqb. destruct (list_eq_dec string_dec p q); split; congruence. Qed.

Lemma find_path_unique l q x :
  NoDup (map npath l) -> In x l -> npath x = q ->
  find (fun n => path_eqb (npath n) q) l = Some x.
Proof.
  intros N Hin E. destruct (find (fun n => path_eqb (npath n) q) l) as [y|] eqn:F.
  - apply find_some in F as [Hy Ey]. apply path_eqb_true in Ey. f_equal.
    apply (NoDup_map_inj_in npath l); try assumption. congruence.
  - apply (find_none _ _ F) in Hin. apply path_eqb_true in E. congruence.
Qed.

Lemma find_path_none l q :
  (forall x, In x l -> npath x <> q) -> find (fun n => path_eqb (npath n) q) l = None.
Proof.
  intros H. destruct (find (fun n => path_eqb (npath n) q) l) as [y|] eqn:F; [|reflexivity].
  apply find_some in F as [Hy Ey]. apply path_eqb_true in Ey. exfalso. exact (H _ Hy Ey).
Qed.

Lemma get_from_agrees r : forall d, good d ->
  get_from d (npath d) r = find (fun n => path_eqb (npath n) (npath d ++ r)) (nodes d).
Proof.
  induction r as [|k r IH]; intros d G.
  - simpl. rewrite app_nil_r. symmetry.
    apply find_path_unique; [apply nodes_nodup; exact G | apply in_nodes_self | reflexivity].
  - simpl get_from.
    pose proof (level_children_nodup _ (good_level _ G)) as Nc.
    destruct (find (fun c => path_eqb (npath c) (npath d ++ [k])) (children d)) as [c|] eqn:F.
    + apply find_some in F as [Hc Ec]. apply path_eqb_true in Ec.
      destruct (child_facts _ _ G Hc) as (_ & _ & Gc).
      rewrite <- Ec, (IH c Gc). rewrite Ec, <- app_assoc. simpl.
      destruct (find (fun n => path_eqb (npath n) (npath d ++ k :: r)) (nodes c)) as [n|] eqn:F2.
      * apply find_some in F2 as [Hn En]. apply path_eqb_true in En. symmetry.
        apply find_path_unique; [apply nodes_nodup; exact G | | exact En].
        apply in_nodes; right; exists c; auto.
      * symmetry. apply find_path_none. intros x Hx Ex.
        destruct (in_nodes_child d x k r G Hx Ex) as (c' & Hc' & Ec' & _ & Hxc').
        assert (c' = c) by (apply (NoDup_map_inj_in npath (children d)); try assumption; congruence).
        subst c'. apply (find_none _ _ F2) in Hxc'. apply path_eqb_true in Ex. congruence.
    + symmetry. apply find_path_none. intros x Hx Ex.
      destruct (in_nodes_child d x k r G Hx Ex) as (c' & Hc' & Ec' & _).
      apply (find_none _ _ F) in Hc'. apply path_eqb_true in Ec'. congruence.
Qed.

Lemma get_agrees a b : canone a = true -> canone b = true ->
  forall q,
    get (dirdiff a b) q = find (fun n => path_eqb (npath n) q) (listing (dirdiff a b)) /\
    (get (dirdiff a b) q = None <-> osub a q = osub b q) /\
    (forall n, get (dirdiff a b) q = Some n ->
       In n (listing (dirdiff a b)) /\ npath n = q /\ nprev n = osub a q /\ ncurr n = osub b q).
Proof.
  intros Ca Cb q.
  assert (E : get (dirdiff a b) q = find (fun n => path_eqb (npath n) q) (listing (dirdiff a b))).
  { destruct (dirdiff a b) as [d|] eqn:D; [|reflexivity].
    destruct (dirdiff_good _ _ _ Ca Cb D) as (G & Ep & _). simpl.
    rewrite <- Ep at 1. rewrite (get_from_agrees q d G), Ep. reflexivity. }
  destruct (reported_iff a b Ca Cb) as (R1 & R2 & R3).
  split; [exact E|]. rewrite E. split.
  - split.
    + intros F. destruct (compare (osub a q) (osub b q) q) as [x|] eqn:C.
      * exfalso. assert (Hd : osub a q <> osub b q)
          by (eapply compare_diff; [| |exact C]; apply canone_osub; assumption).
        apply R1 in Hd as (n & Hn & En). apply (find_none _ _ F) in Hn.
        apply path_eqb_true in En. congruence.
      * apply compare_none_iff in C; [exact C| |]; apply canone_osub; assumption.
    + intros X. apply find_path_none. intros x Hx Ex.
      assert (osub a q <> osub b q) by (apply R1; eauto). contradiction.
  - intros n F. apply find_some in F as [Hn En]. apply path_eqb_true in En.
    destruct (R2 _ Hn) as (E1 & E2 & _). rewrite En in E1, E2. auto.
Qed.
