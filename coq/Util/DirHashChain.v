(** * Directory hashsums with symlink chains (property C19, extension).

    [DirHash.v] normalises a link text lexically, which is what [Path.resolve] does when no
    component of the text is itself a symlink.  This file lifts that restriction: it
    transcribes [posixpath._joinrealpath] (non-strict mode), the function [Path.resolve]
    runs on [link.parent / os.readlink(link)]:

    - components are consumed left to right on an already resolved ("physical") path;
      [""] and ["."] are skipped, [".."] drops the last resolved component (at "/" it stays);
    - a component that is a symlink is resolved recursively from the directory holding it
      (from "/" for an absolute text) and the walk continues from where it led;
    - anything else (file, directory, missing) is appended;
    - a symlink met again while it is still being resolved is a loop: non-strict [realpath]
      gives up and returns the UNRESOLVED path (the link, the rest of the text, the rests of
      the enclosing texts), [abspath] then collapses [".."] LEXICALLY, and [Path.resolve]
      raises [RuntimeError("Symlink loop ...")] only when a [stat] of that path fails with
      ELOOP.  When the lexical collapse removed the looping link, no error is raised and the
      lexically collapsed path is the answer ([kwalk] models the kernel's walk for [stat]).

    The world is one raw tree rooted at "/" (directories that merely exist need not be
    listed: a missing component is appended like a directory), so links lying OUTSIDE the
    hashed directory take part: a chain may leave the directory and come back.

    [resolve] recurses on explicit fuel; running out of it is a third outcome [RFuel]
    (never a loop verdict).  Definitions only. *)
From Coq Require Import List String Ascii NArith Bool.
From MV Require Import Base.Sx Base.Cmp Util.DirHash.
Import ListNotations.
Local Open Scope string_scope.

Fixpoint rlookup (t : rtree) (p : list string) : option rtree :=
  match p with
  | [] => Some t
  | s :: r =>
      match t with
      | RDir es => match assoc s es with Some c => rlookup c r | None => None end
      | _ => None
      end
  end.

Fixpoint path_eqb (a b : list string) : bool :=
  match a, b with
  | [], [] => true
  | x :: a', y :: b' => String.eqb x y && path_eqb a' b'
  | _, _ => false
  end.

(** Paths are kept REVERSED while walking (head = last component). *)
Inductive rres : Type :=
| ROk (cur : list string)
| RLoop (raw : list string)      (* the unresolved path [realpath] returns, forward order *)
| RFuel.

Definition is_skip (s : string) : bool := String.eqb s "" || String.eqb s ".".

(** [stk]: the links being resolved right now (reversed paths). *)
Fixpoint resolve (world : rtree) (fuel : nat) (stk : list (list string))
         (cur : list string) (segs : list string) : rres :=
  match fuel with
  | O => RFuel
  | S f =>
      match segs with
      | [] => ROk cur
      | s :: rest =>
          if is_skip s then resolve world f stk cur rest
          else if String.eqb s ".." then resolve world f stk (tl cur) rest
          else
            let np := s :: cur in
            match rlookup world (rev np) with
            | Some (RLink ab segs2) =>
                if existsb (path_eqb np) stk then RLoop (rev np ++ rest)
                else
                  match resolve world f (np :: stk) (if ab then [] else cur) segs2 with
                  | ROk cur' => resolve world f stk cur' rest
                  | RLoop raw => RLoop (raw ++ rest)
                  | RFuel => RFuel
                  end
            | _ => resolve world f stk np rest
            end
      end
  end.

(** The kernel's walk for [stat(p)]: strict (a missing component or a file in the middle
    stops it: ENOENT/ENOTDIR, which [Path.resolve] ignores), symlinks followed, a symlink
    met while being followed is ELOOP. *)
Inductive kres : Type := KOk (cur : list string) | KLoop | KStop | KFuel.

Fixpoint kwalk (world : rtree) (fuel : nat) (stk : list (list string))
         (cur : list string) (segs : list string) : kres :=
  match fuel with
  | O => KFuel
  | S f =>
      match segs with
      | [] => KOk cur
      | s :: rest =>
          if is_skip s then kwalk world f stk cur rest
          else if String.eqb s ".." then kwalk world f stk (tl cur) rest
          else
            let np := s :: cur in
            match rlookup world (rev np) with
            | None => KStop
            | Some (RFile _) => match rest with [] => KOk np | _ => KStop end
            | Some (RDir _) => kwalk world f stk np rest
            | Some (RLink ab segs2) =>
                if existsb (path_eqb np) stk then KLoop
                else
                  match kwalk world f (np :: stk) (if ab then [] else cur) segs2 with
                  | KOk cur' => kwalk world f stk cur' rest
                  | r => r
                  end
            end
      end
  end.

(** [Path.resolve] of [link.parent / readlink(link)]: absolute path, or the two ways to fail. *)
Inductive fres : Type := FOk (p : list string) | FLoop | FFuel.

Definition finish (world : rtree) (fuel : nat) (r : rres) : fres :=
  match r with
  | ROk cur => FOk (rev cur)
  | RFuel => FFuel
  | RLoop raw =>
      let p := norm_segs [] raw in                      (* abspath: lexical *)
      match kwalk world fuel [] [] p with
      | KLoop => FLoop                                   (* stat: ELOOP -> RuntimeError *)
      | KFuel => FFuel
      | _ => FOk p
      end
  end.

Definition resolve_raw (world : rtree) (fuel : nat) (base linkdir : list string)
           (ab : bool) (segs : list string) : rres :=
  resolve world fuel [] (if ab then [] else rev (base ++ linkdir)) segs.

Definition resolve_link (world : rtree) (fuel : nat) (base linkdir : list string)
           (ab : bool) (segs : list string) : fres :=
  finish world fuel (resolve_raw world fuel base linkdir ab segs).

Definition target_of (base : list string) (r : fres) : target :=
  match r with
  | FOk p => match strip_prefix base p with Some q => In_ q | None => Outside end
  | _ => Outside
  end.

Definition rel_symlink_c (world : rtree) (fuel : nat) (base linkdir : list string)
           (ab : bool) (segs : list string) : target :=
  target_of base (resolve_link world fuel base linkdir ab segs).

(** The hashed directory with every link replaced by its FINAL target.
    [rme]: reversed path of the node relative to the base. *)
Fixpoint cnormalise (world : rtree) (fuel : nat) (base rme : list string) (t : rtree) : fstree :=
  match t with
  | RFile bs => File bs
  | RLink ab segs => Link (rel_symlink_c world fuel base (rev (tl rme)) ab segs)
  | RDir es =>
      Dir (map (fun kc => (fst kc, cnormalise world fuel base (fst kc :: rme) (snd kc))) es)
  end.

(** Is there a link in the hashed directory whose resolution ends in the given way? *)
Fixpoint any_link (pred : fres -> bool) (world : rtree) (fuel : nat) (base rme : list string)
         (t : rtree) : bool :=
  match t with
  | RFile _ => false
  | RLink ab segs => pred (resolve_link world fuel base (rev (tl rme)) ab segs)
  | RDir es =>
      existsb (fun kc => any_link pred world fuel base (fst kc :: rme) (snd kc)) es
  end.

Definition is_loop (r : fres) : bool := match r with FLoop => true | _ => false end.
Definition is_fuel (r : fres) : bool := match r with FFuel => true | _ => false end.

(** The directory at [base] inside the world; a missing base is an empty directory. *)
Definition base_tree (world : rtree) (base : list string) : rtree :=
  match rlookup world base with Some t => t | None => RDir [] end.

Definition final_tree (world : rtree) (fuel : nat) (base : list string) : fstree :=
  cnormalise world fuel base [] (base_tree world base).

Section Hash.
  Variable state : Type.
  Variable init : state.
  Variable upd : state -> bytes -> state.
  Variable fin : state -> digest.

  (** [dir_hashsums(base)] in a world with arbitrary links. *)
  Definition dir_hashsums_c (n : nat) (a : alg) (world : rtree) (fuel : nat) (base : list string)
    : option hs_tree :=
    dir_hashsums state init upd fin n a (final_tree world fuel base).
End Hash.

(** What the physical walk maintains: no prefix of the resolved path is a symlink. *)
Definition is_rlink (o : option rtree) : bool :=
  match o with Some (RLink _ _) => true | _ => false end.

Fixpoint physb (world : rtree) (cur : list string) : bool :=
  match cur with
  | [] => true
  | _ :: c => negb (is_rlink (rlookup world (rev cur))) && physb world c
  end.

(** The lexical walk of [DirHash.norm_segs] on a reversed accumulator, and the test that it
    never steps on a symlink. *)
Fixpoint nolink_walk (world : rtree) (cur : list string) (segs : list string) : bool :=
  match segs with
  | [] => true
  | s :: rest =>
      if is_skip s then nolink_walk world cur rest
      else if String.eqb s ".." then nolink_walk world (tl cur) rest
      else negb (is_rlink (rlookup world (rev (s :: cur)))) && nolink_walk world (s :: cur) rest
  end.

(** Raw worlds the harness sends: names valid, link texts split at every "/". *)
Definition world_okb (world : rtree) : bool := raw_okb world.

(** ** Runner entry:
    [(ctree n alg fuel (base...) world)] ->
      [(has-loop? out-of-fuel? skeleton result)]   world: raw tree rooted at "/" *)
Definition run_c19c (x : sx) : sx :=
  match x with
  | L [A "ctree"; n; a; fuel; base; w] =>
      match sx_nat n, dec_alg a, sx_nat fuel, sx_strings base, dec_rtree w with
      | Some n, Some a, Some fuel, Some base, Some w =>
          let t := base_tree w base in
          let t' := final_tree w fuel base in
          L [of_bool (any_link is_loop w fuel base [] t);
             of_bool (any_link is_fuel w fuel base [] t);
             enc_skel t';
             of_opt enc_hs (dir_hashsums_id n a t')]
      | _, _, _, _, _ => sx_bad "ctree"
      end
  | _ => sx_bad "c19c"
  end.
