(** * Proofs about the directory-hashsum model (C19). *)
From Coq Require Import List String Ascii NArith Bool Lia Arith.
From MV Require Import Base.Sx Base.Cmp Util.DirHash.
Import ListNotations.
Local Open Scope string_scope.

(** ** Chunked reading feeds every byte exactly once, in order *)

Lemma chunks_fuel_concat {X : Type} (n : nat) :
  n > 0 -> forall fuel (l : list X), List.length l <= fuel -> List.concat (chunks_fuel fuel n l) = l.
Proof.
  intros Hn. induction fuel as [|f IH]; intros l Hl.
  - destruct l; simpl in *; [reflexivity | lia].
  - simpl. destruct (firstn n l) as [|c cs] eqn:E.
    + destruct l as [|x l]; [reflexivity|]. destruct n; [lia | simpl in E; discriminate].
    + rewrite <- E. change (firstn n l ++ List.concat (chunks_fuel f n (skipn n l)) = l)%list. rewrite IH.
      * apply firstn_skipn.
      * rewrite skipn_length. destruct l as [|x l]; [simpl in E; destruct n; discriminate|].
        simpl in Hl. simpl List.length. lia.
Qed.

Lemma chunks_concat {X : Type} (n : nat) (l : list X) : n > 0 -> List.concat (chunks n l) = l.
Proof. intros Hn. apply chunks_fuel_concat; [exact Hn | apply Nat.le_refl]. Qed.

Lemma chunks_fuel_blocks {X : Type} (n : nat) : forall fuel (l : list X),
  Forall (fun c => c <> [] /\ List.length c <= n) (chunks_fuel fuel n l).
Proof.
  induction fuel as [|f IH]; intros l; simpl; [constructor|].
  destruct (firstn n l) as [|c cs] eqn:E; [constructor|].
  constructor; [|apply IH]. split; [discriminate|]. rewrite <- E. apply firstn_le_length.
Qed.

(** Every block is non-empty and at most [n] long. *)
Lemma chunks_blocks {X : Type} (n : nat) (l : list X) :
  Forall (fun c => c <> [] /\ List.length c <= n) (chunks n l).
Proof. apply chunks_fuel_blocks. Qed.

(** ** Streaming hash: chunked digest = one-shot digest, for any block size *)

Section Stream.
  Variable state : Type.
  Variable init : state.
  Variable upd : state -> bytes -> state.
  Variable fin : state -> digest.
  Hypothesis upd_app : forall s x y, upd (upd s x) y = upd s (x ++ y)%list.
  Hypothesis upd_nil : forall s, upd s [] = s.

  Lemma fold_upd : forall cs s, fold_left upd cs s = upd s (List.concat cs).
  Proof.
    induction cs as [|c cs IH]; intros s; simpl.
    - symmetry; apply upd_nil.
    - rewrite IH. apply upd_app.
  Qed.

  Lemma hashsum_oneshot n bs :
    n > 0 -> hashsum state init upd fin n bs = oneshot state init upd fin bs.
  Proof.
    intros Hn. unfold hashsum, oneshot. rewrite fold_upd, chunks_concat by exact Hn. reflexivity.
  Qed.

  (** Any two block sizes give the same digest. *)
  Lemma hashsum_block_indep n m bs :
    n > 0 -> m > 0 -> hashsum state init upd fin n bs = hashsum state init upd fin m bs.
  Proof. intros Hn Hm. rewrite !hashsum_oneshot by assumption. reflexivity. Qed.

  (** Any way of cutting the stream (short reads) gives the same digest. *)
  Lemma any_cut_oneshot cs bs :
    List.concat cs = bs -> fin (fold_left upd cs init) = oneshot state init upd fin bs.
  Proof. intros E. unfold oneshot. rewrite fold_upd, E. reflexivity. Qed.
End Stream.

(** ** Strings: prefixes and path printing *)

Lemma qualified_inj a x y : qualified a x = qualified a y -> x = y.
Proof. unfold qualified; destruct a; simpl; intros E; inversion E; reflexivity. Qed.

Lemma symlink_prefix_inj x y : symlink_prefix ++ x = symlink_prefix ++ y -> x = y.
Proof. unfold symlink_prefix; simpl; intros E; inversion E; reflexivity. Qed.

(** A qualified digest never looks like a symlink entry. *)
Lemma prefix_distinct a d x : qualified a d <> symlink_prefix ++ x.
Proof. unfold qualified, symlink_prefix; destruct a; simpl; intros E; discriminate E. Qed.

Lemma valid_seg_spec s :
  valid_seg s = true -> s <> "" /\ s <> "." /\ s <> ".." /\ no_slash s = true.
Proof.
  unfold valid_seg. intros H.
  apply andb_prop in H as [H H4]. apply andb_prop in H as [H H3]. apply andb_prop in H as [H1 H2].
  repeat split; try assumption; intros ->; simpl in *; discriminate.
Qed.

Lemma split_no_slash s : no_slash s = true -> split_slash s = [s].
Proof.
  induction s as [|c s IH]; simpl; intros H; [reflexivity|].
  apply andb_prop in H as [H1 H2]. destruct (is_slash c); [discriminate|].
  rewrite IH by assumption. reflexivity.
Qed.

Lemma split_app s x : no_slash s = true -> split_slash (s ++ String "/" x) = s :: split_slash x.
Proof.
  induction s as [|c s IH]; simpl; intros H; [reflexivity|].
  apply andb_prop in H as [H1 H2]. destruct (is_slash c); [discriminate|].
  rewrite IH by assumption. reflexivity.
Qed.

Lemma split_join : forall r s,
  no_slash s = true -> forallb no_slash r = true -> split_slash (join_slash s r) = s :: r.
Proof.
  induction r as [|t r IH]; intros s Hs Hr; simpl.
  - apply split_no_slash; assumption.
  - simpl in Hr. apply andb_prop in Hr as [Ht Hr].
    rewrite split_app by assumption. rewrite IH by assumption. reflexivity.
Qed.

Lemma valid_no_slash p : forallb valid_seg p = true -> forallb no_slash p = true.
Proof.
  induction p as [|s p IH]; simpl; intros H; [reflexivity|].
  apply andb_prop in H as [H1 H2]. apply valid_seg_spec in H1 as (_ & _ & _ & H1).
  rewrite H1, IH by assumption. reflexivity.
Qed.

Lemma join_not_dot s r : valid_seg s = true -> String.eqb (join_slash s r) "." = false.
Proof.
  intros H. apply valid_seg_spec in H as (H1 & H2 & _ & _).
  destruct r as [|t r]; simpl.
  - apply String.eqb_neq; assumption.
  - destruct s as [|c s]; [congruence|]. simpl.
    destruct (Ascii.eqb c "."); [|reflexivity]. destruct s; reflexivity.
Qed.

Lemma parse_show p : forallb valid_seg p = true -> parse_path (show_path p) = p.
Proof.
  destruct p as [|s r]; intros H; [reflexivity|].
  simpl in H. apply andb_prop in H as [Hs Hr].
  unfold parse_path, show_path. rewrite join_not_dot by assumption.
  apply split_join; [apply valid_seg_spec in Hs; tauto | apply valid_no_slash; assumption].
Qed.

Lemma show_path_inj p q :
  forallb valid_seg p = true -> forallb valid_seg q = true -> show_path p = show_path q -> p = q.
Proof. intros Hp Hq E. rewrite <- (parse_show p Hp), <- (parse_show q Hq), E. reflexivity. Qed.

(** ** Nested induction principle for [fstree] *)

Section FsInd.
  Variable P : fstree -> Prop.
  Hypothesis HF : forall bs, P (File bs).
  Hypothesis HL : forall t, P (Link t).
  Hypothesis HD : forall es, Forall (fun kc => P (snd kc)) es -> P (Dir es).

  Fixpoint fstree_ind2 (t : fstree) : P t :=
    match t with
    | File bs => HF bs
    | Link tg => HL tg
    | Dir es =>
        HD es ((fix go (es : list (string * fstree)) : Forall (fun kc => P (snd kc)) es :=
                  match es with
                  | [] => Forall_nil _
                  | kc :: r => Forall_cons kc (fstree_ind2 (snd kc)) (go r)
                  end) es)
    end.
End FsInd.

Section HsInd.
  Variable P : hs_tree -> Prop.
  Hypothesis HS : forall s, P (HStr s).
  Hypothesis HD : forall es, Forall (fun kc => P (snd kc)) es -> P (HDir es).

  Fixpoint hs_tree_ind2 (t : hs_tree) : P t :=
    match t with
    | HStr s => HS s
    | HDir es =>
        HD es ((fix go (es : list (string * hs_tree)) : Forall (fun kc => P (snd kc)) es :=
                  match es with
                  | [] => Forall_nil _
                  | kc :: r => Forall_cons kc (hs_tree_ind2 (snd kc)) (go r)
                  end) es)
    end.
End HsInd.

(** ** Generic facts about [omap_snd] *)

Lemma omap_snd_cons {X Y} (f : X -> option Y) k c r :
  omap_snd f ((k, c) :: r) =
  match f c, omap_snd f r with
  | Some c', Some r' => Some ((k, c') :: r')
  | _, _ => None
  end.
Proof. reflexivity. Qed.

Lemma omap_snd_ext {X Y} (f g : X -> option Y) es :
  Forall (fun kc => f (snd kc) = g (snd kc)) es -> omap_snd f es = omap_snd g es.
Proof.
  induction 1 as [|[k c] r H _ IH]; [reflexivity|].
  rewrite !omap_snd_cons. simpl in H. rewrite H, IH. reflexivity.
Qed.

(** Pointwise injectivity (relative to a predicate [Q] on elements) lifts to tables. *)
Lemma omap_snd_inj {X Y} (f : X -> option Y) (Q : X -> bool) : forall es,
  Forall (fun kc => Q (snd kc) = true -> forall c2, Q c2 = true ->
                    forall h, f (snd kc) = Some h -> f c2 = Some h -> snd kc = c2) es ->
  forallb (fun kc => Q (snd kc)) es = true ->
  forall es2, forallb (fun kc => Q (snd kc)) es2 = true ->
  forall r, omap_snd f es = Some r -> omap_snd f es2 = Some r -> es = es2.
Proof.
  induction 1 as [|[k c] es H _ IH]; intros Q1 es2 Q2 r E1 E2.
  - simpl in E1. inversion E1; subst r. destruct es2 as [|[k2 c2] es2]; [reflexivity|].
    rewrite omap_snd_cons in E2. destruct (f c2); [|discriminate].
    destruct (omap_snd f es2); discriminate.
  - rewrite omap_snd_cons in E1. destruct (f c) as [c'|] eqn:Ec; [|discriminate].
    destruct (omap_snd f es) as [r'|] eqn:Er; [|discriminate]. inversion E1; subst r.
    destruct es2 as [|[k2 c2] es2]; [discriminate|].
    rewrite omap_snd_cons in E2. destruct (f c2) as [c2'|] eqn:Ec2; [|discriminate].
    destruct (omap_snd f es2) as [r2'|] eqn:Er2; [|discriminate].
    inversion E2; subst. simpl in Q1, Q2, H.
    apply andb_prop in Q1 as [Qc Q1]. apply andb_prop in Q2 as [Qc2 Q2].
    rewrite (H Qc c2 Qc2 _ Ec Ec2). f_equal.
    exact (IH Q1 es2 Q2 _ eq_refl Er2).
Qed.

Lemma omap_snd_some {X Y} (f : X -> option Y) es :
  Forall (fun kc => exists h, f (snd kc) = Some h) es -> exists r, omap_snd f es = Some r.
Proof.
  induction 1 as [|[k c] es [h Hh] _ [r IH]]; [exists []; reflexivity|].
  rewrite omap_snd_cons. simpl in Hh. rewrite Hh, IH. eexists; reflexivity.
Qed.

Lemma omap_snd_none {X Y} (f : X -> option Y) es :
  Exists (fun kc => f (snd kc) = None) es -> omap_snd f es = None.
Proof.
  induction 1 as [[k c] es H|[k c] es _ IH]; rewrite omap_snd_cons.
  - simpl in H. rewrite H. reflexivity.
  - rewrite IH. destruct (f c); reflexivity.
Qed.

Lemma canon_links_ok t : canonb t = true -> links_okb t = true.
Proof.
  induction t as [bs|tg|es IH] using fstree_ind2; simpl; auto.
  intros H. apply andb_prop in H as [_ H].
  induction IH as [|kc es Hk _ IH2]; [reflexivity|].
  simpl in *. apply andb_prop in H as [H1 H2]. rewrite (Hk H1), (IH2 H2). reflexivity.
Qed.

Lemma wf_links_ok t : wfb t = true -> links_okb t = true.
Proof.
  induction t as [bs|tg|es IH] using fstree_ind2; simpl; auto.
  intros H. apply andb_prop in H as [_ H].
  induction IH as [|kc es Hk _ IH2]; [reflexivity|].
  simpl in *. apply andb_prop in H as [H1 H2]. rewrite (Hk H1), (IH2 H2). reflexivity.
Qed.

(** ** The main theorems, for any streaming hash that is injective on the compared payloads *)

Section Main.
  Variable state : Type.
  Variable init : state.
  Variable upd : state -> bytes -> state.
  Variable fin : state -> digest.
  Hypothesis upd_app : forall s x y, upd (upd s x) y = upd s (x ++ y)%list.
  Hypothesis upd_nil : forall s, upd s [] = s.
  (** SHA-2 treated as injective on the compared payloads. *)
  Hypothesis H_inj : forall x y,
    oneshot state init upd fin x = oneshot state init upd fin y -> x = y.

  Local Notation hs' := (hs state init upd fin).
  Local Notation dir_hashsums' := (dir_hashsums state init upd fin).
  Local Notation file_hashsum' := (file_hashsum state init upd fin).

  (** File hashes are the standard digest of the file bytes with the algorithm prefix. *)
  Lemma file_hashsum_std n a bs :
    n > 0 -> file_hashsum' n a bs = alg_name a ++ ":" ++ oneshot state init upd fin bs.
  Proof.
    intros Hn. unfold file_hashsum, qualified.
    rewrite (hashsum_oneshot state init upd fin upd_app upd_nil) by exact Hn. reflexivity.
  Qed.

  Lemma file_hashsum_inj n a x y : n > 0 -> file_hashsum' n a x = file_hashsum' n a y -> x = y.
  Proof.
    intros Hn E. rewrite !file_hashsum_std in E by exact Hn.
    apply H_inj. exact (qualified_inj a _ _ E).
  Qed.

  Lemma hs_inj_some n a : n > 0 -> forall t1,
    links_okb t1 = true -> forall t2, links_okb t2 = true ->
    forall h, hs' n a t1 = Some h -> hs' n a t2 = Some h -> t1 = t2.
  Proof.
    intros Hn. induction t1 as [bs|tg|es IH] using fstree_ind2; intros L1 t2 L2 h E1 E2.
    - (* file *)
      simpl in E1. inversion E1; subst h; clear E1.
      destruct t2 as [bs2|[p2|]|es2]; simpl in E2.
      + inversion E2 as [E]. f_equal. symmetry. exact (file_hashsum_inj n a _ _ Hn E).
      + inversion E2 as [E]. symmetry in E. exfalso. exact (prefix_distinct a _ _ E).
      + discriminate.
      + destruct (omap_snd (hs' n a) es2); discriminate.
    - (* link *)
      destruct tg as [p|]; [|discriminate]. simpl in E1. inversion E1; subst h; clear E1.
      destruct t2 as [bs2|[p2|]|es2]; simpl in E2.
      + inversion E2 as [E]. exfalso. exact (prefix_distinct a _ _ E).
      + inversion E2 as [E]. simpl in L1, L2.
        rewrite (show_path_inj p2 p L2 L1 E). reflexivity.
      + discriminate.
      + destruct (omap_snd (hs' n a) es2); discriminate.
    - (* directory *)
      simpl in E1. destruct (omap_snd (hs' n a) es) as [r|] eqn:Er; [|discriminate].
      inversion E1; subst h; clear E1.
      destruct t2 as [bs2|[p2|]|es2]; simpl in E2; try discriminate.
      destruct (omap_snd (hs' n a) es2) as [r2|] eqn:Er2; [|discriminate].
      inversion E2; subst r2; clear E2. f_equal.
      simpl in L1, L2.
      exact (omap_snd_inj (hs' n a) links_okb es IH L1 es2 L2 r Er Er2).
  Qed.

  (** [dir_hashsums] fails exactly when some link points outside. *)
  Lemma hs_some n a t : no_outsideb t = true -> exists h, hs' n a t = Some h.
  Proof.
    induction t as [bs|tg|es IH] using fstree_ind2; simpl; intros H.
    - eexists; reflexivity.
    - destruct tg; [eexists; reflexivity | discriminate].
    - destruct (omap_snd_some (hs' n a) es) as [r Hr].
      + induction IH as [|kc es Hk _ IH2]; constructor; simpl in H;
          apply andb_prop in H as [H1 H2]; auto.
      + rewrite Hr. eexists; reflexivity.
  Qed.

  Lemma outside_rejected n a t : no_outsideb t = false -> dir_hashsums' n a t = None.
  Proof.
    unfold dir_hashsums.
    induction t as [bs|tg|es IH] using fstree_ind2; simpl; intros H.
    - discriminate.
    - destruct tg; [discriminate | reflexivity].
    - rewrite omap_snd_none; [reflexivity|].
      induction IH as [|kc es Hk _ IH2]; simpl in H; [discriminate|].
      destruct (no_outsideb (snd kc)) eqn:Ek; simpl in H.
      + apply Exists_cons_tl. auto.
      + apply Exists_cons_hd. auto.
  Qed.

  Lemma rejected_iff n a t : dir_hashsums' n a t = None <-> no_outsideb t = false.
  Proof.
    split; [|apply outside_rejected].
    intros E. destruct (no_outsideb t) eqn:Ht; [|reflexivity].
    destruct (hs_some n a t Ht) as [h Hh]. unfold dir_hashsums in E. congruence.
  Qed.

  (** Equal hashsum trees exactly for equal (canonical) directory trees. *)
  Lemma hashsums_inj n a t1 t2 :
    n > 0 -> canonb t1 = true -> canonb t2 = true ->
    no_outsideb t1 = true -> no_outsideb t2 = true ->
    (dir_hashsums' n a t1 = dir_hashsums' n a t2 <-> t1 = t2).
  Proof.
    intros Hn C1 C2 O1 O2. split; [|intros ->; reflexivity].
    unfold dir_hashsums. intros E. destruct (hs_some n a t1 O1) as [h Hh].
    apply (hs_inj_some n a Hn t1 (canon_links_ok _ C1) t2 (canon_links_ok _ C2) h Hh).
    rewrite <- E. exact Hh.
  Qed.

  (** The result does not depend on the block size. *)
  Lemma hs_block_indep n m a t : n > 0 -> m > 0 -> hs' n a t = hs' m a t.
  Proof.
    intros Hn Hm. induction t as [bs|tg|es IH] using fstree_ind2; simpl.
    - unfold file_hashsum.
      rewrite (hashsum_block_indep state init upd fin upd_app upd_nil n m) by assumption.
      reflexivity.
    - reflexivity.
    - rewrite (omap_snd_ext (hs' n a) (hs' m a) es IH). reflexivity.
  Qed.

  Lemma dir_hashsums_block_indep n m a t :
    n > 0 -> m > 0 -> dir_hashsums' n a t = dir_hashsums' m a t.
  Proof. apply hs_block_indep. Qed.
End Main.

(** ** Listing order: sorting commutes with hashing *)

Lemma omap_snd_ins {X Y} (f : X -> option Y) k v l :
  omap_snd f (ins k v l) =
  match f v, omap_snd f l with
  | Some v', Some l' => Some (ins k v' l')
  | _, _ => None
  end.
Proof.
  induction l as [|[k' v'] l IH].
  - simpl. destruct (f v); reflexivity.
  - simpl ins. destruct (leb scmp k k') eqn:E.
    + rewrite !omap_snd_cons. destruct (f v); [|reflexivity].
      destruct (f v'); [|reflexivity]. destruct (omap_snd f l); [|reflexivity].
      simpl. rewrite E. reflexivity.
    + rewrite !omap_snd_cons, IH. destruct (f v); destruct (f v'); try reflexivity;
        destruct (omap_snd f l); try reflexivity. simpl. rewrite E. reflexivity.
Qed.

Lemma omap_snd_isort {X Y} (f : X -> option Y) l :
  omap_snd f (isort l) = option_map isort (omap_snd f l).
Proof.
  induction l as [|[k v] l IH]; [reflexivity|].
  change (isort ((k, v) :: l)) with (ins k v (isort l)).
  rewrite omap_snd_ins, IH, omap_snd_cons.
  destruct (f v); [|reflexivity]. destruct (omap_snd f l); reflexivity.
Qed.

Lemma omap_snd_map {X X' Y} (f : X' -> option Y) (g : X -> X') es :
  omap_snd f (map (fun kc => (fst kc, g (snd kc))) es) = omap_snd (fun c => f (g c)) es.
Proof.
  induction es as [|[k c] es IH]; [reflexivity|].
  simpl map. rewrite !omap_snd_cons, IH. reflexivity.
Qed.

Lemma omap_snd_omap {X Y Y'} (f : X -> option Y) (g : Y -> Y') es :
  omap_snd (fun c => option_map g (f c)) es =
  option_map (map (fun kc => (fst kc, g (snd kc)))) (omap_snd f es).
Proof.
  induction es as [|[k c] es IH]; [reflexivity|].
  rewrite !omap_snd_cons, IH. destruct (f c); [|reflexivity].
  destruct (omap_snd f es); reflexivity.
Qed.

Lemma forallb_ins {X} (P : string * X -> bool) k v l :
  forallb P (ins k v l) = P (k, v) && forallb P l.
Proof.
  induction l as [|[k' v'] l IH]; [reflexivity|].
  simpl ins. destruct (leb scmp k k'); [reflexivity|].
  simpl. rewrite IH. destruct (P (k, v)), (P (k', v')); reflexivity.
Qed.

Lemma forallb_isort {X} (P : string * X -> bool) l : forallb P (isort l) = forallb P l.
Proof.
  induction l as [|[k v] l IH]; [reflexivity|].
  change (isort ((k, v) :: l)) with (ins k v (isort l)).
  rewrite forallb_ins, IH. reflexivity.
Qed.

Lemma forallb_map' {X Y} (P : Y -> bool) (g : X -> Y) l :
  forallb P (map g l) = forallb (fun x => P (g x)) l.
Proof. induction l as [|x l IH]; simpl; [reflexivity | rewrite IH; reflexivity]. Qed.

Lemma ins_fst_in {X} x k (v : X) l : In x (map fst (ins k v l)) <-> x = k \/ In x (map fst l).
Proof.
  induction l as [|[k' v'] l IH]; simpl.
  - intuition.
  - destruct (leb scmp k k'); simpl; [intuition|]. rewrite IH. intuition.
Qed.

Lemma isort_fst_in {X} x (l : list (string * X)) : In x (map fst (isort l)) <-> In x (map fst l).
Proof.
  induction l as [|[k v] l IH]; [reflexivity|].
  change (isort ((k, v) :: l)) with (ins k v (isort l)).
  rewrite ins_fst_in, IH. simpl. intuition.
Qed.

Definition hd_lt (x : string) (l : list string) : Prop :=
  match l with [] => True | y :: _ => ltb scmp x y = true end.

Lemma sorted_cons x l : sorted_names (x :: l) = true <-> hd_lt x l /\ sorted_names l = true.
Proof.
  destruct l as [|y r].
  - simpl. intuition.
  - change (sorted_names (x :: y :: r)) with (ltb scmp x y && sorted_names (y :: r)).
    rewrite andb_true_iff. reflexivity.
Qed.

Lemma leb_neq_ltb k k' : leb scmp k k' = true -> k <> k' -> ltb scmp k k' = true.
Proof.
  unfold leb, ltb. destruct (scmp k k') eqn:E; try discriminate; auto.
  intros _ N. apply (c_eq scmp_ok) in E. contradiction.
Qed.

Lemma leb_false_ltb k k' : leb scmp k k' = false -> ltb scmp k' k = true.
Proof.
  unfold leb, ltb. rewrite (c_anti scmp_ok k k'). destruct (scmp k k'); simpl; congruence.
Qed.

Lemma ins_hd_lt {X} x k (v : X) l :
  hd_lt x (map fst l) -> ltb scmp x k = true -> hd_lt x (map fst (ins k v l)).
Proof.
  destruct l as [|[k' v'] l]; simpl; intros H1 H2; [exact H2|].
  destruct (leb scmp k k'); simpl; assumption.
Qed.

Lemma ins_sorted {X} k (v : X) l :
  sorted_names (map fst l) = true -> ~ In k (map fst l) ->
  sorted_names (map fst (ins k v l)) = true.
Proof.
  induction l as [|[k' v'] l IH]; intros S N; [reflexivity|].
  simpl map in S. apply sorted_cons in S as [S1 S2].
  simpl ins. destruct (leb scmp k k') eqn:E.
  - simpl map. apply sorted_cons. split.
    + simpl. apply leb_neq_ltb; [exact E|]. intros ->. apply N. left; reflexivity.
    + apply sorted_cons. split; assumption.
  - simpl map. apply sorted_cons. split.
    + apply ins_hd_lt; [exact S1 | apply leb_false_ltb; exact E].
    + apply IH; [exact S2|]. intros I. apply N. right; exact I.
Qed.

Lemma nodupb_cons x r : nodupb (x :: r) = true -> ~ In x r /\ nodupb r = true.
Proof.
  simpl. intros H. apply andb_prop in H as [H1 H2]. split; [|exact H2].
  intros I. apply negb_true_iff in H1.
  assert (existsb (String.eqb x) r = true) as C.
  { apply existsb_exists. exists x. split; [exact I | apply String.eqb_refl]. }
  congruence.
Qed.

Lemma isort_sorted {X} (l : list (string * X)) :
  nodupb (map fst l) = true -> sorted_names (map fst (isort l)) = true.
Proof.
  induction l as [|[k v] l IH]; intros N; [reflexivity|].
  change (isort ((k, v) :: l)) with (ins k v (isort l)).
  simpl map in N. apply nodupb_cons in N as [N1 N2].
  apply ins_sorted; [apply IH; exact N2|]. rewrite isort_fst_in. exact N1.
Qed.

Lemma map_fst_map {X Y} (g : X -> Y) (es : list (string * X)) :
  map fst (map (fun kc => (fst kc, g (snd kc))) es) = map fst es.
Proof. induction es as [|[k c] es IH]; simpl; [reflexivity | rewrite IH; reflexivity]. Qed.

Lemma forallb_impl_in {X} (P Q : X -> bool) l :
  Forall (fun x => P x = true -> Q x = true) l -> forallb P l = true -> forallb Q l = true.
Proof.
  induction 1 as [|x l H _ IH]; simpl; [reflexivity|].
  intros E. apply andb_prop in E as [E1 E2]. rewrite (H E1), (IH E2). reflexivity.
Qed.

Lemma forallb_eq_in {X} (P Q : X -> bool) l :
  Forall (fun x => P x = Q x) l -> forallb P l = forallb Q l.
Proof. induction 1 as [|x l H _ IH]; simpl; [reflexivity | rewrite H, IH; reflexivity]. Qed.

(** Sorting a well-formed listing gives the canonical tree. *)
Lemma canon_tsort t : wfb t = true -> canonb (tsort t) = true.
Proof.
  induction t as [bs|tg|es IH] using fstree_ind2; simpl; auto.
  intros H. apply andb_prop in H as [H H3]. apply andb_prop in H as [H1 H2].
  rewrite !andb_true_iff. repeat split.
  - apply isort_sorted. rewrite map_fst_map. exact H1.
  - rewrite forallb_map', forallb_isort, <- forallb_map', map_fst_map. exact H2.
  - rewrite forallb_isort, forallb_map'. simpl.
    revert H3. apply forallb_impl_in. exact IH.
Qed.

Lemma no_outside_tsort t : no_outsideb (tsort t) = no_outsideb t.
Proof.
  induction t as [bs|tg|es IH] using fstree_ind2; simpl; auto.
  rewrite forallb_isort, forallb_map'. simpl. apply forallb_eq_in. exact IH.
Qed.

Section Order.
  Variable state : Type.
  Variable init : state.
  Variable upd : state -> bytes -> state.
  Variable fin : state -> digest.
  Hypothesis upd_app : forall s x y, upd (upd s x) y = upd s (x ++ y)%list.
  Hypothesis upd_nil : forall s, upd s [] = s.
  Hypothesis H_inj : forall x y,
    oneshot state init upd fin x = oneshot state init upd fin y -> x = y.

  Local Notation hs' := (hs state init upd fin).
  Local Notation dir_hashsums' := (dir_hashsums state init upd fin).

  (** Hashing the sorted listing = sorting the hashed listing: the order in which the file
      system lists (or in which the entries were created) is irrelevant up to [dict] equality. *)
  Lemma hs_tsort n a t : hs' n a (tsort t) = option_map hsort (hs' n a t).
  Proof.
    induction t as [bs|tg|es IH] using fstree_ind2; simpl.
    - reflexivity.
    - destruct tg; reflexivity.
    - rewrite omap_snd_isort, omap_snd_map.
      rewrite (omap_snd_ext _ (fun c => option_map hsort (hs' n a c)) es IH).
      rewrite omap_snd_omap. destruct (omap_snd (hs' n a) es); reflexivity.
  Qed.

  Lemma hashsums_order_indep n a t1 t2 :
    tsort t1 = tsort t2 ->
    option_map hsort (dir_hashsums' n a t1) = option_map hsort (dir_hashsums' n a t2).
  Proof. unfold dir_hashsums. intros E. rewrite <- !hs_tsort, E. reflexivity. Qed.

  (** The property for directories listed in any order: the hashsum tables are equal as
      nested dictionaries exactly when the directories have the same content. *)
  Lemma hashsums_identify n a t1 t2 :
    n > 0 -> wfb t1 = true -> wfb t2 = true ->
    no_outsideb t1 = true -> no_outsideb t2 = true ->
    (option_map hsort (dir_hashsums' n a t1) = option_map hsort (dir_hashsums' n a t2)
     <-> tsort t1 = tsort t2).
  Proof.
    intros Hn W1 W2 O1 O2. unfold dir_hashsums. rewrite <- !hs_tsort.
    apply (hashsums_inj state init upd fin upd_app upd_nil H_inj n a (tsort t1) (tsort t2) Hn).
    - apply canon_tsort; exact W1.
    - apply canon_tsort; exact W2.
    - rewrite no_outside_tsort; exact O1.
    - rewrite no_outside_tsort; exact O2.
  Qed.
End Order.

(** ** [rel_symlink]: the normalised target is a list of valid segments below the base *)

Lemma forallb_rev {X} (P : X -> bool) l : forallb P l = true -> forallb P (rev l) = true.
Proof.
  rewrite !forallb_forall. intros H x I. apply H. apply in_rev. exact I.
Qed.

Lemma forallb_tl {X} (P : X -> bool) l : forallb P l = true -> forallb P (tl l) = true.
Proof. destruct l; simpl; [auto|]. intros H. apply andb_prop in H as [_ H]. exact H. Qed.

Lemma norm_segs_valid : forall segs acc,
  forallb no_slash segs = true -> forallb valid_seg acc = true ->
  forallb valid_seg (norm_segs acc segs) = true.
Proof.
  induction segs as [|s r IH]; intros acc Hs Ha; simpl.
  - apply forallb_rev; exact Ha.
  - simpl in Hs. apply andb_prop in Hs as [Hs Hr].
    destruct (String.eqb s "") eqn:E1; simpl; [apply IH; assumption|].
    destruct (String.eqb s ".") eqn:E2; simpl; [apply IH; assumption|].
    destruct (String.eqb s "..") eqn:E3; [apply IH; [assumption | apply forallb_tl; assumption]|].
    apply IH; [assumption|]. simpl. rewrite Ha. unfold valid_seg. rewrite E1, E2, E3, Hs. reflexivity.
Qed.

Lemma strip_prefix_spec : forall b p q, strip_prefix b p = Some q -> p = (b ++ q)%list.
Proof.
  induction b as [|x b IH]; intros p q; simpl.
  - intros E; inversion E; reflexivity.
  - destruct p as [|y p]; [discriminate|]. destruct (String.eqb x y) eqn:E; [|discriminate].
    apply String.eqb_eq in E; subst y. intros H. rewrite (IH _ _ H). reflexivity.
Qed.

Lemma strip_prefix_app : forall b q, strip_prefix b (b ++ q) = Some q.
Proof.
  induction b as [|x b IH]; intros q; simpl; [reflexivity|].
  rewrite String.eqb_refl. apply IH.
Qed.

Definition joined (base linkdir : list string) (ab : bool) (segs : list string) : list string :=
  if ab then segs else (base ++ linkdir ++ segs)%list.

(** [rel_symlink] answers [In_ p] exactly when the normalised joined path is [base ++ p]. *)
Lemma rel_symlink_in base linkdir ab segs p :
  rel_symlink base linkdir ab segs = In_ p <->
  norm_segs [] (joined base linkdir ab segs) = (base ++ p)%list.
Proof.
  unfold rel_symlink. fold (joined base linkdir ab segs).
  destruct (strip_prefix base (norm_segs [] (joined base linkdir ab segs))) as [q|] eqn:E.
  - apply strip_prefix_spec in E. rewrite E. split.
    + intros H; inversion H; reflexivity.
    + intros H. apply app_inv_head in H. subst; reflexivity.
  - split; [discriminate|]. intros H. rewrite H, strip_prefix_app in E. discriminate.
Qed.

Lemma rel_symlink_valid base linkdir ab segs p :
  forallb no_slash base = true -> forallb no_slash linkdir = true ->
  forallb no_slash segs = true ->
  rel_symlink base linkdir ab segs = In_ p -> forallb valid_seg p = true.
Proof.
  intros Hb Hl Hs H. apply rel_symlink_in in H.
  assert (forallb valid_seg (norm_segs [] (joined base linkdir ab segs)) = true) as V.
  { apply norm_segs_valid; [|reflexivity]. unfold joined. destruct ab; [exact Hs|].
    rewrite !forallb_app, Hb, Hl, Hs. reflexivity. }
  rewrite H, forallb_app in V. apply andb_prop in V as [_ V]. exact V.
Qed.

(** A normalised path is a fixed point of the normalisation. *)
Lemma norm_segs_id : forall p acc,
  forallb valid_seg p = true -> norm_segs acc p = (rev acc ++ p)%list.
Proof.
  induction p as [|s r IH]; intros acc H; simpl.
  - rewrite app_nil_r. reflexivity.
  - simpl in H. apply andb_prop in H as [Hs Hr].
    apply valid_seg_spec in Hs as (N1 & N2 & N3 & _).
    apply String.eqb_neq in N1, N2, N3. rewrite N1, N2, N3. simpl.
    rewrite IH by exact Hr. simpl. rewrite <- app_assoc. reflexivity.
Qed.

Lemma rel_symlink_normal base linkdir p :
  forallb valid_seg base = true -> forallb valid_seg linkdir = true ->
  forallb valid_seg p = true ->
  rel_symlink base linkdir false p = In_ (linkdir ++ p).
Proof.
  intros Hb Hl Hp. apply rel_symlink_in. unfold joined.
  rewrite norm_segs_id; [reflexivity|]. rewrite !forallb_app, Hb, Hl, Hp. reflexivity.
Qed.

Section RtInd.
  Variable P : rtree -> Prop.
  Hypothesis HF : forall bs, P (RFile bs).
  Hypothesis HL : forall ab segs, P (RLink ab segs).
  Hypothesis HD : forall es, Forall (fun kc => P (snd kc)) es -> P (RDir es).

  Fixpoint rtree_ind2 (t : rtree) : P t :=
    match t with
    | RFile bs => HF bs
    | RLink ab segs => HL ab segs
    | RDir es =>
        HD es ((fix go (es : list (string * rtree)) : Forall (fun kc => P (snd kc)) es :=
                  match es with
                  | [] => Forall_nil _
                  | kc :: r => Forall_cons kc (rtree_ind2 (snd kc)) (go r)
                  end) es)
    end.
End RtInd.

(** Normalising a raw tree yields normalised link targets (the premise of [hs_inj_some]). *)
Lemma normalise_links_ok base : forallb no_slash base = true ->
  forall t rme, forallb no_slash rme = true -> raw_okb t = true ->
  links_okb (normalise base rme t) = true.
Proof.
  intros Hb. induction t as [bs|ab segs|es IH] using rtree_ind2; intros rme Hr Ht; simpl.
  - reflexivity.
  - destruct (rel_symlink base (rev (tl rme)) ab segs) as [p|] eqn:E; [|reflexivity].
    apply (rel_symlink_valid base (rev (tl rme)) ab segs p Hb); try assumption.
    apply forallb_rev, forallb_tl; exact Hr.
  - simpl in Ht. apply andb_prop in Ht as [Hn Hc].
    rewrite forallb_map'. simpl.
    induction IH as [|[k c] es Hk _ IH2]; [reflexivity|].
    simpl in *. apply andb_prop in Hn as [Hn1 Hn2]. apply andb_prop in Hc as [Hc1 Hc2].
    rewrite Hk; [apply IH2; assumption | | exact Hc1].
    simpl. apply valid_seg_spec in Hn1 as (_ & _ & _ & Hn1). rewrite Hn1, Hr. reflexivity.
Qed.

(** ** The pinned rule ([is_file()] asked before [is_symlink()]) violates the property,
    whatever the hash function is *)

Lemma hs_pinned_refuted state init upd fin n a :
  exists t1 t2,
    canonb t1 = true /\ canonb t2 = true /\ no_outsideb t1 = true /\ no_outsideb t2 = true /\
    t1 <> t2 /\
    hs_pinned state init upd fin (look_in None t1) n a t1 =
    hs_pinned state init upd fin (look_in None t2) n a t2.
Proof.
  exists (Dir [("f", File []); ("g", File [])]), (Dir [("f", File []); ("g", Link (In_ ["f"]))]).
  repeat split; try (vm_compute; reflexivity). discriminate.
Qed.

Lemma hs_pinned_accepts_outside state init upd fin n a :
  exists t ext,
    no_outsideb t = false /\
    hs_pinned state init upd fin (look_in ext t) n a t <> None.
Proof.
  exists (Dir [("o", Link Outside)]), (Some []). split; [reflexivity|]. simpl. discriminate.
Qed.

(** ** The instance the runner executes satisfies all premises *)

Lemma id_upd_app : forall s x y, id_upd (id_upd s x) y = id_upd s (x ++ y)%list.
Proof. intros; unfold id_upd; symmetry; apply app_assoc. Qed.

Lemma id_upd_nil : forall s, id_upd s [] = s.
Proof. intros; unfold id_upd; apply app_nil_r. Qed.

Lemma id_inj : forall x y,
  oneshot id_state id_init id_upd id_fin x = oneshot id_state id_init id_upd id_fin y -> x = y.
Proof.
  unfold oneshot, id_fin, id_upd, id_init. simpl. intros x y E.
  rewrite <- (list_ascii_of_string_of_list_ascii x), <- (list_ascii_of_string_of_list_ascii y), E.
  reflexivity.
Qed.

Lemma hashsums_inj_id n a t1 t2 :
  n > 0 -> canonb t1 = true -> canonb t2 = true ->
  no_outsideb t1 = true -> no_outsideb t2 = true ->
  (dir_hashsums_id n a t1 = dir_hashsums_id n a t2 <-> t1 = t2).
Proof. apply hashsums_inj; [apply id_upd_app | apply id_upd_nil | apply id_inj]. Qed.

Lemma outside_rejected_id n a t : no_outsideb t = false -> dir_hashsums_id n a t = None.
Proof. apply outside_rejected. Qed.

Lemma hashsum_id n bs : n > 0 -> hashsum id_state id_init id_upd id_fin n bs = string_of_list_ascii bs.
Proof.
  intros Hn. rewrite (hashsum_oneshot _ _ _ _ id_upd_app id_upd_nil) by exact Hn. reflexivity.
Qed.

(** The entry of a regular file is the algorithm name, a colon and the standard digest. *)
Lemma file_entry_std state init upd fin
  (upd_app : forall s x y, upd (upd s x) y = upd s (x ++ y)%list)
  (upd_nil : forall s, upd s [] = s) n a bs :
  n > 0 ->
  dir_hashsums state init upd fin n a (File bs) =
  Some (HStr (alg_name a ++ ":" ++ oneshot state init upd fin bs)).
Proof.
  intros Hn. unfold dir_hashsums. simpl.
  rewrite (file_hashsum_std state init upd fin upd_app upd_nil) by exact Hn. reflexivity.
Qed.

(** The entry of an in-directory symlink is ["symlink:"] and the printed normalised target. *)
Lemma link_entry state init upd fin n a p :
  dir_hashsums state init upd fin n a (Link (In_ p)) = Some (HStr ("symlink:" ++ show_path p)).
Proof. reflexivity. Qed.
