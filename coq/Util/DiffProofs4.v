(** * Proofs about the directory-diff model (C18), part 4:
      [annotate] (a third view of the listing) and the entity types of reported nodes. *)
From Coq Require Import List String Ascii Bool Lia Permutation.
From MV Require Import Base.Sx Base.Cmp Util.Diff Util.DiffProofs Util.DiffProofs2 Util.DiffProofs3.
Import ListNotations.
Local Open Scope list_scope.

(** ** All paths strictly below a tree *)

Lemma in_tpaths : forall t pre q, canonb t = true ->
  (In q (tpaths pre t) <-> exists r, r <> [] /\ q = pre ++ r /\ sub t r <> None).
Proof.
  induction t as [s|l IH] using dtree_ind'; intros pre q C.
  - simpl. split; [intros []|]. intros (r & Hr & _ & H). destruct r; [contradiction|]. simpl in H. contradiction.
  - pose proof (canon_nodup _ C) as N. rewrite Forall_forall in IH.
    simpl tpaths. rewrite in_flat_map. split.
    + intros ([k v] & Hin & H). simpl in H.
      pose proof (lookup_in _ _ _ N Hin) as Lk. pose proof (canon_child _ _ _ C Hin) as Cv.
      destruct H as [<-|H].
      * exists [k]. repeat split; [discriminate|]. simpl. rewrite Lk. discriminate.
      * apply (IH _ Hin) in H; [|exact Cv]. destruct H as (r & Hr & -> & Hs).
        exists (k :: r). repeat split; [discriminate | rewrite <- app_assoc; reflexivity |].
        simpl. rewrite Lk. exact Hs.
    + intros (r & Hr & -> & Hs). destruct r as [|k r]; [contradiction|].
      simpl in Hs. destruct (lookup k l) as [v|] eqn:Lk; [|contradiction].
      pose proof (lookup_some_in _ _ _ Lk) as Hin. exists (k, v). split; [exact Hin|]. simpl.
      destruct r as [|k' r']; [left; reflexivity|]. right.
      apply (IH _ Hin); [exact (canon_child _ _ _ C Hin)|].
      exists (k' :: r'). repeat split; [discriminate | rewrite <- app_assoc; reflexivity | exact Hs].
Qed.

Lemma in_epaths t q : canone t = true -> (In q (epaths t) <-> q <> [] /\ osub t q <> None).
Proof.
  intros C. destruct t as [t|]; simpl.
  - rewrite (in_tpaths t [] q C). simpl. split.
    + intros (r & Hr & -> & Hs). auto.
    + intros (Hq & Hs). exists q. auto.
  - split; [intros [] | intros (_ & H); contradiction].
Qed.

Lemma tpaths_nodup : forall t pre, canonb t = true -> NoDup (tpaths pre t).
Proof.
  induction t as [s|l IH] using dtree_ind'; intros pre C; [constructor|].
  pose proof (canon_nodup _ C) as N. rewrite Forall_forall in IH.
  assert (Cl : forall k v, In (k, v) l -> canonb v = true) by (intros; eapply canon_child; eassumption).
  simpl tpaths. clear C. induction l as [|[k v] r IHr]; [constructor|].
  simpl. inversion N as [|? ? Nk Nr]; subst.
  pose proof (Cl k v (or_introl eq_refl)) as Cv.
  constructor.
  - intros Hin. apply in_app_or in Hin as [Hin|Hin].
    + apply (in_tpaths v _ _ Cv) in Hin as (x & Hx & E & _).
      rewrite <- (app_nil_r (pre ++ [k])) in E at 1. apply app_inv_head in E. subst x. contradiction.
    + apply in_flat_map in Hin as ([k' v'] & Hin' & H). simpl in H.
      assert (k' <> k) by (intros ->; apply Nk; apply (in_map fst) in Hin'; exact Hin').
      destruct H as [H|H].
      * apply app_inv_head in H. inversion H; congruence.
      * apply (in_tpaths v') in H; [|apply (Cl k' v'); right; exact Hin'].
        destruct H as (x & _ & E & _). rewrite <- app_assoc in E. apply app_inv_head in E.
        inversion E; congruence.
  - apply NoDup_app_iff. split; [apply (IH (k, v)); [left; reflexivity | exact Cv]|]. split.
    + apply IHr; [intros kv H; apply IH; right; exact H | exact Nr |].
      intros k' v' H; apply (Cl k' v'); right; exact H.
    + intros x H1 H2. apply (in_tpaths v _ _ Cv) in H1 as (x1 & _ & -> & _).
      apply in_flat_map in H2 as ([k' v'] & Hin' & H). simpl in H.
      assert (k' <> k) by (intros ->; apply Nk; apply (in_map fst) in Hin'; exact Hin').
      rewrite <- app_assoc in H. destruct H as [H|H].
      * apply app_inv_head in H. inversion H; congruence.
      * apply (in_tpaths v') in H; [|apply (Cl k' v'); right; exact Hin'].
        destruct H as (x2 & _ & E & _). rewrite <- app_assoc in E. apply app_inv_head in E.
        inversion E; congruence.
Qed.

Lemma epaths_nodup t : canone t = true -> NoDup (epaths t).
Proof. destruct t; simpl; [apply tpaths_nodup | constructor]. Qed.

Lemma sort_paths_perm ps : Permutation (sort_paths ps) ps.
Proof.
  unfold sort_paths. eapply Permutation_trans; [apply Permutation_map, sort_by_perm|].
  rewrite map_map. simpl. rewrite map_id. apply Permutation_refl.
Qed.

Lemma listed_true ns q : listed ns q = true <-> exists n, In n ns /\ npath n = q.
Proof.
  unfold listed. rewrite existsb_exists. split; intros (n & Hn & E); exists n; split; auto;
    apply path_eqb_true; exact E.
Qed.

Lemma in_ann_missing ns t q : canone t = true ->
  (In q (ann_missing ns t) <-> q <> [] /\ osub t q <> None /\ listed ns q = false).
Proof.
  intros C. unfold ann_missing. split.
  - intros H. apply (Permutation_in _ (sort_paths_perm _)) in H.
    apply filter_In in H as [H1 H2]. apply (in_epaths t q C) in H1 as [A B].
    apply negb_true_iff in H2. auto.
  - intros (A & B & H). apply (Permutation_in _ (Permutation_sym (sort_paths_perm _))).
    apply filter_In. split; [apply in_epaths; auto | rewrite H; reflexivity].
Qed.

Lemma ann_missing_nodup ns t : canone t = true -> NoDup (ann_missing ns t).
Proof.
  intros C. unfold ann_missing.
  eapply Permutation_NoDup; [apply Permutation_sym, sort_paths_perm|].
  apply NoDup_filter, epaths_nodup, C.
Qed.

(** ** [annotate] *)

Lemma ann_script_nodes ns ps :
  ann_script (map (fun n : dnode => (npath n, Some n)) ns ++ map (fun p : path => (p, @None dnode)) ps) = ns.
Proof.
  unfold ann_script. rewrite flat_map_app.
  assert (A : forall ns, flat_map (fun kv : path * option dnode => match snd kv with Some n => [n] | None => [] end)
                (map (fun n : dnode => (npath n, Some n)) ns) = ns)
    by (intros l; induction l as [|n r IH]; simpl; [|rewrite IH]; reflexivity).
  assert (B : forall ps, flat_map (fun kv : path * option dnode => match snd kv with Some n => [n] | None => [] end)
                (map (fun p : path => (p, @None dnode)) ps) = [])
    by (intros l; induction l as [|n r IH]; simpl; auto).
  rewrite A, B, app_nil_r. reflexivity.
Qed.

Lemma annotate_shape o t :
  exists rest, annotate o t = map (fun n => (npath n, Some n)) (listing o) ++ map (fun p => (p, None)) rest /\
               (o <> None -> rest = ann_missing (listing o) t).
Proof.
  destruct o as [d|]; simpl.
  - eexists; split; [reflexivity | reflexivity].
  - exists []. split; [reflexivity | intros H; contradiction].
Qed.

Lemma annotate_covers a b t : canone a = true -> canone b = true -> canone t = true ->
  (is_empty (dirdiff a b) = false ->
     forall q, In q (map fst (annotate (dirdiff a b) t)) <->
               osub a q <> osub b q \/ (q <> [] /\ osub t q <> None)) /\
  (is_empty (dirdiff a b) = false ->
     forall q, osub b q <> None -> In q (map fst (annotate (dirdiff a b) b))) /\
  NoDup (map fst (annotate (dirdiff a b) t)) /\
  (forall q v, In (q, v) (annotate (dirdiff a b) t) -> v = get (dirdiff a b) q).
Proof.
  intros Ca Cb Ct. destruct (reported_iff a b Ca Cb) as (R1 & R2 & R3).
  assert (Hl : forall q, listed (listing (dirdiff a b)) q = true <-> osub a q <> osub b q).
  { intros q. rewrite listed_true. apply R1. }
  assert (Hk : is_empty (dirdiff a b) = false ->
     forall q, In q (map fst (annotate (dirdiff a b) t)) <->
               osub a q <> osub b q \/ (q <> [] /\ osub t q <> None)).
  { intros Hne q. destruct (dirdiff a b) as [d|] eqn:D; [|discriminate]. simpl annotate.
    rewrite map_app, !map_map. simpl. rewrite map_id, in_app_iff.
    rewrite (in_ann_missing _ t q Ct). rewrite in_map_iff. simpl listing in *. split.
    - intros [(n & E & Hn)|(A & B & _)]; [left; apply R1; eauto | right; auto].
    - intros [H|[A B]].
      + left. apply R1 in H as (n & Hn & E). eauto.
      + destruct (listed (nodes d) q) eqn:E.
        * left. apply listed_true in E as (n & Hn & En). eauto.
        * right. auto. }
  split; [exact Hk|]. split; [|split].
  - intros Hne q Hq.
    destruct (dirdiff a b) as [d|] eqn:D; [|discriminate].
    assert (Hne' : is_empty (Some d) = false) by reflexivity.
    (* re-instantiate the key characterisation with t := b *)
    clear Hk. simpl annotate. rewrite map_app, !map_map. simpl. rewrite map_id, in_app_iff.
    rewrite (in_ann_missing _ b q Cb). rewrite in_map_iff. simpl listing in *.
    destruct (listed (nodes d) q) eqn:E.
    + left. apply listed_true in E as (n & Hn & En). eauto.
    + destruct q as [|k q].
      * exfalso. assert (X : listed (nodes d) [] = true); [|congruence].
        apply Hl. rewrite !osub_nil. intros ->.
        unfold dirdiff in D. rewrite (proj2 (compare_none_iff b b [] Cb Cb) eq_refl) in D. discriminate.
      * right. repeat split; [discriminate | exact Hq].
  - destruct (dirdiff a b) as [d|] eqn:D; [|constructor]. simpl annotate. simpl listing in *.
    rewrite map_app, !map_map. simpl. rewrite map_id. apply NoDup_app_iff.
    split; [exact R3|]. split; [apply ann_missing_nodup, Ct|].
    intros q H1 H2. apply (in_ann_missing _ t q Ct) in H2 as (_ & _ & H2).
    apply in_map_iff in H1 as (n & E & Hn).
    assert (listed (nodes d) q = true) by (apply listed_true; eauto). congruence.
  - intros q v Hin. destruct (get_agrees a b Ca Cb q) as (G1 & G2 & _).
    destruct (dirdiff a b) as [d|] eqn:D; [|destruct Hin]. simpl annotate in Hin. simpl listing in *.
    apply in_app_or in Hin as [Hin|Hin]; apply in_map_iff in Hin as (x & E & Hx); inversion E; subst.
    + rewrite G1. symmetry. apply find_path_unique; [exact R3 | exact Hx | reflexivity].
    + apply (in_ann_missing _ t q Ct) in Hx as (_ & _ & Hx). symmetry. apply G2.
      destruct (compare (osub a q) (osub b q) q) as [n|] eqn:F.
      * exfalso. assert (listed (nodes d) q = true); [|congruence].
        apply Hl. eapply compare_diff; [| |exact F]; apply canone_osub; assumption.
      * apply compare_none_iff in F; [exact F| |]; apply canone_osub; assumption.
Qed.

Lemma annotate_order a b t : canone a = true -> canone b = true ->
  (exists rest, annotate (dirdiff a b) t =
                map (fun n => (npath n, Some n)) (listing (dirdiff a b)) ++
                map (fun p => (p, None)) rest) /\
  ann_script (annotate (dirdiff a b) t) = listing (dirdiff a b) /\
  run_script (ann_script (annotate (dirdiff a b) t)) a = Some b.
Proof.
  intros Ca Cb. destruct (annotate_shape (dirdiff a b) t) as (rest & E & _).
  assert (S : ann_script (annotate (dirdiff a b) t) = listing (dirdiff a b))
    by (rewrite E; apply ann_script_nodes).
  split; [exists rest; exact E|]. split; [exact S|]. rewrite S. apply script_correct; assumption.
Qed.

(** ** Entity types of reported nodes *)

Lemma leafoke_one e k : leafoke e = true -> leafoke (osub e [k]) = true.
Proof.
  destruct e as [[s|l]|]; intros H; try reflexivity. rewrite osub_one_D.
  destruct (lookup k l) as [v|] eqn:E; [|reflexivity]. simpl in *.
  rewrite forallb_forall in H. apply (H (k, v)). apply lookup_some_in; exact E.
Qed.

Lemma leafoke_osub q : forall e, leafoke e = true -> leafoke (osub e q) = true.
Proof.
  induction q as [|k q IH]; intros e H; [rewrite osub_nil; exact H|].
  rewrite osub_cons. apply IH, leafoke_one, H.
Qed.

Lemma type_of_none e : leafoke e = true -> (type_of e = None <-> e = None).
Proof.
  destruct e as [[s|l]|]; simpl; intros H.
  - destruct s as [|c s]; [discriminate|]. split; [|discriminate].
    destruct (prefix "symlink:" (String c s)); discriminate.
  - split; discriminate.
  - split; reflexivity.
Qed.

Lemma node_types a b : canone a = true -> canone b = true ->
  forall n, In n (listing (dirdiff a b)) ->
    type_of (nprev n) = type_of (osub a (npath n)) /\
    type_of (ncurr n) = type_of (osub b (npath n)) /\
    (leafoke a = true -> (type_of (nprev n) = None <-> nstatus n = Added)) /\
    (leafoke b = true -> (type_of (ncurr n) = None <-> nstatus n = Removed)).
Proof.
  intros Ca Cb n Hn. destruct (reported_iff a b Ca Cb) as (R1 & R2 & _).
  destruct (R2 n Hn) as (E1 & E2 & _).
  assert (Hd : nprev n <> ncurr n) by (rewrite E1, E2; apply R1; eauto).
  split; [rewrite E1; reflexivity|]. split; [rewrite E2; reflexivity|]. split; intros Lf.
  - rewrite (type_of_none (nprev n)) by (rewrite E1; apply leafoke_osub; exact Lf).
    unfold nstatus. destruct (nprev n), (ncurr n); split; congruence.
  - rewrite (type_of_none (ncurr n)) by (rewrite E2; apply leafoke_osub; exact Lf).
    unfold nstatus. destruct (nprev n), (ncurr n); split; congruence.
Qed.
