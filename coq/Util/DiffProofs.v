(** * Proofs about the directory-diff model (C18). *)
From Coq Require Import List String Ascii Bool Lia.
From MV Require Import Base.Sx Base.Cmp Util.Diff.
Import ListNotations.
Local Open Scope list_scope.

(** ** Induction principles for the two rose trees *)

Section DtreeInd.
  Variable P : dtree -> Prop.
  Hypothesis HL : forall s, P (Lf s).
  Hypothesis HD : forall l, Forall (fun kv => P (snd kv)) l -> P (D l).

  Fixpoint dtree_ind' (t : dtree) : P t :=
    match t with
    | Lf s => HL s
    | D l =>
        HD l ((fix go (l : list (string * dtree)) : Forall (fun kv => P (snd kv)) l :=
                 match l with
                 | [] => Forall_nil _
                 | kv :: r => Forall_cons kv (dtree_ind' (snd kv)) (go r)
                 end) l)
    end.
End DtreeInd.

Section DnodeInd.
  Variable P : dnode -> Prop.
  Hypothesis HN : forall p pv cu rem md add,
    Forall P rem -> Forall P md -> Forall P add -> P (Node p pv cu rem md add).

  Fixpoint dnode_ind' (d : dnode) : P d :=
    match d with
    | Node p pv cu rem md add =>
        let go := fix go (l : list dnode) : Forall P l :=
          match l with
          | [] => Forall_nil _
          | c :: r => Forall_cons c (dnode_ind' c) (go r)
          end in
        HN p pv cu rem md add (go rem) (go md) (go add)
    end.
End DnodeInd.

(** ** Strings: the strict order [slt] *)

Lemma slt_lt a b : slt a b = true <-> scmp a b = Lt.
Proof. unfold slt, ltb. destruct (scmp a b); split; congruence. Qed.

Lemma slt_irrefl a : slt a a = false.
Proof. unfold slt, ltb. rewrite (c_refl scmp_ok). reflexivity. Qed.

Lemma slt_trans a b c : slt a b = true -> slt b c = true -> slt a c = true.
Proof. apply ltb_trans, scmp_ok. Qed.

Lemma slt_neq a b : slt a b = true -> a <> b.
Proof. intros H E; subst. rewrite slt_irrefl in H; discriminate. Qed.

Lemma slt_asym a b : slt a b = true -> slt b a = false.
Proof.
  intros H. destruct (slt b a) eqn:E; auto.
  pose proof (slt_trans _ _ _ H E) as X. rewrite slt_irrefl in X; discriminate.
Qed.

Lemma slt_tricho a b : a = b \/ slt a b = true \/ slt b a = true.
Proof.
  destruct (scmp a b) eqn:E.
  - left. apply (c_eq scmp_ok); exact E.
  - right; left. apply slt_lt; exact E.
  - right; right. apply slt_lt. apply (c_gt_lt scmp_ok); exact E.
Qed.

Lemma eqb_neq_false a b : a <> b -> String.eqb a b = false.
Proof. intros H. apply String.eqb_neq; exact H. Qed.

(** ** Ascending key lists *)

Notation keys l := (map fst l).

Lemma asc_cons k ks :
  ascb (k :: ks) = true <-> (forall k', In k' ks -> slt k k' = true) /\ ascb ks = true.
Proof.
  revert k. induction ks as [|y r IH]; intros k.
  - simpl. split; [intros _; split; [intros ? []|reflexivity] | reflexivity].
  - change (ascb (k :: y :: r)) with (slt k y && ascb (y :: r)).
    rewrite andb_true_iff. split.
    + intros [Hky Hr]. split; [|exact Hr].
      intros k' [<-|Hin]; [exact Hky|].
      apply IH in Hr as [Hall _]. eapply slt_trans; [exact Hky|]. apply Hall; exact Hin.
    + intros [Hall Hr]. split; [apply Hall; left; reflexivity | exact Hr].
Qed.

Lemma asc_tail k ks : ascb (k :: ks) = true -> ascb ks = true.
Proof. intros H; apply asc_cons in H; tauto. Qed.

Lemma asc_head_notin k ks : ascb (k :: ks) = true -> ~ In k ks.
Proof.
  intros H Hin. apply asc_cons in H as [Hall _].
  specialize (Hall _ Hin). rewrite slt_irrefl in Hall; discriminate.
Qed.

Lemma asc_nodup ks : ascb ks = true -> NoDup ks.
Proof.
  induction ks as [|k r IH]; intros H; constructor.
  - apply asc_head_notin; exact H.
  - apply IH. eapply asc_tail; exact H.
Qed.

Lemma asc_filter (f : string -> bool) ks : ascb ks = true -> ascb (filter f ks) = true.
Proof.
  induction ks as [|k r IH]; intros H; [reflexivity|].
  pose proof (asc_tail _ _ H) as Ht. apply asc_cons in H as [Hall _].
  simpl. destruct (f k); [|apply IH; exact Ht].
  apply asc_cons. split; [|apply IH; exact Ht].
  intros k' Hin. apply filter_In in Hin as [Hin _]. apply Hall; exact Hin.
Qed.

(** ** [lookup] *)

Lemma lookup_some_in k v l : lookup k l = Some v -> In (k, v) l.
Proof.
  induction l as [|[k' v'] r IH]; simpl; [discriminate|].
  destruct (String.eqb k k') eqn:E.
  - apply String.eqb_eq in E; subst. intros H; inversion H; subst. left; reflexivity.
  - intros H; right; apply IH; exact H.
Qed.

Lemma lookup_none k l : lookup k l = None <-> ~ In k (keys l).
Proof.
  induction l as [|[k' v'] r IH]; simpl.
  - split; [intros _ []|reflexivity].
  - destruct (String.eqb k k') eqn:E.
    + apply String.eqb_eq in E; subst. split; [discriminate|]. intros H; exfalso; apply H; left; reflexivity.
    + apply String.eqb_neq in E. rewrite IH. split.
      * intros H [H1|H1]; [apply E; symmetry; exact H1 | apply H; exact H1].
      * intros H H1; apply H; right; exact H1.
Qed.

Lemma lookup_in k v l : NoDup (keys l) -> In (k, v) l -> lookup k l = Some v.
Proof.
  induction l as [|[k' v'] r IH]; simpl; [intros _ []|].
  intros Hnd [Heq|Hin].
  - inversion Heq; subst. rewrite String.eqb_refl. reflexivity.
  - inversion Hnd as [|? ? Hnot Hnd']; subst.
    destruct (String.eqb k k') eqn:E.
    + apply String.eqb_eq in E; subst. exfalso; apply Hnot.
      apply (in_map fst) in Hin. exact Hin.
    + apply IH; assumption.
Qed.

Lemma has_true k l : has k l = true <-> In k (keys l).
Proof.
  unfold has. destruct (lookup k l) eqn:E.
  - split; [intros _|reflexivity]. apply lookup_some_in in E. apply (in_map fst) in E; exact E.
  - split; [discriminate|]. intros H. apply lookup_none in E. contradiction.
Qed.

Lemma has_false k l : has k l = false <-> ~ In k (keys l).
Proof. rewrite <- has_true. destruct (has k l); split; congruence. Qed.

(** Extensionality of ascending association lists: a dict is determined by its lookups. *)
Lemma asc_ext l1 : forall l2,
  ascb (keys l1) = true -> ascb (keys l2) = true ->
  (forall k, lookup k l1 = lookup k l2) -> l1 = l2.
Proof.
  induction l1 as [|[k1 v1] r1 IH]; intros [|[k2 v2] r2] H1 H2 Hext.
  - reflexivity.
  - specialize (Hext k2). simpl in Hext. rewrite String.eqb_refl in Hext. discriminate.
  - specialize (Hext k1). simpl in Hext. rewrite String.eqb_refl in Hext. discriminate.
  - simpl in H1, H2.
    pose proof (asc_head_notin _ _ H1) as N1. pose proof (asc_head_notin _ _ H2) as N2.
    assert (k1 = k2) as ->.
    { destruct (slt_tricho k1 k2) as [E|[E|E]]; [exact E| |]; exfalso.
      - pose proof (Hext k1) as X. simpl in X. rewrite String.eqb_refl in X.
        rewrite (eqb_neq_false _ _ (slt_neq _ _ E)) in X.
        symmetry in X. apply lookup_some_in in X. apply (in_map fst) in X. simpl in X.
        apply asc_cons in H2 as [Hall _]. specialize (Hall _ X).
        rewrite (slt_asym _ _ E) in Hall. discriminate.
      - pose proof (Hext k2) as X. simpl in X. rewrite String.eqb_refl in X.
        rewrite (eqb_neq_false _ _ (slt_neq _ _ E)) in X.
        apply lookup_some_in in X. apply (in_map fst) in X. simpl in X.
        apply asc_cons in H1 as [Hall _]. specialize (Hall _ X).
        rewrite (slt_asym _ _ E) in Hall. discriminate. }
    pose proof (Hext k2) as X. simpl in X. rewrite String.eqb_refl in X. inversion X; subst v2.
    f_equal. apply IH; [eapply asc_tail; exact H1 | eapply asc_tail; exact H2 |].
    intros k. destruct (String.eqb k k2) eqn:E.
    + apply String.eqb_eq in E; subst k.
      apply lookup_none in N1. apply lookup_none in N2. congruence.
    + specialize (Hext k). simpl in Hext. rewrite E in Hext. exact Hext.
Qed.

(** ** Canonical trees *)

Lemma canon_D l :
  canonb (D l) = true <-> ascb (keys l) = true /\ forall kv, In kv l -> canonb (snd kv) = true.
Proof. simpl. rewrite andb_true_iff, forallb_forall. reflexivity. Qed.

Lemma canon_child l k v : canonb (D l) = true -> In (k, v) l -> canonb v = true.
Proof. intros H Hin. apply canon_D in H as [_ H]. exact (H _ Hin). Qed.

Lemma canon_lookup l k v : canonb (D l) = true -> lookup k l = Some v -> canonb v = true.
Proof. intros H E. eapply canon_child; [exact H | apply lookup_some_in; exact E]. Qed.

Lemma canon_nodup l : canonb (D l) = true -> NoDup (keys l).
Proof. intros H. apply canon_D in H as [H _]. apply asc_nodup; exact H. Qed.

(** ** [compare] reports nothing exactly on equal trees *)

Lemma dir_node_none p a b rem md add :
  dir_node p a b rem md add = None <-> rem = [] /\ md = [] /\ add = [].
Proof.
  unfold dir_node. destruct rem, md, add; split; try discriminate; try tauto;
    intros (H1 & H2 & H3); discriminate.
Qed.

Lemma dir_node_some p a b rem md add d :
  dir_node p a b rem md add = Some d -> d = Node p (Some a) (Some b) rem md add.
Proof. unfold dir_node. destruct rem, md, add; intros H; inversion H; reflexivity. Qed.

Lemma cmp_DD p l1 l2 :
  cmp p (D l1) (D l2) =
  dir_node p (D l1) (D l2) (kids_removed p (only_in l1 l2))
    (kids_modified (fun k v w => cmp (p ++ [k]) v w) l1 l2)
    (kids_added p (only_in l2 l1)).
Proof. reflexivity. Qed.

Lemma map_nil_iff {X Y} (f : X -> Y) l : map f l = [] <-> l = [].
Proof. destruct l; simpl; split; congruence. Qed.

Lemma only_in_nil l other : only_in l other = [] <-> forall kv, In kv l -> has (fst kv) other = true.
Proof.
  unfold only_in. induction l as [|kv r IH]; simpl.
  - split; [intros _ ? []|reflexivity].
  - destruct (has (fst kv) other) eqn:E; simpl.
    + rewrite IH. split; [intros H x [<-|Hx]; auto | intros H x Hx; apply H; right; exact Hx].
    + split; [discriminate|]. intros H. specialize (H kv (or_introl eq_refl)). congruence.
Qed.

Lemma kids_modified_nil f l1 l2 :
  kids_modified f l1 l2 = [] <->
  forall k v w, In (k, v) l1 -> lookup k l2 = Some w -> f k v w = None.
Proof.
  unfold kids_modified. induction l1 as [|[k v] r IH]; simpl.
  - split; [intros _ ? ? ? []|reflexivity].
  - split.
    + intros H. apply app_eq_nil in H as [H1 H2]. rewrite IH in H2.
      intros k' v' w [Heq|Hin] Hl; [|eapply H2; eassumption].
      inversion Heq; subst. rewrite Hl in H1. destruct (f k' v' w); [discriminate|reflexivity].
    + intros H. assert (Hr : forall k' v' w, In (k', v') r -> lookup k' l2 = Some w -> f k' v' w = None)
        by (intros; eapply H; [right|]; eassumption).
      apply IH in Hr. rewrite Hr, app_nil_r.
      destruct (lookup k l2) as [w|] eqn:Hl; [|reflexivity].
      rewrite (H k v w (or_introl eq_refl) Hl). reflexivity.
Qed.

Lemma cmp_none_iff a : forall b p,
  canonb a = true -> canonb b = true -> (cmp p a b = None <-> a = b).
Proof.
  induction a as [s|l1 IH] using dtree_ind'; intros [t|l2] p Ca Cb.
  - simpl. destruct (String.eqb s t) eqn:E.
    + apply String.eqb_eq in E; subst. split; reflexivity.
    + apply String.eqb_neq in E. split; [discriminate|]. intros H; inversion H; contradiction.
  - simpl. split; discriminate.
  - simpl. split; discriminate.
  - rewrite cmp_DD, dir_node_none. unfold kids_removed, kids_added.
    rewrite !map_nil_iff, !only_in_nil, kids_modified_nil.
    pose proof (canon_nodup _ Ca) as N1. pose proof (canon_nodup _ Cb) as N2.
    split.
    + intros (Hr & Hm & Ha). f_equal.
      apply canon_D in Ca as [A1 C1]. apply canon_D in Cb as [A2 C2].
      apply asc_ext; [exact A1 | exact A2 |].
      intros k. destruct (lookup k l1) as [v|] eqn:E1.
      * pose proof (lookup_some_in _ _ _ E1) as Hin.
        specialize (Hr _ Hin). simpl in Hr. unfold has in Hr.
        destruct (lookup k l2) as [w|] eqn:E2; [|discriminate].
        specialize (Hm _ _ _ Hin E2).
        rewrite Forall_forall in IH. specialize (IH _ Hin). simpl in IH.
        apply IH in Hm; [congruence | exact (C1 _ Hin) |].
        exact (C2 _ (lookup_some_in _ _ _ E2)).
      * destruct (lookup k l2) as [w|] eqn:E2; [|reflexivity].
        pose proof (lookup_some_in _ _ _ E2) as Hin.
        specialize (Ha _ Hin). simpl in Ha. unfold has in Ha. rewrite E1 in Ha. discriminate.
    + intros H; inversion H; subst l2. repeat split.
      * intros kv Hin. apply has_true. apply in_map; exact Hin.
      * intros k v w Hin Hl. rewrite (lookup_in _ _ _ N1 Hin) in Hl. inversion Hl; subst w.
        rewrite Forall_forall in IH. specialize (IH _ Hin). simpl in IH.
        apply IH; [| |reflexivity]; eapply canon_child; eassumption.
      * intros kv Hin. apply has_true. apply in_map; exact Hin.
Qed.

(** [DirDiff.compare(a, b).is_empty] iff [a = b] (entities may be absent). *)
Lemma compare_none_iff a b p :
  canone a = true -> canone b = true -> (compare a b p = None <-> a = b).
Proof.
  destruct a as [a|], b as [b|]; simpl; intros Ca Cb.
  - rewrite cmp_none_iff by assumption. split; congruence.
  - split; discriminate.
  - split; discriminate.
  - split; reflexivity.
Qed.

Lemma is_empty_iff a b :
  canone a = true -> canone b = true -> (is_empty (dirdiff a b) = true <-> a = b).
Proof.
  intros Ca Cb. unfold dirdiff. rewrite <- (compare_none_iff a b [] Ca Cb).
  destruct (compare a b []); simpl; split; congruence.
Qed.
