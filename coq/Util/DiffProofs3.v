(** * Proofs about the directory-diff model (C18), part 3:
      consuming the listing in order, one shallow file-system step per node,
      is never refused and turns the old snapshot into the new one. *)
From Coq Require Import List String Ascii Bool Lia Permutation.
From MV Require Import Base.Sx Base.Cmp Util.Diff Util.DiffProofs Util.DiffProofs2.
Import ListNotations.
Local Open Scope list_scope.

(** ** Dict updates on ascending association lists *)

Lemma scmp_gt_neq k k' : scmp k k' = Gt -> String.eqb k k' = false.
Proof.
  intros H. apply String.eqb_neq. intros ->. rewrite (c_refl scmp_ok) in H. discriminate.
Qed.

Lemma scmp_lt_neq k k' : scmp k k' = Lt -> String.eqb k k' = false.
Proof.
  intros H. apply String.eqb_neq. intros ->. rewrite (c_refl scmp_ok) in H. discriminate.
Qed.

Lemma lookup_put k v l k' :
  lookup k' (put k v l) = if String.eqb k' k then Some v else lookup k' l.
Proof.
  induction l as [|[k0 v0] r IH]; simpl.
  - destruct (String.eqb k' k); reflexivity.
  - destruct (scmp k k0) eqn:E; simpl.
    + apply (c_eq scmp_ok) in E; subst k0. destruct (String.eqb k' k); reflexivity.
    + destruct (String.eqb k' k); reflexivity.
    + rewrite IH. destruct (String.eqb k' k) eqn:E1; [|reflexivity].
      apply String.eqb_eq in E1; subst k'. rewrite (scmp_gt_neq _ _ E). reflexivity.
Qed.

Lemma lookup_del k l k' :
  lookup k' (del k l) = if String.eqb k' k then None else lookup k' l.
Proof.
  unfold del. induction l as [|[k0 v0] r IH]; simpl.
  - destruct (String.eqb k' k); reflexivity.
  - destruct (String.eqb k k0) eqn:E; simpl.
    + apply String.eqb_eq in E; subst k0. rewrite IH. destruct (String.eqb k' k); reflexivity.
    + rewrite IH. destruct (String.eqb k' k) eqn:E1; [|reflexivity].
      apply String.eqb_eq in E1; subst k'. rewrite E. reflexivity.
Qed.

Lemma lookup_upd k c l k' :
  lookup k' (upd k c l) = if String.eqb k' k then c else lookup k' l.
Proof. destruct c; simpl; [apply lookup_put | apply lookup_del]. Qed.

Lemma keys_put k v l x : In x (map fst (put k v l)) -> x = k \/ In x (map fst l).
Proof.
  induction l as [|[k0 v0] r IH]; simpl.
  - intros [<-|[]]; auto.
  - destruct (scmp k k0); simpl.
    + intros [<-|H]; auto.
    + intros [<-|[<-|H]]; auto.
    + intros [<-|H]; auto. apply IH in H as [->|H]; auto.
Qed.

Lemma asc_put k v l : ascb (map fst l) = true -> ascb (map fst (put k v l)) = true.
Proof.
  induction l as [|[k0 v0] r IH]; intros A; [reflexivity|].
  simpl. destruct (scmp k k0) eqn:E.
  - apply (c_eq scmp_ok) in E; subst k0. exact A.
  - change (ascb (k :: k0 :: map fst r) = true). apply asc_cons. split; [|exact A].
    assert (Hk : slt k k0 = true) by (apply slt_lt; exact E).
    intros k' [<-|Hin]; [exact Hk|]. simpl in A. apply asc_cons in A as [Hall _].
    eapply slt_trans; [exact Hk | apply Hall; exact Hin].
  - change (ascb (k0 :: map fst (put k v r)) = true). simpl in A.
    pose proof (asc_tail _ _ A) as At. apply asc_cons in A as [Hall _].
    apply asc_cons. split; [|apply IH; exact At].
    intros k' Hin. apply keys_put in Hin as [->|Hin]; [|apply Hall; exact Hin].
    apply slt_lt. apply (c_gt_lt scmp_ok). exact E.
Qed.

Lemma keys_del k l : map fst (del k l) = filter (fun x => negb (String.eqb k x)) (map fst l).
Proof.
  unfold del. induction l as [|[k0 v0] r IH]; simpl; [reflexivity|].
  destruct (negb (String.eqb k k0)); simpl; rewrite IH; reflexivity.
Qed.

Lemma asc_upd k c l : ascb (map fst l) = true -> ascb (map fst (upd k c l)) = true.
Proof.
  intros A. destruct c; simpl; [apply asc_put; exact A|]. rewrite keys_del. apply asc_filter; exact A.
Qed.

Lemma upd_upd k x y l : ascb (map fst l) = true -> upd k y (upd k x l) = upd k y l.
Proof.
  intros A. apply asc_ext; [apply asc_upd, asc_upd, A | apply asc_upd, A |].
  intros k'. rewrite !lookup_upd. destruct (String.eqb k' k); reflexivity.
Qed.

Lemma upd_lookup_id k l : ascb (map fst l) = true -> upd k (lookup k l) l = l.
Proof.
  intros A. apply asc_ext; [apply asc_upd, A | exact A |].
  intros k'. rewrite lookup_upd. destruct (String.eqb k' k) eqn:E; [|reflexivity].
  apply String.eqb_eq in E; subst; reflexivity.
Qed.

Lemma asc_all_none l : (forall k, lookup k l = None) -> l = [].
Proof.
  destruct l as [|[k v] r]; [reflexivity|]. intros H. specialize (H k). simpl in H.
  rewrite String.eqb_refl in H. discriminate.
Qed.

(** ** Running a script relative to a location *)

Fixpoint strip (p q : path) : option path :=
  match p, q with
  | [], _ => Some q
  | a :: p', b :: q' => if String.eqb a b then strip p' q' else None
  | _ :: _, [] => None
  end.

Lemma strip_app p q : strip p (p ++ q) = Some q.
Proof. induction p as [|a p IH]; simpl; [reflexivity|]. rewrite String.eqb_refl. exact IH. Qed.

Lemma strip_self p : strip p p = Some [].
Proof. rewrite <- (app_nil_r p) at 2. apply strip_app. Qed.

Definition rel_apply (p : path) (x : ent) (n : dnode) : option ent :=
  match strip p (npath n) with
  | Some q => at_path q (act (nprev n) (ncurr n)) x
  | None => None
  end.

Fixpoint rel_run (p : path) (ns : list dnode) (x : ent) : option ent :=
  match ns with
  | [] => Some x
  | n :: r => match rel_apply p x n with Some x' => rel_run p r x' | None => None end
  end.

Lemma rel_run_root ns : forall x, rel_run [] ns x = run_script ns x.
Proof.
  induction ns as [|n r IH]; intros x; simpl; [reflexivity|].
  unfold rel_apply, apply1. simpl. destruct (at_path (npath n) _ x); [apply IH | reflexivity].
Qed.

Lemma rel_run_app p l1 l2 : forall x,
  rel_run p (l1 ++ l2) x = match rel_run p l1 x with Some y => rel_run p l2 y | None => None end.
Proof.
  induction l1 as [|n r IH]; intros x; simpl; [reflexivity|].
  destruct (rel_apply p x n); [apply IH | reflexivity].
Qed.

(** a script all of whose paths lie below the entry [k] of a directory only changes that entry *)
Lemma rel_lift p k ns :
  (forall n, In n ns -> exists q, npath n = (p ++ [k]) ++ q) ->
  forall l, ascb (map fst l) = true ->
  rel_run p ns (Some (D l)) =
  match rel_run (p ++ [k]) ns (lookup k l) with
  | Some y => Some (Some (D (upd k y l)))
  | None => None
  end.
Proof.
  induction ns as [|n r IH]; intros Hp l A.
  - simpl. rewrite upd_lookup_id by exact A. reflexivity.
  - destruct (Hp n (or_introl eq_refl)) as (q & Eq).
    assert (Hr : forall n', In n' r -> exists q, npath n' = (p ++ [k]) ++ q)
      by (intros; apply Hp; right; assumption).
    simpl. unfold rel_apply. rewrite Eq, strip_app.
    rewrite <- app_assoc. simpl. rewrite strip_app. simpl.
    destruct (at_path q (act (nprev n) (ncurr n)) (lookup k l)) as [c'|]; [|reflexivity].
    rewrite (IH Hr _ (asc_upd k c' l A)). rewrite lookup_upd, String.eqb_refl.
    destruct (rel_run (p ++ [k]) r c') as [y|]; [|reflexivity].
    rewrite upd_upd by exact A. reflexivity.
Qed.

(** ** Sorting a bucket only permutes the children *)

Lemma insert_by_map {X} (g : dnode -> path * X) c r :
  exists r', Permutation r' (c :: r) /\ insert_by (g c) (map g r) = map g r'.
Proof.
  induction r as [|y r IH]; simpl.
  - exists [c]. split; [apply Permutation_refl | reflexivity].
  - destruct (pathcmp (fst (g c)) (fst (g y))).
    + exists (c :: y :: r). split; [apply Permutation_refl | reflexivity].
    + exists (c :: y :: r). split; [apply Permutation_refl | reflexivity].
    + destruct IH as (r' & P & E). exists (y :: r'). split; [|simpl; rewrite E; reflexivity].
      eapply Permutation_trans; [apply perm_skip; exact P | apply perm_swap].
Qed.

Lemma sort_by_map {X} (g : dnode -> path * X) cs :
  exists cs', Permutation cs' cs /\ sort_by (map g cs) = map g cs'.
Proof.
  induction cs as [|c r IH]; simpl.
  - exists []. split; [constructor | reflexivity].
  - destruct IH as (r' & P & E). rewrite E.
    destruct (insert_by_map g c r') as (r'' & P' & E'). exists r''. split; [|exact E'].
    eapply Permutation_trans; [exact P' | apply perm_skip; exact P].
Qed.

Lemma block_flat (f : dnode -> list dnode) cs :
  exists cs', Permutation cs' cs /\ block f cs = flat_map f cs'.
Proof.
  destruct (sort_by_map (fun c => (npath c, f c)) cs) as (cs' & P & E).
  exists cs'. split; [exact P|]. unfold block. rewrite E, map_map. simpl.
  rewrite <- flat_map_concat_map. reflexivity.
Qed.

(** ** Running the listings of a list of children of one directory *)

Definition script_ok (c : dnode) : Prop :=
  rel_run (npath c) (nodes c) (nprev c) = Some (ncurr c).

Lemma run_children p cs :
  (forall c, In c cs -> exists k, npath c = p ++ [k] /\ good c /\ script_ok c) ->
  NoDup (map npath cs) ->
  forall l, ascb (map fst l) = true ->
  (forall c k, In c cs -> npath c = p ++ [k] -> lookup k l = nprev c) ->
  exists l', rel_run p (flat_map nodes cs) (Some (D l)) = Some (Some (D l')) /\
             ascb (map fst l') = true /\
             (forall c k, In c cs -> npath c = p ++ [k] -> lookup k l' = ncurr c) /\
             (forall k, (forall c, In c cs -> npath c <> p ++ [k]) -> lookup k l' = lookup k l).
Proof.
  induction cs as [|c r IH]; intros Hc N l A Hl.
  - exists l. simpl. repeat split; auto. intros c k [].
  - destruct (Hc c (or_introl eq_refl)) as (k & Ek & Gc & Sc).
    inversion N as [|? ? Nn Nr]; subst.
    assert (Hlift : rel_run p (nodes c) (Some (D l)) = Some (Some (D (upd k (ncurr c) l)))).
    { rewrite (rel_lift p k).
      - rewrite (Hl c k (or_introl eq_refl) Ek), <- Ek. unfold script_ok in Sc. rewrite Sc. reflexivity.
      - intros n Hn. destruct (nodes_fields _ _ Gc Hn) as (q & Eq & _). exists q. rewrite Eq, Ek. reflexivity.
      - exact A. }
    assert (Hl' : forall c' k', In c' r -> npath c' = p ++ [k'] ->
                  lookup k' (upd k (ncurr c) l) = nprev c').
    { intros c' k' Hin E'. rewrite lookup_upd. destruct (String.eqb k' k) eqn:E.
      - apply String.eqb_eq in E; subst k'. exfalso. apply Nn. rewrite Ek, <- E'. apply in_map; exact Hin.
      - apply Hl; [right; exact Hin | exact E']. }
    destruct (IH (fun c' H => Hc c' (or_intror H)) Nr _ (asc_upd k (ncurr c) l A) Hl')
      as (l' & R & A' & L1 & L2).
    exists l'. split; [|split; [exact A'|split]].
    + simpl. rewrite rel_run_app, Hlift. exact R.
    + intros c' k' [<-|Hin] E'.
      * rewrite Ek in E'. apply app_inv_head in E'. inversion E'; subst k'.
        rewrite L2.
        -- rewrite lookup_upd, String.eqb_refl. reflexivity.
        -- intros c' Hin E2. apply Nn. rewrite Ek, <- E2. apply in_map; exact Hin.
      * apply L1; assumption.
    + intros k' Hno. rewrite L2 by (intros c' Hin; apply Hno; right; exact Hin).
      rewrite lookup_upd. destruct (String.eqb k' k) eqn:E; [|reflexivity].
      apply String.eqb_eq in E; subst k'. exfalso. exact (Hno c (or_introl eq_refl) Ek).
Qed.

(** ** The main induction *)

Lemma perm_nil_l {X} (l : list X) : Permutation l [] -> l = [].
Proof. intros H. apply Permutation_sym in H. apply Permutation_nil in H. exact H. Qed.

(** when every child has been processed, the directory has the new content *)
Lemma final_lookup d l :
  good d ->
  (forall c k, In c (children d) -> npath c = npath d ++ [k] -> lookup k l = ncurr c) ->
  (forall k, (forall c, In c (children d) -> npath c <> npath d ++ [k]) ->
             lookup k l = osub (nprev d) [k]) ->
  forall k, lookup k l = osub (ncurr d) [k].
Proof.
  intros G H1 H2 k. pose proof (good_level _ G) as L. destruct G as (Ca & Cb & _).
  destruct (compare (osub (nprev d) [k]) (osub (ncurr d) [k]) (npath d ++ [k])) as [c|] eqn:E.
  - pose proof (lv_all _ L _ _ E) as Hc. destruct (child_fields _ _ _ E) as (E1 & _ & E3).
    rewrite (H1 c k Hc E1). exact E3.
  - rewrite H2.
    + apply compare_none_iff in E; [exact E| |]; apply canone_one; assumption.
    + intros c Hc Ec. destruct (level_children _ _ L Hc) as (k' & Hk').
      destruct (child_fields _ _ _ Hk') as (E1 & _). rewrite E1 in Ec.
      apply app_inv_head in Ec. inversion Ec; subst k'. unfold child_of in Hk'. congruence.
Qed.

Lemma script_node : forall d, good d -> script_ok d.
Proof.
  induction d as [p pv cu rem md add IH1 IH2 IH3] using dnode_ind'. intros G.
  set (d := Node p pv cu rem md add) in *.
  assert (IH : forall c, In c (children d) -> exists k, npath c = p ++ [k] /\ good c /\ script_ok c).
  { assert (F : Forall (fun c => good c -> script_ok c) (children d))
      by (repeat (apply Forall_app; split); assumption).
    rewrite Forall_forall in F. intros c Hc.
    destruct (child_facts _ _ G Hc) as (k & Ek & Gc). exists k. auto. }
  pose proof (good_level _ G) as L.
  pose proof (level_children_nodup _ L) as N.
  destruct (block_flat nodes rem) as (rem' & Prem & Erem).
  destruct (block_flat nodes md) as (md' & Pmd & Emd).
  destruct (block_flat nodes add) as (add' & Padd & Eadd).
  unfold script_ok. rewrite nodes_eq. simpl nrem; simpl nmd; simpl nadd; simpl npath; simpl nprev; simpl ncurr.
  rewrite Erem, Emd, Eadd, app_assoc, <- flat_map_app.
  assert (P1 : Permutation (rem' ++ md') (rem ++ md)) by (apply Permutation_app; assumption).
  assert (Pall : Permutation ((rem' ++ md') ++ add') (children d)).
  { unfold children; simpl. rewrite app_assoc. apply Permutation_app; assumption. }
  assert (Nall : NoDup (map npath ((rem' ++ md') ++ add'))).
  { eapply Permutation_NoDup; [apply Permutation_map, Permutation_sym, Pall | exact N]. }
  rewrite map_app in Nall. apply NoDup_app_iff in Nall as (N1 & N3 & Ndis).
  assert (In1 : forall c, In c (rem' ++ md') -> In c (children d)).
  { intros c H. apply (Permutation_in _ Pall). apply in_or_app; left; exact H. }
  assert (In3 : forall c, In c add' -> In c (children d)).
  { intros c H. apply (Permutation_in _ Pall). apply in_or_app; right; exact H. }
  assert (Hprev : forall c k, In c (children d) -> npath c = p ++ [k] -> nprev c = osub pv [k]).
  { intros c k Hc Ec. destruct (level_children _ _ L Hc) as (k' & Hk').
    destruct (child_fields _ _ _ Hk') as (E1 & E2 & _). simpl in E1, E2. rewrite E1 in Ec.
    apply app_inv_head in Ec. inversion Ec; subst k'. exact E2. }
  (* the bucket a child is in, from the shape of the parent's entries *)
  assert (Hin_rm : forall c, In c (rem' ++ md') -> exists k, npath c = p ++ [k] /\ osub pv [k] <> None).
  { intros c H. apply (Permutation_in _ P1) in H. apply in_app_or in H as [H|H].
    - destruct (lv_rem _ L _ H) as (k & Hk & X & _). exists k. split; [apply (child_fields _ _ _ Hk) | exact X].
    - destruct (lv_md _ L _ H) as (k & Hk & X & _). exists k. split; [apply (child_fields _ _ _ Hk) | exact X]. }
  assert (Hin_add : forall c, In c add' -> exists k, npath c = p ++ [k] /\ osub pv [k] = None /\ osub cu [k] <> None).
  { intros c H. apply (Permutation_in _ Padd) in H.
    destruct (lv_add _ L _ H) as (k & Hk & X & Y). exists k. split; [apply (child_fields _ _ _ Hk) | auto]. }
  assert (Hin_md : forall c, In c md -> exists k, osub cu [k] <> None).
  { intros c H. destruct (lv_md _ L _ H) as (k & _ & _ & Y). eauto. }
  (* phase 3, shared: from a directory [l0] that agrees with the old entries outside the
     added keys and already has the new entries of the removed/modified keys *)
  assert (Phase3 : forall l2 l0, cu = Some (D l2) -> ascb (map fst l0) = true ->
            (forall c k, In c (rem' ++ md') -> npath c = p ++ [k] -> lookup k l0 = ncurr c) ->
            (forall k, (forall c, In c (rem' ++ md') -> npath c <> p ++ [k]) -> lookup k l0 = osub pv [k]) ->
            rel_run p (flat_map nodes add') (Some (D l0)) = Some cu).
  { intros l2 l0 Ecu A0 K1 K2.
    destruct (run_children p add' (fun c H => IH c (In3 c H)) N3 l0 A0) as (l' & R & A' & L1 & L2).
    - intros c k Hc Ec. rewrite (Hprev c k (In3 c Hc) Ec).
      destruct (Hin_add c Hc) as (k' & Ec' & X & _). rewrite Ec in Ec'.
      apply app_inv_head in Ec'. inversion Ec'; subst k'. rewrite X.
      rewrite K2; [exact X|]. intros c' Hc' Ec2. apply (Ndis (npath c)).
      + rewrite Ec, <- Ec2. apply in_map; exact Hc'.
      + apply in_map; exact Hc.
    - rewrite R. subst cu. assert (l' = l2) as ->; [|reflexivity].
      pose proof G as (_ & Cb & _). simpl in Cb. apply canon_D in Cb as [A2 _].
      apply asc_ext; [exact A' | exact A2 |]. intros k. rewrite <- (osub_one_D l2 k).
      apply (final_lookup d l' G).
      + intros c k' Hc Ec. apply (Permutation_in _ (Permutation_sym Pall)) in Hc.
        apply in_app_or in Hc as [Hc|Hc]; [|apply L1; assumption].
        rewrite L2; [apply K1; assumption|].
        intros c' Hc' Ec2. apply (Ndis (npath c)).
        * apply in_map; exact Hc.
        * simpl in Ec. rewrite Ec, <- Ec2. apply in_map; exact Hc'.
      + intros k' Hno. simpl. rewrite L2, K2; [reflexivity| |].
        * intros c Hc. apply Hno, In1, Hc.
        * intros c Hc. apply Hno, In3, Hc. }
  destruct pv as [[s|l1]|].
  - (* a file before: nothing to remove inside *)
    assert (Enil : rem' ++ md' = []).
    { destruct (rem' ++ md') as [|c r] eqn:E; [reflexivity|]. exfalso.
      destruct (Hin_rm c (or_introl eq_refl)) as (k & _ & X). apply X. reflexivity. }
    rewrite Enil.
    simpl flat_map. simpl app. simpl rel_run. unfold rel_apply. simpl npath.
    rewrite strip_self. simpl at_path. simpl nprev. simpl ncurr.
    destruct cu as [[t|l2]|].
    + assert (add' = []) as ->.
      { destruct add' as [|c r]; [reflexivity|]. exfalso.
        destruct (Hin_add c (or_introl eq_refl)) as (k & _ & _ & X). apply X. reflexivity. }
      reflexivity.
    + simpl. apply (Phase3 l2 []); [reflexivity | reflexivity | intros c k Hc; rewrite Enil in Hc; destruct Hc | reflexivity].
    + assert (add' = []) as ->.
      { destruct add' as [|c r]; [reflexivity|]. exfalso.
        destruct (Hin_add c (or_introl eq_refl)) as (k & _ & _ & X). apply X. reflexivity. }
      reflexivity.
  - (* a directory before *)
    pose proof G as (Ca & _ & _). simpl in Ca. apply canon_D in Ca as [A1 _].
    destruct (run_children p (rem' ++ md') (fun c H => IH c (In1 c H)) N1 l1 A1) as (l' & R & A' & L1 & L2).
    { intros c k Hc Ec. rewrite (Hprev c k (In1 c Hc) Ec), osub_one_D. reflexivity. }
    rewrite rel_run_app, R. simpl rel_run. unfold rel_apply. simpl npath.
    rewrite strip_self. simpl at_path. simpl nprev. simpl ncurr.
    destruct cu as [[t|l2]|].
    + (* directory -> file: everything inside has been removed *)
      assert (add' = []) as ->.
      { destruct add' as [|c r]; [reflexivity|]. exfalso.
        destruct (Hin_add c (or_introl eq_refl)) as (k & _ & _ & X). apply X. reflexivity. }
      assert (l' = []) as ->.
      { apply asc_all_none. intros k. apply (final_lookup d l' G).
        - intros c k' Hc Ec. apply L1; [|exact Ec].
          apply (Permutation_in _ (Permutation_sym Pall)) in Hc. rewrite app_nil_r in Hc. exact Hc.
        - intros k' Hno. rewrite L2; [exact (eq_sym (osub_one_D l1 k'))|].
          intros c Hc. apply Hno, In1, Hc. }
      reflexivity.
    + simpl. apply (Phase3 l2 l'); [reflexivity | exact A' | exact L1 |].
      intros k Hno. rewrite L2; [exact (eq_sym (osub_one_D l1 k)) | exact Hno].
    + assert (add' = []) as ->.
      { destruct add' as [|c r]; [reflexivity|]. exfalso.
        destruct (Hin_add c (or_introl eq_refl)) as (k & _ & _ & X). apply X. reflexivity. }
      assert (l' = []) as ->.
      { apply asc_all_none. intros k. apply (final_lookup d l' G).
        - intros c k' Hc Ec. apply L1; [|exact Ec].
          apply (Permutation_in _ (Permutation_sym Pall)) in Hc. rewrite app_nil_r in Hc. exact Hc.
        - intros k' Hno. rewrite L2; [exact (eq_sym (osub_one_D l1 k'))|].
          intros c Hc. apply Hno, In1, Hc. }
      reflexivity.
  - (* nothing before *)
    assert (Enil : rem' ++ md' = []).
    { destruct (rem' ++ md') as [|c r] eqn:E; [reflexivity|]. exfalso.
      destruct (Hin_rm c (or_introl eq_refl)) as (k & _ & X). apply X. reflexivity. }
    rewrite Enil.
    simpl flat_map. simpl app. simpl rel_run. unfold rel_apply. simpl npath.
    rewrite strip_self. simpl at_path. simpl nprev. simpl ncurr.
    destruct cu as [[t|l2]|].
    + assert (add' = []) as ->.
      { destruct add' as [|c r]; [reflexivity|]. exfalso.
        destruct (Hin_add c (or_introl eq_refl)) as (k & _ & _ & X). apply X. reflexivity. }
      reflexivity.
    + simpl. apply (Phase3 l2 []); [reflexivity | reflexivity | intros c k Hc; rewrite Enil in Hc; destruct Hc | reflexivity].
    + exfalso. destruct G as (_ & _ & G). simpl in G. discriminate.
Qed.

Lemma script_correct a b : canone a = true -> canone b = true ->
  run_script (listing (dirdiff a b)) a = Some b.
Proof.
  intros Ca Cb. destruct (dirdiff a b) as [d|] eqn:E.
  - destruct (dirdiff_good _ _ _ Ca Cb E) as (G & Ep & Ea & Eb).
    pose proof (script_node d G) as S. unfold script_ok in S.
    rewrite Ep, Ea, Eb, rel_run_root in S. exact S.
  - unfold dirdiff in E. apply (compare_none_iff a b [] Ca Cb) in E. subst. reflexivity.
Qed.
