(** * Model of directory hashsums (property C19).

    Transcribes, as total Gallina functions, [metador_core/util/hashsums.py]:
    - [hashsum]: the read loop [while True: chunk = data.read(block); if not chunk: break;
      h.update(chunk)] over an abstract streaming hash ([init], [upd], [fin]);
    - [qualified_hashsum] / [file_hashsum]: the ["<alg>:"] prefix;
    - [rel_symlink]: join the link's directory with the link text, normalise
      (empty and ["."] segments dropped, [".."] pops, as [Path.resolve] does when no
      component is itself a symlink), make relative to the base or report "outside";
    - [dir_hashsums]: one value per entry of the directory: files get their qualified
      digest, symlinks (tested FIRST: the repaired order of the case split) get
      ["symlink:" ++ target] or make the whole call fail when the target is outside,
      directories (also empty ones) get a nested table.

    The pinned tree tests [is_file()] (which follows links) before [is_symlink()]; that rule
    is kept as [hs_pinned] and refuted in [DirHashProofs.v].

    The nested-dict construction from the [rglob] listing is represented by structural
    recursion over the tree: one table per directory, entries in listing order.  Listing
    order is arbitrary on a real file system and irrelevant for Python [dict] equality;
    [tsort]/[hsort] give the canonical (name-sorted) representatives.

    Strings are byte strings; names are compared by code point ([scmp]).  This file
    contains definitions only. *)
From Coq Require Import List String Ascii NArith Bool.
From MV Require Import Base.Sx Base.Cmp.
Import ListNotations.
Local Open Scope string_scope.

Definition bytes : Type := list ascii.
Definition digest : Type := string.

(** ** File-system trees *)

(** A symlink target after [rel_symlink]: a path relative to the base directory
    (the base itself is [In_ []], printed ["."]) or somewhere outside. *)
Inductive target : Type :=
| In_ (p : list string)
| Outside.

Inductive fstree : Type :=
| File (bs : bytes)
| Link (t : target)
| Dir (es : list (string * fstree)).

(** Result of [dir_hashsums]: [str] values and nested [dict]s. *)
Inductive hs_tree : Type :=
| HStr (s : string)
| HDir (es : list (string * hs_tree)).

(** ** Chunked reading: the sequence of non-empty blocks [read(n)] returns. *)

Fixpoint chunks_fuel {X : Type} (fuel n : nat) (l : list X) : list (list X) :=
  match fuel with
  | O => []
  | S f =>
      match firstn n l with
      | [] => []                                    (* [if not chunk: break] *)
      | c => c :: chunks_fuel f n (skipn n l)
      end
  end.

Definition chunks {X : Type} (n : nat) (l : list X) : list (list X) :=
  chunks_fuel (List.length l) n l.

(** ** Hash algorithms: names and block sizes as in [hashlib] *)

Inductive alg : Type := Sha256 | Sha512.

Definition alg_name (a : alg) : string :=
  match a with Sha256 => "sha256" | Sha512 => "sha512" end.

Definition alg_block (a : alg) : nat :=
  match a with Sha256 => 64 | Sha512 => 128 end.

Definition qualified (a : alg) (d : digest) : string := alg_name a ++ ":" ++ d.

Definition symlink_prefix : string := "symlink:".

(** ** Path printing ([str(PurePosixPath)]) and names *)

Fixpoint join_slash (s : string) (r : list string) : string :=
  match r with
  | [] => s
  | t :: r' => s ++ "/" ++ join_slash t r'
  end.

Definition show_path (p : list string) : string :=
  match p with
  | [] => "."
  | s :: r => join_slash s r
  end.

Definition is_slash (c : ascii) : bool := Ascii.eqb c "/".

Fixpoint no_slash (s : string) : bool :=
  match s with
  | EmptyString => true
  | String c r => negb (is_slash c) && no_slash r
  end.

(** A file name / normalised path segment. *)
Definition valid_seg (s : string) : bool :=
  negb (String.eqb s "") && negb (String.eqb s ".") && negb (String.eqb s "..") && no_slash s.

(** Inverse of [show_path] on valid segments (used for the injectivity proof). *)
Fixpoint split_slash (s : string) : list string :=
  match s with
  | EmptyString => [""]
  | String c r =>
      if is_slash c then "" :: split_slash r
      else match split_slash r with
           | [] => [String c ""]
           | h :: t => String c h :: t
           end
  end.

Definition parse_path (s : string) : list string :=
  if String.eqb s "." then [] else split_slash s.

(** ** The abstract streaming hash and everything that depends on it *)

Section Hash.
  Variable state : Type.
  Variable init : state.
  Variable upd : state -> bytes -> state.
  Variable fin : state -> digest.

  (** [hashsum(data, alg)] with block size [n]. *)
  Definition hashsum (n : nat) (bs : bytes) : digest :=
    fin (fold_left upd (chunks n bs) init).

  (** The standard digest of the whole byte string ([hashlib.new(alg, bs).hexdigest()]). *)
  Definition oneshot (bs : bytes) : digest := fin (upd init bs).

  Definition file_hashsum (n : nat) (a : alg) (bs : bytes) : string :=
    qualified a (hashsum n bs).

  Definition omap_snd {X Y : Type} (f : X -> option Y) : list (string * X) -> option (list (string * Y)) :=
    fix go (es : list (string * X)) : option (list (string * Y)) :=
      match es with
      | [] => Some []
      | (k, c) :: r =>
          match f c, go r with
          | Some c', Some r' => Some ((k, c') :: r')
          | _, _ => None
          end
      end.

  (** [dir_hashsums] (repaired case split: symlink first).  [None] = the call raises
      because some symlink points outside. *)
  Fixpoint hs (n : nat) (a : alg) (t : fstree) : option hs_tree :=
    match t with
    | Link (In_ p) => Some (HStr (symlink_prefix ++ show_path p))
    | Link Outside => None
    | File bs => Some (HStr (file_hashsum n a bs))
    | Dir es => option_map HDir (omap_snd (hs n a) es)
    end.

  Definition dir_hashsums (n : nat) (a : alg) (t : fstree) : option hs_tree := hs n a t.

  (** The pinned rule: [is_file()] is asked first and follows the link; [look] says which
      bytes a link leads to when its target is a regular file. *)
  Fixpoint hs_pinned (look : target -> option bytes) (n : nat) (a : alg) (t : fstree)
    : option hs_tree :=
    match t with
    | File bs => Some (HStr (file_hashsum n a bs))
    | Link tg =>
        match look tg with
        | Some bs => Some (HStr (file_hashsum n a bs))
        | None =>
            match tg with
            | In_ p => Some (HStr (symlink_prefix ++ show_path p))
            | Outside => None
            end
        end
    | Dir es => option_map HDir (omap_snd (hs_pinned look n a) es)
    end.
End Hash.

Arguments omap_snd {X Y} f es.

(** ** Looking up what a link leads to (for the pinned rule) *)

Fixpoint assoc {X : Type} (k : string) (es : list (string * X)) : option X :=
  match es with
  | [] => None
  | (k', v) :: r => if String.eqb k k' then Some v else assoc k r
  end.

Fixpoint tlookup (t : fstree) (p : list string) : option fstree :=
  match p with
  | [] => Some t
  | s :: r =>
      match t with
      | Dir es => match assoc s es with Some c => tlookup c r | None => None end
      | _ => None
      end
  end.

(** [ext] = content of the regular file an outside link leads to, if any. *)
Definition look_in (ext : option bytes) (root : fstree) (tg : target) : option bytes :=
  match tg with
  | In_ p => match tlookup root p with Some (File bs) => Some bs | _ => None end
  | Outside => ext
  end.

(** ** Well-formedness *)

Fixpoint sorted_names (l : list string) : bool :=
  match l with
  | [] => true
  | x :: r =>
      match r with
      | [] => true
      | y :: _ => ltb scmp x y && sorted_names r
      end
  end.

(** Link targets are normalised paths. *)
Fixpoint links_okb (t : fstree) : bool :=
  match t with
  | File _ => true
  | Link (In_ p) => forallb valid_seg p
  | Link Outside => true
  | Dir es => forallb (fun kc => links_okb (snd kc)) es
  end.

(** Canonical representative of a directory: names valid, strictly ascending, link
    targets normalised.  Two canonical trees are the same directory content iff equal. *)
Fixpoint canonb (t : fstree) : bool :=
  match t with
  | File _ => true
  | Link (In_ p) => forallb valid_seg p
  | Link Outside => true
  | Dir es =>
      sorted_names (map fst es) && forallb valid_seg (map fst es)
      && forallb (fun kc => canonb (snd kc)) es
  end.

Fixpoint nodupb (l : list string) : bool :=
  match l with
  | [] => true
  | x :: r => negb (existsb (String.eqb x) r) && nodupb r
  end.

(** A directory as listed in any order: names valid and distinct, link targets normalised. *)
Fixpoint wfb (t : fstree) : bool :=
  match t with
  | File _ => true
  | Link (In_ p) => forallb valid_seg p
  | Link Outside => true
  | Dir es =>
      nodupb (map fst es) && forallb valid_seg (map fst es)
      && forallb (fun kc => wfb (snd kc)) es
  end.

Fixpoint no_outsideb (t : fstree) : bool :=
  match t with
  | File _ => true
  | Link (In_ _) => true
  | Link Outside => false
  | Dir es => forallb (fun kc => no_outsideb (snd kc)) es
  end.

(** ** Canonical order of a listing (insertion sort on names), for trees and results *)

Fixpoint ins {X : Type} (k : string) (v : X) (l : list (string * X)) : list (string * X) :=
  match l with
  | [] => [(k, v)]
  | (k', v') :: r => if leb scmp k k' then (k, v) :: l else (k', v') :: ins k v r
  end.

Definition isort {X : Type} (l : list (string * X)) : list (string * X) :=
  fold_right (fun kv acc => ins (fst kv) (snd kv) acc) [] l.

Fixpoint tsort (t : fstree) : fstree :=
  match t with
  | Dir es => Dir (isort (map (fun kc => (fst kc, tsort (snd kc))) es))
  | t => t
  end.

Fixpoint hsort (h : hs_tree) : hs_tree :=
  match h with
  | HDir es => HDir (isort (map (fun kc => (fst kc, hsort (snd kc))) es))
  | h => h
  end.

(** ** [rel_symlink]: lexical normalisation of the joined path *)

Fixpoint norm_segs (acc : list string) (segs : list string) : list string :=
  match segs with
  | [] => rev acc
  | s :: r =>
      if String.eqb s "" || String.eqb s "." then norm_segs acc r
      else if String.eqb s ".." then norm_segs (tl acc) r       (* ".." at "/" stays at "/" *)
      else norm_segs (s :: acc) r
  end.

Fixpoint strip_prefix (b p : list string) : option (list string) :=
  match b with
  | [] => Some p
  | x :: b' =>
      match p with
      | y :: p' => if String.eqb x y then strip_prefix b' p' else None
      | [] => None
      end
  end.

(** [base]: absolute, already resolved base directory; [linkdir]: directory holding the
    link, relative to [base]; [ab]/[segs]: the link text split at "/" ([ab] = starts with "/"). *)
Definition rel_symlink (base linkdir : list string) (ab : bool) (segs : list string) : target :=
  let joined := if ab then segs else (base ++ linkdir ++ segs)%list in
  match strip_prefix base (norm_segs [] joined) with
  | Some p => In_ p
  | None => Outside
  end.

(** Trees as they lie on disk (raw link texts). *)
Inductive rtree : Type :=
| RFile (bs : bytes)
| RLink (ab : bool) (segs : list string)
| RDir (es : list (string * rtree)).

(** What the harness guarantees about a raw tree: names are valid, link texts were split
    at every "/". *)
Fixpoint raw_okb (t : rtree) : bool :=
  match t with
  | RFile _ => true
  | RLink _ segs => forallb no_slash segs
  | RDir es => forallb valid_seg (map fst es) && forallb (fun kc => raw_okb (snd kc)) es
  end.

(** [rme]: reversed path of the node itself relative to the base (root: []). *)
Fixpoint normalise (base rme : list string) (t : rtree) : fstree :=
  match t with
  | RFile bs => File bs
  | RLink ab segs => Link (rel_symlink base (rev (tl rme)) ab segs)
  | RDir es => Dir (map (fun kc => (fst kc, normalise base (fst kc :: rme) (snd kc))) es)
  end.

(** ** The instance executed by the runner: the "hash" accumulates the bytes it is fed and
    prints them, so the digest of a file is its content and the harness maps contents to
    real digests with [hashlib].  It is a streaming hash and it is injective
    (see [DirHashProofs.v]), so every theorem applies to it without premises. *)

Definition id_state : Type := bytes.
Definition id_init : id_state := [].
Definition id_upd (s : id_state) (x : bytes) : id_state := (s ++ x)%list.
Definition id_fin (s : id_state) : digest := string_of_list_ascii s.

Definition dir_hashsums_id : nat -> alg -> fstree -> option hs_tree :=
  dir_hashsums id_state id_init id_upd id_fin.

(** ** Runner entry point.
    [(tree n alg (base...) rawtree)] -> [(canon? no-outside? skeleton result)]
    [(chunks n content)]             -> the blocks the read loop feeds to the hash
    [(hash n content)]               -> the model digest (= content) after chunked feeding
    raw tree: [(f content)] | [(l T|F (seg...))] | [(d (name tree)...)] *)

Fixpoint dec_rtree (x : sx) : option rtree :=
  match x with
  | L [A "f"; A c] => Some (RFile (list_ascii_of_string c))
  | L [A "l"; ab; segs] =>
      match sx_bool ab, sx_strings segs with
      | Some ab, Some segs => Some (RLink ab segs)
      | _, _ => None
      end
  | L (A "d" :: es) =>
      option_map RDir
        (opt_all (map (fun e => match e with
                                | L [A k; c] => option_map (pair k) (dec_rtree c)
                                | _ => None
                                end) es))
  | _ => None
  end.

Definition dec_alg (x : sx) : option alg :=
  match x with
  | A "sha256" => Some Sha256
  | A "sha512" => Some Sha512
  | _ => None
  end.

Fixpoint enc_hs (h : hs_tree) : sx :=
  match h with
  | HStr s => A s
  | HDir es => L (map (fun kc => L [A (fst kc); enc_hs (snd kc)]) es)
  end.

(** Normalised tree without file contents. *)
Fixpoint enc_skel (t : fstree) : sx :=
  match t with
  | File _ => L [A "f"]
  | Link (In_ p) => L [A "in"; of_strings p]
  | Link Outside => L [A "out"]
  | Dir es => L (A "d" :: map (fun kc => L [A (fst kc); enc_skel (snd kc)]) es)
  end.

Definition run_c19 (x : sx) : sx :=
  match x with
  | L [A "tree"; n; a; base; t] =>
      match sx_nat n, dec_alg a, sx_strings base, dec_rtree t with
      | Some n, Some a, Some base, Some t =>
          let t' := normalise base [] t in
          L [of_bool (canonb t'); of_bool (no_outsideb t'); enc_skel t';
             of_opt enc_hs (dir_hashsums_id n a t')]
      | _, _, _, _ => sx_bad "tree"
      end
  | L [A "chunks"; n; A c] =>
      match sx_nat n with
      | Some n => L (map (fun ch => A (string_of_list_ascii ch)) (chunks n (list_ascii_of_string c)))
      | None => sx_bad "chunks"
      end
  | L [A "hash"; n; A c] =>
      match sx_nat n with
      | Some n => A (hashsum id_state id_init id_upd id_fin n (list_ascii_of_string c))
      | None => sx_bad "hash"
      end
  | _ => sx_bad "c19"
  end.
